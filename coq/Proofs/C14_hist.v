(* C14 — the other operations, one step, and whole read histories. *)
From Coq Require Import ZArith NArith List Bool Lia.
Import ListNotations.
From Verif Require Import Lib.Corr Gen.C14 Model.C14 Proofs.C14 Proofs.C14_main.
Open Scope Z_scope.

Definition op_truth (listing : N -> bool -> list N) (o : op) : list N :=
  match o with OIter d r => listing d r | _ => [] end.

Definition valid_op (o : op) : Prop :=
  match o with OGetRange _ off len => 0 <= off /\ 0 < len | _ => True end.

Definition res_of (x : outcome * cache) : result := fst (fst (fst x)).

Lemma get_ok g w listing c hits name : cache_ok w listing c ->
  res_of (get g w c hits name) = reference w (OGet name) [] /\ cache_ok w listing (snd (get g w c hits name)).
Proof.
  intro Hc. unfold get, reference, res_of.
  (* the part after a content miss *)
  assert (HB : forall rest : outcome * cache,
    rest = match fetch c hits (KExists name) with
           | Some (VBool false) => ((RErr, [], []), c)
           | _ => match find_obj w name with
                  | None => ((RErr, [], [KExists name]), store c (KExists name) (VBool false))
                  | Some o =>
                      if blen o <=? c_maxsize g
                      then ((RBytes o, [], [KExists name; KContent name]), store (store c (KExists name) (VBool true)) (KContent name) (VBytes o))
                      else ((RBytes o, [], [KExists name]), store c (KExists name) (VBool true))
                  end
           end ->
    fst (fst (fst rest)) = match find_obj w name with Some obj => RBytes obj | None => RErr end
    /\ cache_ok w listing (snd rest)).
  { intros rest ->.
    assert (HC : fst (fst (fst (match find_obj w name with
                  | None => ((RErr, [], [KExists name]), store c (KExists name) (VBool false))
                  | Some o =>
                      if blen o <=? c_maxsize g
                      then ((RBytes o, @nil (Z * Z), [KExists name; KContent name]), store (store c (KExists name) (VBool true)) (KContent name) (VBytes o))
                      else ((RBytes o, [], [KExists name]), store c (KExists name) (VBool true))
                  end))) = match find_obj w name with Some obj => RBytes obj | None => RErr end
            /\ cache_ok w listing (snd (match find_obj w name with
                  | None => ((RErr, @nil (Z * Z), [KExists name]), store c (KExists name) (VBool false))
                  | Some o =>
                      if blen o <=? c_maxsize g
                      then ((RBytes o, [], [KExists name; KContent name]), store (store c (KExists name) (VBool true)) (KContent name) (VBytes o))
                      else ((RBytes o, [], [KExists name]), store c (KExists name) (VBool true))
                  end))).
    { destruct (find_obj w name) as [o|] eqn:Eo.
      - destruct (blen o <=? c_maxsize g); simpl; (split; [reflexivity|]).
        + apply cache_ok_store; [apply cache_ok_store; [exact Hc|simpl; rewrite Eo; reflexivity]|simpl; exists o; auto].
        + apply cache_ok_store; [exact Hc|simpl; rewrite Eo; reflexivity].
      - simpl. split; [reflexivity|]. apply cache_ok_store; [exact Hc|simpl; rewrite Eo; reflexivity]. }
    destruct (fetch c hits (KExists name)) as [[b|z|[|]|l]|] eqn:E; try exact HC.
    apply fetch_some in E. apply Hc in E. simpl in E.
    destruct (find_obj w name); [discriminate|]. split; [reflexivity|exact Hc]. }
  destruct (fetch c hits (KContent name)) as [[[|x b]|z|b|l]|] eqn:E; try (apply HB; reflexivity).
  apply fetch_some in E. apply Hc in E. simpl in E. destruct E as (o & Ho & Hv). inversion Hv; subst.
  rewrite Ho. simpl. split; [congruence|exact Hc].
Qed.

Lemma exists_ok w listing c hits name : cache_ok w listing c ->
  res_of (exists_ w c hits name) = reference w (OExists name) [] /\ cache_ok w listing (snd (exists_ w c hits name)).
Proof.
  intro Hc. unfold exists_, reference, res_of.
  destruct (fetch c hits (KExists name)) as [[b|z|b|l]|] eqn:E;
    try (simpl; split; [reflexivity|apply cache_ok_store; [exact Hc|reflexivity]]).
  apply fetch_some in E. apply Hc in E. simpl in E. inversion E; subst. simpl. split; [reflexivity|exact Hc].
Qed.

Lemma attributes_ok w listing c hits name : cache_ok w listing c ->
  res_of (attributes w c hits name) = reference w (OAttr name) [] /\ cache_ok w listing (snd (attributes w c hits name)).
Proof.
  intro Hc. unfold attributes, reference, res_of.
  pose proof (cached_attributes_ok w listing c hits name Hc) as Ha.
  destruct (cached_attributes w c hits name) as [[osz c1] st]. destruct Ha as (Hc1 & Ho).
  destruct (find_obj w name); subst osz; simpl; split; auto.
Qed.

Lemma iter_ok w listing c hits d r : cache_ok w listing c ->
  res_of (iter c hits d r (listing d r)) = RList (listing d r) /\ cache_ok w listing (snd (iter c hits d r (listing d r))).
Proof.
  intro Hc. unfold iter, res_of.
  destruct (fetch c hits (KIter d r)) as [[b|z|b|l]|] eqn:E;
    try (simpl; split; [reflexivity|apply cache_ok_store; [exact Hc|reflexivity]]).
  apply fetch_some in E. apply Hc in E. simpl in E. inversion E; subst. simpl. split; [reflexivity|exact Hc].
Qed.

Lemma step_ok g w listing c o hits :
  0 < c_S g -> valid_op o -> cache_ok w listing c ->
  res_of (step g w c o hits (op_truth listing o)) = reference w o (op_truth listing o)
  /\ cache_ok w listing (snd (step g w c o hits (op_truth listing o))).
Proof.
  intros HS Hv Hc. destruct o as [n off len|n|n|n|d r]; simpl step; simpl op_truth.
  - destruct Hv as [H1 H2]. apply get_range_ok; assumption.
  - apply get_ok; assumption.
  - apply exists_ok; assumption.
  - apply attributes_ok; assumption.
  - apply iter_ok; assumption.
Qed.

(* ---------- histories ---------- *)
Fixpoint run (g : cfg) (w : world) (listing : N -> bool -> list N) (c : cache) (ops : list (op * list key)) : list result :=
  match ops with
  | [] => []
  | (o, hits) :: r =>
      let x := step g w c o hits (op_truth listing o) in
      res_of x :: run g w listing (snd x) r
  end.

Lemma history_ok g w listing : 0 < c_S g ->
  forall ops c, cache_ok w listing c -> Forall (fun p => valid_op (fst p)) ops ->
  run g w listing c ops = map (fun p => reference w (fst p) (op_truth listing (fst p))) ops.
Proof.
  intro HS. induction ops as [|[o hits] ops IH]; intros c Hc Hv; [reflexivity|].
  inversion Hv as [|? ? Hv1 Hv2]; subst. simpl in Hv1.
  destruct (step_ok g w listing c o hits HS Hv1 Hc) as (H1 & H2).
  simpl. rewrite H1. f_equal. apply IH; assumption.
Qed.

(* the case the harness would emit when the implementation behaves like the model *)
Fixpoint mk_obs (g : cfg) (w : world) (listing : N -> bool -> list N) (c : cache) (ops : list (op * list key)) : list obs :=
  match ops with
  | [] => []
  | (o, hits) :: r =>
      let truth := op_truth listing o in
      let x := step g w c o hits truth in
      (o, hits, truth, res_of x, reference w o truth, snd (fst (fst x)), snd (fst x)) :: mk_obs g w listing (snd x) r
  end.

Lemma bytes_eqb_refl b : bytes_eqb b b = true.
Proof. unfold bytes_eqb. induction b; simpl; [reflexivity|]. rewrite N.eqb_refl, IHb. reflexivity. Qed.

Lemma listN_eqb_refl (l : list N) : list_eqb N.eqb l l = true.
Proof. induction l; simpl; [reflexivity|]. rewrite N.eqb_refl, IHl. reflexivity. Qed.

Lemma result_eqb_refl r : r <> RUnmodelled -> result_eqb r r = true.
Proof.
  destruct r; simpl; intro H; try reflexivity; try congruence.
  - apply bytes_eqb_refl.
  - apply Bool.eqb_reflx.
  - apply Z.eqb_refl.
  - apply listN_eqb_refl.
Qed.

Lemma zzlist_eqb_refl (l : list (Z * Z)) : list_eqb zz_eqb l l = true.
Proof. induction l as [|[a b] l IH]; simpl; [reflexivity|]. unfold zz_eqb at 1. simpl. rewrite !Z.eqb_refl, IH. reflexivity. Qed.

Lemma key_eqb_refl k : key_eqb k k = true.
Proof. apply key_eqb_eq. reflexivity. Qed.

Lemma keyset_eqb_refl l : keyset_eqb l l = true.
Proof.
  unfold keyset_eqb.
  assert (H : forallb (fun k => mem_key k l) l = true).
  { apply forallb_forall. intros k Hk. unfold mem_key. apply existsb_exists. exists k. split; [exact Hk|apply key_eqb_refl]. }
  rewrite H. reflexivity.
Qed.

Lemma reference_modelled w o truth : valid_op o -> reference w o truth <> RUnmodelled.
Proof.
  destruct o as [n off len|n|n|n|d r]; simpl; intro Hv; try (destruct (find_obj w n); discriminate); try discriminate.
  destruct Hv as [H1 H2].
  replace ((off <? 0) || (len <=? 0)) with false.
  2:{ symmetry. apply orb_false_iff. split; [apply Z.ltb_ge; lia | apply Z.leb_gt; lia]. }
  destruct (find_obj w n); discriminate.
Qed.

Lemma case_ok g w listing : 0 < c_S g ->
  forall ops c, cache_ok w listing c -> Forall (fun p => valid_op (fst p)) ops ->
  run_corr g w c (mk_obs g w listing c ops) = true
  /\ forallb (fun x : obs =>
                let '(o, _, truth, impl, under, _, _) := x in
                result_eqb impl under && result_eqb (reference w o truth) under) (mk_obs g w listing c ops) = true.
Proof.
  intro HS. induction ops as [|[o hits] ops IH]; intros c Hc Hv; [split; reflexivity|].
  inversion Hv as [|? ? Hv1 Hv2]; subst. simpl in Hv1.
  destruct (step_ok g w listing c o hits HS Hv1 Hc) as (H1 & H2).
  destruct (IH _ H2 Hv2) as (I1 & I2).
  cbn [mk_obs]. cbv zeta. cbn [run_corr forallb].
  pose proof (reference_modelled w o (op_truth listing o) Hv1) as Hm.
  destruct (step g w c o hits (op_truth listing o)) as [[[res calls] stores] c'] eqn:Es.
  unfold res_of in *. cbn [fst snd] in *. subst res.
  rewrite (result_eqb_refl _ Hm), zzlist_eqb_refl, keyset_eqb_refl, I1, I2. split; reflexivity.
Qed.
