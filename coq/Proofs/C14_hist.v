(* C14 — the other operations, one step, and whole read histories. *)
From Coq Require Import ZArith NArith List Bool Lia.
Import ListNotations.
From Verif Require Import Lib.Corr Gen.C14 Model.C14 Proofs.C14 Proofs.C14_main.
Open Scope Z_scope.

Definition op_truth (listing : N -> bool -> list N) (o : op) : list N :=
  match o with OIter d r => listing d r | _ => [] end.

Definition valid_op (o : op) : Prop :=
  match o with OGetRange _ off len => 0 <= off /\ 0 < len | OGet _ chunk => 0 < chunk | _ => True end.

Definition res_of (x : outcome * cache) : result := fst (fst (fst x)).

(* the chunked getReader stores exactly the complete object, and only when it fits *)
Lemma get_reader_none chunk maxsize : forall fuel rest, get_reader fuel rest chunk maxsize None = None.
Proof.
  induction fuel as [|f IH]; intro rest; [reflexivity|]. cbn [get_reader].
  destruct (blen rest <=? 0); [reflexivity|apply IH].
Qed.

Lemma get_reader_ok chunk maxsize : 0 < chunk -> forall fuel rest b, (length rest < fuel)%nat ->
  blen b <= maxsize ->
  get_reader fuel rest chunk maxsize (Some b) = (if blen b + blen rest <=? maxsize then Some (b ++ rest) else None).
Proof.
  intro Hc. induction fuel as [|f IH]; intros rest b Hf Hb; [lia|].
  cbn [get_reader]. destruct (blen rest <=? 0) eqn:E0.
  - apply Z.leb_le in E0. assert (rest = []) by (destruct rest; [reflexivity|unfold blen in E0; simpl in E0; lia]).
    subst rest. unfold blen at 2. simpl. rewrite Z.add_0_r, app_nil_r.
    replace (blen b <=? maxsize) with true by (symmetry; apply Z.leb_le; exact Hb). reflexivity.
  - apply Z.leb_gt in E0.
    set (n := Z.min chunk (blen rest)). assert (Hn : 0 < n <= blen rest) by (unfold n; lia).
    assert (Hbl : blen (slice rest n (blen rest)) = blen rest - n) by (apply slice_length; lia).
    assert (Hlen : (length (slice rest n (blen rest)) < f)%nat) by (unfold blen in *; lia).
    assert (Hsplit : slice rest 0 n ++ slice rest n (blen rest) = rest).
    { rewrite slice_app by lia. apply slice_full. }
    assert (Hb0 : blen (slice rest 0 n) = n) by (rewrite slice_length; lia).
    assert (Hbb : blen (b ++ slice rest 0 n) = blen b + n).
    { unfold blen at 1. rewrite app_length, Nat2Z.inj_add. fold (blen b). fold (blen (slice rest 0 n)). lia. }
    destruct (blen b + n <=? maxsize) eqn:E1.
    + apply Z.leb_le in E1.
      assert (Hle : blen (b ++ slice rest 0 n) <= maxsize) by lia.
      pose proof (IH (slice rest n (blen rest)) (b ++ slice rest 0 n) Hlen Hle) as Hi.
      etransitivity; [exact Hi|].
      rewrite Hbb, Hbl. replace (blen b + n + (blen rest - n)) with (blen b + blen rest) by lia.
      rewrite <- app_assoc, Hsplit. reflexivity.
    + apply Z.leb_gt in E1.
      replace (blen b + blen rest <=? maxsize) with false by (symmetry; apply Z.leb_gt; lia).
      apply get_reader_none.
Qed.

(* without any assumption on maxSize: what is stored is never a proper prefix *)
Lemma get_reader_whole chunk maxsize : 0 < chunk -> forall fuel rest b, (length rest < fuel)%nat ->
  get_reader fuel rest chunk maxsize (Some b) = None \/ get_reader fuel rest chunk maxsize (Some b) = Some (b ++ rest).
Proof.
  intro Hc. induction fuel as [|f IH]; intros rest b Hf; [lia|].
  cbn [get_reader]. destruct (blen rest <=? 0) eqn:E0.
  - apply Z.leb_le in E0. assert (rest = []) by (destruct rest; [reflexivity|unfold blen in E0; simpl in E0; lia]).
    subst rest. rewrite app_nil_r. right. reflexivity.
  - apply Z.leb_gt in E0.
    set (n := Z.min chunk (blen rest)). assert (Hn : 0 < n <= blen rest) by (unfold n; lia).
    assert (Hbl : blen (slice rest n (blen rest)) = blen rest - n) by (apply slice_length; lia).
    assert (Hlen : (length (slice rest n (blen rest)) < f)%nat) by (unfold blen in *; lia).
    assert (Hsplit : slice rest 0 n ++ slice rest n (blen rest) = rest).
    { rewrite slice_app by lia. apply slice_full. }
    destruct (blen b + n <=? maxsize).
    + destruct (IH (slice rest n (blen rest)) (b ++ slice rest 0 n) Hlen) as [I|I]; [left; exact I|].
      right. etransitivity; [exact I|]. rewrite <- app_assoc, Hsplit. reflexivity.
    + left. apply get_reader_none.
Qed.

Lemma get_ok g w listing c hits name chunk : 0 < chunk -> cache_ok w listing c ->
  res_of (get g w c hits name chunk) = reference w (OGet name chunk) [] /\ cache_ok w listing (snd (get g w c hits name chunk)).
Proof.
  intros Hchunk Hc. unfold get, reference, res_of.
  set (tail := match find_obj w name with
               | None => ((RErr, @nil (Z * Z), [KExists name]), store c (KExists name) (VBool false))
               | Some o =>
                   match get_reader (S (length o)) o chunk (c_maxsize g) (Some []) with
                   | Some stored => ((RBytes o, [], [KExists name; KContent name]), store (store c (KExists name) (VBool true)) (KContent name) (VBytes stored))
                   | None => ((RBytes o, [], [KExists name]), store c (KExists name) (VBool true))
                   end
               end).
  assert (HC : fst (fst (fst tail)) = match find_obj w name with Some obj => RBytes obj | None => RErr end
               /\ cache_ok w listing (snd tail)).
  { unfold tail. destruct (find_obj w name) as [o|] eqn:Eo.
    - match goal with |- context [get_reader ?a ?b ?c ?d ?e] => set (R := get_reader a b c d e) in * end.
      assert (G : R = None \/ R = Some o).
      { subst R. exact (get_reader_whole chunk (c_maxsize g) Hchunk (S (length o)) o [] ltac:(lia)). }
      destruct G as [G1|G1]; rewrite G1; simpl; (split; [reflexivity|]).
      + apply cache_ok_store; [exact Hc|simpl; rewrite Eo; reflexivity].
      + apply cache_ok_store; [apply cache_ok_store; [exact Hc|simpl; rewrite Eo; reflexivity]|simpl; exists o; auto].
    - simpl. split; [reflexivity|]. apply cache_ok_store; [exact Hc|simpl; rewrite Eo; reflexivity]. }
  assert (HB : fst (fst (fst (match fetch c hits (KExists name) with
                               | Some (VBool false) => ((RErr, @nil (Z * Z), @nil key), c)
                               | _ => tail
                               end))) = match find_obj w name with Some obj => RBytes obj | None => RErr end
               /\ cache_ok w listing (snd (match fetch c hits (KExists name) with
                               | Some (VBool false) => ((RErr, @nil (Z * Z), @nil key), c)
                               | _ => tail
                               end))).
  { destruct (fetch c hits (KExists name)) as [[b|z|[|]|l]|] eqn:E; try exact HC.
    apply fetch_some in E. apply Hc in E. simpl in E.
    destruct (find_obj w name); [discriminate|]. split; [reflexivity|exact Hc]. }
  fold tail.
  destruct (fetch c hits (KContent name)) as [[[|x b]|z|b|l]|] eqn:E; try exact HB.
  apply fetch_some in E. apply Hc in E. simpl in E. destruct E as (o & Ho & Hv). inversion Hv; subst.
  rewrite Ho. simpl. split; [congruence|exact Hc].
Qed.

Lemma exists_ok w listing c hits name : cache_ok w listing c ->
  res_of (exists_ w c hits name) = reference w (OExists name) [] /\ cache_ok w listing (snd (exists_ w c hits name)).
Proof.
  intro Hc. unfold exists_, reference, res_of.
  destruct (fetch c hits (KExists name)) as [[b|z|b|l]|] eqn:E;
    try (simpl; split; [reflexivity|apply cache_ok_store; [exact Hc|reflexivity]]).
  apply fetch_some in E. apply Hc in E. simpl in E. inversion E; subst. simpl. split; [reflexivity|exact Hc].
Qed.

Lemma attributes_ok w listing c hits name : cache_ok w listing c ->
  res_of (attributes w c hits name) = reference w (OAttr name) [] /\ cache_ok w listing (snd (attributes w c hits name)).
Proof.
  intro Hc. unfold attributes, reference, res_of.
  pose proof (cached_attributes_ok w listing c hits name Hc) as Ha.
  destruct (cached_attributes w c hits name) as [[osz c1] st]. destruct Ha as (Hc1 & Ho).
  destruct (find_obj w name); subst osz; simpl; split; auto.
Qed.

Lemma iter_ok w listing c hits d r : cache_ok w listing c ->
  res_of (iter c hits d r (listing d r)) = RList (listing d r) /\ cache_ok w listing (snd (iter c hits d r (listing d r))).
Proof.
  intro Hc. unfold iter, res_of.
  destruct (fetch c hits (KIter d r)) as [[b|z|b|l]|] eqn:E;
    try (simpl; split; [reflexivity|apply cache_ok_store; [exact Hc|reflexivity]]).
  apply fetch_some in E. apply Hc in E. simpl in E. inversion E; subst. simpl. split; [reflexivity|exact Hc].
Qed.

Lemma step_ok g w listing c o hits :
  0 < c_S g -> valid_op o -> cache_ok w listing c ->
  res_of (step g w c o hits (op_truth listing o)) = reference w o (op_truth listing o)
  /\ cache_ok w listing (snd (step g w c o hits (op_truth listing o))).
Proof.
  intros HS Hv Hc. destruct o as [n off len|n chunk|n|n|d r]; simpl step; simpl op_truth.
  - destruct Hv as [H1 H2]. apply get_range_ok; assumption.
  - apply get_ok; assumption.
  - apply exists_ok; assumption.
  - apply attributes_ok; assumption.
  - apply iter_ok; assumption.
Qed.

(* ---------- histories ---------- *)
Fixpoint run (g : cfg) (w : world) (listing : N -> bool -> list N) (c : cache) (ops : list (op * list key)) : list result :=
  match ops with
  | [] => []
  | (o, hits) :: r =>
      let x := step g w c o hits (op_truth listing o) in
      res_of x :: run g w listing (snd x) r
  end.

Lemma history_ok g w listing : 0 < c_S g ->
  forall ops c, cache_ok w listing c -> Forall (fun p => valid_op (fst p)) ops ->
  run g w listing c ops = map (fun p => reference w (fst p) (op_truth listing (fst p))) ops.
Proof.
  intro HS. induction ops as [|[o hits] ops IH]; intros c Hc Hv; [reflexivity|].
  inversion Hv as [|? ? Hv1 Hv2]; subst. simpl in Hv1.
  destruct (step_ok g w listing c o hits HS Hv1 Hc) as (H1 & H2).
  simpl. rewrite H1. f_equal. apply IH; assumption.
Qed.

(* the case the harness would emit when the implementation behaves like the model *)
Fixpoint mk_obs (g : cfg) (w : world) (listing : N -> bool -> list N) (c : cache) (ops : list (op * list key)) : list obs :=
  match ops with
  | [] => []
  | (o, hits) :: r =>
      let truth := op_truth listing o in
      let x := step g w c o hits truth in
      (o, hits, truth, res_of x, reference w o truth, snd (fst (fst x)), snd (fst x)) :: mk_obs g w listing (snd x) r
  end.

Lemma bytes_eqb_refl b : bytes_eqb b b = true.
Proof. unfold bytes_eqb. induction b; simpl; [reflexivity|]. rewrite N.eqb_refl, IHb. reflexivity. Qed.

Lemma listN_eqb_refl (l : list N) : list_eqb N.eqb l l = true.
Proof. induction l; simpl; [reflexivity|]. rewrite N.eqb_refl, IHl. reflexivity. Qed.

Lemma result_eqb_refl r : r <> RUnmodelled -> result_eqb r r = true.
Proof.
  destruct r; simpl; intro H; try reflexivity; try congruence.
  - apply bytes_eqb_refl.
  - apply Bool.eqb_reflx.
  - apply Z.eqb_refl.
  - apply listN_eqb_refl.
Qed.

Lemma zzlist_eqb_refl (l : list (Z * Z)) : list_eqb zz_eqb l l = true.
Proof. induction l as [|[a b] l IH]; simpl; [reflexivity|]. unfold zz_eqb at 1. simpl. rewrite !Z.eqb_refl, IH. reflexivity. Qed.

Lemma key_eqb_refl k : key_eqb k k = true.
Proof. apply key_eqb_eq. reflexivity. Qed.

Lemma keyset_eqb_refl l : keyset_eqb l l = true.
Proof.
  unfold keyset_eqb.
  assert (H : forallb (fun k => mem_key k l) l = true).
  { apply forallb_forall. intros k Hk. unfold mem_key. apply existsb_exists. exists k. split; [exact Hk|apply key_eqb_refl]. }
  rewrite H. reflexivity.
Qed.

Lemma reference_modelled w o truth : valid_op o -> reference w o truth <> RUnmodelled.
Proof.
  destruct o as [n off len|n chunk|n|n|d r]; simpl; intro Hv; try (destruct (find_obj w n); discriminate); try discriminate.
  destruct Hv as [H1 H2].
  replace ((off <? 0) || (len <=? 0)) with false.
  2:{ symmetry. apply orb_false_iff. split; [apply Z.ltb_ge; lia | apply Z.leb_gt; lia]. }
  destruct (find_obj w n); discriminate.
Qed.

Lemma case_ok g w listing : 0 < c_S g ->
  forall ops c, cache_ok w listing c -> Forall (fun p => valid_op (fst p)) ops ->
  run_corr g w c (mk_obs g w listing c ops) = true
  /\ forallb (fun x : obs =>
                let '(o, _, truth, impl, under, _, _) := x in
                result_eqb impl under && result_eqb (reference w o truth) under) (mk_obs g w listing c ops) = true.
Proof.
  intro HS. induction ops as [|[o hits] ops IH]; intros c Hc Hv; [split; reflexivity|].
  inversion Hv as [|? ? Hv1 Hv2]; subst. simpl in Hv1.
  destruct (step_ok g w listing c o hits HS Hv1 Hc) as (H1 & H2).
  destruct (IH _ H2 Hv2) as (I1 & I2).
  cbn [mk_obs]. cbv zeta. cbn [run_corr forallb].
  pose proof (reference_modelled w o (op_truth listing o) Hv1) as Hm.
  destruct (step g w c o hits (op_truth listing o)) as [[[res calls] stores] c'] eqn:Es.
  unfold res_of in *. cbn [fst snd] in *. subst res.
  rewrite (result_eqb_refl _ Hm), zzlist_eqb_refl, orb_true_r, keyset_eqb_refl, I1, I2. split; reflexivity.
Qed.

(* ---------- a faulty bucket: bodies of underlying reads cut short ---------- *)
Lemma read_full_err_test_checked : read_full_err_test_ok = true.
Proof. reflexivity. Qed.

(* a fetch whose body is shorter than the buffer fails: nothing is cut, nothing is stored *)
Lemma fetch_one_f_short cut obj S lastOff lastLen known ms me h st :
  blen (cut_body cut (under_get_range obj ms (me - ms)))
  < (if buf_full_cond lastOff me then buf_size_full ms me else buf_size_last ms me S lastLen) ->
  fetch_one_f cut obj S lastOff lastLen known (ms, me) h st = None.
Proof.
  intros H. unfold fetch_one_f.
  apply Z.ltb_lt in H. rewrite H, orb_true_r. reflexivity.
Qed.

(* a fetch over the faulty bucket that succeeds is the healthy fetch: the body was long enough
   and the buffer holds the same bytes *)
Lemma fetch_one_f_some cut obj S lastOff lastLen known m h st r : 0 <= cut ->
  fetch_one_f cut obj S lastOff lastLen known m h st = Some r ->
  fetch_one obj S lastOff lastLen known m h st = Some r.
Proof.
  destruct m as [ms me]. intros Hcut H. unfold fetch_one_f in H. unfold fetch_one.
  set (data := under_get_range obj ms (me - ms)) in *.
  set (bufSize := if buf_full_cond lastOff me then buf_size_full ms me else buf_size_last ms me S lastLen) in *.
  destruct ((bufSize <? 0) || (blen (cut_body cut data) <? bufSize)) eqn:E; [discriminate|].
  apply orb_false_iff in E. destruct E as [E1 E2]. apply Z.ltb_ge in E1. apply Z.ltb_ge in E2.
  pose proof (blen_nonneg data) as Hd.
  assert (Hcb : blen (cut_body cut data) = Z.min cut (blen data)).
  { unfold cut_body. rewrite slice_length; lia. }
  rewrite Hcb in E2.
  replace ((bufSize <? 0) || (blen data <? bufSize)) with false.
  2:{ symmetry. apply orb_false_iff. split; apply Z.ltb_ge; lia. }
  assert (Hs : slice (cut_body cut data) 0 bufSize = slice data 0 bufSize).
  { unfold cut_body. rewrite slice_slice by lia. reflexivity. }
  rewrite Hs in H. exact H.
Qed.

Lemma fetch_all_f_some cut obj S lastOff lastLen known : 0 <= cut -> forall ms h st r,
  fetch_all_f cut obj S lastOff lastLen known ms h st = Some r ->
  fetch_all obj S lastOff lastLen known ms h st = Some r.
Proof.
  intro Hcut. induction ms as [|m ms IH]; intros h st r H; [exact H|].
  cbn [fetch_all_f] in H. cbn [fetch_all].
  destruct (fetch_one_f cut obj S lastOff lastLen known m h st) as [[h' st']|] eqn:E; [|discriminate].
  rewrite (fetch_one_f_some _ _ _ _ _ _ _ _ _ _ Hcut E). apply IH. exact H.
Qed.

(* cachedGetRange over the faulty bucket either behaves exactly like the healthy one (same
   answer, same cache) or reports an error having stored nothing but the attributes *)
Lemma get_range_f_cases cut g w c hits name off len : 0 <= cut ->
  get_range_f cut g w c hits name off len = get_range g w c hits name off len
  \/ (fst (fst (fst (get_range_f cut g w c hits name off len))) = RErr
      /\ snd (get_range_f cut g w c hits name off len) = snd (fst (cached_attributes w c hits name))).
Proof.
  intro Hcut. unfold get_range_f, get_range.
  destruct ((off <? 0) || (len <=? 0)); [left; reflexivity|].
  destruct (cached_attributes w c hits name) as [[osz c1] st1]. cbn [fst snd].
  destruct osz as [size|]; [|left; reflexivity].
  destruct (find_obj w name) as [obj|]; [|left; reflexivity].
  destruct (past_end_cond off size); [left; reflexivity|].
  cbv zeta.
  match goal with |- context [if ?c then match merge_loop ?a ?b ?c2 ?d with _ => _ end else _] => destruct c end; [|left; reflexivity].
  match goal with |- context [merge_loop ?a ?b ?c2 ?d] => destruct (merge_loop a b c2 d) as [merged|] end; [|left; reflexivity].
  match goal with |- context [fetch_all_f ?a ?b ?c2 ?d ?e ?f ?g0 ?h ?i] => destruct (fetch_all_f a b c2 d e f g0 h i) as [[h1 st]|] eqn:E end.
  - left. rewrite (fetch_all_f_some _ _ _ _ _ _ Hcut _ _ _ _ E). reflexivity.
  - right. cbn [fst snd]. split; reflexivity.
Qed.

(* hence, for every fault: the answer is the underlying bucket's bytes or an error - never
   other bytes - and the cache stays truthful *)
Lemma get_range_f_ok cut g w listing c hits name off len :
  0 <= cut -> 0 < c_S g -> 0 <= off -> 0 < len -> cache_ok w listing c ->
  (fst (fst (fst (get_range_f cut g w c hits name off len))) = reference w (OGetRange name off len) []
   \/ fst (fst (fst (get_range_f cut g w c hits name off len))) = RErr)
  /\ cache_ok w listing (snd (get_range_f cut g w c hits name off len)).
Proof.
  intros Hcut HS Hoff Hlen Hc.
  destruct (get_range_f_cases cut g w c hits name off len Hcut) as [E|[E1 E2]].
  - rewrite E. destruct (get_range_ok g w listing c hits name off len HS Hoff Hlen Hc) as (H1 & H2).
    split; [left; exact H1|exact H2].
  - split; [right; exact E1|]. rewrite E2.
    pose proof (cached_attributes_ok w listing c hits name Hc) as Ha.
    destruct (cached_attributes w c hits name) as [[osz c1] st1]. destruct Ha as [Ha _]. exact Ha.
Qed.
