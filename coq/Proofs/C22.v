(* C22 — lemmas. *)
From Coq Require Import ZArith List Bool Lia String Permutation.
Import ListNotations.
From Verif Require Import Lib.Corr Gen.C22 Model.C22.
Open Scope Z_scope.

(* tie T, closed by computation on Gen/C22.v *)
Lemma shape_holds : shape_ok = true.
Proof. vm_compute. reflexivity. Qed.

Lemma failure_threshold_is : forall nrep q, failureThreshold_expr nrep q = nrep - q + 1.
Proof. intros; unfold failureThreshold_expr; lia. Qed.

Lemma writeQuorum_bounds : forall rf, 1 <= rf -> 1 <= writeQuorum rf <= rf.
Proof.
  intros rf H. unfold writeQuorum. destruct (Z.eqb_spec rf 2); [lia|].
  Ltac Zify.zify_post_hook ::= Z.to_euclidean_division_equations.
  lia.
Qed.

(* a write quorum is a majority except for rf = 2 (documented in writeQuorum) *)
Lemma writeQuorum_majority : forall rf, 1 <= rf -> rf <> 2 -> 2 * writeQuorum rf > rf.
Proof.
  intros rf H H2. unfold writeQuorum. destruct (Z.eqb_spec rf 2); [lia|].
  Ltac Zify.zify_post_hook ::= Z.to_euclidean_division_equations.
  lia.
Qed.

Lemma spec_threshold_is : forall rf rep, 1 <= rf -> spec_threshold rf rep = success_threshold rf rep.
Proof.
  intros rf rep H. unfold spec_threshold, success_threshold, spec_quorum, writeQuorum.
  destruct (Z.eqb_spec rep 0); [|reflexivity]. destruct (Z.eqb_spec rf 2); [reflexivity|].
  Ltac Zify.zify_post_hook ::= Z.to_euclidean_division_equations.
  lia.
Qed.

Definition bumps (ks : list okind) (x : sst) : sst := fold_left (fun x k => bump k x) ks x.

Lemma bumps_app : forall k1 k2 x, bumps (k1 ++ k2) x = bumps k2 (bumps k1 x).
Proof. intros. unfold bumps. apply fold_left_app. Qed.

Lemma bumps_inv : forall ks x, let y := bumps ks x in
  succ y = succ x + Z.of_nat (List.length (filter is_ok ks))
  /\ succ y + fail y = succ x + fail x + Z.of_nat (List.length ks)
  /\ fail x <= fail y /\ confl x <= confl y
  /\ confl y - confl x <= fail y - fail x.
Proof.
  induction ks as [|k ks IH]; intro x; cbn zeta.
  - cbn. lia.
  - unfold bumps. cbn [fold_left]. fold (bumps ks (bump k x)).
    specialize (IH (bump k x)). cbn zeta in IH.
    replace (Z.of_nat (List.length (k :: ks))) with (Z.of_nat (List.length ks) + 1) by (cbn [List.length]; lia).
    destruct k; unfold bump in *; cbn [filter is_ok is_conflict b2z succ fail confl List.length] in *; lia.
Qed.

Lemma upd_nth_length : forall A n (f : A -> A) l, List.length (upd_nth n f l) = List.length l.
Proof. intros A n f l. revert n. induction l as [|x l IH]; intros [|n]; cbn; auto. Qed.

Lemma upd_nth_nth : forall A (f : A -> A) d l n s, (s < List.length l)%nat ->
  nth s (upd_nth n f l) d = if Nat.eqb s n then f (nth s l d) else nth s l d.
Proof.
  intros A f d l. induction l as [|x l IH]; intros n s Hs; [cbn in Hs; lia|].
  destruct n as [|n], s as [|s]; cbn; auto. apply IH. cbn in Hs. lia.
Qed.

Lemma apply_ids_length : forall k ids st,
  List.length (fold_left (fun st id => upd_nth id (bump k) st) ids st) = List.length st.
Proof. intros k ids. induction ids as [|i ids IH]; intro st; cbn; [reflexivity|]. rewrite IH. apply upd_nth_length. Qed.

Lemma apply_resp_length : forall st r, List.length (apply_resp st r) = List.length st.
Proof. intros. apply apply_ids_length. Qed.

Lemma fold_apply_length : forall l st, List.length (fold_left apply_resp l st) = List.length st.
Proof. induction l as [|r l IH]; intro st; cbn; [reflexivity|]. rewrite IH. apply apply_resp_length. Qed.

Lemma apply_ids_nth : forall k ids st s, (s < List.length st)%nat ->
  nth s (fold_left (fun st id => upd_nth id (bump k) st) ids st) sst0
  = bumps (repeat k (count_occ Nat.eq_dec ids s)) (nth s st sst0).
Proof.
  intros k ids. induction ids as [|i ids IH]; intros st s Hs.
  - reflexivity.
  - cbn [fold_left]. rewrite IH by (rewrite upd_nth_length; exact Hs).
    rewrite upd_nth_nth by exact Hs. cbn [count_occ].
    destruct (Nat.eq_dec i s) as [->|Hne].
    + rewrite Nat.eqb_refl. reflexivity.
    + destruct (Nat.eqb_spec s i) as [->|_]; [congruence|reflexivity].
Qed.

Lemma fold_apply_nth : forall l st s, (s < List.length st)%nat ->
  nth s (fold_left apply_resp l st) sst0 = bumps (kinds_for s l) (nth s st sst0).
Proof.
  induction l as [|r l IH]; intros st s Hs.
  - reflexivity.
  - cbn [fold_left kinds_for flat_map]. rewrite IH by (rewrite apply_resp_length; exact Hs).
    unfold apply_resp at 1. rewrite apply_ids_nth by exact Hs.
    fold (kinds_for s l). rewrite bumps_app. reflexivity.
Qed.

Definition reach (n : nat) (l : list resp) : list sst := fold_left apply_resp l (repeat sst0 n).

Lemma reach_length : forall n l, List.length (reach n l) = n.
Proof. intros. unfold reach. rewrite fold_apply_length. apply repeat_length. Qed.

Lemma nth_repeat_sst0 : forall n s, nth s (repeat sst0 n) sst0 = sst0.
Proof. intros n s. revert s. induction n as [|n IH]; intros [|s]; cbn; auto. Qed.

Lemma reach_nth : forall n l s, (s < n)%nat -> nth s (reach n l) sst0 = bumps (kinds_for s l) sst0.
Proof.
  intros n l s Hs. unfold reach. rewrite fold_apply_nth by (rewrite repeat_length; exact Hs).
  rewrite nth_repeat_sst0. reflexivity.
Qed.

Lemma kinds_for_app : forall s l1 l2, kinds_for s (l1 ++ l2) = kinds_for s l1 ++ kinds_for s l2.
Proof. intros. unfold kinds_for. apply flat_map_app. Qed.

Lemma filter_len_le : forall (f : okind -> bool) l, (List.length (filter f l) <= List.length l)%nat.
Proof. intros f l. induction l as [|x l IH]; cbn; [lia|]. destruct (f x); cbn; lia. Qed.

(* counters of series s after consuming the prefix l of l ++ l' *)
Lemma prefix_counters : forall n l l' s, (s < n)%nat ->
  let x := nth s (reach n l) sst0 in
  succ x = successes_of s l
  /\ succ x + fail x = responses_of s l
  /\ 0 <= confl x <= fail x
  /\ successes_of s l <= successes_of s (l ++ l')
  /\ responses_of s (l ++ l') = responses_of s l + responses_of s l'
  /\ fail x <= responses_of s (l ++ l') - successes_of s (l ++ l').
Proof.
  intros n l l' s Hs. cbn zeta. rewrite reach_nth by exact Hs.
  pose proof (bumps_inv (kinds_for s l) sst0) as I. cbn zeta in I. cbn [succ fail confl sst0] in I.
  unfold successes_of, responses_of. rewrite kinds_for_app, filter_app, !app_length.
  pose proof (filter_len_le is_ok (kinds_for s l')) as Hle.
  lia.
Qed.

Lemma loop_prefix : forall q ft rs st,
  exists k, loop q ft st rs = finish ft (fold_left apply_resp (firstn k rs) st)
    /\ (k <= List.length rs)%nat
    /\ (can_return_early q ft (fold_left apply_resp (firstn k rs) st) = true \/ k = List.length rs).
Proof.
  intros q ft rs. induction rs as [|r rs IH]; intro st.
  - exists 0%nat. cbn. auto.
  - cbn [loop]. destruct (can_return_early q ft (apply_resp st r)) eqn:E.
    + exists 1%nat. cbn [firstn fold_left List.length]. split; [reflexivity|]. split; [lia|]. left. exact E.
    + destruct (IH (apply_resp st r)) as [k [Hk [Hle Hc]]]. exists (S k).
      cbn [firstn fold_left List.length]. split; [exact Hk|]. split; [lia|].
      destruct Hc as [Hc|Hc]; [left; exact Hc|right; lia].
Qed.

Lemma finish_ack : forall ft n l, finish ft (reach n l) = Ack <->
  forall s, (s < n)%nat -> fail (nth s (reach n l) sst0) < ft.
Proof.
  intros ft n l. unfold finish.
  destruct (existsb (fun s => fail s >=? ft) (reach n l)) eqn:E.
  - split; [discriminate|]. intro H. exfalso.
    apply existsb_exists in E as [x [Hin Hx]]. apply (In_nth _ _ sst0) in Hin as [s [Hs Hn]].
    rewrite reach_length in Hs. specialize (H s Hs). rewrite Hn in H.
    destruct (Z.geb_spec (fail x) ft); [lia|discriminate].
  - split; [|reflexivity]. intros _ s Hs.
    destruct (Z.lt_ge_cases (fail (nth s (reach n l) sst0)) ft) as [|Hge]; [assumption|]. exfalso.
    assert (existsb (fun s => fail s >=? ft) (reach n l) = true).
    { apply existsb_exists. exists (nth s (reach n l) sst0). split.
      - apply nth_In. rewrite reach_length. exact Hs.
      - destruct (Z.geb_spec (fail (nth s (reach n l) sst0)) ft); [reflexivity|lia]. }
    congruence.
Qed.

Lemma quorum_everywhere_spec : forall n q rs,
  quorum_everywhere n q rs = true <-> forall s, (s < n)%nat -> successes_of s rs >= q.
Proof.
  intros n q rs. unfold quorum_everywhere. rewrite forallb_forall. split.
  - intros H s Hs. specialize (H s ltac:(apply in_seq; lia)).
    destruct (Z.geb_spec (successes_of s rs) q); [lia|discriminate].
  - intros H s Hin. apply in_seq in Hin. specialize (H s ltac:(lia)).
    destruct (Z.geb_spec (successes_of s rs) q); [reflexivity|lia].
Qed.

Section Quorum.
  Variables (n : nat) (nrep q ft : Z).
  Hypothesis Hsum : q + ft = nrep + 1.
  Variable rs : list resp.
  Hypothesis Hwf : forall s, (s < n)%nat -> responses_of s rs = nrep.

  (* the loop acknowledges only after a consumed prefix in which every series reached quorum *)
  Lemma ack_prefix_quorum : loop q ft (repeat sst0 n) rs = Ack ->
    exists k, (k <= List.length rs)%nat /\ quorum_everywhere n q (firstn k rs) = true.
  Proof.
    intro Hack. destruct (loop_prefix q ft rs (repeat sst0 n)) as [k [Hk [Hle Hor]]].
    fold (reach n (firstn k rs)) in Hk, Hor. rewrite Hk in Hack.
    exists k. split; [exact Hle|]. apply quorum_everywhere_spec. intros s Hs.
    pose proof (proj1 (finish_ack ft n (firstn k rs)) Hack s Hs) as Hf.
    pose proof (prefix_counters n (firstn k rs) (skipn k rs) s Hs) as P. cbn zeta in P.
    rewrite firstn_skipn in P. rewrite (Hwf s Hs) in P.
    destruct Hor as [Hdet|Hall].
    - unfold can_return_early in Hdet. rewrite forallb_forall in Hdet.
      specialize (Hdet (nth s (reach n (firstn k rs)) sst0) ltac:(apply nth_In; rewrite reach_length; exact Hs)).
      unfold determined in Hdet.
      destruct (Z.ltb_spec (succ (nth s (reach n (firstn k rs)) sst0)) q) as [Hlt|Hge]; cbn [andb negb] in Hdet.
      + destruct (Z.ltb_spec (confl (nth s (reach n (firstn k rs)) sst0)) ft); [discriminate|]. lia.
      + lia.
    - subst k. rewrite firstn_all in *. rewrite skipn_all in P.
      unfold responses_of at 3 in P. cbn in P. lia.
  Qed.

  Lemma successes_firstn_le : forall s k, (s < n)%nat -> successes_of s (firstn k rs) <= successes_of s rs.
  Proof.
    intros s k Hs. pose proof (prefix_counters n (firstn k rs) (skipn k rs) s Hs) as P. cbn zeta in P.
    rewrite firstn_skipn in P. lia.
  Qed.

  Lemma ack_iff_quorum : loop q ft (repeat sst0 n) rs = Ack <-> quorum_everywhere n q rs = true.
  Proof.
    split.
    - intro Hack. destruct (ack_prefix_quorum Hack) as [k [_ Hq]].
      apply quorum_everywhere_spec. intros s Hs.
      pose proof (proj1 (quorum_everywhere_spec n q (firstn k rs)) Hq s Hs).
      pose proof (successes_firstn_le s k Hs). lia.
    - intro Hq. destruct (loop_prefix q ft rs (repeat sst0 n)) as [k [Hk _]].
      fold (reach n (firstn k rs)) in Hk. rewrite Hk. apply finish_ack. intros s Hs.
      pose proof (proj1 (quorum_everywhere_spec n q rs) Hq s Hs) as Hsq.
      pose proof (prefix_counters n (firstn k rs) (skipn k rs) s Hs) as P. cbn zeta in P.
      rewrite firstn_skipn in P. rewrite (Hwf s Hs) in P. lia.
  Qed.
End Quorum.

Lemma fanout_ack_iff_quorum : forall n nrep q ft rs, q + ft = nrep + 1 ->
  (forall s, (s < n)%nat -> responses_of s rs = nrep) ->
  (fanout n q ft rs = Some Ack <-> quorum_everywhere n q rs = true).
Proof.
  intros n nrep q ft rs Hsum Hwf. unfold fanout.
  rewrite <- (ack_iff_quorum n nrep q ft Hsum rs Hwf).
  split; [intro H; inversion H; reflexivity|intro H; rewrite H; reflexivity].
Qed.

Lemma fanout_defined : forall n q ft rs, exists r, fanout n q ft rs = Some r.
Proof. intros. unfold fanout. eexists; reflexivity. Qed.

Lemma fanout_ack_after_quorum : forall n nrep q ft rs, q + ft = nrep + 1 ->
  (forall s, (s < n)%nat -> responses_of s rs = nrep) ->
  fanout n q ft rs = Some Ack ->
  exists k, (k <= List.length rs)%nat /\ quorum_everywhere n q (firstn k rs) = true.
Proof.
  intros n nrep q ft rs Hsum Hwf H. unfold fanout in H.
  inversion H as [Hl]. eapply ack_prefix_quorum; eauto.
Qed.

(* if some series cannot reach quorum with all responses in, the request fails *)
Lemma fanout_no_quorum_fails : forall n nrep q ft rs s, q + ft = nrep + 1 ->
  (forall s, (s < n)%nat -> responses_of s rs = nrep) ->
  (s < n)%nat -> successes_of s rs < q -> fanout n q ft rs = Some Fail.
Proof.
  intros n nrep q ft rs s Hsum Hwf Hs Hlt.
  destruct (fanout_defined n q ft rs) as [[|] E]; [|exact E].
  apply (fanout_ack_iff_quorum n nrep q ft rs Hsum Hwf) in E.
  pose proof (proj1 (quorum_everywhere_spec n q rs) E s Hs). lia.
Qed.

(* ---- arrival order ---- *)
Lemma kinds_for_perm : forall s rs rs', Permutation rs rs' -> Permutation (kinds_for s rs) (kinds_for s rs').
Proof. intros s rs rs' H. unfold kinds_for. apply Permutation_flat_map. exact H. Qed.

Lemma filter_perm_length : forall (f : okind -> bool) l l', Permutation l l' ->
  List.length (filter f l) = List.length (filter f l').
Proof.
  intros f l l' H. induction H; cbn; try lia.
  - destruct (f x); cbn; lia.
  - destruct (f x), (f y); cbn; lia.
Qed.

Lemma successes_of_perm : forall s rs rs', Permutation rs rs' -> successes_of s rs = successes_of s rs'.
Proof. intros. unfold successes_of. f_equal. apply filter_perm_length. apply kinds_for_perm. assumption. Qed.

Lemma responses_of_perm : forall s rs rs', Permutation rs rs' -> responses_of s rs = responses_of s rs'.
Proof. intros. unfold responses_of. f_equal. apply Permutation_length. apply kinds_for_perm. assumption. Qed.

Lemma quorum_everywhere_perm : forall n q rs rs', Permutation rs rs' ->
  quorum_everywhere n q rs = quorum_everywhere n q rs'.
Proof.
  intros n q rs rs' H. unfold quorum_everywhere. induction (seq 0 n) as [|s l IH]; [reflexivity|].
  cbn [forallb]. rewrite IH, (successes_of_perm s rs rs' H). reflexivity.
Qed.

Lemma fanout_order_independent : forall n nrep q ft rs rs', q + ft = nrep + 1 ->
  (forall s, (s < n)%nat -> responses_of s rs = nrep) -> Permutation rs rs' ->
  fanout n q ft rs = fanout n q ft rs'.
Proof.
  intros n nrep q ft rs rs' Hsum Hwf Hp.
  assert (Hwf' : forall s, (s < n)%nat -> responses_of s rs' = nrep).
  { intros s Hs. rewrite <- (responses_of_perm s rs rs' Hp). auto. }
  pose proof (fanout_ack_iff_quorum n nrep q ft rs Hsum Hwf) as A.
  pose proof (fanout_ack_iff_quorum n nrep q ft rs' Hsum Hwf') as B.
  rewrite (quorum_everywhere_perm n q rs rs' Hp) in A.
  destruct (fanout_defined n q ft rs) as [[|] E], (fanout_defined n q ft rs') as [[|] E']; rewrite E, E'; try reflexivity.
  - apply A in E. apply B in E. congruence.
  - apply B in E'. apply A in E'. congruence.
Qed.

(* ---- whole request and the predicate of the check ---- *)
Lemma handler_thresholds : forall rf rep, 1 <= rf -> 0 <= rep ->
  let q := success_threshold rf rep in let nrep := n_replicas rf rep in
  1 <= q <= nrep /\ q + failureThreshold_expr nrep q = nrep + 1.
Proof.
  intros rf rep Hrf Hrep. cbn zeta. rewrite failure_threshold_is.
  unfold success_threshold, n_replicas. destruct (Z.eqb_spec rep 0); [|lia].
  pose proof (writeQuorum_bounds rf Hrf). lia.
Qed.

Lemma quorum_firstn_mono : forall n q rs k d, (k <= d)%nat ->
  quorum_everywhere n q (firstn k rs) = true -> quorum_everywhere n q (firstn d rs) = true.
Proof.
  intros n q rs k d Hkd H. apply quorum_everywhere_spec. intros s Hs.
  pose proof (proj1 (quorum_everywhere_spec n q (firstn k rs)) H s Hs) as Hk.
  assert (Hle : successes_of s (firstn k rs) <= successes_of s (firstn d rs)).
  { replace (firstn k rs) with (firstn k (firstn d rs)) by (rewrite firstn_firstn; f_equal; lia).
    pose proof (prefix_counters n (firstn k (firstn d rs)) (skipn k (firstn d rs)) s Hs) as P. cbn zeta in P.
    rewrite firstn_skipn in P. lia. }
  lia.
Qed.

Lemma handle_pred : forall rf rep place ws, 1 <= rf -> 0 <= rep ->
  (forall s, (s < List.length place)%nat -> responses_of s (resps_of place ws) = n_replicas rf rep) ->
  exists o, handle rf rep place ws = Some o
    /\ (o = OAck -> rep <= rf ->
        quorum_everywhere (List.length place) (success_threshold rf rep) (resps_of place ws) = true
        /\ exists k, (k <= List.length ws)%nat /\ forall d hg obs obsr, (k <= d)%nat ->
             pred_ok (CAck rf rep place ws hg obs obsr 200 d) = true)
    /\ (o = OFail -> quorum_everywhere (List.length place) (success_threshold rf rep) (resps_of place ws) = false).
Proof.
  intros rf rep place ws Hrf Hrep Hwf. unfold handle.
  destruct (Nat.eqb_spec (List.length place) 0) as [E0|E0].
  - exists OAck. split; [reflexivity|]. split; [|discriminate]. intros _ Hle.
    rewrite E0. split; [reflexivity|]. exists 0%nat. split; [lia|]. intros d hg obs obsr _. cbn [pred_ok].
    rewrite E0. destruct (negb (rep >? rf)); reflexivity.
  - destruct (rep >? rf) eqn:Er.
    + exists OBadReplica. split; [reflexivity|]. split; discriminate.
    + destruct (handler_thresholds rf rep Hrf Hrep) as [Hq Hsum]. cbn zeta in Hq, Hsum.
      set (q := success_threshold rf rep) in *. set (nrep := n_replicas rf rep) in *.
      set (ft := failureThreshold_expr nrep q) in *. set (n := List.length place) in *.
      set (rs := resps_of place ws) in *.
      destruct (fanout_defined n q ft rs) as [[|] E]; rewrite E.
      * exists OAck. split; [reflexivity|]. split; [|discriminate]. intros _ _.
        split; [apply (fanout_ack_iff_quorum n nrep q ft rs Hsum Hwf); exact E|].
        destruct (fanout_ack_after_quorum n nrep q ft rs Hsum Hwf E) as [k [Hk Hqk]].
        exists k. split; [unfold rs, resps_of in Hk; rewrite map_length in Hk; exact Hk|].
        intros d hg obs obsr Hd. cbn [pred_ok]. rewrite Er. cbn [Z.eqb Pos.eqb negb andb].
        rewrite (spec_threshold_is rf rep Hrf). fold n q rs. eapply quorum_firstn_mono; eauto.
      * exists OFail. split; [reflexivity|]. split; [discriminate|]. intros _.
        destruct (quorum_everywhere n q rs) eqn:Eq; [|reflexivity].
        apply (fanout_ack_iff_quorum n nrep q ft rs Hsum Hwf) in Eq. congruence.
Qed.
