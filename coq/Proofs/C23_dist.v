(* C23 — the side condition "every series gets one response per replica" of
   the order / status theorems follows from the shape of the forwarded writes:
   distinct (node, replica) destinations that are exactly the hashring
   placements of the series on the request's replicas (what
   distributeTimeseriesToReplicas + sendWrites produce; C22 proves that of
   their model, here it is only used). *)
From Coq Require Import ZArith List Bool Lia Permutation String.
Import ListNotations.
From Verif Require Import Lib.Corr Gen.C23 Model.C23 Proofs.C23 Proofs.C23_order.
Open Scope Z_scope.

Definition dest := (nat * nat)%type.
Definition write_dest (w : write) : dest := fst w.
Definition hits (place : list (list nat)) (s : nat) (d : dest) : bool := Nat.eqb (placed place s (snd d)) (fst d).

Lemma count_occ_ids_of : forall place node r s, (s < List.length place)%nat ->
  count_occ Nat.eq_dec (ids_of place node r) s = if Nat.eqb (placed place s r) node then 1%nat else 0%nat.
Proof.
  intros place node r s Hs. unfold ids_of.
  assert (Hnd : NoDup (filter (fun s0 => Nat.eqb (placed place s0 r) node) (seq 0 (List.length place))))
    by (apply NoDup_filter, seq_NoDup).
  destruct (Nat.eqb (placed place s r) node) eqn:E.
  - apply NoDup_count_occ'; [exact Hnd|]. apply filter_In. split; [apply in_seq; lia|exact E].
  - apply count_occ_not_In. intro Hin. apply filter_In in Hin as [_ H]. congruence.
Qed.

Lemma responses_of_hits : forall place ws s, (s < List.length place)%nat ->
  responses_of s (resps_of place ws) = Z.of_nat (List.length (filter (hits place s) (map write_dest ws))).
Proof.
  intros place ws s Hs. unfold responses_of. f_equal. unfold kinds_for, resps_of.
  induction ws as [|[[node r] k] ws IH]; [reflexivity|].
  cbn [map flat_map fst snd write_dest filter]. rewrite app_length, repeat_length, IH.
  rewrite (count_occ_ids_of place node r s Hs). unfold hits at 2. cbn [fst snd].
  destruct (Nat.eqb (placed place s r) node); cbn [List.length]; lia.
Qed.

Lemma NoDup_map_inj_in : forall A B (f : A -> B) l,
  NoDup l -> (forall x y, In x l -> In y l -> f x = f y -> x = y) -> NoDup (map f l).
Proof.
  intros A B f l Hnd Hinj. induction l as [|a l IH]; [constructor|].
  inversion Hnd as [|? ? Hnot Hnd']; subst. cbn [map]. constructor.
  - intro Hin. apply in_map_iff in Hin as [b [E Hb]].
    assert (b = a) by (apply Hinj; [right; exact Hb|left; reflexivity|exact E]). subst. contradiction.
  - apply IH; [exact Hnd'|]. intros x y Hx Hy. apply Hinj; right; assumption.
Qed.

Lemma one_response_per_replica : forall place replicas ws, NoDup replicas ->
  NoDup (map write_dest ws) ->
  (forall d, In d (map write_dest ws) <->
     exists s r, (s < List.length place)%nat /\ In r replicas /\ d = (placed place s r, r)) ->
  forall s, (s < List.length place)%nat ->
  responses_of s (resps_of place ws) = Z.of_nat (List.length replicas).
Proof.
  intros place replicas ws Hnd Hw Hkeys s Hs. rewrite (responses_of_hits place ws s Hs). f_equal.
  set (F := filter (hits place s) (map write_dest ws)).
  assert (HF : forall d, In d F <-> exists r, In r replicas /\ d = (placed place s r, r)).
  { intro d. unfold F. rewrite filter_In, Hkeys. unfold hits. split.
    - intros [[s' [r [_ [Hr ->]]]] Hh]. cbn [fst snd] in Hh. apply Nat.eqb_eq in Hh. exists r. split; [exact Hr|congruence].
    - intros [r [Hr ->]]. split; [exists s, r; auto|]. cbn [fst snd]. apply Nat.eqb_refl. }
  change (List.length F = List.length replicas).
  transitivity (List.length (map snd F)); [symmetry; apply map_length|].
  apply Permutation_length. apply NoDup_Permutation.
  - apply NoDup_map_inj_in; [apply NoDup_filter; exact Hw|].
    intros x y Hx Hy E. apply HF in Hx as [r [_ ->]]. apply HF in Hy as [r' [_ ->]]. cbn [snd] in E. subst. reflexivity.
  - exact Hnd.
  - intro r. rewrite in_map_iff. split.
    + intros [d [E Hd]]. apply HF in Hd as [r' [Hr' ->]]. cbn [snd] in E. subst. exact Hr'.
    + intro Hr. exists (placed place s r, r). split; [reflexivity|]. apply HF. exists r. auto.
Qed.

Definition replicas_of (rf rep : Z) : list nat :=
  if rep =? 0 then seq 0 (Z.to_nat rf) else [Z.to_nat (rep - 1)].

Lemma handle_pred_structural : forall rf rep place ws, 1 <= rf -> 0 <= rep ->
  NoDup (map write_dest ws) ->
  (forall d, In d (map write_dest ws) <->
     exists s r, (s < List.length place)%nat /\ In r (replicas_of rf rep) /\ d = (placed place s r, r)) ->
  exists st, handle rf rep place ws = Some st /\ pred_ok (CFan rf rep place ws st) = true.
Proof.
  intros rf rep place ws Hrf Hrep Hnd Hkeys. apply handle_pred; [exact Hrf|exact Hrep|].
  intros s Hs.
  assert (Hr : NoDup (replicas_of rf rep)).
  { unfold replicas_of. destruct (rep =? 0); [apply seq_NoDup|]. constructor; [intros []|constructor]. }
  rewrite (one_response_per_replica place (replicas_of rf rep) ws Hr Hnd Hkeys s Hs).
  unfold replicas_of, n_replicas. destruct (rep =? 0); [rewrite seq_length; lia|reflexivity].
Qed.
