(* C44 — soundness of sharded evaluation for the mini-PromQL of Model/C44.v
   (selectors and sum/count/min/max aggregations with by / without). *)
From Coq Require Import ZArith NArith List Bool Lia Permutation.
Import ListNotations.
From Verif Require Import Lib.Corr Gen.C44 Model.C44 Proofs.C44.

(* ---- equality deciders ---- *)
Lemma label_eqb_eq a b : label_eqb a b = true <-> a = b.
Proof.
  destruct a as [a1 a2], b as [b1 b2]. unfold label_eqb. cbn. rewrite andb_true_iff, !str_eqb_eq.
  split; [intros [-> ->]; reflexivity | intro H; inversion H; auto].
Qed.

Lemma series_eqb_eq a b : series_eqb a b = true <-> a = b.
Proof. apply (list_eqb_spec label_eqb label_eqb_eq). Qed.

Lemma series_eqb_refl a : series_eqb a a = true.
Proof. apply series_eqb_eq. reflexivity. Qed.

(* ---- filters ---- *)
Lemma filter_comm {A} (p q : A -> bool) l : filter p (filter q l) = filter q (filter p l).
Proof.
  induction l as [|x l IH]; [reflexivity|]. cbn. destruct (p x) eqn:P, (q x) eqn:Q; cbn; rewrite ?P, ?Q, IH; reflexivity.
Qed.

Lemma filter_filter_and {A} (p q : A -> bool) l : filter p (filter q l) = filter (fun x => q x && p x) l.
Proof.
  induction l as [|x l IH]; [reflexivity|]. cbn. destruct (q x) eqn:Q; cbn; [destruct (p x); rewrite IH; reflexivity | exact IH].
Qed.

Lemma filter_ext_in' {A} (p q : A -> bool) l : (forall x, In x l -> p x = q x) -> filter p l = filter q l.
Proof.
  induction l as [|x l IH]; intro H; [reflexivity|]. cbn. rewrite (H x) by (left; reflexivity).
  rewrite IH; [reflexivity|]. intros; apply H; right; assumption.
Qed.

Lemma filter_all_true {A} (p : A -> bool) l : (forall x, In x l -> p x = true) -> filter p l = l.
Proof.
  induction l as [|x l IH]; intro Hl; [reflexivity|]. cbn. rewrite (Hl x) by (left; reflexivity).
  f_equal. apply IH. intros; apply Hl; right; assumption.
Qed.

Lemma map_filter {A B} (f : A -> B) (p : B -> bool) l : map f (filter (fun x => p (f x)) l) = filter p (map f l).
Proof. induction l as [|x l IH]; [reflexivity|]. cbn. destruct (p (f x)); cbn; rewrite IH; reflexivity. Qed.

(* ---- shard of a series survives [keep] ---- *)
Section Sound.
  Variable H : str -> N.
  Variable by_ : bool.
  Variable set : list str.
  Variable n : N.

  Definition sh (ls : series) : N := shard_of H by_ set n ls.

  Lemma in_shard_sh (i : N) (x : sample) : in_shard H by_ set n i x = N.eqb (sh (fst x)) i.
  Proof. reflexivity. Qed.

  Lemma keep_shard (wo : bool) (g : list str) (ls : series) :
    (if by_ then (if wo then disjoint set (s_name :: g) else subset set g)
     else wo && subset (s_name :: g) set) = true ->
    sh (keep wo g ls) = sh ls.
  Proof.
    intro C. unfold sh. apply same_projection_same_shard. unfold keep.
    destruct by_, wo; cbn [selected] in *.
    - (* by-sharding, without-aggregation: the sharding labels are not dropped *)
      rewrite filter_filter_and. apply filter_ext_in'. intros [nm v] _. cbn [fst].
      destruct (mem nm set) eqn:M; [|rewrite andb_false_r; reflexivity]. rewrite andb_true_r.
      rewrite disjoint_spec in C. apply mem_in in M. specialize (C nm M).
      assert (A : mem nm g = false).
      { apply mem_false. intro K. apply C. right. exact K. }
      assert (B : str_eqb nm s_name = false).
      { destruct (str_eqb nm s_name) eqn:E; [|reflexivity]. apply str_eqb_eq in E. exfalso. apply C. left. auto. }
      rewrite A, B. reflexivity.
    - rewrite filter_filter_and. apply filter_ext_in'. intros [nm v] _. cbn [fst].
      destruct (mem nm set) eqn:M; [|rewrite andb_false_r; reflexivity]. rewrite andb_true_r.
      rewrite subset_spec in C. apply mem_in in M. apply mem_in. auto.
    - apply andb_true_iff in C as [_ C]. rewrite filter_filter_and. apply filter_ext_in'. intros [nm v] _. cbn [fst].
      destruct (mem nm set) eqn:M; cbn [negb]; [rewrite andb_false_r; reflexivity|]. rewrite andb_true_r.
      rewrite subset_spec in C.
      assert (A : mem nm g = false).
      { apply mem_false. intro K. assert (In nm set) by (apply C; right; exact K). apply mem_in in H0. congruence. }
      assert (B : str_eqb nm s_name = false).
      { destruct (str_eqb nm s_name) eqn:E; [|reflexivity]. apply str_eqb_eq in E. subst.
        assert (In s_name set) by (apply C; left; reflexivity). apply mem_in in H0. congruence. }
      rewrite A, B. reflexivity.
    - discriminate.
  Qed.

  (* ---- aggregation commutes with taking a shard ---- *)
  Lemma nodup_keys_filter (p : series -> bool) : forall ks,
    nodup_keys (filter p ks) = filter p (nodup_keys ks).
  Proof.
    induction ks as [|k r IH]; [reflexivity|]. cbn [filter nodup_keys]. destruct (p k) eqn:P.
    - cbn [nodup_keys filter]. rewrite ?P. f_equal. rewrite IH. apply filter_comm.
    - rewrite IH. rewrite filter_comm. symmetry.
      rewrite (filter_ext_in' (fun k' => negb (series_eqb k k')) (fun _ => true) (filter p (nodup_keys r))).
      + clear. induction (filter p (nodup_keys r)) as [|x l IHl]; [reflexivity|]. cbn. rewrite IHl. reflexivity.
      + intros x Hx. apply filter_In in Hx as [_ Hx]. destruct (series_eqb k x) eqn:E; [|reflexivity].
        apply series_eqb_eq in E. subst. congruence.
  Qed.

  Lemma aggregate_shard (op : aggop) (wo : bool) (g : list str) (i : N) (v : vector) :
    (forall ls, sh (keep wo g ls) = sh ls) ->
    aggregate op wo g (filter (in_shard H by_ set n i) v) = filter (in_shard H by_ set n i) (aggregate op wo g v).
  Proof.
    intro K. unfold aggregate.
    set (key := fun x : sample => keep wo g (fst x)).
    set (p := fun k : series => N.eqb (sh k) i).
    assert (PK : forall x, in_shard H by_ set n i x = p (key x)).
    { intro x. rewrite in_shard_sh. unfold p, key. rewrite K. reflexivity. }
    assert (G : forall k, p k = true ->
      filter (fun x : sample => series_eqb (key x) k) (filter (fun x => p (key x)) v) = filter (fun x : sample => series_eqb (key x) k) v).
    { intros k Pk. rewrite filter_filter_and. apply filter_ext_in'. intros x _.
      destruct (series_eqb (key x) k) eqn:E; [|rewrite andb_false_r; reflexivity].
      apply series_eqb_eq in E. rewrite E, Pk. reflexivity. }
    assert (M : forall ks,
      map (fun k => (k, agg_vals op (map snd (filter (fun x : sample => series_eqb (key x) k) (filter (fun x => p (key x)) v))))) (filter p ks)
      = filter (in_shard H by_ set n i) (map (fun k => (k, agg_vals op (map snd (filter (fun x : sample => series_eqb (key x) k) v)))) ks)).
    { induction ks as [|k ks IH]; [reflexivity|]. cbn [filter map].
      rewrite in_shard_sh. cbn [fst]. fold (p k). destruct (p k) eqn:Pk.
      - cbn [map]. f_equal; [|exact IH]. f_equal. f_equal. f_equal. apply G. exact Pk.
      - exact IH. }
    rewrite (filter_ext_in' (in_shard H by_ set n i) (fun x => p (key x)) v) by (intros; apply PK).
    subst key. cbn beta in *. unfold sample in *.
    rewrite (map_filter (fun x : series * Z => keep wo g (fst x)) p v), nodup_keys_filter. apply M.
  Qed.

  (* ---- binary operations ---- *)
  Lemma has_dup_filter (p : series -> bool) : forall ks, has_dup ks = false -> has_dup (filter p ks) = false.
  Proof.
    induction ks as [|k r IH]; intro Hd; [reflexivity|]. cbn [has_dup] in Hd. apply orb_false_iff in Hd as [H1 H2].
    cbn [filter]. destruct (p k); [|apply IH; exact H2]. cbn [has_dup]. rewrite (IH H2), orb_false_r.
    destruct (existsb (series_eqb k) (filter p r)) eqn:E; [|reflexivity].
    apply existsb_exists in E as (y & Hy & Ey). apply filter_In in Hy as [Hy _].
    assert (existsb (series_eqb k) r = true) by (apply existsb_exists; exists y; auto). congruence.
  Qed.

  Lemma find_filter {A} (q r : A -> bool) : (forall y, q y = true -> r y = true) ->
    forall l, find q (filter r l) = find q l.
  Proof.
    intros Hqr. induction l as [|y l IH]; [reflexivity|]. cbn [filter find]. destruct (r y) eqn:R.
    - cbn [find]. destruct (q y); [reflexivity | exact IH].
    - destruct (q y) eqn:Q; [rewrite (Hqr y Q) in R; discriminate | exact IH].
  Qed.

  Lemma existsb_filter {A} (q r : A -> bool) : (forall y, q y = true -> r y = true) ->
    forall l, existsb q (filter r l) = existsb q l.
  Proof.
    intros Hqr. induction l as [|y l IH]; [reflexivity|]. cbn [filter existsb]. destruct (r y) eqn:R.
    - cbn [existsb]. rewrite IH. reflexivity.
    - rewrite IH. destruct (q y) eqn:Q; [rewrite (Hqr y Q) in R; discriminate | reflexivity].
  Qed.

  Lemma filter_map_comm {A B} (f : A -> B) (P : B -> bool) l : filter P (map f l) = map f (filter (fun x => P (f x)) l).
  Proof. induction l as [|x l IH]; [reflexivity|]. cbn. destruct (P (f x)); cbn; rewrite IH; reflexivity. Qed.

  Lemma filter_nil_all {A} (p : A -> bool) l : (forall x, In x l -> p x = false) -> filter p l = [].
  Proof.
    induction l as [|x l IH]; intro Hl; [reflexivity|]. cbn. rewrite (Hl x) by (left; reflexivity).
    apply IH. intros; apply Hl; right; assumption.
  Qed.

  Definition is_nil {A} (l : list A) : bool := match l with [] => true | _ => false end.

  Lemma is_nil_true {A} (l : list A) : is_nil l = true -> l = [].
  Proof. destruct l; [reflexivity | discriminate]. Qed.

  Lemma bin_eval_eq op on ls vl vr :
    bin_eval op on ls vl vr =
    if is_nil vl || is_nil vr then Some []
    else if has_dup (map (bsig on ls) vr) then None
    else if has_dup (map (bsig on ls) (filter (bmatched on ls vr) vl)) then None
    else if has_dup (map fst (map (bout op on ls vr) (filter (bmatched on ls vr) vl))) then None
    else Some (map (bout op on ls vr) (filter (bmatched on ls vr) vl)).
  Proof. destruct vl, vr; reflexivity. Qed.

  Lemma bin_eval_shard (op : binop) (on : bool) (ls : list str) (i : N) (vl vr V : vector) :
    (forall s, sh (keep (negb on) ls s) = sh s) ->
    (forall s, sh (drop_name (keep (negb on) ls s)) = sh (keep (negb on) ls s)) ->
    bin_eval op on ls vl vr = Some V ->
    bin_eval op on ls (filter (in_shard H by_ set n i) vl) (filter (in_shard H by_ set n i) vr)
    = Some (filter (in_shard H by_ set n i) V).
  Proof.
    intros K1 K2 E. rewrite bin_eval_eq in *.
    set (sig := bsig on ls) in *.
    set (Pi := in_shard H by_ set n i).
    set (p := fun k : series => N.eqb (sh k) i).
    assert (PK : forall x, Pi x = p (sig x)).
    { intro x. unfold Pi. rewrite in_shard_sh. unfold p, sig, bsig. rewrite K1. reflexivity. }
    set (q := bmatched on ls) in *.
    set (f := bout op on ls) in *.
    assert (PF : forall R x, Pi (f R x) = Pi x).
    { intros R x. unfold Pi at 1. rewrite in_shard_sh. unfold f, bout. cbn [fst]. unfold bsig at 1. rewrite K2.
      rewrite PK. reflexivity. }
    (* a partner of x lies on the same shard as x *)
    assert (SAME : forall x y, series_eqb (sig y) (sig x) = true -> Pi y = Pi x).
    { intros x y Exy. apply series_eqb_eq in Exy. rewrite !PK, Exy. reflexivity. }
    destruct (is_nil vl || is_nil vr) eqn:NL.
    { inversion E; subst V. cbn [filter]. apply orb_true_iff in NL as [NL|NL]; apply is_nil_true in NL; subst.
      - reflexivity.
      - cbn [filter is_nil]. rewrite orb_true_r. reflexivity. }
    destruct (has_dup (map sig vr)) eqn:D1; [discriminate|].
    destruct (has_dup (map sig (filter (q vr) vl))) eqn:D2; [discriminate|].
    destruct (has_dup (map fst (map (f vr) (filter (q vr) vl)))) eqn:D3; [discriminate|].
    inversion E as [EV]. clear E. subst V.
    (* the matched left samples of shard i *)
    assert (MI : filter (q (filter Pi vr)) (filter Pi vl) = filter Pi (filter (q vr) vl)).
    { rewrite (filter_comm Pi (q vr)). rewrite !filter_filter_and. apply filter_ext_in'. intros x _.
      destruct (Pi x) eqn:Px; cbn [andb]; [|reflexivity].
      unfold q, bmatched. apply existsb_filter. intros y Hy. rewrite (SAME x y Hy). exact Px. }
    assert (OUT : map (f (filter Pi vr)) (filter Pi (filter (q vr) vl)) = filter Pi (map (f vr) (filter (q vr) vl))).
    { rewrite filter_map_comm. rewrite (filter_ext_in' (fun x => Pi (f vr x)) Pi) by (intros; apply PF).
      apply map_ext_in. intros x Hx. apply filter_In in Hx as [_ Px]. unfold f, bout. f_equal. f_equal.
      rewrite find_filter; [reflexivity|]. intros y Hy. rewrite (SAME x y Hy). exact Px. }
    assert (FV : filter Pi (map (f vr) (filter (q vr) vl)) = map (f vr) (filter (q (filter Pi vr)) (filter Pi vl))).
    { rewrite filter_map_comm. rewrite (filter_ext_in' (fun x => Pi (f vr x)) Pi) by (intros; apply PF). rewrite MI. reflexivity. }
    destruct (is_nil (filter Pi vl) || is_nil (filter Pi vr)) eqn:NF.
    { f_equal. rewrite FV. apply orb_true_iff in NF as [NF|NF]; apply is_nil_true in NF; rewrite NF; [reflexivity|].
      rewrite (filter_nil_all (q []) (filter Pi vl)); [reflexivity | intros; reflexivity]. }
    assert (D1' : has_dup (map sig (filter Pi vr)) = false).
    { rewrite (filter_ext_in' Pi (fun x => p (sig x)) vr) by (intros; apply PK).
      rewrite (map_filter sig p vr). apply has_dup_filter. exact D1. }
    rewrite D1'. rewrite MI.
    assert (D2' : has_dup (map sig (filter Pi (filter (q vr) vl))) = false).
    { rewrite (filter_ext_in' Pi (fun x => p (sig x)) (filter (q vr) vl)) by (intros; apply PK).
      rewrite (map_filter sig p). apply has_dup_filter. exact D2. }
    rewrite D2'. rewrite OUT.
    assert (D3' : has_dup (map fst (filter Pi (map (f vr) (filter (q vr) vl)))) = false).
    { rewrite (filter_ext_in' Pi (fun x : series * Z => p (fst x)) (map (f vr) (filter (q vr) vl))) by (intros; unfold Pi; apply in_shard_sh).
      rewrite (map_filter (@fst series Z) p). apply has_dup_filter. exact D3. }
    rewrite D3'. reflexivity.
  Qed.

  Lemma drop_name_keep_true (ls : list str) (s : series) : drop_name (keep true ls s) = keep true ls s.
  Proof.
    unfold drop_name, keep. rewrite filter_filter_and. apply filter_ext_in'. intros [nm v] _. cbn [fst].
    destruct (negb (mem nm ls)); cbn [andb]; [|reflexivity]. destruct (negb (str_eqb nm s_name)); reflexivity.
  Qed.

  Lemma drop_name_shard_by (s : series) : by_ = true -> mem s_name set = false -> sh (drop_name s) = sh s.
  Proof.
    intros Hb Hn. unfold sh. rewrite Hb. apply same_projection_same_shard. unfold drop_name. cbn [selected].
    rewrite filter_filter_and. apply filter_ext_in'. intros [nm v] _. cbn [fst].
    destruct (mem nm set) eqn:M; [|rewrite andb_false_r; reflexivity]. rewrite andb_true_r.
    destruct (str_eqb nm s_name) eqn:E; [|reflexivity]. apply str_eqb_eq in E. subst. congruence.
  Qed.

  (* the result series of e on shard i are the result series of e on all data that belong to shard i *)
  Theorem shard_commutes e : sound_for by_ set e = true -> forall D V i,
    qeval e D = Some V ->
    qeval e (filter (in_shard H by_ set n i) D) = Some (filter (in_shard H by_ set n i) V).
  Proof.
    induction e as [ms|op wo g e IH|op on ls l IHl r IHr]; intros S D V i E.
    - cbn [qeval] in *. inversion E; subst. f_equal. apply filter_comm.
    - cbn [sound_for] in S. apply andb_true_iff in S as [S1 S2]. cbn [qeval] in *.
      destruct (qeval e D) as [V'|] eqn:E'; [|discriminate]. cbn in E. inversion E; subst.
      rewrite (IH S2 D V' i E'). cbn. f_equal. apply aggregate_shard. intro s. apply keep_shard. exact S1.
    - cbn [sound_for] in S. apply andb_true_iff in S as [S Sr]. apply andb_true_iff in S as [S1 Sl].
      cbn [qeval] in *.
      destruct (qeval l D) as [vl|] eqn:El; [|discriminate]. destruct (qeval r D) as [vr|] eqn:Er; [|discriminate].
      rewrite (IHl Sl D vl i El), (IHr Sr D vr i Er).
      apply bin_eval_shard; [| |exact E].
      + intro s. apply keep_shard. destruct by_ eqn:Eb, on; cbn [negb andb] in *;
          try exact S1; try discriminate.
        apply andb_true_iff in S1 as [A _]. exact A.
      + intro s. destruct on; cbn [negb] in *.
        * destruct by_ eqn:Eb; [|discriminate]. apply andb_true_iff in S1 as [_ B]. apply negb_true_iff in B.
          apply drop_name_shard_by; auto.
        * rewrite drop_name_keep_true. reflexivity.
  Qed.

  (* ---- the shards partition any vector ---- *)
  Lemma concat_cons_middle {A} (x : A) (l1 l2 : list (list A)) a :
    Permutation (concat (l1 ++ (x :: a) :: l2)) (x :: concat (l1 ++ a :: l2)).
  Proof.
    rewrite !concat_app. cbn [concat]. rewrite <- app_comm_cons. symmetry. apply Permutation_middle.
  Qed.

  Lemma shards_partition (v : vector) : (0 < n)%N ->
    Permutation (concat (map (fun i => filter (in_shard H by_ set n (N.of_nat i)) v) (seq 0 (N.to_nat n)))) v.
  Proof.
    intro Hn. induction v as [|x v IH].
    - cbn. induction (seq 0 (N.to_nat n)) as [|a l IHl]; [constructor | exact IHl].
    - set (k := N.to_nat (sh (fst x))).
      assert (Hk : (k < N.to_nat n)%nat).
      { unfold k, sh, shard_of. assert ((H (shard_buf by_ set (fst x)) mod n < n)%N) by (apply N.mod_lt; lia). lia. }
      assert (Sq : seq 0 (N.to_nat n) = seq 0 k ++ k :: seq (S k) (N.to_nat n - S k)).
      { replace (N.to_nat n) with (k + S (N.to_nat n - S k))%nat at 1 by lia. rewrite seq_app. cbn. reflexivity. }
      rewrite Sq in *. rewrite map_app in *. cbn [map] in *.
      assert (E1 : forall l, (forall j, In j l -> j <> k) ->
         map (fun i => filter (in_shard H by_ set n (N.of_nat i)) (x :: v)) l
         = map (fun i => filter (in_shard H by_ set n (N.of_nat i)) v) l).
      { intros l Hl. apply map_ext_in. intros j Hj. cbn [filter]. rewrite in_shard_sh.
        destruct (N.eqb (sh (fst x)) (N.of_nat j)) eqn:E; [|reflexivity].
        apply N.eqb_eq in E. exfalso. apply (Hl j Hj). unfold k. rewrite E. lia. }
      rewrite (E1 (seq 0 k)) by (intros j Hj; apply in_seq in Hj; lia).
      rewrite (E1 (seq (S k) (N.to_nat n - S k))) by (intros j Hj; apply in_seq in Hj; lia).
      cbn [filter]. rewrite in_shard_sh.
      assert (E2 : N.eqb (sh (fst x)) (N.of_nat k) = true) by (apply N.eqb_eq; unfold k; lia).
      rewrite E2. rewrite concat_cons_middle. constructor. exact IH.
  Qed.

  Lemma all_some_map_some {A B} (g : A -> B) l : all_some (map (fun i => Some (g i)) l) = Some (map g l).
  Proof. induction l as [|x l IH]; [reflexivity|]. cbn. rewrite IH. reflexivity. Qed.

  (* when the unsharded evaluation succeeds, every shard succeeds and the concatenated shard
     results are the unsharded result, up to order *)
  Theorem sharded_sound e D V : (0 < n)%N -> sound_for by_ set e = true -> qeval e D = Some V ->
    exists W, sharded H by_ set n e D = Some W /\ Permutation W V.
  Proof.
    intros Hn S E. unfold sharded, shard_results.
    rewrite (map_ext _ (fun i => Some (filter (in_shard H by_ set n (N.of_nat i)) V)))
      by (intro i; apply shard_commutes; assumption).
    rewrite all_some_map_some. cbn. eexists. split; [reflexivity|]. apply shards_partition. exact Hn.
  Qed.
End Sound.

(* ---- from the analyzer's answer to [sound_for] ---- *)
Lemma name_ok_sub by_ set e e' : (drops_name e' = true -> drops_name e = true) ->
  name_ok by_ set e = true -> name_ok by_ set e' = true.
Proof.
  unfold name_ok. destruct by_; [|auto]. intros Hd N. apply orb_true_iff in N as [N|N]; [|rewrite N; apply orb_true_r].
  apply negb_true_iff in N. destruct (drops_name e') eqn:E; [rewrite (Hd eq_refl) in N; discriminate | reflexivity].
Qed.

Lemma analyzer_sound_for e : forall by_ set,
  compatible (scopes (erase e)) by_ set = true -> name_ok by_ set e = true -> sound_for by_ set e = true.
Proof.
  induction e as [ms|op wo g e IH|op on ls l IHl r IHr]; intros by_ set C N; [reflexivity| |].
  - cbn [erase scopes] in C. cbn [app] in C.
    change ((g, negb wo) :: scopes (erase e)) with ([(g, negb wo)] ++ scopes (erase e)) in C.
    rewrite compatible_app in C. apply andb_true_iff in C as [C1 C2].
    cbn [sound_for]. apply andb_true_iff. split.
    + unfold compatible in C1. unfold name_ok in N. cbn [drops_name] in N.
      destruct by_; cbn in C1; rewrite andb_true_r in C1.
      * destruct wo; cbn [negb] in C1; [|exact C1].
        cbn [orb negb] in N. apply negb_true_iff in N.
        apply disjoint_spec. intros x Hx [<-|K].
        -- apply mem_in in Hx. congruence.
        -- rewrite disjoint_spec in C1. apply (C1 x Hx K).
      * apply andb_true_iff in C1 as [W C1]. destruct wo; [|discriminate]. cbn.
        rewrite N. exact C1.
    + apply IH; [exact C2|]. eapply name_ok_sub; [|exact N]. cbn [drops_name]. intros ->. apply orb_true_r.
  - cbn [erase scopes] in C. rewrite !compatible_app in C.
    apply andb_true_iff in C as [C1 C]. apply andb_true_iff in C as [Cl Cr].
    assert (Nl : name_ok by_ set l = true) by (eapply name_ok_sub; [|exact N]; reflexivity).
    assert (Nr : name_ok by_ set r = true) by (eapply name_ok_sub; [|exact N]; reflexivity).
    cbn [sound_for]. rewrite (IHl _ _ Cl Nl), (IHr _ _ Cr Nr), !andb_true_r.
    unfold compatible in C1. unfold name_ok in N. cbn [drops_name] in N.
    destruct by_; cbn in C1; rewrite andb_true_r in C1.
    + cbn [negb orb] in N. destruct on; cbn in C1.
      * rewrite C1, N. reflexivity.
      * apply disjoint_spec. rewrite disjoint_spec in C1. intros x Hx [<-|K].
        -- apply (C1 _ Hx). apply in_or_app. right. left. reflexivity.
        -- apply (C1 _ Hx). apply in_or_app. left. exact K.
    + apply andb_true_iff in C1 as [W C1]. destruct on; [discriminate|]. cbn [negb andb].
      apply subset_spec. intros x Hx. apply mem_in. rewrite forallb_forall in C1. apply C1.
      destruct Hx as [<-|K]; apply in_or_app; [right; left; reflexivity | left; exact K].
Qed.

Lemma erase_no_dynamic e : dynamic_labels (erase e) = [].
Proof.
  induction e as [ms|op wo g e IH|op on ls l IHl r IHr]; [reflexivity | cbn; exact IH | cbn; rewrite IHl, IHr; reflexivity].
Qed.

Theorem sound H n e D V by_ set : (0 < n)%N ->
  analyze (erase e) = St by_ set -> name_ok by_ set e = true -> qeval e D = Some V ->
  exists W, sharded H by_ set n e D = Some W /\ Permutation W V.
Proof.
  intros Hn A N E. apply sharded_sound; [exact Hn| |exact E]. apply analyzer_sound_for; [|exact N].
  pose proof (analyze_compatible (erase e) by_ set A) as C. unfold all_scopes in C.
  rewrite erase_no_dynamic, app_nil_r in C. exact C.
Qed.

(* ---- the boolean predicate of the check ---- *)
Lemma sample_eqb_refl x : sample_eqb x x = true.
Proof. destruct x as [ls v]. unfold sample_eqb. cbn. rewrite series_eqb_refl, Z.eqb_refl. reflexivity. Qed.

Lemma perm_same_vector a b : Permutation a b -> same_vector a b = true.
Proof.
  intro P. unfold same_vector. rewrite (Permutation_length P), Nat.eqb_refl. cbn [andb].
  apply andb_true_iff. split; apply forallb_forall; intros x Hx; apply existsb_exists; exists x;
    (split; [|apply sample_eqb_refl]).
  - eapply Permutation_in; eauto.
  - eapply Permutation_in; [symmetry; exact P | exact Hx].
Qed.

(* ---- the frontend's MergeResponse on the shard results ---- *)
Lemma has_dup_NoDup (ks : list series) : has_dup ks = false <-> NoDup ks.
Proof.
  induction ks as [|k r IH]; cbn [has_dup]; [split; [constructor | reflexivity]|].
  rewrite orb_false_iff, IH. split.
  - intros [A B]. constructor; [|exact B]. intro K.
    assert (existsb (series_eqb k) r = true) by (apply existsb_exists; exists k; split; [exact K | apply series_eqb_refl]). congruence.
  - intro N. inversion N as [|? ? A B]; subst. split; [|exact B].
    destruct (existsb (series_eqb k) r) eqn:E; [|reflexivity]. apply existsb_exists in E as (y & Hy & Ey).
    apply series_eqb_eq in Ey. subst. contradiction.
Qed.

Lemma dedup_first_id (l : vector) : has_dup (map fst l) = false -> dedup_first l = l.
Proof.
  induction l as [|x r IH]; [reflexivity|]. cbn [map has_dup dedup_first]. intro Hd.
  apply orb_false_iff in Hd as [A B]. rewrite (IH B). f_equal. apply filter_all_true.
  intros y Hy. destruct (series_eqb (fst x) (fst y)) eqn:E; [|reflexivity].
  assert (existsb (series_eqb (fst x)) (map fst r) = true)
    by (apply existsb_exists; exists (fst y); split; [apply in_map; exact Hy | exact E]). congruence.
Qed.

Lemma has_dup_nodup_keys ks : has_dup (nodup_keys ks) = false.
Proof.
  induction ks as [|k r IH]; [reflexivity|]. cbn [nodup_keys has_dup].
  rewrite (has_dup_filter _ _ IH), orb_false_r.
  destruct (existsb (series_eqb k) (filter (fun k' => negb (series_eqb k k')) (nodup_keys r))) eqn:E; [|reflexivity].
  apply existsb_exists in E as (y & Hy & Ey). apply filter_In in Hy as [_ Hy]. rewrite Ey in Hy. discriminate.
Qed.

Lemma has_dup_map_filter {A} (g : A -> series) (p : A -> bool) l :
  has_dup (map g l) = false -> has_dup (map g (filter p l)) = false.
Proof.
  induction l as [|x l IH]; intro U; [reflexivity|]. cbn [map has_dup] in U. apply orb_false_iff in U as [A1 B1].
  cbn [filter]. destruct (p x); [|apply IH; exact B1]. cbn [map has_dup]. rewrite (IH B1), orb_false_r.
  destruct (existsb (series_eqb (g x)) (map g (filter p l))) eqn:E; [|reflexivity].
  apply existsb_exists in E as (y & Hy & Ey). apply in_map_iff in Hy as (z & <- & Hz). apply filter_In in Hz as [Hz _].
  assert (existsb (series_eqb (g x)) (map g l) = true)
    by (apply existsb_exists; exists (g z); split; [apply in_map; exact Hz | exact Ey]). congruence.
Qed.

(* results have pairwise different label sets when the stored series do *)
Lemma qeval_unique e : forall D V, has_dup (map fst D) = false -> qeval e D = Some V -> has_dup (map fst V) = false.
Proof.
  induction e as [ms|op wo g e IH|op on ls l IHl r IHr]; intros D V U E.
  - cbn [qeval] in E. inversion E; subst. apply has_dup_map_filter. exact U.
  - cbn [qeval] in E. destruct (qeval e D) as [V'|]; [|discriminate]. cbn in E. inversion E; subst.
    unfold aggregate. rewrite map_map. cbn [fst]. rewrite map_id. apply has_dup_nodup_keys.
  - cbn [qeval] in E. destruct (qeval l D) as [vl|]; [|discriminate]. destruct (qeval r D) as [vr|]; [|discriminate].
    rewrite bin_eval_eq in E. destruct (is_nil vl || is_nil vr); [inversion E; reflexivity|].
    destruct (has_dup (map (bsig on ls) vr)); [discriminate|].
    destruct (has_dup (map (bsig on ls) (filter (bmatched on ls vr) vl))); [discriminate|].
    destruct (has_dup (map fst (map (bout op on ls vr) (filter (bmatched on ls vr) vl)))) eqn:D3; [discriminate|].
    inversion E; subst. exact D3.
Qed.

Theorem sound_merged H n e D V by_ set : (0 < n)%N ->
  analyze (erase e) = St by_ set -> name_ok by_ set e = true ->
  has_dup (map fst D) = false -> qeval e D = Some V ->
  exists rs, all_some (shard_results H by_ set n e D) = Some rs
    /\ Permutation (concat rs) V /\ merge_vectors rs = concat rs.
Proof.
  intros Hn A N U E. destruct (sound H n e D V by_ set Hn A N E) as (W & SW & P). unfold sharded in SW.
  destruct (all_some (shard_results H by_ set n e D)) as [rs|]; [|discriminate]. cbn in SW. inversion SW; subst.
  exists rs. split; [reflexivity|]. split; [exact P|]. unfold merge_vectors. apply dedup_first_id.
  apply has_dup_NoDup. apply (Permutation_NoDup (l := map fst V)).
  - apply Permutation_map. symmetry. exact P.
  - apply has_dup_NoDup. eapply qeval_unique; eauto.
Qed.

Theorem sound_pred H n e D by_ set tbl : (0 < n)%N ->
  analyze (erase e) = St by_ set -> name_ok by_ set e = true -> has_dup (map fst D) = false ->
  pred_ok (CEval e D n by_ set tbl (qeval e D) (shard_results H by_ set n e D)
                 (option_map merge_vectors (all_some (shard_results H by_ set n e D)))) = true.
Proof.
  intros Hn A N U. cbn [pred_ok]. destruct (qeval e D) as [V|] eqn:E; [|reflexivity].
  destruct (sound_merged H n e D V by_ set Hn A N U E) as (rs & -> & P & M). cbn [option_map].
  rewrite M. rewrite (perm_same_vector _ _ P). reflexivity.
Qed.
