(* C44 — soundness of sharded evaluation for the mini-PromQL of Model/C44.v
   (selectors and sum/count/min/max aggregations with by / without). *)
From Coq Require Import ZArith NArith List Bool Lia Permutation.
Import ListNotations.
From Verif Require Import Lib.Corr Gen.C44 Model.C44 Proofs.C44.

(* ---- equality deciders ---- *)
Lemma label_eqb_eq a b : label_eqb a b = true <-> a = b.
Proof.
  destruct a as [a1 a2], b as [b1 b2]. unfold label_eqb. cbn. rewrite andb_true_iff, !str_eqb_eq.
  split; [intros [-> ->]; reflexivity | intro H; inversion H; auto].
Qed.

Lemma series_eqb_eq a b : series_eqb a b = true <-> a = b.
Proof. apply (list_eqb_spec label_eqb label_eqb_eq). Qed.

Lemma series_eqb_refl a : series_eqb a a = true.
Proof. apply series_eqb_eq. reflexivity. Qed.

(* ---- filters ---- *)
Lemma filter_comm {A} (p q : A -> bool) l : filter p (filter q l) = filter q (filter p l).
Proof.
  induction l as [|x l IH]; [reflexivity|]. cbn. destruct (p x) eqn:P, (q x) eqn:Q; cbn; rewrite ?P, ?Q, IH; reflexivity.
Qed.

Lemma filter_filter_and {A} (p q : A -> bool) l : filter p (filter q l) = filter (fun x => q x && p x) l.
Proof.
  induction l as [|x l IH]; [reflexivity|]. cbn. destruct (q x) eqn:Q; cbn; [destruct (p x); rewrite IH; reflexivity | exact IH].
Qed.

Lemma filter_ext_in' {A} (p q : A -> bool) l : (forall x, In x l -> p x = q x) -> filter p l = filter q l.
Proof.
  induction l as [|x l IH]; intro H; [reflexivity|]. cbn. rewrite (H x) by (left; reflexivity).
  rewrite IH; [reflexivity|]. intros; apply H; right; assumption.
Qed.

Lemma map_filter {A B} (f : A -> B) (p : B -> bool) l : map f (filter (fun x => p (f x)) l) = filter p (map f l).
Proof. induction l as [|x l IH]; [reflexivity|]. cbn. destruct (p (f x)); cbn; rewrite IH; reflexivity. Qed.

(* ---- shard of a series survives [keep] ---- *)
Section Sound.
  Variable H : str -> N.
  Variable by_ : bool.
  Variable set : list str.
  Variable n : N.

  Definition sh (ls : series) : N := shard_of H by_ set n ls.

  Lemma in_shard_sh (i : N) (x : sample) : in_shard H by_ set n i x = N.eqb (sh (fst x)) i.
  Proof. reflexivity. Qed.

  Lemma keep_shard (wo : bool) (g : list str) (ls : series) :
    (if by_ then (if wo then disjoint set (s_name :: g) else subset set g)
     else wo && subset (s_name :: g) set) = true ->
    sh (keep wo g ls) = sh ls.
  Proof.
    intro C. unfold sh. apply same_projection_same_shard. unfold keep.
    destruct by_, wo; cbn [selected] in *.
    - (* by-sharding, without-aggregation: the sharding labels are not dropped *)
      rewrite filter_filter_and. apply filter_ext_in'. intros [nm v] _. cbn [fst].
      destruct (mem nm set) eqn:M; [|rewrite andb_false_r; reflexivity]. rewrite andb_true_r.
      rewrite disjoint_spec in C. apply mem_in in M. specialize (C nm M).
      assert (A : mem nm g = false).
      { apply mem_false. intro K. apply C. right. exact K. }
      assert (B : str_eqb nm s_name = false).
      { destruct (str_eqb nm s_name) eqn:E; [|reflexivity]. apply str_eqb_eq in E. exfalso. apply C. left. auto. }
      rewrite A, B. reflexivity.
    - rewrite filter_filter_and. apply filter_ext_in'. intros [nm v] _. cbn [fst].
      destruct (mem nm set) eqn:M; [|rewrite andb_false_r; reflexivity]. rewrite andb_true_r.
      rewrite subset_spec in C. apply mem_in in M. apply mem_in. auto.
    - apply andb_true_iff in C as [_ C]. rewrite filter_filter_and. apply filter_ext_in'. intros [nm v] _. cbn [fst].
      destruct (mem nm set) eqn:M; cbn [negb]; [rewrite andb_false_r; reflexivity|]. rewrite andb_true_r.
      rewrite subset_spec in C.
      assert (A : mem nm g = false).
      { apply mem_false. intro K. assert (In nm set) by (apply C; right; exact K). apply mem_in in H0. congruence. }
      assert (B : str_eqb nm s_name = false).
      { destruct (str_eqb nm s_name) eqn:E; [|reflexivity]. apply str_eqb_eq in E. subst.
        assert (In s_name set) by (apply C; left; reflexivity). apply mem_in in H0. congruence. }
      rewrite A, B. reflexivity.
    - discriminate.
  Qed.

  (* ---- aggregation commutes with taking a shard ---- *)
  Lemma nodup_keys_filter (p : series -> bool) : forall ks,
    nodup_keys (filter p ks) = filter p (nodup_keys ks).
  Proof.
    induction ks as [|k r IH]; [reflexivity|]. cbn [filter nodup_keys]. destruct (p k) eqn:P.
    - cbn [nodup_keys filter]. rewrite ?P. f_equal. rewrite IH. apply filter_comm.
    - rewrite IH. rewrite filter_comm. symmetry.
      rewrite (filter_ext_in' (fun k' => negb (series_eqb k k')) (fun _ => true) (filter p (nodup_keys r))).
      + clear. induction (filter p (nodup_keys r)) as [|x l IHl]; [reflexivity|]. cbn. rewrite IHl. reflexivity.
      + intros x Hx. apply filter_In in Hx as [_ Hx]. destruct (series_eqb k x) eqn:E; [|reflexivity].
        apply series_eqb_eq in E. subst. congruence.
  Qed.

  Lemma aggregate_shard (op : aggop) (wo : bool) (g : list str) (i : N) (v : vector) :
    (forall ls, sh (keep wo g ls) = sh ls) ->
    aggregate op wo g (filter (in_shard H by_ set n i) v) = filter (in_shard H by_ set n i) (aggregate op wo g v).
  Proof.
    intro K. unfold aggregate.
    set (key := fun x : sample => keep wo g (fst x)).
    set (p := fun k : series => N.eqb (sh k) i).
    assert (PK : forall x, in_shard H by_ set n i x = p (key x)).
    { intro x. rewrite in_shard_sh. unfold p, key. rewrite K. reflexivity. }
    assert (G : forall k, p k = true ->
      filter (fun x : sample => series_eqb (key x) k) (filter (fun x => p (key x)) v) = filter (fun x : sample => series_eqb (key x) k) v).
    { intros k Pk. rewrite filter_filter_and. apply filter_ext_in'. intros x _.
      destruct (series_eqb (key x) k) eqn:E; [|rewrite andb_false_r; reflexivity].
      apply series_eqb_eq in E. rewrite E, Pk. reflexivity. }
    assert (M : forall ks,
      map (fun k => (k, agg_vals op (map snd (filter (fun x : sample => series_eqb (key x) k) (filter (fun x => p (key x)) v))))) (filter p ks)
      = filter (in_shard H by_ set n i) (map (fun k => (k, agg_vals op (map snd (filter (fun x : sample => series_eqb (key x) k) v)))) ks)).
    { induction ks as [|k ks IH]; [reflexivity|]. cbn [filter map].
      rewrite in_shard_sh. cbn [fst]. fold (p k). destruct (p k) eqn:Pk.
      - cbn [map]. f_equal; [|exact IH]. f_equal. f_equal. f_equal. apply G. exact Pk.
      - exact IH. }
    rewrite (filter_ext_in' (in_shard H by_ set n i) (fun x => p (key x)) v) by (intros; apply PK).
    subst key. cbn beta in *. unfold sample in *.
    rewrite (map_filter (fun x : series * Z => keep wo g (fst x)) p v), nodup_keys_filter. apply M.
  Qed.

  (* the result series of e on shard i are the result series of e on all data that belong to shard i *)
  Theorem shard_commutes e : sound_for by_ set e = true -> forall D i,
    qeval e (filter (in_shard H by_ set n i) D) = filter (in_shard H by_ set n i) (qeval e D).
  Proof.
    induction e as [ms|op wo g e IH]; intros S D i.
    - cbn [qeval]. apply filter_comm.
    - cbn [sound_for] in S. apply andb_true_iff in S as [S1 S2]. cbn [qeval]. rewrite IH by exact S2.
      apply aggregate_shard. intro ls. apply keep_shard. exact S1.
  Qed.

  (* ---- the shards partition any vector ---- *)
  Lemma concat_cons_middle {A} (x : A) (l1 l2 : list (list A)) a :
    Permutation (concat (l1 ++ (x :: a) :: l2)) (x :: concat (l1 ++ a :: l2)).
  Proof.
    rewrite !concat_app. cbn [concat]. rewrite <- app_comm_cons. symmetry. apply Permutation_middle.
  Qed.

  Lemma shards_partition (v : vector) : (0 < n)%N ->
    Permutation (concat (map (fun i => filter (in_shard H by_ set n (N.of_nat i)) v) (seq 0 (N.to_nat n)))) v.
  Proof.
    intro Hn. induction v as [|x v IH].
    - cbn. induction (seq 0 (N.to_nat n)) as [|a l IHl]; [constructor | exact IHl].
    - set (k := N.to_nat (sh (fst x))).
      assert (Hk : (k < N.to_nat n)%nat).
      { unfold k, sh, shard_of. assert ((H (shard_buf by_ set (fst x)) mod n < n)%N) by (apply N.mod_lt; lia). lia. }
      assert (Sq : seq 0 (N.to_nat n) = seq 0 k ++ k :: seq (S k) (N.to_nat n - S k)).
      { replace (N.to_nat n) with (k + S (N.to_nat n - S k))%nat at 1 by lia. rewrite seq_app. cbn. reflexivity. }
      rewrite Sq in *. rewrite map_app in *. cbn [map] in *.
      assert (E1 : forall l, (forall j, In j l -> j <> k) ->
         map (fun i => filter (in_shard H by_ set n (N.of_nat i)) (x :: v)) l
         = map (fun i => filter (in_shard H by_ set n (N.of_nat i)) v) l).
      { intros l Hl. apply map_ext_in. intros j Hj. cbn [filter]. rewrite in_shard_sh.
        destruct (N.eqb (sh (fst x)) (N.of_nat j)) eqn:E; [|reflexivity].
        apply N.eqb_eq in E. exfalso. apply (Hl j Hj). unfold k. rewrite E. lia. }
      rewrite (E1 (seq 0 k)) by (intros j Hj; apply in_seq in Hj; lia).
      rewrite (E1 (seq (S k) (N.to_nat n - S k))) by (intros j Hj; apply in_seq in Hj; lia).
      cbn [filter]. rewrite in_shard_sh.
      assert (E2 : N.eqb (sh (fst x)) (N.of_nat k) = true) by (apply N.eqb_eq; unfold k; lia).
      rewrite E2. rewrite concat_cons_middle. constructor. exact IH.
  Qed.

  (* evaluating e on every shard and concatenating gives the unsharded result, up to order *)
  Theorem sharded_sound e D : (0 < n)%N -> sound_for by_ set e = true ->
    Permutation (sharded H by_ set n e D) (qeval e D).
  Proof.
    intros Hn S. unfold sharded.
    rewrite (map_ext _ (fun i => filter (in_shard H by_ set n (N.of_nat i)) (qeval e D)))
      by (intro i; apply shard_commutes; exact S).
    apply shards_partition. exact Hn.
  Qed.
End Sound.

(* ---- from the analyzer's answer to [sound_for] ---- *)
Lemma analyzer_sound_for e : forall by_ set,
  compatible (scopes (erase e)) by_ set = true -> name_ok by_ set e = true -> sound_for by_ set e = true.
Proof.
  induction e as [ms|op wo g e IH]; intros by_ set C N; [reflexivity|].
  cbn [erase scopes] in C. cbn [app] in C.
  change ((g, negb wo) :: scopes (erase e)) with ([(g, negb wo)] ++ scopes (erase e)) in C.
  rewrite compatible_app in C. apply andb_true_iff in C as [C1 C2].
  cbn [sound_for]. apply andb_true_iff. split.
  - unfold compatible in C1. unfold name_ok in N. cbn [has_without] in N.
    destruct by_; cbn in C1; rewrite andb_true_r in C1.
    + destruct wo; cbn [negb] in C1; [|exact C1].
      cbn [orb negb] in N. apply negb_true_iff in N.
      apply disjoint_spec. intros x Hx [<-|K].
      * apply mem_in in Hx. congruence.
      * rewrite disjoint_spec in C1. apply (C1 x Hx K).
    + apply andb_true_iff in C1 as [W C1]. destruct wo; [|discriminate]. cbn.
      rewrite N. exact C1.
  - apply IH; [exact C2|]. unfold name_ok in *. cbn [has_without] in N. destruct by_; [|exact N].
    destruct wo; cbn [orb negb] in N; [rewrite N; apply orb_true_r | exact N].
Qed.

Lemma erase_no_dynamic e : dynamic_labels (erase e) = [].
Proof. induction e as [ms|op wo g e IH]; [reflexivity|]. cbn. exact IH. Qed.

Theorem sound H n e D by_ set : (0 < n)%N ->
  analyze (erase e) = St by_ set -> name_ok by_ set e = true ->
  Permutation (sharded H by_ set n e D) (qeval e D).
Proof.
  intros Hn A N. apply sharded_sound; [exact Hn|]. apply analyzer_sound_for; [|exact N].
  pose proof (analyze_compatible (erase e) by_ set A) as C. unfold all_scopes in C.
  rewrite erase_no_dynamic, app_nil_r in C. exact C.
Qed.

(* ---- the boolean predicate of the check ---- *)
Lemma sample_eqb_refl x : sample_eqb x x = true.
Proof. destruct x as [ls v]. unfold sample_eqb. cbn. rewrite series_eqb_refl, Z.eqb_refl. reflexivity. Qed.

Lemma perm_same_vector a b : Permutation a b -> same_vector a b = true.
Proof.
  intro P. unfold same_vector. rewrite (Permutation_length P), Nat.eqb_refl. cbn [andb].
  apply andb_true_iff. split; apply forallb_forall; intros x Hx; apply existsb_exists; exists x;
    (split; [|apply sample_eqb_refl]).
  - eapply Permutation_in; eauto.
  - eapply Permutation_in; [symmetry; exact P | exact Hx].
Qed.

Theorem sound_pred H n e D by_ set tbl : (0 < n)%N ->
  analyze (erase e) = St by_ set -> name_ok by_ set e = true ->
  pred_ok (CEval e D n by_ set tbl (qeval e D)
             (map (fun i => qeval e (filter (in_shard H by_ set n (N.of_nat i)) D)) (seq 0 (N.to_nat n)))) = true.
Proof.
  intros Hn A N. cbn [pred_ok]. apply perm_same_vector. apply (sound H n e D by_ set Hn A N).
Qed.
