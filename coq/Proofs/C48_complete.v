(* C48 — part 2: everything inside the requested intervals is removed, hence the
   rewrite is exactly the filter specification. Needs the sortedness invariant
   that tombstones.Intervals.Add maintains. *)
From Coq Require Import NArith ZArith List Bool Lia Sorted.
Import ListNotations.
From Verif Require Import Lib.Corr Lib.Misc_Cmp Gen.C48 Model.C48 Proofs.C48.
Open Scope Z_scope.

(* sorted, disjoint, non-adjacent, each interval non-empty; [lo] = previous Maxt + 1 *)
Fixpoint norm (lo : Z) (l : list interval) : Prop :=
  match l with
  | [] => True
  | (a, b) :: r => lo < a /\ a <= b /\ norm (b + 1) r
  end.

Definition normalized (l : list interval) : Prop := exists lo, norm lo l.
Definition valid (i : interval) : Prop := fst i <= snd i.

Lemma bool_iff_eq (a b : bool) : (a = true <-> b = true) -> a = b.
Proof. destruct a, b; intros [H1 H2]; try reflexivity; [symmetry; apply H1; reflexivity | apply H2; reflexivity]. Qed.

Lemma norm_lb l : forall lo t, norm lo l -> covered l t = true -> lo < t.
Proof.
  induction l as [|[a b] r IH]; intros lo t Hn Hc; [discriminate|].
  destruct Hn as [H1 [H2 H3]]. rewrite covered_cons in Hc. apply orb_true_iff in Hc as [Hc|Hc].
  - apply inb_iff in Hc. simpl in Hc. lia.
  - specialize (IH _ _ H3 Hc). lia.
Qed.

Lemma norm_valid l : forall lo, norm lo l -> Forall valid l.
Proof.
  induction l as [|[a b] r IH]; intros lo Hn; constructor.
  - destruct Hn as [_ [H _]]. exact H.
  - destruct Hn as [_ [_ H]]. eapply IH; eauto.
Qed.

Lemma absorb_norm y : forall l hi0 hi rest,
  norm (hi0 + 1) l -> absorb y hi0 l = (hi, rest) ->
  hi0 <= hi /\ norm (hi + 1) rest
  /\ (match rest with [] => True | (a, _) :: _ => y + 1 < a end)
  /\ (forall t, covered l t = true -> covered rest t = true \/ t <= hi).
Proof.
  induction l as [|[a b] r IH]; intros hi0 hi rest Hn H; simpl in H.
  - inversion H; subst. repeat split; auto; try lia; try (intros t Ht; discriminate).
  - destruct Hn as [H1 [H2 H3]]. destruct (a >? y + 1) eqn:E.
    + inversion H; subst. apply Z.gtb_lt in E. repeat split; auto; try lia.
    + destruct (IH _ _ _ H3 H) as [I1 [I2 [I3 I4]]]. repeat split; auto; try lia.
      intros t Ht. rewrite covered_cons in Ht. apply orb_true_iff in Ht as [Ht|Ht].
      * apply inb_iff in Ht. simpl in Ht. right. lia.
      * apply I4. exact Ht.
Qed.

Lemma add_go_norm x y : x <= y -> forall l lo, norm lo l ->
  norm (Z.min lo (x - 1)) (add_go x y l)
  /\ forall t, (x <= t <= y \/ covered l t = true) -> covered (add_go x y l) t = true.
Proof.
  intro Hxy. induction l as [|[a b] r IH]; intros lo Hn.
  - simpl. split; [lia|]. intros t [Ht|Ht]; [|discriminate].
    rewrite orb_false_r. apply inb_iff. exact Ht.
  - destruct Hn as [H1 [H2 H3]]. cbn [add_go].
    destruct (b <? x - 1) eqn:E1.
    + apply Z.ltb_lt in E1. destruct (IH _ H3) as [I1 I2]. split.
      * cbn [norm]. split; [lia|]. split; [exact H2|].
        replace (Z.min (b + 1) (x - 1)) with (b + 1) in I1 by lia. exact I1.
      * intros t Ht. rewrite covered_cons. destruct Ht as [Ht|Ht].
        -- rewrite (I2 t (or_introl Ht)). apply orb_true_r.
        -- rewrite covered_cons in Ht. apply orb_true_iff in Ht as [Ht|Ht]; [rewrite Ht; reflexivity|].
           rewrite (I2 t (or_intror Ht)). apply orb_true_r.
    + apply Z.ltb_ge in E1. destruct (a >? y + 1) eqn:E2.
      * apply Z.gtb_lt in E2. split.
        -- cbn [norm]. repeat split; auto; lia.
        -- intros t Ht. rewrite covered_cons. destruct Ht as [Ht|Ht]; [|rewrite Ht; apply orb_true_r].
           assert (Hin : inb (x, y) t = true) by (apply inb_iff; exact Ht). rewrite Hin. reflexivity.
      * apply gtb_false in E2.
        destruct (absorb y b r) as [hi rest] eqn:Ea.
        destruct (absorb_norm y r b hi rest H3 Ea) as [A1 [A2 [A3 A4]]]. split.
        -- cbn [norm]. split; [lia|]. split; [lia|].
           destruct rest as [|[a' b'] r']; [exact I|].
           destruct A2 as [B1 [B2 B3]]. cbn [norm]. repeat split; auto; lia.
        -- intros t Ht. rewrite covered_cons.
           assert (Hm : forall u, Z.min x a <= u <= Z.max y hi -> inb (Z.min x a, Z.max y hi) u = true).
           { intros u Hu. apply inb_iff. exact Hu. }
           destruct Ht as [Ht|Ht]; [rewrite Hm by lia; reflexivity|].
           rewrite covered_cons in Ht. apply orb_true_iff in Ht as [Ht|Ht].
           ++ apply inb_iff in Ht. simpl in Ht. rewrite Hm by lia. reflexivity.
           ++ destruct (A4 t Ht) as [Hr|Hr]; [rewrite Hr; apply orb_true_r|].
              pose proof (norm_lb r (b + 1) t H3 Ht). rewrite Hm by lia. reflexivity.
Qed.

Lemma add_iv_norm i l : valid i -> normalized l ->
  normalized (add_iv i l)
  /\ forall t, covered (add_iv i l) t = (inb i t || covered l t).
Proof.
  intros Hv [lo Hn]. unfold add_iv. destruct (add_go_norm (fst i) (snd i) Hv l lo Hn) as [N1 N2]. split.
  - eexists. exact N1.
  - intro t. apply bool_iff_eq. split.
    + intro H. apply add_go_sound in H as [H|H]; [|rewrite H; apply orb_true_r].
      assert (Hin : inb i t = true) by (apply inb_iff; exact H). rewrite Hin. reflexivity.
    + intro H. apply N2. apply orb_true_iff in H as [H|H]; [left; apply inb_iff; exact H | right; exact H].
Qed.

Lemma fold_add_norm ivs : forall acc,
  Forall valid ivs -> normalized acc ->
  normalized (fold_left (fun a i => add_iv i a) ivs acc)
  /\ forall t, covered (fold_left (fun a i => add_iv i a) ivs acc) t = (covered ivs t || covered acc t).
Proof.
  induction ivs as [|i ivs IH]; intros acc Hv Hn; simpl.
  - split; [exact Hn | reflexivity].
  - inversion Hv; subst. destruct (add_iv_norm i acc H1 Hn) as [N1 N2].
    destruct (IH _ H2 N1) as [I1 I2]. split; [exact I1|].
    intro t. rewrite I2, N2. rewrite orb_assoc. f_equal. apply orb_comm.
Qed.

Definition reqs_ok (reqs : list request) : Prop := Forall (fun r => Forall valid (snd r)) reqs.

Lemma del_loop_norm re reqs ls : forall acc ivs,
  reqs_ok reqs -> normalized acc -> del_loop re reqs ls acc = Some ivs ->
  normalized ivs
  /\ forall t, covered ivs t = (covered acc t || covered (spec_intervals re reqs ls) t).
Proof.
  unfold spec_intervals, applying.
  induction reqs as [|[ms ivs0] reqs IH]; intros acc ivs Hok Hn H; simpl in H.
  - inversion H; subst. split; [exact Hn|]. intro t. simpl. rewrite orb_false_r. reflexivity.
  - inversion Hok as [|? ? Hv Hok']; subst. simpl in Hv. simpl.
    destruct (req_applies re ms ls) eqn:E; simpl.
    + destruct ivs0 as [|i0 ivs0]; [discriminate|].
      destruct (fold_add_norm (i0 :: ivs0) acc Hv Hn) as [N1 N2].
      destruct (IH _ _ Hok' N1 H) as [I1 I2]. split; [exact I1|].
      intro t. rewrite I2, N2, covered_app.
      destruct (covered (i0 :: ivs0) t), (covered acc t); simpl; reflexivity.
    + apply (IH _ _ Hok' Hn H).
Qed.

(* ---- the intervals selected for one chunk ---- *)
Lemma buf_as_filter mn mx ivs : forall acc,
  fold_left (fun a i => if overlaps mn mx i then add_iv i a else a) ivs acc
  = fold_left (fun a i => add_iv i a) (filter (overlaps mn mx) ivs) acc.
Proof.
  induction ivs as [|i ivs IH]; intro acc; simpl; [reflexivity|].
  destruct (overlaps mn mx i); simpl; apply IH.
Qed.

Lemma buf_norm mn mx ivs :
  normalized ivs ->
  normalized (buf_intervals mn mx ivs)
  /\ forall t, mn <= t <= mx -> covered (buf_intervals mn mx ivs) t = covered ivs t.
Proof.
  intros [lo Hn]. unfold buf_intervals. rewrite buf_as_filter.
  assert (Hv : Forall valid (filter (overlaps mn mx) ivs)).
  { apply Forall_forall. intros i Hi. apply filter_In in Hi as [Hi _].
    pose proof (norm_valid ivs lo Hn) as Hall. rewrite Forall_forall in Hall. apply Hall. exact Hi. }
  destruct (fold_add_norm _ [] Hv (ex_intro _ 0 I)) as [N1 N2]. split; [exact N1|].
  intros t Ht. rewrite N2. simpl. rewrite orb_false_r. apply bool_iff_eq. split; intro H.
  - apply covered_iff in H as [i [Hi Hb]]. apply filter_In in Hi as [Hi _].
    apply covered_iff. exists i. split; assumption.
  - apply covered_iff in H as [i [Hi Hb]]. apply covered_iff. exists i. split; [|exact Hb].
    apply filter_In. split; [exact Hi|]. unfold overlaps. apply andb_true_iff. split; apply Z.leb_le; lia.
Qed.

(* ---- DeletedIterator on sorted intervals and increasing timestamps ---- *)
Lemma di_sample_spec ivs : forall lo ts keep ivs',
  norm lo ivs -> di_sample ivs ts = (keep, ivs') ->
  keep = negb (covered ivs ts)
  /\ normalized ivs'
  /\ forall t', ts <= t' -> covered ivs' t' = covered ivs t'.
Proof.
  induction ivs as [|[a b] rest IH]; intros lo ts keep ivs' Hn H; simpl in H.
  - inversion H; subst. repeat split; auto. exists 0. exact I.
  - destruct Hn as [H1 [H2 H3]]. destruct (inb (a, b) ts) eqn:E.
    + inversion H; subst. rewrite covered_cons, E. repeat split; auto.
      exists lo. cbn [norm]. auto.
    + cbn [snd] in H. destruct (ts <=? b) eqn:E2.
      * inversion H; subst. apply Z.leb_le in E2. rewrite covered_cons, E. cbn [orb].
        destruct (covered rest ts) eqn:Ec.
        -- pose proof (norm_lb rest (b + 1) ts H3 Ec). lia.
        -- repeat split; auto. exists lo. cbn [norm]. auto.
      * apply Z.leb_gt in E2. destruct (IH _ _ _ _ H3 H) as [I1 [I2 I3]].
        rewrite covered_cons, E. cbn [orb]. repeat split; auto.
        intros t' Ht'. rewrite covered_cons, I3 by exact Ht'.
        assert (Hf : inb (a, b) t' = false).
        { destruct (inb (a, b) t') eqn:E3; [|reflexivity]. apply inb_iff in E3. simpl in E3. lia. }
        rewrite Hf. reflexivity.
Qed.

Lemma di_spec c : forall ivs,
  normalized ivs -> StronglySorted (fun a b : sample => fst a < fst b) c ->
  di ivs c = filter (fun s => negb (covered ivs (fst s))) c.
Proof.
  induction c as [|s r IH]; intros ivs [lo Hn] Hs; [reflexivity|].
  inversion Hs as [|? ? Hs' Hall]; subst. cbn [di filter].
  destruct (di_sample ivs (fst s)) as [keep ivs'] eqn:E.
  destruct (di_sample_spec ivs lo (fst s) keep ivs' Hn E) as [D1 [D2 D3]].
  assert (Hr : di ivs' r = filter (fun s0 => negb (covered ivs (fst s0))) r).
  { rewrite (IH ivs' D2 Hs'). apply filter_ext_in. intros s0 Hs0.
    rewrite Forall_forall in Hall. specialize (Hall s0 Hs0). rewrite D3 by lia. reflexivity. }
  rewrite Hr, D1. destruct (negb (covered ivs (fst s))); reflexivity.
Qed.

Lemma filter_nil_in {A} (f : A -> bool) l : (forall x, In x l -> f x = false) -> filter f l = [].
Proof.
  induction l as [|x l IH]; intro H; simpl; [reflexivity|].
  rewrite (H x (or_introl eq_refl)). apply IH. intros y Hy. apply H. right. exact Hy.
Qed.

Lemma filter_id_in {A} (f : A -> bool) l : (forall x, In x l -> f x = true) -> filter f l = l.
Proof.
  induction l as [|x l IH]; intro H; simpl; [reflexivity|].
  rewrite (H x (or_introl eq_refl)). f_equal. apply IH. intros y Hy. apply H. right. exact Hy.
Qed.

Definition not_covered (ivs : list interval) (sm : sample) : bool := negb (covered ivs (fst sm)).

Lemma chunk_step_spec ivs c :
  chunk_ok c -> normalized ivs ->
  match chunk_step ivs c with
  | Out o => snd o = filter (not_covered ivs) c /\ ochunk_wf o = true
  | _ => filter (not_covered ivs) c = []
  end.
Proof.
  intros Hok Hn. pose proof (chunk_bounds c Hok) as Hb. unfold chunk_step.
  destruct (is_subrange (cmin c) (cmax c) ivs) eqn:Es.
  - apply filter_nil_in. intros s Hs. unfold not_covered.
    rewrite (is_subrange_covers _ _ _ _ Es (Hb s Hs)). reflexivity.
  - destruct (buf_norm (cmin c) (cmax c) ivs Hn) as [B1 B2].
    destruct (buf_intervals (cmin c) (cmax c) ivs) as [|b0 buf] eqn:Eb.
    + split.
      * cbn [snd]. symmetry. apply filter_id_in. intros s Hs. unfold not_covered.
        rewrite <- (B2 (fst s) (Hb s Hs)). reflexivity.
      * destruct Hok as [Hne _]. destruct c as [|s0 c0]; [congruence|].
        unfold ochunk_wf. cbn [snd fst cmin]. rewrite !Z.eqb_refl. reflexivity.
    + destruct Hok as [Hne Hs].
      rewrite (di_spec c (b0 :: buf) B1 Hs).
      assert (Hf : filter (fun s => negb (covered (b0 :: buf) (fst s))) c = filter (not_covered ivs) c).
      { apply filter_ext_in. intros s Hin. unfold not_covered. rewrite (B2 (fst s) (Hb s Hin)). reflexivity. }
      rewrite Hf. destruct (filter (not_covered ivs) c) as [|s1 r1]; [reflexivity|].
      split; [reflexivity|]. unfold ochunk_wf. cbn [snd fst]. rewrite !Z.eqb_refl. reflexivity.
Qed.

Lemma series_chunks_spec ivs cs :
  Forall chunk_ok cs -> normalized ivs ->
  concat (map snd (series_chunks ivs cs)) = filter (not_covered ivs) (concat cs)
  /\ forallb ochunk_wf (series_chunks ivs cs) = true.
Proof.
  intros Hcs Hn. induction Hcs as [|c cs Hc Hcs IH]; [split; reflexivity|].
  destruct IH as [I1 I2]. cbn [series_chunks concat]. rewrite filter_app.
  pose proof (chunk_step_spec ivs c Hc Hn) as S.
  destruct (chunk_step ivs c) as [| |o].
  - rewrite S. split; [exact I1 | exact I2].
  - rewrite S. split; [exact I1 | exact I2].
  - destruct S as [S1 S2]. cbn [map concat forallb]. rewrite S1, I1, S2, I2. split; reflexivity.
Qed.

(* ---- the whole rewrite = the filter specification ---- *)
Lemma list_eqb_refl {A} (e : A -> A -> bool) : (forall x, e x x = true) -> forall l, list_eqb e l l = true.
Proof. intros H. induction l as [|x l IH]; simpl; [reflexivity|]. rewrite H, IH. reflexivity. Qed.

Lemma labels_eqb_refl ls : labels_eqb ls ls = true.
Proof. apply list_eqb_refl. intros [a b]. unfold label_eqb. simpl. rewrite !str_eqb_refl. reflexivity. Qed.

Lemma samples_eqb_refl l : list_eqb sample_eqb l l = true.
Proof. apply list_eqb_refl. intros [a b]. unfold sample_eqb. simpl. rewrite !Z.eqb_refl. reflexivity. Qed.

Lemma rewrite_cons re reqs s ss :
  rewrite re reqs (s :: ss)
  = match del_loop re reqs (fst s) [] with
    | None => []
    | Some ivs => [(fst s, series_chunks ivs (snd s))]
    end ++ rewrite re reqs ss.
Proof. reflexivity. Qed.

Lemma rewrite_exact re reqs ss :
  Forall series_ok ss -> reqs_ok reqs -> exact re reqs ss (rewrite re reqs ss) = true.
Proof.
  intros Hss Hr. induction Hss as [|s ss Hs Hss IH]; [reflexivity|].
  rewrite rewrite_cons. cbn [exact].
  destruct (whole_deleted re reqs (fst s)) eqn:W.
  - apply (del_loop_none re reqs (fst s) []) in W. rewrite W. exact IH.
  - destruct (del_loop re reqs (fst s) []) as [ivs|] eqn:E.
    + destruct (del_loop_norm re reqs (fst s) [] ivs Hr (ex_intro _ 0 I) E) as [N1 N2].
      destruct (series_chunks_spec ivs (snd s) Hs N1) as [S1 S2].
      cbn [app fst snd]. rewrite labels_eqb_refl, S1, S2, IH.
      assert (Hf : filter (not_covered ivs) (concat (snd s)) = spec_samples re reqs s).
      { unfold spec_samples. apply filter_ext. intro sm. unfold not_covered. rewrite N2. reflexivity. }
      rewrite Hf, samples_eqb_refl. reflexivity.
    + apply del_loop_none in E. congruence.
Qed.

(* readable corollary: removes every sample inside the intervals of an applying request *)
Lemma removes_inside re reqs ss s ocs :
  series_ok s -> reqs_ok reqs -> In s ss ->
  del_loop re reqs (fst s) [] <> None ->
  (exists ivs, del_loop re reqs (fst s) [] = Some ivs /\ ocs = series_chunks ivs (snd s)) ->
  concat (map snd ocs) = spec_samples re reqs s.
Proof.
  intros Hs Hr _ _ [ivs [E Ho]]. subst ocs.
  destruct (del_loop_norm re reqs (fst s) [] ivs Hr (ex_intro _ 0 I) E) as [N1 N2].
  destruct (series_chunks_spec ivs (snd s) Hs N1) as [S1 _]. rewrite S1.
  unfold spec_samples. apply filter_ext. intro sm. unfold not_covered. rewrite N2. reflexivity.
Qed.

(* ---- the block read back from disk: series without chunks are not written ---- *)
Lemma ochunk_wf_nonempty o : ochunk_wf o = true -> snd o <> [].
Proof. unfold ochunk_wf. destruct (snd o); [discriminate | discriminate]. Qed.

Lemma rewrite_exact_block re reqs ss :
  Forall series_ok ss -> reqs_ok reqs ->
  exact_block re reqs ss (filter has_chunks (rewrite re reqs ss)) = true.
Proof.
  intros Hss Hr. induction Hss as [|s ss Hs Hss IH]; [reflexivity|].
  rewrite rewrite_cons, filter_app. cbn [exact_block].
  destruct (whole_deleted re reqs (fst s)) eqn:W.
  - apply (del_loop_none re reqs (fst s) []) in W. rewrite W. exact IH.
  - destruct (del_loop re reqs (fst s) []) as [ivs|] eqn:E; [|apply del_loop_none in E; congruence].
    destruct (del_loop_norm re reqs (fst s) [] ivs Hr (ex_intro _ 0 I) E) as [N1 N2].
    destruct (series_chunks_spec ivs (snd s) Hs N1) as [S1 S2].
    assert (Hf : filter (not_covered ivs) (concat (snd s)) = spec_samples re reqs s).
    { unfold spec_samples. apply filter_ext. intro sm. unfold not_covered. rewrite N2. reflexivity. }
    rewrite Hf in S1. cbn [filter has_chunks snd].
    destruct (series_chunks ivs (snd s)) as [|o ocs] eqn:Eo.
    + simpl in S1. rewrite <- S1. cbn [filter has_chunks snd app]. exact IH.
    + cbn [filter has_chunks snd app]. cbn [forallb] in S2. apply andb_true_iff in S2 as [Wo Wr].
      destruct (spec_samples re reqs s) as [|sm0 sp] eqn:Esp.
      * exfalso. apply ochunk_wf_nonempty in Wo. simpl in S1.
        destruct (snd o); [congruence | discriminate].
      * cbn [fst snd]. rewrite labels_eqb_refl, S1, samples_eqb_refl. cbn [forallb]. rewrite Wo, Wr, IH. reflexivity.
Qed.
