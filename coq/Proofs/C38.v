(* C38 — proofs.  currentWindow is Gen.C38.currentWindow (regenerated from the Go source). *)
From Coq Require Import ZArith List Bool Lia Sorted.
Import ListNotations.
From Verif Require Import Lib.Corr Lib.Downsample_Core Lib.Downsample_Batch Lib.Downsample_Raw
  Lib.Downsample_Windows Lib.Downsample_Aggr Lib.Downsample_Iter Gen.C38 Model.C38.
Open Scope Z_scope.

Ltac Zify.zify_post_hook ::= Z.to_euclidean_division_equations.

(* ---- currentWindow ---- *)

Lemma cw_ge res : 0 < res -> forall t, 0 <= t -> t <= cw t res.
Proof. intros Hr t Ht. unfold cw, currentWindow. nia. Qed.

Lemma cw_same res : 0 < res ->
  forall t t', 0 <= t -> t <= t' -> t' <= cw t res -> cw t' res = cw t res.
Proof.
  intros Hr t t' Ht Hle Hw. unfold cw, currentWindow in *.
  rewrite !Z.rem_mod_nonneg in * by lia.
  assert (E : t' / res = t / res).
  { symmetry. apply (Z.div_unique t' res (t / res) (t' - res * (t / res))); lia. }
  rewrite (Z.mod_eq t'), (Z.mod_eq t), E by lia. lia.
Qed.

(* ---- list facts ---- *)

Lemma sorted_app_inv (l1 l2 : list Z) :
  StronglySorted Z.le (l1 ++ l2) ->
  StronglySorted Z.le l1 /\ StronglySorted Z.le l2 /\ (forall x y, In x l1 -> In y l2 -> x <= y).
Proof.
  induction l1 as [|a l1 IH]; intros H; cbn [app] in H.
  - split; [constructor|]. split; [exact H|]. intros x y [].
  - apply StronglySorted_inv in H as [H Ha]. destruct (IH H) as (S1 & S2 & C).
    apply Forall_app in Ha as [Ha1 Ha2]. split; [constructor; assumption|]. split; [exact S2|].
    intros x y [<-|Hx] Hy; [rewrite Forall_forall in Ha2; apply Ha2; exact Hy|apply C; assumption].
Qed.

Lemma wf_app (l1 l2 : list (Z * Z)) :
  wf_series_p (l1 ++ l2) ->
  wf_series_p l1 /\ wf_series_p l2 /\ (forall a b, In a l1 -> In b l2 -> fst a <= fst b).
Proof.
  intros [Hs Hn]. rewrite map_app in Hs. destruct (sorted_app_inv _ _ Hs) as (S1 & S2 & C).
  apply Forall_app in Hn as [N1 N2]. split; [split; assumption|]. split; [split; assumption|].
  intros a b Ha Hb. apply C; apply in_map; assumption.
Qed.

Lemma expand_xor_id : forall (l : list (Z * Z)) lastT,
  Forall (fun s => lastT <= fst s) l -> StronglySorted Z.le (map fst l) -> expand_xor lastT l = l.
Proof.
  induction l as [|[t v] r IH]; intros lastT Hl Hs; [reflexivity|].
  apply Forall_cons_iff in Hl as [Ht Hl]. cbn [fst] in Ht. cbn [map] in Hs.
  apply StronglySorted_inv in Hs as [Hs Hle]. cbn [expand_xor].
  replace (t >=? lastT) with true by (symmetry; apply Z.geb_le; lia).
  f_equal. apply IH; [|exact Hs]. rewrite Forall_map in Hle. exact Hle.
Qed.

Lemma series_cons f k ks : series f (k :: ks) = olist (f k) ++ series f ks.
Proof. reflexivity. Qed.

Lemma series_app f k1 k2 : series f (k1 ++ k2) = series f k1 ++ series f k2.
Proof. unfold series. rewrite map_app, concat_app. reflexivity. Qed.

Lemma expand_present f part :
  wf_series_p (series f part) -> concat (map (expand_xor 0) (present f part)) = series f part.
Proof.
  induction part as [|k r IH]; intros H; [reflexivity|].
  rewrite series_cons in H |- *. destruct (wf_app _ _ H) as (W1 & W2 & _).
  unfold present in *. cbn [flat_map]. rewrite map_app, concat_app, (IH W2).
  destruct (f k) as [l|]; cbn [olist map concat app] in *; [|reflexivity].
  rewrite app_nil_r. destruct W1 as [S1 N1]. rewrite expand_xor_id; [reflexivity|exact N1|exact S1].
Qed.

(* ---- one aggregate of one part ---- *)

Section Res.
Variable res : Z.
Hypothesis res_pos : 0 < res.

Definition Rel (g : fagg -> Z) (i o : list (Z * Z)) : Prop :=
  exists outs bw,
    o = proj g outs /\ Forall2 snap_ok outs bw /\ concat (map snd bw) = i /\
    Forall (gwin_ok cw res) bw /\ StronglySorted Z.lt (map fst bw) /\
    (bw <> [] -> fst (last bw (0, [])) = last_t i).

Lemma generic_rel f g part :
  wf_series_p (series f part) ->
  Rel g (series f part) (olist (snd (generic_aggregate cw f g res part))).
Proof.
  intros W. unfold generic_aggregate. rewrite (expand_present f part W).
  destruct (series f part) as [|s0 l] eqn:E.
  - exists [], []. cbn. repeat split; try constructor.
  - rewrite <- E in *. assert (Hg : good_batch (series f part)).
    { split; [rewrite E; discriminate|]. exact W. }
    destruct (batch_windows_facts cw res (cw_ge res res_pos) (cw_same res res_pos) _ Hg)
      as (Bcat & Bok & Bsort & _ & Bne & Blast & BF & _).
    destruct (downsample_batch cw res (series f part)) as [outs lt] eqn:Ed. cbn [fst snd olist] in *.
    rewrite E. rewrite <- E.
    exists outs, (batch_windows cw res (series f part)).
    split; [reflexivity|]. split; [exact BF|]. split; [exact Bcat|]. split; [exact Bok|].
    split; [exact Bsort|]. intros _. exact Blast.
Qed.

(* piecewise relation between an input aggregate series and the output series *)
Inductive pw (g : fagg -> Z) : list (Z * Z) -> list (Z * Z) -> Prop :=
| pw_nil : pw g [] []
| pw_cons i1 o1 i2 o2 : Rel g i1 o1 -> pw g i2 o2 -> pw g (i1 ++ i2) (o1 ++ o2).

Lemma firstn_skipn_series f j (chks : list achunk) :
  series f chks = series f (firstn j chks) ++ series f (skipn j chks).
Proof. rewrite <- series_app, firstn_skipn. reflexivity. Qed.

Lemma loop_pw (f : achunk -> option (list (Z * Z))) (g : fagg -> Z) bs :
  (forall part k, float_aggr_batch cw res part = Some k -> f k = snd (generic_aggregate cw f g res part)) ->
  forall fuel chks out,
    aggr_loop cw fuel res bs chks = Some out -> wf_series_p (series f chks) ->
    pw g (series f chks) (series f out).
Proof.
  intros Hf. induction fuel as [|fu IH]; intros chks out E W.
  - destruct chks; cbn in E; [injection E as <-; constructor|discriminate].
  - destruct chks as [|k0 r]; [cbn in E; injection E as <-; constructor|].
    cbn [aggr_loop] in E. set (j := Nat.min bs (length (k0 :: r))) in *.
    destruct (float_aggr_batch cw res (firstn j (k0 :: r))) as [k|] eqn:Ek; [|discriminate].
    destruct (aggr_loop cw fu res bs (skipn j (k0 :: r))) as [rest|] eqn:Er; [|discriminate].
    injection E as <-.
    rewrite (firstn_skipn_series f j (k0 :: r)) in W |- *.
    destruct (wf_app _ _ W) as (W1 & W2 & _).
    rewrite series_cons. constructor; [|apply IH; assumption].
    rewrite (Hf _ _ Ek). apply generic_rel. exact W1.
Qed.

(* ---- fields of a batch result ---- *)

Lemma batch_fields part k :
  float_aggr_batch cw res part = Some k ->
  k_count k = snd (generic_aggregate cw k_count a_sum res part) /\
  k_sum k = snd (generic_aggregate cw k_sum a_sum res part) /\
  k_min k = snd (generic_aggregate cw k_min (fun a => oz (a_min a)) res part) /\
  k_max k = snd (generic_aggregate cw k_max (fun a => oz (a_max a)) res part).
Proof.
  unfold float_aggr_batch.
  destruct (generic_aggregate cw k_count a_sum res part) as [[m1 x1] cnt].
  destruct (generic_aggregate cw k_sum a_sum res part) as [[m2 x2] sm].
  destruct (generic_aggregate cw k_min (fun a => oz (a_min a)) res part) as [[m3 x3] mn].
  destruct (generic_aggregate cw k_max (fun a => oz (a_max a)) res part) as [[m4 x4] mx].
  destruct (acr_run _ _ _) as [[emitted fin]|]; [|discriminate].
  destruct (expand_xor 0 emitted) as [|first rest].
  - intros E. injection E as <-. cbn. repeat split.
  - destruct (downsample_batch cw res (first :: rest)) as [out lastT].
    intros E. injection E as <-. cbn. repeat split.
Qed.

(* ---- totals ---- *)

Lemma proj_vals g outs : map snd (proj g outs) = map (fun o : Z * fagg => g (snd o)) outs.
Proof. unfold proj. rewrite map_map. reflexivity. Qed.

Lemma rel_totals i o :
  (Rel a_sum i o -> sumZ (map snd o) = sumZ (map snd i)) /\
  (Rel (fun a => oz (a_min a)) i o -> min_list (map snd o) = min_list (map snd i)) /\
  (Rel (fun a => oz (a_max a)) i o -> max_list (map snd o) = max_list (map snd i)).
Proof.
  assert (T : forall outs bw, Forall2 snap_ok outs bw -> Forall (gwin_ok cw res) bw -> concat (map snd bw) = i ->
     sumZ (map (fun o : Z * fagg => a_sum (snd o)) outs) = sumZ (map snd i) /\
     min_list (map (fun o : Z * fagg => oz (a_min (snd o))) outs) = min_list (map snd i) /\
     max_list (map (fun o : Z * fagg => oz (a_max (snd o))) outs) = max_list (map snd i)).
  { intros outs bw HF Hok Hcat.
    assert (Hne : Forall (fun g : Z * list (Z * Z) => snd g <> []) bw)
      by (eapply Forall_impl; [|exact Hok]; intros p (H & _); exact H).
    pose proof (snap_totals _ _ HF Hne) as S. cbv zeta in S. rewrite Hcat in S.
    destruct S as (_ & S1 & S2 & S3). repeat split; assumption. }
  repeat split; intros (outs & bw & -> & HF & Hcat & Hok & _); rewrite proj_vals;
    destruct (T outs bw HF Hok Hcat) as (T1 & T2 & T3); assumption.
Qed.

Lemma pw_totals i o :
  (pw a_sum i o -> sumZ (map snd o) = sumZ (map snd i)) /\
  (pw (fun a => oz (a_min a)) i o -> min_list (map snd o) = min_list (map snd i)) /\
  (pw (fun a => oz (a_max a)) i o -> max_list (map snd o) = max_list (map snd i)).
Proof.
  repeat split; induction 1 as [|i1 o1 i2 o2 R _ IH]; try reflexivity;
    rewrite !map_app; destruct (rel_totals i1 o1) as (T1 & T2 & T3).
  - rewrite !sumZ_app, IH, (T1 R). reflexivity.
  - rewrite !min_list_app, IH, (T2 R). reflexivity.
  - rewrite !max_list_app, IH, (T3 R). reflexivity.
Qed.

(* ---- timestamps ---- *)

Lemma rel_ts g i o : wf_series_p i -> Rel g i o ->
  StronglySorted Z.lt (map fst o) /\
  Forall (fun s => exists a b, In a i /\ In b i /\ fst a <= fst s <= fst b) o.
Proof.
  intros [Hs Hn] (outs & bw & -> & HF & Hcat & Hok & Hsort & Hlast).
  assert (EL : map fst (proj g outs) = map fst bw).
  { unfold proj. rewrite map_map. cbn [fst]. apply (Forall2_map_eq _ _ _ _ _ HF). intros x y [H _]. exact H. }
  split; [rewrite EL; exact Hsort|].
  assert (Hlab : Forall (fun w => exists a b, In a i /\ In b i /\ fst a <= w <= fst b) (map fst bw)).
  { rewrite Forall_map. rewrite Forall_forall. intros p Hp.
    assert (Hbne : bw <> []) by (intro E; rewrite E in Hp; contradiction).
    specialize (Hlast Hbne).
    rewrite Forall_forall in Hok. destruct (Hok p Hp) as (Hpne & _ & A).
    destruct (snd p) as [|s l] eqn:Es; [congruence|]. apply Forall_cons_iff in A as [(_ & Hsw & _) _].
    assert (Hin : In s i) by (rewrite <- Hcat; eapply in_concat_map_snd; [exact Hp|rewrite Es; left; reflexivity]).
    assert (Hine : i <> []) by (intro E; rewrite E in Hin; contradiction).
    exists s, (last i (0, 0)). split; [exact Hin|]. split; [apply last_in; exact Hine|].
    split; [exact Hsw|]. change (fst (last i (0, 0))) with (last_t i). rewrite <- Hlast.
    change (fst (last bw (0, []))) with (fst (last bw (0, @nil (Z * Z)))).
    rewrite <- (last_map fst bw (0, [])). cbn [fst].
    apply sorted_le_last_Z; [exact Hsort|apply in_map; exact Hp]. }
  rewrite <- EL in Hlab. rewrite Forall_map in Hlab. exact Hlab.
Qed.

Lemma sorted_lt_le l : StronglySorted Z.lt l -> StronglySorted Z.le l.
Proof.
  induction 1 as [|a l _ IH Ha]; constructor; [exact IH|].
  eapply Forall_impl; [|exact Ha]. intros x Hx; cbv beta in Hx. lia.
Qed.

Lemma pw_ts g i o : pw g i o -> wf_series_p i -> ts_spec i o.
Proof.
  induction 1 as [|i1 o1 i2 o2 R _ IH]; intros W; [split; constructor|].
  destruct (wf_app _ _ W) as (W1 & W2 & C). destruct (rel_ts g i1 o1 W1 R) as [S1 B1].
  destruct (IH W2) as [S2 B2]. split.
  - rewrite map_app. apply sorted_app; [apply sorted_lt_le; exact S1|exact S2|].
    intros x y Hx Hy. apply in_map_iff in Hx as (sx & <- & Hx). apply in_map_iff in Hy as (sy & <- & Hy).
    rewrite Forall_forall in B1, B2.
    destruct (B1 _ Hx) as (_ & b & _ & Hb & [_ ?]). destruct (B2 _ Hy) as (a & _ & Ha & _ & [? _]).
    specialize (C b a Hb Ha). lia.
  - apply Forall_app. split; (eapply Forall_impl; [|eassumption]); intros s (a & b & Ha & Hb & Hr);
      exists a, b; (split; [apply in_or_app; auto|split; [apply in_or_app; auto|exact Hr]]).
Qed.

(* ---- main results ---- *)

Lemma aggr_totals nc ins out :
  valid_ins res ins -> downsample_aggr_m res nc ins = Some out -> totals_spec ins out.
Proof.
  intros (_ & Wc & Ws & Wmn & Wmx) E. unfold downsample_aggr_m, downsample_aggr in E.
  assert (Fc := fun part k H => proj1 (batch_fields part k H)).
  assert (Fs := fun part k H => proj1 (proj2 (batch_fields part k H))).
  assert (Fmn := fun part k H => proj1 (proj2 (proj2 (batch_fields part k H)))).
  assert (Fmx := fun part k H => proj2 (proj2 (proj2 (batch_fields part k H)))).
  pose proof (loop_pw k_count a_sum _ Fc _ _ _ E Wc) as Pc.
  pose proof (loop_pw k_sum a_sum _ Fs _ _ _ E Ws) as Ps.
  pose proof (loop_pw k_min (fun a => oz (a_min a)) _ Fmn _ _ _ E Wmn) as Pmn.
  pose proof (loop_pw k_max (fun a => oz (a_max a)) _ Fmx _ _ _ E Wmx) as Pmx.
  unfold totals_spec.
  split; [apply (proj1 (pw_totals _ _)); exact Pc|].
  split; [apply (proj1 (pw_totals _ _)); exact Ps|].
  split; [apply (proj1 (proj2 (pw_totals _ _))); exact Pmn|].
  apply (proj2 (proj2 (pw_totals _ _))); exact Pmx.
Qed.

Lemma aggr_timestamps nc ins out :
  valid_ins res ins -> downsample_aggr_m res nc ins = Some out -> timestamps_spec ins out.
Proof.
  intros (_ & Wc & Ws & Wmn & Wmx) E. unfold downsample_aggr_m, downsample_aggr in E.
  assert (Fc := fun part k H => proj1 (batch_fields part k H)).
  assert (Fs := fun part k H => proj1 (proj2 (batch_fields part k H))).
  assert (Fmn := fun part k H => proj1 (proj2 (proj2 (batch_fields part k H)))).
  assert (Fmx := fun part k H => proj2 (proj2 (proj2 (batch_fields part k H)))).
  unfold timestamps_spec.
  split; [eapply pw_ts; [eapply (loop_pw k_count a_sum _ Fc); eassumption|assumption]|].
  split; [eapply pw_ts; [eapply (loop_pw k_sum a_sum _ Fs); eassumption|assumption]|].
  split; [eapply pw_ts; [eapply (loop_pw k_min _ _ Fmn); eassumption|assumption]|].
  eapply pw_ts; [eapply (loop_pw k_max _ _ Fmx); eassumption|assumption].
Qed.

End Res.

(* with a batch size of 0 (more target chunks than input chunks) the loop of
   downsampleAggrLoop never consumes a chunk: no amount of fuel suffices *)
Lemma zero_batch_spins res : forall fuel chks, chks <> [] -> aggr_loop cw fuel res 0 chks = None.
Proof.
  induction fuel as [|f IH]; intros chks Hne; destruct chks as [|k r]; try congruence; [reflexivity|].
  cbn [aggr_loop Nat.min firstn skipn]. rewrite (IH (k :: r) Hne).
  destruct (float_aggr_batch cw res []); reflexivity.
Qed.

(* ---- reflection of the boolean predicate ---- *)

Lemma sorted_le_of_bool l : sorted_le l = true -> StronglySorted Z.le l.
Proof.
  induction l as [|a l IH]; intros H; [constructor|].
  destruct l as [|b l']; [constructor; constructor|].
  change (sorted_le (a :: b :: l')) with ((a <=? b) && sorted_le (b :: l')) in H.
  apply andb_true_iff in H as [Hab H]. apply Z.leb_le in Hab. specialize (IH H).
  constructor; [exact IH|]. constructor; [exact Hab|].
  apply StronglySorted_inv in IH as [_ Hb]. eapply Forall_impl; [|exact Hb]. intros x Hx; cbv beta in Hx. lia.
Qed.

Lemma sorted_le_to_bool l : StronglySorted Z.le l -> sorted_le l = true.
Proof.
  induction 1 as [|a l _ IH Ha]; [reflexivity|]. destruct l as [|b l']; [reflexivity|].
  change (sorted_le (a :: b :: l')) with ((a <=? b) && sorted_le (b :: l')).
  apply Forall_cons_iff in Ha as [Hab _]. rewrite IH.
  replace (a <=? b) with true by (symmetry; apply Z.leb_le; exact Hab). reflexivity.
Qed.

Lemma wf_series_of_bool l : wf_series l = true -> wf_series_p l.
Proof.
  unfold wf_series. intros H. apply andb_true_iff in H as [Hn Hs]. split; [apply sorted_le_of_bool; exact Hs|].
  rewrite forallb_forall in Hn. rewrite Forall_forall. intros s Hin. specialize (Hn s Hin).
  apply andb_true_iff in Hn as [A _]. apply Z.leb_le. exact A.
Qed.

Lemma valid_input_valid res nc ins : valid_input res nc ins = true -> valid_ins res ins.
Proof.
  unfold valid_input. intros H.
  repeat (apply andb_true_iff in H as [H ?]).
  apply Z.ltb_lt in H. split; [exact H|]. repeat split; apply wf_series_of_bool; assumption.
Qed.

Lemma sorted_first_last (i : list (Z * Z)) x :
  StronglySorted Z.le (map fst i) -> In x i ->
  exists a b, first_t i = Some a /\ last_ot i = Some b /\ a <= fst x <= b.
Proof.
  intros Hs Hin. destruct i as [|s0 r]; [contradiction|].
  exists (fst s0), (fst (last (s0 :: r) (0, 0))). split; [reflexivity|]. split; [reflexivity|].
  pose proof (sorted_le_last (s0 :: r) Hs) as Hl. rewrite Forall_forall in Hl. specialize (Hl x Hin).
  unfold last_t in Hl. split; [|exact Hl].
  cbn [map] in Hs. apply StronglySorted_inv in Hs as [_ H0]. destruct Hin as [<-|Hin]; [lia|].
  rewrite Forall_map in H0. rewrite Forall_forall in H0. apply H0. exact Hin.
Qed.

Lemma ts_ok_of_spec i o : wf_series_p i -> ts_spec i o -> ts_ok i o = true.
Proof.
  intros [Hs _] [So Bo]. unfold ts_ok. rewrite (sorted_le_to_bool _ So). cbn [andb].
  unfold within. apply forallb_forall. intros s Hin. rewrite Forall_forall in Bo.
  destruct (Bo s Hin) as (a & b & Ha & Hb & Hr).
  destruct (sorted_first_last i a Hs Ha) as (fa & la & E1 & E2 & R1).
  destruct (sorted_first_last i b Hs Hb) as (fb & lb & E1' & E2' & R2).
  rewrite E1, E2. rewrite E1 in E1'. rewrite E2 in E2'. injection E1' as <-. injection E2' as <-.
  apply andb_true_iff. split; apply Z.leb_le; lia.
Qed.

Lemma pred_holds res nc ins out :
  downsample_aggr_m res nc ins = Some out -> pred_ok (CAggr res nc ins out) = true.
Proof.
  intros E. unfold pred_ok. destruct (valid_input res nc ins) eqn:V; [|reflexivity].
  pose proof (valid_input_valid _ _ _ V) as Hv. pose proof Hv as (Hr & Wc & Ws & Wmn & Wmx).
  destruct (aggr_totals res Hr nc ins out Hv E) as (T1 & T2 & T3 & T4).
  destruct (aggr_timestamps res Hr nc ins out Hv E) as (S1 & S2 & S3 & S4).
  rewrite T1, T2, T3, T4, !Z.eqb_refl.
  rewrite (ts_ok_of_spec _ _ Wc S1), (ts_ok_of_spec _ _ Ws S2), (ts_ok_of_spec _ _ Wmn S3), (ts_ok_of_spec _ _ Wmx S4).
  cbn [andb].
  destruct (min_list (map snd (series k_min ins))), (max_list (map snd (series k_max ins)));
    cbn [option_eqb]; rewrite ?Z.eqb_refl; reflexivity.
Qed.

(* ---- termination for batch size >= 1 ---- *)

Lemma float_aggr_batch_total res part : float_aggr_batch cw res part <> None.
Proof.
  unfold float_aggr_batch.
  destruct (generic_aggregate cw k_count a_sum res part) as [[m1 x1] cnt].
  destruct (generic_aggregate cw k_sum a_sum res part) as [[m2 x2] sm].
  destruct (generic_aggregate cw k_min (fun a => oz (a_min a)) res part) as [[m3 x3] mn].
  destruct (generic_aggregate cw k_max (fun a => oz (a_max a)) res part) as [[m4 x4] mx].
  pose proof (Lib.Downsample_Iter.acr_run_total _ (toks_of (present k_counter part)) acr0 (le_n _)) as T.
  destruct (acr_run _ _ acr0) as [[emitted fin]|]; [|congruence].
  destruct (expand_xor 0 emitted) as [|first rest]; [discriminate|].
  destruct (downsample_batch cw res (first :: rest)). discriminate.
Qed.

Lemma aggr_loop_total res bs : (1 <= bs)%nat -> forall fuel chks,
  (length chks <= fuel)%nat -> aggr_loop cw fuel res bs chks <> None.
Proof.
  intros Hb. induction fuel as [|f IH]; intros chks Hl.
  - destruct chks; [discriminate|cbn in Hl; lia].
  - destruct chks as [|k r]; [discriminate|]. cbn [aggr_loop].
    set (j := Nat.min bs (length (k :: r))).
    pose proof (float_aggr_batch_total res (firstn j (k :: r))) as T.
    destruct (float_aggr_batch cw res (firstn j (k :: r))) as [kk|]; [|congruence].
    assert (Hj : (1 <= j)%nat) by (unfold j; cbn [length]; lia).
    assert (Hs : (length (skipn j (k :: r)) <= f)%nat) by (rewrite skipn_length; cbn [length] in *; lia).
    specialize (IH _ Hs). destruct (aggr_loop cw f res bs (skipn j (k :: r))); [discriminate|congruence].
Qed.

Lemma aggr_terminates res nc ins : exists out, downsample_aggr_m res nc ins = Some out.
Proof.
  unfold downsample_aggr_m, downsample_aggr.
  pose proof (aggr_loop_total res _ (Nat.le_max_r (length ins / nc) 1) (length ins) ins (le_n _)) as T.
  destruct (aggr_loop cw (length ins) res (Nat.max (length ins / nc) 1) ins) as [out|]; [eexists; reflexivity|congruence].
Qed.

Lemma pred_total res nc ins :
  valid_input res nc ins = true ->
  exists out, downsample_aggr_m res nc ins = Some out /\ pred_ok (CAggr res nc ins out) = true.
Proof.
  intros V. destruct (aggr_terminates res nc ins) as [out E]. exists out. split; [exact E|apply pred_holds; exact E].
Qed.

(* ---- tie T for the batch sizes: the formulas written in the model are the ones in the
   Go source (regenerated into Gen on every run) ---- *)

Lemma raw_batch_size_model len nc :
  Z.to_nat (raw_batch_size (Z.of_nat len) (Z.of_nat nc)) = (len / nc + 1)%nat.
Proof.
  unfold raw_batch_size. cbv zeta beta. destruct nc as [|nc'].
  - change (Z.of_nat 0) with 0. destruct (Z.of_nat len); reflexivity.
  - rewrite Z.quot_div_nonneg by lia. rewrite <- Nat2Z.inj_div.
    rewrite Z2Nat.inj_add by lia. rewrite Nat2Z.id. reflexivity.
Qed.

Lemma aggr_batch_size_model len nc :
  Z.to_nat (aggr_batch_size (Z.of_nat len) (Z.of_nat nc)) = Nat.max (len / nc) 1.
Proof.
  unfold aggr_batch_size. cbv zeta beta. destruct nc as [|nc'].
  - change (Z.of_nat 0) with 0. destruct (Z.of_nat len); reflexivity.
  - rewrite Z.quot_div_nonneg by lia. rewrite <- Nat2Z.inj_div.
    change (Z.max (Z.of_nat (len / S nc')) 1) with (Z.max (Z.of_nat (len / S nc')) (Z.of_nat 1)).
    rewrite <- Nat2Z.inj_max. apply Nat2Z.id.
Qed.

(* ---- the clamp is a no-op on the property's domain ---- *)

(* the integer loop of targetChunkCount: `for x = 1; expSamples/x > 140; x++ {}` ends at the
   least x >= 1 with expSamples/x <= 140, which is expSamples/141 + 1 *)
Lemma target_loop_closed_form e : 0 <= e ->
  let x := e / 141 + 1 in
  Z.quot e x <= 140 /\ forall y, 1 <= y < x -> 140 < Z.quot e y.
Proof.
  intros He x. subst x. split.
  - rewrite Z.quot_div_nonneg by (pose proof (Z.div_pos e 141 He ltac:(lia)); lia).
    assert (H : e / (e / 141 + 1) < 141); [|lia].
    apply Z.div_lt_upper_bound; [pose proof (Z.div_pos e 141 He ltac:(lia)); lia|].
    pose proof (Z.mod_pos_bound e 141 ltac:(lia)). pose proof (Z.div_mod e 141 ltac:(lia)). nia.
  - intros y Hy. rewrite Z.quot_div_nonneg by lia.
    assert (H : 141 <= e / y); [|lia].
    apply Z.div_le_lower_bound; [lia|]. pose proof (Z.mul_div_le e 141 ltac:(lia)). nia.
Qed.

Lemma series_count_length : forall ins : list achunk,
  forallb (fun k => Nat.leb (length (olist (k_count k))) 720) ins = true ->
  (length (series k_count ins) <= 720 * length ins)%nat.
Proof.
  induction ins as [|k r IH]; intros H; [cbn; lia|].
  cbn [forallb] in H. apply andb_true_iff in H as [Hk H]. apply Nat.leb_le in Hk.
  rewrite series_cons, app_length. cbn [length]. specialize (IH H). lia.
Qed.

(* 5m chunks written by DownsampleRaw (<= 720 rows each) re-downsampled to 1h with a target
   chunk count bounded as the heuristic guarantees: never more target chunks than chunks, so
   max(len/numChunks, 1) = len/numChunks *)
Lemma clamp_noop nc (ins : list achunk) :
  ins <> [] -> (1 <= nc)%nat -> domain_ok nc ins = true ->
  (nc <= length ins)%nat /\ Nat.max (length ins / nc) 1 = (length ins / nc)%nat.
Proof.
  intros Hne Hnc H. unfold domain_ok in H. apply andb_true_iff in H as [Hrows Hn].
  apply Z.leb_le in Hn. pose proof (series_count_length ins Hrows) as Hc.
  assert (HL : (1 <= length ins)%nat) by (destruct ins; [congruence|cbn; lia]).
  assert (Hle : (nc <= length ins)%nat).
  { set (c := Z.of_nat (length (series k_count ins))) in *. set (L := Z.of_nat (length ins)).
    assert (Hc' : c <= 720 * L) by (unfold c, L; lia).
    assert (0 <= c) by (unfold c; lia). assert (1 <= L) by (unfold L; lia).
    assert (c / 12 <= 60 * L) by (apply Z.div_le_upper_bound; lia).
    assert ((c / 12 + 2) / 141 + 1 <= L).
    { assert ((c / 12 + 2) / 141 < L); [|lia]. apply Z.div_lt_upper_bound; lia. }
    unfold L in *. lia. }
  split; [exact Hle|]. apply Nat.max_l.
  apply Nat.div_le_lower_bound; lia.
Qed.
