(* C14 — mergeRanges and the request-merging loop of fetchMissingSubranges. *)
From Coq Require Import ZArith NArith List Bool Lia.
Import ListNotations.
From Verif Require Import Lib.Corr Gen.C14 Model.C14.
Open Scope Z_scope.

Section Merge.
Variable Sz ks ke : Z.
Hypothesis HS : 0 < Sz.

(* a range of whole subranges inside [ks*Sz, ke*Sz) *)
Definition wf_rng (m : rng) : Prop :=
  exists a b, fst m = a * Sz /\ snd m = b * Sz /\ ks <= a /\ a < b /\ b <= ke.

(* ascending, non-overlapping, well-formed ranges starting at or after lo *)
Fixpoint chain (lo : Z) (l : list rng) : Prop :=
  match l with
  | [] => True
  | m :: r => lo <= fst m /\ wf_rng m /\ chain (snd m) r
  end.

Definition covered (l : list rng) (x : Z) : Prop := Exists (fun m : rng => fst m <= x < snd m) l.

Lemma wf_lt m : wf_rng m -> fst m < snd m.
Proof. intros (a & b & -> & -> & H). nia. Qed.

Lemma chain_weaken l : forall lo hi, chain hi l -> lo <= hi -> chain lo l.
Proof. destruct l as [|m r]; simpl; intros lo hi H Hle; [exact I|]. destruct H as (H1 & H2 & H3). repeat split; try assumption. lia. Qed.

Lemma merge_aux_ok limit : forall rest last lo,
  wf_rng last -> lo <= fst last -> chain (snd last) rest ->
  chain lo (merge_aux last rest limit)
  /\ (forall x, covered (last :: rest) x -> covered (merge_aux last rest limit) x).
Proof.
  induction rest as [|r rest IH]; intros last lo Hw Hlo Hc.
  - simpl. split; [repeat split; assumption|]. intros x H. exact H.
  - simpl in Hc. destruct Hc as (H1 & H2 & H3). cbn [merge_aux].
    destruct (fst r - snd last <=? limit) eqn:E.
    + assert (Hw' : wf_rng (fst last, snd r)).
      { destruct Hw as (a & b & Ea & Eb & Ha). destruct H2 as (c & d & Ec & Ed & Hc).
        exists a, d. simpl. repeat split; try assumption; try lia. rewrite Eb, Ec in H1. nia. }
      destruct (IH (fst last, snd r) lo Hw' Hlo H3) as (I1 & I2). split; [exact I1|].
      intros x Hx. apply I2.
      pose proof (wf_lt _ Hw) as L1. pose proof (wf_lt _ H2) as L2.
      inversion Hx as [? ? Hh|? ? Ht]; subst.
      * apply Exists_cons_hd. simpl. lia.
      * inversion Ht as [? ? Hh|? ? Ht']; subst.
        -- apply Exists_cons_hd. simpl. lia.
        -- apply Exists_cons_tl. exact Ht'.
    + destruct (IH r (fst r) H2 (Z.le_refl _) H3) as (I1 & I2). split.
      * simpl. repeat split; try assumption. eapply chain_weaken; [exact I1|exact H1].
      * intros x Hx. inversion Hx as [? ? Hh|? ? Ht]; subst.
        -- apply Exists_cons_hd. exact Hh.
        -- apply Exists_cons_tl. apply I2. exact Ht.
Qed.

Lemma merge_ranges_ok limit l lo :
  chain lo l -> chain lo (merge_ranges l limit) /\ (forall x, covered l x -> covered (merge_ranges l limit) x).
Proof.
  destruct l as [|m r]; simpl; intro H; [split; [exact I|auto]|].
  destruct H as (H1 & H2 & H3). apply merge_aux_ok; assumption.
Qed.

Lemma merge_aux_all limit : forall rest last,
  wf_rng last -> chain (snd last) rest -> (ke - ks) * Sz <= limit ->
  length (merge_aux last rest limit) = 1%nat.
Proof.
  induction rest as [|r rest IH]; intros last Hw Hc Hl; [reflexivity|].
  simpl in Hc. destruct Hc as (H1 & H2 & H3). cbn [merge_aux].
  assert (E : fst r - snd last <=? limit = true).
  { apply Z.leb_le. destruct Hw as (a & b & Ea & Eb & Ha). destruct H2 as (c & d & Ec & Ed & Hc).
    rewrite Ec, Eb. nia. }
  rewrite E. apply IH; [|exact H3|exact Hl].
  destruct Hw as (a & b & Ea & Eb & Ha). destruct H2 as (c & d & Ec & Ed & Hc).
  exists a, d. simpl. repeat split; try assumption; try lia. rewrite Eb, Ec in H1. nia.
Qed.

Lemma merge_ranges_all limit l lo :
  chain lo l -> (ke - ks) * Sz <= limit -> (length (merge_ranges l limit) <= 1)%nat.
Proof.
  destruct l as [|m r]; simpl; intros H Hl; [lia|].
  destruct H as (H1 & H2 & H3). rewrite merge_aux_all; auto.
Qed.

(* the doubling loop terminates within [len + 1] iterations when started with
   limit = Sz, where len >= ke - ks; it preserves the chain and the coverage *)
Lemma merge_loop_ok M (len : Z) : ke - ks <= len ->
  forall fuel l limit lo,
  chain lo l ->
  Sz * (len + 2 - Z.of_nat fuel) <= limit -> Sz <= limit ->
  (fuel = 0%nat -> (length l <= 1)%nat) ->
  exists r, merge_loop fuel l limit M = Some r /\ chain lo r /\ (forall x, covered l x -> covered r x)
            /\ (0 < M -> Z.of_nat (length r) <= M).
Proof.
  intro Hlen. induction fuel as [|f IH]; intros l limit lo Hc Hlim Hpos H0.
  - specialize (H0 eq_refl). cbn [merge_loop].
    destruct ((M >? 0) && (Z.of_nat (length l) >? M)) eqn:E.
    + apply andb_true_iff in E. destruct E as [E1 E2]. apply Z.gtb_lt in E1. apply Z.gtb_lt in E2. lia.
    + exists l. repeat split; auto. intro HM. apply andb_false_iff in E. destruct E as [E|E].
      * rewrite Z.gtb_ltb in E. apply Z.ltb_ge in E. lia.
      * rewrite Z.gtb_ltb in E. apply Z.ltb_ge in E. lia.
  - cbn [merge_loop].
    destruct ((M >? 0) && (Z.of_nat (length l) >? M)) eqn:E.
    + destruct (merge_ranges_ok limit l lo Hc) as (C1 & C2).
      destruct (IH (merge_ranges l limit) (limit * 2) lo C1) as (r & R1 & R2 & R3 & R4).
      * rewrite Nat2Z.inj_succ in Hlim. nia.
      * lia.
      * intro Hf. subst f. apply (merge_ranges_all limit l lo Hc). simpl in Hlim. nia.
      * exists r. repeat split; auto.
    + exists l. repeat split; auto. intro HM. apply andb_false_iff in E. destruct E as [E|E].
      * rewrite Z.gtb_ltb in E. apply Z.ltb_ge in E. lia.
      * rewrite Z.gtb_ltb in E. apply Z.ltb_ge in E. lia.
Qed.

End Merge.

(* merging adjacent ranges, then doubling the limit until at most M requests remain *)
Lemma merge_pipeline_ok Sz ks ke M l lo : 0 < Sz -> chain Sz ks ke lo l ->
  exists r, merge_loop (S (Z.to_nat (ke - ks))) (merge_ranges l 0) Sz M = Some r
    /\ chain Sz ks ke lo r /\ (forall x, covered l x -> covered r x)
    /\ (0 < M -> Z.of_nat (length r) <= M).
Proof.
  intros HS Hc. destruct (merge_ranges_ok Sz ks ke HS 0 l lo Hc) as (R1 & R2).
  destruct (merge_loop_ok Sz ks ke HS M (Z.of_nat (Z.to_nat (ke - ks))) ltac:(lia)
              (S (Z.to_nat (ke - ks))) (merge_ranges l 0) Sz lo R1) as (r & G1 & G2 & G3 & G4).
  - rewrite Nat2Z.inj_succ. lia.
  - lia.
  - intro; discriminate.
  - exists r. repeat split; auto.
Qed.
