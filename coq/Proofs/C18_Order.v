(* C18 — ketama placement does not depend on the order of the endpoint list:
   the development lives in Lib/Hashring_Order.v (it is shared with C21). *)
From Verif Require Export Lib.Hashring_Order.
