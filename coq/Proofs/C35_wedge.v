(* C35 — no wedge: with the fixed overlap checker, a sync without fault and with
   external labels returns nil after any crash history, provided no two local
   blocks overlap in time (an overlap is the one legitimate reason to refuse a
   compacted block). *)
From Coq Require Import ZArith NArith List Bool Lia Arith.
Import ListNotations.
From Verif Require Import Lib.Corr Lib.Crash_Store Lib.Crash_Block Lib.Crash_BlockFacts Lib.Crash_BlockProgs.
From Verif Require Import Gen.C35 Model.C35 Proofs.C35.

Opaque upload_phases.

(* ---- time ranges ---- *)
Definition rng (i : linfo) : Z * Z := (l_mint i, l_maxt i).

Definition ranges_of (L : locals) (ds : list N) : list (Z * Z) :=
  flat_map (fun d => match linfo_of L d with Some i => [rng i] | None => [] end) ds.

Definition ranges_disjoint (L : locals) : Prop :=
  forall d d' i i', d <> d' -> linfo_of L d = Some i -> linfo_of L d' = Some i' ->
    ranges_meet (rng i) (rng i') = false.

Lemma ranges_meet_sym a c : ranges_meet a c = ranges_meet c a.
Proof. unfold ranges_meet. apply andb_comm. Qed.

Lemma linfo_of_In L d i : linfo_of L d = Some i -> In (d, i) L.
Proof.
  induction L as [|[k v] r IH]; simpl; [discriminate|].
  destruct (N.eqb d k) eqn:E; [|intros H; right; apply IH; exact H].
  intros H. inversion H; subst. apply N.eqb_eq in E. subst. left; reflexivity.
Qed.

Lemma ranges_disjoint_b_spec L : ranges_disjoint_b L = true -> ranges_disjoint L.
Proof.
  induction L as [|[k v] r IH]; intros Hb d d' i i' Hne H1 H2; simpl in *; [discriminate|].
  apply andb_true_iff in Hb as [Hh Hr]. rewrite forallb_forall in Hh.
  destruct (N.eqb d k) eqn:E1, (N.eqb d' k) eqn:E2.
  - apply N.eqb_eq in E1, E2. congruence.
  - inversion H1; subst. apply linfo_of_In in H2. specialize (Hh _ H2). simpl in Hh.
    apply negb_true_iff in Hh. exact Hh.
  - inversion H2; subst. apply linfo_of_In in H1. specialize (Hh _ H1). simpl in Hh.
    apply negb_true_iff in Hh. rewrite ranges_meet_sym. exact Hh.
  - eapply IH; eauto.
Qed.

Lemma ranges_of_app L a c : ranges_of L (a ++ c) = ranges_of L a ++ ranges_of L c.
Proof. apply flat_map_app. Qed.

Lemma in_ranges_of L ds x : In x (ranges_of L ds) -> exists d i, In d ds /\ linfo_of L d = Some i /\ x = rng i.
Proof.
  unfold ranges_of. intros H. apply in_flat_map in H as [d [Hd Hx]].
  destruct (linfo_of L d) as [i|] eqn:E; [|contradiction]. destruct Hx as [Hx|[]].
  exists d, i. auto.
Qed.

Lemma overlaps_false L ds : ranges_disjoint L -> NoDup ds -> overlaps (ranges_of L ds) = false.
Proof.
  intros Hd. induction ds as [|d r IH]; intros Hnd; [reflexivity|].
  inversion Hnd as [|? ? Hni Hnd']; subst.
  change (ranges_of L (d :: r)) with ((match linfo_of L d with Some i => [rng i] | None => [] end) ++ ranges_of L r).
  destruct (linfo_of L d) as [i|] eqn:E; simpl; [|apply IH; exact Hnd'].
  rewrite (IH Hnd'), orb_false_r.
  destruct (existsb (ranges_meet (rng i)) (ranges_of L r)) eqn:Ex; [|reflexivity].
  apply existsb_exists in Ex as [x [Hx Hm]]. apply in_ranges_of in Hx as [d' [i' [Hd' [E' Hx]]]]. subst x.
  rewrite (Hd d d' i i') in Hm; [discriminate| |exact E|exact E']. intros Heq. subst. contradiction.
Qed.

(* ---- directories of the bucket ---- *)
Lemma dedupN_In l : forall x, In x (dedupN l) <-> In x l.
Proof.
  unfold dedupN. induction l as [|y r IH]; intros x; simpl; [tauto|].
  destruct (memN y (fold_right _ [] r)) eqn:E.
  - rewrite IH. apply memN_In in E. apply IH in E. split; [auto|]. intros [H|H]; [subst; exact E|exact H].
  - simpl. rewrite IH. tauto.
Qed.

Lemma dedupN_NoDup l : NoDup (dedupN l).
Proof.
  unfold dedupN. induction l as [|y r IH]; simpl; [constructor|].
  destruct (memN y (fold_right _ [] r)) eqn:E; [exact IH|].
  constructor; [|exact IH]. intros H. apply memN_In in H. congruence.
Qed.

Definition dirs_known (L : locals) (b : bucket) : Prop :=
  forall d f, bget b (d, f) <> None -> linfo_of L d <> None.

Lemma block_dirs_known L b d : dirs_known L b -> In d (block_dirs b) -> linfo_of L d <> None.
Proof.
  intros Hk Hin. unfold block_dirs in Hin. apply (proj1 (dedupN_In _ _)) in Hin.
  apply in_map_iff in Hin as [[[d' f] o] [E Hin]]. simpl in E. subst d'.
  apply (Hk d f). apply (in_map fst) in Hin. simpl in Hin.
  apply (keys_get key obj key_eqb key_ltb key_eqb_spec) in Hin as [v Hv]. unfold bget. congruence.
Qed.

Lemma get_apply_ops_cases (b : bucket) l k :
  bget (bapply_ops b l) k <> None -> bget b k <> None \/ exists o, In o l /\ op_key key obj o = k.
Proof.
  intros H. destruct (existsb (fun o => key_eqb k (op_key key obj o)) l) eqn:E.
  - right. apply existsb_exists in E as [o [Ho Hk]]. apply key_eqb_spec in Hk. exists o. auto.
  - left. unfold bget, bapply_ops in *. rewrite (get_apply_ops_other key obj key_eqb key_ltb key_eqb_spec) in H; [exact H|].
    intros o Ho Heq. assert (existsb (fun o => key_eqb k (op_key key obj o)) l = true); [|congruence].
    apply existsb_exists. exists o. split; [exact Ho|]. apply key_eqb_spec. exact Heq.
Qed.

Lemma dirs_known_apply L b l :
  dirs_known L b -> (forall o, In o l -> linfo_of L (fst (op_key key obj o)) <> None) ->
  dirs_known L (bapply_ops b l).
Proof.
  intros Hk Hl d f Hg. apply get_apply_ops_cases in Hg as [Hg|[o [Ho Hkey]]].
  - eapply Hk; eauto.
  - specialize (Hl o Ho). rewrite Hkey in Hl. exact Hl.
Qed.

(* ---- the overlap checker without fault ---- *)
Definition metas_parse (b : bucket) : Prop :=
  forall d o, bget b (d, FMeta) = Some o -> exists c f l, o = MetaO c f l.

Lemma binv_metas_parse U b : binv U b -> metas_parse b.
Proof.
  intros [_ Hco] d o H. destruct (Hco _ _ H) as [bl [cid [lbl [_ [Ho _]]]]]. subst. eauto.
Qed.

Lemma checker_gets_nofault L lbl b : forall dirs n acc,
  (forall d, In d dirs -> linfo_of L d <> None) -> metas_parse b ->
  exists n' ds, checker_gets NoFault L (Some lbl) b n dirs acc = CkOk n' (acc ++ ranges_of L ds)
    /\ (forall d, In d ds -> In d dirs /\ bhas b (d, FMeta) = true)
    /\ (NoDup dirs -> NoDup ds).
Proof.
  induction dirs as [|d r IH]; intros n acc Hk Hp; simpl.
  - exists n, []. simpl. rewrite app_nil_r. split; [reflexivity|]. split; [intros x []|intros _; constructor].
  - assert (Hkr : forall d', In d' r -> linfo_of L d' <> None) by (intros d' Hd'; apply Hk; right; exact Hd').
    destruct (linfo_of L d) as [i|] eqn:Hi; [|exfalso; apply (Hk d); [left; reflexivity|exact Hi]].
    destruct (bget b (d, FMeta)) as [o|] eqn:Hg.
    + destruct (Hp d o Hg) as [c [f [l Ho]]]. subst o.
      destruct (N.eqb l lbl) eqn:El.
      * destruct (IH (S n) (acc ++ [rng i]) Hkr Hp) as [n' [ds [E [H1 H2]]]].
        exists n', (d :: ds). split; [|split].
        -- unfold rng in *. rewrite E. f_equal. rewrite <- app_assoc. f_equal.
           change (ranges_of L (d :: ds)) with ((match linfo_of L d with Some i => [rng i] | None => [] end) ++ ranges_of L ds).
           rewrite Hi. reflexivity.
        -- intros d' [Hd'|Hd']; [subst; split; [left; reflexivity|apply bhas_true; rewrite Hg; discriminate]|].
           destruct (H1 d' Hd') as [A B]. split; [right; exact A|exact B].
        -- intros Hnd. inversion Hnd as [|? ? Hni Hnd']; subst. constructor; [|apply H2; exact Hnd'].
           intros Hin. apply Hni. apply H1. exact Hin.
      * destruct (IH (S n) acc Hkr Hp) as [n' [ds [E [H1 H2]]]].
        exists n', ds. split; [exact E|]. split.
        -- intros d' Hd'. destruct (H1 d' Hd') as [A B]. split; [right; exact A|exact B].
        -- intros Hnd. inversion Hnd; subst. apply H2. assumption.
    + destruct (IH (S n) acc Hkr Hp) as [n' [ds [E [H1 H2]]]].
      exists n', ds. split; [exact E|]. split.
      * intros d' Hd'. destruct (H1 d' Hd') as [A B]. split; [right; exact A|exact B].
      * intros Hnd. inversion Hnd; subst. apply H2. assumption.
Qed.

(* what the cached listing of the checker is *)
Definition ck_inv (L : locals) (b : bucket) (ck : option (list (Z * Z))) : Prop :=
  forall m, ck = Some m -> exists ds, NoDup ds /\ (forall d, In d ds -> bhas b (d, FMeta) = true) /\ m = ranges_of L ds.

Lemma ck_inv_mono L b l ck : forallb (is_up key obj) l = true -> ck_inv L b ck -> ck_inv L (bapply_ops b l) ck.
Proof.
  intros Hl H m Hm. destruct (H m Hm) as [ds [H1 [H2 H3]]]. exists ds. split; [exact H1|]. split; [|exact H3].
  intros d Hd. apply bhas_mono; [exact Hl|apply H2; exact Hd].
Qed.

Lemma gate_nofault L c b n ck id i lbl :
  c_fault c = NoFault -> c_lbl c = Some lbl -> ranges_disjoint L ->
  dirs_known L b -> metas_parse b -> ck_inv L b ck ->
  linfo_of L id = Some i -> bhas b (id, FMeta) = false ->
  exists n' ck', overlap_gate L c b n ck i = GGo n' ck' /\ ck_inv L b ck'.
Proof.
  intros Hf Hl Hd Hk Hp Hck Hi Hno. unfold overlap_gate.
  destruct (N.leb (l_level i) 1 || c_ooo c); [exists n, ck; split; [reflexivity|exact Hck]|].
  assert (Hres : exists n' ds, (match ck with
                     | Some m => CkOk n m
                     | None => match tick (c_fault c) n with
                               | OpOk => checker_gets (c_fault c) L (c_lbl c) b (S n) (block_dirs b) []
                               | _ => CkStop end end) = CkOk n' (ranges_of L ds)
                   /\ NoDup ds /\ (forall d, In d ds -> bhas b (d, FMeta) = true)).
  { destruct ck as [m|].
    - destruct (Hck m eq_refl) as [ds [H1 [H2 H3]]]. exists n, ds. subst m. auto.
    - rewrite Hf, Hl. simpl.
      destruct (checker_gets_nofault L lbl b (block_dirs b) (S n) []
                  (fun d Hd => block_dirs_known L b d Hk Hd) Hp) as [n' [ds [E [H1 H2]]]].
      exists n', ds. simpl in E. split; [exact E|]. split; [apply H2; apply dedupN_NoDup|].
      intros d Hd'. apply H1. exact Hd'. }
  destruct Hres as [n' [ds [E [Hnd Hall]]]]. rewrite E.
  assert (Hov : overlaps ((l_mint i, l_maxt i) :: ranges_of L ds) = false).
  { assert (Hnot : ~ In id ds) by (intros Hin; rewrite (Hall id Hin) in Hno; discriminate).
    pose proof (overlaps_false L (id :: ds) Hd (NoDup_cons id Hnot Hnd)) as H.
    change (ranges_of L (id :: ds)) with ((match linfo_of L id with Some i => [rng i] | None => [] end) ++ ranges_of L ds) in H.
    rewrite Hi in H. exact H. }
  rewrite Hov. exists n', (Some (ranges_of L ds)). split; [reflexivity|].
  intros m Hm. inversion Hm; subst. exists ds. auto.
Qed.

Lemma tick_nofault n : tick NoFault n = OpOk.
Proof. reflexivity. Qed.

Lemma run_ups_nofault : forall l n b d, run_ups NoFault n b d l = (bapply_ops b l, (n + length l)%nat, d ++ l, UDone).
Proof.
  induction l as [|o r IH]; intros n b d; simpl.
  - rewrite Nat.add_0_r, app_nil_r. reflexivity.
  - rewrite IH. rewrite <- app_assoc. simpl. f_equal. f_equal. f_equal. lia.
Qed.

(* ---- the loop of Sync without fault ---- *)
Lemma sync_loop_nofault U L c has lbl :
  wf_univ U -> c_fault c = NoFault -> c_lbl c = Some lbl -> ranges_disjoint L ->
  forall blocks b n ops up cids ck ords res,
  binv U b -> dirs_known L b -> ck_inv L b ck ->
  sync_loop std_upload U L c has blocks b n ops up 0 cids ck ords = Some res -> r_ret res = true.
Proof.
  intros Hwf Hf Hl Hd. induction blocks as [|id r IH]; intros b n ops up cids ck ords res Hb Hk Hck H; simpl in H.
  - rewrite Hf in H. simpl in H. inversion H; subst. reflexivity.
  - destruct (linfo_of L id) as [i|] eqn:Hli; [|discriminate].
    destruct (ublock U id) as [bl|] eqn:Hu; [|discriminate].
    destruct (memN id has); [eapply IH; eauto|].
    destruct (negb (l_nonempty i)); [eapply IH; eauto|].
    destruct (negb (N.leb (l_level i) 1) && negb (c_uc c)); [eapply IH; eauto|].
    rewrite Hf in H. rewrite tick_nofault in H.
    destruct (bhas b (id, FMeta)) eqn:Hhas; [eapply IH; eauto|].
    destruct (gate_nofault L c b (S n) ck id i lbl Hf Hl Hd Hk (binv_metas_parse U b Hb) Hck Hli Hhas)
      as [n1 [ck' [Hg Hck']]].
    rewrite Hg in H. rewrite Hl in H. rewrite andb_false_r in H.
    destruct (upload_ops std_upload U id _ (hd 0%N cids) lbl) as [l|] eqn:Hup; [|discriminate].
    rewrite run_ups_nofault in H.
    pose proof (upload_ops_shape U id _ _ lbl l Hup) as [Hups _].
    eapply IH; [| | |exact H].
    + apply (binv_states U b l Hwf Hb (upload_guarded U b id _ _ lbl l Hwf Hup)). apply states_last.
    + apply dirs_known_apply; [exact Hk|]. intros o Ho.
      rewrite (upload_ops_keys U id _ _ lbl l o Hup Ho), Hli. discriminate.
    + apply ck_inv_mono; assumption.
Qed.

Lemma sync_nofault U L c mf b res lbl :
  wf_univ U -> c_fault c = NoFault -> c_lbl c = Some lbl -> c_corrupt c = [] -> ranges_disjoint L ->
  binv U b -> dirs_known L b -> sync U L c mf b = Some res -> r_ret res = true.
Proof.
  intros Hwf Hf Hl Hcc Hd Hb Hk H. unfold sync in H. rewrite upload_phases_std in H. rewrite Hcc in H. simpl in H.
  eapply (sync_loop_nofault U L c _ lbl Hwf Hf Hl Hd); [exact Hb|exact Hk| |exact H].
  intros m Hm. discriminate.
Qed.

(* ---- histories ---- *)
Definition good2 (U : univ) (L : locals) (st : state) : Prop := good U st /\ dirs_known L (fst st).

Lemma good2_empty U L : good2 U L ([], None).
Proof. split; [apply good_empty|]. intros d f H. exfalso. apply H. reflexivity. Qed.

Lemma sync_keeps_good2 U L c st res :
  wf_univ U -> good2 U L st -> sync U L c (snd st) (fst st) = Some res -> good2 U L (sync_state st res).
Proof.
  intros Hwf [Hg Hk] Hs. split.
  - eapply sync_keeps_good; eauto.
  - destruct Hg as [Hb _].
    destruct (sync_sound U L c (snd st) (fst st) res Hwf Hb Hs) as [_ [_ [_ [_ [_ [Hkeys _]]]]]].
    simpl. apply dirs_known_apply; assumption.
Qed.

Lemma after_syncs_good2 U L : forall cs st st',
  wf_univ U -> good2 U L st -> after_syncs U L st cs = Some st' -> good2 U L st'.
Proof.
  induction cs as [|c r IH]; intros st st' Hwf Hg H; simpl in H.
  - inversion H; subst. exact Hg.
  - destruct (sync U L c (snd st) (fst st)) as [res|] eqn:Hs; [|discriminate].
    eapply IH; [exact Hwf| |exact H]. eapply sync_keeps_good2; eauto.
Qed.

(* after ANY crash history, an undisturbed sync with external labels returns nil (and so,
   by C35_crash_then_sync, has published every eligible block) *)
Lemma sync_can_succeed_after_crash U L cs c st res lbl :
  wf_univ_b U = true -> ranges_disjoint_b L = true ->
  after_syncs U L ([], None) cs = Some st ->
  c_fault c = NoFault -> c_lbl c = Some lbl -> c_corrupt c = [] ->
  sync U L c (snd st) (fst st) = Some res -> r_ret res = true.
Proof.
  intros Hwf Hd Ha Hf Hl Hcc Hs. apply wf_univ_b_spec in Hwf. apply ranges_disjoint_b_spec in Hd.
  destruct (after_syncs_good2 U L cs _ _ Hwf (good2_empty U L) Ha) as [[Hb _] Hk].
  eapply sync_nofault; eauto.
Qed.

(* ---- on the case ---- *)
Lemma wedge_steps_ok U L : forall steps st,
  wf_univ U -> ranges_disjoint L -> good2 U L st ->
  corr_steps U L st steps = true -> wedge_steps L (fst st) steps = true.
Proof.
  induction steps as [|s r IH]; intros st Hwf Hd Hg Hc; simpl in *; [reflexivity|].
  destruct (corr_step U L st s) as [st'|] eqn:Hs; [|discriminate].
  destruct s as [[[[c ret] ops] snaps] mf]. unfold corr_step in Hs.
  destruct (sync U L c (snd st) (fst st)) as [res|] eqn:Hsy; [|discriminate].
  destruct (list_eqb bop_eqb ops (r_ops res) && list_eqb bucket_eqb snaps (tl (bstates (fst st) (r_ops res)))
            && Bool.eqb ret (r_ret res)
            && option_eqb nlist_eqb mf (match r_meta res with Some l => Some l | None => snd st end)) eqn:Hchk; [|discriminate].
  inversion Hs; subst st'. clear Hs.
  apply andb_true_iff in Hchk as [Hchk Hmf]. apply andb_true_iff in Hchk as [Hchk Hret].
  apply andb_true_iff in Hchk as [Hops Hsn].
  apply buckets_eqb_spec in Hsn. apply Bool.eqb_prop in Hret.
  assert (Hpost : last snaps (fst st) = bapply_ops (fst st) (r_ops res)).
  { rewrite Hsn. apply last_states. }
  rewrite Hpost. apply andb_true_iff. split.
  - unfold wedge_ok. destruct (c_fault c) eqn:Hf; simpl; try reflexivity.
    destruct ret; simpl; [reflexivity|].
    destruct (c_corrupt c) as [|x xs] eqn:Hcc; [|reflexivity]. simpl.
    destruct (c_lbl c) as [lbl|] eqn:Hl; [|reflexivity].
    destruct Hg as [[Hb _] Hk].
    rewrite (sync_nofault U L c (snd st) (fst st) res lbl Hwf Hf Hl Hcc Hd Hb Hk Hsy) in Hret. discriminate.
  - apply (IH (bapply_ops (fst st) (r_ops res), match r_meta res with Some l => Some l | None => snd st end)); try assumption.
    apply (sync_keeps_good2 U L c st res Hwf Hg Hsy).
Qed.

Lemma not_wedged_case c :
  corr_ok c = true -> match c with CSync _ L _ => ranges_disjoint_b L = true end -> wedge_all c = true.
Proof.
  destruct c as [U L steps]. simpl. intros H Hd. apply andb_true_iff in H as [Hwf Hc].
  apply (wedge_steps_ok U L steps ([], None) (wf_univ_b_spec U Hwf) (ranges_disjoint_b_spec L Hd) (good2_empty U L) Hc).
Qed.
