(* C35 — proofs about Model/C35.v. *)
From Coq Require Import ZArith NArith List Bool Lia Arith String.
Import ListNotations.
From Verif Require Import Lib.Corr Lib.Crash_Store Lib.Crash_Block Lib.Crash_BlockFacts Lib.Crash_BlockProgs.
From Verif Require Import Gen.C35 Model.C35.

Lemma upload_phases_std : upload_phases = Some std_upload.
Proof. vm_compute. reflexivity. Qed.

Opaque upload_phases.

Notation bguarded U := (guarded key obj key_eqb key_ltb (op_guard U)).

(* ---- one block.Upload under a fault ---- *)
Lemma run_ups_spec f : forall l n b d b' n' d' u,
  run_ups f n b d l = (b', n', d', u) ->
  exists k, d' = d ++ firstn k l /\ b' = bapply_ops b (firstn k l) /\ (u = UDone -> firstn k l = l).
Proof.
  induction l as [|o r IH]; intros n b d b' n' d' u H; simpl in H.
  - inversion H; subst. exists 0%nat. rewrite app_nil_r. auto.
  - destruct (tick f n).
    + apply IH in H as [k [H1 [H2 H3]]]. exists (S k). simpl. split; [|split].
      * rewrite H1, <- app_assoc. reflexivity.
      * exact H2.
      * intros Hu. rewrite (H3 Hu). reflexivity.
    + inversion H; subst. exists 0%nat. rewrite app_nil_r. repeat split; auto. discriminate.
    + inversion H; subst. exists 0%nat. rewrite app_nil_r. repeat split; auto. discriminate.
Qed.

Lemma is_up_firstn (l : list bop) k : forallb (is_up key obj) l = true -> forallb (is_up key obj) (firstn k l) = true.
Proof.
  rewrite !forallb_forall. intros H o Ho. apply H. eapply firstn_In_local; exact Ho.
Qed.

Lemma forallb_firstn {A} (p : A -> bool) (l : list A) k : forallb p l = true -> forallb p (firstn k l) = true.
Proof.
  rewrite !forallb_forall. intros H o Ho. apply H. eapply firstn_In_local; exact Ho.
Qed.

(* the operations of an upload: all uploads; the meta.json carries the given labels *)
Lemma upload_ops_shape U id order cid lbl l :
  upload_ops std_upload U id order cid lbl = Some l ->
  forallb (is_up key obj) l = true /\ forallb (meta_lbl_ok (Some lbl)) l = true.
Proof.
  intros H. unfold upload_ops in H. destruct (ublock U id) as [bl|] eqn:Hu.
  2:{ inversion H; subst. split; reflexivity. }
  destruct (perm_b order (map fst (b_chunks bl))) eqn:Hp; [|discriminate].
  pose proof (upload_ops_std U id order cid lbl bl Hu Hp) as Hs. unfold upload_ops in Hs.
  rewrite Hu, Hp in Hs. rewrite Hs in H. inversion H; subst l. clear H Hs.
  rewrite !forallb_app. simpl. rewrite N.eqb_refl. simpl. rewrite !andb_true_r. split.
  - apply forallb_forall. intros o Ho. apply in_map_iff in Ho as [k [Ho _]]. subst. reflexivity.
  - apply forallb_forall. intros o Ho. apply in_map_iff in Ho as [[i f] [Ho Hk]]. subst o.
    unfold data_keys in Hk. apply in_app_or in Hk as [Hk|[Hk|[]]].
    + apply in_map_iff in Hk as [n [Hk _]]. inversion Hk; subst. reflexivity.
    + inversion Hk; subst. reflexivity.
Qed.

Lemma upload_ops_keys U id order cid lbl l o :
  upload_ops std_upload U id order cid lbl = Some l -> In o l -> fst (op_key key obj o) = id.
Proof.
  intros H Ho. unfold upload_ops in H. destruct (ublock U id) as [bl|] eqn:Hu.
  2:{ inversion H; subst. contradiction. }
  destruct (perm_b order (map fst (b_chunks bl))) eqn:Hp; [|discriminate].
  pose proof (upload_ops_std U id order cid lbl bl Hu Hp) as Hs. unfold upload_ops in Hs.
  rewrite Hu, Hp in Hs. rewrite Hs in H. inversion H; subst l. clear H Hs.
  apply in_app_or in Ho as [Ho|[Ho|[]]]; [|subst; reflexivity].
  apply in_map_iff in Ho as [[i f] [Ho Hk]]. subst o. simpl.
  unfold data_keys in Hk. apply in_app_or in Hk as [Hk|[Hk|[]]].
  - apply in_map_iff in Hk as [n [Hk _]]. inversion Hk; reflexivity.
  - inversion Hk; reflexivity.
Qed.

Lemma bhas_mono (b : bucket) l k :
  forallb (is_up key obj) l = true -> bhas b k = true -> bhas (bapply_ops b l) k = true.
Proof.
  intros Hl Hk. apply bhas_true. apply (has_after_ups key obj key_eqb key_ltb key_eqb_spec); [exact Hl|].
  apply bhas_true. exact Hk.
Qed.

(* ---- the loop of Sync ---- *)
Definition loop_post (U : univ) (L : locals) (c : cfg) (has blocks : list N) (b : bucket)
           (ops : list bop) (up : list N) (res : sres) : Prop :=
  exists ops',
    r_ops res = ops ++ ops' /\ r_bucket res = bapply_ops b ops'
    /\ bguarded U b ops'
    /\ forallb (is_up key obj) ops' = true
    /\ forallb (meta_lbl_ok (c_lbl c)) ops' = true
    /\ (r_ret res = true -> forall id i, In id blocks -> linfo_of L id = Some i -> eligible c i = true ->
          memN id has = true \/ bhas (r_bucket res) (id, FMeta) = true)
    /\ (forall l, r_meta res = Some l -> exists new, l = up ++ new /\
          forall id, In id new -> memN id has = true \/ bhas (r_bucket res) (id, FMeta) = true)
    /\ (forall o, In o ops' -> linfo_of L (fst (op_key key obj o)) <> None).

Lemma loop_post_stop U L c has blocks b ops up :
  loop_post U L c has blocks b ops up (mksres b ops None false).
Proof.
  exists []. simpl. rewrite app_nil_r. repeat split; try reflexivity; try exact I; try discriminate.
  intros o [].
Qed.

Lemma sync_loop_ret_errs U L c has : forall blocks b n ops up errs cids ck ords res,
  sync_loop std_upload U L c has blocks b n ops up errs cids ck ords = Some res -> r_ret res = true -> errs = 0%nat.
Proof.
  induction blocks as [|id r IH]; intros b n ops up errs cids ck ords res H Hr; simpl in H.
  - destruct (tick (c_fault c) n); inversion H; subst; simpl in Hr; try discriminate;
      apply Nat.eqb_eq in Hr; exact Hr.
  - destruct (linfo_of L id) as [i|]; [|discriminate]. destruct (ublock U id) as [bl|]; [|discriminate].
    destruct (memN id has); [eapply IH; eauto|].
    destruct (negb (l_nonempty i)); [eapply IH; eauto|].
    destruct (negb (N.leb (l_level i) 1) && negb (c_uc c)); [eapply IH; eauto|].
    destruct (tick (c_fault c) n); try (inversion H; subst; simpl in Hr; discriminate).
    destruct (bhas b (id, FMeta)); [eapply IH; eauto|].
    destruct (overlap_gate L c b (S n) ck i) as [|n1 ck']; [inversion H; subst; simpl in Hr; discriminate|].
    destruct (c_lbl c) as [lbl|].
    + destruct (c_conc c && match c_fault c with FailAt _ => true | _ => false end); [discriminate|].
      destruct (upload_ops std_upload U id _ (hd 0%N cids) lbl) as [l|]; [|discriminate].
      destruct (run_ups (c_fault c) n1 b [] l) as [[[b' n'] done] u]. destruct u.
      * eapply IH; eauto.
      * destruct (c_ooo c); [|inversion H; subst; simpl in Hr; discriminate].
        apply IH in H; [discriminate|exact Hr].
      * inversion H; subst; simpl in Hr; discriminate.
    + destruct (c_ooo c); [|inversion H; subst; simpl in Hr; discriminate].
      apply IH in H; [discriminate|exact Hr].
Qed.

(* extending the post-condition over one more block that needed no bucket mutation *)
Lemma loop_post_cons_same U L c has id r b ops up up' res :
  loop_post U L c has r b ops up' res ->
  (r_ret res = true -> forall i, linfo_of L id = Some i -> eligible c i = true ->
     memN id has = true \/ bhas b (id, FMeta) = true) ->
  (up' = up \/ (up' = up ++ [id] /\ (memN id has = true \/ bhas b (id, FMeta) = true))) ->
  loop_post U L c has (id :: r) b ops up res.
Proof.
  intros [ops' [H1 [H2 [H3 [H4 [H5 [H6 [H7 H8]]]]]]]] Hid Hup.
  assert (Hmono : forall k, bhas b k = true -> bhas (r_bucket res) k = true).
  { intros k Hk. rewrite H2. apply bhas_mono; assumption. }
  exists ops'. repeat split; try assumption.
  - intros Hr id' i' [Hin|Hin] Hl He.
    + subst id'. destruct (Hid Hr i' Hl He) as [H|H]; [left; exact H|right; apply Hmono; exact H].
    + eapply H6; eauto.
  - intros l Hl. destruct (H7 l Hl) as [new [Hn1 Hn2]].
    destruct Hup as [Hup|[Hup Hidok]]; subst up'.
    + exists new. split; assumption.
    + exists (id :: new). split; [rewrite Hn1, <- app_assoc; reflexivity|].
      intros id' [Hi|Hi]; [subst id'|apply Hn2; exact Hi].
      destruct Hidok as [H|H]; [left; exact H|right; apply Hmono; exact H].
Qed.

(* ... and over a block whose upload issued [ops1] *)
Lemma loop_post_cons_ops U L c has id r b ops ops1 up up' res :
  wf_univ U -> binv U b ->
  bguarded U b ops1 -> forallb (is_up key obj) ops1 = true -> forallb (meta_lbl_ok (c_lbl c)) ops1 = true ->
  (forall o, In o ops1 -> linfo_of L (fst (op_key key obj o)) <> None) ->
  loop_post U L c has r (bapply_ops b ops1) (ops ++ ops1) up' res ->
  (r_ret res = true -> bhas (bapply_ops b ops1) (id, FMeta) = true) ->
  (up' = up \/ (up' = up ++ [id] /\ bhas (bapply_ops b ops1) (id, FMeta) = true)) ->
  loop_post U L c has (id :: r) b ops up res.
Proof.
  intros Hwf Hb G1 U1 L1 K1 [ops' [H1 [H2 [H3 [H4 [H5 [H6 [H7 H8]]]]]]]] Hid Hup.
  assert (Hmono : forall k, bhas (bapply_ops b ops1) k = true -> bhas (r_bucket res) k = true).
  { intros k Hk. rewrite H2. apply bhas_mono; assumption. }
  exists (ops1 ++ ops'). repeat split.
  - rewrite H1, <- app_assoc. reflexivity.
  - rewrite H2, bapply_ops_app. reflexivity.
  - apply guarded_app. split; assumption.
  - rewrite forallb_app. apply andb_true_iff. split; assumption.
  - rewrite forallb_app. apply andb_true_iff. split; assumption.
  - intros Hr id' i' [Hin|Hin] Hl He.
    + subst id'. right. apply Hmono. apply Hid. exact Hr.
    + eapply H6; eauto.
  - intros l Hl. destruct (H7 l Hl) as [new [Hn1 Hn2]].
    destruct Hup as [Hup|[Hup Hidok]]; subst up'.
    + exists new. split; assumption.
    + exists (id :: new). split; [rewrite Hn1, <- app_assoc; reflexivity|].
      intros id' [Hi|Hi]; [subst id'; right; apply Hmono; exact Hidok|apply Hn2; exact Hi].
  - intros o Ho. apply in_app_or in Ho as [Ho|Ho]; [apply K1; exact Ho|apply H8; exact Ho].
Qed.

Lemma sync_loop_sound U L c has : wf_univ U -> forall blocks b n ops up errs cids ck ords res,
  binv U b ->
  sync_loop std_upload U L c has blocks b n ops up errs cids ck ords = Some res ->
  loop_post U L c has blocks b ops up res.
Proof.
  intros Hwf. induction blocks as [|id r IH]; intros b n ops up errs cids ck ords res Hb H; simpl in H.
  - assert (E : exists m ret, res = mksres b ops m ret /\ (forall l, m = Some l -> l = up)).
    { destruct (tick (c_fault c) n); inversion H; subst; eexists; eexists; split; try reflexivity;
        intros l Hl; inversion Hl; reflexivity. }
    destruct E as [m [ret [E Hm]]]. subst res. exists []. simpl. rewrite app_nil_r.
    repeat split; try reflexivity; try exact I.
    + intros _ id i [].
    + intros l Hl. exists []. rewrite app_nil_r. split; [apply Hm; exact Hl|intros id []].
    + intros o [].
  - destruct (linfo_of L id) as [i|] eqn:Hli; [|discriminate].
    destruct (ublock U id) as [bl|] eqn:Hu; [|discriminate].
    destruct (memN id has) eqn:Hmem.
    { apply (loop_post_cons_same U L c has id r b ops up (up ++ [id]) res); [eapply IH; eauto| |].
      - intros _ i' _ _. left. exact Hmem.
      - right. split; [reflexivity|left; exact Hmem]. }
    destruct (negb (l_nonempty i)) eqn:Hne.
    { apply (loop_post_cons_same U L c has id r b ops up up res); [eapply IH; eauto| |left; reflexivity].
      intros _ i' Hi' He. rewrite Hli in Hi'. inversion Hi'; subst i'. unfold eligible in He.
      destruct (l_nonempty i); simpl in *; discriminate. }
    destruct (negb (N.leb (l_level i) 1) && negb (c_uc c)) eqn:Hlv.
    { apply (loop_post_cons_same U L c has id r b ops up up res); [eapply IH; eauto| |left; reflexivity].
      intros _ i' Hi' He. rewrite Hli in Hi'. inversion Hi'; subst i'. unfold eligible in He.
      destruct (N.leb (l_level i) 1), (c_uc c), (l_nonempty i); simpl in *; discriminate. }
    destruct (tick (c_fault c) n); try (inversion H; subst; apply loop_post_stop).
    destruct (bhas b (id, FMeta)) eqn:Hhas.
    { apply (loop_post_cons_same U L c has id r b ops up (up ++ [id]) res); [eapply IH; eauto| |].
      - intros _ i' _ _. right. exact Hhas.
      - right. split; [reflexivity|right; exact Hhas]. }
    destruct (overlap_gate L c b (S n) ck i) as [|n1 ck']; [inversion H; subst; apply loop_post_stop|].
    destruct (c_lbl c) as [lbl|] eqn:Hlbl.
    + destruct (c_conc c && match c_fault c with FailAt _ => true | _ => false end); [discriminate|].
      destruct (upload_ops std_upload U id _ (hd 0%N cids) lbl) as [l|] eqn:Hl; [|discriminate].
      destruct (run_ups (c_fault c) n1 b [] l) as [[[b' n'] done] u] eqn:Hrun.
      destruct (run_ups_spec _ _ _ _ _ _ _ _ _ Hrun) as [k [Hd [Hb' Hfull]]]. simpl in Hd. subst done b'.
      pose proof (upload_ops_shape U id _ _ lbl l Hl) as [Hups Hlbls].
      assert (G1 : bguarded U b (firstn k l)) by (apply guarded_firstn; eapply upload_guarded; eauto).
      assert (U1 : forallb (is_up key obj) (firstn k l) = true) by (apply forallb_firstn; exact Hups).
      assert (L1 : forallb (meta_lbl_ok (c_lbl c)) (firstn k l) = true) by (rewrite Hlbl; apply forallb_firstn; exact Hlbls).
      assert (Hb1 : binv U (bapply_ops b (firstn k l))).
      { apply (binv_states U b (firstn k l) Hwf Hb G1). apply states_last. }
      assert (K1 : forall o, In o (firstn k l) -> linfo_of L (fst (op_key key obj o)) <> None).
      { intros o Ho. apply firstn_In_local in Ho. rewrite (upload_ops_keys U id _ _ lbl l o Hl Ho), Hli. discriminate. }
      destruct u.
      * (* uploaded *)
        rewrite (Hfull eq_refl) in *.
        assert (Hm : bhas (bapply_ops b l) (id, FMeta) = true).
        { apply bhas_true. rewrite (upload_final U b id _ _ lbl l bl Hu Hl). discriminate. }
        apply (loop_post_cons_ops U L c has id r b ops l up (up ++ [id]) res Hwf Hb G1 U1 L1 K1); [eapply IH; eauto| |].
        -- intros _. exact Hm.
        -- right. split; [reflexivity|exact Hm].
      * (* upload failed *)
        destruct (c_ooo c).
        -- apply (loop_post_cons_ops U L c has id r b ops (firstn k l) up up res Hwf Hb G1 U1 L1 K1); [eapply IH; eauto| |left; reflexivity].
           intros Hr. apply (sync_loop_ret_errs U L c has) in H; [discriminate|exact Hr].
        -- inversion H; subst res. exists (firstn k l). simpl. repeat split; try assumption; try discriminate.
      * inversion H; subst res. exists (firstn k l). simpl. repeat split; try assumption; try discriminate.
    + destruct (c_ooo c); [|inversion H; subst; apply loop_post_stop].
      apply (loop_post_cons_same U L c has id r b ops up up res); [eapply IH; eauto| |left; reflexivity].
      intros Hr. apply (sync_loop_ret_errs U L c has) in H; [discriminate|exact Hr].
Qed.

(* sorting keeps the blocks *)
Lemma insert_by_In L id l x : In x (insert_by L id l) <-> x = id \/ In x l.
Proof.
  induction l as [|j r IH]; simpl; [intuition auto|].
  match goal with |- context [if ?c then _ else _] => destruct c end; simpl; rewrite ?IH; intuition auto.
Qed.

Lemma sort_blocks_In L ids x : In x (sort_blocks L ids) <-> In x ids.
Proof.
  induction ids as [|i r IH]; simpl; [tauto|]. rewrite insert_by_In, IH. intuition auto.
Qed.

(* ---- one sync ---- *)
Definition mf_next (old : option (list N)) (res : sres) : option (list N) :=
  match r_meta res with Some l => Some l | None => old end.

(* the state invariant of a scenario: the bucket satisfies the block invariant and
   every block recorded in the meta file is visible in the bucket *)
Definition recorded_visible (b : bucket) (mf : option (list N)) : Prop :=
  forall id, In id (mf_list mf) -> bhas b (id, FMeta) = true.

Lemma filter_all_true {A} (f : A -> bool) (l : list A) : (forall x, In x l -> f x = true) -> filter f l = l.
Proof.
  induction l as [|x r IH]; intros H; simpl; [reflexivity|].
  rewrite (H x (or_introl eq_refl)), IH; [reflexivity|]. intros y Hy. apply H. right; exact Hy.
Qed.

Lemma sync_sound U L c mf b res :
  wf_univ U -> binv U b -> sync U L c mf b = Some res ->
  let b' := bapply_ops b (r_ops res) in
  bguarded U b (r_ops res)
  /\ forallb (meta_lbl_ok (c_lbl c)) (r_ops res) = true
  /\ (r_ret res = true -> forall id i, In id (c_present c) -> linfo_of L id = Some i -> eligible c i = true ->
        memN id (mf_list mf) = true \/ bhas b' (id, FMeta) = true)
  /\ (forall id, In id (mf_list (mf_next mf res)) -> memN id (mf_list mf) = true \/ bhas b' (id, FMeta) = true)
  /\ (forall k, bhas b k = true -> bhas b' k = true)
  /\ (forall o, In o (r_ops res) -> linfo_of L (fst (op_key key obj o)) <> None)
  /\ forallb (is_up key obj) (r_ops res) = true.
Proof.
  intros Hwf Hb H. unfold sync in H. rewrite upload_phases_std in H.
  destruct ((match c_corrupt c with [] => false | _ => true end) && negb (c_skip c)) eqn:Hcor.
  { inversion H; subst res. simpl. repeat split; try reflexivity; try exact I; try discriminate.
    - intros id Hin. left. apply memN_In. exact Hin.
    - intros k Hk. exact Hk.
    - intros o []. }
  pose proof H as H0.
  apply (sync_loop_sound U L c _ Hwf) in H; [|exact Hb].
  destruct H as [ops' [H1 [H2 [H3 [H4 [H5 [H6 [H7 H8]]]]]]]]. simpl in H1. cbv zeta. rewrite H1. rewrite <- H2.
  fold (mf_list mf) in *.
  repeat split; try assumption.
  - intros Hr id i Hin Hl He.
    pose proof (sync_loop_ret_errs U L c _ _ _ _ _ _ _ _ _ _ _ H0 Hr) as Hlen.
    destruct (c_corrupt c) as [|x xs] eqn:Hcc; [|discriminate].
    eapply H6; eauto. apply sort_blocks_In. rewrite filter_all_true; [exact Hin|]. reflexivity.
  - intros id Hin. unfold mf_next in Hin. destruct (r_meta res) as [l|] eqn:Hm.
    + destruct (H7 l eq_refl) as [new [Hn1 Hn2]]. simpl in Hn1. subst l. apply Hn2. exact Hin.
    + left. apply memN_In. exact Hin.
  - intros k Hk. rewrite H2. apply bhas_mono; assumption.
Qed.

(* ---- scenarios: corr_ok implies pred_ok ---- *)
Definition sinv (U : univ) (st : state) : Prop := binv U (fst st).

Lemma tl_In {A} (l : list A) x : In x (tl l) -> In x l.
Proof. destruct l; simpl; auto. Qed.

Lemma nlist_eqb_spec a b : nlist_eqb a b = true <-> a = b.
Proof. apply list_eqb_spec. intros x y. apply N.eqb_eq. Qed.

Lemma option_nlist_eqb_spec a b : option_eqb nlist_eqb a b = true -> a = b.
Proof.
  destruct a, b; simpl; intros H; try discriminate; [|reflexivity]. apply nlist_eqb_spec in H. subst; reflexivity.
Qed.

Lemma step_sound U L st s st' :
  wf_univ U -> sinv U st -> corr_step U L st s = Some st' ->
  sinv U st' /\ pred_step L st s = (true, st').
Proof.
  intros Hwf Hst Hc. destruct s as [[[[c ret] ops] snaps] mf]. unfold corr_step in Hc.
  destruct (sync U L c (snd st) (fst st)) as [res|] eqn:Hs; [|discriminate].
  destruct (list_eqb bop_eqb ops (r_ops res) && list_eqb bucket_eqb snaps (tl (bstates (fst st) (r_ops res)))
            && Bool.eqb ret (r_ret res)
            && option_eqb nlist_eqb mf (match r_meta res with Some l => Some l | None => snd st end)) eqn:Hchk; [|discriminate].
  inversion Hc; subst st'. clear Hc.
  apply andb_true_iff in Hchk as [Hchk Hmf]. apply andb_true_iff in Hchk as [Hchk Hret].
  apply andb_true_iff in Hchk as [Hops Hsn].
  apply ops_eqb_spec in Hops. apply buckets_eqb_spec in Hsn. apply Bool.eqb_prop in Hret.
  apply option_nlist_eqb_spec in Hmf.
  destruct (sync_sound U L c (snd st) (fst st) res Hwf Hst Hs) as [Hg [Hlb [Hel [Hrec [Hmono _]]]]].
  assert (Hall : forall b', In b' (bstates (fst st) (r_ops res)) -> binv U b').
  { intros b' Hb'. apply (binv_states U (fst st) (r_ops res) Hwf Hst Hg). exact Hb'. }
  split.
  - unfold sinv. simpl. apply Hall. apply states_last.
  - unfold pred_step.
    assert (Hpost : last snaps (fst st) = bapply_ops (fst st) (r_ops res)).
    { rewrite Hsn. apply last_states. }
    rewrite Hpost. f_equal; [|rewrite Hmf; reflexivity].
    assert (Hvis : forallb visible_complete_b snaps = true).
    { apply forallb_forall. intros b' Hb'. rewrite Hsn in Hb'. apply tl_In in Hb'.
      eapply binv_visible_complete. apply Hall. exact Hb'. }
    rewrite Hvis. simpl.
    apply andb_true_iff. split; [apply andb_true_iff; split|].
    + destruct ret; [|reflexivity]. apply forallb_forall. intros id Hin.
      destruct (linfo_of L id) as [i|] eqn:Hl; [|reflexivity].
      destruct (eligible c i) eqn:He; [|reflexivity]. simpl.
      destruct (Hel (eq_sym Hret) id i Hin Hl He) as [H|H]; rewrite H; [reflexivity|apply orb_true_r].
    + apply forallb_forall. intros id Hin. rewrite Hmf in Hin.
      destruct (Hrec id Hin) as [H|H]; rewrite H; [reflexivity|apply orb_true_r].
    + rewrite Hops. exact Hlb.
Qed.

Lemma steps_sound U L : forall steps st,
  wf_univ U -> sinv U st -> corr_steps U L st steps = true -> pred_steps L st steps = true.
Proof.
  induction steps as [|s r IH]; intros st Hwf Hst Hc; simpl in *; [reflexivity|].
  destruct (corr_step U L st s) as [st'|] eqn:Hs; [|discriminate].
  destruct (step_sound U L st s st' Hwf Hst Hs) as [Hst' Hp]. rewrite Hp. simpl.
  apply IH; assumption.
Qed.

Lemma corr_implies_pred c : corr_ok c = true -> pred_core c = true.
Proof.
  destruct c as [U L steps]. simpl. intros H. apply andb_true_iff in H as [Hwf Hc].
  apply (steps_sound U L steps ([], None) (wf_univ_b_spec U Hwf)); [|exact Hc].
  apply binv_empty.
Qed.

(* ---- readable statements ---- *)

(* block id is in the bucket with its meta.json and every file of the block, right sizes *)
Definition published (U : univ) (b : bucket) (id : N) : Prop :=
  exists bl cid lbl, ublock U id = Some bl
    /\ bget b (id, FMeta) = Some (MetaO cid (files_of bl) lbl)
    /\ all_data_present b id bl.

Lemma binv_published U b id : binv U b -> bhas b (id, FMeta) = true -> published U b id.
Proof.
  intros [_ Hco] Hh. apply bhas_true in Hh. destruct (bget b (id, FMeta)) as [o|] eqn:Hg; [|congruence].
  destruct (Hco _ _ Hg) as [bl [cid [lbl [Hu [Ho Hall]]]]]. subst o. exists bl, cid, lbl. auto.
Qed.

Definition good (U : univ) (st : state) : Prop :=
  binv U (fst st) /\ recorded_visible (fst st) (snd st).

Definition sync_state (st : state) (res : sres) : state :=
  (bapply_ops (fst st) (r_ops res), mf_next (snd st) res).

Lemma sync_keeps_good U L c st res :
  wf_univ U -> good U st -> sync U L c (snd st) (fst st) = Some res ->
  good U (sync_state st res)
  /\ (forall b', In b' (bstates (fst st) (r_ops res)) -> binv U b')
  /\ (r_ret res = true -> forall id i, In id (c_present c) -> linfo_of L id = Some i -> eligible c i = true ->
        published U (fst (sync_state st res)) id)
  /\ (forall id cid files lbl, In (Up (id, FMeta) (MetaO cid files lbl)) (r_ops res) -> c_lbl c = Some lbl).
Proof.
  intros Hwf [Hb Hrv] Hs.
  destruct (sync_sound U L c (snd st) (fst st) res Hwf Hb Hs) as [Hg [Hlb [Hel [Hrec [Hmono _]]]]].
  assert (Hall : forall b', In b' (bstates (fst st) (r_ops res)) -> binv U b').
  { intros b' Hb'. apply (binv_states U (fst st) (r_ops res) Hwf Hb Hg). exact Hb'. }
  assert (Hb' : binv U (bapply_ops (fst st) (r_ops res))) by (apply Hall; apply states_last).
  split; [split|split; [|split]].
  - exact Hb'.
  - intros id Hin. simpl in Hin. destruct (Hrec id Hin) as [H|H]; [|exact H].
    apply Hmono. apply Hrv. apply memN_In. exact H.
  - exact Hall.
  - intros Hr id i Hin Hl He. apply binv_published; [exact Hb'|]. simpl.
    destruct (Hel Hr id i Hin Hl He) as [H|H]; [|exact H].
    apply Hmono. apply Hrv. apply memN_In. exact H.
  - intros id cid files lbl Hin. rewrite forallb_forall in Hlb. specialize (Hlb _ Hin). simpl in Hlb.
    destruct (c_lbl c) as [l'|]; [|discriminate]. apply N.eqb_eq in Hlb. subst. reflexivity.
Qed.

(* any history of syncs, each with any fault *)
Fixpoint after_syncs (U : univ) (L : locals) (st : state) (cs : list cfg) : option state :=
  match cs with
  | [] => Some st
  | c :: r =>
      match sync U L c (snd st) (fst st) with
      | Some res => after_syncs U L (sync_state st res) r
      | None => None
      end
  end.

Lemma after_syncs_good U L : forall cs st st',
  wf_univ U -> good U st -> after_syncs U L st cs = Some st' -> good U st'.
Proof.
  induction cs as [|c r IH]; intros st st' Hwf Hg H; simpl in H.
  - inversion H; subst. exact Hg.
  - destruct (sync U L c (snd st) (fst st)) as [res|] eqn:Hs; [|discriminate].
    eapply IH; [exact Hwf| |exact H]. eapply sync_keeps_good; eauto.
Qed.

Lemma good_empty U : good U ([], None).
Proof. split; [apply binv_empty|]. intros id []. Qed.

Lemma crash_then_sync U L cs c st res :
  wf_univ_b U = true ->
  after_syncs U L ([], None) cs = Some st ->
  sync U L c (snd st) (fst st) = Some res -> r_ret res = true ->
  forall id i, In id (c_present c) -> linfo_of L id = Some i -> eligible c i = true ->
    published U (bapply_ops (fst st) (r_ops res)) id.
Proof.
  intros Hwf Ha Hs Hr. apply wf_univ_b_spec in Hwf.
  pose proof (after_syncs_good U L cs _ _ Hwf (good_empty U) Ha) as Hg.
  destruct (sync_keeps_good U L c st res Hwf Hg Hs) as [_ [_ [H _]]]. exact (H Hr).
Qed.

Lemma uploaded_sound U L cs st :
  wf_univ_b U = true -> after_syncs U L ([], None) cs = Some st ->
  forall id, In id (mf_list (snd st)) -> published U (fst st) id.
Proof.
  intros Hwf Ha id Hin. apply wf_univ_b_spec in Hwf.
  destruct (after_syncs_good U L cs _ _ Hwf (good_empty U) Ha) as [Hb Hrv].
  apply binv_published; [exact Hb|]. apply Hrv. exact Hin.
Qed.

Lemma sync_complete U L c st res :
  wf_univ U -> good U st -> sync U L c (snd st) (fst st) = Some res ->
  (forall b', In b' (bstates (fst st) (r_ops res)) -> binv U b')
  /\ (r_ret res = true -> forall id i, In id (c_present c) -> linfo_of L id = Some i -> eligible c i = true ->
        published U (bapply_ops (fst st) (r_ops res)) id)
  /\ (forall id cid files lbl, In (Up (id, FMeta) (MetaO cid files lbl)) (r_ops res) -> c_lbl c = Some lbl)
  /\ good U (sync_state st res).
Proof.
  intros Hwf Hg Hs. destruct (sync_keeps_good U L c st res Hwf Hg Hs) as [H1 [H2 [H3 H4]]]. auto.
Qed.

(* every input on which the model is defined yields an accepted case *)
Fixpoint model_steps (U : univ) (L : locals) (st : state) (cs : list cfg) : option (list step) :=
  match cs with
  | [] => Some []
  | c :: r =>
      match sync U L c (snd st) (fst st) with
      | None => None
      | Some res =>
          match model_steps U L (sync_state st res) r with
          | Some rest => Some ((c, r_ret res, r_ops res, tl (bstates (fst st) (r_ops res)), mf_next (snd st) res) :: rest)
          | None => None
          end
      end
  end.

Lemma option_nlist_eqb_refl a : option_eqb nlist_eqb a a = true.
Proof. destruct a; simpl; [apply nlist_eqb_spec|]; reflexivity. Qed.

Lemma model_steps_corr U L : forall cs st steps,
  model_steps U L st cs = Some steps -> corr_steps U L st steps = true.
Proof.
  induction cs as [|c r IH]; intros st steps H; simpl in H.
  - inversion H; subst. reflexivity.
  - destruct (sync U L c (snd st) (fst st)) as [res|] eqn:Hs; [|discriminate].
    destruct (model_steps U L (sync_state st res) r) as [rest|] eqn:Hr; [|discriminate].
    inversion H; subst steps. clear H. simpl. rewrite Hs.
    rewrite (proj2 (ops_eqb_spec _ _) eq_refl), (proj2 (buckets_eqb_spec _ _) eq_refl), Bool.eqb_reflx.
    unfold mf_next in *. rewrite option_nlist_eqb_refl. simpl.
    apply IH. exact Hr.
Qed.

Lemma model_case_ok U L cs steps :
  wf_univ_b U = true -> model_steps U L ([], None) cs = Some steps ->
  corr_ok (CSync U L steps) = true /\ pred_core (CSync U L steps) = true.
Proof.
  intros Hwf H. assert (Hc : corr_ok (CSync U L steps) = true).
  { simpl. rewrite Hwf. simpl. eapply model_steps_corr; eauto. }
  split; [exact Hc|apply corr_implies_pred; exact Hc].
Qed.

(* property C28 for the shipper: at every crash point of every sync of any history *)
Lemma sync_visible_complete U L cs c st res :
  wf_univ_b U = true -> after_syncs U L ([], None) cs = Some st ->
  sync U L c (snd st) (fst st) = Some res ->
  forall k, visible_complete (bapply_ops (fst st) (firstn k (r_ops res))).
Proof.
  intros Hwf Ha Hs k. apply wf_univ_b_spec in Hwf.
  pose proof (after_syncs_good U L cs _ _ Hwf (good_empty U) Ha) as Hg.
  destruct (sync_keeps_good U L c st res Hwf Hg Hs) as [_ [Hall _]].
  apply (binv_visible U). apply Hall.
  apply states_firstn_incl with (k := k). apply states_last.
Qed.
