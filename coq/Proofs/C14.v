(* C14 — proofs about the model of the caching bucket. *)
From Coq Require Import ZArith NArith List Bool Lia.
Import ListNotations.
From Verif Require Import Lib.Corr Gen.C14 Model.C14.
Open Scope Z_scope.

Ltac Zify.zify_post_hook ::= Z.to_euclidean_division_equations.

(* ---------- lists and slices ---------- *)
Lemma firstn_plus' {A} a b (l : list A) : firstn a l ++ firstn b (skipn a l) = firstn (a + b) l.
Proof.
  revert l. induction a; intro l; simpl; [reflexivity|].
  destruct l; [destruct b; reflexivity|]. simpl. rewrite IHa. reflexivity.
Qed.

Lemma skipn_skipn'' {A} a b (l : list A) : skipn a (skipn b l) = skipn (b + a) l.
Proof.
  revert l. induction b; intro l; simpl; [reflexivity|].
  destruct l; [destruct a; reflexivity|]. apply IHb.
Qed.

Lemma firstn_firstn' {A} a b (l : list A) : (a <= b)%nat -> firstn a (firstn b l) = firstn a l.
Proof.
  revert b l. induction a; intros b l H; simpl; [reflexivity|].
  destruct b; [lia|]. destruct l; simpl; [reflexivity|]. rewrite IHa by lia. reflexivity.
Qed.

Lemma skipn_firstn' {A} a b (l : list A) : skipn a (firstn b l) = firstn (b - a) (skipn a l).
Proof.
  revert b l. induction a; intros b l; simpl.
  - rewrite Nat.sub_0_r. reflexivity.
  - destruct b; simpl; [reflexivity|]. destruct l; simpl; [destruct (b - a)%nat; reflexivity|]. apply IHa.
Qed.

Lemma blen_nonneg b : 0 <= blen b.
Proof. unfold blen. lia. Qed.

Lemma slice_length b lo hi : 0 <= lo -> lo <= hi -> hi <= blen b -> blen (slice b lo hi) = hi - lo.
Proof.
  intros H1 H2 H3. unfold slice, blen in *. rewrite firstn_length, skipn_length. lia.
Qed.

Lemma slice_slice x a b lo hi :
  0 <= a -> 0 <= lo -> lo <= hi -> hi <= b - a ->
  slice (slice x a b) lo hi = slice x (a + lo) (a + hi).
Proof.
  intros Ha Hlo Hh Hb. unfold slice.
  rewrite skipn_firstn'. rewrite skipn_skipn''. rewrite firstn_firstn' by lia.
  replace (a + hi - (a + lo)) with (hi - lo) by lia.
  replace (Z.to_nat a + Z.to_nat lo)%nat with (Z.to_nat (a + lo)) by lia. reflexivity.
Qed.

Lemma slice_app x a m b : 0 <= a -> a <= m -> m <= b -> slice x a m ++ slice x m b = slice x a b.
Proof.
  intros Ha Hm Hb. unfold slice.
  replace (skipn (Z.to_nat m) x) with (skipn (Z.to_nat (m - a)) (skipn (Z.to_nat a) x)).
  2:{ rewrite skipn_skipn''. f_equal. lia. }
  rewrite firstn_plus'. f_equal. lia.
Qed.

Lemma slice_full x : slice x 0 (blen x) = x.
Proof. unfold slice, blen. simpl. rewrite Z.sub_0_r, Nat2Z.id. apply firstn_all. Qed.

Lemma slice_empty x a : slice x a a = [].
Proof. unfold slice. rewrite Z.sub_diag. reflexivity. Qed.

Lemma slice_clip x a b : 0 <= a -> blen x <= b -> slice x a b = slice x a (blen x).
Proof.
  intros Ha Hb. unfold slice, blen in *.
  destruct (Z_le_gt_dec a (Z.of_nat (length x))) as [Hle|Hgt].
  - rewrite !firstn_all2; [reflexivity| |]; rewrite skipn_length; lia.
  - rewrite skipn_all2 by lia. rewrite !firstn_nil. reflexivity.
Qed.

(* ---------- keys and the cache ---------- *)
Lemma key_eqb_eq a b : key_eqb a b = true <-> a = b.
Proof.
  destruct a, b; simpl; split; intro H; try discriminate; try congruence;
    repeat match goal with
           | H : _ && _ = true |- _ => apply andb_true_iff in H; destruct H
           | H : N.eqb _ _ = true |- _ => apply N.eqb_eq in H
           | H : Z.eqb _ _ = true |- _ => apply Z.eqb_eq in H
           | H : Bool.eqb _ _ = true |- _ => apply Bool.eqb_prop in H
           end; subst; try reflexivity;
    inversion H; subst; rewrite ?N.eqb_refl, ?Z.eqb_refl, ?Bool.eqb_reflx; reflexivity.
Qed.

Lemma lookup_store c k v k' :
  lookup (store c k v) k' = if key_eqb k' k then Some v else lookup c k'.
Proof. reflexivity. Qed.

Lemma fetch_some c hits k v : fetch c hits k = Some v -> lookup c k = Some v.
Proof. unfold fetch. destruct (mem_key k hits); [auto|discriminate]. Qed.

(* ---------- subrangesReader ---------- *)
Section Reader.
Variable obj : bytes.
Variable Sz : Z.
Hypothesis HS : 0 < Sz.
Let size := blen obj.

Definition sub_of (off : Z) : bytes := slice obj off (Z.min (off + Sz) size).

Lemma quot_bounds ro : 0 <= ro -> Z.quot ro Sz * Sz <= ro < Z.quot ro Sz * Sz + Sz.
Proof. intro H. lia. Qed.

Lemma read_loop_ok h ks ke :
  (forall k, ks <= k < ke -> hget h (k * Sz) = Some (sub_of (k * Sz))) ->
  0 <= ks ->
  forall fuel ro rem acc,
  ks * Sz <= ro -> 0 <= rem -> ro + rem <= size -> ro + rem <= ke * Sz ->
  ke - Z.quot ro Sz < Z.of_nat fuel ->
  read_loop fuel Sz h ro rem acc = RBytes (acc ++ slice obj ro (ro + rem)).
Proof.
  intros Hh Hks. induction fuel as [|f IH]; intros ro rem acc H1 H2 H3 H4 H5.
  - assert (Hro : 0 <= ro) by nia.
    pose proof (quot_bounds ro Hro) as Hq.
    destruct (Z.eq_dec rem 0) as [->|Hne].
    + simpl. rewrite Z.add_0_r, slice_empty, app_nil_r. reflexivity.
    + exfalso. simpl in H5. nia.
  - assert (Hro : 0 <= ro) by nia.
    pose proof (quot_bounds ro Hro) as Hq.
    cbn [read_loop]. destruct (rem <=? 0) eqn:Er.
    + apply Z.leb_le in Er. assert (rem = 0) by lia. subst rem.
      rewrite Z.add_0_r, slice_empty, app_nil_r. reflexivity.
    + apply Z.leb_gt in Er.
      set (k := Z.quot ro Sz) in *.
      assert (Hk : ks <= k < ke) by nia.
      rewrite (Hh k Hk).
      assert (Hk0 : 0 <= k * Sz) by nia.
      assert (Hlen : blen (sub_of (k * Sz)) = Z.min (k * Sz + Sz) size - k * Sz).
      { unfold sub_of. apply slice_length; unfold size in *; lia. }
      rewrite Hlen.
      destruct (Z.min (k * Sz + Sz) size - k * Sz - (ro - k * Sz) <=? 0) eqn:Et.
      { apply Z.leb_le in Et. exfalso. lia. }
      apply Z.leb_gt in Et.
      set (tc := if rem <? Z.min (k * Sz + Sz) size - k * Sz - (ro - k * Sz) then rem
                 else Z.min (k * Sz + Sz) size - k * Sz - (ro - k * Sz)).
      assert (Htc : 0 < tc /\ tc <= rem /\ ro + tc <= Z.min (k * Sz + Sz) size
                    /\ (tc < rem -> ro + tc = k * Sz + Sz)).
      { unfold tc. destruct (rem <? Z.min (k * Sz + Sz) size - k * Sz - (ro - k * Sz)) eqn:E.
        - apply Z.ltb_lt in E. lia.
        - apply Z.ltb_ge in E. lia. }
      destruct Htc as (T1 & T2 & T3 & T4).
      assert (Hsl : slice (sub_of (k * Sz)) (ro - k * Sz) (ro - k * Sz + tc) = slice obj ro (ro + tc)).
      { unfold sub_of. rewrite slice_slice by lia. f_equal; lia. }
      rewrite Hsl.
      destruct (Z.eq_dec tc rem) as [Heq|Hneq].
      * (* last copy *)
        rewrite Heq. rewrite Z.sub_diag. destruct f; reflexivity.
      * assert (Hnext : ro + tc = k * Sz + Sz) by (apply T4; lia).
        rewrite IH; try lia.
        -- rewrite <- app_assoc. rewrite slice_app by lia. f_equal. f_equal. f_equal. lia.
        -- rewrite Hnext. replace (Z.quot (k * Sz + Sz) Sz) with (k + 1) by nia. lia.
Qed.
End Reader.
