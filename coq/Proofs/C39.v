(* C39 — proofs about Model/C39.v. *)
From Coq Require Import ZArith NArith String List Bool Lia Arith.
Import ListNotations.
From Verif Require Import Lib.Corr Gen.C39 Model.C39.
Open Scope N_scope.

Ltac Zify.zify_post_hook ::= Z.to_euclidean_division_equations.

(* ---- bit operations as arithmetic ---- *)

Lemma testbit_small a n : a < 2 ^ n -> N.testbit a n = false.
Proof.
  intros H. destruct (N.eq_dec a 0) as [->|Hz]; [apply N.bits_0|].
  apply N.bits_above_log2. apply N.log2_lt_pow2; lia.
Qed.

Lemma lor_shiftl_add a v s : a < 2 ^ s -> N.lor a (N.shiftl v s) = a + v * 2 ^ s.
Proof.
  intros H.
  assert (L : N.land a (N.shiftl v s) = 0).
  { apply N.bits_inj_0. intros n. rewrite N.land_spec.
    destruct (N.lt_ge_cases n s) as [Hn|Hn].
    - rewrite N.shiftl_spec_low by assumption. apply andb_false_r.
    - rewrite testbit_small; [reflexivity|].
      eapply N.lt_le_trans; [exact H|]. apply N.pow_le_mono_r; lia. }
  rewrite <- N.lxor_lor by exact L.
  rewrite <- N.add_nocarry_lxor by exact L.
  rewrite N.shiftl_mul_pow2. reflexivity.
Qed.

Lemma byte_lor_128 y : y < 256 -> N.lor y 128 = y mod 128 + 128.
Proof.
  intros H.
  assert (A : forallb (fun y => N.lor y 128 =? y mod 128 + 128) (map N.of_nat (seq 0 256)) = true)
    by (vm_compute; reflexivity).
  rewrite forallb_forall in A.
  apply N.eqb_eq. apply A. apply in_map_iff. exists (N.to_nat y). split; [lia|].
  apply in_seq. lia.
Qed.

Lemma cont_byte x : N.lor (x mod 256) 128 = x mod 128 + 128.
Proof.
  rewrite byte_lor_128 by (apply N.mod_lt; lia).
  f_equal. lia.
Qed.

Lemma land_127 b : N.land b 127 = b mod 128.
Proof. change 127 with (N.ones 7). rewrite N.land_ones. reflexivity. Qed.

Lemma shiftr_7 x : N.shiftr x 7 = x / 128.
Proof. rewrite N.shiftr_div_pow2. reflexivity. Qed.

(* ---- PutUvarint / Uvarint ---- *)

Lemma put_f_nonempty fuel x : (1 <= List.length (put_uvarint_f fuel x))%nat.
Proof. destruct fuel; cbn [put_uvarint_f]; [cbn; lia|]. destruct (x <? 128); cbn [List.length]; lia. Qed.

(* number of bytes: x < 2^(7(n+1)) needs at most n+1 bytes *)
Lemma put_f_length fuel : forall n x,
  x < 2 ^ (7 * N.of_nat (S n)) -> (List.length (put_uvarint_f fuel x) <= S n)%nat.
Proof.
  induction fuel as [|f IH]; intros n x H; cbn [put_uvarint_f].
  - cbn. lia.
  - destruct (x <? 128) eqn:E; [cbn; lia|]. apply N.ltb_ge in E.
    destruct n as [|n'].
    + change (2 ^ (7 * N.of_nat 1)) with 128 in H. lia.
    + cbn [List.length]. apply le_n_S. apply IH. rewrite shiftr_7.
      replace (7 * N.of_nat (S (S n'))) with (7 + 7 * N.of_nat (S n')) in H by lia.
      rewrite N.pow_add_r in H. change (2 ^ 7) with 128 in H.
      apply N.div_lt_upper_bound; lia.
Qed.

Lemma put_uvarint_len8 x : x < 2 ^ 56 -> (List.length (put_uvarint x) <= 8)%nat.
Proof. intros H. unfold put_uvarint. apply (put_f_length 10 7). exact H. Qed.

(* decoding what PutUvarint wrote (followed by anything), while the byte index
   stays below 9, continues the accumulator by x * 2^s *)
Lemma uvarint_go_put fuel : forall x r i acc s,
  x < 2 ^ (7 * N.of_nat fuel + 7) ->
  (i + List.length (put_uvarint_f fuel x) <= 9)%nat ->
  acc < 2 ^ s ->
  uvarint_go (put_uvarint_f fuel x ++ r) i acc s
  = (acc + x * 2 ^ s, Z.of_nat (i + List.length (put_uvarint_f fuel x))).
Proof.
  assert (Last : forall x r i acc s, x < 128 -> (i + 1 <= 9)%nat -> acc < 2 ^ s ->
            uvarint_go (x :: r) i acc s = (acc + x * 2 ^ s, Z.of_nat (i + 1))).
  { intros x r i acc s Hx Hi Ha. cbn [uvarint_go].
    replace (Nat.eqb i 10) with false by (symmetry; apply Nat.eqb_neq; lia).
    replace (x <? 128) with true by (symmetry; apply N.ltb_lt; exact Hx).
    replace (Nat.eqb i 9) with false by (symmetry; apply Nat.eqb_neq; lia).
    cbn [andb]. rewrite lor_shiftl_add by exact Ha. f_equal. lia. }
  induction fuel as [|f IH]; intros x r i acc s Hx Hi Ha; cbn [put_uvarint_f] in *.
  - cbn [app List.length] in *. apply Last; try assumption.
  - destruct (x <? 128) eqn:E.
    + apply N.ltb_lt in E. cbn [app List.length] in *. apply Last; assumption.
    + apply N.ltb_ge in E. cbn [app List.length] in *.
      cbn [uvarint_go].
      replace (Nat.eqb i 10) with false by (symmetry; apply Nat.eqb_neq; lia).
      rewrite cont_byte.
      replace (x mod 128 + 128 <? 128) with false by (symmetry; apply N.ltb_ge; lia).
      rewrite land_127. rewrite shiftr_7 in *.
      replace ((x mod 128 + 128) mod 128) with (x mod 128) by lia.
      assert (P : 2 ^ (s + 7) = 2 ^ s * 128) by (rewrite N.pow_add_r; reflexivity).
      assert (Hm : x mod 128 < 128) by (apply N.mod_lt; lia).
      rewrite lor_shiftl_add by exact Ha.
      rewrite IH.
      * f_equal; [|lia]. rewrite P.
        assert (D : x = 128 * (x / 128) + x mod 128) by (apply N.div_mod; lia).
        set (q := x / 128) in *. set (m := x mod 128) in *. nia.
      * replace (7 * N.of_nat (S f) + 7) with (7 + (7 * N.of_nat f + 7)) in Hx by lia.
        rewrite N.pow_add_r in Hx. change (2 ^ 7) with 128 in Hx.
        apply N.div_lt_upper_bound; lia.
      * lia.
      * rewrite P. nia.
Qed.

Lemma uvarint_put x r :
  x < 2 ^ 64 -> (List.length (put_uvarint x) <= 9)%nat ->
  uvarint (put_uvarint x ++ r) = (x, Z.of_nat (List.length (put_uvarint x))).
Proof.
  intros Hx Hl. unfold uvarint, put_uvarint.
  rewrite uvarint_go_put.
  - f_equal. cbn. lia.
  - eapply N.lt_le_trans; [exact Hx|]. apply N.pow_le_mono_r; cbn; lia.
  - exact Hl.
  - cbn. lia.
Qed.

(* ---- Get on the output of EncodeAggrChunk ---- *)

Lemma get_loop_eq k b :
  get_loop k b =
  let '(l, n) := uvarint b in
  if (n <? 1)%Z then GErr else
  let b := skipn (Z.to_nat n) b in
  if l =? 0 then
    match k with O => GNotExist | S k' => get_loop k' b end
  else
    let m := int_l_plus_1 l in
    if (Z.of_nat (List.length b) <? m)%Z then GErr
    else if (m <? 0)%Z then GPanic
    else
      let x := firstn (Z.to_nat m) b in
      let b := skipn (Z.to_nat m) b in
      match k with O => from_data x | S k' => get_loop k' b end.
Proof. destruct k; reflexivity. Qed.

Lemma skipn_app_exact {A} (u r : list A) n : n = List.length u -> skipn n (u ++ r) = r.
Proof.
  intros ->. rewrite skipn_app. rewrite skipn_all. rewrite Nat.sub_diag. reflexivity.
Qed.

Lemma firstn_app_exact {A} (u r : list A) n : n = List.length u -> firstn n (u ++ r) = u.
Proof.
  intros ->. rewrite firstn_app. rewrite firstn_all. rewrite Nat.sub_diag. cbn. apply app_nil_r.
Qed.

Lemma sub_wf_some e d :
  sub_wf (Some (e, d)) = true ->
  (0 < List.length d)%nat /\ existsb (N.eqb e) valid_encodings = true /\ N.of_nat (List.length d) < 2 ^ 56.
Proof.
  unfold sub_wf. intros H.
  apply andb_true_iff in H as [H H3]. apply andb_true_iff in H as [H1 H2].
  apply negb_true_iff in H1. apply Nat.eqb_neq in H1. apply N.ltb_lt in H3.
  repeat split; [lia|assumption|assumption].
Qed.

Lemma int_l_plus_1_small l : l < 2 ^ 56 -> int_l_plus_1 l = (Z.of_N l + 1)%Z.
Proof.
  intros H. unfold int_l_plus_1, to_int64.
  assert (l < 2 ^ 63) by (eapply N.lt_trans; [exact H|reflexivity]).
  replace (l <? 2 ^ 63) with true by (symmetry; apply N.ltb_lt; assumption).
  assert (Z.of_N l < 2 ^ 63)%Z by (change (2 ^ 63)%Z with (Z.of_N (2 ^ 63)); lia).
  replace (Z.of_N l + 1 <? 2 ^ 63)%Z with true by (symmetry; apply Z.ltb_lt; lia).
  reflexivity.
Qed.

Lemma get_encode : forall chks bytes k s,
  forallb sub_wf chks = true ->
  encode chks = Some bytes ->
  nth_error chks k = Some s ->
  get k bytes = expected s.
Proof.
  unfold get.
  induction chks as [|c chks IH]; intros bytes k s Hwf Henc Hnth.
  - destruct k; discriminate.
  - cbn [forallb] in Hwf. apply andb_true_iff in Hwf as [Hc Hwf].
    cbn [encode] in Henc. destruct c as [[e d]|].
    + (* present *)
      destruct (Nat.ltb uvarint_buf_len (List.length (put_uvarint (N.of_nat (List.length d))))) eqn:Hlen;
        [discriminate|].
      apply Nat.ltb_ge in Hlen. unfold uvarint_buf_len in Hlen.
      destruct (encode chks) as [tl|] eqn:Etl; [|discriminate].
      injection Henc as <-.
      apply sub_wf_some in Hc as (Hd & Hv & Hl).
      rewrite get_loop_eq.
      rewrite uvarint_put; [|eapply N.lt_trans; [exact Hl|reflexivity]|lia].
      set (u := put_uvarint (N.of_nat (List.length d))) in *.
      assert (Hu : (1 <= List.length u)%nat) by apply put_f_nonempty.
      replace (Z.of_nat (List.length u) <? 1)%Z with false by (symmetry; apply Z.ltb_ge; lia).
      rewrite Nat2Z.id. cbv zeta.
      rewrite skipn_app_exact by reflexivity.
      replace (N.of_nat (List.length d) =? 0) with false by (symmetry; apply N.eqb_neq; lia).
      rewrite int_l_plus_1_small by exact Hl.
      replace (Z.of_N (N.of_nat (List.length d)) + 1)%Z with (Z.of_nat (S (List.length d))) by lia.
      rewrite Nat2Z.id.
      replace (Z.of_nat (List.length (e :: d ++ tl)) <? Z.of_nat (S (List.length d)))%Z with false
        by (symmetry; apply Z.ltb_ge; cbn [List.length]; rewrite app_length; lia).
      replace (Z.of_nat (S (List.length d)) <? 0)%Z with false by (symmetry; apply Z.ltb_ge; lia).
      change (e :: d ++ tl) with ((e :: d) ++ tl).
      rewrite firstn_app_exact by reflexivity.
      rewrite skipn_app_exact by reflexivity.
      destruct k as [|k'].
      * cbn in Hnth. injection Hnth as <-. cbn [from_data expected]. rewrite Hv. reflexivity.
      * cbn in Hnth. eapply IH; eauto.
    + (* absent *)
      destruct (encode chks) as [tl|] eqn:Etl; [|discriminate].
      injection Henc as <-.
      change (put_uvarint 0 ++ tl) with (0 :: tl).
      rewrite get_loop_eq.
      change (uvarint (0 :: tl)) with (0, 1%Z).
      cbv iota zeta. change (1 <? 1)%Z with false. cbv iota.
      change (skipn (Z.to_nat 1) (0 :: tl)) with tl.
      change (0 =? 0) with true. cbv iota.
      destruct k as [|k'].
      * cbn in Hnth. injection Hnth as <-. reflexivity.
      * cbn in Hnth. eapply IH; eauto.
Qed.

Lemma encode_total : forall chks,
  forallb sub_wf chks = true -> exists bytes, encode chks = Some bytes.
Proof.
  induction chks as [|c chks IH]; intros Hwf; [eexists; reflexivity|].
  cbn [forallb] in Hwf. apply andb_true_iff in Hwf as [Hc Hwf].
  destruct (IH Hwf) as [tl Etl].
  cbn [encode]. rewrite Etl. destruct c as [[e d]|]; [|eexists; reflexivity].
  apply sub_wf_some in Hc as (_ & _ & Hl).
  pose proof (put_uvarint_len8 _ Hl) as H8.
  replace (Nat.ltb uvarint_buf_len (List.length (put_uvarint (N.of_nat (List.length d))))) with false
    by (symmetry; apply Nat.ltb_ge; unfold uvarint_buf_len; exact H8).
  eexists; reflexivity.
Qed.

Lemma roundtrip : forall chks,
  forallb sub_wf chks = true ->
  exists bytes, encode chks = Some bytes /\
    forall t s, nth_error chks t = Some s -> get t bytes = expected s.
Proof.
  intros chks Hwf. destruct (encode_total chks Hwf) as [bytes E].
  exists bytes. split; [exact E|]. intros t s Hn. eapply get_encode; eauto.
Qed.

Lemma get_present : forall chks t e d,
  forallb sub_wf chks = true -> nth_error chks t = Some (Some (e, d)) ->
  exists bytes, encode chks = Some bytes /\ get t bytes = GOk e d.
Proof.
  intros chks t e d Hwf Hn. destruct (roundtrip chks Hwf) as (bytes & E & G).
  exists bytes. split; [exact E|]. apply (G t _ Hn).
Qed.

Lemma get_absent : forall chks t,
  forallb sub_wf chks = true -> nth_error chks t = Some None ->
  exists bytes, encode chks = Some bytes /\ get t bytes = GNotExist.
Proof.
  intros chks t Hwf Hn. destruct (roundtrip chks Hwf) as (bytes & E & G).
  exists bytes. split; [exact E|]. apply (G t _ Hn).
Qed.

Lemma get_res_eqb_refl r : get_res_eqb r r = true.
Proof.
  destruct r; cbn; try reflexivity. rewrite N.eqb_refl. cbn.
  unfold bytes_eqb. apply (list_eqb_spec N.eqb); [intros; apply N.eqb_eq|reflexivity].
Qed.

(* the five-slot array of the Go code, through the boolean predicate of the check *)
Lemma roundtrip_pred : forall chks,
  List.length chks = 5%nat -> forallb sub_wf chks = true ->
  exists bytes, encode chks = Some bytes /\
    pred_ok (CEnc chks bytes (map (fun t => get t bytes) (seq 0 6))) = true.
Proof.
  intros chks H5 Hwf. destruct (roundtrip chks Hwf) as (bytes & E & G).
  exists bytes. split; [exact E|].
  unfold pred_ok. rewrite Hwf. rewrite H5.
  destruct chks as [|c0 [|c1 [|c2 [|c3 [|c4 [|? ?]]]]]]; try discriminate.
  cbn [seq map firstn].
  rewrite (G 0%nat c0 eq_refl), (G 1%nat c1 eq_refl), (G 2%nat c2 eq_refl),
          (G 3%nat c3 eq_refl), (G 4%nat c4 eq_refl).
  cbn [list_eqb]. rewrite !get_res_eqb_refl. reflexivity.
Qed.

(* ---- the code as found ---- *)

(* with the size test first, Get of an absent LAST aggregate fails on the size
   test (`len(b[n:]) < int(0)+1` on an empty tail) instead of ErrAggrNotExist *)
Lemma presize_refuted :
  exists chks bytes,
    forallb sub_wf chks = true /\ encode chks = Some bytes /\
    nth_error chks AggrCounter = Some None /\ get_presize AggrCounter bytes = GErr.
Proof.
  exists [Some (1, [0; 0]); None; None; None; None], [2; 1; 0; 0; 0; 0; 0; 0].
  vm_compute. repeat split; reflexivity.
Qed.

(* tie T: in the current source of Get the `l == 0` test precedes the size test *)
Lemma source_order : get_order_ok = true.
Proof. vm_compute. reflexivity. Qed.

(* ---- the code as found agrees with the repaired code except on an absent LAST slot ---- *)

Lemma get_presize_loop_eq k b :
  get_presize_loop k b =
  let '(l, n) := uvarint b in
  let m := int_l_plus_1 l in
  if (n <? 1)%Z || (Z.of_nat (List.length (skipn (Z.to_nat n) b)) <? m)%Z then GErr else
  let b := skipn (Z.to_nat n) b in
  if l =? 0 then
    match k with O => GNotExist | S k' => get_presize_loop k' b end
  else
    if (m <? 0)%Z then GPanic
    else
      let x := firstn (Z.to_nat m) b in
      let b := skipn (Z.to_nat m) b in
      match k with O => from_data x | S k' => get_presize_loop k' b end.
Proof. destruct k; reflexivity. Qed.

Lemma encode_cons_nonempty c r bytes : encode (c :: r) = Some bytes -> bytes <> [].
Proof.
  cbn [encode]. destruct c as [[e d]|].
  - destruct (Nat.ltb _ _); [discriminate|]. destruct (encode r); [|discriminate].
    intros H. injection H as <-. pose proof (put_f_nonempty 10 (N.of_nat (List.length d))) as P.
    unfold put_uvarint. destruct (put_uvarint_f 10 (N.of_nat (List.length d))); [cbn in P; lia|discriminate].
  - destruct (encode r); [|discriminate]. intros H. injection H as <-. discriminate.
Qed.

Lemma get_presize_encode : forall chks bytes k s,
  forallb sub_wf chks = true ->
  encode chks = Some bytes ->
  nth_error chks k = Some s ->
  (s <> None \/ (S k < List.length chks)%nat) ->
  get_presize k bytes = expected s.
Proof.
  unfold get_presize.
  induction chks as [|c chks IH]; intros bytes k s Hwf Henc Hnth Hcond.
  - destruct k; discriminate.
  - cbn [forallb] in Hwf. apply andb_true_iff in Hwf as [Hc Hwf].
    pose proof Henc as Henc0. cbn [encode] in Henc. destruct c as [[e d]|].
    + destruct (Nat.ltb uvarint_buf_len (List.length (put_uvarint (N.of_nat (List.length d))))) eqn:Hlen;
        [discriminate|].
      apply Nat.ltb_ge in Hlen. unfold uvarint_buf_len in Hlen.
      destruct (encode chks) as [tl|] eqn:Etl; [|discriminate].
      injection Henc as <-.
      apply sub_wf_some in Hc as (Hd & Hv & Hl).
      rewrite get_presize_loop_eq.
      rewrite uvarint_put; [|eapply N.lt_trans; [exact Hl|reflexivity]|lia].
      set (u := put_uvarint (N.of_nat (List.length d))) in *.
      assert (Hu : (1 <= List.length u)%nat) by apply put_f_nonempty.
      replace (Z.of_nat (List.length u) <? 1)%Z with false by (symmetry; apply Z.ltb_ge; lia).
      rewrite Nat2Z.id. cbv zeta.
      rewrite skipn_app_exact by reflexivity.
      rewrite int_l_plus_1_small by exact Hl.
      replace (Z.of_N (N.of_nat (List.length d)) + 1)%Z with (Z.of_nat (S (List.length d))) by lia.
      replace (Z.of_nat (List.length (e :: d ++ tl)) <? Z.of_nat (S (List.length d)))%Z with false
        by (symmetry; apply Z.ltb_ge; cbn [List.length]; rewrite app_length; lia).
      cbn [orb].
      replace (N.of_nat (List.length d) =? 0) with false by (symmetry; apply N.eqb_neq; lia).
      rewrite Nat2Z.id.
      replace (Z.of_nat (S (List.length d)) <? 0)%Z with false by (symmetry; apply Z.ltb_ge; lia).
      change (e :: d ++ tl) with ((e :: d) ++ tl).
      rewrite firstn_app_exact by reflexivity.
      rewrite skipn_app_exact by reflexivity.
      destruct k as [|k'].
      * cbn in Hnth. injection Hnth as <-. cbn [from_data expected]. rewrite Hv. reflexivity.
      * cbn in Hnth. eapply IH; eauto. destruct Hcond as [H|H]; [left; exact H|right; cbn [List.length] in H; lia].
    + destruct (encode chks) as [tl|] eqn:Etl; [|discriminate].
      injection Henc as <-.
      change (put_uvarint 0 ++ tl) with (0 :: tl).
      rewrite get_presize_loop_eq.
      change (uvarint (0 :: tl)) with (0, 1%Z).
      cbv iota zeta. change (1 <? 1)%Z with false.
      change (skipn (Z.to_nat 1) (0 :: tl)) with tl.
      change (int_l_plus_1 0) with 1%Z.
      (* the size test passes iff something follows *)
      assert (Htl : tl <> []).
      { destruct chks as [|c' chks'].
        - exfalso. destruct k as [|k']; cbn in Hnth.
          + injection Hnth as <-. destruct Hcond as [H|H]; [congruence|cbn in H; lia].
          + destruct k'; discriminate.
        - eapply encode_cons_nonempty. exact Etl. }
      replace (Z.of_nat (List.length tl) <? 1)%Z with false
        by (symmetry; apply Z.ltb_ge; destruct tl; [congruence|cbn [List.length]; lia]).
      cbn [orb]. change (0 =? 0) with true. cbv iota.
      destruct k as [|k'].
      * cbn in Hnth. injection Hnth as <-. reflexivity.
      * cbn in Hnth. eapply IH; eauto. destruct Hcond as [H|H]; [left; exact H|right; cbn [List.length] in H; lia].
Qed.
