(* C12 — lemmas for the postings codecs. *)
From Coq Require Import String.
From Coq Require Import ZArith NArith List Bool Lia.
Import ListNotations.
From Verif Require Import Lib.Corr Gen.C12 Model.C12.
Open Scope N_scope.
Ltac Zify.zify_post_hook ::= Z.to_euclidean_division_equations.

(* ---- varints ------------------------------------------------------------ *)

Lemma put_fuel_cons f x : exists b t, put_uvarint_fuel f x = b :: t.
Proof. destruct f; cbn [put_uvarint_fuel]; [eauto|]. destruct (x <? 128); eauto. Qed.

Lemma put_cons x : exists b t, put_uvarint x = b :: t.
Proof. apply put_fuel_cons. Qed.

Lemma uvarint_put_gen : forall f i v x s tail,
  (i + f = 9)%nat -> s = 7 * N.of_nat i -> v * 2 ^ s < two64 -> x < 2 ^ s ->
  uvarint_go i x s (put_uvarint_fuel f v ++ tail) = Some (x + v * 2 ^ s, tail).
Proof.
  induction f as [|f IH]; intros i v x s tail Hi Hs Hv Hx.
  - assert (i = 9%nat) by lia. subst i. subst s.
    change (7 * N.of_nat 9) with 63 in *. change (2 ^ 63) with 9223372036854775808 in *.
    unfold two64 in Hv.
    cbn [put_uvarint_fuel app uvarint_go Nat.eqb].
    assert (Hlt : v <? 128 = true) by (apply N.ltb_lt; lia). rewrite Hlt.
    assert (H1 : 1 <? v = false) by (apply N.ltb_ge; lia). rewrite H1. reflexivity.
  - cbn [put_uvarint_fuel].
    destruct (v <? 128) eqn:E.
    + cbn [app uvarint_go].
      destruct (Nat.eqb_spec i 10) as [->|_]; [lia|].
      rewrite E.
      destruct (Nat.eqb_spec i 9) as [->|_]; [lia|]. reflexivity.
    + apply N.ltb_ge in E.
      cbn [app uvarint_go].
      destruct (Nat.eqb_spec i 10) as [->|_]; [lia|].
      assert (Hb : v mod 128 + 128 <? 128 = false) by (apply N.ltb_ge; lia). rewrite Hb.
      assert (Hm : (v mod 128 + 128) mod 128 = v mod 128).
      { pose proof (N.mod_lt v 128). lia. }
      rewrite Hm.
      assert (Hp : 2 ^ (s + 7) = 2 ^ s * 128) by (rewrite N.pow_add_r; reflexivity).
      assert (Hpos : 0 < 2 ^ s) by (apply N.neq_0_lt_0, N.pow_nonzero; lia).
      (* i <= 8 because v >= 128 and v * 2^s < 2^64 *)
      assert (Hi8 : (i <= 8)%nat).
      { destruct (Nat.le_gt_cases i 8) as [|Hgt]; [assumption|].
        assert (i = 9%nat) by lia. subst i s.
        change (7 * N.of_nat 9) with 63 in *. change (2 ^ 63) with 9223372036854775808 in *.
        unfold two64 in Hv. lia. }
      rewrite (IH (S i) (v / 128) (x + v mod 128 * 2 ^ s) (s + 7) tail).
      * f_equal. f_equal. rewrite Hp.
        pose proof (N.div_mod v 128 ltac:(lia)) as Hdm.
        set (q := v / 128) in *. set (m := v mod 128) in *. set (P := 2 ^ s) in *.
        clearbody q m P. rewrite Hdm. ring.
      * lia.
      * subst s. lia.
      * rewrite Hp. set (P := 2 ^ s) in *.
        assert (v / 128 * 128 <= v) by (pose proof (N.div_mod v 128 ltac:(lia)); lia).
        nia.
      * rewrite Hp. set (P := 2 ^ s) in *.
        assert (v mod 128 < 128) by (apply N.mod_lt; lia).
        nia.
Qed.

Lemma uvarint_put v tail : v < two64 -> uvarint (put_uvarint v ++ tail) = Some (v, tail).
Proof.
  intro H. unfold uvarint, put_uvarint.
  rewrite (uvarint_put_gen 9 0 v 0 0 tail); try reflexivity.
  - f_equal. f_equal. change (2 ^ 0) with 1. lia.
  - change (2 ^ 0) with 1. lia.
Qed.

(* a successful decode only looks at a prefix *)
Lemma uvarint_go_app : forall bs i x s v r ext,
  uvarint_go i x s bs = Some (v, r) -> uvarint_go i x s (bs ++ ext) = Some (v, r ++ ext).
Proof.
  induction bs as [|b bs IH]; intros i x s v r ext H; cbn [uvarint_go app] in *; [discriminate|].
  destruct (Nat.eqb i 10); [discriminate|].
  destruct (b <? 128).
  - destruct (Nat.eqb i 9 && (1 <? b)); [discriminate|]. inversion H; subst. reflexivity.
  - apply IH. exact H.
Qed.

Lemma uvarint_app bs v r ext : uvarint bs = Some (v, r) -> uvarint (bs ++ ext) = Some (v, r ++ ext).
Proof. apply uvarint_go_app. Qed.

(* ---- encoder ------------------------------------------------------------- *)

Lemma encode_total : forall l prev, sorted_from prev l = true -> exists bs, encode_from prev l = Some bs.
Proof.
  induction l as [|v r IH]; intros prev H; cbn [encode_from sorted_from] in *; [eauto|].
  apply andb_true_iff in H as [H1 H2]. apply N.leb_le in H1.
  assert (E : v <? prev = false) by (apply N.ltb_ge; lia). rewrite E.
  destruct (IH v H2) as [bs ->]. eauto.
Qed.

Lemma encode_unsorted : forall l prev, sorted_from prev l = false -> encode_from prev l = None.
Proof.
  induction l as [|v r IH]; intros prev H; cbn [encode_from sorted_from] in *; [discriminate|].
  destruct (v <? prev) eqn:E; [reflexivity|].
  apply N.ltb_ge in E. assert (L : prev <=? v = true) by (apply N.leb_le; lia).
  rewrite L in H. cbn in H. rewrite (IH v H). reflexivity.
Qed.

Lemma encode_length : forall l prev bs, encode_from prev l = Some bs -> (length l <= length bs)%nat.
Proof.
  induction l as [|v r IH]; intros prev bs H; cbn [encode_from] in H.
  - cbn. lia.
  - destruct (v <? prev); [discriminate|].
    destruct (encode_from v r) as [bs'|] eqn:E; [|discriminate]. inversion H; subst.
    destruct (put_cons (v - prev)) as (b & t & ->). cbn [app length].
    rewrite app_length. specialize (IH _ _ E). lia.
Qed.

(* ---- generic simulation by ListPostings ---------------------------------- *)

Definition lp_stepf (o : op) (a : lp) : bool * lp :=
  match o with ONext => lp_next a | OSeek x => lp_seek x a end.

Lemma lp_step_stepf o a : lp_step o a = Some (lp_stepf o a).
Proof. destruct o; reflexivity. Qed.

Section Sim.
  Variable S : Type.
  Variable next : S -> bool * S.
  Variable cur : S -> N.
  Variable R : S -> lp -> Prop.
  Variable Q : S -> Prop.
  Hypothesis R_cur : forall st a, R st a -> cur st = lp_cur a.
  Hypothesis next_cons : forall st c v r, R st (mkLp c (v :: r)) ->
    exists st', next st = (true, st') /\ R st' (mkLp v r).
  Hypothesis next_nil : forall st c, R st (mkLp c []) ->
    exists st', next st = (false, st') /\ Q st'.
  (* R does not depend on the current value of the reference once the list is fixed
     only through [cur]: Seek(x) with x <= cur leaves both sides unchanged *)

  Lemma next_sim st a : R st a ->
    exists b st', next st = (b, st') /\ b = fst (lp_next a) /\ (b = true -> R st' (snd (lp_next a))).
  Proof.
    destruct a as [c [|v r]]; intro H; unfold lp_next; cbn [lp_list].
    - destruct (next_nil _ _ H) as (st' & E & _). exists false, st'. repeat split; auto. discriminate.
    - destruct (next_cons _ _ _ _ H) as (st' & E & HR). exists true, st'. repeat split; auto.
  Qed.

  Lemma seek_loop_sim : forall l fuel st c x, R st (mkLp c l) -> (length l < fuel)%nat ->
    exists b st', seek_loop next cur fuel x st = Some (b, st') /\
      match drop_lt x l with
      | [] => b = false
      | v :: r => b = true /\ R st' (mkLp v r)
      end.
  Proof.
    induction l as [|v r IH]; intros fuel st c x HR Hf; (destruct fuel as [|f]; [cbn in Hf; lia|]); cbn [seek_loop drop_lt].
    - destruct (next_nil _ _ HR) as (st' & -> & _). eauto.
    - destruct (next_cons _ _ _ _ HR) as (st' & -> & HR').
      rewrite (R_cur _ _ HR'). cbn [lp_cur].
      destruct (v <? x) eqn:E.
      + assert (E' : x <=? v = false) by (apply N.leb_gt; apply N.ltb_lt in E; lia). rewrite E'.
        apply (IH f st' v x HR'). cbn in Hf. lia.
      + assert (E' : x <=? v = true) by (apply N.leb_le; apply N.ltb_ge in E; lia). rewrite E'.
        eauto.
  Qed.

  Lemma seek_sim st a x fuel : R st a -> (length (lp_list a) < fuel)%nat ->
    exists b st', seek_gen next cur fuel x st = Some (b, st') /\ b = fst (lp_seek x a) /\
      (b = true -> R st' (snd (lp_seek x a))).
  Proof.
    intros HR Hf. unfold seek_gen, lp_seek. rewrite (R_cur _ _ HR).
    destruct (x <=? lp_cur a) eqn:E.
    - exists true, st. auto.
    - destruct a as [c l]. cbn [lp_cur lp_list] in *.
      destruct (seek_loop_sim l fuel st c x HR Hf) as (b & st' & -> & Hm).
      exists b, st'. split; [reflexivity|].
      destruct l as [|v0 r0].
      + cbn [drop_lt] in Hm. subst b. split; [reflexivity|discriminate].
      + destruct (drop_lt x (v0 :: r0)) as [|v r].
        * subst b. split; [reflexivity|discriminate].
        * destruct Hm as [-> HR']. split; [reflexivity|]. intros _. exact HR'.
  Qed.

  Lemma read_all_sim : forall l fuel st c, R st (mkLp c l) -> (length l < fuel)%nat ->
    exists fin, read_all next cur fuel st = Some (l, fin) /\ Q fin.
  Proof.
    induction l as [|v r IH]; intros fuel st c HR Hf; (destruct fuel as [|f]; [cbn in Hf; lia|]); cbn [read_all].
    - destruct (next_nil _ _ HR) as (st' & -> & HQ). eauto.
    - destruct (next_cons _ _ _ _ HR) as (st' & -> & HR').
      destruct (IH f st' v HR') as (fin & -> & HQ); [cbn in Hf; lia|].
      rewrite (R_cur _ _ HR'). cbn [lp_cur]. eauto.
  Qed.

  Variable step : op -> S -> option (bool * S).
  Hypothesis step_sim : forall o st a, R st a ->
    exists b st', step o st = Some (b, st') /\ b = fst (lp_stepf o a) /\ (b = true -> R st' (snd (lp_stepf o a))).

  Lemma run_sim : forall prog st a, R st a ->
    exists t tl, run step cur prog st = Some t /\ run lp_step lp_cur prog a = Some tl /\ visible t = visible tl.
  Proof.
    induction prog as [|o p IH]; intros st a HR; cbn [run].
    - exists [], []. auto.
    - destruct (step_sim o st a HR) as (b & st' & -> & Hb & HR').
      rewrite lp_step_stepf. destruct (lp_stepf o a) as [b' a'] eqn:E. cbn [fst snd] in *. subst b'.
      destruct b.
      + destruct (IH st' a' (HR' eq_refl)) as (t & tl & -> & -> & Hv).
        exists ((true, cur st') :: t), ((true, lp_cur a') :: tl). repeat split.
        cbn [visible map fst]. f_equal; [|exact Hv].
        rewrite (R_cur _ _ (HR' eq_refl)). reflexivity.
      + exists [(false, cur st')], [(false, lp_cur a')]. repeat split.
  Qed.
End Sim.

(* ---- diffVarintPostings refines ListPostings ------------------------------ *)

Definition bounded (l : list N) : Prop := Forall (fun v => v < two64) l.

Definition R_dv (st : dv) (a : lp) : Prop :=
  dv_cur st = lp_cur a /\ dv_err st = false /\
  encode_from (lp_cur a) (lp_list a) = Some (dv_buf st) /\ bounded (lp_list a).

Lemma encode_cons_inv prev v r bs : encode_from prev (v :: r) = Some bs ->
  prev <= v /\ exists bs', encode_from v r = Some bs' /\ bs = put_uvarint (v - prev) ++ bs'.
Proof.
  cbn [encode_from]. destruct (v <? prev) eqn:E; [discriminate|]. apply N.ltb_ge in E.
  destruct (encode_from v r) as [bs'|]; [|discriminate]. intro H; inversion H; subst. eauto.
Qed.

Lemma dv_next_cons st c v r : R_dv st (mkLp c (v :: r)) ->
  exists st', dv_next st = (true, st') /\ R_dv st' (mkLp v r).
Proof.
  intros (Hc & He & Henc & Hb). cbn [lp_cur lp_list] in *.
  apply encode_cons_inv in Henc as (Hle & bs' & Henc' & Hbuf).
  pose proof (Forall_inv Hb) as Hv. pose proof (Forall_inv_tail Hb) as Hb'. cbn beta in Hv.
  unfold dv_next. rewrite He, Hbuf. cbn [orb].
  assert (Hnn : is_nil (put_uvarint (v - c) ++ bs') = false).
  { destruct (put_cons (v - c)) as (b0 & t0 & ->). reflexivity. }
  rewrite Hnn, uvarint_put by lia.
  eexists; split; [reflexivity|].
  repeat split; cbn [dv_cur dv_err dv_buf lp_cur lp_list]; auto.
  rewrite Hc. replace (c + (v - c)) with v by lia. apply N.mod_small. exact Hv.
Qed.

Lemma dv_next_nil st c : R_dv st (mkLp c []) ->
  exists st', dv_next st = (false, st') /\ dv_err st' = false.
Proof.
  intros (Hc & He & Henc & Hb). cbn [lp_cur lp_list encode_from] in *. inversion Henc as [Hbuf].
  unfold dv_next. rewrite <- Hbuf. cbn [is_nil]. rewrite orb_true_r. eauto.
Qed.

Lemma R_dv_cur st a : R_dv st a -> dv_cur st = lp_cur a.
Proof. intros (H & _). exact H. Qed.

Lemma R_dv_len st a : R_dv st a -> (length (lp_list a) < S (length (dv_buf st)))%nat.
Proof. intros (_ & _ & H & _). apply encode_length in H. lia. Qed.

Lemma dv_step_sim o st a : R_dv st a ->
  exists b st', dv_step o st = Some (b, st') /\ b = fst (lp_stepf o a) /\ (b = true -> R_dv st' (snd (lp_stepf o a))).
Proof.
  intro HR. destruct o as [|x]; cbn [dv_step lp_stepf].
  - destruct (next_sim dv dv_next R_dv (fun st => dv_err st = false) dv_next_cons dv_next_nil st a HR) as (b & st' & -> & H). eauto.
  - unfold dv_seek.
    apply (seek_sim dv dv_next dv_cur R_dv (fun st => dv_err st = false) R_dv_cur dv_next_cons dv_next_nil st a x _ HR).
    apply R_dv_len. exact HR.
Qed.

Lemma valid_spec l : valid l = true -> sorted_from 0 l = true /\ bounded l.
Proof.
  unfold valid. intro H. apply andb_true_iff in H as [H1 H2]. split; [exact H1|].
  apply Forall_forall. intros v Hv. rewrite forallb_forall in H2. apply N.ltb_lt. auto.
Qed.

Lemma R_dv_init l bs : bounded l -> diff_varint_encode l = Some bs -> R_dv (dv_init bs) (lp_init l).
Proof. intros Hb He. repeat split; auto. Qed.

Lemma dv_decode_ok l bs : bounded l -> diff_varint_encode l = Some bs -> dv_decode bs = Some (l, false).
Proof.
  intros Hb He. unfold dv_decode.
  destruct (read_all_sim dv dv_next dv_cur R_dv (fun st => dv_err st = false) R_dv_cur dv_next_cons dv_next_nil
              l (S (length bs)) (dv_init bs) 0 (R_dv_init l bs Hb He)) as (fin & -> & ->).
  - apply encode_length in He. lia.
  - reflexivity.
Qed.

(* ---- streamedDiffVarintPostings refines ListPostings ----------------------- *)

Definition R_sd (st : sd) (a : lp) : Prop :=
  sd_cur st = lp_cur a /\ sd_E st = false /\
  encode_from (lp_cur a) (lp_list a) = Some (sd_B st ++ concat (sd_chunks st)) /\ bounded (lp_list a).

Lemma sd_next_go_put : forall chunks B cur d tail,
  d < two64 -> B ++ concat chunks = put_uvarint d ++ tail ->
  exists B' chunks', sd_next_go cur B false chunks = (true, mkSd ((cur + d) mod two64) B' false chunks')
    /\ B' ++ concat chunks' = tail.
Proof.
  induction chunks as [|c cs IH]; intros B cur d tail Hd H.
  - cbn [concat] in H. rewrite app_nil_r in H. subst B.
    cbn [sd_next_go]. rewrite uvarint_put by exact Hd.
    exists tail, []. split; [reflexivity|]. cbn. apply app_nil_r.
  - cbn [sd_next_go]. destruct (uvarint B) as [[v' r']|] eqn:E.
    + pose proof (uvarint_app _ _ _ (concat (c :: cs)) E) as E2.
      rewrite H, uvarint_put in E2 by exact Hd. inversion E2; subst.
      exists r', (c :: cs). split; reflexivity.
    + apply IH; [exact Hd|]. rewrite <- app_assoc. exact H.
Qed.

Lemma sd_next_go_nil : forall chunks cur, concat chunks = [] ->
  sd_next_go cur [] false chunks = (false, mkSd cur [] true []).
Proof.
  induction chunks as [|c cs IH]; intros cur H; cbn [sd_next_go]; change (uvarint []) with (@None (N * list N)); [reflexivity|].
  cbn [concat] in H. apply app_eq_nil in H as [-> H]. cbn [app]. apply IH. exact H.
Qed.

Lemma sd_next_cons st c v r : R_sd st (mkLp c (v :: r)) ->
  exists st', sd_next st = (true, st') /\ R_sd st' (mkLp v r).
Proof.
  intros (Hc & He & Henc & Hb). cbn [lp_cur lp_list] in *.
  apply encode_cons_inv in Henc as (Hle & bs' & Henc' & Hbuf).
  pose proof (Forall_inv Hb) as Hv. pose proof (Forall_inv_tail Hb) as Hb'. cbn beta in Hv.
  unfold sd_next. rewrite He.
  destruct (sd_next_go_put (sd_chunks st) (sd_B st) (sd_cur st) (v - c) bs' ltac:(lia) Hbuf) as (B' & ch' & -> & Ht).
  eexists; split; [reflexivity|].
  repeat split; cbn [sd_cur sd_E sd_B sd_chunks lp_cur lp_list]; auto.
  - rewrite Hc. replace (c + (v - c)) with v by lia. apply N.mod_small. exact Hv.
  - rewrite Ht. exact Henc'.
Qed.

Lemma sd_next_nil st c : R_sd st (mkLp c []) ->
  exists st', sd_next st = (false, st') /\ True.
Proof.
  intros (Hc & He & Henc & Hb). cbn [lp_cur lp_list encode_from] in *. inversion Henc as [Hbuf].
  symmetry in Hbuf. apply app_eq_nil in Hbuf as [HB Hch].
  unfold sd_next. rewrite He, HB, (sd_next_go_nil _ _ Hch). eauto.
Qed.

Lemma R_sd_cur st a : R_sd st a -> sd_cur st = lp_cur a.
Proof. intros (H & _). exact H. Qed.

Lemma R_sd_len st a : R_sd st a -> (length (lp_list a) < S (sd_bytes st))%nat.
Proof. intros (_ & _ & H & _). apply encode_length in H. unfold sd_bytes. lia. Qed.

Lemma sd_step_sim o st a : R_sd st a ->
  exists b st', sd_step o st = Some (b, st') /\ b = fst (lp_stepf o a) /\ (b = true -> R_sd st' (snd (lp_stepf o a))).
Proof.
  intro HR. destruct o as [|x]; cbn [sd_step lp_stepf].
  - destruct (next_sim sd sd_next R_sd (fun _ => True) sd_next_cons sd_next_nil st a HR) as (b & st' & -> & H). eauto.
  - unfold sd_seek.
    apply (seek_sim sd sd_next sd_cur R_sd (fun _ => True) R_sd_cur sd_next_cons sd_next_nil st a x _ HR).
    apply R_sd_len. exact HR.
Qed.

Lemma R_sd_init l bs chunks : bounded l -> diff_varint_encode l = Some bs -> concat chunks = bs ->
  R_sd (sd_init chunks) (lp_init l).
Proof. intros Hb He Hc. repeat split; auto. cbn. rewrite Hc. exact He. Qed.

Lemma sd_decode_ok l bs chunks : bounded l -> diff_varint_encode l = Some bs -> concat chunks = bs ->
  sd_decode chunks = Some (l, false).
Proof.
  intros Hb He Hc. unfold sd_decode.
  destruct (read_all_sim sd sd_next sd_cur R_sd (fun _ => True) R_sd_cur sd_next_cons sd_next_nil
              l (S (length (concat chunks))) (sd_init chunks) 0 (R_sd_init l bs chunks Hb He Hc)) as (fin & -> & _).
  - rewrite Hc. apply encode_length in He. lia.
  - reflexivity.
Qed.

(* ---- the statements ------------------------------------------------------- *)

Lemma roundtrip : forall l, valid l = true ->
  exists bs, diff_varint_encode l = Some bs /\ dv_decode bs = Some (l, false) /\
    forall chunks, concat chunks = bs -> sd_decode chunks = Some (l, false).
Proof.
  intros l Hv. apply valid_spec in Hv as [Hs Hb].
  destruct (encode_total l 0 Hs) as [bs He]. exists bs. split; [exact He|]. split.
  - apply (dv_decode_ok l bs Hb He).
  - intros chunks Hc. apply (sd_decode_ok l bs chunks Hb He Hc).
Qed.

Lemma rejects_unsorted : forall l, sorted_from 0 l = false -> diff_varint_encode l = None.
Proof. intros l H. apply encode_unsorted. exact H. Qed.

Lemma seek_equiv : forall l prog, valid l = true ->
  exists bs, diff_varint_encode l = Some bs /\
    forall chunks, concat chunks = bs ->
    exists tl td ts, run_lp prog l = Some tl /\ run_dv prog bs = Some td /\ run_sd prog chunks = Some ts /\
      visible td = visible tl /\ visible ts = visible tl.
Proof.
  intros l prog Hv. apply valid_spec in Hv as [Hs Hb].
  destruct (encode_total l 0 Hs) as [bs He]. exists bs. split; [exact He|].
  intros chunks Hc.
  destruct (run_sim dv dv_cur R_dv R_dv_cur dv_step dv_step_sim prog (dv_init bs) (lp_init l) (R_dv_init l bs Hb He))
    as (td & tl & Hd & Hl & Hvd).
  destruct (run_sim sd sd_cur R_sd R_sd_cur sd_step sd_step_sim prog (sd_init chunks) (lp_init l) (R_sd_init l bs chunks Hb He Hc))
    as (ts & tl' & Hsd & Hl' & Hvs).
  unfold run_lp. rewrite Hl in Hl'. inversion Hl'; subst tl'.
  exists tl, td, ts. auto.
Qed.

(* ---- connection with the checked predicates -------------------------------- *)

Lemma nlist_eqb_refl l : nlist_eqb l l = true.
Proof. apply (list_eqb_spec N.eqb); [intros; apply N.eqb_eq | reflexivity]. Qed.

Lemma out_eqb_refl o : out_eqb o o = true.
Proof. unfold out_eqb. rewrite nlist_eqb_refl, eqb_reflx. reflexivity. Qed.

Lemma ev_eqb_spec a b : ev_eqb a b = true <-> a = b.
Proof.
  destruct a as [a1 a2], b as [b1 b2]. unfold ev_eqb. cbn [fst snd]. rewrite andb_true_iff, eqb_true_iff, N.eqb_eq.
  split; [intros [-> ->]; reflexivity | intro H; inversion H; auto].
Qed.

Lemma trace_eqb_eq t1 t2 : t1 = t2 -> trace_eqb t1 t2 = true.
Proof. intros ->. apply (list_eqb_spec ev_eqb ev_eqb_spec). reflexivity. Qed.

Lemma split_concat : forall lens bs, lens_ok lens bs = true -> concat (split_by lens bs) = bs.
Proof.
  unfold lens_ok.
  induction lens as [|n r IH]; intros bs H; apply N.eqb_eq in H; cbn [sum_lens fold_right split_by concat] in *.
  - destruct bs; [reflexivity|]. cbn [length] in H. lia.
  - fold (sum_lens r) in H. rewrite IH.
    + apply firstn_skipn.
    + apply N.eqb_eq. rewrite skipn_length. lia.
Qed.

Lemma round_pred : forall l lens, valid l = true ->
  exists bs, diff_varint_encode l = Some bs /\
    (lens_ok lens bs = true ->
     exists dvo sto, dv_decode bs = Some dvo /\ sd_decode (split_by lens bs) = Some sto /\
       pred_ok (CRound l (Some bs) dvo lens sto) = true /\ pred_ok (CSplit l lens sto) = true).
Proof.
  intros l lens Hv. destruct (roundtrip l Hv) as (bs & He & Hd & Hs). exists bs. split; [exact He|].
  intro Hl. exists (l, false), (l, false). split; [exact Hd|]. split; [apply Hs, split_concat, Hl|].
  cbn [pred_ok]. rewrite Hv, !out_eqb_refl. split; reflexivity.
Qed.

Lemma seek_pred_ok : forall l lens prog, valid l = true ->
  exists bs, diff_varint_encode l = Some bs /\
    (lens_ok lens bs = true ->
     exists tl td ts, run_lp prog l = Some tl /\ run_dv prog bs = Some td /\ run_sd prog (split_by lens bs) = Some ts /\
       pred_ok (CSeek l lens prog tl td ts) = true).
Proof.
  intros l lens prog Hv. destruct (seek_equiv l prog Hv) as (bs & He & H). exists bs. split; [exact He|].
  intro Hl. destruct (H (split_by lens bs) (split_concat _ _ Hl)) as (tl & td & ts & H1 & H2 & H3 & H4 & H5).
  exists tl, td, ts. repeat split; auto.
  cbn [pred_ok]. rewrite Hv. unfold seek_pred. rewrite (trace_eqb_eq _ _ H4), (trace_eqb_eq _ _ H5). reflexivity.
Qed.

(* ---- tie T: the source has the shape the model was written against ---------- *)

Definition seek_events (curfield : string) : list (string * string) :=
  [("if", curfield ++ " >= x"); ("return", "true"); ("endif", "");
   ("for", ""); ("call", "it.Next"); ("call", "it.At"); ("if", "it.At() >= x");
   ("return", "true"); ("endif", ""); ("endfor", ""); ("return", "false")]%string.

Lemma source_shape :
  dvSeekEvents = seek_events "it.cur" /\ sdSeekEvents = seek_events "it.curSeries" /\
  dvNextEvents =
    [("call", "it.buf.Err"); ("call", "it.buf.Len"); ("if", "it.buf.Err() != nil || it.buf.Len() == 0");
     ("return", "false"); ("endif", ""); ("call", "it.buf.Uvarint64"); ("call", "it.buf.Err");
     ("if", "it.buf.Err() != nil"); ("return", "false"); ("endif", "");
     ("call", "storage.SeriesRef"); ("return", "true")]%string /\
  sdNextEvents =
    [("for", ""); ("call", "it.db.Uvarint64"); ("call", "it.db.Err"); ("if", "it.db.Err() != nil");
     ("call", "it.readNextChunk"); ("if", "!it.readNextChunk(it.db.B)"); ("return", "false"); ("endif", "");
     ("endif", ""); ("call", "storage.SeriesRef"); ("return", "true"); ("endfor", "")]%string /\
  streamedEncodeUvarintRHS = "binary.PutUvarint(uvarintEncodeBuf, uint64(v-prev))"%string /\
  readNextChunkDbBAssigns = ["append(remainder, decoded...)"; "decoded"; "append(remainder, uncompressedData...)";
                             "uncompressedData"]%string /\
  In ("if", "v < prev")%string encodeEvents /\ In ("call", "buf.PutUvarint64")%string encodeEvents.
Proof. repeat split; try reflexivity; cbn; tauto. Qed.

(* ---- histories of pooled decoders: the buffer pool -------------------------------------- *)
From Coq Require Import Permutation.

Lemma remove_first_perm : forall l x l', remove_first x l = Some l' -> Permutation l (x :: l').
Proof.
  induction l as [|y l IH]; intros x l' H; cbn [remove_first] in H; [discriminate|].
  destruct (y =? x) eqn:E.
  - apply N.eqb_eq in E. inversion H; subst. reflexivity.
  - destruct (remove_first x l) as [r|] eqn:R; [|discriminate]. inversion H; subst.
    rewrite (IH x r R). apply perm_swap.
Qed.

Lemma live_bufs_app ds x : live_bufs (ds ++ [x]) = live_bufs ds ++ live_bufs [x].
Proof.
  induction ds as [|[[id|] [|] c] ds IH]; cbn [app live_bufs]; rewrite ?IH; reflexivity.
Qed.

Lemma live_bufs_acquire : forall ds d id, nth_error ds d = Some (mkPD None true false) ->
  Permutation (live_bufs (upd_nth d (fun _ => mkPD (Some id) true false) ds)) (id :: live_bufs ds).
Proof.
  induction ds as [|x ds IH]; intros [|d] id H; cbn in H; try discriminate.
  - inversion H; subst. cbn [upd_nth live_bufs]. reflexivity.
  - cbn [upd_nth]. destruct x as [[b|] [|] c]; cbn [live_bufs]; try apply (IH d id H).
    rewrite (IH d id H). apply perm_swap.
Qed.

Lemma live_bufs_release : forall ds d x c', nth_error ds d = Some x -> pd_live x = true ->
  Permutation (live_bufs ds) (match pd_buf x with Some id => [id] | None => [] end ++ live_bufs (upd_nth d (fun _ => mkPD (pd_buf x) false c') ds)).
Proof.
  induction ds as [|y ds IH]; intros [|d] x c' H L; cbn in H; try discriminate.
  - inversion H; subst. destruct x as [[b|] l c]; cbn in L; subst; cbn [upd_nth live_bufs pd_buf app]; reflexivity.
  - cbn [upd_nth]. specialize (IH d x c' H L).
    destruct y as [[b|] [|] c]; cbn [live_bufs]; try exact IH.
    rewrite IH. destruct (pd_buf x); cbn [app]; [apply perm_swap|reflexivity].
Qed.

Definition dec_ok (x : pdec) : Prop := pd_live x = negb (pd_closed x).

Definition hinv (st : hpool) : Prop :=
  NoDup (hp_pool st ++ live_bufs (hp_decs st)) /\
  Forall (fun i => i < hp_fresh st) (hp_pool st ++ live_bufs (hp_decs st)) /\
  Forall dec_ok (hp_decs st).

Lemma forall_upd_nth {A} (P : A -> Prop) : forall (l : list A) k f, Forall P l ->
  (forall x, nth_error l k = Some x -> P (f x)) -> Forall P (upd_nth k f l).
Proof.
  induction l as [|x l IH]; intros [|k] f H Hf; cbn [upd_nth]; try constructor; inversion H; subst; auto.
  all: try (apply Hf; reflexivity); try (apply IH; auto).
Qed.

Lemma hp_acquire_inv st d acq st' : hinv st -> hp_acquire st d acq = Some st' ->
  hinv st' /\ (forall x, nth_error (hp_decs st) d = Some x -> pd_closed x = false ->
               exists y, nth_error (hp_decs st') d = Some y /\ pd_closed y = false).
Proof.
  intros (I1 & I2 & I3) H. unfold hp_acquire in H. destruct acq as [id|].
  2:{ inversion H; subst. split; [repeat split; assumption|]. intros x Hx Hc. eauto. }
  destruct (nth_error (hp_decs st) d) as [[[b|] [|] [|]]|] eqn:E; try discriminate.
  assert (Hafter : forall ds', ds' = upd_nth d (fun _ => mkPD (Some id) true false) (hp_decs st) ->
            exists y, nth_error ds' d = Some y /\ pd_closed y = false).
  { intros ds' ->. clear - E. revert d E. induction (hp_decs st) as [|x l IH]; intros [|d] E; cbn in E; try discriminate.
    - cbn. eauto.
    - cbn [upd_nth nth_error]. apply IH. exact E. }
  pose proof (live_bufs_acquire _ _ id E) as P.
  destruct (remove_first id (hp_pool st)) as [p'|] eqn:R.
  - inversion H; subst; clear H. apply remove_first_perm in R.
    assert (Q : Permutation (hp_pool st ++ live_bufs (hp_decs st))
                  (p' ++ live_bufs (upd_nth d (fun _ => mkPD (Some id) true false) (hp_decs st)))).
    { rewrite P, R. cbn [app]. apply Permutation_middle. }
    split; [|intros x Hx Hc; apply Hafter; reflexivity].
    repeat split; cbn [hp_pool hp_decs hp_fresh].
    + apply (Permutation_NoDup Q I1).
    + apply (Permutation_Forall Q I2).
    + apply forall_upd_nth; [exact I3|]. intros; reflexivity.
  - destruct (id =? hp_fresh st) eqn:F; [|discriminate]. apply N.eqb_eq in F. subst id.
    inversion H; subst; clear H.
    assert (Q : Permutation (hp_fresh st :: hp_pool st ++ live_bufs (hp_decs st))
                  (hp_pool st ++ live_bufs (upd_nth d (fun _ => mkPD (Some (hp_fresh st)) true false) (hp_decs st)))).
    { rewrite P. apply Permutation_middle. }
    split; [|intros x Hx Hc; apply Hafter; reflexivity].
    repeat split; cbn [hp_pool hp_decs hp_fresh].
    + apply (Permutation_NoDup Q). constructor; [|exact I1].
      intro Hin. rewrite Forall_forall in I2. specialize (I2 _ Hin). lia.
    + apply (Permutation_Forall Q). constructor; [lia|]. eapply Forall_impl; [|exact I2]. cbn. intros; lia.
    + apply forall_upd_nth; [exact I3|]. intros; reflexivity.
Qed.

Lemma hp_step_inv st e acq st' : hinv st -> hp_step false st e acq = Some st' -> hinv st'.
Proof.
  intros I H. destruct e as [l|d k|d|d]; cbn [hp_step] in H.
  - inversion H; subst; clear H. destruct I as (I1 & I2 & I3). repeat split; cbn [hp_pool hp_decs hp_fresh].
    + rewrite live_bufs_app. cbn [live_bufs]. rewrite app_nil_r. exact I1.
    + rewrite live_bufs_app. cbn [live_bufs]. rewrite app_nil_r. exact I2.
    + apply Forall_app. split; [exact I3|]. constructor; [reflexivity|constructor].
  - destruct (nth_error (hp_decs st) d) as [x|]; [|discriminate]. destruct (pd_closed x); [discriminate|].
    apply (hp_acquire_inv _ _ _ _ I H).
  - destruct (nth_error (hp_decs st) d) as [x|]; [|discriminate]. destruct (pd_closed x); [discriminate|].
    destruct (hp_acquire st d acq) as [st1|] eqn:A; [|discriminate]. inversion H; subst.
    apply (hp_acquire_inv _ _ _ _ I A).
  - destruct (nth_error (hp_decs st) d) as [x|] eqn:E; [|discriminate]. destruct (pd_closed x) eqn:C; [discriminate|].
    inversion H; subst; clear H. destruct I as (I1 & I2 & I3).
    assert (L : pd_live x = true).
    { rewrite Forall_forall in I3. specialize (I3 x (nth_error_In _ _ E)). unfold dec_ok in I3. rewrite C in I3. exact I3. }
    pose proof (live_bufs_release _ _ _ true E L) as P.
    assert (Q : Permutation (hp_pool st ++ live_bufs (hp_decs st))
                  (put_buf (pd_buf x) (hp_pool st) ++ live_bufs (upd_nth d (fun _ => mkPD (pd_buf x) false true) (hp_decs st)))).
    { rewrite P. destruct (pd_buf x) as [id|]; cbn [put_buf app]; [symmetry; apply Permutation_middle|reflexivity]. }
    repeat split; cbn [hp_pool hp_decs hp_fresh].
    + apply (Permutation_NoDup Q I1).
    + apply (Permutation_Forall Q I2).
    + apply forall_upd_nth; [exact I3|]. intros; reflexivity.
Qed.

Lemma hp_run_inv : forall evs st st', hinv st -> hp_run false st evs = Some st' -> hinv st'.
Proof.
  induction evs as [|[e a] r IH]; intros st st' I H; cbn [hp_run] in H; [inversion H; subst; exact I|].
  destruct (hp_step false st e a) as [s1|] eqn:E; [|discriminate]. apply (IH s1 st' (hp_step_inv _ _ _ _ I E) H).
Qed.

(* For every history in which callers close a decoder at most once and do not use it afterwards
   (steps outside that discipline are rejected by hp_step), whatever buffers sync.Pool hands out:
   a buffer is in the pool at most once and never while a live decoder holds it. *)
Lemma pool_single_put evs st : hp_run false hp_init evs = Some st ->
  NoDup (hp_pool st ++ live_bufs (hp_decs st)).
Proof.
  intro H. assert (I : hinv hp_init) by (repeat split; cbn; constructor).
  apply (hp_run_inv evs hp_init st I H).
Qed.

(* a Next that closes the decoder itself when the input is exhausted, followed by the caller's
   normal close(): the buffer is pooled twice, two later decoders get the same buffer *)
Lemma pool_early_close_refuted :
  option_map hp_pool (hp_run true hp_init [(HNew 0, None); (HExhaust 0, Some 0); (HClose 0, None)]) = Some [0; 0] /\
  option_map (fun st => live_bufs (hp_decs st))
    (hp_run true hp_init [(HNew 0, None); (HExhaust 0, Some 0); (HClose 0, None);
                          (HNew 1, None); (HNew 2, None); (HNext 1 5, Some 0); (HNext 2 5, Some 0)]) = Some [0; 0] /\
  option_map hp_pool (hp_run false hp_init [(HNew 0, None); (HExhaust 0, Some 0); (HClose 0, None)]) = Some [0].
Proof. repeat split; reflexivity. Qed.

Lemma hist_case_pred lists evs :
  pred_ok (CHist lists evs (map (fun x => (hd_read x, true, false))
     (hout (map (fun t : N * list N * N => big_list (fst (fst t)) (snd (fst t)) (snd t)) lists) evs))) = true.
Proof. cbn [pred_ok]. apply forallb_forall. intros o H. apply in_map_iff in H as (x & <- & _). reflexivity. Qed.

(* tie T: close() tests it.buf and disablePooling, puts &it.buf, and assigns nothing — it is not
   idempotent; Next (C12_source_shape) contains no call of close *)
Lemma close_shape :
  sdCloseEvents = [("if", "it.buf == nil"); ("return", ""); ("endif", ""); ("if", "it.disablePooling"); ("return", "");
                   ("endif", ""); ("call", "decodedBufPool.Put")]%string /\ sdCloseAssigns = []%string.
Proof. split; reflexivity. Qed.
