(* C45 — the result of dedupRules does not depend on how sort.Slice arranges
   rules that compare equal: any two arrangements that are sorted by
   Rule.Compare and are permutations of each other give the same list. So the
   stable insertion sort of the model stands for every correct sorting
   algorithm. (Rules are well formed: recording rules carry no duration/state.) *)
From Coq Require Import NArith ZArith List Bool Lia Permutation Sorted.
Import ListNotations.
From Verif Require Import Lib.Corr Lib.Misc_Cmp Gen.C45 Model.C45 Proofs.C45 Proofs.C45_dedup.

Definition rule_wf (r : rule) : Prop :=
  match r_kind r with Recording => r_dur r = 0%Z /\ r_state r = 0%Z | Alerting => True end.

(* the tie-break inside a class of equal rules *)
Definition tb (r1 r2 : rule) : comparison :=
  match r_kind r1, r_kind r2 with
  | Alerting, Alerting => alert_cmp r1 r2
  | Recording, Recording => eval_cmp r1 r2
  | _, _ => Eq
  end.

Lemma younger_tb cur r : younger cur r = is_gt (tb cur r).
Proof. unfold younger, tb. destruct (r_kind cur), (r_kind r); reflexivity. Qed.

Lemma eval_cmp_good : good_cmp eval_cmp.
Proof. apply (on_cmp_good r_eval (rev_cmp Z.compare)). apply rev_cmp_good, Z_compare_good. Qed.

Lemma alert_cmp_good : good_cmp alert_cmp.
Proof.
  apply (lex_cmp_good (on_cmp r_state (rev_cmp Z.compare)) eval_cmp).
  - apply on_cmp_good, rev_cmp_good, Z_compare_good.
  - apply eval_cmp_good.
Qed.

Lemma rule_cmp_eq_kind x y : rule_cmp x y = Eq -> r_kind x = r_kind y.
Proof. unfold rule_cmp. destruct (r_kind x), (r_kind y); try reflexivity; discriminate. Qed.

(* within a class (same kind) tb behaves as a total preorder *)
Lemma tb_refl x : tb x x = Eq.
Proof. unfold tb. destruct (r_kind x); [apply (gc_refl _ alert_cmp_good) | apply (gc_refl _ eval_cmp_good)]. Qed.

Lemma tb_sym x y : r_kind x = r_kind y -> tb y x = CompOpp (tb x y).
Proof.
  intro K. unfold tb. rewrite K. destruct (r_kind y); [apply (gc_sym _ alert_cmp_good) | apply (gc_sym _ eval_cmp_good)].
Qed.

Lemma tb_le_trans x y z :
  r_kind x = r_kind y -> r_kind y = r_kind z -> tb x y <> Gt -> tb y z <> Gt -> tb x z <> Gt.
Proof.
  intros K1 K2. unfold tb. rewrite K1, K2. destruct (r_kind z).
  - apply (cle_trans _ alert_cmp_good).
  - apply (cle_trans _ eval_cmp_good).
Qed.

Lemma eq_rules x y : rule_wf x -> rule_wf y -> rule_cmp x y = Eq -> tb x y = Eq -> x = y.
Proof.
  intros Wx Wy Hc Ht. pose proof (rule_cmp_eq_kind x y Hc) as K.
  destruct x as [k1 n1 l1 q1 d1 s1 e1], y as [k2 n2 l2 q2 d2 s2 e2]. simpl in K. subst k2.
  unfold rule_cmp, tb, rule_wf, is_alert in *. simpl in *.
  assert (Hrest : n1 = n2 /\ l1 = l2 /\ q1 = q2 /\ (k1 = Alerting -> d1 = d2)).
  { destruct k1;
      (destruct (str_cmp n1 n2) eqn:E1; try discriminate;
       destruct (labels_cmp l1 l2) eqn:E2; try discriminate;
       destruct (str_cmp q1 q2) eqn:E3; try discriminate;
       apply str_cmp_eq in E1; apply labels_cmp_eq in E2; apply str_cmp_eq in E3;
       repeat split; auto; intro; try discriminate; simpl in Hc; apply Z.compare_eq in Hc; exact Hc). }
  destruct Hrest as [-> [-> [-> Hd]]].
  destruct k1.
  - rewrite (Hd eq_refl). unfold alert_cmp, eval_cmp in Ht. simpl in Ht.
    destruct (Z.compare s2 s1) eqn:Es; try discriminate.
    apply Z.compare_eq in Es. apply Z.compare_eq in Ht. subst. reflexivity.
  - destruct Wx as [-> ->], Wy as [-> ->]. unfold eval_cmp in Ht. simpl in Ht. apply Z.compare_eq in Ht. subst. reflexivity.
Qed.

(* ---- every element of the result is minimal in its class ---- *)
Lemma dedup_loop_minimal rest : forall cur dom,
  (forall y, In y dom -> rule_cmp cur y = Eq /\ tb cur y <> Gt) ->
  StronglySorted (cle rule_cmp) (cur :: rest) ->
  forall x, In x (dedup_loop cur rest) ->
  forall y, In y (dom ++ cur :: rest) -> rule_cmp x y = Eq -> tb x y <> Gt.
Proof.
  pose proof rule_cmp_good as G.
  induction rest as [|r rest IH]; intros cur dom Hdom Hs x Hx y Hy Hc.
  - destruct Hx as [Hx|[]]. subst x. apply in_app_or in Hy as [Hy|[Hy|[]]].
    + apply Hdom. exact Hy.
    + subst y. rewrite tb_refl. discriminate.
  - simpl in Hx. inversion Hs as [|? ? Hs' Hall]; subst. rewrite Forall_forall in Hall.
    destruct (is_eq (rule_cmp cur r)) eqn:E; simpl in Hx.
    + apply is_eq_true in E. rewrite younger_tb in Hx.
      pose proof (rule_cmp_eq_kind _ _ E) as Kcr.
      destruct (is_gt (tb cur r)) eqn:Ey.
      * (* r replaces cur *)
        assert (Hgt : tb cur r = Gt) by (destruct (tb cur r); simpl in Ey; congruence).
        assert (Hrc : tb r cur <> Gt) by (rewrite (tb_sym cur r Kcr), Hgt; discriminate).
        apply (IH r (dom ++ [cur])) with (x := x); auto.
        -- intros y0 Hy0. apply in_app_or in Hy0 as [Hy0|[Hy0|[]]].
           ++ destruct (Hdom y0 Hy0) as [C T]. split.
              ** rewrite <- (gc_eq_l _ G cur r y0 E). exact C.
              ** apply (tb_le_trans r cur y0); auto. apply rule_cmp_eq_kind. exact C.
           ++ subst y0. split; [apply (gc_eq_sym _ G); exact E | exact Hrc].
        -- rewrite <- app_assoc. exact Hy.
      * (* cur stays *)
        assert (Hle : tb cur r <> Gt) by (destruct (tb cur r); simpl in Ey; congruence).
        apply (IH cur (dom ++ [r])) with (x := x); auto.
        -- intros y0 Hy0. apply in_app_or in Hy0 as [Hy0|[Hy0|[]]]; [apply Hdom; exact Hy0|]. subst y0. auto.
        -- eapply sorted_drop_second; exact Hs.
        -- apply in_app_or in Hy as [Hy|[Hy|[Hy|Hy]]].
           ++ apply in_or_app. left. apply in_or_app. left. exact Hy.
           ++ subst y. apply in_or_app. right. left. reflexivity.
           ++ subst y. apply in_or_app. left. apply in_or_app. right. left. reflexivity.
           ++ apply in_or_app. right. right. exact Hy.
    + apply is_eq_false in E.
      assert (Hlt : rule_cmp cur r = Lt).
      { specialize (Hall r (or_introl eq_refl)). unfold cle in Hall. destruct (rule_cmp cur r); congruence. }
      assert (Hlater : forall z, In z (r :: rest) -> rule_cmp cur z = Lt).
      { intros z Hz. destruct Hz as [Hz|Hz]; [subst; exact Hlt|].
        inversion Hs' as [|? ? _ Hall']; subst. rewrite Forall_forall in Hall'.
        eapply (clt_le_trans _ G); [exact Hlt | apply Hall'; exact Hz]. }
      destruct Hx as [Hx|Hx].
      * subst x. apply in_app_or in Hy as [Hy|[Hy|Hy]].
        -- apply Hdom. exact Hy.
        -- subst y. rewrite tb_refl. discriminate.
        -- rewrite (Hlater y Hy) in Hc. discriminate.
      * assert (Hxin : In x (r :: rest)) by (apply dedup_loop_In; exact Hx).
        apply in_app_or in Hy as [Hy|[Hy|Hy]].
        -- destruct (Hdom y Hy) as [C _]. pose proof (Hlater x Hxin) as L.
           rewrite (gc_eq_l _ G cur y x C) in L. rewrite (gc_sym _ G y x), L in Hc. discriminate.
        -- subst y. pose proof (Hlater x Hxin) as L. rewrite (gc_sym _ G cur x), L in Hc. discriminate.
        -- apply (IH r []) with (x := x) (y := y); auto. intros y0 [].
Qed.

(* ---- two results over the same rules are equal ---- *)
Definition result_of (o L : list rule) : Prop :=
  StronglySorted (clt rule_cmp) o
  /\ (forall x, In x o -> In x L)
  /\ (forall x, In x o -> forall y, In y L -> rule_cmp x y = Eq -> tb x y <> Gt)
  /\ (forall y, In y L -> exists x, In x o /\ rule_cmp y x = Eq).

Lemma result_unique : forall o1 o2 L,
  Forall rule_wf L -> result_of o1 L -> result_of o2 L -> o1 = o2.
Proof.
  pose proof rule_cmp_good as G.
  induction o1 as [|h1 t1 IH]; intros o2 L Hwf [S1 [I1 [M1 C1]]] [S2 [I2 [M2 C2]]].
  - destruct o2 as [|h2 t2]; [reflexivity|]. exfalso.
    destruct (C1 h2 (I2 h2 (or_introl eq_refl))) as [x [[] _]].
  - destruct o2 as [|h2 t2].
    { exfalso. destruct (C2 h1 (I1 h1 (or_introl eq_refl))) as [x [[] _]]. }
    inversion S1 as [|? ? S1' A1]; subst. inversion S2 as [|? ? S2' A2]; subst.
    rewrite Forall_forall in A1, A2.
    assert (Hlow1 : forall x, In x (h1 :: t1) -> cle rule_cmp h1 x).
    { intros x [Hx|Hx]; [subst; apply (cle_refl _ G) | unfold cle; rewrite (A1 x Hx); discriminate]. }
    assert (Hlow2 : forall x, In x (h2 :: t2) -> cle rule_cmp h2 x).
    { intros x [Hx|Hx]; [subst; apply (cle_refl _ G) | unfold cle; rewrite (A2 x Hx); discriminate]. }
    assert (Hh : rule_cmp h1 h2 = Eq).
    { destruct (rule_cmp h1 h2) eqn:E; [reflexivity| |].
      - exfalso. destruct (C2 h1 (I1 h1 (or_introl eq_refl))) as [x [Hx Hc]].
        pose proof (clt_le_trans _ G h1 h2 x E (Hlow2 x Hx)) as Hlt'. congruence.
      - exfalso. apply (gc_gt_lt _ G) in E.
        destruct (C1 h2 (I2 h2 (or_introl eq_refl))) as [x [Hx Hc]].
        pose proof (clt_le_trans _ G h2 h1 x E (Hlow1 x Hx)) as Hlt'. congruence. }
    assert (Heq : h1 = h2).
    { rewrite Forall_forall in Hwf.
      pose proof (M1 h1 (or_introl eq_refl) h2 (I2 h2 (or_introl eq_refl)) Hh) as T1.
      pose proof (M2 h2 (or_introl eq_refl) h1 (I1 h1 (or_introl eq_refl)) (gc_eq_sym _ G _ _ Hh)) as T2.
      rewrite (tb_sym h1 h2 (rule_cmp_eq_kind _ _ Hh)) in T2.
      apply eq_rules; auto; [apply Hwf, I1; left; reflexivity | apply Hwf, I2; left; reflexivity|].
      destruct (tb h1 h2); simpl in *; congruence. }
    subst h2. f_equal.
    (* the tails are results over the rules outside the class of h1 *)
    apply (IH t2 (filter (fun y => negb (is_eq (rule_cmp h1 y))) L)).
    + apply Forall_forall. intros y Hy. apply filter_In in Hy as [Hy _]. rewrite Forall_forall in Hwf. auto.
    + split; [exact S1'|]. split; [|split].
      * intros x Hx. apply filter_In. split; [apply I1; right; exact Hx|]. rewrite (A1 x Hx). reflexivity.
      * intros x Hx y Hy. apply filter_In in Hy as [Hy _]. apply M1; [right; exact Hx | exact Hy].
      * intros y Hy. apply filter_In in Hy as [Hy Hn]. destruct (C1 y Hy) as [x [[Hx|Hx] Hc]].
        -- subst x. rewrite (gc_eq_sym _ G _ _ Hc) in Hn. discriminate.
        -- exists x. auto.
    + split; [exact S2'|]. split; [|split].
      * intros x Hx. apply filter_In. split; [apply I2; right; exact Hx|]. rewrite (A2 x Hx). reflexivity.
      * intros x Hx y Hy. apply filter_In in Hy as [Hy _]. apply M2; [right; exact Hx | exact Hy].
      * intros y Hy. apply filter_In in Hy as [Hy Hn]. destruct (C2 y Hy) as [x [[Hx|Hx] Hc]].
        -- subst x. rewrite (gc_eq_sym _ G _ _ Hc) in Hn. discriminate.
        -- exists x. auto.
Qed.

Definition dedup_sorted (l : list rule) : list rule :=
  match l with [] => [] | r :: rest => dedup_loop r rest end.

Lemma dedup_sorted_result l :
  StronglySorted (cle rule_cmp) l -> result_of (dedup_sorted l) l.
Proof.
  intro Hs. destruct l as [|r rest]; simpl.
  - repeat split; try constructor; intros x [].
  - split; [apply dedup_loop_strict; exact Hs|]. split; [|split].
    + intros x Hx. apply dedup_loop_In. exact Hx.
    + intros x Hx y Hy. apply (dedup_loop_minimal rest r []); auto. intros y0 [].
    + intros y Hy. apply dedup_loop_rep. exact Hy.
Qed.

(* whatever arrangement of equal rules the sort produces, the result is the same *)
Lemma dedup_sort_independent l1 l2 :
  Permutation l1 l2 -> Forall rule_wf l1 ->
  StronglySorted (cle rule_cmp) l1 -> StronglySorted (cle rule_cmp) l2 ->
  dedup_sorted l1 = dedup_sorted l2.
Proof.
  intros Hp Hwf H1 H2. apply (result_unique _ _ l1 Hwf); [apply dedup_sorted_result; exact H1|].
  destruct (dedup_sorted_result l2 H2) as [S [I [M C]]]. split; [exact S|]. split; [|split].
  - intros x Hx. eapply Permutation_in; [symmetry; exact Hp | apply I; exact Hx].
  - intros x Hx y Hy. apply M; [exact Hx | eapply Permutation_in; eauto].
  - intros y Hy. apply C. eapply Permutation_in; eauto.
Qed.

(* dedupRules of the model = dedup of ANY sorted arrangement of the stripped rules *)
Lemma dedup_rules_any_sort replica rs sorted :
  Forall rule_wf rs ->
  Permutation (map (strip replica) rs) sorted -> StronglySorted (cle rule_cmp) sorted ->
  dedup_rules replica rs = dedup_sorted sorted.
Proof.
  intros Hwf Hp Hs. unfold dedup_rules. change (dedup_sorted (isort rule_cmp (map (strip replica) rs)) = dedup_sorted sorted).
  apply dedup_sort_independent.
  - rewrite <- Hp. symmetry. apply isort_perm.
  - apply Forall_forall. intros x Hx. apply isort_In in Hx. apply in_map_iff in Hx as [r [E Hr]]. subst x.
    rewrite Forall_forall in Hwf. specialize (Hwf r Hr). unfold rule_wf, strip in *. simpl. exact Hwf.
  - apply isort_sorted. apply rule_cmp_good.
  - exact Hs.
Qed.
