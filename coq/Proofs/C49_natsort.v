(* C49 — natsort.Compare is a strict total order on "statefulset-like" server
   names: a common prefix P, a run of digits, a common suffix S (for example
   memcached-<n>.memcached.svc:11211 or 10.0.0.<n>:11211), with pairwise
   different numbers that fit int64. Hence C49_order_independent applies to
   every such list without evaluating the comparison. *)
From Coq Require Import NArith ZArith List Bool Lia Permutation.
Import ListNotations.
From Verif Require Import Lib.Corr Lib.Misc_Cmp Gen.C49 Model.C49 Proofs.C49.
Open Scope Z_scope.

Definition all_digits (d : str) : bool := forallb is_digit d.

(* the class of the first character of a non-empty string is the class of its first chunk *)
Lemma chunks_head c s : exists ch rest, chunks (c :: s) = (is_digit c, ch) :: rest.
Proof.
  simpl. destruct (chunks s) as [|[d' ch] rest].
  - eexists. eexists. reflexivity.
  - destruct (Bool.eqb (is_digit c) d'); eexists; eexists; reflexivity.
Qed.

(* concatenation at a digit / non-digit boundary splits the chunk list *)
Definition boundary (a b : str) : Prop :=
  match rev a, b with
  | x :: _, y :: _ => is_digit x <> is_digit y
  | _, _ => True
  end.

Lemma boundary_cons c a b : a <> [] -> boundary (c :: a) b -> boundary a b.
Proof.
  unfold boundary. intros Hne H. simpl in H. destruct (rev a) as [|x r] eqn:E.
  - apply (f_equal (@rev N)) in E. rewrite rev_involutive in E. simpl in E. congruence.
  - simpl in H. exact H.
Qed.

Lemma chunks_app a : forall b, boundary a b -> chunks (a ++ b) = chunks a ++ chunks b.
Proof.
  induction a as [|c a IH]; intros b Hb; [reflexivity|].
  destruct a as [|c2 a].
  - (* a single character before b *)
    destruct b as [|y b]; [rewrite app_nil_r; simpl; reflexivity|].
    unfold boundary in Hb. simpl in Hb.
    change (([c] ++ y :: b)) with (c :: y :: b). cbn [chunks].
    destruct (chunks_head y b) as [ch [rest E]]. cbn [chunks] in E. rewrite E.
    destruct (Bool.eqb (is_digit c) (is_digit y)) eqn:Eq; [apply eqb_prop in Eq; contradiction|].
    reflexivity.
  - assert (Hb' : boundary (c2 :: a) b) by (apply (boundary_cons c); [discriminate | exact Hb]).
    specialize (IH b Hb').
    change ((c :: c2 :: a) ++ b) with (c :: ((c2 :: a) ++ b)).
    cbn [chunks]. cbn [chunks] in IH. rewrite IH.
    destruct (chunks_head c2 a) as [ch [rest E]]. cbn [chunks] in E. rewrite E. cbn [app].
    destruct (Bool.eqb (is_digit c) (is_digit c2)); reflexivity.
Qed.

Lemma chunks_digits d : d <> [] -> all_digits d = true -> chunks d = [(true, d)].
Proof.
  induction d as [|c d IH]; [congruence|]. intros _ H. unfold all_digits in H. simpl in H.
  apply andb_true_iff in H as [Hc Hd].
  destruct d as [|c2 d]; [simpl; rewrite Hc; reflexivity|].
  cbn [chunks]. cbn [chunks] in IH. rewrite IH by (try discriminate; exact Hd). rewrite Hc. reflexivity.
Qed.

(* a common prefix of chunks is skipped when both lists continue *)
Lemma cmp_chunks_prefix c : forall x y, x <> [] -> y <> [] ->
  cmp_chunks (c ++ x) (c ++ y) = cmp_chunks x y.
Proof.
  induction c as [|a c IH]; intros x y Hx Hy; [reflexivity|].
  cbn [app cmp_chunks].
  assert (N1 : is_nil (c ++ x) = false) by (destruct c; [destruct x; [congruence | reflexivity] | reflexivity]).
  assert (N2 : is_nil (c ++ y) = false) by (destruct c; [destruct y; [congruence | reflexivity] | reflexivity]).
  destruct (atoi a) as [v|].
  - rewrite Z.eqb_refl, N1, N2. apply IH; assumption.
  - rewrite str_eqb_refl, N1, N2. apply IH; assumption.
Qed.

Definition maxint : Z := 9223372036854775807.

Section Names.
  Variables P S : str.
  (* P does not end, S does not begin with a digit (either may be empty) *)
  Hypothesis P_end : match rev P with x :: _ => is_digit x = false | [] => True end.
  Hypothesis S_start : match S with y :: _ => is_digit y = false | [] => True end.

  Definition name (d : str) : str := P ++ d ++ S.
  Definition okd (d : str) : Prop := d <> [] /\ all_digits d = true /\ digits_val d <= maxint.

  Lemma name_chunks d : okd d -> chunks (name d) = chunks P ++ (true, d) :: chunks S.
  Proof.
    intros [Hne [Hd _]]. unfold name.
    assert (Hfirst : exists c r, d = c :: r /\ is_digit c = true).
    { destruct d as [|c r]; [congruence|]. exists c, r. split; [reflexivity|].
      unfold all_digits in Hd. simpl in Hd. apply andb_true_iff in Hd. tauto. }
    assert (Hlast : exists c r, rev d = c :: r /\ is_digit c = true).
    { destruct (rev d) as [|c r] eqn:E.
      - apply (f_equal (@rev N)) in E. rewrite rev_involutive in E. simpl in E. congruence.
      - exists c, r. split; [reflexivity|]. unfold all_digits in Hd. rewrite forallb_forall in Hd.
        apply Hd. apply in_rev. rewrite E. left. reflexivity. }
    rewrite chunks_app.
    - rewrite chunks_app.
      + rewrite (chunks_digits d Hne Hd). reflexivity.
      + unfold boundary. destruct Hlast as [c [r [E Hc]]]. rewrite E. destruct S as [|y s]; [exact I|].
        rewrite Hc, S_start. discriminate.
    - unfold boundary. destruct (rev P) as [|x rp]; [exact I|].
      destruct Hfirst as [c [r [E Hc]]]. rewrite E. cbn [app]. rewrite P_end, Hc. discriminate.
  Qed.

  Lemma atoi_digits d : okd d -> atoi (true, d) = Some (digits_val d).
  Proof.
    intros [_ [_ H]]. unfold atoi. cbn [fst snd]. unfold maxint in H.
    destruct (digits_val d <=? 9223372036854775807) eqn:E; [reflexivity|]. apply Z.leb_gt in E. lia.
  Qed.

  (* on such names natsort.Compare is the order of the numbers *)
  Lemma nat_less_names d1 d2 :
    okd d1 -> okd d2 -> digits_val d1 <> digits_val d2 ->
    nat_less (name d1) (name d2) = (digits_val d1 <? digits_val d2).
  Proof.
    intros H1 H2 Hne. unfold nat_less. rewrite (name_chunks d1 H1), (name_chunks d2 H2).
    rewrite cmp_chunks_prefix by discriminate.
    cbn [cmp_chunks]. rewrite (atoi_digits d1 H1), (atoi_digits d2 H2).
    destruct (digits_val d1 =? digits_val d2) eqn:E; [apply Z.eqb_eq in E; contradiction | reflexivity].
  Qed.

  Lemma name_inj d1 d2 : name d1 = name d2 -> d1 = d2.
  Proof. unfold name. intro H. apply app_inv_head in H. apply app_inv_tail in H. exact H. Qed.

  Variable ds : list str.
  Hypothesis ds_ok : Forall okd ds.
  Hypothesis ds_distinct : NoDup (map digits_val ds).

  Lemma in_names x : In x (map name ds) -> exists d, In d ds /\ x = name d /\ okd d.
  Proof.
    intro H. apply in_map_iff in H as [d [E Hd]]. exists d. split; [exact Hd | split; [congruence|]].
    rewrite Forall_forall in ds_ok. apply ds_ok. exact Hd.
  Qed.

  Lemma vals_distinct d1 d2 : In d1 ds -> In d2 ds -> d1 <> d2 -> digits_val d1 <> digits_val d2.
  Proof.
    intros H1 H2 Hne E. clear ds_ok. induction ds as [|d l IH]; [destruct H1|].
    simpl in ds_distinct. inversion ds_distinct as [|? ? Hnin Hnd]; subst.
    destruct H1 as [H1|H1], H2 as [H2|H2]; subst.
    - congruence.
    - apply Hnin. rewrite E. apply in_map. exact H2.
    - apply Hnin. rewrite <- E. apply in_map. exact H1.
    - apply IH; assumption.
  Qed.

  Lemma names_nodup : NoDup (map name ds).
  Proof.
    clear ds_ok. induction ds as [|d l IH]; [constructor|]. simpl in *.
    inversion ds_distinct as [|? ? Hnin Hnd]; subst. constructor; [|apply IH; exact Hnd].
    intro H. apply in_map_iff in H as [d' [E Hd']]. apply name_inj in E. subst d'.
    apply Hnin. apply in_map. exact Hd'.
  Qed.

  Lemma names_strict_total : asym_on nat_less (map name ds) /\ trans_on nat_less (map name ds).
  Proof.
    split.
    - intros x y Hx Hy Hne.
      destruct (in_names x Hx) as [d1 [I1 [E1 O1]]]. destruct (in_names y Hy) as [d2 [I2 [E2 O2]]]. subst x y.
      assert (Hd : d1 <> d2) by congruence.
      pose proof (vals_distinct d1 d2 I1 I2 Hd) as Hv.
      rewrite (nat_less_names d1 d2 O1 O2 Hv), (nat_less_names d2 d1 O2 O1) by congruence.
      destruct (digits_val d1 <? digits_val d2) eqn:A, (digits_val d2 <? digits_val d1) eqn:B; try reflexivity;
        rewrite ?Z.ltb_lt, ?Z.ltb_ge in *; lia.
    - intros x y z Hx Hy Hz Hxy Hyz Hxz Lxy Lyz.
      destruct (in_names x Hx) as [d1 [I1 [E1 O1]]]. destruct (in_names y Hy) as [d2 [I2 [E2 O2]]].
      destruct (in_names z Hz) as [d3 [I3 [E3 O3]]]. subst x y z.
      assert (H12 : d1 <> d2) by congruence. assert (H23 : d2 <> d3) by congruence. assert (H13 : d1 <> d3) by congruence.
      rewrite (nat_less_names _ _ O1 O2 (vals_distinct _ _ I1 I2 H12)) in Lxy.
      rewrite (nat_less_names _ _ O2 O3 (vals_distinct _ _ I2 I3 H23)) in Lyz.
      rewrite (nat_less_names _ _ O1 O3 (vals_distinct _ _ I1 I3 H13)).
      rewrite Z.ltb_lt in *. lia.
  Qed.

  (* the stored order does not depend on the listing order *)
  Lemma names_order_independent l2 :
    Permutation (map name ds) l2 -> set_servers (map name ds) = set_servers l2.
  Proof.
    intro Hp. destruct names_strict_total as [Ha Ht].
    apply go_isort_order_independent; auto. apply names_nodup.
  Qed.
End Names.
