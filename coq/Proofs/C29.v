(* C29 — proofs about Model/C29.v. *)
From Coq Require Import ZArith NArith List Bool Lia Arith.
Import ListNotations.
From Verif Require Import Lib.Corr Gen.C29 Model.C29.

(* ---- list-sets ---- *)
Lemma sample_eqb_spec a b : sample_eqb a b = true <-> a = b.
Proof.
  destruct a as [[s t] v], b as [[s' t'] v']. unfold sample_eqb; simpl.
  rewrite !andb_true_iff, N.eqb_eq, !Z.eqb_eq. split; [intros [[? ?] ?]; subst; reflexivity|intros H; inversion H; auto].
Qed.

Lemma mem_In {A} (eqb : A -> A -> bool) (Heq : forall a b, eqb a b = true <-> a = b) x l :
  mem eqb x l = true <-> In x l.
Proof.
  induction l as [|y r IH]; simpl; [split; [discriminate|tauto]|].
  rewrite orb_true_iff, Heq, IH. split; intros [H|H]; auto.
Qed.

Lemma memN_In x l : memN x l = true <-> In x l.
Proof. apply mem_In. intros a b. apply N.eqb_eq. Qed.
Lemma memS_In x l : memS x l = true <-> In x l.
Proof. apply mem_In, sample_eqb_spec. Qed.

Lemma subset_In {A} (eqb : A -> A -> bool) (Heq : forall a b, eqb a b = true <-> a = b) a b :
  subset eqb a b = true <-> (forall x, In x a -> In x b).
Proof.
  unfold subset. rewrite forallb_forall. split; intros H x Hx.
  - apply (mem_In eqb Heq). apply H. exact Hx.
  - apply (mem_In eqb Heq). apply H. exact Hx.
Qed.

Lemma subN_In a b : subN a b = true <-> (forall x, In x a -> In x b).
Proof. apply subset_In. intros x y. apply N.eqb_eq. Qed.

Lemma seteq_In {A} (eqb : A -> A -> bool) (Heq : forall a b, eqb a b = true <-> a = b) a b :
  seteq eqb a b = true -> (forall x, In x a <-> In x b).
Proof.
  unfold seteq. rewrite andb_true_iff, !(subset_In eqb Heq). intros [H1 H2] x. split; auto.
Qed.

Lemma nodupN_NoDup l : nodup N.eqb l = true -> NoDup l.
Proof.
  induction l as [|x r IH]; simpl; intros H; [constructor|].
  apply andb_true_iff in H as [H1 H2]. constructor; [|apply IH; exact H2].
  intros Hin. apply memN_In in Hin. unfold memN in Hin. rewrite Hin in H1. discriminate.
Qed.

Lemma NoDup_app_local {A} (l1 l2 : list A) :
  NoDup l1 -> NoDup l2 -> (forall x, In x l1 -> In x l2 -> False) -> NoDup (l1 ++ l2).
Proof.
  induction l1 as [|x r IH]; simpl; intros H1 H2 H; [exact H2|].
  inversion H1 as [|? ? Hni Hnd]; subst. constructor.
  - intros Hin. apply in_app_or in Hin as [Hin|Hin]; [contradiction|]. apply (H x); [left; reflexivity|exact Hin].
  - apply IH; [exact Hnd|exact H2|]. intros y Hy1 Hy2. apply (H y); [right; exact Hy1|exact Hy2].
Qed.

(* ---- state ---- *)
Lemma find_In st id b : find st id = Some b -> In (id, b) st.
Proof.
  induction st as [|[i x] r IH]; simpl; [discriminate|].
  destruct (N.eqb id i) eqn:E.
  - intros H. inversion H; subst. apply N.eqb_eq in E. subst. left; reflexivity.
  - intros H. right. apply IH. exact H.
Qed.

Lemma find_None st id : find st id = None -> ~ In id (map fst st).
Proof.
  induction st as [|[i x] r IH]; simpl; [tauto|].
  destruct (N.eqb id i) eqn:E; [discriminate|].
  intros H [H1|H1]; [subst; rewrite N.eqb_refl in E; discriminate|]. apply IH; assumption.
Qed.

Lemma In_find st id b : NoDup (map fst st) -> In (id, b) st -> find st id = Some b.
Proof.
  induction st as [|[i x] r IH]; simpl; intros Hnd Hin; [contradiction|].
  inversion Hnd as [|? ? Hni Hnd']; subst.
  destruct Hin as [H|H].
  - inversion H; subst. rewrite N.eqb_refl. reflexivity.
  - destruct (N.eqb id i) eqn:E.
    + apply N.eqb_eq in E. subst. exfalso. apply Hni. apply (in_map fst) in H. exact H.
    + apply IH; assumption.
Qed.

Lemma remove_In st id i b : In (i, b) (remove st id) <-> In (i, b) st /\ i <> id.
Proof.
  induction st as [|[j x] r IH]; simpl; [tauto|].
  destruct (N.eqb id j) eqn:E.
  - apply N.eqb_eq in E. subst j. rewrite IH. split.
    + intros [H1 H2]. split; [right; exact H1|exact H2].
    + intros [[H1|H1] H2]; [inversion H1; subst; congruence|split; assumption].
  - simpl. rewrite IH. apply N.eqb_neq in E. split.
    + intros [H|[H1 H2]]; [inversion H; subst; split; [left; reflexivity|congruence]|split; [right; exact H1|exact H2]].
    + intros [[H1|H1] H2]; [left; exact H1|right; split; assumption].
Qed.

Lemma remove_keys st id : NoDup (map fst st) -> NoDup (map fst (remove st id)).
Proof.
  induction st as [|[j x] r IH]; simpl; intros H; [constructor|].
  inversion H as [|? ? Hni Hnd]; subst.
  destruct (N.eqb id j); [apply IH; exact Hnd|]. simpl. constructor; [|apply IH; exact Hnd].
  intros Hin. apply Hni. apply in_map_iff in Hin as [[k y] [Hk Hin]]. simpl in Hk. subst k.
  apply remove_In in Hin as [Hin _]. apply (in_map fst) in Hin. exact Hin.
Qed.

Lemma set_marked_keys st id : map fst (set_marked st id) = map fst st.
Proof.
  unfold set_marked. rewrite map_map. apply map_ext. intros [i b]. simpl. destruct (N.eqb i id); reflexivity.
Qed.

Lemma set_marked_In st id i b' :
  In (i, b') (set_marked st id) ->
  exists b, In (i, b) st /\ m_sources b' = m_sources b /\ m_samples b' = m_samples b
            /\ (i <> id -> b' = b).
Proof.
  unfold set_marked. intros H. apply in_map_iff in H as [[j b] [Heq Hin]]. simpl in Heq.
  destruct (N.eqb j id) eqn:E; inversion Heq; subst.
  - exists b. repeat split; auto. intros Hne. apply N.eqb_eq in E. congruence.
  - exists b'. repeat split; auto.
Qed.

Lemma set_marked_other st id i b : In (i, b) st -> i <> id -> In (i, b) (set_marked st id).
Proof.
  intros Hin Hne. unfold set_marked. apply in_map_iff. exists (i, b). split; [|exact Hin].
  simpl. apply N.eqb_neq in Hne. rewrite Hne. reflexivity.
Qed.

Lemma parents_In st : forall ps pbs, parents_of st ps = Some pbs -> forall pb, In pb pbs -> exists p, In (p, pb) st.
Proof.
  unfold parents_of. induction ps as [|p r IH]; intros pbs H pb Hin; simpl in H.
  - inversion H; subst. contradiction.
  - destruct (find st p) as [x|] eqn:Hf; [|discriminate].
    destruct (all_some_mb (map (find st) r)) as [y|] eqn:Hr; [|discriminate].
    inversion H; subst. destruct Hin as [Hin|Hin].
    + subst. exists p. apply find_In. exact Hf.
    + eapply IH; eauto.
Qed.

Lemma NoDup_fst_functional {A B} (l : list (A * B)) k v v' :
  NoDup (map fst l) -> In (k, v) l -> In (k, v') l -> v = v'.
Proof.
  induction l as [|[k0 v0] r IH]; simpl; intros Hnd H1 H2; [contradiction|].
  inversion Hnd as [|? ? Hni Hnd']; subst.
  destruct H1 as [H1|H1], H2 as [H2|H2].
  - congruence.
  - inversion H1; subst. exfalso. apply Hni. apply (in_map fst) in H2. exact H2.
  - inversion H2; subst. exfalso. apply Hni. apply (in_map fst) in H1. exact H1.
  - apply IH; assumption.
Qed.

(* ---- the invariant of legal histories ---- *)
Record inv (init : list (N * list sample)) (st : state) : Prop := {
  inv_keys : NoDup (map fst st);
  (* every original block is contained in a visible block without deletion mark *)
  inv_cov : forall o ss, In (o, ss) init ->
              exists i b, In (i, b) st /\ m_marked b = false /\ In o (m_sources b);
  (* a block holds every sample of every original block among its sources ... *)
  inv_sup : forall i b, In (i, b) st -> forall o ss, In (o, ss) init -> In o (m_sources b) ->
              forall s, In s ss -> In s (m_samples b);
  (* ... and nothing else *)
  inv_sub : forall i b, In (i, b) st -> forall s, In s (m_samples b) ->
              exists o ss, In (o, ss) init /\ In o (m_sources b) /\ In s ss
}.

Lemma inv_init init : NoDup (map fst init) -> inv init (init_state init).
Proof.
  intros Hnd. unfold init_state. split.
  - rewrite map_map. simpl. exact Hnd.
  - intros o ss Hin. exists o, (mkmb [o] ss false). split; [|split; [reflexivity|left; reflexivity]].
    apply in_map_iff. exists (o, ss). split; [reflexivity|exact Hin].
  - intros i b Hin o ss Ho Hs s Hss. apply in_map_iff in Hin as [[o' ss'] [Heq Hin]]. inversion Heq; subst.
    simpl in *. destruct Hs as [Hs|[]]. subst.
    rewrite (NoDup_fst_functional _ _ _ _ Hnd Hin Ho). exact Hss.
  - intros i b Hin s Hs. apply in_map_iff in Hin as [[o ss] [Heq Hin]]. inversion Heq; subst. simpl in *.
    exists i, ss. split; [exact Hin|]. split; [left; reflexivity|exact Hs].
Qed.

Lemma inv_step init st o : inv init st -> hop_ok st o = true -> inv init (apply_hop st o).
Proof.
  intros [K Cov Sup Sub] Hok. destruct o as [id b|id|id]; simpl in *.
  - (* a new block *)
    apply andb_true_iff in Hok as [Hfresh Hok].
    destruct (parents_of st (cb_parents b)) as [pbs|] eqn:Hp; [|discriminate].
    apply andb_true_iff in Hok as [Hok _]. apply andb_true_iff in Hok as [Hok _].
    apply andb_true_iff in Hok as [Hok Hnd]. apply andb_true_iff in Hok as [Hok Hsm]. apply andb_true_iff in Hok as [_ Hsrc].
    pose proof (seteq_In N.eqb (fun a b => N.eqb_eq a b) _ _ Hsrc) as Esrc.
    pose proof (seteq_In sample_eqb sample_eqb_spec _ _ Hsm) as Esm.
    assert (Hfr : ~ In id (map fst st)).
    { apply find_None. unfold has in Hfresh. destruct (find st id); [discriminate|reflexivity]. }
    split.
    + rewrite map_app. simpl. apply NoDup_app_local; [exact K|constructor; [intros []|constructor]|].
      intros x Hx [Hy|[]]. subst. contradiction.
    + intros o ss Hin. destruct (Cov o ss Hin) as [i [b' [H1 [H2 H3]]]]. exists i, b'. split; [apply in_or_app; left; exact H1|auto].
    + intros i b' Hin o ss Ho Hs s Hss. apply in_app_or in Hin as [Hin|[Hin|[]]]; [eapply Sup; eauto|].
      inversion Hin; subst. simpl in *. apply Esm. apply Esrc in Hs.
      apply in_concat in Hs as [l [Hl Hol]]. apply in_map_iff in Hl as [pb [Hl Hpb]]. subst l.
      destruct (parents_In st _ _ Hp pb Hpb) as [p Hpin].
      apply in_concat. exists (m_samples pb). split; [apply in_map; exact Hpb|]. eapply Sup; eauto.
    + intros i b' Hin s Hs. apply in_app_or in Hin as [Hin|[Hin|[]]]; [eapply Sub; eauto|].
      inversion Hin; subst. simpl in *. apply Esm in Hs.
      apply in_concat in Hs as [l [Hl Hsl]]. apply in_map_iff in Hl as [pb [Hl Hpb]]. subst l.
      destruct (parents_In st _ _ Hp pb Hpb) as [p Hpin].
      destruct (Sub p pb Hpin s Hsl) as [o [ss [H1 [H2 H3]]]]. exists o, ss. split; [exact H1|]. split; [|exact H3].
      apply Esrc. apply in_concat. exists (m_sources pb). split; [apply in_map; exact Hpb|exact H2].
  - (* a deletion mark *)
    destruct (find st id) as [a|] eqn:Hf; [|discriminate].
    apply existsb_exists in Hok as [[j c] [Hjin Hj]]. simpl in Hj.
    apply andb_true_iff in Hj as [Hj Hsub]. apply andb_true_iff in Hj as [Hne Hun].
    apply negb_true_iff in Hne, Hun. apply N.eqb_neq in Hne.
    pose proof (proj1 (subN_In _ _) Hsub) as Hsub'.
    split.
    + rewrite set_marked_keys. exact K.
    + intros o ss Hin. destruct (Cov o ss Hin) as [i [b' [H1 [H2 H3]]]].
      destruct (N.eq_dec i id) as [E|E].
      * subst i. exists j, c. split; [apply set_marked_other; assumption|]. split; [exact Hun|].
        apply Hsub'. rewrite (In_find st id b' K H1) in Hf. inversion Hf; subst. exact H3.
      * exists i, b'. split; [apply set_marked_other; assumption|auto].
    + intros i b' Hin o ss Ho Hs s Hss. apply set_marked_In in Hin as [b0 [Hin [E1 [E2 _]]]].
      rewrite E2. rewrite E1 in Hs. eapply Sup; eauto.
    + intros i b' Hin s Hs. apply set_marked_In in Hin as [b0 [Hin [E1 [E2 _]]]].
      rewrite E2 in Hs. rewrite E1. eapply Sub; eauto.
  - (* a deletion *)
    destruct (find st id) as [a|] eqn:Hf; [|discriminate].
    split.
    + apply remove_keys. exact K.
    + intros o ss Hin. destruct (Cov o ss Hin) as [i [b' [H1 [H2 H3]]]]. exists i, b'.
      split; [|auto]. apply remove_In. split; [exact H1|]. intros E. subst i.
      rewrite (In_find st id b' K H1) in Hf. inversion Hf; subst. congruence.
    + intros i b' Hin. apply remove_In in Hin as [Hin _]. eapply Sup; eauto.
    + intros i b' Hin. apply remove_In in Hin as [Hin _]. eapply Sub; eauto.
Qed.

Lemma inv_prefix init : forall hist st k,
  inv init st -> legal st hist = true -> inv init (fold_left apply_hop (firstn k hist) st).
Proof.
  induction hist as [|o r IH]; intros st k Hi Hl; destruct k; simpl; try exact Hi.
  simpl in Hl. apply andb_true_iff in Hl as [H1 H2]. apply IH; [apply inv_step; assumption|exact H2].
Qed.

(* ---- coverage: from the invariant and the duplicate filter's guarantee ---- *)
Lemma served_from_cover init st hide sel :
  inv init st -> cover_ok st hide sel = true -> served_ok init st sel = true.
Proof.
  intros [K Cov Sup Sub] Hc. unfold cover_ok in Hc. apply andb_true_iff in Hc as [Hc1 Hc2].
  rewrite forallb_forall in Hc1, Hc2. unfold served_ok. apply andb_true_iff. split.
  - apply forallb_forall. intros [o ss] Hin. simpl. apply forallb_forall. intros s Hs.
    destruct (Cov o ss Hin) as [i [b [H1 [H2 H3]]]].
    assert (He : In (i, b) (eligible hide st)).
    { unfold eligible. apply filter_In. split; [exact H1|]. simpl. rewrite H2, andb_false_r. reflexivity. }
    specialize (Hc2 _ He). apply existsb_exists in Hc2 as [id [Hid Hsub]]. simpl in Hsub.
    destruct (find st id) as [b'|] eqn:Hf; [|discriminate].
    unfold served_by. apply existsb_exists. exists id. split; [exact Hid|]. rewrite Hf.
    apply memS_In. eapply Sup; [apply find_In; exact Hf|exact Hin| |exact Hs].
    apply (proj1 (subN_In _ _) Hsub). exact H3.
  - apply forallb_forall. intros id Hid. specialize (Hc1 _ Hid). apply memN_In in Hc1.
    apply in_map_iff in Hc1 as [[i b] [Hi Hin]]. simpl in Hi. subst i.
    unfold eligible in Hin. apply filter_In in Hin as [Hin _].
    rewrite (In_find st id b K Hin). apply forallb_forall. intros s Hs.
    destruct (Sub id b Hin s Hs) as [o [ss [H1 [H2 H3]]]].
    apply existsb_exists. exists (o, ss). split; [exact H1|]. simpl. apply memS_In. exact H3.
Qed.

Lemma served_steps_from_cover init : forall steps st,
  inv init st -> legal st (map (fun s => fst (fst s)) steps) = true ->
  cover_steps st steps = true -> served_steps init st steps = true.
Proof.
  induction steps as [|[[o s0] s1] r IH]; intros st Hi Hl Hc; simpl in *; [reflexivity|].
  apply andb_true_iff in Hl as [Hok Hl]. apply andb_true_iff in Hc as [Hc Hcr]. apply andb_true_iff in Hc as [Hc _].
  apply andb_true_iff in Hc as [Hc _]. apply andb_true_iff in Hc as [Hc0 Hc1].
  assert (Hi' : inv init (apply_hop st o)) by (apply inv_step; assumption).
  rewrite (served_from_cover init _ true s0 Hi' Hc0), (served_from_cover init _ false s1 Hi' Hc1). simpl.
  apply IH; assumption.
Qed.

Opaque order_ok.

Lemma crash_safe_case c : corr_ok c = true -> cover_all c = true -> served_all c = true.
Proof.
  destruct c as [v init s0 s1 steps q]. simpl. intros Hc Hcov.
  apply andb_true_iff in Hc as [Hc Hl]. apply andb_true_iff in Hc as [Hc _]. apply andb_true_iff in Hc as [_ Hnd].
  apply andb_true_iff in Hcov as [Hcov Hcs]. apply andb_true_iff in Hcov as [Hcov _].
  apply andb_true_iff in Hcov as [Hcov _]. apply andb_true_iff in Hcov as [H0 H1].
  pose proof (inv_init init (nodupN_NoDup _ Hnd)) as Hi.
  rewrite (served_from_cover init _ true s0 Hi H0), (served_from_cover init _ false s1 Hi H1). simpl.
  apply served_steps_from_cover; assumption.
Qed.

(* ---- readable statements ---- *)

(* at every crash point of every legal history, whatever covering selection the store
   gateway makes, every original sample is served and nothing else is *)
Lemma crash_safe init hist k hide sel :
  NoDup (map fst init) -> legal (init_state init) hist = true ->
  let st := fold_left apply_hop (firstn k hist) (init_state init) in
  cover_ok st hide sel = true ->
  (forall o ss s, In (o, ss) init -> In s ss ->
     exists id b, In id sel /\ find st id = Some b /\ In s (m_samples b))
  /\ (forall id b s, In id sel -> find st id = Some b -> In s (m_samples b) ->
     exists o ss, In (o, ss) init /\ In s ss).
Proof.
  intros Hnd Hl st Hc.
  pose proof (inv_prefix init hist _ k (inv_init init Hnd) Hl) as Hi. fold st in Hi.
  pose proof (served_from_cover init st hide sel Hi Hc) as Hs.
  unfold served_ok in Hs. apply andb_true_iff in Hs as [Hs1 Hs2]. rewrite forallb_forall in Hs1, Hs2. split.
  - intros o ss s Hin Hss. specialize (Hs1 _ Hin). simpl in Hs1. rewrite forallb_forall in Hs1.
    specialize (Hs1 _ Hss). unfold served_by in Hs1. apply existsb_exists in Hs1 as [id [Hid Hm]].
    destruct (find st id) as [b|] eqn:Hf; [|discriminate]. exists id, b. split; [exact Hid|]. split; [exact Hf|].
    apply memS_In. exact Hm.
  - intros id b s Hid Hf Hsb. specialize (Hs2 _ Hid). rewrite Hf in Hs2. rewrite forallb_forall in Hs2.
    specialize (Hs2 _ Hsb). apply existsb_exists in Hs2 as [[o ss] [Hin Hm]]. exists o, ss. split; [exact Hin|].
    apply memS_In. exact Hm.
Qed.

(* every block of every legal history holds exactly the samples of its source blocks *)
Lemma merge_exact init hist k i b :
  NoDup (map fst init) -> legal (init_state init) hist = true ->
  In (i, b) (fold_left apply_hop (firstn k hist) (init_state init)) ->
  forall s, In s (m_samples b) <-> exists o ss, In (o, ss) init /\ In o (m_sources b) /\ In s ss.
Proof.
  intros Hnd Hl Hin s.
  destruct (inv_prefix init hist _ k (inv_init init Hnd) Hl) as [K Cov Sup Sub]. split.
  - intros Hs. eapply Sub; eauto.
  - intros [o [ss [H1 [H2 H3]]]]. eapply Sup; eauto.
Qed.

(* ---- exactly once: the source sets of the visible blocks form a laminar family ---- *)
Definition lam2 (a c : list N) : Prop :=
  (forall x, In x a -> In x c) \/ (forall x, In x c -> In x a) \/ (forall x, In x a -> ~ In x c).

Definition laminar (st : state) : Prop :=
  forall i a j c, In (i, a) st -> In (j, c) st -> lam2 (m_sources a) (m_sources c).

Lemma laminar_init init : laminar (init_state init).
Proof.
  intros i a j c Hi Hj. unfold init_state in *.
  apply in_map_iff in Hi as [[o ss] [E1 _]]. apply in_map_iff in Hj as [[o' ss'] [E2 _]].
  simpl in E1, E2. inversion E1 as [[Ei Ea]]. inversion E2 as [[Ej Ec]]. simpl.
  destruct (N.eq_dec o o') as [E|E].
  - subst. left. auto.
  - right. right. intros x [Hx|[]] [Hy|[]]. congruence.
Qed.

Lemma exists_or_all {A} (P Q : A -> Prop) (l : list A) :
  (forall x, In x l -> P x \/ Q x) -> (exists x, In x l /\ P x) \/ (forall x, In x l -> Q x).
Proof.
  induction l as [|y r IH]; intros H; [right; intros x []|].
  destruct (H y (or_introl eq_refl)) as [Hp|Hq]; [left; exists y; split; [left; reflexivity|exact Hp]|].
  destruct IH as [[x [Hx Hp]]|Hall]; [intros x Hx; apply H; right; exact Hx| |].
  - left. exists x. split; [right; exact Hx|exact Hp].
  - right. intros x [Hx|Hx]; [subst; exact Hq|apply Hall; exact Hx].
Qed.

Lemma laminar_step st o : laminar st -> hop_ok st o = true -> laminar (apply_hop st o).
Proof.
  intros Hlam Hok. destruct o as [id b|id|id]; simpl in *.
  - apply andb_true_iff in Hok as [_ Hok].
    destruct (parents_of st (cb_parents b)) as [pbs|] eqn:Hp; [|discriminate].
    apply andb_true_iff in Hok as [Hok _]. apply andb_true_iff in Hok as [Hok Hmax].
    apply andb_true_iff in Hok as [Hok _]. apply andb_true_iff in Hok as [Hok _]. apply andb_true_iff in Hok as [_ Hsrc].
    pose proof (seteq_In N.eqb (fun a b => N.eqb_eq a b) _ _ Hsrc) as Esrc.
    (* an old block against the new one *)
    assert (Hold : forall j c, In (j, c) st ->
              (forall x, In x (m_sources c) -> In x (cb_sources b))
              \/ (forall x, In x (cb_sources b) -> ~ In x (m_sources c))).
    { intros j c Hc.
      assert (Hall : forall pb, In pb pbs ->
                (forall x, In x (m_sources c) -> In x (m_sources pb)) \/ (forall x, In x (m_sources pb) -> ~ In x (m_sources c))).
      { intros pb Hpb. destruct (parents_In st _ _ Hp pb Hpb) as [p Hpin].
        destruct (Hlam p pb j c Hpin Hc) as [H|[H|H]]; [|left; exact H|right; exact H].
        left. rewrite forallb_forall in Hmax. specialize (Hmax pb Hpb). rewrite forallb_forall in Hmax.
        specialize (Hmax (j, c) Hc). simpl in Hmax. apply orb_true_iff in Hmax as [Hm|Hm].
        - apply negb_true_iff in Hm. assert (subN (m_sources pb) (m_sources c) = true) by (apply subN_In; exact H). congruence.
        - apply subN_In. exact Hm. }
      destruct (exists_or_all _ _ pbs Hall) as [[pb [Hpb Hsub]]|Hdis].
      - left. intros x Hx. apply Esrc. apply in_concat. exists (m_sources pb). split; [apply in_map; exact Hpb|apply Hsub; exact Hx].
      - right. intros x Hx. apply Esrc in Hx. apply in_concat in Hx as [l [Hl Hxl]].
        apply in_map_iff in Hl as [pb [El Hpb]]. subst l. apply (Hdis pb Hpb). exact Hxl. }
    intros i a j c Hi Hj. apply in_app_or in Hi as [Hi|[Hi|[]]]; apply in_app_or in Hj as [Hj|[Hj|[]]].
    + eapply Hlam; eauto.
    + inversion Hj; subst; simpl. destruct (Hold i a Hi) as [H|H]; [left; exact H|].
      right. right. intros x Hx Hy. apply (H x Hy Hx).
    + inversion Hi; subst; simpl. destruct (Hold j c Hj) as [H|H]; [right; left; exact H|right; right; exact H].
    + inversion Hi; inversion Hj; subst; simpl. left. auto.
  - intros i a j c Hi Hj.
    apply set_marked_In in Hi as [a0 [Hi [E1 _]]]. apply set_marked_In in Hj as [c0 [Hj [E2 _]]].
    rewrite E1, E2. eapply Hlam; eauto.
  - intros i a j c Hi Hj. apply remove_In in Hi as [Hi _]. apply remove_In in Hj as [Hj _]. eapply Hlam; eauto.
Qed.

Lemma laminar_prefix : forall hist st k,
  laminar st -> legal st hist = true -> laminar (fold_left apply_hop (firstn k hist) st).
Proof.
  induction hist as [|o r IH]; intros st k Hi Hl; destruct k; simpl; try exact Hi.
  simpl in Hl. apply andb_true_iff in Hl as [H1 H2]. apply IH; [apply laminar_step; assumption|exact H2].
Qed.

(* original blocks do not share samples *)
Definition orig_disjoint (init : list (N * list sample)) : Prop :=
  forall o ss o' ss' s, In (o, ss) init -> In (o', ss') init -> In s ss -> In s ss' -> o = o'.

Lemma served_once_state init st sel :
  inv init st -> laminar st -> orig_disjoint init -> antichain_ok st sel = true ->
  forall i j a c s, In i sel -> In j sel -> find st i = Some a -> find st j = Some c ->
    In s (m_samples a) -> In s (m_samples c) -> i = j.
Proof.
  intros [K Cov Sup Sub] Hlam Hod Hanti i j a c s Hi Hj Ha Hc Hsa Hsc.
  destruct (N.eq_dec i j) as [E|E]; [exact E|exfalso].
  unfold antichain_ok in Hanti. apply andb_true_iff in Hanti as [_ Hanti]. rewrite forallb_forall in Hanti.
  pose proof (Hanti i Hi) as H1. rewrite forallb_forall in H1. specialize (H1 j Hj).
  pose proof (Hanti j Hj) as H2. rewrite forallb_forall in H2. specialize (H2 i Hi).
  rewrite Ha, Hc in H1. rewrite Ha, Hc in H2.
  apply N.eqb_neq in E. rewrite E in H1. rewrite N.eqb_sym, E in H2. simpl in H1, H2.
  apply negb_true_iff in H1, H2.
  pose proof (find_In _ _ _ Ha) as Hia. pose proof (find_In _ _ _ Hc) as Hjc.
  destruct (Hlam i a j c Hia Hjc) as [H|[H|H]].
  - apply subN_In in H. congruence.
  - apply subN_In in H. congruence.
  - destruct (Sub i a Hia s Hsa) as [o [ss [O1 [O2 O3]]]].
    destruct (Sub j c Hjc s Hsc) as [o' [ss' [P1 [P2 P3]]]].
    assert (o = o') by (eapply Hod; eauto). subst o'. apply (H o O2 P2).
Qed.

Lemma nodupS_NoDup l : nodup sample_eqb l = true -> NoDup l.
Proof.
  induction l as [|x r IH]; simpl; intros H; [constructor|].
  apply andb_true_iff in H as [H1 H2]. constructor; [|apply IH; exact H2].
  intros Hin. apply memS_In in Hin. unfold memS in Hin. rewrite Hin in H1. discriminate.
Qed.

Definition blocks_nodup (st : state) : Prop := forall i b, In (i, b) st -> NoDup (m_samples b).

Lemma blocks_nodup_step st o : blocks_nodup st -> hop_ok st o = true -> blocks_nodup (apply_hop st o).
Proof.
  intros Hn Hok. destruct o as [id b|id|id]; simpl in *.
  - apply andb_true_iff in Hok as [_ Hok].
    destruct (parents_of st (cb_parents b)) as [pbs|]; [|discriminate].
    apply andb_true_iff in Hok as [Hok _]. apply andb_true_iff in Hok as [Hok _]. apply andb_true_iff in Hok as [_ Hnd].
    intros i b' Hin. apply in_app_or in Hin as [Hin|[Hin|[]]]; [eapply Hn; eauto|].
    inversion Hin; subst. simpl. apply nodupS_NoDup. exact Hnd.
  - intros i b' Hin. apply set_marked_In in Hin as [b0 [Hin [_ [E _]]]]. rewrite E. eapply Hn; eauto.
  - intros i b' Hin. apply remove_In in Hin as [Hin _]. eapply Hn; eauto.
Qed.

Lemma blocks_nodup_prefix : forall hist st k,
  blocks_nodup st -> legal st hist = true -> blocks_nodup (fold_left apply_hop (firstn k hist) st).
Proof.
  induction hist as [|o r IH]; intros st k Hi Hl; destruct k; simpl; try exact Hi.
  simpl in Hl. apply andb_true_iff in Hl as [H1 H2]. apply IH; [apply blocks_nodup_step; assumption|exact H2].
Qed.

(* at every prefix of a legal history over original blocks that share no sample, with a
   non-nested selection: a sample is in at most one selected block, once *)
Lemma served_once init hist k sel :
  NoDup (map fst init) -> (forall o ss, In (o, ss) init -> NoDup ss) -> orig_disjoint init ->
  legal (init_state init) hist = true ->
  let st := fold_left apply_hop (firstn k hist) (init_state init) in
  antichain_ok st sel = true ->
  (forall i j a c s, In i sel -> In j sel -> find st i = Some a -> find st j = Some c ->
     In s (m_samples a) -> In s (m_samples c) -> i = j)
  /\ (forall i a, find st i = Some a -> NoDup (m_samples a)).
Proof.
  intros Hnd Hss Hod Hl st Hanti. split.
  - apply (served_once_state init st sel); try assumption.
    + apply inv_prefix; [apply inv_init; exact Hnd|exact Hl].
    + apply laminar_prefix; [apply laminar_init|exact Hl].
  - intros i a Hf. apply find_In in Hf.
    assert (Hb : blocks_nodup st).
    { apply blocks_nodup_prefix; [|exact Hl]. intros j b Hin. unfold init_state in Hin.
      apply in_map_iff in Hin as [[o ss] [E Hin]]. inversion E; subst. simpl. eapply Hss; eauto. }
    eapply Hb; eauto.
Qed.

(* ---- exactly once, on the case: corr_ok /\ cover_all /\ disjoint inputs -> once_ok ---- *)
Lemma nodup_complete {A} (eqb : A -> A -> bool) (Heq : forall a b, eqb a b = true <-> a = b) l :
  NoDup l -> nodup eqb l = true.
Proof.
  induction 1 as [|x r Hni Hnd IH]; simpl; [reflexivity|]. rewrite IH, andb_true_r.
  apply negb_true_iff. destruct (mem eqb x r) eqn:E; [|reflexivity].
  apply (mem_In eqb Heq) in E. contradiction.
Qed.

Lemma NoDup_concat_map {A} (f : N -> list A) (l : list N) :
  NoDup l -> (forall x, In x l -> NoDup (f x)) ->
  (forall x y a, In x l -> In y l -> In a (f x) -> In a (f y) -> x = y) ->
  NoDup (List.concat (map f l)).
Proof.
  induction 1 as [|x r Hni Hnd IH]; intros H1 H2; simpl; [constructor|].
  apply NoDup_app_local.
  - apply H1. left; reflexivity.
  - apply IH; [intros y Hy; apply H1; right; exact Hy|].
    intros y z a Hy Hz. apply H2; right; assumption.
  - intros a Ha Hc. apply in_concat in Hc as [m [Hm Ham]]. apply in_map_iff in Hm as [y [Ey Hy]]. subst m.
    assert (x = y) by (apply (H2 x y a); [left; reflexivity|right; exact Hy|exact Ha|exact Ham]).
    subst. contradiction.
Qed.

Lemma orig_disjoint_b_spec init : NoDup (map fst init) -> orig_disjoint_b init = true -> orig_disjoint init.
Proof.
  induction init as [|[k v] r IH]; intros Hnd Hb o ss o' ss' s H1 H2 S1 S2; simpl in *; [contradiction|].
  inversion Hnd as [|? ? Hni Hnd']; subst. apply andb_true_iff in Hb as [Hd Hb].
  rewrite forallb_forall in Hd.
  assert (Hx : forall p t, In p r -> In t v -> In t (snd p) -> False).
  { intros p t Hp Hv Hs. specialize (Hd p Hp). unfold disjoint in Hd. rewrite forallb_forall in Hd.
    specialize (Hd t Hv). apply negb_true_iff in Hd. apply memS_In in Hs. unfold memS in Hs. congruence. }
  destruct H1 as [H1|H1], H2 as [H2|H2].
  - congruence.
  - inversion H1; subst. exfalso. apply (Hx (o', ss') s H2 S1 S2).
  - inversion H2; subst. exfalso. apply (Hx (o, ss) s H1 S2 S1).
  - eapply IH; eauto.
Qed.

Lemma served_list_NoDup init st sel :
  inv init st -> laminar st -> blocks_nodup st -> orig_disjoint init -> antichain_ok st sel = true ->
  (forall id, In id sel -> find st id <> None) ->
  NoDup (served_list st sel).
Proof.
  intros Hi Hlam Hbn Hod Hanti Hfound. unfold served_list.
  apply NoDup_concat_map.
  - unfold antichain_ok in Hanti. apply andb_true_iff in Hanti as [Hn _]. apply nodupN_NoDup. exact Hn.
  - intros id Hid. destruct (find st id) as [b|] eqn:Hf; [|constructor]. eapply Hbn. apply find_In. exact Hf.
  - intros i j s Hx Hy Sa Sc.
    destruct (find st i) as [a|] eqn:Ha; [|contradiction]. destruct (find st j) as [c|] eqn:Hc; [|contradiction].
    eapply (served_once_state init st sel); eauto.
Qed.

Lemma cover_found st hide sel :
  NoDup (map fst st) -> cover_ok st hide sel = true -> forall id, In id sel -> find st id <> None.
Proof.
  intros K Hc id Hid. unfold cover_ok in Hc. apply andb_true_iff in Hc as [Hc _].
  rewrite forallb_forall in Hc. specialize (Hc id Hid). apply memN_In in Hc.
  apply in_map_iff in Hc as [[i b] [Ei Hin]]. simpl in Ei. subst i.
  unfold eligible in Hin. apply filter_In in Hin as [Hin _].
  rewrite (In_find st id b K Hin). discriminate.
Qed.

Lemma last_view_props init : forall steps st s0 s1,
  inv init st -> laminar st -> blocks_nodup st ->
  legal st (map (fun s => fst (fst s)) steps) = true ->
  cover_ok st true s0 = true -> cover_ok st false s1 = true ->
  antichain_ok st s0 = true -> antichain_ok st s1 = true ->
  cover_steps st steps = true ->
  match last_view st s0 s1 steps with
  | (st', f0, f1) =>
      inv init st' /\ laminar st' /\ blocks_nodup st'
      /\ cover_ok st' true f0 = true /\ cover_ok st' false f1 = true
      /\ antichain_ok st' f0 = true /\ antichain_ok st' f1 = true
  end.
Proof.
  induction steps as [|[[o a] b] r IH]; intros st s0 s1 Hi Hl Hb Hlg C0 C1 A0 A1 Hcs; simpl in *.
  - repeat (split; [assumption|]); assumption.
  - apply andb_true_iff in Hlg as [Hok Hlg].
    apply andb_true_iff in Hcs as [Hcs Hr]. apply andb_true_iff in Hcs as [Hcs A1'].
    apply andb_true_iff in Hcs as [Hcs A0']. apply andb_true_iff in Hcs as [C0' C1'].
    apply IH; try assumption.
    + apply inv_step; assumption.
    + apply laminar_step; assumption.
    + apply blocks_nodup_step; assumption.
Qed.

Lemma once_case c :
  corr_ok c = true -> cover_all c = true ->
  match c with CHist _ init _ _ _ _ => orig_disjoint_b init = true end ->
  once_ok c = true.
Proof.
  destruct c as [v init s0 s1 steps q]. simpl. intros Hc Hcov Hdis.
  destruct q; [|reflexivity].
  apply andb_true_iff in Hc as [Hc Hl]. apply andb_true_iff in Hc as [Hc Hsn]. apply andb_true_iff in Hc as [_ Hnd].
  apply andb_true_iff in Hcov as [Hcov Hcs]. apply andb_true_iff in Hcov as [Hcov A1].
  apply andb_true_iff in Hcov as [Hcov A0]. apply andb_true_iff in Hcov as [C0 C1].
  pose proof (nodupN_NoDup _ Hnd) as Hnd'.
  pose proof (inv_init init Hnd') as Hi.
  assert (Hb : blocks_nodup (init_state init)).
  { intros j b Hin. unfold init_state in Hin. apply in_map_iff in Hin as [[o ss] [E Hin]].
    simpl in E. inversion E as [[Ej Eb]]. simpl.
    rewrite forallb_forall in Hsn. apply nodupS_NoDup. apply (Hsn (o, ss) Hin). }
  pose proof (last_view_props init steps _ s0 s1 Hi (laminar_init init) Hb Hl C0 C1 A0 A1 Hcs) as H.
  destruct (last_view (init_state init) s0 s1 steps) as [[st f0] f1].
  destruct H as [Hi' [Hl' [Hb' [D0 [D1 [E0 E1]]]]]].
  pose proof (orig_disjoint_b_spec init Hnd' Hdis) as Hod.
  apply andb_true_iff. split; apply (nodup_complete sample_eqb sample_eqb_spec).
  - apply (served_list_NoDup init st f0 Hi' Hl' Hb' Hod E0). apply (cover_found st true f0 (inv_keys _ _ Hi') D0).
  - apply (served_list_NoDup init st f1 Hi' Hl' Hb' Hod E1). apply (cover_found st false f1 (inv_keys _ _ Hi') D1).
Qed.
