(* C29 — proofs about Model/C29.v. *)
From Coq Require Import ZArith NArith List Bool Lia Arith.
Import ListNotations.
From Verif Require Import Lib.Corr Gen.C29 Model.C29.
From Verif Require Model.C31 Proofs.C31.

(* ---- list-sets ---- *)
Lemma sample_eqb_spec a b : sample_eqb a b = true <-> a = b.
Proof.
  destruct a as [[s t] v], b as [[s' t'] v']. unfold sample_eqb; simpl.
  rewrite !andb_true_iff, N.eqb_eq, !Z.eqb_eq. split; [intros [[? ?] ?]; subst; reflexivity|intros H; inversion H; auto].
Qed.

Lemma mem_In {A} (eqb : A -> A -> bool) (Heq : forall a b, eqb a b = true <-> a = b) x l :
  mem eqb x l = true <-> In x l.
Proof.
  induction l as [|y r IH]; simpl; [split; [discriminate|tauto]|].
  rewrite orb_true_iff, Heq, IH. split; intros [H|H]; auto.
Qed.

Lemma memN_In x l : memN x l = true <-> In x l.
Proof. apply mem_In. intros a b. apply N.eqb_eq. Qed.
Lemma memS_In x l : memS x l = true <-> In x l.
Proof. apply mem_In, sample_eqb_spec. Qed.

Lemma subset_In {A} (eqb : A -> A -> bool) (Heq : forall a b, eqb a b = true <-> a = b) a b :
  subset eqb a b = true <-> (forall x, In x a -> In x b).
Proof.
  unfold subset. rewrite forallb_forall. split; intros H x Hx.
  - apply (mem_In eqb Heq). apply H. exact Hx.
  - apply (mem_In eqb Heq). apply H. exact Hx.
Qed.

Lemma subN_In a b : subN a b = true <-> (forall x, In x a -> In x b).
Proof. apply subset_In. intros x y. apply N.eqb_eq. Qed.

Lemma seteq_In {A} (eqb : A -> A -> bool) (Heq : forall a b, eqb a b = true <-> a = b) a b :
  seteq eqb a b = true -> (forall x, In x a <-> In x b).
Proof.
  unfold seteq. rewrite andb_true_iff, !(subset_In eqb Heq). intros [H1 H2] x. split; auto.
Qed.

Lemma nodupN_NoDup l : nodup N.eqb l = true -> NoDup l.
Proof.
  induction l as [|x r IH]; simpl; intros H; [constructor|].
  apply andb_true_iff in H as [H1 H2]. constructor; [|apply IH; exact H2].
  intros Hin. apply memN_In in Hin. unfold memN in Hin. rewrite Hin in H1. discriminate.
Qed.

Lemma NoDup_app_local {A} (l1 l2 : list A) :
  NoDup l1 -> NoDup l2 -> (forall x, In x l1 -> In x l2 -> False) -> NoDup (l1 ++ l2).
Proof.
  induction l1 as [|x r IH]; simpl; intros H1 H2 H; [exact H2|].
  inversion H1 as [|? ? Hni Hnd]; subst. constructor.
  - intros Hin. apply in_app_or in Hin as [Hin|Hin]; [contradiction|]. apply (H x); [left; reflexivity|exact Hin].
  - apply IH; [exact Hnd|exact H2|]. intros y Hy1 Hy2. apply (H y); [right; exact Hy1|exact Hy2].
Qed.

(* ---- state ---- *)
Lemma find_In st id b : find st id = Some b -> In (id, b) st.
Proof.
  induction st as [|[i x] r IH]; simpl; [discriminate|].
  destruct (N.eqb id i) eqn:E.
  - intros H. inversion H; subst. apply N.eqb_eq in E. subst. left; reflexivity.
  - intros H. right. apply IH. exact H.
Qed.

Lemma find_None st id : find st id = None -> ~ In id (map fst st).
Proof.
  induction st as [|[i x] r IH]; simpl; [tauto|].
  destruct (N.eqb id i) eqn:E; [discriminate|].
  intros H [H1|H1]; [subst; rewrite N.eqb_refl in E; discriminate|]. apply IH; assumption.
Qed.

Lemma In_find st id b : NoDup (map fst st) -> In (id, b) st -> find st id = Some b.
Proof.
  induction st as [|[i x] r IH]; simpl; intros Hnd Hin; [contradiction|].
  inversion Hnd as [|? ? Hni Hnd']; subst.
  destruct Hin as [H|H].
  - inversion H; subst. rewrite N.eqb_refl. reflexivity.
  - destruct (N.eqb id i) eqn:E.
    + apply N.eqb_eq in E. subst. exfalso. apply Hni. apply (in_map fst) in H. exact H.
    + apply IH; assumption.
Qed.

Lemma remove_In st id i b : In (i, b) (remove st id) <-> In (i, b) st /\ i <> id.
Proof.
  induction st as [|[j x] r IH]; simpl; [tauto|].
  destruct (N.eqb id j) eqn:E.
  - apply N.eqb_eq in E. subst j. rewrite IH. split.
    + intros [H1 H2]. split; [right; exact H1|exact H2].
    + intros [[H1|H1] H2]; [inversion H1; subst; congruence|split; assumption].
  - simpl. rewrite IH. apply N.eqb_neq in E. split.
    + intros [H|[H1 H2]]; [inversion H; subst; split; [left; reflexivity|congruence]|split; [right; exact H1|exact H2]].
    + intros [[H1|H1] H2]; [left; exact H1|right; split; assumption].
Qed.

Lemma remove_keys st id : NoDup (map fst st) -> NoDup (map fst (remove st id)).
Proof.
  induction st as [|[j x] r IH]; simpl; intros H; [constructor|].
  inversion H as [|? ? Hni Hnd]; subst.
  destruct (N.eqb id j); [apply IH; exact Hnd|]. simpl. constructor; [|apply IH; exact Hnd].
  intros Hin. apply Hni. apply in_map_iff in Hin as [[k y] [Hk Hin]]. simpl in Hk. subst k.
  apply remove_In in Hin as [Hin _]. apply (in_map fst) in Hin. exact Hin.
Qed.

Lemma set_marked_keys st id : map fst (set_marked st id) = map fst st.
Proof.
  unfold set_marked. rewrite map_map. apply map_ext. intros [i b]. simpl. destruct (N.eqb i id); reflexivity.
Qed.

Lemma set_marked_In st id i b' :
  In (i, b') (set_marked st id) ->
  exists b, In (i, b) st /\ m_sources b' = m_sources b /\ m_samples b' = m_samples b
            /\ (i <> id -> b' = b)
            /\ m_group b' = m_group b /\ m_mint b' = m_mint b /\ m_maxt b' = m_maxt b /\ m_level b' = m_level b.
Proof.
  unfold set_marked. intros H. apply in_map_iff in H as [[j b] [Heq Hin]]. simpl in Heq.
  destruct (N.eqb j id) eqn:E; inversion Heq; subst.
  - exists b. repeat split; auto. intros Hne. apply N.eqb_eq in E. congruence.
  - exists b'. repeat split; auto.
Qed.

Lemma set_marked_other st id i b : In (i, b) st -> i <> id -> In (i, b) (set_marked st id).
Proof.
  intros Hin Hne. unfold set_marked. apply in_map_iff. exists (i, b). split; [|exact Hin].
  simpl. apply N.eqb_neq in Hne. rewrite Hne. reflexivity.
Qed.

Lemma parents_In st : forall ps pbs, parents_of st ps = Some pbs -> forall pb, In pb pbs -> exists p, In (p, pb) st.
Proof.
  unfold parents_of. induction ps as [|p r IH]; intros pbs H pb Hin; simpl in H.
  - inversion H; subst. contradiction.
  - destruct (find st p) as [x|] eqn:Hf; [|discriminate].
    destruct (all_some_mb (map (find st) r)) as [y|] eqn:Hr; [|discriminate].
    inversion H; subst. destruct Hin as [Hin|Hin].
    + subst. exists p. apply find_In. exact Hf.
    + eapply IH; eauto.
Qed.

Lemma NoDup_fst_functional {A B} (l : list (A * B)) k v v' :
  NoDup (map fst l) -> In (k, v) l -> In (k, v') l -> v = v'.
Proof.
  induction l as [|[k0 v0] r IH]; simpl; intros Hnd H1 H2; [contradiction|].
  inversion Hnd as [|? ? Hni Hnd']; subst.
  destruct H1 as [H1|H1], H2 as [H2|H2].
  - congruence.
  - inversion H1; subst. exfalso. apply Hni. apply (in_map fst) in H2. exact H2.
  - inversion H2; subst. exfalso. apply Hni. apply (in_map fst) in H1. exact H1.
  - apply IH; assumption.
Qed.

(* ---- the invariant of legal histories ---- *)
Record inv (init : list (N * list sample)) (st : state) : Prop := {
  inv_keys : NoDup (map fst st);
  (* every original block is contained in a visible block without deletion mark *)
  inv_cov : forall o ss, In (o, ss) init ->
              exists i b, In (i, b) st /\ m_marked b = false /\ In o (m_sources b);
  (* a block holds every sample of every original block among its sources ... *)
  inv_sup : forall i b, In (i, b) st -> forall o ss, In (o, ss) init -> In o (m_sources b) ->
              forall s, In s ss -> In s (m_samples b);
  (* ... and nothing else *)
  inv_sub : forall i b, In (i, b) st -> forall s, In s (m_samples b) ->
              exists o ss, In (o, ss) init /\ In o (m_sources b) /\ In s ss
}.

Lemma inv_init G init : NoDup (map fst init) -> inv init (init_state G init).
Proof.
  intros Hnd. unfold init_state. split.
  - rewrite map_map. simpl. exact Hnd.
  - intros o ss Hin. exists o, (mkmb [o] ss false (og (ometa_of G o)) 1 (omint (ometa_of G o)) (omaxt (ometa_of G o))). split; [|split; [reflexivity|left; reflexivity]].
    apply in_map_iff. exists (o, ss). split; [reflexivity|exact Hin].
  - intros i b Hin o ss Ho Hs s Hss. apply in_map_iff in Hin as [[o' ss'] [Heq Hin]]. inversion Heq; subst.
    simpl in *. destruct Hs as [Hs|[]]. subst.
    rewrite (NoDup_fst_functional _ _ _ _ Hnd Hin Ho). exact Hss.
  - intros i b Hin s Hs. apply in_map_iff in Hin as [[o ss] [Heq Hin]]. inversion Heq; subst. simpl in *.
    exists i, ss. split; [exact Hin|]. split; [left; reflexivity|exact Hs].
Qed.

Lemma inv_step init st o : inv init st -> hop_ok st o = true -> inv init (apply_hop st o).
Proof.
  intros [K Cov Sup Sub] Hok. destruct o as [id b|id|id]; simpl in *.
  - (* a new block *)
    apply andb_true_iff in Hok as [Hfresh Hok].
    destruct (parents_of st (cb_parents b)) as [pbs|] eqn:Hp; [|discriminate].
    apply andb_true_iff in Hok as [Hok _].
    apply andb_true_iff in Hok as [Hok _]. apply andb_true_iff in Hok as [Hok _].
    apply andb_true_iff in Hok as [Hok Hnd]. apply andb_true_iff in Hok as [Hok Hsm]. apply andb_true_iff in Hok as [_ Hsrc].
    pose proof (seteq_In N.eqb (fun a b => N.eqb_eq a b) _ _ Hsrc) as Esrc.
    pose proof (seteq_In sample_eqb sample_eqb_spec _ _ Hsm) as Esm.
    assert (Hfr : ~ In id (map fst st)).
    { apply find_None. unfold has in Hfresh. destruct (find st id); [discriminate|reflexivity]. }
    split.
    + rewrite map_app. simpl. apply NoDup_app_local; [exact K|constructor; [intros []|constructor]|].
      intros x Hx [Hy|[]]. subst. contradiction.
    + intros o ss Hin. destruct (Cov o ss Hin) as [i [b' [H1 [H2 H3]]]]. exists i, b'. split; [apply in_or_app; left; exact H1|auto].
    + intros i b' Hin o ss Ho Hs s Hss. apply in_app_or in Hin as [Hin|[Hin|[]]]; [eapply Sup; eauto|].
      inversion Hin; subst. simpl in *. apply Esm. apply Esrc in Hs.
      apply in_concat in Hs as [l [Hl Hol]]. apply in_map_iff in Hl as [pb [Hl Hpb]]. subst l.
      destruct (parents_In st _ _ Hp pb Hpb) as [p Hpin].
      apply in_concat. exists (m_samples pb). split; [apply in_map; exact Hpb|]. eapply Sup; eauto.
    + intros i b' Hin s Hs. apply in_app_or in Hin as [Hin|[Hin|[]]]; [eapply Sub; eauto|].
      inversion Hin; subst. simpl in *. apply Esm in Hs.
      apply in_concat in Hs as [l [Hl Hsl]]. apply in_map_iff in Hl as [pb [Hl Hpb]]. subst l.
      destruct (parents_In st _ _ Hp pb Hpb) as [p Hpin].
      destruct (Sub p pb Hpin s Hsl) as [o [ss [H1 [H2 H3]]]]. exists o, ss. split; [exact H1|]. split; [|exact H3].
      apply Esrc. apply in_concat. exists (m_sources pb). split; [apply in_map; exact Hpb|exact H2].
  - (* a deletion mark *)
    destruct (find st id) as [a|] eqn:Hf; [|discriminate].
    apply existsb_exists in Hok as [[j c] [Hjin Hj]]. simpl in Hj.
    apply andb_true_iff in Hj as [Hj Hsub]. apply andb_true_iff in Hj as [Hne Hun].
    apply negb_true_iff in Hne, Hun. apply N.eqb_neq in Hne.
    pose proof (proj1 (subN_In _ _) Hsub) as Hsub'.
    split.
    + rewrite set_marked_keys. exact K.
    + intros o ss Hin. destruct (Cov o ss Hin) as [i [b' [H1 [H2 H3]]]].
      destruct (N.eq_dec i id) as [E|E].
      * subst i. exists j, c. split; [apply set_marked_other; assumption|]. split; [exact Hun|].
        apply Hsub'. rewrite (In_find st id b' K H1) in Hf. inversion Hf; subst. exact H3.
      * exists i, b'. split; [apply set_marked_other; assumption|auto].
    + intros i b' Hin o ss Ho Hs s Hss. apply set_marked_In in Hin as [b0 [Hin [E1 [E2 _]]]].
      rewrite E2. rewrite E1 in Hs. eapply Sup; eauto.
    + intros i b' Hin s Hs. apply set_marked_In in Hin as [b0 [Hin [E1 [E2 _]]]].
      rewrite E2 in Hs. rewrite E1. eapply Sub; eauto.
  - (* a deletion *)
    destruct (find st id) as [a|] eqn:Hf; [|discriminate].
    split.
    + apply remove_keys. exact K.
    + intros o ss Hin. destruct (Cov o ss Hin) as [i [b' [H1 [H2 H3]]]]. exists i, b'.
      split; [|auto]. apply remove_In. split; [exact H1|]. intros E. subst i.
      rewrite (In_find st id b' K H1) in Hf. inversion Hf; subst. congruence.
    + intros i b' Hin. apply remove_In in Hin as [Hin _]. eapply Sup; eauto.
    + intros i b' Hin. apply remove_In in Hin as [Hin _]. eapply Sub; eauto.
Qed.

Lemma inv_prefix init : forall hist st k,
  inv init st -> legal st hist = true -> inv init (fold_left apply_hop (firstn k hist) st).
Proof.
  induction hist as [|o r IH]; intros st k Hi Hl; destruct k; simpl; try exact Hi.
  simpl in Hl. apply andb_true_iff in Hl as [H1 H2]. apply IH; [apply inv_step; assumption|exact H2].
Qed.

(* ---- coverage: from the invariant and the duplicate filter's guarantee ---- *)
Lemma served_from_cover init st hide sel :
  inv init st -> cover_ok st hide sel = true -> served_ok init st sel = true.
Proof.
  intros [K Cov Sup Sub] Hc. unfold cover_ok in Hc. apply andb_true_iff in Hc as [Hc1 Hc2].
  rewrite forallb_forall in Hc1, Hc2. unfold served_ok. apply andb_true_iff. split.
  - apply forallb_forall. intros [o ss] Hin. simpl. apply forallb_forall. intros s Hs.
    destruct (Cov o ss Hin) as [i [b [H1 [H2 H3]]]].
    assert (He : In (i, b) (eligible hide st)).
    { unfold eligible. apply filter_In. split; [exact H1|]. simpl. rewrite H2, andb_false_r. reflexivity. }
    specialize (Hc2 _ He). apply existsb_exists in Hc2 as [id [Hid Hsub]]. simpl in Hsub.
    destruct (find st id) as [b'|] eqn:Hf; [|discriminate].
    unfold served_by. apply existsb_exists. exists id. split; [exact Hid|]. rewrite Hf.
    apply memS_In. eapply Sup; [apply find_In; exact Hf|exact Hin| |exact Hs].
    apply (proj1 (subN_In _ _) Hsub). exact H3.
  - apply forallb_forall. intros id Hid. specialize (Hc1 _ Hid). apply memN_In in Hc1.
    apply in_map_iff in Hc1 as [[i b] [Hi Hin]]. simpl in Hi. subst i.
    unfold eligible in Hin. apply filter_In in Hin as [Hin _].
    rewrite (In_find st id b K Hin). apply forallb_forall. intros s Hs.
    destruct (Sub id b Hin s Hs) as [o [ss [H1 [H2 H3]]]].
    apply existsb_exists. exists (o, ss). split; [exact H1|]. simpl. apply memS_In. exact H3.
Qed.

Lemma served_steps_from_cover init : forall steps st,
  inv init st -> legal st (map (fun s => fst (fst s)) steps) = true ->
  cover_steps st steps = true -> served_steps init st steps = true.
Proof.
  induction steps as [|[[o s0] s1] r IH]; intros st Hi Hl Hc; simpl in *; [reflexivity|].
  apply andb_true_iff in Hl as [Hok Hl]. apply andb_true_iff in Hc as [Hc Hcr]. apply andb_true_iff in Hc as [Hc _].
  apply andb_true_iff in Hc as [Hc _]. apply andb_true_iff in Hc as [Hc0 Hc1].
  assert (Hi' : inv init (apply_hop st o)) by (apply inv_step; assumption).
  rewrite (served_from_cover init _ true s0 Hi' Hc0), (served_from_cover init _ false s1 Hi' Hc1). simpl.
  apply IH; assumption.
Qed.

Opaque order_ok.

Lemma crash_safe_case c : corr_ok c = true -> cover_all c = true -> served_all c = true.
Proof.
  destruct c as [v G init s0 s1 steps q|ex G init s0 s1 steps q]; [|reflexivity]. simpl. intros Hc Hcov.
  apply andb_true_iff in Hc as [Hc _]. apply andb_true_iff in Hc as [Hc _]. apply andb_true_iff in Hc as [Hc _].
  apply andb_true_iff in Hc as [Hc _].
  apply andb_true_iff in Hc as [Hc Hl]. apply andb_true_iff in Hc as [Hc _]. apply andb_true_iff in Hc as [_ Hnd].
  apply andb_true_iff in Hcov as [Hcov Hcs]. apply andb_true_iff in Hcov as [Hcov _].
  apply andb_true_iff in Hcov as [Hcov _]. apply andb_true_iff in Hcov as [H0 H1].
  pose proof (inv_init G init (nodupN_NoDup _ Hnd)) as Hi.
  rewrite (served_from_cover init _ true s0 Hi H0), (served_from_cover init _ false s1 Hi H1). simpl.
  apply served_steps_from_cover; assumption.
Qed.

(* ---- readable statements ---- *)

(* at every crash point of every legal history, whatever covering selection the store
   gateway makes, every original sample is served and nothing else is *)
Lemma crash_safe G init hist k hide sel :
  NoDup (map fst init) -> legal (init_state G init) hist = true ->
  let st := fold_left apply_hop (firstn k hist) (init_state G init) in
  cover_ok st hide sel = true ->
  (forall o ss s, In (o, ss) init -> In s ss ->
     exists id b, In id sel /\ find st id = Some b /\ In s (m_samples b))
  /\ (forall id b s, In id sel -> find st id = Some b -> In s (m_samples b) ->
     exists o ss, In (o, ss) init /\ In s ss).
Proof.
  intros Hnd Hl st Hc.
  pose proof (inv_prefix init hist _ k (inv_init G init Hnd) Hl) as Hi. fold st in Hi.
  pose proof (served_from_cover init st hide sel Hi Hc) as Hs.
  unfold served_ok in Hs. apply andb_true_iff in Hs as [Hs1 Hs2]. rewrite forallb_forall in Hs1, Hs2. split.
  - intros o ss s Hin Hss. specialize (Hs1 _ Hin). simpl in Hs1. rewrite forallb_forall in Hs1.
    specialize (Hs1 _ Hss). unfold served_by in Hs1. apply existsb_exists in Hs1 as [id [Hid Hm]].
    destruct (find st id) as [b|] eqn:Hf; [|discriminate]. exists id, b. split; [exact Hid|]. split; [exact Hf|].
    apply memS_In. exact Hm.
  - intros id b s Hid Hf Hsb. specialize (Hs2 _ Hid). rewrite Hf in Hs2. rewrite forallb_forall in Hs2.
    specialize (Hs2 _ Hsb). apply existsb_exists in Hs2 as [[o ss] [Hin Hm]]. exists o, ss. split; [exact Hin|].
    apply memS_In. exact Hm.
Qed.

(* every block of every legal history holds exactly the samples of its source blocks *)
Lemma merge_exact G init hist k i b :
  NoDup (map fst init) -> legal (init_state G init) hist = true ->
  In (i, b) (fold_left apply_hop (firstn k hist) (init_state G init)) ->
  forall s, In s (m_samples b) <-> exists o ss, In (o, ss) init /\ In o (m_sources b) /\ In s ss.
Proof.
  intros Hnd Hl Hin s.
  destruct (inv_prefix init hist _ k (inv_init G init Hnd) Hl) as [K Cov Sup Sub]. split.
  - intros Hs. eapply Sub; eauto.
  - intros [o [ss [H1 [H2 H3]]]]. eapply Sup; eauto.
Qed.

(* ---- exactly once: the source sets of the visible blocks form a laminar family ---- *)
Definition lam2 (a c : list N) : Prop :=
  (forall x, In x a -> In x c) \/ (forall x, In x c -> In x a) \/ (forall x, In x a -> ~ In x c).

Definition laminar (st : state) : Prop :=
  forall i a j c, In (i, a) st -> In (j, c) st -> lam2 (m_sources a) (m_sources c).

Lemma laminar_init G init : laminar (init_state G init).
Proof.
  intros i a j c Hi Hj. unfold init_state in *.
  apply in_map_iff in Hi as [[o ss] [E1 _]]. apply in_map_iff in Hj as [[o' ss'] [E2 _]].
  simpl in E1, E2. inversion E1 as [[Ei Ea]]. inversion E2 as [[Ej Ec]]. simpl.
  destruct (N.eq_dec o o') as [E|E].
  - subst. left. auto.
  - right. right. intros x [Hx|[]] [Hy|[]]. congruence.
Qed.

Lemma exists_or_all {A} (P Q : A -> Prop) (l : list A) :
  (forall x, In x l -> P x \/ Q x) -> (exists x, In x l /\ P x) \/ (forall x, In x l -> Q x).
Proof.
  induction l as [|y r IH]; intros H; [right; intros x []|].
  destruct (H y (or_introl eq_refl)) as [Hp|Hq]; [left; exists y; split; [left; reflexivity|exact Hp]|].
  destruct IH as [[x [Hx Hp]]|Hall]; [intros x Hx; apply H; right; exact Hx| |].
  - left. exists x. split; [right; exact Hx|exact Hp].
  - right. intros x [Hx|Hx]; [subst; exact Hq|apply Hall; exact Hx].
Qed.

Lemma laminar_step st o : laminar st -> hop_ok st o = true -> laminar (apply_hop st o).
Proof.
  intros Hlam Hok. destruct o as [id b|id|id]; simpl in *.
  - apply andb_true_iff in Hok as [_ Hok].
    destruct (parents_of st (cb_parents b)) as [pbs|] eqn:Hp; [|discriminate].
    apply andb_true_iff in Hok as [Hok _].
    apply andb_true_iff in Hok as [Hok _]. apply andb_true_iff in Hok as [Hok Hmax].
    apply andb_true_iff in Hok as [Hok _]. apply andb_true_iff in Hok as [Hok _]. apply andb_true_iff in Hok as [_ Hsrc].
    pose proof (seteq_In N.eqb (fun a b => N.eqb_eq a b) _ _ Hsrc) as Esrc.
    (* an old block against the new one *)
    assert (Hold : forall j c, In (j, c) st ->
              (forall x, In x (m_sources c) -> In x (cb_sources b))
              \/ (forall x, In x (cb_sources b) -> ~ In x (m_sources c))).
    { intros j c Hc.
      assert (Hall : forall pb, In pb pbs ->
                (forall x, In x (m_sources c) -> In x (m_sources pb)) \/ (forall x, In x (m_sources pb) -> ~ In x (m_sources c))).
      { intros pb Hpb. destruct (parents_In st _ _ Hp pb Hpb) as [p Hpin].
        destruct (Hlam p pb j c Hpin Hc) as [H|[H|H]]; [|left; exact H|right; exact H].
        left. rewrite forallb_forall in Hmax. specialize (Hmax pb Hpb). rewrite forallb_forall in Hmax.
        specialize (Hmax (j, c) Hc). simpl in Hmax. apply orb_true_iff in Hmax as [Hm|Hm].
        - apply negb_true_iff in Hm. assert (subN (m_sources pb) (m_sources c) = true) by (apply subN_In; exact H). congruence.
        - apply subN_In. exact Hm. }
      destruct (exists_or_all _ _ pbs Hall) as [[pb [Hpb Hsub]]|Hdis].
      - left. intros x Hx. apply Esrc. apply in_concat. exists (m_sources pb). split; [apply in_map; exact Hpb|apply Hsub; exact Hx].
      - right. intros x Hx. apply Esrc in Hx. apply in_concat in Hx as [l [Hl Hxl]].
        apply in_map_iff in Hl as [pb [El Hpb]]. subst l. apply (Hdis pb Hpb). exact Hxl. }
    intros i a j c Hi Hj. apply in_app_or in Hi as [Hi|[Hi|[]]]; apply in_app_or in Hj as [Hj|[Hj|[]]].
    + eapply Hlam; eauto.
    + inversion Hj; subst; simpl. destruct (Hold i a Hi) as [H|H]; [left; exact H|].
      right. right. intros x Hx Hy. apply (H x Hy Hx).
    + inversion Hi; subst; simpl. destruct (Hold j c Hj) as [H|H]; [right; left; exact H|right; right; exact H].
    + inversion Hi; inversion Hj; subst; simpl. left. auto.
  - intros i a j c Hi Hj.
    apply set_marked_In in Hi as [a0 [Hi [E1 _]]]. apply set_marked_In in Hj as [c0 [Hj [E2 _]]].
    rewrite E1, E2. eapply Hlam; eauto.
  - intros i a j c Hi Hj. apply remove_In in Hi as [Hi _]. apply remove_In in Hj as [Hj _]. eapply Hlam; eauto.
Qed.

Lemma laminar_prefix : forall hist st k,
  laminar st -> legal st hist = true -> laminar (fold_left apply_hop (firstn k hist) st).
Proof.
  induction hist as [|o r IH]; intros st k Hi Hl; destruct k; simpl; try exact Hi.
  simpl in Hl. apply andb_true_iff in Hl as [H1 H2]. apply IH; [apply laminar_step; assumption|exact H2].
Qed.

(* original blocks do not share samples *)
Definition orig_disjoint (init : list (N * list sample)) : Prop :=
  forall o ss o' ss' s, In (o, ss) init -> In (o', ss') init -> In s ss -> In s ss' -> o = o'.

Lemma served_once_state init st sel :
  inv init st -> laminar st -> orig_disjoint init -> antichain_ok st sel = true ->
  forall i j a c s, In i sel -> In j sel -> find st i = Some a -> find st j = Some c ->
    In s (m_samples a) -> In s (m_samples c) -> i = j.
Proof.
  intros [K Cov Sup Sub] Hlam Hod Hanti i j a c s Hi Hj Ha Hc Hsa Hsc.
  destruct (N.eq_dec i j) as [E|E]; [exact E|exfalso].
  unfold antichain_ok in Hanti. apply andb_true_iff in Hanti as [_ Hanti]. rewrite forallb_forall in Hanti.
  pose proof (Hanti i Hi) as H1. rewrite forallb_forall in H1. specialize (H1 j Hj).
  pose proof (Hanti j Hj) as H2. rewrite forallb_forall in H2. specialize (H2 i Hi).
  rewrite Ha, Hc in H1. rewrite Ha, Hc in H2.
  apply N.eqb_neq in E. rewrite E in H1. rewrite N.eqb_sym, E in H2. simpl in H1, H2.
  apply negb_true_iff in H1, H2.
  pose proof (find_In _ _ _ Ha) as Hia. pose proof (find_In _ _ _ Hc) as Hjc.
  destruct (Hlam i a j c Hia Hjc) as [H|[H|H]].
  - apply subN_In in H. congruence.
  - apply subN_In in H. congruence.
  - destruct (Sub i a Hia s Hsa) as [o [ss [O1 [O2 O3]]]].
    destruct (Sub j c Hjc s Hsc) as [o' [ss' [P1 [P2 P3]]]].
    assert (o = o') by (eapply Hod; eauto). subst o'. apply (H o O2 P2).
Qed.

Lemma nodupS_NoDup l : nodup sample_eqb l = true -> NoDup l.
Proof.
  induction l as [|x r IH]; simpl; intros H; [constructor|].
  apply andb_true_iff in H as [H1 H2]. constructor; [|apply IH; exact H2].
  intros Hin. apply memS_In in Hin. unfold memS in Hin. rewrite Hin in H1. discriminate.
Qed.

Definition blocks_nodup (st : state) : Prop := forall i b, In (i, b) st -> NoDup (m_samples b).

Lemma blocks_nodup_step st o : blocks_nodup st -> hop_ok st o = true -> blocks_nodup (apply_hop st o).
Proof.
  intros Hn Hok. destruct o as [id b|id|id]; simpl in *.
  - apply andb_true_iff in Hok as [_ Hok].
    destruct (parents_of st (cb_parents b)) as [pbs|]; [|discriminate].
    apply andb_true_iff in Hok as [Hok _].
    apply andb_true_iff in Hok as [Hok _]. apply andb_true_iff in Hok as [Hok _]. apply andb_true_iff in Hok as [_ Hnd].
    intros i b' Hin. apply in_app_or in Hin as [Hin|[Hin|[]]]; [eapply Hn; eauto|].
    inversion Hin; subst. simpl. apply nodupS_NoDup. exact Hnd.
  - intros i b' Hin. apply set_marked_In in Hin as [b0 [Hin [_ [E _]]]]. rewrite E. eapply Hn; eauto.
  - intros i b' Hin. apply remove_In in Hin as [Hin _]. eapply Hn; eauto.
Qed.

Lemma blocks_nodup_prefix : forall hist st k,
  blocks_nodup st -> legal st hist = true -> blocks_nodup (fold_left apply_hop (firstn k hist) st).
Proof.
  induction hist as [|o r IH]; intros st k Hi Hl; destruct k; simpl; try exact Hi.
  simpl in Hl. apply andb_true_iff in Hl as [H1 H2]. apply IH; [apply blocks_nodup_step; assumption|exact H2].
Qed.

(* at every prefix of a legal history over original blocks that share no sample, with a
   non-nested selection: a sample is in at most one selected block, once *)
Lemma served_once G init hist k sel :
  NoDup (map fst init) -> (forall o ss, In (o, ss) init -> NoDup ss) -> orig_disjoint init ->
  legal (init_state G init) hist = true ->
  let st := fold_left apply_hop (firstn k hist) (init_state G init) in
  antichain_ok st sel = true ->
  (forall i j a c s, In i sel -> In j sel -> find st i = Some a -> find st j = Some c ->
     In s (m_samples a) -> In s (m_samples c) -> i = j)
  /\ (forall i a, find st i = Some a -> NoDup (m_samples a)).
Proof.
  intros Hnd Hss Hod Hl st Hanti. split.
  - apply (served_once_state init st sel); try assumption.
    + apply inv_prefix; [apply inv_init; exact Hnd|exact Hl].
    + apply laminar_prefix; [apply laminar_init|exact Hl].
  - intros i a Hf. apply find_In in Hf.
    assert (Hb : blocks_nodup st).
    { apply blocks_nodup_prefix; [|exact Hl]. intros j b Hin. unfold init_state in Hin.
      apply in_map_iff in Hin as [[o ss] [E Hin]]. inversion E; subst. simpl. eapply Hss; eauto. }
    eapply Hb; eauto.
Qed.

(* ---- exactly once, on the case: corr_ok /\ cover_all /\ disjoint inputs -> once_ok ---- *)
Lemma nodup_complete {A} (eqb : A -> A -> bool) (Heq : forall a b, eqb a b = true <-> a = b) l :
  NoDup l -> nodup eqb l = true.
Proof.
  induction 1 as [|x r Hni Hnd IH]; simpl; [reflexivity|]. rewrite IH, andb_true_r.
  apply negb_true_iff. destruct (mem eqb x r) eqn:E; [|reflexivity].
  apply (mem_In eqb Heq) in E. contradiction.
Qed.

Lemma NoDup_concat_map {A} (f : N -> list A) (l : list N) :
  NoDup l -> (forall x, In x l -> NoDup (f x)) ->
  (forall x y a, In x l -> In y l -> In a (f x) -> In a (f y) -> x = y) ->
  NoDup (List.concat (map f l)).
Proof.
  induction 1 as [|x r Hni Hnd IH]; intros H1 H2; simpl; [constructor|].
  apply NoDup_app_local.
  - apply H1. left; reflexivity.
  - apply IH; [intros y Hy; apply H1; right; exact Hy|].
    intros y z a Hy Hz. apply H2; right; assumption.
  - intros a Ha Hc. apply in_concat in Hc as [m [Hm Ham]]. apply in_map_iff in Hm as [y [Ey Hy]]. subst m.
    assert (x = y) by (apply (H2 x y a); [left; reflexivity|right; exact Hy|exact Ha|exact Ham]).
    subst. contradiction.
Qed.

Lemma orig_disjoint_b_spec init : NoDup (map fst init) -> orig_disjoint_b init = true -> orig_disjoint init.
Proof.
  induction init as [|[k v] r IH]; intros Hnd Hb o ss o' ss' s H1 H2 S1 S2; simpl in *; [contradiction|].
  inversion Hnd as [|? ? Hni Hnd']; subst. apply andb_true_iff in Hb as [Hd Hb].
  rewrite forallb_forall in Hd.
  assert (Hx : forall p t, In p r -> In t v -> In t (snd p) -> False).
  { intros p t Hp Hv Hs. specialize (Hd p Hp). unfold disjoint in Hd. rewrite forallb_forall in Hd.
    specialize (Hd t Hv). apply negb_true_iff in Hd. apply memS_In in Hs. unfold memS in Hs. congruence. }
  destruct H1 as [H1|H1], H2 as [H2|H2].
  - congruence.
  - inversion H1; subst. exfalso. apply (Hx (o', ss') s H2 S1 S2).
  - inversion H2; subst. exfalso. apply (Hx (o, ss) s H1 S2 S1).
  - eapply IH; eauto.
Qed.

Lemma served_list_NoDup init st sel :
  inv init st -> laminar st -> blocks_nodup st -> orig_disjoint init -> antichain_ok st sel = true ->
  (forall id, In id sel -> find st id <> None) ->
  NoDup (served_list st sel).
Proof.
  intros Hi Hlam Hbn Hod Hanti Hfound. unfold served_list.
  apply NoDup_concat_map.
  - unfold antichain_ok in Hanti. apply andb_true_iff in Hanti as [Hn _]. apply nodupN_NoDup. exact Hn.
  - intros id Hid. destruct (find st id) as [b|] eqn:Hf; [|constructor]. eapply Hbn. apply find_In. exact Hf.
  - intros i j s Hx Hy Sa Sc.
    destruct (find st i) as [a|] eqn:Ha; [|contradiction]. destruct (find st j) as [c|] eqn:Hc; [|contradiction].
    eapply (served_once_state init st sel); eauto.
Qed.

Lemma cover_found st hide sel :
  NoDup (map fst st) -> cover_ok st hide sel = true -> forall id, In id sel -> find st id <> None.
Proof.
  intros K Hc id Hid. unfold cover_ok in Hc. apply andb_true_iff in Hc as [Hc _].
  rewrite forallb_forall in Hc. specialize (Hc id Hid). apply memN_In in Hc.
  apply in_map_iff in Hc as [[i b] [Ei Hin]]. simpl in Ei. subst i.
  unfold eligible in Hin. apply filter_In in Hin as [Hin _].
  rewrite (In_find st id b K Hin). discriminate.
Qed.

Lemma last_view_props init : forall steps st s0 s1,
  inv init st -> laminar st -> blocks_nodup st ->
  legal st (map (fun s => fst (fst s)) steps) = true ->
  cover_ok st true s0 = true -> cover_ok st false s1 = true ->
  antichain_ok st s0 = true -> antichain_ok st s1 = true ->
  cover_steps st steps = true ->
  match last_view st s0 s1 steps with
  | (st', f0, f1) =>
      inv init st' /\ laminar st' /\ blocks_nodup st'
      /\ cover_ok st' true f0 = true /\ cover_ok st' false f1 = true
      /\ antichain_ok st' f0 = true /\ antichain_ok st' f1 = true
  end.
Proof.
  induction steps as [|[[o a] b] r IH]; intros st s0 s1 Hi Hl Hb Hlg C0 C1 A0 A1 Hcs; simpl in *.
  - repeat (split; [assumption|]); assumption.
  - apply andb_true_iff in Hlg as [Hok Hlg].
    apply andb_true_iff in Hcs as [Hcs Hr]. apply andb_true_iff in Hcs as [Hcs A1'].
    apply andb_true_iff in Hcs as [Hcs A0']. apply andb_true_iff in Hcs as [C0' C1'].
    apply IH; try assumption.
    + apply inv_step; assumption.
    + apply laminar_step; assumption.
    + apply blocks_nodup_step; assumption.
Qed.

Lemma once_case c :
  corr_ok c = true -> cover_all c = true ->
  match c with CHist _ _ init _ _ _ _ => orig_disjoint_b init = true | CHistD _ _ _ _ _ _ _ => True end ->
  once_ok c = true.
Proof.
  destruct c as [v G init s0 s1 steps q|ex G init s0 s1 steps q]; [|reflexivity]. simpl. intros Hc Hcov Hdis.
  destruct q; [|reflexivity].
  apply andb_true_iff in Hc as [Hc _]. apply andb_true_iff in Hc as [Hc _]. apply andb_true_iff in Hc as [Hc _].
  apply andb_true_iff in Hc as [Hc _].
  apply andb_true_iff in Hc as [Hc Hl]. apply andb_true_iff in Hc as [Hc Hsn]. apply andb_true_iff in Hc as [_ Hnd].
  apply andb_true_iff in Hcov as [Hcov Hcs]. apply andb_true_iff in Hcov as [Hcov A1].
  apply andb_true_iff in Hcov as [Hcov A0]. apply andb_true_iff in Hcov as [C0 C1].
  pose proof (nodupN_NoDup _ Hnd) as Hnd'.
  pose proof (inv_init G init Hnd') as Hi.
  assert (Hb : blocks_nodup (init_state G init)).
  { intros j b Hin. unfold init_state in Hin. apply in_map_iff in Hin as [[o ss] [E Hin]].
    simpl in E. inversion E as [[Ej Eb]]. simpl.
    rewrite forallb_forall in Hsn. apply nodupS_NoDup. apply (Hsn (o, ss) Hin). }
  pose proof (last_view_props init steps _ s0 s1 Hi (laminar_init G init) Hb Hl C0 C1 A0 A1 Hcs) as H.
  destruct (last_view (init_state G init) s0 s1 steps) as [[st f0] f1].
  destruct H as [Hi' [Hl' [Hb' [D0 [D1 [E0 E1]]]]]].
  pose proof (orig_disjoint_b_spec init Hnd' Hdis) as Hod.
  apply andb_true_iff. split; apply (nodup_complete sample_eqb sample_eqb_spec).
  - apply (served_list_NoDup init st f0 Hi' Hl' Hb' Hod E0). apply (cover_found st true f0 (inv_keys _ _ Hi') D0).
  - apply (served_list_NoDup init st f1 Hi' Hl' Hb' Hod E1). apply (cover_found st false f1 (inv_keys _ _ Hi') D1).
Qed.

(* ================= the store gateway's filter chain (C31 model) ================= *)
From Coq Require Import FinFun.

Lemma NoDup_filter_keys (st : state) f : NoDup (map fst st) -> NoDup (map fst (filter f st)).
Proof.
  induction st as [|x r IH]; simpl; intros H; [constructor|].
  inversion H as [|? ? Hni Hnd]; subst. destruct (f x); simpl; [|apply IH; exact Hnd].
  constructor; [|apply IH; exact Hnd]. intros Hin. apply Hni.
  apply in_map_iff in Hin as [y [Ey Hy]]. apply filter_In in Hy as [Hy _]. rewrite <- Ey. apply in_map. exact Hy.
Qed.

Lemma to31_ids (e : state) : map C31.bid (map to31 e) = map Z.of_N (map fst e).
Proof. rewrite !map_map. apply map_ext. intros [i b]. reflexivity. Qed.

Lemma incl_of_N a c : incl (map Z.of_N a) (map Z.of_N c) -> forall x, In x a -> In x c.
Proof.
  intros H x Hx. assert (Hin : In (Z.of_N x) (map Z.of_N c)) by (apply H; apply in_map; exact Hx).
  apply in_map_iff in Hin as [y [Ey Hy]]. apply N2Z.inj in Ey. subst. exact Hy.
Qed.

Lemma sg_select_cover st hide : NoDup (map fst st) -> cover_ok st hide (sg_select st hide) = true.
Proof.
  intros K. unfold cover_ok, sg_select.
  set (e := eligible hide st). set (l := map to31 e).
  assert (Ke : NoDup (map fst e)) by (apply NoDup_filter_keys; exact K).
  assert (Kl : NoDup (map C31.bid l)).
  { unfold l. rewrite to31_ids. apply Injective_map_NoDup; [intros a b; apply N2Z.inj|exact Ke]. }
  assert (He : forall p, In p e -> In p st) by (intros p Hp; unfold e, eligible in Hp; apply filter_In in Hp; tauto).
  apply andb_true_iff. split.
  - apply forallb_forall. intros id Hid. apply memN_In.
    apply in_map_iff in Hid as [p [Ep Hp]]. apply filter_In in Hp as [Hp _]. subst id. apply in_map. exact Hp.
  - apply forallb_forall. intros [i b] Hp.
    assert (Hsel : forall q, In q e -> C31.hidden l (to31 q) = false ->
              In (fst q) (map fst (filter (fun p => negb (C31.hidden l (to31 p))) e))).
    { intros q Hq Hh. apply in_map. apply filter_In. split; [exact Hq|]. rewrite Hh. reflexivity. }
    destruct (C31.hidden l (to31 (i, b))) eqn:Hh.
    + destruct (Proofs.C31.hidden_covered l (to31 (i, b)) Kl (in_map to31 e _ Hp) Hh) as [q31 [Hq [_ [Hk Hincl]]]].
      unfold l in Hq. apply in_map_iff in Hq as [[j c] [Eq Hq]]. subst q31.
      apply existsb_exists. exists j. split; [apply (Hsel (j, c) Hq Hk)|].
      rewrite (In_find st j c K (He _ Hq)). simpl. apply subN_In. apply incl_of_N. exact Hincl.
    + apply existsb_exists. exists i. split; [apply (Hsel (i, b) Hp Hh)|].
      rewrite (In_find st i b K (He _ Hp)). simpl. apply subN_In. auto.
Qed.

(* served_ok looks at the selection only through membership *)
Lemma served_ok_seteq init st a c : sel_eq a c = true -> served_ok init st c = true -> served_ok init st a = true.
Proof.
  intros He H. pose proof (seteq_In N.eqb (fun x y => N.eqb_eq x y) _ _ He) as E.
  unfold served_ok in *. apply andb_true_iff in H as [H1 H2]. apply andb_true_iff. split.
  - rewrite forallb_forall in H1. apply forallb_forall. intros p Hp. specialize (H1 p Hp).
    rewrite forallb_forall in H1. apply forallb_forall. intros s Hs. specialize (H1 s Hs).
    unfold served_by in *. apply existsb_exists in H1 as [id [Hid Hm]]. apply existsb_exists. exists id.
    split; [apply E; exact Hid|exact Hm].
  - rewrite forallb_forall in H2. apply forallb_forall. intros id Hid. apply H2. apply E. exact Hid.
Qed.

Lemma served_by_filter init st hide : inv init st -> served_ok init st (sg_select st hide) = true.
Proof.
  intros Hi. apply (served_from_cover init st hide); [exact Hi|]. apply sg_select_cover. apply (inv_keys _ _ Hi).
Qed.

Lemma served_steps_from_sel init : forall steps st,
  inv init st -> legal st (map (fun s => fst (fst s)) steps) = true ->
  sel_steps st steps = true -> served_steps init st steps = true.
Proof.
  induction steps as [|[[o s0] s1] r IH]; intros st Hi Hl Hs; simpl in *; [reflexivity|].
  apply andb_true_iff in Hl as [Hok Hl]. apply andb_true_iff in Hs as [Hs Hsr]. apply andb_true_iff in Hs as [E0 E1].
  assert (Hi' : inv init (apply_hop st o)) by (apply inv_step; assumption).
  rewrite (served_ok_seteq init _ _ _ E0 (served_by_filter init _ true Hi')).
  rewrite (served_ok_seteq init _ _ _ E1 (served_by_filter init _ false Hi')). simpl.
  apply IH; assumption.
Qed.

Lemma corr_served c : corr_ok c = true -> served_all c = true.
Proof.
  destruct c as [v G init s0 s1 steps q|ex G init s0 s1 steps q]; [|reflexivity]. simpl. intros Hc.
  apply andb_true_iff in Hc as [Hc Hss]. apply andb_true_iff in Hc as [Hc E1]. apply andb_true_iff in Hc as [Hc E0].
  apply andb_true_iff in Hc as [Hc _].
  apply andb_true_iff in Hc as [Hc Hl]. apply andb_true_iff in Hc as [Hc _]. apply andb_true_iff in Hc as [_ Hnd].
  pose proof (inv_init G init (nodupN_NoDup _ Hnd)) as Hi.
  rewrite (served_ok_seteq init _ _ _ E0 (served_by_filter init _ true Hi)).
  rewrite (served_ok_seteq init _ _ _ E1 (served_by_filter init _ false Hi)). simpl.
  apply served_steps_from_sel; assumption.
Qed.

(* at every crash point of every legal history, what the store gateway's filter chain selects
   (either treatment of deletion marks) serves every original sample and nothing else *)
Lemma crash_safe_filter G init hist k hide :
  NoDup (map fst init) -> legal (init_state G init) hist = true ->
  let st := fold_left apply_hop (firstn k hist) (init_state G init) in
  let sel := sg_select st hide in
  (forall o ss s, In (o, ss) init -> In s ss ->
     exists id b, In id sel /\ find st id = Some b /\ In s (m_samples b))
  /\ (forall id b s, In id sel -> find st id = Some b -> In s (m_samples b) ->
     exists o ss, In (o, ss) init /\ In s ss).
Proof.
  intros Hnd Hl st sel. apply (crash_safe G init hist k hide (sg_select st hide) Hnd Hl).
  apply sg_select_cover.
  apply (inv_keys init). apply inv_prefix; [apply inv_init; exact Hnd|exact Hl].
Qed.

(* ================= exactly once, also for overlapping inputs ================= *)
Definition grp_inv (G : list (N * ometa)) (st : state) : Prop :=
  forall i b o, In (i, b) st -> In o (m_sources b) -> og (ometa_of G o) = m_group b.

Definition rng_inv (st : state) : Prop :=
  forall i b s, In (i, b) st -> In s (m_samples b) -> in_range (m_mint b) (m_maxt b) s = true.

Lemma in_range_mono a b a' b' s : (a' <= a)%Z -> (b <= b')%Z -> in_range a b s = true -> in_range a' b' s = true.
Proof.
  unfold in_range. rewrite !andb_true_iff, !Z.leb_le, !Z.ltb_lt. lia.
Qed.

Lemma meta_step G st o :
  grp_inv G st /\ rng_inv st -> hop_ok st o = true -> grp_inv G (apply_hop st o) /\ rng_inv (apply_hop st o).
Proof.
  intros [Hg Hr] Hok. destruct o as [id b|id|id]; simpl in *.
  - apply andb_true_iff in Hok as [_ Hok].
    destruct (parents_of st (cb_parents b)) as [pbs|] eqn:Hp; [|discriminate].
    apply andb_true_iff in Hok as [Hok Hmeta].
    apply andb_true_iff in Hok as [Hok _]. apply andb_true_iff in Hok as [Hok _].
    apply andb_true_iff in Hok as [Hok _]. apply andb_true_iff in Hok as [Hok Hsm]. apply andb_true_iff in Hok as [_ Hsrc].
    pose proof (seteq_In N.eqb (fun a b => N.eqb_eq a b) _ _ Hsrc) as Esrc.
    pose proof (seteq_In sample_eqb sample_eqb_spec _ _ Hsm) as Esm.
    rewrite forallb_forall in Hmeta. split.
    + intros i b' o Hin Ho. apply in_app_or in Hin as [Hin|[Hin|[]]]; [eapply Hg; eauto|].
      inversion Hin; subst. simpl in *. apply Esrc in Ho. apply in_concat in Ho as [l [Hl Hol]].
      apply in_map_iff in Hl as [pb [El Hpb]]. subst l. destruct (parents_In st _ _ Hp pb Hpb) as [p Hpin].
      rewrite (Hg p pb o Hpin Hol). specialize (Hmeta pb Hpb).
      apply andb_true_iff in Hmeta as [Hm _]. apply andb_true_iff in Hm as [Hm _]. apply N.eqb_eq in Hm. exact Hm.
    + intros i b' s Hin Hs. apply in_app_or in Hin as [Hin|[Hin|[]]]; [eapply Hr; eauto|].
      inversion Hin; subst. simpl in *. apply Esm in Hs. apply in_concat in Hs as [l [Hl Hsl]].
      apply in_map_iff in Hl as [pb [El Hpb]]. subst l. destruct (parents_In st _ _ Hp pb Hpb) as [p Hpin].
      specialize (Hmeta pb Hpb). apply andb_true_iff in Hmeta as [Hm H2]. apply andb_true_iff in Hm as [_ H1].
      apply Z.leb_le in H1, H2. eapply in_range_mono; [exact H1|exact H2|]. eapply Hr; eauto.
  - split.
    + intros i b' o Hin Ho. apply set_marked_In in Hin as [b0 [Hin [E1 [_ [_ [E3 _]]]]]].
      rewrite E3. rewrite E1 in Ho. eapply Hg; eauto.
    + intros i b' s Hin Hs. apply set_marked_In in Hin as [b0 [Hin [_ [E2 [_ [_ [E4 [E5 _]]]]]]]].
      rewrite E4, E5. rewrite E2 in Hs. eapply Hr; eauto.
  - split.
    + intros i b' o Hin. apply remove_In in Hin as [Hin _]. eapply Hg; eauto.
    + intros i b' s Hin. apply remove_In in Hin as [Hin _]. eapply Hr; eauto.
Qed.

Lemma meta_prefix G : forall hist st k,
  grp_inv G st /\ rng_inv st -> legal st hist = true ->
  grp_inv G (fold_left apply_hop (firstn k hist) st) /\ rng_inv (fold_left apply_hop (firstn k hist) st).
Proof.
  induction hist as [|o r IH]; intros st k Hi Hl; destruct k; simpl; try exact Hi.
  simpl in Hl. apply andb_true_iff in Hl as [H1 H2]. apply IH; [apply meta_step; assumption|exact H2].
Qed.

Definition init_in_range_b (G : list (N * ometa)) (init : list (N * list sample)) : bool :=
  forallb (fun p => forallb (in_range (omint (ometa_of G (fst p))) (omaxt (ometa_of G (fst p)))) (snd p)) init.

Lemma meta_init G init : init_in_range_b G init = true -> grp_inv G (init_state G init) /\ rng_inv (init_state G init).
Proof.
  intros Hr. unfold init_in_range_b in Hr. rewrite forallb_forall in Hr. unfold init_state. split.
  - intros i b o Hin Ho. apply in_map_iff in Hin as [[o' ss] [E Hin]]. simpl in E. inversion E; subst. simpl in *.
    destruct Ho as [Ho|[]]. subst. reflexivity.
  - intros i b s Hin Hs. apply in_map_iff in Hin as [[o' ss] [E Hin]]. simpl in E. inversion E; subst. simpl in *.
    specialize (Hr (i, ss) Hin). simpl in Hr. rewrite forallb_forall in Hr. apply Hr. exact Hs.
Qed.

Definition groups_disjoint (G : list (N * ometa)) (init : list (N * list sample)) : Prop :=
  forall o ss o' ss' s, In (o, ss) init -> In (o', ss') init ->
    og (ometa_of G o) <> og (ometa_of G o') -> In s ss -> In s ss' -> False.

Lemma groups_disjoint_b_spec G init : groups_disjoint_b G init = true -> groups_disjoint G init.
Proof.
  unfold groups_disjoint_b. rewrite forallb_forall. intros H o ss o' ss' s H1 H2 Hne S1 S2.
  specialize (H (o, ss) H1). rewrite forallb_forall in H. specialize (H (o', ss') H2). simpl in H.
  apply orb_true_iff in H as [H|H]; [apply N.eqb_eq in H; contradiction|].
  unfold disjoint in H. rewrite forallb_forall in H. specialize (H s S1). apply negb_true_iff in H.
  apply memS_In in S2. unfold memS in S2. congruence.
Qed.

(* no two selected blocks of one compaction group overlap in time: a sample is in at most one of them *)
Lemma quiet_once_state G init st sel :
  inv init st -> grp_inv G st -> rng_inv st -> groups_disjoint G init -> quiet_ok st sel = true ->
  forall i j a c s, In i sel -> In j sel -> find st i = Some a -> find st j = Some c ->
    In s (m_samples a) -> In s (m_samples c) -> i = j.
Proof.
  intros [K Cov Sup Sub] Hg Hr Hgd Hq i j a c s Hi Hj Ha Hc Sa Sc.
  destruct (N.eq_dec i j) as [E|E]; [exact E|exfalso].
  unfold quiet_ok in Hq. apply andb_true_iff in Hq as [_ Hq]. rewrite forallb_forall in Hq.
  specialize (Hq i Hi). rewrite forallb_forall in Hq. specialize (Hq j Hj).
  rewrite Ha, Hc in Hq. apply N.eqb_neq in E. rewrite E in Hq. simpl in Hq.
  pose proof (find_In _ _ _ Ha) as Hia. pose proof (find_In _ _ _ Hc) as Hjc.
  apply orb_true_iff in Hq as [Hq|Hq].
  - apply negb_true_iff in Hq. apply N.eqb_neq in Hq.
    destruct (Sub i a Hia s Sa) as [o [ss [O1 [O2 O3]]]].
    destruct (Sub j c Hjc s Sc) as [o' [ss' [P1 [P2 P3]]]].
    apply (Hgd o ss o' ss' s O1 P1); [|exact O3|exact P3].
    rewrite (Hg i a o Hia O2), (Hg j c o' Hjc P2). exact Hq.
  - apply negb_true_iff in Hq. pose proof (Hr i a s Hia Sa) as R1. pose proof (Hr j c s Hjc Sc) as R2.
    unfold in_range in R1, R2. unfold ranges_meet in Hq.
    apply andb_true_iff in R1 as [A1 A2]. apply andb_true_iff in R2 as [B1 B2].
    apply Z.leb_le in A1, B1. apply Z.ltb_lt in A2, B2.
    assert (Z.ltb (m_mint a) (m_maxt c) = true) by (apply Z.ltb_lt; lia).
    assert (Z.ltb (m_mint c) (m_maxt a) = true) by (apply Z.ltb_lt; lia).
    rewrite H, H0 in Hq. discriminate.
Qed.

Lemma quiet_once G init hist k sel :
  NoDup (map fst init) -> (forall o ss, In (o, ss) init -> NoDup ss) ->
  init_in_range_b G init = true -> groups_disjoint_b G init = true ->
  legal (init_state G init) hist = true ->
  let st := fold_left apply_hop (firstn k hist) (init_state G init) in
  quiet_ok st sel = true ->
  (forall i j a c s, In i sel -> In j sel -> find st i = Some a -> find st j = Some c ->
     In s (m_samples a) -> In s (m_samples c) -> i = j)
  /\ (forall i a, find st i = Some a -> NoDup (m_samples a)).
Proof.
  intros Hnd Hss Hrg Hgd Hl st Hq.
  destruct (meta_prefix G hist _ k (meta_init G init Hrg) Hl) as [Hg Hr].
  split.
  - apply (quiet_once_state G init st sel); try assumption.
    + apply inv_prefix; [apply inv_init; exact Hnd|exact Hl].
    + apply groups_disjoint_b_spec. exact Hgd.
  - intros i a Hf. apply find_In in Hf.
    assert (Hb : blocks_nodup st).
    { apply blocks_nodup_prefix; [|exact Hl]. intros j b Hin. unfold init_state in Hin.
      apply in_map_iff in Hin as [[o ss] [E Hin]]. simpl in E. inversion E as [[Ej Eb]]. simpl. eapply Hss; eauto. }
    eapply Hb; eauto.
Qed.

(* on the case: quiescent final selections without time overlap inside a group are duplicate-free *)
Lemma last_view_fold : forall steps st s0 s1,
  fst (fst (last_view st s0 s1 steps)) = fold_left apply_hop (map (fun s => fst (fst s)) steps) st.
Proof.
  induction steps as [|[[o a] b] r IH]; intros st s0 s1; simpl; [reflexivity|]. apply IH.
Qed.

Lemma served_list_NoDup_quiet G init st sel :
  inv init st -> grp_inv G st -> rng_inv st -> blocks_nodup st -> groups_disjoint G init ->
  quiet_ok st sel = true -> NoDup (served_list st sel).
Proof.
  intros Hi Hg Hr Hbn Hgd Hq. unfold served_list. apply NoDup_concat_map.
  - unfold quiet_ok in Hq. apply andb_true_iff in Hq as [Hn _]. apply nodupN_NoDup. exact Hn.
  - intros id Hid. destruct (find st id) as [b|] eqn:Hf; [|constructor]. eapply Hbn. apply find_In. exact Hf.
  - intros i j s Hx Hy Sa Sc.
    destruct (find st i) as [a|] eqn:Ha; [|contradiction]. destruct (find st j) as [c|] eqn:Hc; [|contradiction].
    eapply (quiet_once_state G init st sel); eauto.
Qed.

Lemma once_case_quiet c :
  corr_ok c = true -> quiet_all c = true ->
  match c with CHist _ G init _ _ _ _ => groups_disjoint_b G init = true | CHistD _ _ _ _ _ _ _ => True end ->
  once_ok c = true.
Proof.
  destruct c as [v G init s0 s1 steps q|ex G init s0 s1 steps q]; [|reflexivity]. simpl. intros Hc Hq Hgd.
  destruct q; [|reflexivity].
  apply andb_true_iff in Hc as [Hc _]. apply andb_true_iff in Hc as [Hc _]. apply andb_true_iff in Hc as [Hc _].
  apply andb_true_iff in Hc as [Hc Hrg].
  apply andb_true_iff in Hc as [Hc Hl]. apply andb_true_iff in Hc as [Hc Hsn]. apply andb_true_iff in Hc as [_ Hnd].
  pose proof (nodupN_NoDup _ Hnd) as Hnd'.
  set (hist := map (fun s : step => fst (fst s)) steps) in *.
  pose proof (last_view_fold steps (init_state G init) s0 s1) as Hlv. fold hist in Hlv.
  destruct (last_view (init_state G init) s0 s1 steps) as [[st f0] f1]. simpl in Hlv.
  assert (Hfull : st = fold_left apply_hop (firstn (length hist) hist) (init_state G init)) by (rewrite firstn_all; exact Hlv).
  assert (Hi : inv init st) by (rewrite Hfull; apply inv_prefix; [apply inv_init; exact Hnd'|exact Hl]).
  destruct (meta_prefix G hist _ (length hist) (meta_init G init Hrg) Hl) as [Hg Hr]. rewrite <- Hfull in Hg, Hr.
  assert (Hb : blocks_nodup st).
  { rewrite Hfull. apply blocks_nodup_prefix; [|exact Hl]. intros j b Hin. unfold init_state in Hin.
    apply in_map_iff in Hin as [[o ss] [E Hin]]. simpl in E. inversion E as [[Ej Eb]]. simpl.
    rewrite forallb_forall in Hsn. apply nodupS_NoDup. apply (Hsn (o, ss) Hin). }
  apply andb_true_iff in Hq as [Q0 Q1].
  pose proof (groups_disjoint_b_spec G init Hgd) as Hgd'.
  apply andb_true_iff. split; apply (nodup_complete sample_eqb sample_eqb_spec).
  - apply (served_list_NoDup_quiet G init st f0); assumption.
  - apply (served_list_NoDup_quiet G init st f1); assumption.
Qed.

(* ================= replicated streams, deduplicating compaction ================= *)
Record inv_dd (init : list (N * list sample)) (st : state) : Prop := {
  dd_keys : NoDup (map fst st);
  dd_cov : forall o ss, In (o, ss) init ->
             exists i b, In (i, b) st /\ m_marked b = false /\ In o (m_sources b);
  (* every series of every source block is still in the block ... *)
  dd_ser : forall i b, In (i, b) st -> forall o ss, In (o, ss) init -> In o (m_sources b) ->
             forall s, In s ss -> exists s', In s' (m_samples b) /\ series_of s' = series_of s;
  (* ... and every sample of the block is a sample of a source block *)
  dd_sub : forall i b, In (i, b) st -> forall s, In s (m_samples b) ->
             exists o ss, In (o, ss) init /\ In o (m_sources b) /\ In s ss
}.

Lemma inv_dd_of_inv init st : inv init st -> inv_dd init st.
Proof.
  intros [K Cov Sup Sub]. split; try assumption.
  intros i b Hin o ss Ho Hs s Hss. exists s. split; [eapply Sup; eauto|reflexivity].
Qed.

Lemma inv_dd_step init st o : inv_dd init st -> hop_ok_dd st o = true -> inv_dd init (apply_hop st o).
Proof.
  intros [K Cov Ser Sub] Hok. destruct o as [id b|id|id].
  - simpl in Hok. apply andb_true_iff in Hok as [Hfresh Hok].
    destruct (parents_of st (cb_parents b)) as [pbs|] eqn:Hp; [|discriminate].
    apply andb_true_iff in Hok as [Hok Hnd]. apply andb_true_iff in Hok as [Hok Hser].
    apply andb_true_iff in Hok as [Hok Hsub]. apply andb_true_iff in Hok as [_ Hsrc].
    pose proof (seteq_In N.eqb (fun a b => N.eqb_eq a b) _ _ Hsrc) as Esrc.
    pose proof (proj1 (subset_In sample_eqb sample_eqb_spec _ _) Hsub) as Esub.
    rewrite forallb_forall in Hser.
    assert (Hfr : ~ In id (map fst st)).
    { apply find_None. unfold has in Hfresh. destruct (find st id); [discriminate|reflexivity]. }
    simpl. split.
    + rewrite map_app. simpl. apply NoDup_app_local; [exact K|constructor; [intros []|constructor]|].
      intros x Hx [Hy|[]]. subst. contradiction.
    + intros o ss Hin. destruct (Cov o ss Hin) as [i [b' [H1 [H2 H3]]]]. exists i, b'. split; [apply in_or_app; left; exact H1|auto].
    + intros i b' Hin o ss Ho Hs s Hss. apply in_app_or in Hin as [Hin|[Hin|[]]]; [eapply Ser; eauto|].
      inversion Hin; subst. simpl in *. apply Esrc in Hs.
      apply in_concat in Hs as [l [Hl Hol]]. apply in_map_iff in Hl as [pb [Hl Hpb]]. subst l.
      destruct (parents_In st _ _ Hp pb Hpb) as [p Hpin].
      destruct (Ser p pb Hpin o ss Ho Hol s Hss) as [s1 [Hs1 E1]].
      assert (Hc : In s1 (List.concat (map m_samples pbs))).
      { apply in_concat. exists (m_samples pb). split; [apply in_map; exact Hpb|exact Hs1]. }
      specialize (Hser s1 Hc). apply existsb_exists in Hser as [s2 [Hs2 E2]]. apply N.eqb_eq in E2.
      exists s2. split; [exact Hs2|congruence].
    + intros i b' Hin s Hs. apply in_app_or in Hin as [Hin|[Hin|[]]]; [eapply Sub; eauto|].
      inversion Hin; subst. simpl in *. apply Esub in Hs.
      apply in_concat in Hs as [l [Hl Hsl]]. apply in_map_iff in Hl as [pb [Hl Hpb]]. subst l.
      destruct (parents_In st _ _ Hp pb Hpb) as [p Hpin].
      destruct (Sub p pb Hpin s Hsl) as [o [ss [H1 [H2 H3]]]]. exists o, ss. split; [exact H1|]. split; [|exact H3].
      apply Esrc. apply in_concat. exists (m_sources pb). split; [apply in_map; exact Hpb|exact H2].
  - simpl in Hok. simpl. destruct (find st id) as [a|] eqn:Hf; [|discriminate].
    apply existsb_exists in Hok as [[j c] [Hjin Hj]]. simpl in Hj.
    apply andb_true_iff in Hj as [Hj Hsub]. apply andb_true_iff in Hj as [Hne Hun].
    apply negb_true_iff in Hne, Hun. apply N.eqb_neq in Hne.
    pose proof (proj1 (subN_In _ _) Hsub) as Hsub'.
    split.
    + rewrite set_marked_keys. exact K.
    + intros o ss Hin. destruct (Cov o ss Hin) as [i [b' [H1 [H2 H3]]]].
      destruct (N.eq_dec i id) as [E|E].
      * subst i. exists j, c. split; [apply set_marked_other; assumption|]. split; [exact Hun|].
        apply Hsub'. rewrite (In_find st id b' K H1) in Hf. inversion Hf; subst. exact H3.
      * exists i, b'. split; [apply set_marked_other; assumption|auto].
    + intros i b' Hin o ss Ho Hs s Hss. apply set_marked_In in Hin as [b0 [Hin [E1 [E2 _]]]].
      rewrite E2. rewrite E1 in Hs. eapply Ser; eauto.
    + intros i b' Hin s Hs. apply set_marked_In in Hin as [b0 [Hin [E1 [E2 _]]]].
      rewrite E2 in Hs. rewrite E1. eapply Sub; eauto.
  - simpl in Hok. simpl. destruct (find st id) as [a|] eqn:Hf; [|discriminate].
    split.
    + apply remove_keys. exact K.
    + intros o ss Hin. destruct (Cov o ss Hin) as [i [b' [H1 [H2 H3]]]]. exists i, b'.
      split; [|auto]. apply remove_In. split; [exact H1|]. intros E. subst i.
      rewrite (In_find st id b' K H1) in Hf. inversion Hf; subst. congruence.
    + intros i b' Hin. apply remove_In in Hin as [Hin _]. eapply Ser; eauto.
    + intros i b' Hin. apply remove_In in Hin as [Hin _]. eapply Sub; eauto.
Qed.

Lemma inv_dd_prefix init : forall hist st k,
  inv_dd init st -> legal_dd st hist = true -> inv_dd init (fold_left apply_hop (firstn k hist) st).
Proof.
  induction hist as [|o r IH]; intros st k Hi Hl; destruct k; simpl; try exact Hi.
  simpl in Hl. apply andb_true_iff in Hl as [H1 H2]. apply IH; [apply inv_dd_step; assumption|exact H2].
Qed.

Lemma dd_from_cover init st hide sel :
  inv_dd init st -> cover_ok st hide sel = true -> dd_ok init st sel = true.
Proof.
  intros [K Cov Ser Sub] Hc. unfold cover_ok in Hc. apply andb_true_iff in Hc as [Hc1 Hc2].
  rewrite forallb_forall in Hc1, Hc2. unfold dd_ok. apply andb_true_iff. split.
  - apply forallb_forall. intros [o ss] Hin. simpl. apply forallb_forall. intros s Hs.
    destruct (Cov o ss Hin) as [i [b [H1 [H2 H3]]]].
    assert (He : In (i, b) (eligible hide st)).
    { unfold eligible. apply filter_In. split; [exact H1|]. simpl. rewrite H2, andb_false_r. reflexivity. }
    specialize (Hc2 _ He). apply existsb_exists in Hc2 as [id [Hid Hsub]]. simpl in Hsub.
    destruct (find st id) as [b'|] eqn:Hf; [|discriminate].
    apply existsb_exists. exists id. split; [exact Hid|]. rewrite Hf.
    destruct (Ser id b' (find_In _ _ _ Hf) o ss Hin (proj1 (subN_In _ _) Hsub o H3) s Hs) as [s' [Hs' E]].
    apply existsb_exists. exists s'. split; [exact Hs'|]. apply N.eqb_eq. exact E.
  - apply forallb_forall. intros id Hid. specialize (Hc1 _ Hid). apply memN_In in Hc1.
    apply in_map_iff in Hc1 as [[i b] [Hi Hin]]. simpl in Hi. subst i.
    unfold eligible in Hin. apply filter_In in Hin as [Hin _].
    rewrite (In_find st id b K Hin). apply forallb_forall. intros s Hs.
    destruct (Sub id b Hin s Hs) as [o [ss [H1 [H2 H3]]]].
    apply existsb_exists. exists (o, ss). split; [exact H1|]. simpl. apply memS_In. exact H3.
Qed.

Lemma dd_ok_seteq init st a c : sel_eq a c = true -> dd_ok init st c = true -> dd_ok init st a = true.
Proof.
  intros He H. pose proof (seteq_In N.eqb (fun x y => N.eqb_eq x y) _ _ He) as E.
  unfold dd_ok in *. apply andb_true_iff in H as [H1 H2]. apply andb_true_iff. split.
  - rewrite forallb_forall in H1. apply forallb_forall. intros p Hp. specialize (H1 p Hp).
    rewrite forallb_forall in H1. apply forallb_forall. intros s Hs. specialize (H1 s Hs).
    apply existsb_exists in H1 as [id [Hid Hm]]. apply existsb_exists. exists id.
    split; [apply E; exact Hid|exact Hm].
  - rewrite forallb_forall in H2. apply forallb_forall. intros id Hid. apply H2. apply E. exact Hid.
Qed.

Lemma dd_by_filter init st hide : inv_dd init st -> dd_ok init st (sg_select st hide) = true.
Proof.
  intros Hi. apply (dd_from_cover init st hide); [exact Hi|]. apply sg_select_cover. apply (dd_keys _ _ Hi).
Qed.

Lemma dd_steps_from_sel init : forall steps st,
  inv_dd init st -> legal_dd st (map (fun s => fst (fst s)) steps) = true ->
  sel_steps st steps = true -> dd_steps init st steps = true.
Proof.
  induction steps as [|[[o s0] s1] r IH]; intros st Hi Hl Hs; simpl in *; [reflexivity|].
  apply andb_true_iff in Hl as [Hok Hl]. apply andb_true_iff in Hs as [Hs Hsr]. apply andb_true_iff in Hs as [E0 E1].
  assert (Hi' : inv_dd init (apply_hop st o)) by (apply inv_dd_step; assumption).
  rewrite (dd_ok_seteq init _ _ _ E0 (dd_by_filter init _ true Hi')).
  rewrite (dd_ok_seteq init _ _ _ E1 (dd_by_filter init _ false Hi')). simpl.
  apply IH; assumption.
Qed.

Lemma corr_dd c : corr_ok c = true -> dd_all c = true.
Proof.
  destruct c as [v G init s0 s1 steps q|ex G init s0 s1 steps q]; [reflexivity|]. simpl. intros Hc.
  apply andb_true_iff in Hc as [Hc Hss]. apply andb_true_iff in Hc as [Hc E1]. apply andb_true_iff in Hc as [Hc E0].
  apply andb_true_iff in Hc as [Hc Hl]. apply andb_true_iff in Hc as [Hc _]. apply andb_true_iff in Hc as [_ Hnd].
  pose proof (inv_dd_of_inv init _ (inv_init G init (nodupN_NoDup _ Hnd))) as Hi.
  rewrite (dd_ok_seteq init _ _ _ E0 (dd_by_filter init _ true Hi)).
  rewrite (dd_ok_seteq init _ _ _ E1 (dd_by_filter init _ false Hi)). simpl.
  apply dd_steps_from_sel; assumption.
Qed.

(* replicated streams, at every crash point of every legal deduplicating history: what the
   filter chain selects contains only original samples, and a sample of every original series *)
Lemma dedup_safe G init hist k hide :
  NoDup (map fst init) -> legal_dd (init_state G init) hist = true ->
  let st := fold_left apply_hop (firstn k hist) (init_state G init) in
  let sel := sg_select st hide in
  (forall o ss s, In (o, ss) init -> In s ss ->
     exists id b s', In id sel /\ find st id = Some b /\ In s' (m_samples b) /\ series_of s' = series_of s)
  /\ (forall id b s, In id sel -> find st id = Some b -> In s (m_samples b) ->
     exists o ss, In (o, ss) init /\ In s ss).
Proof.
  intros Hnd Hl st sel.
  pose proof (inv_dd_prefix init hist _ k (inv_dd_of_inv init _ (inv_init G init Hnd)) Hl) as Hi. fold st in Hi.
  pose proof (dd_by_filter init st hide Hi) as Hs. fold sel in Hs.
  unfold dd_ok in Hs. apply andb_true_iff in Hs as [Hs1 Hs2]. rewrite forallb_forall in Hs1, Hs2. split.
  - intros o ss s Hin Hss. specialize (Hs1 _ Hin). simpl in Hs1. rewrite forallb_forall in Hs1.
    specialize (Hs1 _ Hss). apply existsb_exists in Hs1 as [id [Hid Hm]].
    destruct (find st id) as [b|] eqn:Hf; [|discriminate].
    apply existsb_exists in Hm as [s' [Hs' E]]. apply N.eqb_eq in E.
    exists id, b, s'. auto.
  - intros id b s Hid Hf Hsb. specialize (Hs2 _ Hid). rewrite Hf in Hs2. rewrite forallb_forall in Hs2.
    specialize (Hs2 _ Hsb). apply existsb_exists in Hs2 as [[o ss] [Hin Hm]]. exists o, ss. split; [exact Hin|].
    apply memS_In. exact Hm.
Qed.
