(* C03 — the ring buffer between a lazy response set's receiver goroutine and the merge
   (pkg/store/proxy_merge.go ringBuffer / lazyRespSet) as a labelled transition system:
   every interleaving of append (receiver, enabled when not full) and pop (merge, enabled when
   not empty) steps, each atomic under bufferedResponsesMtx. The index computations
   (isEmpty, isFull, next tail, next head) are the Gen/C03.v definitions regenerated from the
   source. sync.Cond waiting is modelled as "the step is not enabled". *)
From Coq Require Import ZArith List Bool Lia.
Import ListNotations.
From Verif Require Import Gen.C03.
Open Scope Z_scope.

Section Ring.
Context {A : Type} (d : A).
Variable N : Z.                      (* fixedBufferSize = requested buffer size + 1 *)
Hypothesis HN : 2 <= N.

Record state := MkSt { pending : list A; buf : Z -> A; hd : Z; tl : Z; received : list A }.

Definition upd (f : Z -> A) (i : Z) (x : A) : Z -> A := fun j => if j =? i then x else f j.

(* one atomic step under bufferedResponsesMtx: the receiver goroutine appends when the ring is
   not full (otherwise it waits on bufferSlotEvent), the merge pops when it is not empty
   (otherwise it waits on dataOrFinishEvent) *)
Inductive step : state -> state -> Prop :=
| s_append st x p :
    pending st = x :: p -> ring_is_full (hd st) (tl st) N = false ->
    step st (MkSt p (upd (buf st) (tl st) x) (hd st) (ring_next_tail (tl st) N) (received st))
| s_pop st :
    ring_is_empty (hd st) (tl st) = false ->
    step st (MkSt (pending st) (buf st) (ring_next_head (hd st) N) (tl st) (received st ++ [buf st (hd st)])).

Inductive reach (s0 : state) : state -> Prop :=
| r_refl : reach s0 s0
| r_step s s' : reach s0 s -> step s s' -> reach s0 s'.

Definition wrap (i : Z) : Z := if i <? N then i else i - N.
Definition len (st : state) : Z := if hd st <=? tl st then tl st - hd st else tl st - hd st + N.
Definition contents (st : state) : list A :=
  map (fun i => buf st (wrap (hd st + Z.of_nat i))) (seq 0 (Z.to_nat (len st))).

Definition wf (st : state) : Prop := 0 <= hd st < N /\ 0 <= tl st < N.

Lemma rem_succ t : 0 <= t < N -> Z.rem (t + 1) N = if t + 1 <? N then t + 1 else 0.
Proof.
  intros H. destruct (t + 1 <? N) eqn:E.
  - apply Z.ltb_lt in E. apply Z.rem_small. lia.
  - apply Z.ltb_ge in E. assert (t + 1 = N) as -> by lia. apply Z.rem_same. lia.
Qed.

Lemma contents_append st x p :
  wf st -> ring_is_full (hd st) (tl st) N = false ->
  let st' := MkSt p (upd (buf st) (tl st) x) (hd st) (ring_next_tail (tl st) N) (received st) in
  wf st' /\ contents st' = contents st ++ [x].
Proof.
  intros [Hh Ht] Hf. cbv zeta. unfold ring_is_full, ring_next_tail in *. rewrite rem_succ in * by exact Ht.
  apply Z.eqb_neq in Hf.
  split.
  - unfold wf. cbn. destruct (tl st + 1 <? N) eqn:E; [apply Z.ltb_lt in E|]; lia.
  - unfold contents, len. cbn [hd tl buf].
    set (l := if hd st <=? tl st then tl st - hd st else tl st - hd st + N).
    assert (Hl : 0 <= l < N - 1).
    { unfold l. destruct (hd st <=? tl st) eqn:E; [apply Z.leb_le in E | apply Z.leb_gt in E];
        destruct (tl st + 1 <? N) eqn:E2; try apply Z.ltb_lt in E2; try apply Z.ltb_ge in E2; lia. }
    assert (Hl' : (if hd st <=? (if tl st + 1 <? N then tl st + 1 else 0)
                   then (if tl st + 1 <? N then tl st + 1 else 0) - hd st
                   else (if tl st + 1 <? N then tl st + 1 else 0) - hd st + N) = l + 1).
    { unfold l. destruct (tl st + 1 <? N) eqn:E2; [apply Z.ltb_lt in E2 | apply Z.ltb_ge in E2];
        destruct (hd st <=? tl st) eqn:E; try apply Z.leb_le in E; try apply Z.leb_gt in E.
      - destruct (hd st <=? tl st + 1) eqn:E3; [lia | apply Z.leb_gt in E3; lia].
      - destruct (hd st <=? tl st + 1) eqn:E3; [apply Z.leb_le in E3; lia | lia].
      - destruct (hd st <=? 0) eqn:E3; [apply Z.leb_le in E3; lia | lia].
      - destruct (hd st <=? 0) eqn:E3; [apply Z.leb_le in E3; lia | lia]. }
    rewrite Hl'. replace (Z.to_nat (l + 1)) with (S (Z.to_nat l)) by lia.
    rewrite seq_S, map_app. cbn [map Nat.add]. f_equal.
    + apply map_ext_in. intros i Hi. apply in_seq in Hi. unfold upd.
      destruct (wrap (hd st + Z.of_nat i) =? tl st) eqn:E; [|reflexivity].
      exfalso. apply Z.eqb_eq in E. unfold wrap in E. unfold l in *.
      destruct (hd st + Z.of_nat i <? N) eqn:E2; [apply Z.ltb_lt in E2 | apply Z.ltb_ge in E2];
        destruct (hd st <=? tl st) eqn:E3; try apply Z.leb_le in E3; try apply Z.leb_gt in E3; lia.
    + f_equal. unfold upd.
      assert (wrap (hd st + Z.of_nat (Z.to_nat l)) = tl st) as ->; [|rewrite Z.eqb_refl; reflexivity].
      unfold wrap, l. rewrite Z2Nat.id by (fold l; lia).
      destruct (hd st <=? tl st) eqn:E3; [apply Z.leb_le in E3 | apply Z.leb_gt in E3].
      * destruct (hd st + (tl st - hd st) <? N) eqn:E4; [lia | apply Z.ltb_ge in E4; lia].
      * destruct (hd st + (tl st - hd st + N) <? N) eqn:E4; [apply Z.ltb_lt in E4; lia | lia].
Qed.

Lemma contents_pop st :
  wf st -> ring_is_empty (hd st) (tl st) = false ->
  let st' := MkSt (pending st) (buf st) (ring_next_head (hd st) N) (tl st) (received st ++ [buf st (hd st)]) in
  wf st' /\ contents st = buf st (hd st) :: contents st'.
Proof.
  intros [Hh Ht] He. cbv zeta. unfold ring_is_empty, ring_next_head in *. rewrite rem_succ by exact Hh.
  apply Z.eqb_neq in He. split.
  - unfold wf. cbn. destruct (hd st + 1 <? N) eqn:E; [apply Z.ltb_lt in E|]; lia.
  - unfold contents, len. cbn [hd tl buf].
    set (l := if hd st <=? tl st then tl st - hd st else tl st - hd st + N).
    set (h' := if hd st + 1 <? N then hd st + 1 else 0).
    assert (Hl : 1 <= l < N).
    { unfold l. destruct (hd st <=? tl st) eqn:E; [apply Z.leb_le in E | apply Z.leb_gt in E]; lia. }
    assert (Hl' : (if h' <=? tl st then tl st - h' else tl st - h' + N) = l - 1).
    { unfold l, h'. destruct (hd st + 1 <? N) eqn:E2; [apply Z.ltb_lt in E2 | apply Z.ltb_ge in E2];
        destruct (hd st <=? tl st) eqn:E; try apply Z.leb_le in E; try apply Z.leb_gt in E.
      - destruct (hd st + 1 <=? tl st) eqn:E3; [lia | apply Z.leb_gt in E3; lia].
      - destruct (hd st + 1 <=? tl st) eqn:E3; [apply Z.leb_le in E3; lia | lia].
      - destruct (0 <=? tl st) eqn:E3; [lia | apply Z.leb_gt in E3; lia].
      - destruct (0 <=? tl st) eqn:E3; [lia | apply Z.leb_gt in E3; lia]. }
    rewrite Hl'. replace (Z.to_nat l) with (S (Z.to_nat (l - 1))) by lia.
    cbn [seq map]. f_equal.
    + unfold wrap. rewrite Z.add_0_r. destruct (hd st <? N) eqn:E; [reflexivity | apply Z.ltb_ge in E; lia].
    + rewrite <- seq_shift, map_map. apply map_ext_in. intros i Hi. apply in_seq in Hi. f_equal.
      unfold wrap, h'. rewrite Nat2Z.inj_succ.
      destruct (hd st + 1 <? N) eqn:E2; [apply Z.ltb_lt in E2 | apply Z.ltb_ge in E2].
      * destruct (hd st + Z.succ (Z.of_nat i) <? N) eqn:E3, (hd st + 1 + Z.of_nat i <? N) eqn:E4;
          try apply Z.ltb_lt in E3; try apply Z.ltb_ge in E3; try apply Z.ltb_lt in E4; try apply Z.ltb_ge in E4; lia.
      * destruct (hd st + Z.succ (Z.of_nat i) <? N) eqn:E3, (0 + Z.of_nat i <? N) eqn:E4;
          try apply Z.ltb_lt in E3; try apply Z.ltb_ge in E3; try apply Z.ltb_lt in E4; try apply Z.ltb_ge in E4; lia.
Qed.

Definition init (input : list A) : state := MkSt input (fun _ => d) 0 0 [].

(* for every interleaving of receiver and merge steps: nothing is lost, duplicated or reordered *)
Theorem ring_fifo input st :
  reach (init input) st -> wf st /\ received st ++ contents st ++ pending st = input.
Proof.
  induction 1 as [|s s' Hr [Hwf IH] Hs].
  - split; [unfold wf; cbn; lia | reflexivity].
  - destruct Hs as [st x p Hp Hf | st He].
    + destruct (contents_append st x p Hwf Hf) as [W C]. split; [exact W|].
      rewrite C. cbn [received pending]. rewrite <- IH, Hp, <- !app_assoc. reflexivity.
    + destruct (contents_pop st Hwf He) as [W C]. split; [exact W|].
      cbn [received pending]. rewrite <- IH, C, <- !app_assoc. reflexivity.
Qed.

(* no deadlock while data remains, and every step makes progress: runs are finite *)
Theorem ring_progress input st :
  reach (init input) st -> (pending st <> [] \/ contents st <> []) -> exists st', step st st'.
Proof.
  intros Hr Hd. destruct (ring_fifo _ _ Hr) as [[Hh Ht] _].
  destruct (ring_is_empty (hd st) (tl st)) eqn:Ee.
  - (* empty: the receiver can append *)
    unfold ring_is_empty in Ee. apply Z.eqb_eq in Ee.
    destruct (pending st) as [|x p] eqn:Ep.
    + exfalso. destruct Hd as [Hd|Hd]; [apply Hd; reflexivity|]. apply Hd. unfold contents, len. rewrite Ee, Z.leb_refl, Z.sub_diag. reflexivity.
    + eexists. apply (s_append st x p Ep). unfold ring_is_full. rewrite rem_succ by exact Ht. apply Z.eqb_neq.
      destruct (tl st + 1 <? N) eqn:E; [apply Z.ltb_lt in E|apply Z.ltb_ge in E]; lia.
  - eexists. apply s_pop. exact Ee.
Qed.

Definition measure (st : state) : nat := 2 * length (pending st) + length (contents st).
Theorem ring_terminates input st st' :
  reach (init input) st -> step st st' -> (measure st' < measure st)%nat.
Proof.
  intros Hr Hs. destruct (ring_fifo _ _ Hr) as [Hwf _]. unfold measure.
  destruct Hs as [st x p Hp Hf | st He].
  - destruct (contents_append st x p Hwf Hf) as [_ C]. rewrite C, Hp, app_length. cbn. lia.
  - destruct (contents_pop st Hwf He) as [_ C]. rewrite C. cbn. lia.
Qed.

End Ring.
