(* C22 — the forward timeout (ctx.Done) as an input of the response loop. *)
From Coq Require Import ZArith List Bool Lia.
Import ListNotations.
From Verif Require Import Lib.Corr Gen.C22 Model.C22 Proofs.C22.
Open Scope Z_scope.

(* a loop whose next event is ctx.Done returns ctx.Err(), from any state *)
Lemma ctx_done_times_out : forall q ft st tail, loop_ev q ft st (ECtxDone :: tail) = EvTimedOut.
Proof. reflexivity. Qed.

(* without the ctx.Done event the loop is the one of the other theorems *)
Lemma loop_ev_no_ctx : forall q ft rs st, loop_ev q ft st (map EResp rs) = ev_of (loop q ft st rs).
Proof.
  intros q ft rs. induction rs as [|r rs IH]; intro st; cbn [map loop_ev loop]; [reflexivity|].
  destruct (can_return_early q ft (apply_resp st r)); [reflexivity|apply IH].
Qed.

Lemma handle_ev_no_hang : forall rf rep place ws, handle_ev rf rep place ws false = handle rf rep place ws.
Proof.
  intros rf rep place ws. unfold handle_ev, handle, events_of, fanout. rewrite app_nil_r, loop_ev_no_ctx.
  destruct (Nat.eqb (List.length place) 0); [reflexivity|]. destruct (rep >? rf); [reflexivity|].
  destruct (loop _ _ _ _); reflexivity.
Qed.

(* with hung peers an acknowledgement can only come from the early return, i.e.
   after a consumed prefix of the responses in which every series is decided
   and none failed — and then every series has its quorum in that prefix.
   No assumption on how many responses there are. *)
Lemma loop_ev_hang_ack : forall q ft n rs tail,
  loop_ev q ft (repeat sst0 n) (map EResp rs ++ ECtxDone :: tail) = EvAck ->
  exists k, (1 <= k <= List.length rs)%nat
    /\ can_return_early q ft (reach n (firstn k rs)) = true
    /\ quorum_everywhere n q (firstn k rs) = true.
Proof.
  intros q ft n rs tail.
  assert (G : forall rs st, loop_ev q ft st (map EResp rs ++ ECtxDone :: tail) = EvAck ->
            exists k, (1 <= k <= List.length rs)%nat
              /\ can_return_early q ft (fold_left apply_resp (firstn k rs) st) = true
              /\ finish ft (fold_left apply_resp (firstn k rs) st) = Ack).
  { induction rs0 as [|r rs0 IH]; intros st H; cbn [map app loop_ev] in H; [discriminate|].
    destruct (can_return_early q ft (apply_resp st r)) eqn:E.
    - exists 1%nat. cbn [firstn fold_left List.length]. split; [lia|]. split; [exact E|].
      destruct (finish ft (apply_resp st r)); [reflexivity|discriminate].
    - destruct (IH (apply_resp st r) H) as [k [Hk [Hc Hf]]]. exists (S k).
      cbn [firstn fold_left List.length]. split; [lia|]. split; assumption. }
  intro H. destruct (G rs (repeat sst0 n) H) as [k [Hk [Hc Hf]]]. fold (reach n (firstn k rs)) in Hc, Hf.
  exists k. split; [exact Hk|]. split; [exact Hc|].
  apply quorum_everywhere_spec. intros s Hs.
  pose proof (proj1 (finish_ack ft n (firstn k rs)) Hf s Hs) as Hfail.
  pose proof (prefix_counters n (firstn k rs) [] s Hs) as P. cbn zeta in P.
  unfold can_return_early in Hc. rewrite forallb_forall in Hc.
  specialize (Hc (nth s (reach n (firstn k rs)) sst0) ltac:(apply nth_In; rewrite reach_length; exact Hs)).
  unfold determined in Hc.
  destruct (Z.ltb_spec (succ (nth s (reach n (firstn k rs)) sst0)) q) as [Hlt|Hge]; cbn [andb negb] in Hc.
  - destruct (Z.ltb_spec (confl (nth s (reach n (firstn k rs)) sst0)) ft); [discriminate|]. lia.
  - lia.
Qed.

(* in particular: when the answered responses do not give some series its
   quorum, a request with hung peers is never acknowledged *)
Lemma hang_without_quorum_not_ack : forall q ft n rs tail s, (s < n)%nat -> successes_of s rs < q ->
  loop_ev q ft (repeat sst0 n) (map EResp rs ++ ECtxDone :: tail) <> EvAck.
Proof.
  intros q ft n rs tail s Hs Hlt H. destruct (loop_ev_hang_ack q ft n rs tail H) as [k [_ [_ Hq]]].
  pose proof (proj1 (quorum_everywhere_spec n q (firstn k rs)) Hq s Hs) as Hk.
  pose proof (prefix_counters n (firstn k rs) (skipn k rs) s Hs) as P. cbn zeta in P. rewrite firstn_skipn in P. lia.
Qed.

Lemma quorum_firstn_mono' : forall n q rs k d, (k <= d)%nat ->
  quorum_everywhere n q (firstn k rs) = true -> quorum_everywhere n q (firstn d rs) = true.
Proof. exact quorum_firstn_mono. Qed.

(* whole request with hung peers, and the predicate of the check *)
Lemma handle_ev_hang_pred : forall rf rep place ws, 1 <= rf -> 0 <= rep ->
  exists o, handle_ev rf rep place ws true = Some o
    /\ (o = OAck -> rep <= rf ->
        exists k, (k <= List.length ws)%nat /\ forall d hg obs obsr, (k <= d)%nat ->
          pred_ok (CAck rf rep place ws hg obs obsr 200 d) = true).
Proof.
  intros rf rep place ws Hrf Hrep. unfold handle_ev.
  destruct (Nat.eqb_spec (List.length place) 0) as [E0|E0].
  - exists OAck. split; [reflexivity|]. intros _ _. exists 0%nat. split; [lia|]. intros d hg obs obsr _.
    cbn [pred_ok]. rewrite E0. destruct (negb (rep >? rf)); reflexivity.
  - destruct (rep >? rf) eqn:Er.
    + exists OBadReplica. split; [reflexivity|discriminate].
    + unfold events_of.
      destruct (loop_ev (success_threshold rf rep) (failureThreshold_expr (n_replicas rf rep) (success_threshold rf rep))
                  (repeat sst0 (List.length place)) (map EResp (resps_of place ws) ++ [ECtxDone])) eqn:E.
      * exists OAck. split; [reflexivity|]. intros _ _.
        destruct (loop_ev_hang_ack _ _ _ _ _ E) as [k [Hk [_ Hq]]].
        assert (Hl : List.length (resps_of place ws) = List.length ws) by (unfold resps_of; apply map_length).
        exists k. split; [rewrite Hl in Hk; destruct Hk; assumption|].
        intros d hg obs obsr Hd. cbn [pred_ok]. rewrite Er. cbn [Z.eqb Pos.eqb negb andb].
        rewrite (spec_threshold_is rf rep Hrf). eapply quorum_firstn_mono; eauto.
      * exists OFail. split; [reflexivity|discriminate].
      * exists OFail. split; [reflexivity|discriminate].
Qed.
