(* C03 — facts about the concrete labels / chunks of Model/C03.v that do not depend on any
   regenerated source fact (shared with C06). *)
From Coq Require Import ZArith NArith List Bool Lia.
Import ListNotations.
From Verif Require Import Lib.Corr Lib.Proxy_Order Lib.Proxy_Model Model.C03.
Open Scope Z_scope.

Definition wrlb (wrl : list str) : bool := match wrl with [] => false | _ => true end.

Lemma option_eqb_N a b : option_eqb N.eqb a b = true <-> a = b.
Proof.
  destruct a, b; cbn; split; intro H; try discriminate; try reflexivity.
  - apply N.eqb_eq in H. subst. reflexivity.
  - inversion H. apply N.eqb_refl.
Qed.

Lemma keqb_spec a b : keqb a b = true <-> a = b.
Proof. unfold keqb. apply list_eqb_spec. exact option_eqb_N. Qed.

(* "ordered by time": by MinTime, then MaxTime *)
Definition time_ord (a b : chunk) : Prop :=
  cmin a < cmin b \/ (cmin a = cmin b /\ cmax a <= cmax b).

Lemma cleb_true c d : cleb c d = true -> time_ord c d.
Proof.
  unfold cleb, aggr_compare, time_ord. intros H. apply negb_true_iff in H.
  destruct (cmin d <? cmin c) eqn:A; [cbn in H; discriminate|].
  destruct (cmin d >? cmin c) eqn:B; [apply Z.gtb_lt in B; lia|].
  apply Z.ltb_ge in A. apply Z.gtb_ltb in B || idtac.
  assert (cmin c = cmin d) by (rewrite Z.gtb_ltb in B; apply Z.ltb_ge in B; lia).
  destruct (cmax d <? cmax c) eqn:A2; [cbn in H; discriminate|].
  apply Z.ltb_ge in A2. lia.
Qed.

Lemma cleb_false c d : cleb c d = false -> time_ord d c.
Proof.
  unfold cleb, aggr_compare, time_ord. intros H. apply negb_false_iff in H.
  destruct (cmin d <? cmin c) eqn:A; [apply Z.ltb_lt in A; lia|].
  destruct (cmin d >? cmin c) eqn:B; [cbn in H; discriminate|].
  apply Z.ltb_ge in A. rewrite Z.gtb_ltb in B. apply Z.ltb_ge in B.
  destruct (cmax d <? cmax c) eqn:A2; [apply Z.ltb_lt in A2; lia|].
  destruct (cmax d >? cmax c) eqn:B2; [cbn in H; discriminate|].
  apply Z.ltb_ge in A2. rewrite Z.gtb_ltb in B2. apply Z.ltb_ge in B2. lia.
Qed.

