(* C30 — the aligned, non-overlapping regime as a history invariant of plan/apply,
   and the precise statement of when a vertical merge exceeds the largest range. *)
From Coq Require Import ZArith List Bool Lia Arith Permutation.
Import ListNotations.
From Verif Require Import Lib.Corr Lib.Compact_List Gen.C30 Model.C30 Proofs.C30.
Open Scope Z_scope.

(* a block has positive length (TSDB blocks: MinTime < MaxTime) *)
Definition pos (m : meta) : Prop := mint m < maxt m.

(* two blocks do not overlap (order-free) *)
Definition srel (a b : meta) : Prop := maxt a <= mint b \/ maxt b <= mint a.
Definition sdisj (l : list meta) : Prop := pairwise srel l.

Lemma srel_sym a b : srel a b -> srel b a.
Proof. unfold srel. tauto. Qed.

(* a block lies inside one aligned window [iv*k, iv*k+iv] of a configured range *)
Definition aligned (ranges : list Z) (m : meta) : Prop :=
  exists iv k, In iv ranges /\ iv * k <= mint m /\ maxt m <= iv * k + iv.

(* the regime: sorted by MinTime, positive lengths, the not-excluded blocks
   pairwise non-overlapping, every block aligned *)
Definition Reg (ranges marks : list Z) (l : list meta) : Prop :=
  sorted_mint l /\ Forall pos l /\ sdisj (filter (unmarked marks) l) /\ Forall (aligned ranges) l.

(* ---- insert_by_mint ------------------------------------------------------------- *)

Lemma insert_perm b l : Permutation (insert_by_mint b l) (b :: l).
Proof.
  induction l as [|m r IH]; simpl; auto.
  destruct (mint b <? mint m); auto. rewrite IH. apply perm_swap.
Qed.

Lemma insert_sorted b l : sorted_mint l -> sorted_mint (insert_by_mint b l).
Proof.
  unfold sorted_mint. induction l as [|m r IH]; simpl; intros Hs.
  - split; constructor.
  - destruct Hs as [Hf Hs]. destruct (mint b <? mint m) eqn:E.
    + apply Z.ltb_lt in E. simpl. repeat split; auto.
      constructor; [lia|]. eapply Forall_impl; [|exact Hf]. simpl. intros x Hx. lia.
    + apply Z.ltb_ge in E. simpl. split; [|auto].
      apply Forall_forall. intros x Hx. apply insert_In in Hx. destruct Hx as [->|Hx]; [lia|].
      rewrite Forall_forall in Hf. auto.
Qed.

(* ---- from the order-free to the ordered reading ------------------------------------ *)

Lemma ordered_disjoint l : sorted_mint l -> Forall pos l -> sdisj l -> disjoint_sorted l.
Proof.
  intros Hs Hp Hd. unfold disjoint_sorted.
  apply (pairwise_Forall2 (fun a b => mint a <= mint b) srel _ pos l); auto.
  intros a b Ha Hb Hab [H|H]; auto. unfold pos in *. lia.
Qed.

Lemma sorted_filter f l : sorted_mint l -> sorted_mint (filter f l).
Proof. apply pairwise_sublist, sublist_filter. Qed.

(* ---- the hull ---------------------------------------------------------------------- *)

Lemma hull_bounds p newid q : In q p -> mint (hull p newid) <= mint q /\ maxt q <= maxt (hull p newid).
Proof. intros H. unfold hull. simpl. split; [apply hull_lo | apply hull_hi]; auto. Qed.

Lemma hull_ge t p newid : p <> [] -> Forall (fun q => t <= mint q) p -> t <= mint (hull p newid).
Proof.
  intros Hne Hf. unfold hull. simpl. apply hull_lo_ge; auto.
  destruct p; [congruence|]. inversion Hf; auto.
Qed.

Lemma hull_le t p newid : p <> [] -> Forall (fun q => maxt q <= t) p -> maxt (hull p newid) <= t.
Proof.
  intros Hne Hf. unfold hull. simpl. apply hull_hi_le; auto.
  destruct p; [congruence|]. inversion Hf; auto.
Qed.

Lemma hull_pos p newid : p <> [] -> Forall pos p -> pos (hull p newid).
Proof.
  intros Hne Hp. destruct p as [|a r]; [congruence|]. inversion Hp; subst.
  destruct (hull_bounds (a :: r) newid a (or_introl eq_refl)). unfold pos in *. lia.
Qed.

Lemma hull_single m newid : mint (hull [m] newid) = mint m /\ maxt (hull [m] newid) = maxt m.
Proof. unfold hull. simpl. split; lia. Qed.

(* ---- one plan/apply step keeps the regime ------------------------------------------ *)

Lemma in_plan_false p q : in_plan p q = false -> ~ In q p.
Proof. intros H Hin. now rewrite (in_plan_self p q Hin) in H. Qed.

Lemma sdisj_insert marks h l1 :
  (unmarked marks h = true -> Forall (srel h) (filter (unmarked marks) l1)) ->
  sdisj (filter (unmarked marks) l1) ->
  sdisj (filter (unmarked marks) (insert_by_mint h l1)).
Proof.
  intros Hh Hd. unfold sdisj.
  apply (pairwise_perm srel srel_sym (filter (unmarked marks) (h :: l1))).
  - apply Permutation_sym, filter_perm, insert_perm.
  - simpl. destruct (unmarked marks h); simpl; auto.
Qed.

Lemma reg_step ranges marks l p newid :
  positive_ranges ranges -> Reg ranges marks l -> plan ranges marks l = Some p -> p <> [] ->
  Reg ranges marks (apply_plan l p newid).
Proof.
  intros Hr (Hs & Hpos & Hd & Hal) Hp Hne.
  assert (Hds : disjoint_sorted (filter (unmarked marks) l)).
  { apply ordered_disjoint; auto using sorted_filter. eapply sublist_Forall; [apply sublist_filter | exact Hpos]. }
  pose proof (plan_sublist _ _ _ _ Hp) as Hsub.
  pose proof (plan_unmarked _ _ _ _ Hp) as Hup.
  assert (Hposp : Forall pos p) by (eapply sublist_Forall; eauto).
  set (keep := fun m => negb (in_plan p m)).
  set (l1 := filter keep l).
  assert (Hsub1 : sublist l1 l) by apply sublist_filter.
  (* the new block does not overlap any remaining not-excluded block, and is aligned *)
  assert (Hnew : Forall (srel (hull p newid)) (filter (unmarked marks) l1) /\ aligned ranges (hull p newid)).
  { destruct (plan_origin _ _ _ _ Hp) as [_ ->| -> Hlen | Hov -> Hlen | m t Hov -> Hin _ _ _].
    - congruence.
    - apply select_overlapping_nil in Hds. rewrite Hds in Hlen. simpl in Hlen. lia.
    - (* a range plan: contiguous in the list *)
      set (p := select_metas ranges marks (removelast l)) in *.
      destruct (select_metas_spec ranges marks (removelast l)) as [E|(iv & g & Hiv & Hg & Hseg & _ & _)];
        [fold p in E; congruence|]. fold p in Hseg.
      destruct (sbr_spec _ _ _ _ Hg) as (m0 & g' & -> & Hsg & _).
      assert (Hsegl : segment p l).
      { eapply segment_trans; [exact Hseg|]. eapply segment_trans; [exact Hsg|].
        destruct l as [|a0 l0]; [simpl; apply segment_refl|].
        rewrite (removelast_last_eq (a0 :: l0) dummy) at 2 by discriminate. apply segment_prefix. }
      destruct Hsegl as (A & B & HAB). split.
      + assert (Hfl : filter (unmarked marks) l = filter (unmarked marks) A ++ p ++ filter (unmarked marks) B).
        { rewrite HAB, !filter_app. f_equal. f_equal. apply filter_all. exact Hup. }
        rewrite Hfl in Hds. unfold disjoint_sorted in Hds.
        apply pairwise_app in Hds. destruct Hds as (_ & HpB & HA).
        apply pairwise_app in HpB. destruct HpB as (_ & _ & HB).
        apply Forall_forall. intros q Hq. apply filter_In in Hq. destruct Hq as [Hq1 Hqu].
        apply filter_In in Hq1. destruct Hq1 as [Hql Hqk]. unfold keep in Hqk. apply negb_true_iff, in_plan_false in Hqk.
        rewrite HAB in Hql. apply in_app_or in Hql. destruct Hql as [HqA|Hql]; [|apply in_app_or in Hql; destruct Hql as [Hqp|HqB]; [contradiction|]].
        * right. apply hull_ge; auto. apply Forall_forall. intros x Hx.
          apply (HA q x); [apply filter_In; auto | apply in_or_app; auto].
        * left. apply hull_le; auto. apply Forall_forall. intros x Hx.
          apply (HB x q); auto. apply filter_In; auto.
      + destruct (plan_disjoint_window _ _ _ _ Hp Hds Hr Hs Hlen) as (iv' & k & Hiv' & Hw).
        destruct (hull_in_window (iv' * k) iv' p newid Hne Hw) as [H1 H2].
        exists iv', k. repeat split; auto. destruct ranges; [contradiction | right; exact Hiv'].
    - (* a single tombstone-heavy block is rewritten in place *)
      assert (Hml : In m l) by (eapply sublist_In; [exact Hsub | left; reflexivity]).
      destruct (hull_single m newid) as [E1 E2]. split.
      + apply Forall_forall. intros q Hq. apply filter_In in Hq. destruct Hq as [Hq1 Hqu].
        apply filter_In in Hq1. destruct Hq1 as [Hql Hqk]. unfold keep in Hqk. apply negb_true_iff, in_plan_false in Hqk.
        assert (Hne' : m <> q) by (intros ->; apply Hqk; left; reflexivity).
        assert (Hmu : unmarked marks m = true) by (inversion Hup; auto).
        pose proof (pairwise_In_distinct srel srel_sym (filter (unmarked marks) l) m q Hd) as Hrel.
        unfold srel in *. rewrite E1, E2. apply Hrel; auto; apply filter_In; auto.
      + rewrite Forall_forall in Hal. destruct (Hal m Hml) as (iv & k & Hiv & H1 & H2).
        exists iv, k. rewrite E1, E2. auto. }
  destruct Hnew as [Hrel Halh].
  unfold apply_plan. fold keep. fold l1. repeat split.
  - apply insert_sorted. eapply pairwise_sublist; [exact Hsub1 | exact Hs].
  - apply Forall_forall. intros x Hx. apply insert_In in Hx. destruct Hx as [->|Hx].
    + apply hull_pos; auto.
    + rewrite Forall_forall in Hpos. apply Hpos. eapply sublist_In; eauto.
  - apply sdisj_insert; auto.
    eapply pairwise_sublist; [apply sublist_filter_mono, Hsub1 | exact Hd].
  - apply Forall_forall. intros x Hx. apply insert_In in Hx. destruct Hx as [->|Hx]; auto.
    rewrite Forall_forall in Hal. apply Hal. eapply sublist_In; eauto.
Qed.

(* ---- along the whole history ---------------------------------------------------------- *)

Lemma iterate_invariant (J : list meta -> Prop) ranges marks :
  (forall l p newid, J l -> plan ranges marks l = Some p -> p <> [] -> J (apply_plan l p newid)) ->
  forall n l newid h fin, J l -> iterate n ranges marks l newid = Some (h, fin) -> J fin.
Proof.
  intros Hstep. induction n as [|n IH]; intros l newid h fin HJ H; simpl in H; [discriminate|].
  destruct (plan ranges marks l) as [p|] eqn:Hp; [|discriminate].
  destruct p as [|a p'].
  - inversion H; subst. exact HJ.
  - destruct (iterate n ranges marks (apply_plan l (a :: p') newid) (newid + 1)) as [[h' fin']|] eqn:Hit; [|discriminate].
    inversion H; subst. eapply IH; [|exact Hit]. apply Hstep; auto. discriminate.
Qed.

Definition maxr (ranges : list Z) : Z := fold_right Z.max 0 ranges.

Lemma maxr_ge ranges iv : In iv ranges -> iv <= maxr ranges.
Proof. unfold maxr. induction ranges as [|a r IH]; simpl; intros H; [contradiction|]. destruct H as [->|H]; [lia | specialize (IH H); lia]. Qed.

Lemma aligned_length ranges m : aligned ranges m -> maxt m - mint m <= maxr ranges.
Proof. intros (iv & k & Hiv & H1 & H2). pose proof (maxr_ge _ _ Hiv). lia. Qed.

(* when every configured range divides the largest one (Thanos: 2h | 8h | 2d | 14d),
   an aligned block lies inside one window of the largest range *)
Lemma aligned_max_window ranges m :
  positive_ranges ranges -> Forall (fun iv => (iv | maxr ranges)) ranges -> aligned ranges m -> pos m ->
  exists k, maxr ranges * k <= mint m /\ maxt m <= maxr ranges * k + maxr ranges.
Proof.
  intros Hp Hdiv (iv & k & Hiv & H1 & H2) Hpos.
  unfold positive_ranges in Hp. rewrite Forall_forall in Hp, Hdiv.
  specialize (Hp iv Hiv). destruct (Hdiv iv Hiv) as (c & Hc).
  pose proof (maxr_ge _ _ Hiv) as Hge. set (R := maxr ranges) in *.
  assert (Hcpos : 0 < c) by nia.
  exists (k / c).
  pose proof (Z.mul_div_le k c Hcpos). pose proof (Z.mul_succ_div_gt k c Hcpos).
  split; nia.
Qed.

(* the history theorem *)
Lemma regime_history ranges marks l newid :
  ranges <> [] -> positive_ranges ranges -> l <> [] -> wf l -> Reg ranges marks l ->
  exists h fin, iterate (S (measure l)) ranges marks l newid = Some (h, fin) /\
    plan ranges marks fin = Some [] /\ (length h <= measure l)%nat /\
    Reg ranges marks fin /\
    disjoint_sorted (filter (unmarked marks) fin) /\
    Forall (fun m => maxt m - mint m <= maxr ranges) fin.
Proof.
  intros Hne Hr Hl Hw HR.
  destruct (converges ranges marks l newid Hne Hl Hw) as (h & fin & Hit & Hfin & Hlen & Hdis).
  exists h, fin. repeat split; auto.
  - eapply (iterate_invariant (Reg ranges marks)); [|exact HR|exact Hit].
    intros. eapply reg_step; eauto.
  - eapply (iterate_invariant (Reg ranges marks)); [|exact HR|exact Hit].
    intros. eapply reg_step; eauto.
  - eapply (iterate_invariant (Reg ranges marks)); [|exact HR|exact Hit].
    intros. eapply reg_step; eauto.
  - eapply (iterate_invariant (Reg ranges marks)); [|exact HR|exact Hit].
    intros. eapply reg_step; eauto.
  - assert (HRf : Reg ranges marks fin).
    { eapply (iterate_invariant (Reg ranges marks)); [|exact HR|exact Hit]. intros. eapply reg_step; eauto. }
    destruct HRf as (_ & _ & _ & Hal). eapply Forall_impl; [|exact Hal]. intros m. apply aligned_length.
Qed.

Lemma regime_history_windows ranges marks l newid :
  ranges <> [] -> positive_ranges ranges -> Forall (fun iv => (iv | maxr ranges)) ranges ->
  l <> [] -> wf l -> Reg ranges marks l ->
  exists h fin, iterate (S (measure l)) ranges marks l newid = Some (h, fin) /\
    plan ranges marks fin = Some [] /\
    Forall (fun m => exists k, maxr ranges * k <= mint m /\ maxt m <= maxr ranges * k + maxr ranges) fin.
Proof.
  intros Hne Hr Hdiv Hl Hw HR.
  destruct (regime_history ranges marks l newid Hne Hr Hl Hw HR) as (h & fin & Hit & Hfin & _ & (_ & Hpos & _ & Hal) & _ & _).
  exists h, fin. repeat split; auto.
  apply Forall_forall. intros m Hm. rewrite Forall_forall in Hpos, Hal.
  apply aligned_max_window; auto.
Qed.

(* ---- when the largest range IS exceeded: a vertical merge of a misaligned
   overlapping chain.  For every largest range R > 1: two blocks of length R,
   the second starting one unit before the first ends; both are planned (they
   overlap) and the block replacing them is 2R-1 long. ------------------------------- *)
Definition chain (R : Z) : list meta :=
  [mk_meta 1 0 R false 0 0 1; mk_meta 2 (R - 1) (2 * R - 1) false 0 0 1].

Lemma overlap_can_exceed R : 1 < R ->
  plan [R] [] (chain R) = Some (chain R)
  /\ Forall (fun m => maxt m - mint m <= maxr [R]) (chain R)
  /\ sorted_mint (chain R) /\ Forall pos (chain R)
  /\ maxt (hull (chain R) 3) - mint (hull (chain R) 3) = 2 * R - 1
  /\ maxr [R] < maxt (hull (chain R) 3) - mint (hull (chain R) 3)
  /\ ~ Reg [R] [] (chain R).
Proof.
  intros HR. unfold chain, maxr. cbn [fold_right].
  assert (E : (R - 1 <? R) = true) by (apply Z.ltb_lt; lia).
  split; [|split; [|split; [|split; [|split; [|split]]]]].
  - unfold plan. cbn [filter unmarked marked existsb negb bid]. cbn [select_overlapping ov_scan ov_take mint maxt]. now rewrite E.
  - repeat constructor; cbn [mint maxt]; lia.
  - unfold sorted_mint. simpl. repeat split; repeat constructor; simpl; lia.
  - repeat constructor; unfold pos; cbn [mint maxt]; lia.
  - unfold hull. cbn [map hd fold_right mint maxt]. lia.
  - unfold hull. cbn [map hd fold_right mint maxt]. lia.
  - intros (_ & _ & Hd & _). cbn [filter unmarked marked existsb negb bid] in Hd.
    unfold sdisj in Hd. cbn [pairwise] in Hd. destruct Hd as [Hf _]. apply Forall_inv in Hf.
    unfold srel in Hf. cbn [mint maxt] in Hf. lia.
Qed.

(* ---- every block inside one window of the largest range: an invariant of
   plan/apply for ALL such inputs (overlapping or not) when every configured
   range divides the largest one ---------------------------------------------------- *)

Definition inwin (R k : Z) (m : meta) : Prop := R * k <= mint m /\ maxt m <= R * k + R.
Definition in_some_win (R : Z) (m : meta) : Prop := exists k, inwin R k m.

Definition Win (ranges : list Z) (l : list meta) : Prop :=
  sorted_mint l /\ Forall pos l /\ Forall (in_some_win (maxr ranges)) l.

Lemma same_window R k k' x : 0 < R -> R * k <= x < R * k + R -> R * k' <= x < R * k' + R -> k = k'.
Proof. intros. nia. Qed.

Lemma ov_take_window R k : 0 < R -> forall l g, g <= R * k + R ->
  Forall (fun m => R * k <= mint m) l -> Forall pos l -> Forall (in_some_win R) l ->
  Forall (inwin R k) (ov_take g l).
Proof.
  intros HR. induction l as [|m r IH]; intros g Hg Hlo Hp Hw; simpl; [constructor|].
  inversion Hlo; subst. inversion Hp; subst. inversion Hw; subst.
  destruct (mint m <? g) eqn:E; [|constructor]. apply Z.ltb_lt in E.
  destruct H5 as (k' & Hk1 & Hk2). unfold pos in H3.
  assert (k = k') by (apply (same_window R k k' (mint m)); auto; lia). subst k'.
  constructor; [split; auto|]. apply IH; auto. lia.
Qed.

Lemma ov_scan_window R : 0 < R -> forall l prev g k,
  inwin R k prev -> g = maxt prev -> pos prev ->
  Forall (fun m => mint prev <= mint m) l -> sorted_mint l -> Forall pos l -> Forall (in_some_win R) l ->
  exists k0, Forall (inwin R k0) (ov_scan prev g l).
Proof.
  intros HR. induction l as [|m r IH]; intros prev g k Hprev Hg Hpp Hlo Hs Hp Hw; simpl.
  - exists k. constructor.
  - inversion Hlo; subst. inversion Hp; subst. inversion Hw; subst. destruct Hs as [Hsm Hs].
    destruct H5 as (k' & Hk1 & Hk2). unfold pos in *. destruct Hprev as [Hp1 Hp2].
    destruct (mint m <? maxt prev) eqn:E.
    + apply Z.ltb_lt in E. exists k.
      assert (k = k') by (apply (same_window R k k' (mint m)); auto; lia). subst k'.
      constructor; [split; auto|]. constructor; [split; auto|].
      apply ov_take_window; auto; [lia|].
      eapply Forall_impl; [|exact Hsm]. simpl. intros x Hx. lia.
    + apply Z.ltb_ge in E. apply (IH m (Z.max (maxt prev) (maxt m)) k'); auto; [split; auto | lia].
Qed.

Lemma select_overlapping_window R l : 0 < R -> sorted_mint l -> Forall pos l -> Forall (in_some_win R) l ->
  exists k0, Forall (inwin R k0) (select_overlapping l).
Proof.
  intros HR Hs Hp Hw. destruct l as [|m0 r]; simpl; [exists 0; constructor|].
  destruct Hs as [Hlo Hs]. inversion Hp; subst. inversion Hw; subst. destruct H3 as (k & Hk).
  apply (ov_scan_window R HR r m0 (maxt m0) k); auto.
Qed.

Lemma maxr_pos ranges : ranges <> [] -> positive_ranges ranges -> 0 < maxr ranges.
Proof.
  intros Hne Hp. destruct ranges as [|a r]; [congruence|]. inversion Hp; subst.
  pose proof (maxr_ge (a :: r) a (or_introl eq_refl)). lia.
Qed.

Lemma win_step ranges marks l p newid :
  ranges <> [] -> positive_ranges ranges -> Forall (fun iv => (iv | maxr ranges)) ranges ->
  Win ranges l -> plan ranges marks l = Some p -> p <> [] -> Win ranges (apply_plan l p newid).
Proof.
  intros Hrne Hr Hdiv (Hs & Hpos & Hw) Hp Hne.
  pose proof (maxr_pos ranges Hrne Hr) as HR. set (R := maxr ranges) in *.
  pose proof (plan_sublist _ _ _ _ Hp) as Hsub.
  assert (Hposp : Forall pos p) by (eapply sublist_Forall; eauto).
  assert (Hh : in_some_win R (hull p newid)).
  { destruct (plan_origin _ _ _ _ Hp) as [_ ->| -> Hlen | Hov -> Hlen | m t Hov -> Hin _ _ _].
    - congruence.
    - set (ne := filter (unmarked marks) l) in *.
      destruct (select_overlapping_window R ne HR) as (k0 & Hk0).
      + apply sorted_filter, Hs.
      + eapply sublist_Forall; [apply sublist_filter | exact Hpos].
      + eapply sublist_Forall; [apply sublist_filter | exact Hw].
      + exists k0. split.
        * apply hull_ge; auto. eapply Forall_impl; [|exact Hk0]. intros x [Hx _]. exact Hx.
        * apply hull_le; auto. eapply Forall_impl; [|exact Hk0]. intros x [_ Hx]. exact Hx.
    - apply select_overlapping_nil in Hov.
      destruct (plan_disjoint_window _ _ _ _ Hp Hov Hr Hs Hlen) as (iv & k & Hiv & Hwin).
      destruct (hull_in_window (iv * k) iv _ newid Hne Hwin) as [H1 H2].
      assert (Hal : aligned ranges (hull (select_metas ranges marks (removelast l)) newid)).
      { exists iv, k. repeat split; auto. destruct ranges; [contradiction | right; exact Hiv]. }
      apply (aligned_max_window ranges); auto. apply hull_pos; auto.
    - assert (Hml : In m l) by (eapply sublist_In; [exact Hsub | left; reflexivity]).
      destruct (hull_single m newid) as [E1 E2]. rewrite Forall_forall in Hw.
      destruct (Hw m Hml) as (k & Hk1 & Hk2). exists k. unfold inwin. rewrite E1, E2. auto. }
  set (keep := fun m => negb (in_plan p m)).
  assert (Hsub1 : sublist (filter keep l) l) by apply sublist_filter.
  unfold apply_plan. fold keep. repeat split.
  - apply insert_sorted. eapply pairwise_sublist; [exact Hsub1 | exact Hs].
  - apply Forall_forall. intros x Hx. apply insert_In in Hx. destruct Hx as [->|Hx].
    + apply hull_pos; auto.
    + rewrite Forall_forall in Hpos. apply Hpos. eapply sublist_In; eauto.
  - apply Forall_forall. intros x Hx. apply insert_In in Hx. destruct Hx as [->|Hx]; auto.
    rewrite Forall_forall in Hw. apply Hw. eapply sublist_In; eauto.
Qed.

Lemma inwin_length R m : in_some_win R m -> maxt m - mint m <= R.
Proof. intros (k & H1 & H2). lia. Qed.

(* all inputs whose blocks each lie inside one window of the largest range *)
Lemma window_history ranges marks l newid :
  ranges <> [] -> positive_ranges ranges -> Forall (fun iv => (iv | maxr ranges)) ranges ->
  l <> [] -> wf l -> Win ranges l ->
  exists h fin, iterate (S (measure l)) ranges marks l newid = Some (h, fin) /\
    plan ranges marks fin = Some [] /\ (length h <= measure l)%nat /\
    disjoint_sorted (filter (unmarked marks) fin) /\
    Forall (in_some_win (maxr ranges)) fin /\
    Forall (fun m => maxt m - mint m <= maxr ranges) fin.
Proof.
  intros Hne Hr Hdiv Hl Hw HW.
  destruct (converges ranges marks l newid Hne Hl Hw) as (h & fin & Hit & Hfin & Hlen & Hdis).
  assert (HWf : Win ranges fin).
  { eapply (iterate_invariant (Win ranges)); [|exact HW|exact Hit]. intros. eapply win_step; eauto. }
  exists h, fin. destruct HWf as (_ & _ & Hwf). repeat split; auto.
  eapply Forall_impl; [|exact Hwf]. intros m. apply inwin_length.
Qed.
