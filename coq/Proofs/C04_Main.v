(* C04 — identical replicas, arbitrary non-overlapping cuts, any number of
   logical series: what Select returns with deduplication on. *)
From Coq Require Import ZArith List Bool NArith Lia Sorting.Sorted Permutation.
Import ListNotations.
From Verif Require Import Lib.Corr Gen.C04 Model.C04 Proofs.C04 Proofs.C04_Total Proofs.C04_Cuts.
Open Scope Z_scope.

(* one logical series: labels without replica labels, the samples L every
   replica holds, the chunk lists of its replicas (the cuts), and what the proxy
   hands over for it *)
Record item := mkItem { i_lbl : labels; i_L : list sample; i_reps : list (list chunk); i_cs : list chunk }.

(* the replicas are cuts of L; the proxy output passes exactly the checks of
   Model.proxy_ok_dedup for this series *)
Definition item_ok (x : item) : Prop :=
  rawstream (i_L x) /\ i_L x <> [] /\ i_reps x <> [] /\ Forall (cut (i_L x)) (i_reps x)
  /\ chunks_sorted (i_cs x) = true
  /\ forallb (fun c => mem_chunk c (concat (i_reps x))) (i_cs x) = true
  /\ forallb (fun c => mem_samples (csamples c) (i_cs x)) (concat (i_reps x)) = true.

Definition ws_of (x : item) : list (list sample) := tl (map chunk_iter (overlap_split (i_cs x))).

Lemma item_split x : item_ok x ->
  map chunk_iter (overlap_split (i_cs x)) = i_L x :: ws_of x /\ Forall (fun w => sub w (i_L x)) (ws_of x).
Proof.
  intros (Hraw & HneL & Hner & Hcuts & Hsort & Hb1 & Hb2).
  destruct (i_L x) as [|y0 ys0] eqn:EL; [congruence|].
  pose proof (proxy_bools_rel _ _ Hb1 Hb2) as Hrel.
  destruct (logical_props (y0 :: ys0) (i_reps x) (i_cs x) y0 ys0 Hraw eq_refl Hner Hcuts Hrel)
    as (Hgood & Hav & Hnext & Hnecs).
  destruct (split_complete (y0 :: ys0) (i_cs x) y0 ys0 Hraw eq_refl Hnecs (chunks_sorted_SS _ Hsort) Hgood Hav Hnext)
    as (ws & E & Hsub).
  unfold ws_of. rewrite E. simpl. auto.
Qed.

(* ---------- grouping ---------- *)
Fixpoint adj_distinct (l : list labels) : Prop :=
  match l with
  | a :: r => match r with b :: _ => labels_eqb a b = false | [] => True end /\ adj_distinct r
  | [] => True
  end.

Lemma group_adj_block ls : forall ws w0 rest,
  match group_adj rest with (ls', _) :: _ => labels_eqb ls ls' = false | [] => True end ->
  group_adj (map (fun w => (ls, w)) (w0 :: ws) ++ rest) = (ls, w0 :: ws) :: group_adj rest.
Proof.
  induction ws as [|w ws IH]; intros w0 rest H.
  - cbn [map app group_adj]. destruct (group_adj rest) as [|[ls' ws'] gs]; [reflexivity|].
    rewrite H. reflexivity.
  - change (map (fun w1 => (ls, w1)) (w0 :: w :: ws) ++ rest)
      with ((ls, w0) :: (map (fun w1 => (ls, w1)) (w :: ws) ++ rest)).
    cbn [group_adj]. rewrite (IH w rest H). rewrite labels_eqb_refl. reflexivity.
Qed.

Definition subs_of (items : list item) : list (labels * list sample) :=
  flat_map (fun s : pseries => map (fun r => (fst s, chunk_iter r)) (overlap_split (snd s)))
           (map (fun x => (i_lbl x, i_cs x)) items).

Lemma subs_of_cons x items :
  subs_of (x :: items)
  = map (fun w => (i_lbl x, w)) (map chunk_iter (overlap_split (i_cs x))) ++ subs_of items.
Proof. unfold subs_of. cbn [map flat_map fst snd]. rewrite map_map. reflexivity. Qed.

Lemma group_items : forall items,
  Forall item_ok items -> adj_distinct (map i_lbl items) ->
  group_adj (subs_of items) = map (fun x => (i_lbl x, i_L x :: ws_of x)) items.
Proof.
  induction items as [|x items IH]; intros HF Hd; [reflexivity|].
  inversion HF as [|? ? Hx HF']; subst. destruct Hd as [Hd1 Hd2].
  rewrite subs_of_cons.
  destruct (item_split x Hx) as [E _]. rewrite E.
  rewrite group_adj_block.
  - rewrite (IH HF' Hd2). reflexivity.
  - rewrite (IH HF' Hd2). destruct items as [|x' items']; [exact I|]. exact Hd1.
Qed.

Theorem select_identical_replicas mint maxt items :
  Forall item_ok items -> adj_distinct (map i_lbl items) ->
  select mint maxt true (map (fun x => (i_lbl x, i_cs x)) items)
  = Some (map (fun x => (i_lbl x, in_range mint maxt (i_L x))) items).
Proof.
  intros HF Hd. unfold select. cbv zeta.
  change (flat_map _ (map (fun x => (i_lbl x, i_cs x)) items)) with (subs_of items).
  rewrite (group_items items HF Hd).
  clear Hd. induction items as [|x items IH]; [reflexivity|].
  inversion HF as [|? ? Hx HF']; subst. cbn [map sequence fst snd].
  destruct (item_split x Hx) as [_ Hsub]. destruct Hx as (Hraw & _).
  rewrite (series_samples_total mint maxt (i_L x) (ws_of x) Hraw Hsub).
  rewrite (IH HF'). reflexivity.
Qed.
