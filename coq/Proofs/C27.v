(* C27 — lemmas. *)
From Coq Require Import ZArith List Bool Lia Arith Permutation.
Import ListNotations.
From Verif Require Import Lib.Corr Gen.C27 Model.C27.
Close Scope Z_scope.

(* tie T *)
Lemma err_aborts_false : err_aborts = false.
Proof. vm_compute. reflexivity. Qed.

Lemma store_guarded_true : store_guarded = true.
Proof. vm_compute. reflexivity. Qed.

(* ------------------------------------------------------------------ *)
(* matching inside one glob set                                         *)

Definition glob_spec (rs : list (option bool)) : mres :=
  if existsb is_true rs then MTrue else if existsb is_none rs then MErr else MFalse.

Lemma glob_loop_spec : forall rs err,
  glob_loop false err rs =
  if existsb is_true rs then MTrue else if err || existsb is_none rs then MErr else MFalse.
Proof.
  induction rs as [|[[|]|] r IH]; intro err; simpl.
  - rewrite orb_false_r. reflexivity.
  - reflexivity.
  - apply IH.
  - rewrite IH. rewrite !orb_true_r. simpl. destruct (existsb is_true r); reflexivity.
Qed.

Lemma glob_match_spec rs : glob_match rs = glob_spec rs.
Proof. unfold glob_match, glob_spec. rewrite err_aborts_false, glob_loop_spec. reflexivity. Qed.

Lemma existsb_perm {A} (f : A -> bool) l l' : Permutation l l' -> existsb f l = existsb f l'.
Proof.
  induction 1; simpl; auto.
  - rewrite IHPermutation. reflexivity.
  - destruct (f x), (f y); reflexivity.
  - congruence.
Qed.

Lemma glob_match_order_independent rs rs' : Permutation rs rs' -> glob_match rs = glob_match rs'.
Proof.
  intro P. rewrite !glob_match_spec. unfold glob_spec.
  rewrite (existsb_perm is_true _ _ P), (existsb_perm is_none _ _ P). reflexivity.
Qed.

(* before the repair: the loop that aborts on a pattern error depends on the order *)
Lemma abort_order_dependent :
  exists rs rs', Permutation rs rs' /\ glob_loop true false rs <> glob_loop true false rs'.
Proof.
  exists [None; Some true], [Some true; None]. split; [apply perm_swap|]. simpl. discriminate.
Qed.

(* ------------------------------------------------------------------ *)
(* routing: first match                                                 *)

Lemma route_first_match tenant : forall cfgs i k,
  route i cfgs tenant = RIdx k ->
  i <= k /\ k - i < length cfgs /\
  tmatch tenant (nth (k - i) cfgs TOther) = MTrue /\
  forall j, j < k - i -> tmatch tenant (nth j cfgs TOther) = MFalse.
Proof.
  induction cfgs as [|t r IH]; intros i k H; simpl in H; [discriminate|].
  destruct (tmatch tenant t) eqn:M.
  - inversion H; subst. rewrite Nat.sub_diag. simpl. split; [lia|]. split; [lia|]. split; [exact M|]. intros j Hj. lia.
  - destruct (IH _ _ H) as [H1 [H2 [H3 H4]]].
    replace (k - i) with (S (k - S i)) by lia. simpl. split; [lia|]. split; [lia|]. split; [exact H3|].
    intros [|j] Hj; [exact M|]. apply H4. lia.
  - discriminate.
Qed.

Lemma route_err tenant : forall cfgs i,
  route i cfgs tenant = RErr ->
  (forall j, j < length cfgs -> tmatch tenant (nth j cfgs TOther) = MFalse) \/
  (exists j, j < length cfgs /\ tmatch tenant (nth j cfgs TOther) = MErr /\
             forall j', j' < j -> tmatch tenant (nth j' cfgs TOther) = MFalse).
Proof.
  induction cfgs as [|t r IH]; intros i H; simpl in H.
  - left. intros j Hj. simpl in Hj. lia.
  - destruct (tmatch tenant t) eqn:M; [discriminate| |].
    + destruct (IH _ H) as [Hall|[j [Hj [He Hb]]]].
      * left. intros [|j] Hj; [exact M|]. simpl in Hj. apply Hall. lia.
      * right. exists (S j). simpl. split; [lia|]. split; [exact He|].
        intros [|j'] Hj'; [exact M|]. apply Hb. lia.
    + right. exists 0. simpl. split; [lia|]. split; [exact M|]. intros j' Hj'. lia.
Qed.

(* the map iteration order inside the tenant sets cannot change the route *)
Inductive tset_perm : tset -> tset -> Prop :=
| tp_default : tset_perm TDefault TDefault
| tp_exact ids ids' : Permutation ids ids' -> tset_perm (TExact ids) (TExact ids')
| tp_glob rs rs' : Permutation rs rs' -> tset_perm (TGlob rs) (TGlob rs')
| tp_other : tset_perm TOther TOther.

Lemma tmatch_perm tenant t t' : tset_perm t t' -> tmatch tenant t = tmatch tenant t'.
Proof.
  destruct 1; simpl; try reflexivity.
  - rewrite (existsb_perm _ _ _ H). reflexivity.
  - apply glob_match_order_independent. exact H.
Qed.

Lemma route_order_independent tenant : forall cfgs cfgs' i,
  Forall2 tset_perm cfgs cfgs' -> route i cfgs tenant = route i cfgs' tenant.
Proof.
  intros cfgs cfgs' i F. revert i. induction F as [|t t' r r' Ht F IH]; intro i; simpl; [reflexivity|].
  rewrite (tmatch_perm tenant t t' Ht). destruct (tmatch tenant t'); auto.
Qed.

(* with the repaired loop the set of possible results is the single model result *)
Lemma route_poss_single tenant : forall cfgs i, route_poss i cfgs tenant = [route i cfgs tenant].
Proof.
  induction cfgs as [|t r IH]; intro i; simpl; [reflexivity|].
  assert (E : tmatch_poss tenant t = [tmatch tenant t]).
  { destruct t; reflexivity. }
  rewrite E. destruct (tmatch tenant t); simpl; try reflexivity. rewrite IH. reflexivity.
Qed.

(* ------------------------------------------------------------------ *)
(* the cache under arbitrary interleavings                              *)

(* tie T: the cache is keyed by the full tenant name *)
Lemma cache_key_is_tenant_true : cache_key_is_tenant = true.
Proof. reflexivity. Qed.

Lemma exec_gen_keyed_correct compute slot : forall evs cache,
  (forall p, In p cache -> snd p = compute (fst p)) ->
  forall t r, In (t, r) (exec_gen compute true slot cache evs) -> r = compute t.
Proof.
  induction evs as [|e evs IH]; intros cache Hinv t r Hin; simpl in Hin; [contradiction|].
  destruct e as [t0|t0].
  - destruct Hin as [Heq|Hin]; [|eapply IH; eauto].
    inversion Heq; subst. unfold cget_gen, same_key.
    destruct (find (fun p => (fst p =? t)%Z) cache) as [p|] eqn:F; [|reflexivity].
    apply find_some in F as [Hp Ht]. apply Z.eqb_eq in Ht. rewrite (Hinv p Hp), Ht. reflexivity.
  - destruct (compute t0) eqn:C.
    + eapply IH; [|exact Hin]. intros p [<-|Hp]; [simpl; symmetry; exact C|auto].
    + eapply IH; eauto.
Qed.

Lemma exec_correct compute : forall evs cache,
  (forall p, In p cache -> snd p = compute (fst p)) ->
  forall t r, In (t, r) (exec compute cache evs) -> r = compute t.
Proof. unfold exec. rewrite cache_key_is_tenant_true. apply exec_gen_keyed_correct. Qed.

(* a cache that finds entries through a slot function without comparing the tenant
   names answers wrongly as soon as two tenants with different routes share a slot:
   serve t1, then ask for t2 *)
Lemma slot_cache_misroutes compute slot t1 t2 i :
  slot t1 = slot t2 -> compute t1 = RIdx i -> compute t2 <> RIdx i ->
  exists r, In (t2, r) (exec_gen compute false slot [] [Lookup t1; Store t1; Lookup t2]) /\ r <> compute t2.
Proof.
  intros Hs H1 H2. exists (RIdx i). simpl. rewrite H1. simpl.
  unfold cget_gen, same_key. simpl. rewrite Hs, Z.eqb_refl. simpl.
  split; [right; left; reflexivity|]. intro E. apply H2. symmetry. exact E.
Qed.


(* pred_ok holds of the model's own answers however often they are repeated *)
Lemma pred_ok_model tenant cfgs n m :
  pred_ok (CRoute [Q tenant cfgs (repeat (route 0 cfgs tenant) (S n)) (repeat (route 0 cfgs tenant) m)]) = true.
Proof.
  simpl. unfold pred_qs. simpl. rewrite andb_true_r, route_poss_single. simpl.
  assert (R : forall a, rres_eqb a a = true) by (intros [i|]; simpl; [apply Nat.eqb_refl|reflexivity]).
  rewrite !R. simpl. rewrite andb_true_r.
  apply forallb_forall. intros x Hx. apply in_app_or in Hx as [Hx|Hx]; apply repeat_spec in Hx; subst; apply R.
Qed.

Lemma route_first_match_0 tenant cfgs k :
  route 0 cfgs tenant = RIdx k ->
  k < length cfgs /\
  tmatch tenant (nth k cfgs TOther) = MTrue /\
  forall j, j < k -> tmatch tenant (nth j cfgs TOther) = MFalse.
Proof.
  intro H. destruct (route_first_match tenant cfgs 0 k H) as [_ [H2 [H3 H4]]].
  rewrite Nat.sub_0_r in *. auto.
Qed.

Lemma route_err_0 tenant cfgs :
  route 0 cfgs tenant = RErr ->
  (forall j, j < length cfgs -> tmatch tenant (nth j cfgs TOther) = MFalse) \/
  (exists j, j < length cfgs /\ tmatch tenant (nth j cfgs TOther) = MErr /\
             forall j', j' < j -> tmatch tenant (nth j' cfgs TOther) = MFalse).
Proof. apply route_err. Qed.

Lemma route_order_independent_0 tenant cfgs cfgs' :
  Forall2 tset_perm cfgs cfgs' -> route 0 cfgs tenant = route 0 cfgs' tenant.
Proof. apply route_order_independent. Qed.
