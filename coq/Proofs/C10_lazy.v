(* C10 — lazy expanded postings: fetching only the non-lazy groups and re-checking the lazy
   names' matchers on every candidate series selects the same series. *)
From Coq Require Import ZArith NArith List Bool Lia Sorted.
Import ListNotations.
From Verif Require Import Lib.Corr Lib.Storegw_Str Gen.C10 Model.C10 Proofs.C10 Proofs.C10_merge Proofs.C10_select.
Open Scope Z_scope.

Lemma select_with_eq idx ms lazy :
  ms <> [] -> Forall coherent ms -> consistent ms -> wf_index idx ->
  (* at least one group with add keys is fetched *)
  (forall gs, matchers_to_groups idx ms = Some gs ->
     existsb g_all gs && negb (existsb (fun g => negb (is_nil (g_add g))) gs) = false ->
     exists g, In g gs /\ g_add g <> [] /\ lazy (g_name g) = false) ->
  select_with idx ms lazy = select idx ms.
Proof.
  intros Hne Hc Hcons Hidx Heager.
  rewrite (select_eq_filter idx ms Hne Hc Hcons Hidx).
  unfold select_with. destruct ms as [|m0 ms0] eqn:Ems; [congruence|]. rewrite <- Ems in *.
  destruct (matchers_to_groups idx ms) as [gs|] eqn:Eg.
  2:{ (* no group list: the eager computation returns nothing either *)
    rewrite <- (select_eq_filter idx ms Hne Hc Hcons Hidx). unfold select. rewrite Ems. rewrite <- Ems. rewrite Eg. reflexivity. }
  destruct (groups_good idx ms Hc gs Eg) as (Hgood & Hcover).
  set (ms' := dedup_matchers ms) in *.
  destruct (existsb g_all gs && negb (existsb (fun g => negb (is_nil (g_add g))) gs)) eqn:Eall.
  { apply (select_eq_filter idx ms Hne Hc Hcons Hidx). }
  destruct (Heager gs eq_refl Eall) as (g0 & Hg0 & Hg0a & Hg0l).
  set (kept := filter (fun g => negb (is_nil (g_add g) && is_nil (g_rem g))) gs).
  set (eager := filter (fun g => negb (lazy (g_name g))) kept).
  set (lazy_ms := filter (fun m => lazy (m_name m) && existsb (fun g => str_eqb (g_name g) (m_name m)) kept) ms').
  set (adds := filter (fun g => negb (is_nil (g_add g))) eager).
  assert (Hkept : forall g, In g kept <-> In g gs /\ (g_add g <> [] \/ g_rem g <> [])).
  { intro g. unfold kept. rewrite filter_In. split; intros [H1 H2]; split; auto.
    - destruct (g_add g); [|left; discriminate]. destruct (g_rem g); [discriminate|right; discriminate].
    - destruct H2 as [H2|H2]; [destruct (g_add g); [congruence|reflexivity]|].
      destruct (g_add g); [|reflexivity]. destruct (g_rem g); [congruence|reflexivity]. }
  assert (Hadds : In g0 adds).
  { unfold adds, eager. rewrite !filter_In. split; [split|].
    - apply Hkept. split; [exact Hg0|left; exact Hg0a].
    - rewrite Hg0l. reflexivity.
    - destruct (g_add g0); [congruence|reflexivity]. }
  destruct adds as [|a0 adds0] eqn:Eadds; [contradiction|]. cbn [is_nil]. rewrite <- Eadds.
  (* sat over ms <-> sat over ms' (as in select_eq_filter) *)
  assert (Hsub : forall m, In m ms' -> In m ms) by (intro m; apply dedup_sub).
  assert (Hsat : forall s : series, forallb (fun m => m_fun m (label_get (fst s) (m_name m))) ms = true
                           <-> forall m, In m ms' -> m_fun m (label_get (fst s) (m_name m)) = true).
  { intro s. rewrite forallb_forall. split; intros H m Hm.
    - apply H, Hsub, Hm.
    - destruct (dedup_repr ms m Hm) as (m' & Hm' & Hs).
      rewrite (matcher_same_name _ _ Hs). rewrite (Hcons m m' Hm (Hsub _ Hm') Hs). apply H. exact Hm'. }
  apply filter_ext_in. intros s Hs. apply eq_true_iff_eq. rewrite Hsat.
  rewrite !andb_true_iff, !forallb_forall. split.
  - intros [[Ha Hr] Hl] m Hm.
    destruct (Hcover m Hm) as (g & Hg & Hn).
    destruct (Hgood g Hg) as ((W1 & W2 & W3 & W4) & Hnz & _ & Hsem).
    (* the group of m's name is key-less, lazy, or fetched *)
    destruct (is_nil (g_add g) && is_nil (g_rem g)) eqn:Ekl.
    + (* key-less: an add-all group without removals, every value passes *)
      apply andb_true_iff in Ekl. destruct Ekl as [E1 E2]. apply is_nil_true in E1. apply is_nil_true in E2.
      assert (Hall : g_all g = true).
      { destruct (g_all g) eqn:Ega; [reflexivity|]. exfalso. apply Hnz. split; [first [exact Ega | reflexivity]|exact E1]. }
      pose proof (Hsem s Hs) as Hx. unfold in_group in Hx. rewrite Hall, E2 in Hx. simpl in Hx.
      symmetry in Hx. unfold conj_ms in Hx. rewrite forallb_forall in Hx. unfold gval in Hx. rewrite Hn in Hx.
      apply Hx. apply filter_In. split; [exact Hm|apply str_eqb_refl].
    + assert (Hk : In g kept) by (unfold kept; apply filter_In; split; [exact Hg|rewrite Ekl; reflexivity]).
      destruct (lazy (m_name m)) eqn:El.
      * apply Hl. unfold lazy_ms. apply filter_In. split; [exact Hm|]. rewrite El. cbn [andb].
        apply existsb_exists. exists g. split; [exact Hk|]. rewrite Hn. apply str_eqb_refl.
      * assert (He : In g eager) by (unfold eager; apply filter_In; split; [exact Hk|rewrite Hn, El; reflexivity]).
        assert (Hin : in_group g (gval s g) = true).
        { unfold in_group. destruct (g_all g) eqn:Ega.
          - apply (Hr g He).
          - apply (Ha g). unfold adds. apply filter_In. split; [exact He|].
            destruct (g_add g) eqn:Eadd; [exfalso; apply Hnz; split; [first [exact Ega | reflexivity]|first [exact Eadd | reflexivity]]|reflexivity]. }
        rewrite (Hsem s Hs) in Hin. unfold conj_ms in Hin. rewrite forallb_forall in Hin. unfold gval in Hin. rewrite Hn in Hin.
        apply Hin. apply filter_In. split; [exact Hm|apply str_eqb_refl].
  - intro H.
    assert (Hgrp : forall g, In g gs -> in_group g (gval s g) = true).
    { intros g Hg. destruct (Hgood g Hg) as (_ & _ & _ & Hsem). rewrite (Hsem s Hs).
      unfold conj_ms. apply forallb_forall. intros m Hm. apply filter_In in Hm. destruct Hm as [Hm Hnm].
      apply str_eqb_eq in Hnm. unfold gval. rewrite <- Hnm. apply H. exact Hm. }
    split; [split|].
    + intros g Hg. unfold adds in Hg. apply filter_In in Hg. destruct Hg as [Hg Hga].
      unfold eager in Hg. apply filter_In in Hg. destruct Hg as [Hg _]. apply Hkept in Hg. destruct Hg as [Hg _].
      specialize (Hgrp g Hg). destruct (Hgood g Hg) as ((W1 & W2 & W3 & W4) & _).
      unfold in_group, gval in Hgrp. destruct (g_all g) eqn:Ega; [|exact Hgrp]. rewrite (W3 eq_refl) in Hga. discriminate.
    + intros g Hg. unfold eager in Hg. apply filter_In in Hg. destruct Hg as [Hg _]. apply Hkept in Hg. destruct Hg as [Hg _].
      specialize (Hgrp g Hg). destruct (Hgood g Hg) as ((W1 & W2 & W3 & W4) & _).
      unfold in_group, gval in Hgrp. destruct (g_all g) eqn:Ega; [exact Hgrp|]. rewrite (W4 eq_refl). reflexivity.
    + intros m Hm. unfold lazy_ms in Hm. apply filter_In in Hm. destruct Hm as [Hm _]. apply H. exact Hm.
Qed.
