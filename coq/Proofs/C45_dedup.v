(* C45 — dedupGroups / dedupRules and the composed GRPCClient.Rules pipeline. *)
From Coq Require Import NArith ZArith List Bool Lia Permutation Sorted.
Import ListNotations.
From Verif Require Import Lib.Corr Lib.Misc_Cmp Gen.C45 Model.C45 Proofs.C45.

(* ---- the comparisons are total preorders ---- *)

Lemma kind_cmp_good : good_cmp kind_cmp.
Proof.
  constructor.
  - intros []; reflexivity.
  - intros [] []; reflexivity.
  - intros [] [] []; simpl; congruence.
  - intros [] [] []; simpl; congruence.
Qed.

Lemma label_cmp_good : good_cmp label_cmp.
Proof. apply lex_cmp_good; apply on_cmp_good; apply str_cmp_good. Qed.

Lemma labels_cmp_good : good_cmp labels_cmp.
Proof. apply list_cmp_good, label_cmp_good. Qed.

Lemma label_cmp_eq a b : label_cmp a b = Eq -> a = b.
Proof.
  destruct a as [a1 a2], b as [b1 b2]. unfold label_cmp, lex_cmp, on_cmp. simpl.
  destruct (str_cmp a1 b1) eqn:E1; try discriminate. intro E2.
  apply str_cmp_eq in E1, E2. congruence.
Qed.

Lemma labels_cmp_eq a b : labels_cmp a b = Eq -> a = b.
Proof. apply list_cmp_eq. exact label_cmp_eq. Qed.

Definition eff_dur (r : rule) : Z := if is_alert r then r_dur r else 0%Z.

Definition rule_cmp_lex : rule -> rule -> comparison :=
  lex_cmp (on_cmp r_kind kind_cmp)
    (lex_cmp (on_cmp r_name str_cmp)
       (lex_cmp (on_cmp r_labels labels_cmp)
          (lex_cmp (on_cmp r_query str_cmp) (on_cmp eff_dur Z.compare)))).

Lemma rule_cmp_is_lex r1 r2 : rule_cmp r1 r2 = rule_cmp_lex r1 r2.
Proof.
  unfold rule_cmp, rule_cmp_lex, lex_cmp, on_cmp, eff_dur, is_alert.
  destruct (r_kind r1), (r_kind r2); simpl; try reflexivity;
    destruct (str_cmp (r_name r1) (r_name r2)); try reflexivity;
    destruct (labels_cmp (r_labels r1) (r_labels r2)); try reflexivity;
    destruct (str_cmp (r_query r1) (r_query r2)); reflexivity.
Qed.

Lemma rule_cmp_lex_good : good_cmp rule_cmp_lex.
Proof.
  repeat apply lex_cmp_good; apply on_cmp_good;
    first [apply kind_cmp_good | apply str_cmp_good | apply labels_cmp_good | apply Z_compare_good].
Qed.

Lemma rule_cmp_good : good_cmp rule_cmp.
Proof.
  pose proof rule_cmp_lex_good as G.
  constructor; intros; rewrite ?rule_cmp_is_lex in *.
  - apply (gc_refl _ G).
  - apply (gc_sym _ G).
  - eapply (gc_trans _ G); eauto.
  - apply (gc_eq_l _ G); assumption.
Qed.

Lemma group_cmp_good : good_cmp group_cmp.
Proof. apply (on_cmp_good g_key str_cmp), str_cmp_good. Qed.

Lemma group_cmp_eq a b : group_cmp a b = Eq -> g_key a = g_key b.
Proof. apply str_cmp_eq. Qed.

(* ---- generic facts ---- *)

Definition clt {A} (c : A -> A -> comparison) (x y : A) : Prop := c x y = Lt.

Lemma no_dup_by_strict {A} (c : A -> A -> comparison) l :
  StronglySorted (clt c) l -> no_dup_by c l = true.
Proof.
  induction 1 as [|x l Hs IH Hall]; simpl; [reflexivity|].
  rewrite IH, andb_true_r. apply forallb_forall. intros y Hy.
  rewrite Forall_forall in Hall. specialize (Hall y Hy). unfold clt in Hall. rewrite Hall. reflexivity.
Qed.

Lemma is_eq_true r : is_eq r = true <-> r = Eq.
Proof. destruct r; simpl; split; congruence. Qed.

Lemma is_eq_false r : is_eq r = false <-> r <> Eq.
Proof. destruct r; simpl; split; congruence. Qed.

(* ---- dedup_loop ---- *)

Lemma dedup_loop_In cur rest x : In x (dedup_loop cur rest) -> In x (cur :: rest).
Proof.
  revert cur. induction rest as [|r rest IH]; intros cur H; simpl in H.
  - exact H.
  - destruct (negb (is_eq (rule_cmp cur r))).
    + destruct H as [H|H]; [left; exact H|]. right. apply IH. exact H.
    + destruct (younger cur r).
      * right. apply IH. exact H.
      * apply IH in H. destruct H as [H|H]; [left; exact H | right; right; exact H].
Qed.

Lemma dedup_loop_rep cur rest x :
  In x (cur :: rest) -> exists r', In r' (dedup_loop cur rest) /\ rule_cmp x r' = Eq.
Proof.
  pose proof rule_cmp_good as G.
  revert cur x. induction rest as [|r rest IH]; intros cur x H.
  - destruct H as [H|[]]. subst. exists x. split; [left; reflexivity | apply (gc_refl _ G)].
  - simpl. destruct (is_eq (rule_cmp cur r)) eqn:E; simpl.
    + apply is_eq_true in E.
      destruct (younger cur r).
      * destruct H as [H|H].
        -- subst x. destruct (IH r r (or_introl eq_refl)) as [r' [Hin Hr]].
           exists r'. split; [exact Hin|]. eapply (gc_eq_trans _ G); eauto.
        -- apply IH. exact H.
      * destruct H as [H|[H|H]].
        -- subst x. apply IH. left; reflexivity.
        -- subst x. destruct (IH cur cur (or_introl eq_refl)) as [r' [Hin Hr]].
           exists r'. split; [exact Hin|]. eapply (gc_eq_trans _ G); [|exact Hr].
           apply (gc_eq_sym _ G). exact E.
        -- apply IH. right. exact H.
    + destruct H as [H|H].
      * subst x. exists cur. split; [left; reflexivity | apply (gc_refl _ G)].
      * destruct (IH r x H) as [r' [Hin Hr]]. exists r'. split; [right; exact Hin | exact Hr].
Qed.

Lemma sorted_drop_second {A} (R : A -> A -> Prop) x y l :
  StronglySorted R (x :: y :: l) -> StronglySorted R (x :: l).
Proof.
  intro H. inversion H as [|? ? Hs Hall]; subst. inversion Hs as [|? ? Hs' Hall']; subst.
  constructor; [exact Hs'|]. inversion Hall; subst. assumption.
Qed.

Lemma dedup_loop_strict cur rest :
  StronglySorted (cle rule_cmp) (cur :: rest) -> StronglySorted (clt rule_cmp) (dedup_loop cur rest).
Proof.
  pose proof rule_cmp_good as G.
  revert cur. induction rest as [|r rest IH]; intros cur H; simpl.
  - constructor; constructor.
  - destruct (is_eq (rule_cmp cur r)) eqn:E; simpl.
    + destruct (younger cur r).
      * apply IH. inversion H; assumption.
      * apply IH. eapply sorted_drop_second; exact H.
    + apply is_eq_false in E.
      inversion H as [|? ? Hs Hall]; subst.
      constructor; [apply IH; exact Hs|].
      apply Forall_forall. intros x Hx. apply dedup_loop_In in Hx.
      assert (Hlt : rule_cmp cur r = Lt).
      { inversion Hall as [|? ? Hc _]; subst. unfold cle in Hc.
        destruct (rule_cmp cur r); congruence. }
      destruct Hx as [Hx|Hx]; [subst; exact Hlt|].
      inversion Hs as [|? ? _ Hall']; subst. rewrite Forall_forall in Hall'.
      eapply (clt_le_trans _ G); [exact Hlt | apply Hall'; exact Hx].
Qed.

(* ---- dedup_rules ---- *)

Lemma dedup_rules_In replica rs x :
  In x (dedup_rules replica rs) -> exists r, In r rs /\ x = strip replica r.
Proof.
  unfold dedup_rules. intro H.
  assert (Hin : In x (isort rule_cmp (map (strip replica) rs))).
  { destruct (isort rule_cmp (map (strip replica) rs)) as [|r rest]; [destruct H|].
    apply dedup_loop_In. exact H. }
  apply isort_In in Hin. apply in_map_iff in Hin as [r [E Hr]]. exists r. split; [exact Hr | congruence].
Qed.

Lemma dedup_rules_rep replica rs r :
  In r rs -> exists r', In r' (dedup_rules replica rs) /\ rule_cmp (strip replica r) r' = Eq.
Proof.
  intro H. unfold dedup_rules.
  assert (Hin : In (strip replica r) (isort rule_cmp (map (strip replica) rs))).
  { apply isort_In. apply in_map. exact H. }
  destruct (isort rule_cmp (map (strip replica) rs)) as [|r0 rest]; [destruct Hin|].
  apply dedup_loop_rep. exact Hin.
Qed.

Lemma dedup_rules_strict replica rs : StronglySorted (clt rule_cmp) (dedup_rules replica rs).
Proof.
  unfold dedup_rules.
  pose proof (isort_sorted rule_cmp rule_cmp_good (map (strip replica) rs)) as Hs.
  destruct (isort rule_cmp (map (strip replica) rs)) as [|r0 rest]; [constructor|].
  apply dedup_loop_strict. exact Hs.
Qed.

(* ---- merge_loop / dedup_groups ---- *)

Lemma merge_loop_sound cur rest g' r :
  In g' (merge_loop cur rest) -> In r (g_rules g') ->
  exists g, In g (cur :: rest) /\ g_key g = g_key g' /\ In r (g_rules g).
Proof.
  revert cur. induction rest as [|g rest IH]; intros cur Hg Hr; simpl in Hg.
  - destruct Hg as [Hg|[]]. subst. exists g'. split; [left; reflexivity | split; [reflexivity | exact Hr]].
  - destruct (is_eq (group_cmp g cur)) eqn:E.
    + apply is_eq_true, group_cmp_eq in E.
      destruct (IH _ Hg Hr) as [g0 [Hin [Hk Hr0]]].
      destruct Hin as [Hin|Hin].
      * subst g0. simpl in Hk, Hr0. apply in_app_or in Hr0 as [Hr0|Hr0].
        -- exists cur. split; [left; reflexivity | split; assumption].
        -- exists g. split; [right; left; reflexivity | split; [congruence | exact Hr0]].
      * exists g0. split; [right; right; exact Hin | split; assumption].
    + destruct Hg as [Hg|Hg].
      * subst g'. exists cur. split; [left; reflexivity | split; [reflexivity | exact Hr]].
      * destruct (IH _ Hg Hr) as [g0 [Hin H0]]. exists g0. split; [right; exact Hin | exact H0].
Qed.

Lemma merge_loop_key cur rest g' :
  In g' (merge_loop cur rest) -> exists g, In g (cur :: rest) /\ g_key g = g_key g'.
Proof.
  revert cur. induction rest as [|g rest IH]; intros cur Hg; simpl in Hg.
  - destruct Hg as [Hg|[]]. subst. exists g'. split; [left; reflexivity | reflexivity].
  - destruct (is_eq (group_cmp g cur)) eqn:E.
    + destruct (IH _ Hg) as [g0 [Hin Hk]]. destruct Hin as [Hin|Hin].
      * subst g0. exists cur. split; [left; reflexivity | exact Hk].
      * exists g0. split; [right; right; exact Hin | exact Hk].
    + destruct Hg as [Hg|Hg].
      * subst. exists g'. split; [left; reflexivity | reflexivity].
      * destruct (IH _ Hg) as [g0 [Hin Hk]]. exists g0. split; [right; exact Hin | exact Hk].
Qed.

Lemma merge_loop_complete cur rest g r :
  In g (cur :: rest) -> In r (g_rules g) ->
  exists g', In g' (merge_loop cur rest) /\ g_key g' = g_key g /\ In r (g_rules g').
Proof.
  revert cur g. induction rest as [|g1 rest IH]; intros cur g Hg Hr; simpl.
  - destruct Hg as [Hg|[]]. subst. exists g. split; [left; reflexivity | split; [reflexivity | exact Hr]].
  - destruct (is_eq (group_cmp g1 cur)) eqn:E.
    + apply is_eq_true, group_cmp_eq in E.
      set (cur' := Group (g_key cur) (g_rules cur ++ g_rules g1)).
      destruct Hg as [Hg|[Hg|Hg]].
      * subst g. destruct (IH cur' cur' (or_introl eq_refl)) as [g' H']; [simpl; apply in_or_app; left; exact Hr|].
        exists g'. exact H'.
      * subst g. destruct (IH cur' cur' (or_introl eq_refl)) as [g' [Hin [Hk Hr']]]; [simpl; apply in_or_app; right; exact Hr|].
        exists g'. split; [exact Hin | split; [simpl in Hk; congruence | exact Hr']].
      * apply IH; [right; exact Hg | exact Hr].
    + destruct Hg as [Hg|Hg].
      * subst g. exists cur. split; [left; reflexivity | split; [reflexivity | exact Hr]].
      * destruct (IH g1 g Hg Hr) as [g' [Hin H']]. exists g'. split; [right; exact Hin | exact H'].
Qed.

Lemma merge_loop_strict cur rest :
  StronglySorted (cle group_cmp) (cur :: rest) -> StronglySorted (clt group_cmp) (merge_loop cur rest).
Proof.
  pose proof group_cmp_good as G.
  revert cur. induction rest as [|g rest IH]; intros cur H; simpl.
  - constructor; constructor.
  - destruct (is_eq (group_cmp g cur)) eqn:E.
    + apply IH. apply sorted_drop_second in H.
      inversion H as [|? ? Hs Hall]; subst. constructor; [exact Hs | exact Hall].
    + apply is_eq_false in E.
      inversion H as [|? ? Hs Hall]; subst.
      constructor; [apply IH; exact Hs|].
      assert (Hlt : group_cmp cur g = Lt).
      { inversion Hall as [|? ? Hc _]; subst. unfold cle in Hc.
        destruct (group_cmp cur g) eqn:E2; try congruence.
        exfalso. apply E. apply (gc_eq_sym _ G). exact E2. }
      apply Forall_forall. intros x Hx. apply merge_loop_key in Hx as [g0 [Hin Hk]].
      unfold clt, group_cmp. rewrite <- Hk. fold (group_cmp cur g0).
      destruct Hin as [Hin|Hin]; [subst; exact Hlt|].
      inversion Hs as [|? ? _ Hall']; subst. rewrite Forall_forall in Hall'.
      eapply (clt_le_trans _ G); [exact Hlt | apply Hall'; exact Hin].
Qed.

Lemma dedup_groups_sound gs g' r :
  In g' (dedup_groups gs) -> In r (g_rules g') ->
  exists g, In g gs /\ g_key g = g_key g' /\ In r (g_rules g).
Proof.
  unfold dedup_groups. intros Hg Hr.
  destruct (isort group_cmp gs) as [|g0 rest] eqn:E; [destruct Hg|].
  destruct (merge_loop_sound _ _ _ _ Hg Hr) as [g [Hin H']].
  exists g. split; [|exact H']. apply (isort_In group_cmp). rewrite E. exact Hin.
Qed.

Lemma dedup_groups_complete gs g r :
  In g gs -> In r (g_rules g) ->
  exists g', In g' (dedup_groups gs) /\ g_key g' = g_key g /\ In r (g_rules g').
Proof.
  unfold dedup_groups. intros Hg Hr.
  apply (isort_In group_cmp) in Hg.
  destruct (isort group_cmp gs) as [|g0 rest]; [destruct Hg|].
  apply merge_loop_complete; assumption.
Qed.

Lemma dedup_groups_strict gs : StronglySorted (clt group_cmp) (dedup_groups gs).
Proof.
  unfold dedup_groups.
  pose proof (isort_sorted group_cmp group_cmp_good gs) as Hs.
  destruct (isort group_cmp gs) as [|g0 rest]; [constructor|].
  apply merge_loop_strict. exact Hs.
Qed.

(* ---- filter_rules ---- *)
Section F.
  Variable re : str -> str -> bool.
  Variable templ : str -> bool.

  Lemma spec_match_nil ls : spec_match re templ [] ls = true.
  Proof. reflexivity. Qed.

  Lemma filter_rules_sound sets gs gF r :
    In gF (filter_rules re templ sets gs) -> In r (g_rules gF) ->
    exists g, In g gs /\ g_key g = g_key gF /\ In r (g_rules g) /\ spec_match re templ sets (r_labels r) = true.
  Proof.
    intros HF Hr. destruct sets as [|s0 sets].
    - simpl in HF. exists gF. repeat split; assumption.
    - rewrite filter_rules_spec in HF by discriminate.
      apply filter_In in HF as [HF _]. apply in_map_iff in HF as [g [E Hg]]. subst gF.
      simpl in Hr. apply filter_In in Hr as [Hr Hs].
      exists g. repeat split; assumption.
  Qed.

  Lemma filter_rules_complete sets gs g r :
    In g gs -> In r (g_rules g) -> spec_match re templ sets (r_labels r) = true ->
    exists gF, In gF (filter_rules re templ sets gs) /\ g_key gF = g_key g /\ In r (g_rules gF).
  Proof.
    intros Hg Hr Hs. destruct sets as [|s0 sets].
    - exists g. repeat split; assumption.
    - rewrite filter_rules_spec by discriminate.
      set (sets' := s0 :: sets) in *.
      exists (Group (g_key g) (filter (fun r => spec_match re templ sets' (r_labels r)) (g_rules g))).
      assert (Hin : In r (filter (fun r => spec_match re templ sets' (r_labels r)) (g_rules g))).
      { apply filter_In. split; assumption. }
      split; [|split; [reflexivity | exact Hin]].
      apply filter_In. split.
      + apply in_map_iff. exists g. split; [reflexivity | exact Hg].
      + simpl. destruct (filter _ (g_rules g)); [destruct Hin | reflexivity].
  Qed.
End F.

(* ---- the composed pipeline ---- *)

Lemma rules_of_key_In k gs r :
  In r (rules_of_key k gs) <-> exists g, In g gs /\ g_key g = k /\ In r (g_rules g).
Proof.
  unfold rules_of_key. rewrite in_concat. split.
  - intros [l [Hl Hr]]. apply in_map_iff in Hl as [g [E Hg]]. subst l.
    apply filter_In in Hg as [Hg Hk]. apply str_eqb_eq in Hk.
    exists g. repeat split; assumption.
  - intros [g [Hg [Hk Hr]]]. exists (g_rules g). split; [|exact Hr].
    apply in_map. apply filter_In. split; [exact Hg|]. apply str_eqb_eq. exact Hk.
Qed.

Lemma list_eqb_refl {A} (e : A -> A -> bool) : (forall x, e x x = true) -> forall l, list_eqb e l l = true.
Proof. intros H. induction l as [|x l IH]; simpl; [reflexivity|]. rewrite H, IH. reflexivity. Qed.

Lemma rule_eqb_refl r : rule_eqb r r = true.
Proof.
  unfold rule_eqb, kind_eqb, label_eqb.
  rewrite !str_eqb_refl, !Z.eqb_refl.
  rewrite list_eqb_refl by (intros [a b]; simpl; rewrite !str_eqb_refl; reflexivity).
  destruct (r_kind r); reflexivity.
Qed.

Lemma strict_map_key (h : group -> group) l :
  (forall g, g_key (h g) = g_key g) ->
  StronglySorted (clt group_cmp) l -> StronglySorted (clt group_cmp) (map h l).
Proof.
  intros Hk. induction 1 as [|x l Hs IH Hall]; simpl; constructor; [exact IH|].
  apply Forall_forall. intros y Hy. apply in_map_iff in Hy as [y0 [E Hy0]]. subst y.
  rewrite Forall_forall in Hall. specialize (Hall y0 Hy0).
  unfold clt, group_cmp in *. rewrite !Hk. exact Hall.
Qed.

(* readable statement of what GRPCClient.Rules returns *)
Section Api.
  Variable re : str -> str -> bool.
  Variable templ : str -> bool.
  Variable sets : list (list matcher).
  Variable replica : list str.
  Variable gs : list group.

  Let out := rules_api re templ sets replica gs.

  (* a rule of the input is selected when its labels pass the OR-of-ANDs specification *)
  Definition selected (r : rule) : Prop := spec_match re templ sets (r_labels r) = true.

  Lemma api_groups_distinct : StronglySorted (clt group_cmp) out.
  Proof.
    unfold out, rules_api. apply strict_map_key; [reflexivity|]. apply dedup_groups_strict.
  Qed.

  Lemma api_rules_distinct g' : In g' out -> StronglySorted (clt rule_cmp) (g_rules g').
  Proof.
    unfold out, rules_api. intro H. apply in_map_iff in H as [g [E _]]. subst g'. simpl.
    apply dedup_rules_strict.
  Qed.

  Lemma api_sound g' r' :
    In g' out -> In r' (g_rules g') ->
    exists g r, In g gs /\ g_key g = g_key g' /\ In r (g_rules g) /\ selected r /\ r' = strip replica r.
  Proof.
    unfold out, rules_api. intros Hg Hr. apply in_map_iff in Hg as [g1 [E Hg1]]. subst g'. simpl in *.
    apply dedup_rules_In in Hr as [r [Hr E]].
    destruct (dedup_groups_sound _ _ _ Hg1 Hr) as [gF [HgF [HkF HrF]]].
    destruct (filter_rules_sound _ _ _ _ _ _ HgF HrF) as [g [Hg [Hk [Hrg Hsel]]]].
    exists g, r. repeat split; try assumption. congruence.
  Qed.

  Lemma api_complete g r :
    In g gs -> In r (g_rules g) -> selected r ->
    exists g' r', In g' out /\ g_key g' = g_key g /\ In r' (g_rules g') /\ rule_cmp (strip replica r) r' = Eq.
  Proof.
    intros Hg Hr Hsel.
    destruct (filter_rules_complete re templ sets gs g r Hg Hr Hsel) as [gF [HgF [HkF HrF]]].
    destruct (dedup_groups_complete _ _ _ HgF HrF) as [g1 [Hg1 [Hk1 Hr1]]].
    destruct (dedup_rules_rep replica _ _ Hr1) as [r' [Hr' Hc]].
    exists (Group (g_key g1) (dedup_rules replica (g_rules g1))), r'.
    split; [|split; [simpl; congruence | split; [exact Hr' | exact Hc]]].
    unfold out, rules_api. apply in_map_iff. exists g1. split; [reflexivity | exact Hg1].
  Qed.

  Lemma api_pred_holds : api_pred re templ sets replica gs out = true.
  Proof.
    unfold api_pred. repeat (apply andb_true_iff; split).
    - apply no_dup_by_strict, api_groups_distinct.
    - apply forallb_forall. intros g' Hg'. apply no_dup_by_strict, api_rules_distinct, Hg'.
    - apply forallb_forall. intros g' Hg'. apply forallb_forall. intros r' Hr'.
      destruct (api_sound _ _ Hg' Hr') as [g [r [Hg [Hk [Hr [Hsel E]]]]]].
      apply existsb_exists. exists r. split.
      + apply rules_of_key_In. exists g. repeat split; assumption.
      + unfold selected in Hsel. rewrite Hsel. subst r'. simpl. apply rule_eqb_refl.
    - apply forallb_forall. intros g Hg. apply forallb_forall. intros r Hr.
      destruct (spec_match re templ sets (r_labels r)) eqn:Hsel; simpl; [|reflexivity].
      destruct (api_complete g r Hg Hr Hsel) as [g' [r' [Hg' [Hk [Hr' Hc]]]]].
      apply existsb_exists. exists g'. split; [exact Hg'|].
      apply andb_true_iff. split; [apply str_eqb_eq; exact Hk|].
      apply existsb_exists. exists r'. split; [exact Hr' | apply is_eq_true; exact Hc].
  Qed.
End Api.
