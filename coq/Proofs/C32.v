(* C32 — lemmas about the deletion decisions (Model/C32.v, conditions from Gen/C32.v). *)
From Coq Require Import ZArith List Bool Lia.
Import ListNotations.
From Verif Require Import Lib.Corr Gen.C32 Model.C32.
Open Scope Z_scope.

Ltac Zify.zify_post_hook ::= Z.to_euclidean_division_equations.

Ltac unf := unfold retention_marks, retention_disabled, retention_due, retention_maxTime,
  cleaner_deletes, cleaner_due, partial_deleted, partial_young, partial_skips_marked,
  ret_pred, clean_pred, partial_pred, ns_per_ms, ns_per_s, PartialUploadThresholdAge in *.

(* retention marks a block only when even a sample at MaxTime-1 is older than the retention *)
Lemma retention_only_when_older now maxt ret :
  retention_marks now maxt ret = true -> ret <> 0 /\ now - (maxt - 1) * ns_per_ms > ret.
Proof.
  unf. destruct (ret =? 0) eqn:E; [discriminate|]. apply Z.eqb_neq in E.
  intros H. rewrite Z.gtb_ltb in H. apply Z.ltb_lt in H. split; [exact E | lia].
Qed.

Lemma retention_zero_disables now maxt : retention_marks now maxt 0 = false.
Proof. unf. reflexivity. Qed.

(* ... and whenever it is older by more than one millisecond, the block IS marked
   (the decision is exact to the millisecond of MaxTime) *)
Lemma retention_marks_when_older now maxt ret :
  ret <> 0 -> now - maxt * ns_per_ms > ret -> retention_marks now maxt ret = true.
Proof.
  unf. intros E H. apply Z.eqb_neq in E. rewrite E. rewrite Z.gtb_ltb. apply Z.ltb_lt. lia.
Qed.

Lemma cleaner_only_after_delay now mark delay :
  cleaner_deletes now mark delay = true <-> now - mark * ns_per_s > delay.
Proof. unf. rewrite Z.gtb_ltb, Z.ltb_lt. lia. Qed.

Lemma partial_only_after_threshold now lm marked :
  partial_deleted now lm marked = true -> marked = false /\ now - lm > PartialUploadThresholdAge.
Proof.
  unf. destruct marked; simpl; [discriminate|]. intros H. split; auto.
  apply negb_true_iff, Z.leb_gt in H. lia.
Qed.

Lemma partial_skips_marked_blocks now lm : partial_deleted now lm true = false.
Proof. unf. reflexivity. Qed.

(* the decisions satisfy the predicates the check evaluates, also at any later instant *)
Lemma model_preds t now :
  t <= now ->
  (forall maxt ret, ret_pred now maxt ret (retention_marks t maxt ret) = true) /\
  (forall mark delay, clean_pred now mark delay (cleaner_deletes t mark delay) = true) /\
  (forall lm marked, partial_pred now lm marked (partial_deleted t lm marked) = true).
Proof.
  intros Ht. repeat split; intros.
  - destruct (retention_marks t maxt ret) eqn:E; [|reflexivity].
    destruct (retention_only_when_older _ _ _ E) as [Hz Hgt]. unfold ret_pred.
    apply andb_true_iff. split; [apply negb_true_iff, Z.eqb_neq, Hz | apply Z.ltb_lt; lia].
  - destruct (cleaner_deletes t mark delay) eqn:E; unfold clean_pred; auto.
    apply cleaner_only_after_delay in E. apply Z.ltb_lt. lia.
  - destruct (partial_deleted t lm marked) eqn:E; unfold partial_pred; auto.
    destruct (partial_only_after_threshold _ _ _ E) as [-> Hgt]. simpl. apply Z.ltb_lt. lia.
Qed.

(* The expression used before the repair, time.Unix(MaxTime/1000, 0): the
   truncation to whole seconds marks blocks up to 999 ms early. *)
Definition old_maxTime (maxt : Z) : Z := Z.quot maxt 1000 * ns_per_s.

Lemma second_truncation_refuted :
  exists now maxt ret, ret <> 0 /\ now > old_maxTime maxt + ret /\ ~ (now - (maxt - 1) * ns_per_ms > ret).
Proof.
  exists 11500000000, 1999, 10000000000. unfold old_maxTime, ns_per_s, ns_per_ms. split; [lia|]. split; vm_compute; congruence.
Qed.

(* ---- getOldestModifiedTime under listing faults ---------------------------------------- *)

Lemma fold_max_ge l a : a <= fold_left Z.max l a /\ Forall (fun t => t <= fold_left Z.max l a) l.
Proof.
  revert a. induction l as [|x l IH]; intros a; simpl; [split; [lia|constructor]|].
  destruct (IH (Z.max a x)) as [H1 H2]. split; [lia|]. constructor; [lia|exact H2].
Qed.

Lemma fold_max_in l a : fold_left Z.max l a = a \/ In (fold_left Z.max l a) l.
Proof.
  revert a. induction l as [|x l IH]; intros a; simpl; auto.
  destruct (IH (Z.max a x)) as [H|H]; [|right; right; exact H].
  rewrite H. destruct (Z.max_spec a x) as [[_ E]|[_ E]]; rewrite E; auto.
Qed.

(* a young partial upload — creation time in the ULID and every object's last-modified time
   within the threshold — is never removed: for every listing outcome (complete, no times
   reported, failed before the first object, failed after k objects) *)
Lemma young_partial_never_deleted now ulid_t lms fault marked :
  now - ulid_t <= PartialUploadThresholdAge ->
  Forall (fun t => now - t <= PartialUploadThresholdAge) lms ->
  partial_deleted_listing now ulid_t lms fault marked = false.
Proof.
  intros Hu Hl. unfold partial_deleted_listing, partial_deleted.
  destruct (marked && partial_skips_marked); auto.
  apply negb_false_iff. unfold partial_young. apply Z.leb_le.
  unfold time_used. destruct fault as [k|].
  - unfold oldest_time_on_error. exact Hu.
  - cbv zeta. destruct (seen_max lms =? zero_time) eqn:E; [exact Hu|].
    apply Z.eqb_neq in E. unfold seen_max in *. destruct (fold_max_in lms zero_time) as [H|H]; [congruence|].
    rewrite Forall_forall in Hl. exact (Hl _ H).
Qed.

(* without a listing fault, a removal satisfies the predicate judged from the true object times *)
Lemma listing_ok_pred t now ulid_t lms marked :
  t <= now -> Forall (fun x => zero_time < x) lms ->
  partial_pred_listing now ulid_t lms marked (partial_deleted_listing t ulid_t lms None marked) = true.
Proof.
  intros Ht Hz. destruct (partial_deleted_listing t ulid_t lms None marked) eqn:E; [|reflexivity].
  unfold partial_deleted_listing in E. destruct (partial_only_after_threshold _ _ _ E) as [-> Hgt].
  unfold partial_pred_listing. simpl. unfold time_used, seen_max in Hgt. cbv zeta in Hgt.
  destruct lms as [|x r]; [simpl in Hgt; apply Z.ltb_lt; lia|].
  destruct (fold_max_ge (x :: r) zero_time) as [_ Hall].
  assert (Hne : fold_left Z.max (x :: r) zero_time <> zero_time).
  { inversion Hz; subst. inversion Hall; subst. lia. }
  apply Z.eqb_neq in Hne. rewrite Hne in Hgt.
  apply forallb_forall. intros y Hy. rewrite Forall_forall in Hall. specialize (Hall y Hy). apply Z.ltb_lt. lia.
Qed.
