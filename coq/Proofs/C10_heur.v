(* C10 — optimizePostingsFetchByDownloadedBytes never marks every group with add keys lazy,
   so the lazily evaluated selection equals the eager one for the marking it makes. *)
From Coq Require Import ZArith NArith List Bool Lia Sorted Permutation.
Import ListNotations.
From Verif Require Import Lib.Corr Lib.Storegw_Str Gen.C10 Model.C10 Proofs.C10 Proofs.C10_merge Proofs.C10_select Proofs.C10_lazy.
Open Scope Z_scope.

Lemma lazy_loop_sub sz mn md kn kd maxSM : forall gs sm n,
  In n (lazy_loop sz mn md kn kd maxSM sm gs) -> In n (map cg_name gs).
Proof.
  induction gs as [|[[g c] e] r IH]; intros sm n H; [contradiction|].
  cbn [lazy_loop] in H.
  destruct (sm <=? 0); [exact H|].
  destruct ((0 <? kn) && (0 <? maxSM) && (kn * maxSM <? e * kd)).
  - destruct H as [<-|H]; [left; reflexivity|right; eapply IH; eauto].
  - match type of H with context [if ?c then _ else _] => destruct c end; [exact H|].
    right. eapply IH; eauto.
Qed.

Lemma cg_insert_perm x l : Permutation (cg_insert x l) (x :: l).
Proof.
  induction l as [|y l IH]; simpl; [apply Permutation_refl|].
  destruct (cg_leb x y); [apply Permutation_refl|].
  eapply Permutation_trans; [apply perm_skip; exact IH|apply perm_swap].
Qed.

Lemma cg_sort_perm l : Permutation (cg_sort l) l.
Proof.
  induction l as [|x l IH]; simpl; [apply Permutation_refl|].
  eapply Permutation_trans; [apply cg_insert_perm|apply perm_skip; exact IH].
Qed.

Lemma span_all_spec : forall l a b, span_all l = (a, b) ->
  l = a ++ b /\ match b with [] => True | x :: _ => g_all (fst (fst x)) = false end.
Proof.
  induction l as [|x l IH]; intros a b H; simpl in H.
  - inversion H; subst. split; [reflexivity|exact I].
  - destruct (g_all (fst (fst x))) eqn:E.
    + destruct (span_all l) as [a' b'] eqn:Es. inversion H; subst. destruct (IH a' b eq_refl) as (H1 & H2).
      split; [simpl; rewrite H1; reflexivity|exact H2].
    + inversion H; subst. split; [reflexivity|exact E].
Qed.

Lemma smem_false_notin n l : ~ In n l -> smem n l = false.
Proof. intro H. destruct (smem n l) eqn:E; [|reflexivity]. apply smem_in in E. contradiction. Qed.

Lemma lazy_marking_ok idx sz mn md kn kd gs names :
  lazy_marking idx sz mn md kn kd gs = Some names ->
  NoDup (map g_name gs) ->
  (forall g, In g gs -> g_all g = false -> g_add g <> []) ->
  (exists g, In g gs /\ g_all g = false) ->
  exists g, In g gs /\ g_add g <> [] /\ smem (g_name g) names = false.
Proof.
  intros H Hnd Hadd (g0 & Hg0 & Hg0a). unfold lazy_marking in H.
  assert (Htriv : names = [] -> exists g, In g gs /\ g_add g <> [] /\ smem (g_name g) names = false).
  { intros ->. exists g0. split; [exact Hg0|]. split; [apply Hadd; assumption|reflexivity]. }
  revert H.
  destruct (length gs <=? 1)%nat; [intro H; inversion H; subst; apply Htriv; reflexivity|].
  destruct (existsb _ gs); [intro H; discriminate H|].
  intro H.
  set (trip := map (fun g => (g, g_card idx g, g_existent idx g)) gs) in *.
  set (sorted := cg_sort trip) in *.
  destruct (span_all sorted) as [negs rest] eqn:Es.
  destruct (span_all_spec _ _ _ Es) as (Eapp & Hhead).
  destruct rest as [|[[g c] e] tail]; [inversion H; subst; apply Htriv; reflexivity|].
  assert (Hn : exists sm, names = lazy_loop sz mn md kn kd sm sm tail \/ names = []).
  { destruct tail as [|x2 r2]; [exists 0; right; inversion H; reflexivity|].
    eexists. left. injection H as Hn. symmetry. exact Hn. }
  destruct Hn as (sm0 & [Hn|Hn]); [|apply Htriv; exact Hn]. clear H.
  assert (Hperm : Permutation sorted trip) by apply cg_sort_perm.
  assert (Hin : In (g, c, e) sorted) by (rewrite Eapp; apply in_or_app; right; left; reflexivity).
  assert (Hg : In g gs).
  { apply (Permutation_in _ Hperm) in Hin. unfold trip in Hin. apply in_map_iff in Hin.
    destruct Hin as (g' & Hg' & Hin). inversion Hg'; subst. exact Hin. }
  exists g. split; [exact Hg|]. split; [apply Hadd; [exact Hg|exact Hhead]|].
  apply smem_false_notin. intro Hbad. rewrite Hn in Hbad. apply lazy_loop_sub in Hbad.
  (* names of the sorted list have no duplicates *)
  assert (Hnames : map cg_name trip = map g_name gs).
  { unfold trip. rewrite map_map. reflexivity. }
  assert (Hnd' : NoDup (map cg_name sorted)).
  { eapply Permutation_NoDup; [apply Permutation_map; apply Permutation_sym; exact Hperm|]. rewrite Hnames. exact Hnd. }
  rewrite Eapp, map_app in Hnd'. apply NoDup_remove_2 in Hnd'.
  apply Hnd'. apply in_or_app. right. exact Hbad.
Qed.

(* ---------- the groups of matchersToPostingGroups have distinct names ---------- *)
Lemma names_of_nodup : forall ms seen, NoDup (names_of ms seen) /\ forall n, In n (names_of ms seen) -> smem n seen = false.
Proof.
  induction ms as [|m ms IH]; intro seen; simpl; [split; [constructor|intros n []]|].
  destruct (smem (m_name m) seen) eqn:E; [apply IH|].
  destruct (IH (m_name m :: seen)) as (I1 & I2). split.
  - constructor; [|exact I1]. intro Hin. specialize (I2 _ Hin). simpl in I2. rewrite str_eqb_refl in I2. discriminate.
  - intros n [<-|Hn]; [exact E|]. specialize (I2 _ Hn). simpl in I2. apply orb_false_iff in I2. tauto.
Qed.

Lemma sinsert_nodup x l : ~ In x l -> NoDup l -> NoDup (sinsert x l).
Proof.
  induction l as [|a l IH]; intros Hx Hn; simpl; [constructor; [tauto|constructor]|].
  destruct (str_leb x a); [constructor; assumption|].
  inversion Hn as [|? ? Ha Hn']; subst. constructor.
  - intro Hin. apply sinsert_in in Hin. destruct Hin as [->|Hin]; [apply Hx; left; reflexivity|contradiction].
  - apply IH; [intro; apply Hx; right; assumption|exact Hn'].
Qed.

Lemma ssort_nodup l : NoDup l -> NoDup (ssort l).
Proof.
  induction l as [|a l IH]; intro H; simpl; [constructor|]. inversion H; subst.
  apply sinsert_nodup; [rewrite ssort_in; assumption|apply IH; assumption].
Qed.

Lemma groups_for_names idx ms : Forall coherent ms ->
  forall names gs, (forall n, In n names -> exists m, In m ms /\ m_name m = n) ->
  groups_for idx ms names = Some gs -> map g_name gs = names.
Proof.
  intro Hc. induction names as [|n names IH]; intros gs Hn H.
  - simpl in H. inversion H. reflexivity.
  - cbn [groups_for] in H.
    assert (Hc' : Forall coherent (name_filter ms n)) by (apply Forall_filter; exact Hc).
    assert (Hnn : Forall (fun m => m_name m = n) (name_filter ms n)).
    { apply Forall_forall. intros m Hm. apply filter_In in Hm. apply str_eqb_eq. tauto. }
    pose proof (merge_name_ok idx n (name_filter ms n) None Hc' Hnn I) as Hm. cbv zeta in Hm.
    fold (name_filter ms n) in H.
    destruct (merge_name (label_values idx n) (name_filter ms n) None) as [[g|]|]; [| |discriminate].
    + destruct Hm as ((_ & _ & W3) & _).
      destruct (groups_for idx ms names) as [gs'|] eqn:Eg; [|discriminate]. inversion H; subst gs. rewrite <- W3.
      simpl. f_equal. apply IH; [intros n0 H0; apply Hn; right; exact H0|reflexivity].
    + exfalso. destruct Hm as (_ & _ & Hx). destruct (Hx eq_refl) as [H1 _].
      destruct (Hn n (or_introl eq_refl)) as (m & Hm1 & Hm2).
      assert (In m (name_filter ms n)) by (apply filter_In; split; [exact Hm1|apply str_eqb_eq; exact Hm2]).
      rewrite H1 in H0. contradiction.
Qed.

Lemma groups_nodup idx ms gs : Forall coherent ms -> matchers_to_groups idx ms = Some gs -> NoDup (map g_name gs).
Proof.
  intros Hc E. unfold matchers_to_groups in E. set (ms' := dedup_matchers ms) in *.
  assert (Hc' : Forall coherent ms').
  { apply Forall_forall. intros m Hm. rewrite Forall_forall in Hc. apply Hc. apply dedup_sub. exact Hm. }
  rewrite (groups_for_names idx ms' Hc' (ssort (names_of ms' [])) gs); [| |exact E].
  - apply ssort_nodup. apply names_of_nodup.
  - intros n Hn. rewrite ssort_in in Hn. exact (names_of_sub ms' [] n Hn).
Qed.

Lemma nodup_map_filter {A B} (f : A -> B) (p : A -> bool) l : NoDup (map f l) -> NoDup (map f (filter p l)).
Proof.
  induction l as [|a l IH]; intro H; simpl; [constructor|]. simpl in H. inversion H as [|? ? Ha Hn]; subst.
  destruct (p a); [|apply IH; exact Hn]. simpl. constructor; [|apply IH; exact Hn].
  intro Hin. apply Ha. apply in_map_iff in Hin. destruct Hin as (x & Hx & Hin). apply filter_In in Hin.
  apply in_map_iff. exists x. tauto.
Qed.

(* ---------- the marking made by the real code satisfies the hypothesis of the lazy theorem ---------- *)
Lemma real_marking_sound idx ms sz mn md kn kd gs names :
  ms <> [] -> Forall coherent ms -> consistent ms -> wf_index idx ->
  matchers_to_groups idx ms = Some gs ->
  real_marking idx sz mn md kn kd gs = Some names ->
  select_with idx ms (fun n => smem n names) = select idx ms.
Proof.
  intros Hne Hc Hcons Hidx Eg Hm.
  apply select_with_eq; try assumption.
  intros gs0 E0 Hall. rewrite Eg in E0. inversion E0; subst gs0. clear E0.
  destruct (groups_good idx ms Hc gs Eg) as (Hgood & Hcover).
  pose proof (groups_nodup idx ms gs Hc Eg) as Hnd.
  unfold real_marking in Hm. fold (add_all_postings gs) in Hall. rewrite Hall in Hm. cbn [orb] in Hm.
  (* some group has add keys *)
  assert (Hex : exists g, In g gs /\ g_add g <> []).
  { unfold add_all_postings in Hall. apply andb_false_iff in Hall. destruct Hall as [Ha|Ha].
    - destruct ms as [|m0 ms0] eqn:Ems; [congruence|]. rewrite <- Ems in *.
      assert (Hm0 : In m0 ms) by (rewrite Ems; left; reflexivity).
      destruct (dedup_repr _ _ Hm0) as (m' & Hm' & _). destruct (Hcover m' Hm') as (g & Hg & _).
      exists g. split; [exact Hg|]. destruct (Hgood g Hg) as (_ & Hnz & _).
      assert (g_all g = false).
      { destruct (g_all g) eqn:Eall; [|reflexivity]. exfalso.
        assert (existsb g_all gs = true) by (apply existsb_exists; exists g; split; assumption). congruence. }
      intro Ea. apply Hnz. split; assumption.
    - apply negb_false_iff in Ha. apply existsb_exists in Ha. destruct Ha as (g & Hg & Hga).
      exists g. split; [exact Hg|]. destruct (g_add g); [discriminate|discriminate]. }
  destruct Hex as (g1 & Hg1 & Hg1a).
  destruct (negb (0 <? sz)).
  { inversion Hm; subst. exists g1. repeat split; assumption. }
  assert (Hkin : forall g, In g (kept_groups gs) -> In g gs) by (intros g H; unfold kept_groups in H; apply filter_In in H; tauto).
  destruct (lazy_marking_ok idx sz mn md kn kd (kept_groups gs) names Hm) as (g & Hg & Hga & Hgl).
  - apply nodup_map_filter. exact Hnd.
  - intros g Hg Hall0. destruct (Hgood g (Hkin g Hg)) as (_ & Hnz & _). intro Ea. apply Hnz. split; assumption.
  - exists g1. split.
    + unfold kept_groups. apply filter_In. split; [exact Hg1|]. destruct (g_add g1); [congruence|reflexivity].
    + destruct (Hgood g1 Hg1) as ((_ & _ & W3 & _) & _). destruct (g_all g1); [rewrite (W3 eq_refl) in Hg1a; congruence|reflexivity].
  - exists g. split; [apply Hkin; exact Hg|]. split; [exact Hga|exact Hgl].
Qed.
