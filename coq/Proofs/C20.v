(* C20 — lemmas. *)
From Coq Require Import ZArith List Bool Lia Arith Permutation Sorting.Sorted.
Import ListNotations.
From Verif Require Import Lib.Corr Lib.Hashring_Ketama Lib.Hashring_KetamaFacts Lib.Hashring_RingFacts Gen.C20 Model.C20.
Close Scope Z_scope.

Definition neqb (p x : nat) : bool := negb (x =? p).

(* ------------------------------------------------------------------ *)
(* dedup                                                                *)

Lemma mem_In x l : mem x l = true <-> In x l.
Proof. apply existsb_nat_In. Qed.

Lemma existsb_congr x seen seen' :
  (In x seen <-> In x seen') -> existsb (Nat.eqb x) seen = existsb (Nat.eqb x) seen'.
Proof.
  intro H. destruct (existsb (Nat.eqb x) seen) eqn:E, (existsb (Nat.eqb x) seen') eqn:E'; try reflexivity.
  - apply existsb_nat_In in E. apply H in E. apply existsb_nat_In in E. congruence.
  - apply existsb_nat_In in E'. apply H in E'. apply existsb_nat_In in E'. congruence.
Qed.

Lemma dedup_filter p : forall l seen seen',
  (forall x, x <> p -> (In x seen <-> In x seen')) ->
  filter (neqb p) (dedup seen l) = dedup seen' (filter (neqb p) l).
Proof.
  induction l as [|x r IH]; intros seen seen' H; simpl; [reflexivity|].
  unfold neqb at 2. destruct (x =? p) eqn:E; simpl.
  - apply Nat.eqb_eq in E. subst x.
    destruct (existsb (Nat.eqb p) seen); simpl.
    + apply IH. exact H.
    + unfold neqb at 1. rewrite Nat.eqb_refl. simpl. apply IH.
      intros x Hx. simpl. rewrite <- (H x Hx). split; [intros [->|]; [congruence|assumption]|auto].
  - apply Nat.eqb_neq in E. rewrite (existsb_congr x seen seen' (H x E)).
    destruct (existsb (Nat.eqb x) seen'); simpl.
    + apply IH. exact H.
    + unfold neqb at 1. rewrite (proj2 (Nat.eqb_neq x p) E). simpl. f_equal. apply IH.
      intros y Hy. simpl. rewrite (H y Hy). reflexivity.
Qed.

Lemma dedup_map_inj (f : nat -> nat) : (forall a b, f a = f b -> a = b) ->
  forall l seen, dedup (map f seen) (map f l) = map f (dedup seen l).
Proof.
  intros Hinj. induction l as [|x r IH]; intro seen; simpl; [reflexivity|].
  assert (E : existsb (Nat.eqb (f x)) (map f seen) = existsb (Nat.eqb x) seen).
  { destruct (existsb (Nat.eqb x) seen) eqn:E1.
    - apply existsb_nat_In in E1. apply existsb_nat_In. apply in_map. exact E1.
    - destruct (existsb (Nat.eqb (f x)) (map f seen)) eqn:E2; [|reflexivity].
      apply existsb_nat_In in E2. apply in_map_iff in E2 as [y [Ey Hy]]. apply Hinj in Ey. subst y.
      apply existsb_nat_In in Hy. congruence. }
  rewrite E. destruct (existsb (Nat.eqb x) seen); [apply IH|]. simpl. f_equal. apply (IH (x :: seen)).
Qed.

Lemma dedup_spec : forall l seen,
  NoDup (dedup seen l) /\ forall x, In x (dedup seen l) -> ~ In x seen /\ In x l.
Proof.
  induction l as [|x r IH]; intro seen; simpl.
  - split; [constructor|intros ? []].
  - destruct (existsb (Nat.eqb x) seen) eqn:E.
    + destruct (IH seen) as [H1 H2]. split; [exact H1|]. intros y Hy. destruct (H2 y Hy). auto.
    + destruct (IH (x :: seen)) as [H1 H2]. split.
      * constructor; [|exact H1]. intro Hin. destruct (H2 x Hin) as [Hn _]. apply Hn. now left.
      * intros y [<-|Hy].
        -- split; [|now left]. intro Hin. apply existsb_nat_In in Hin. congruence.
        -- destruct (H2 y Hy) as [Hn Hi]. split; [|now right]. intro. apply Hn. now right.
Qed.

(* ------------------------------------------------------------------ *)
(* prefixes and filters                                                 *)

Lemma filter_firstn_prefix {A} (f : A -> bool) : forall l k,
  filter f (firstn k l) = firstn (length (filter f (firstn k l))) (filter f l).
Proof.
  induction l as [|a l IH]; intro k; destruct k; simpl; try reflexivity.
  destruct (f a); simpl; [f_equal|]; apply IH.
Qed.

Lemma In_firstn_le {A} (x : A) : forall l m k, m <= k -> In x (firstn m l) -> In x (firstn k l).
Proof.
  induction l as [|a l IH]; intros m k Hle Hin; destruct m, k; simpl in *; try contradiction; try lia.
  destruct Hin as [->|Hin]; [now left|right]. eapply IH; [|exact Hin]. lia.
Qed.

Lemma In_firstn {A} (x : A) : forall l k, In x (firstn k l) -> In x l.
Proof.
  induction l as [|a l IH]; intros k H; destruct k; simpl in *; try contradiction.
  destruct H as [->|H]; [now left|right; eauto].
Qed.

Lemma filter_all {A} (f : A -> bool) l : (forall x, In x l -> f x = true) -> filter f l = l.
Proof.
  induction l as [|a l IH]; simpl; intro H; [reflexivity|].
  rewrite (H a (or_introl eq_refl)). f_equal. apply IH. intros. apply H. now right.
Qed.

Lemma filter_none {A} (f : A -> bool) l : (forall x, In x l -> f x = false) -> filter f l = [].
Proof.
  induction l as [|a l IH]; simpl; intro H; [reflexivity|].
  rewrite (H a (or_introl eq_refl)). apply IH. intros. apply H. now right.
Qed.

Lemma filter_length_le {A} (f : A -> bool) l : length (filter f l) <= length l.
Proof. induction l as [|a l IH]; simpl; [lia|]. destruct (f a); simpl; lia. Qed.

Lemma count_p_le_1 p l : NoDup l -> length l <= length (filter (neqb p) l) + 1.
Proof.
  induction l as [|a l IH]; simpl; intro H; [lia|]. inversion H as [|? ? Hn H']; subst.
  unfold neqb at 1. destruct (a =? p) eqn:E; simpl.
  - apply Nat.eqb_eq in E. subst a. rewrite filter_all; [lia|].
    intros x Hx. unfold neqb. destruct (x =? p) eqn:E'; [|reflexivity]. apply Nat.eqb_eq in E'. subst. contradiction.
  - specialize (IH H'). lia.
Qed.

Lemma NoDup_firstn {A} (l : list A) k : NoDup l -> NoDup (firstn k l).
Proof.
  revert k. induction l as [|a l IH]; intros k H; destruct k; simpl; try constructor.
  - inversion H; subst. intro Hin. apply H2. eapply In_firstn; eauto.
  - inversion H; subst. apply IH. assumption.
Qed.

(* ------------------------------------------------------------------ *)
(* the list-level statement                                             *)

Section Insert.
  Variable p : nat.
  Variable f : nat -> nat.                 (* old position -> new position *)
  Hypothesis f_inj : forall a b, f a = f b -> a = b.
  Hypothesis f_not_p : forall a, f a <> p.
  Variables W W' : list nat.               (* endpoints met on the walk: before / after *)
  Hypothesis HW : filter (neqb p) W' = map f W.
  Variable rf : nat.

  Let D := dedup [] W.
  Let D' := dedup [] W'.
  Let A := firstn rf D.
  Let A' := firstn rf D'.

  Lemma D'_filter : filter (neqb p) D' = map f D.
  Proof.
    unfold D', D. rewrite (dedup_filter p W' [] []) by (intros; reflexivity).
    rewrite HW. apply (dedup_map_inj f f_inj W []).
  Qed.

  Lemma A'_filter : exists m, m <= rf /\ rf <= m + 1 + (rf - length D') /\ filter (neqb p) A' = map f (firstn m D)
                               /\ (length D' < rf -> filter (neqb p) A' = map f D).
  Proof.
    exists (length (filter (neqb p) A')). unfold A'.
    assert (Hnd : NoDup (firstn rf D')) by (apply NoDup_firstn, dedup_spec).
    pose proof (count_p_le_1 p _ Hnd) as Hc. rewrite firstn_length in Hc.
    split; [|split; [|split]].
    - etransitivity; [apply filter_length_le|]. rewrite firstn_length. lia.
    - lia.
    - rewrite filter_firstn_prefix at 1. rewrite D'_filter, firstn_map. reflexivity.
    - intro Hlt. rewrite firstn_all2 by lia. apply D'_filter.
  Qed.

  Lemma new_replicas_were_replicas x : In x A' -> x = p \/ In x (map f A).
  Proof.
    intro Hin. destruct (Nat.eq_dec x p) as [->|Hne]; [now left|right].
    destruct A'_filter as [m [Hm [_ [E _]]]].
    assert (Hx : In x (filter (neqb p) A')).
    { apply filter_In. split; [exact Hin|]. unfold neqb. rewrite (proj2 (Nat.eqb_neq _ _) Hne). reflexivity. }
    rewrite E, <- firstn_map in Hx. unfold A. rewrite <- firstn_map. eapply In_firstn_le; eauto.
  Qed.

  Lemma unchanged_without_new : ~ In p A' -> A' = map f A.
  Proof.
    intro Hn. destruct A'_filter as [m [Hm [Hm2 [E Eall]]]].
    assert (Hf : filter (neqb p) A' = A').
    { apply filter_all. intros x Hx. unfold neqb. destruct (x =? p) eqn:E'; [|reflexivity].
      apply Nat.eqb_eq in E'. subst. contradiction. }
    destruct (le_lt_dec rf (length D')) as [Hge|Hlt].
    - (* D' long enough: m = rf *)
      assert (m = rf).
      { assert (length (filter (neqb p) A') = rf) by (rewrite Hf; unfold A'; rewrite firstn_length; lia).
        rewrite E, map_length, firstn_length in H.
        assert (length A' = rf) by (unfold A'; rewrite firstn_length; lia). lia. }
      subst m. rewrite <- Hf, E. reflexivity.
    - rewrite <- Hf, (Eall Hlt). unfold A. rewrite firstn_all2; [reflexivity|].
      assert (length (map f D) <= length D').
      { rewrite <- D'_filter. apply filter_length_le. }
      rewrite map_length in H. lia.
  Qed.

  Lemma kept_prefix : exists m, rf <= m + 1 /\ forall y, In y (firstn m A) -> In (f y) A'.
  Proof.
    destruct A'_filter as [m [Hm [Hm2 [E Eall]]]].
    destruct (le_lt_dec rf (length D')) as [Hge|Hlt].
    - exists m. split; [lia|]. intros y Hy.
      assert (In (f y) (filter (neqb p) A')).
      { rewrite E. apply in_map. unfold A in Hy. rewrite firstn_firstn in Hy.
        rewrite Nat.min_l in Hy by lia. exact Hy. }
      apply filter_In in H as [H _]. exact H.
    - exists rf. split; [lia|]. intros y Hy.
      assert (In (f y) (filter (neqb p) A')).
      { rewrite (Eall Hlt). apply in_map. unfold A in Hy. apply In_firstn in Hy. apply In_firstn in Hy. exact Hy. }
      apply filter_In in H as [H _]. exact H.
  Qed.

  Lemma at_most_one_lost : length (filter (fun y => negb (mem (f y) A')) A) <= 1.
  Proof.
    destruct kept_prefix as [m [Hm Hk]].
    rewrite <- (firstn_skipn m A), filter_app, app_length.
    rewrite (filter_none _ (firstn m A)).
    - simpl. etransitivity; [apply filter_length_le|]. rewrite skipn_length. unfold A. rewrite firstn_length. lia.
    - intros y Hy. apply negb_false_iff. apply mem_In. apply Hk. exact Hy.
  Qed.

  Lemma only_onto_new_holds : only_onto_new_gen p f A A' = true.
  Proof.
    unfold only_onto_new_gen. rewrite !andb_true_iff. split; [split|].
    - apply forallb_forall. intros x Hx. destruct (new_replicas_were_replicas x Hx) as [->|Hin].
      + rewrite Nat.eqb_refl. reflexivity.
      + apply orb_true_iff. right. apply mem_In. exact Hin.
    - apply Nat.leb_le. exact at_most_one_lost.
    - destruct (mem p A') eqn:E; [reflexivity|]. simpl.
      unfold q_eqb. apply (proj2 (list_eqb_spec Nat.eqb Nat.eqb_eq _ _)).
      apply unchanged_without_new. intro Hin. apply mem_In in Hin. congruence.
  Qed.
End Insert.

(* ------------------------------------------------------------------ *)
(* the ring after adding endpoint e at position p                        *)

Lemma iota_inj p a b : iota p a = iota p b -> a = b.
Proof.
  unfold iota. destruct (Nat.ltb_spec a p), (Nat.ltb_spec b p); lia.
Qed.

Lemma iota_not_p p a : iota p a <> p.
Proof. unfold iota. destruct (Nat.ltb_spec a p); lia. Qed.

Lemma nozone_ins p e hs : nozone (ins p e hs) = ins p (0%Z, e) (nozone hs).
Proof. unfold nozone, ins. rewrite map_app, firstn_map. simpl. rewrite skipn_map. reflexivity. Qed.

Definition not_new (p : nat) (s : section) : bool := neqb p (s_ep s).

Lemma sections_filter_new p e eps : p <= length eps ->
  filter (not_new p) (sections_of 0 (ins p e eps)) = map (rename (iota p)) (sections_of 0 eps).
Proof.
  intro Hp. unfold ins. destruct e as [az hs].
  assert (Lp : length (firstn p eps) = p) by (rewrite firstn_length; lia).
  rewrite sections_of_app, Lp. simpl.
  replace (sections_of 0 eps) with (sections_of 0 (firstn p eps ++ skipn p eps)) by (rewrite firstn_skipn; reflexivity).
  rewrite sections_of_app, Lp. simpl.
  rewrite !filter_app, map_app. f_equal.
  - (* endpoints before p keep their position *)
    rewrite filter_all.
    + rewrite <- (map_id (sections_of 0 (firstn p eps))) at 1. apply map_ext_in.
      intros s Hs. apply sections_of_In in Hs as [[_ B] _]. rewrite Lp in B.
      destruct s as [h ep a]. unfold rename, iota. simpl in *.
      destruct (ep <? p) eqn:E; [reflexivity|apply Nat.ltb_ge in E; lia].
    + intros s Hs. apply sections_of_In in Hs as [[_ B] _]. rewrite Lp in B.
      unfold not_new, neqb. destruct (s_ep s =? p) eqn:E; [apply Nat.eqb_eq in E; lia|reflexivity].
  - (* the new endpoint's sections disappear, later endpoints move up by one *)
    rewrite filter_none.
    + simpl. rewrite filter_all.
      * replace (S p) with (1 + p) by lia. rewrite sections_of_shift.
        apply map_ext_in. intros s Hs. apply sections_of_ge in Hs.
        destruct s as [h ep a]. unfold rename, iota. simpl in *.
        destruct (ep <? p) eqn:E; [apply Nat.ltb_lt in E; lia|reflexivity].
      * intros s Hs. apply sections_of_ge in Hs.
        unfold not_new, neqb. destruct (s_ep s =? p) eqn:E; [apply Nat.eqb_eq in E; lia|reflexivity].
    + intros s Hs. apply in_map_iff in Hs as [h [<- _]]. unfold not_new, neqb. simpl. rewrite Nat.eqb_refl. reflexivity.
Qed.

(* the new ring without the new endpoint's sections IS the old ring (positions renamed) *)
Lemma ring_filter_new p e eps : p <= length eps ->
  NoDup (map s_hash (sections_of 0 (ins p e eps))) ->
  filter (not_new p) (sort_sections (sections_of 0 (ins p e eps)))
  = map (rename (iota p)) (sort_sections (sections_of 0 eps)).
Proof.
  intros Hp Hnd. set (X' := sections_of 0 (ins p e eps)) in *. set (X := sections_of 0 eps).
  apply sorted_unique.
  - apply StronglySorted_filter, sort_sections_StronglySorted.
  - apply StronglySorted_map_hash; [reflexivity|apply sort_sections_StronglySorted].
  - eapply Permutation_trans; [apply Permutation_filter', Permutation_sym, sort_sections_perm|].
    unfold X'. rewrite (sections_filter_new p e eps Hp). apply Permutation_map, sort_sections_perm.
  - apply NoDup_map_filter. eapply Permutation_NoDup; [|exact Hnd]. apply Permutation_map, sort_sections_perm.
Qed.

Lemma filter_comm {A} (f g : A -> bool) l : filter f (filter g l) = filter g (filter f l).
Proof.
  induction l as [|a l IH]; simpl; [reflexivity|].
  destruct (g a) eqn:G, (f a) eqn:F; simpl; rewrite ?G, ?F, IH; reflexivity.
Qed.

Lemma rot_v_filter g ring v : rot_v (filter g ring) v = filter g (rot_v ring v).
Proof. unfold rot_v. rewrite filter_app. f_equal; apply filter_comm. Qed.

Lemma rot_v_map_rename f ring v : rot_v (map (rename f) ring) v = map (rename f) (rot_v ring v).
Proof.
  unfold rot_v. rewrite map_app. f_equal.
  - induction ring as [|s r IH]; simpl; [reflexivity|]. destruct (v <=? s_hash s)%Z; simpl; rewrite IH; reflexivity.
  - induction ring as [|s r IH]; simpl; [reflexivity|]. destruct (s_hash s <? v)%Z; simpl; rewrite IH; reflexivity.
Qed.

Lemma map_ep_filter p l : map s_ep (filter (not_new p) l) = filter (neqb p) (map s_ep l).
Proof.
  induction l as [|s r IH]; simpl; [reflexivity|]. unfold not_new at 1.
  destruct (neqb p (s_ep s)); simpl; rewrite IH; reflexivity.
Qed.

Lemma walk_lists_related p e hs v : p <= length hs ->
  NoDup (map s_hash (sections_of 0 (nozone (ins p e hs)))) ->
  filter (neqb p) (map s_ep (rot_v (spec_ring (ins p e hs)) v))
  = map (iota p) (map s_ep (rot_v (spec_ring hs) v)).
Proof.
  intros Hp Hnd. unfold spec_ring. rewrite nozone_ins in *.
  assert (Hp' : p <= length (nozone hs)) by (unfold nozone; rewrite map_length; exact Hp).
  rewrite <- map_ep_filter, <- rot_v_filter, (ring_filter_new p (0%Z, e) (nozone hs) Hp' Hnd).
  rewrite rot_v_map_rename, map_map. rewrite map_map. reflexivity.
Qed.

Lemma add_node_only_onto_new hs p e rf v : p <= length hs ->
  NoDup (map s_hash (sections_of 0 (nozone (ins p e hs)))) ->
  only_onto_new p (spec_answers (spec_ring hs) rf v) (spec_answers (spec_ring (ins p e hs)) rf v) = true.
Proof.
  intros Hp Hnd. unfold only_onto_new, spec_answers.
  apply (only_onto_new_holds p (iota p) (iota_inj p) _ _ (walk_lists_related p e hs v Hp Hnd)).
Qed.

(* readable corollaries *)
Lemma add_node_readable hs p e rf v : p <= length hs ->
  NoDup (map s_hash (sections_of 0 (nozone (ins p e hs)))) ->
  let A := spec_answers (spec_ring hs) rf v in
  let A' := spec_answers (spec_ring (ins p e hs)) rf v in
  (forall x, In x A' -> x = p \/ exists y, In y A /\ x = iota p y) /\
  length (filter (fun y => negb (mem (iota p y) A')) A) <= 1 /\
  (~ In p A' -> A' = map (iota p) A).
Proof.
  intros Hp Hnd A A'. pose proof (walk_lists_related p e hs v Hp Hnd) as HW.
  split; [|split].
  - intros x Hx. destruct (new_replicas_were_replicas p (iota p) (iota_inj p) _ _ HW rf x Hx) as [->|Hin]; [now left|right].
    apply in_map_iff in Hin as [y [<- Hy]]. eauto.
  - apply (at_most_one_lost p (iota p) (iota_inj p) _ _ HW rf).
  - apply (unchanged_without_new p (iota p) (iota_inj p) _ _ HW rf).
Qed.
