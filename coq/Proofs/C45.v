(* C45 — lemmas about the model of pkg/rules/rules.go (Model/C45.v). *)
From Coq Require Import NArith ZArith List Bool Lia Permutation Sorted String.
Import ListNotations.
From Verif Require Import Lib.Corr Lib.Misc_Cmp Gen.C45 Model.C45.

(* ---- tie T: the shape of the loop over the selector sets ---- *)

(* texts of the `return` statements that sit inside a for loop *)
Fixpoint returns_in_loops (evs : list (string * string)) (depth : nat) : list string :=
  match evs with
  | [] => []
  | (k, t) :: evs' =>
    if String.eqb k "for" then returns_in_loops evs' (S depth)
    else if String.eqb k "endfor" then returns_in_loops evs' (pred depth)
    else if String.eqb k "return" then
      match depth with
      | O => returns_in_loops evs' depth
      | S _ => t :: returns_in_loops evs' depth
      end
    else returns_in_loops evs' depth
  end.

Definition last_return (evs : list (string * string)) : string :=
  match rev evs with
  | (k, t) :: _ => if String.eqb k "return" then t else ""%string
  | [] => ""%string
  end.

(* inside the loop over the sets the function can only answer `true` (a set is
   satisfied); `false` is answered after all sets were tried; the per-set
   helper answers `false` inside its loop over the selectors and `true` after *)
Definition loop_shape_ok : bool :=
  list_eqb String.eqb (returns_in_loops matches_events 0) ["true"%string]
  && String.eqb (last_return matches_events) "false"
  && list_eqb String.eqb (returns_in_loops matchesAll_events 0) ["false"%string]
  && String.eqb (last_return matchesAll_events) "true".

Lemma loop_shape : loop_shape_ok = true.
Proof. vm_compute. reflexivity. Qed.

(* ---- matches = OR of ANDs ---- *)
Section M.
  Variable re : str -> str -> bool.
  Variable templ : str -> bool.

  Lemma matches_all_forallb ms ls :
    matches_all re ms ls = forallb (fun m => matcher_ok re m (lget ls (m_name m))) ms.
  Proof.
    induction ms as [|m ms IH]; simpl; [reflexivity|].
    destruct (matcher_ok re m (lget ls (m_name m))); simpl; [exact IH | reflexivity].
  Qed.

  Lemma matches_sets_existsb sets ls :
    matches_sets re sets ls
    = existsb (fun s => forallb (fun m => matcher_ok re m (lget ls (m_name m))) s) sets.
  Proof.
    induction sets as [|s sets IH]; simpl; [reflexivity|].
    rewrite matches_all_forallb.
    destruct (forallb _ s); simpl; [reflexivity | exact IH].
  Qed.

  Lemma matches_eq_spec sets ls : matches re templ sets ls = spec_match re templ sets ls.
  Proof.
    unfold matches, spec_match. destruct sets as [|s sets]; [reflexivity|].
    apply matches_sets_existsb.
  Qed.

  (* readable form *)
  Definition satisfies (s : list matcher) (ls : labels) : Prop :=
    forall m, In m s -> matcher_ok re m (lget (non_templated templ ls) (m_name m)) = true.

  Lemma matches_iff sets ls :
    sets <> [] ->
    (matches re templ sets ls = true <-> exists s, In s sets /\ satisfies s ls).
  Proof.
    intro Hne. rewrite matches_eq_spec. unfold spec_match.
    destruct sets as [|s0 sets]; [congruence|].
    rewrite existsb_exists. split.
    - intros [s [Hin Hall]]. exists s. split; [exact Hin|].
      rewrite forallb_forall in Hall. exact Hall.
    - intros [s [Hin Hall]]. exists s. split; [exact Hin|].
      apply forallb_forall. exact Hall.
  Qed.

  Lemma matches_unfixed_single s ls :
    matches_unfixed re templ [s] ls = spec_match re templ [s] ls.
  Proof.
    unfold matches_unfixed, spec_match. simpl. rewrite matches_all_forallb.
    destruct (forallb _ s); reflexivity.
  Qed.

  (* filterRulesByMatchers keeps exactly the rules selected by the
     specification, in order, and drops the groups left without rules *)
  Lemma filter_rules_spec sets gs :
    sets <> [] ->
    filter_rules re templ sets gs
    = filter (fun g => negb (is_nil (g_rules g)))
        (map (fun g => Group (g_key g) (filter (fun r => spec_match re templ sets (r_labels r)) (g_rules g))) gs).
  Proof.
    intro Hne. unfold filter_rules. destruct sets as [|s0 sets]; [congruence|].
    f_equal. apply map_ext. intro g. unfold filter_group. f_equal.
    apply filter_ext. intro r. apply matches_eq_spec.
  Qed.
End M.

(* the loop as it stood before the repair answers AND over all sets: with the
   two selector sets {a="x"} and {a="y"} a rule labelled a="x" is not returned *)
Definition ex_re (p v : str) : bool := false.
Definition ex_templ (v : str) : bool := false.
Definition ex_sets : list (list matcher) :=
  [[Matcher 0 [97%N] [120%N]]; [Matcher 0 [97%N] [121%N]]].
Definition ex_labels : labels := [([97%N], [120%N])].

Lemma unfixed_refuted :
  exists re templ sets ls,
    spec_match re templ sets ls = true /\ matches_unfixed re templ sets ls = false.
Proof. exists ex_re, ex_templ, ex_sets, ex_labels. vm_compute. split; reflexivity. Qed.

(* ---- tie T: filterRulesByMatchers decides every rule on its own ----
   every call in the function is one of len / r.GetLabels / matches, and the
   call of matches is not guarded by any `if` (no cached verdicts) *)
Fixpoint calls_at_if_depth0 (evs : list (string * string)) (depth : nat) : list string :=
  match evs with
  | [] => []
  | (k, t) :: r =>
    if String.eqb k "if" then calls_at_if_depth0 r (S depth)
    else if String.eqb k "endif" then calls_at_if_depth0 r (pred depth)
    else if String.eqb k "call" then
      match depth with O => t :: calls_at_if_depth0 r depth | S _ => calls_at_if_depth0 r depth end
    else calls_at_if_depth0 r depth
  end.

Definition filter_per_rule_ok : bool :=
  forallb (fun e => negb (String.eqb (fst e) "call")
                    || existsb (String.eqb (snd e)) ["len"; "r.GetLabels"; "matches"]%string)
          filterRules_events
  && existsb (String.eqb "matches") (calls_at_if_depth0 filterRules_events 0).

Lemma filter_per_rule : filter_per_rule_ok = true.
Proof. vm_compute. reflexivity. Qed.
