(* C10 — the expanded-postings cache is transparent over any history of queries. *)
From Coq Require Import ZArith NArith List Bool Lia Sorted.
Import ListNotations.
From Verif Require Import Lib.Corr Lib.Storegw_Str Gen.C10 Model.C10 Proofs.C10 Proofs.C10_merge Proofs.C10_select.
Open Scope Z_scope.

Lemma answer_finish idx ext ms mint maxt :
  answer idx ext true ms mint maxt = finish ext (select idx ms) mint maxt.
Proof. reflexivity. Qed.

(* every entry is what a cold store computes for its key: independent of any time range *)
Definition cache_inv (cold : list matcher -> list series) (c : pcache) : Prop :=
  forall ms v, pc_lookup c ms = Some v -> v = cold ms.
(* the cold value depends only on the cache key (type, name, value of every matcher) *)
Definition key_respect (cold : list matcher -> list series) : Prop :=
  forall a b, key_eqb a b = true -> cold a = cold b.

Definition q_ms (q : query) : list matcher := fst (fst q).
Definition q_mint (q : query) : Z := snd (fst q).
Definition q_maxt (q : query) : Z := snd q.

Lemma cache_inv_nil cold : cache_inv cold [].
Proof. intros ms v H. discriminate. Qed.

Lemma query_step_ok cold ext c q : cache_inv cold c -> key_respect cold ->
  fst (query_step cold ext c q) = finish ext (cold (q_ms q)) (q_mint q) (q_maxt q)
  /\ cache_inv cold (snd (query_step cold ext c q)).
Proof.
  intros Hi Hk. destruct q as [[ms mint] maxt]. unfold query_step, q_ms, q_mint, q_maxt. cbn [fst snd].
  destruct (pc_lookup c ms) as [sel|] eqn:E.
  - cbn [fst snd]. rewrite (Hi ms sel E). split; [reflexivity|exact Hi].
  - cbn [fst snd]. split; [reflexivity|]. intros ms' v H. simpl in H.
    destruct (key_eqb ms' ms) eqn:Ek.
    + inversion H; subst. symmetry. apply Hk. exact Ek.
    + apply Hi. exact H.
Qed.

Lemma cache_transparent cold ext : key_respect cold ->
  forall h c, cache_inv cold c ->
  run_hist cold ext c h = map (fun q => finish ext (cold (q_ms q)) (q_mint q) (q_maxt q)) h.
Proof.
  intro Hk. induction h as [|q h IH]; intros c Hi; [reflexivity|].
  cbn [run_hist map]. destruct (query_step_ok cold ext c q Hi Hk) as (H1 & H2).
  destruct (query_step cold ext c q) as [a c']. cbn [fst snd] in *. rewrite H1, (IH c' H2). reflexivity.
Qed.

(* histories with one matcher list (what the harness sends): no hypothesis on keys is needed *)
Lemma key_eqb_refl ms : key_eqb ms ms = true.
Proof. unfold key_eqb. induction ms; simpl; [reflexivity|]. rewrite matcher_same_refl, IHms. reflexivity. Qed.

Lemma run_hist_same cold ext ms : forall (ranges : list (Z * Z)) c,
  (c = [] \/ c = [(ms, cold ms)]) ->
  run_hist cold ext c (map (fun r => (ms, fst r, snd r)) ranges)
  = map (fun r => finish ext (cold ms) (fst r) (snd r)) ranges.
Proof.
  induction ranges as [|r ranges IH]; intros c Hc; [reflexivity|].
  cbn [map run_hist query_step]. destruct Hc as [->| ->].
  - cbn [pc_lookup]. rewrite IH by (right; reflexivity). reflexivity.
  - cbn [pc_lookup]. rewrite key_eqb_refl. rewrite IH by (right; reflexivity). reflexivity.
Qed.

(* ---------- connection with the check ---------- *)
Definition mk_hist (f : Z -> Z -> list series) (ranges : list (Z * Z)) : list step_obs :=
  map (fun r => (fst r, snd r, f (fst r) (snd r))) ranges.

Lemma oracle_for_mk f : forall ranges mint maxt, In (mint, maxt) ranges ->
  oracle_for (mk_hist f ranges) mint maxt = Some (f mint maxt).
Proof.
  induction ranges as [|[a b] ranges IH]; intros mint maxt H; [contradiction|].
  cbn [mk_hist map oracle_for fst snd]. destruct ((a =? mint) && (b =? maxt)) eqn:E.
  - apply andb_true_iff in E. destruct E as [E1 E2]. apply Z.eqb_eq in E1, E2. subst. reflexivity.
  - destruct H as [H|H]; [inversion H; subst; rewrite !Z.eqb_refl in E; discriminate|].
    apply IH. exact H.
Qed.

Lemma all2_refl_map {A} (g : A -> list series) (h : A -> step_obs) l :
  (forall x, snd (h x) = g x) -> all2 (fun m (st : step_obs) => set_eqb m (snd st)) (map g l) (map h l) = true.
Proof.
  intro H. induction l as [|x l IH]; [reflexivity|]. cbn [map all2]. rewrite H, set_eqb_refl, IH. reflexivity.
Qed.

(* the case the harness would emit when every store answers, at every step of every history,
   like the model, and the TSDB read of each range is the specification, passes both checks *)
Lemma case_ok idx ext ms (hists : list (list (Z * Z))) :
  ms <> [] -> Forall coherent ms -> consistent ms -> wf_index idx -> chunks_sorted idx ->
  let spec := fun mint maxt => spec_answer idx ext ms mint maxt in
  corr_ok (CSel idx ext true ms (map (mk_hist spec) hists) (mk_hist spec (concat hists))) = true
  /\ pred_ok (CSel idx ext true ms (map (mk_hist spec) hists) (mk_hist spec (concat hists))) = true.
Proof.
  intros H1 H2 H3 H4 H5 spec.
  assert (Hspec : forall mint maxt, finish ext (select idx ms) mint maxt = spec mint maxt).
  { intros mint maxt. rewrite <- answer_finish. apply answer_eq_spec; assumption. }
  split.
  - cbn [corr_ok]. apply forallb_forall. intros hist Hh. apply in_map_iff in Hh. destruct Hh as (ranges & <- & _).
    unfold mk_hist at 1. rewrite map_map. cbn [fst snd].
    rewrite (run_hist_same (select idx) ext ms ranges [] (or_introl eq_refl)).
    unfold mk_hist. apply all2_refl_map. intro r. cbn [snd]. symmetry. apply Hspec.
  - cbn [pred_ok]. apply forallb_forall. intros hist Hh. apply in_map_iff in Hh. destruct Hh as (ranges & <- & Hr).
    apply forallb_forall. intros st Hst. unfold mk_hist in Hst. apply in_map_iff in Hst. destruct Hst as ([a b] & <- & Hab).
    cbn [fst snd]. rewrite (oracle_for_mk spec (concat hists) a b).
    + apply (list_eqb_refl' series_eqb series_eqb_refl).
    + apply in_concat. exists ranges. split; assumption.
Qed.
