(* C04 — deduplication off with OVERLAPPING pieces: a series whose chunks are
   arbitrary (overlapping, nested, duplicated) pieces of its strictly increasing
   samples L, sorted by MinTime and together holding every sample, is read back
   as exactly L by the chunk iterator. *)
From Coq Require Import ZArith List Bool NArith Lia Sorting.Sorted.
Import ListNotations.
From Verif Require Import Lib.Corr Gen.C04 Model.C04 Proofs.C04 Proofs.C04_Cuts Proofs.C04_Total.
Open Scope Z_scope.

Lemma sub_antisym : forall A B, sub A B -> sub B A -> A = B.
Proof.
  intros A B H1. induction H1; intros H2.
  - apply sub_nil_r in H2. auto.
  - (* A ⊑ l2, x :: l2 ⊑ A: impossible by length *)
    exfalso. assert (L1 : (length l1 <= length l2)%nat).
    { clear -H1. induction H1; simpl; lia. }
    assert (L2 : (length (x :: l2) <= length l1)%nat).
    { clear -H2. induction H2; simpl in *; lia. }
    simpl in L2. lia.
  - f_equal. apply IHsub. inversion H2; subst.
    + (* x :: l2 ⊑ l1 *) exfalso.
      assert (L1 : (length l1 <= length l2)%nat) by (clear -H1; induction H1; simpl; lia).
      assert (L2 : (length (x :: l2) <= length l1)%nat) by (clear -H3; induction H3; simpl in *; lia).
      simpl in L2. lia.
    + assumption.
Qed.

Lemma drop_lt_suffix_last t : forall c x y d, drop_lt t (x :: c) = y :: d -> last_t (fst y) d = last_t (fst x) c.
Proof.
  induction c as [|z c IH]; intros x y d H; simpl in H.
  - destruct (fst x <? t); [discriminate|]. injection H as <- <-. reflexivity.
  - destruct (fst x <? t).
    + simpl. apply (IH z y d). exact H.
    + injection H as <- <-. reflexivity.
Qed.

Section Pieces.
Variable L : list sample.
Hypothesis HL : SS L.

Lemma good_last c x r : good L c -> csamples c = x :: r -> last_t (fst x) r = cmax c.
Proof. intros [(x' & r' & E & _ & Hmax) _] E2. rewrite E in E2. injection E2 as -> ->. symmetry. exact Hmax. Qed.

(* every sample at or above the threshold that some chunk holds is delivered *)
Lemma chunk_iter_from_delivers : forall cs thr x,
  StronglySorted (fun c d => cmin c <= cmin d) cs -> Forall (good L) cs ->
  In x L -> thr <= fst x -> (exists c, In c cs /\ In x (csamples c)) ->
  In x (chunk_iter_from thr (map csamples cs)).
Proof.
  induction cs as [|c cs IH]; intros thr x Hsort Hgood HxL Hthr (c0 & Hc0 & Hx); [destruct Hc0|].
  apply StronglySorted_inv in Hsort as [Hsort Hle]. rewrite Forall_forall in Hle.
  inversion Hgood as [|? ? Hc Hgood']; subst.
  assert (HSc : SS (csamples c)).
  { destruct Hc as [_ Hseg]. rewrite Hseg. eapply SS_sub; [apply in_range_sub|exact HL]. }
  cbn [map chunk_iter_from].
  destruct (in_dec (fun a b : sample => ltac:(decide equality; apply Z.eq_dec)) x (csamples c)) as [Hin|Hnin].
  - pose proof (in_drop_lt thr _ x HSc Hin Hthr) as Hd.
    destruct (drop_lt thr (csamples c)) as [|y c']; [destruct Hd|].
    change (y :: c' ++ chunk_iter_from (last_t (fst y) c' + 1) (map csamples cs))
      with ((y :: c') ++ chunk_iter_from (last_t (fst y) c' + 1) (map csamples cs)).
    apply in_or_app. left. exact Hd.
  - (* x is held by a later chunk, hence lies after the end of c *)
    destruct Hc0 as [<-|Hc0]; [contradiction|].
    assert (Hxb : cmax c < fst x).
    { destruct Hc as [Hwf Hseg].
      rewrite Forall_forall in Hgood'. destruct (Hgood' _ Hc0) as [Hwf0 Hseg0].
      assert (HSc0 : SS (csamples c0)) by (rewrite Hseg0; eapply SS_sub; [apply in_range_sub|exact HL]).
      destruct (wf_bounds c0 Hwf0 HSc0) as (_ & Hb0 & _). destruct (Hb0 x Hx) as [Hlo _].
      specialize (Hle _ Hc0).
      destruct (Z_lt_le_dec (cmax c) (fst x)) as [|Hge]; [assumption|]. exfalso. apply Hnin.
      rewrite Hseg. unfold in_range. apply filter_In. split; [exact HxL|].
      apply andb_true_iff. split; [apply Z.leb_le; lia|apply Z.leb_le; lia]. }
    destruct (drop_lt thr (csamples c)) as [|y c'] eqn:E.
    + apply IH; eauto.
    + change (y :: c' ++ chunk_iter_from (last_t (fst y) c' + 1) (map csamples cs))
        with ((y :: c') ++ chunk_iter_from (last_t (fst y) c' + 1) (map csamples cs)).
      apply in_or_app. right. apply IH; eauto.
      destruct (csamples c) as [|x0 r0] eqn:Ec; [discriminate E|].
      rewrite (drop_lt_suffix_last _ _ _ _ _ E). rewrite (good_last c x0 r0 Hc Ec). lia.
Qed.

Lemma chunk_iter_pieces cs :
  Forall (fun x => MinT < fst x) L ->
  StronglySorted (fun c d => cmin c <= cmin d) cs -> Forall (good L) cs ->
  (forall x, In x L -> exists c, In c cs /\ In x (csamples c)) ->
  chunk_iter cs = L.
Proof.
  intros HM Hsort Hgood Hcov. unfold chunk_iter.
  assert (HSS : Forall SS (map csamples cs)).
  { apply Forall_forall. intros s Hs. apply in_map_iff in Hs as (c & <- & Hc).
    rewrite Forall_forall in Hgood. destruct (Hgood _ Hc) as [_ Hseg]. rewrite Hseg.
    eapply SS_sub; [apply in_range_sub|exact HL]. }
  destruct (chunk_iter_from_SS _ (MinT + 1) HSS) as [HSW _].
  apply sub_antisym.
  - apply sorted_sublist; [exact HL|exact HSW|].
    intros y Hy. apply chunk_iter_from_in in Hy as (s & Hs & Hys).
    apply in_map_iff in Hs as (c & <- & Hc).
    rewrite Forall_forall in Hgood. destruct (Hgood _ Hc) as [_ Hseg]. rewrite Hseg in Hys.
    eapply sub_in; [apply in_range_sub|exact Hys].
  - apply sorted_sublist; [exact HSW|exact HL|].
    intros x Hx. apply chunk_iter_from_delivers; auto.
    rewrite Forall_forall in HM. specialize (HM _ Hx). lia.
Qed.
End Pieces.

(* Select with dedup off over series made of such pieces *)
Record pitem := mkP { p_lbl : labels; p_L : list sample; p_cs : list chunk }.

Definition pitem_ok (x : pitem) : Prop :=
  rawstream (p_L x)
  /\ StronglySorted (fun c d => cmin c <= cmin d) (p_cs x)
  /\ Forall (good (p_L x)) (p_cs x)
  /\ (forall y, In y (p_L x) -> exists c, In c (p_cs x) /\ In y (csamples c)).

Theorem select_plain_pieces mint maxt items :
  Forall pitem_ok items ->
  select mint maxt false (map (fun x => (p_lbl x, p_cs x)) items)
  = Some (map (fun x => (p_lbl x, in_range mint maxt (p_L x))) items).
Proof.
  intros HF.
  assert (Hci : forall x, In x items -> chunk_iter (p_cs x) = p_L x).
  { intros x Hx. rewrite Forall_forall in HF. destruct (HF _ Hx) as ([HS HM] & Hsort & Hgood & Hcov).
    apply chunk_iter_pieces; auto. }
  unfold select. induction items as [|x items IH]; [reflexivity|].
  inversion HF as [|? ? Hx HF']; subst. cbn [map sequence fst snd].
  rewrite (Hci x (or_introl eq_refl)).
  destruct Hx as (Hraw & _).
  rewrite (series_samples_total mint maxt (p_L x) [] Hraw (Forall_nil _)).
  rewrite IH; auto. intros y Hy. apply Hci. right. exact Hy.
Qed.
