(* C37 — proofs: Next/Seek programs only ever return samples that the Next-only reading
   returns, hence adjusted raw counter values as well. *)
From Coq Require Import ZArith List Bool Lia Sorted.
Import ListNotations.
From Verif Require Import Lib.Corr Lib.Downsample_Core Lib.Downsample_Batch Lib.Downsample_Raw
  Lib.Downsample_Windows Lib.Downsample_Aggr Lib.Downsample_Iter Lib.Downsample_Counter Gen.C37 Model.C37
  Proofs.C37 Proofs.C37_L2 Proofs.C37_L2v.
Open Scope Z_scope.

Definition Rem (toks : list tok) (st : acr) (l : list (Z * Z)) : Prop := READ toks st = Some l.

Lemma next_rem toks st l toks' st' :
  Rem toks st l -> NEXT toks st = Some (true, toks', st') ->
  exists l', l = (c_lastT st', c_totalV st') :: l' /\ Rem toks' st' l'.
Proof.
  unfold Rem. intros H E. rewrite READ_eq, E in H. destruct (READ toks' st') as [l'|]; [|discriminate].
  injection H as <-. exists l'. split; reflexivity.
Qed.

Lemma seek_rem : forall n toks st l x toks' st',
  (length toks <= n)%nat -> Rem toks st l -> SEEK x toks st = Some (true, toks', st') ->
  (toks' = toks /\ st' = st /\ c_lvt st = true) \/
  (exists pre l', l = pre ++ (c_lastT st', c_totalV st') :: l' /\ Rem toks' st' l').
Proof.
  induction n as [|n IH]; intros toks st l x toks' st' Hn HR E; rewrite SEEK_eq in E.
  - destruct (c_lastT st >=? x); [injection E as E1 E2 E3; left; repeat split; congruence|].
    destruct (NEXT toks st) as [[[b t1] s1]|] eqn:EN; [|discriminate]. destruct b; [|discriminate].
    destruct (acr_shorter (acr_fuel toks)) as [S _]. destruct (S _ _ _ _ _ EN) as [_ H]. specialize (H eq_refl). lia.
  - destruct (c_lastT st >=? x); [injection E as E1 E2 E3; left; repeat split; congruence|].
    destruct (NEXT toks st) as [[[b t1] s1]|] eqn:EN; [|discriminate]. destruct b; [|discriminate].
    destruct (next_rem _ _ _ _ _ HR EN) as (l1 & -> & HR1).
    destruct (acr_shorter (acr_fuel toks)) as [S _]. destruct (S _ _ _ _ _ EN) as [_ H]. specialize (H eq_refl).
    destruct (IH t1 s1 l1 x toks' st' ltac:(lia) HR1 E) as [(-> & -> & _)|(pre & l' & -> & HR')].
    + right. exists [], l1. split; [reflexivity|exact HR1].
    + right. exists ((c_lastT s1, c_totalV s1) :: pre), l'. split; [reflexivity|exact HR'].
Qed.

Lemma prog_subset : forall prog toks st l all res,
  Rem toks st l -> (exists pre0, all = pre0 ++ l) ->
  (c_lvt st = true -> In (c_lastT st, c_totalV st) all) ->
  run_prog prog toks st = Some res ->
  Forall (fun o => match o with Some s => In s all | None => True end) res.
Proof.
  induction prog as [|o rest IH]; intros toks st l all res HR [pre0 Hall] HJ E; cbn [run_prog] in E.
  - injection E as <-. constructor.
  - destruct o as [|x].
    + fold (NEXT toks st) in E. destruct (NEXT toks st) as [[[b t1] s1]|] eqn:EN; [|discriminate].
      destruct b; [|injection E as <-; repeat constructor].
      destruct (next_rem _ _ _ _ _ HR EN) as (l1 & -> & HR1).
      destruct (run_prog rest t1 s1) as [r|] eqn:Er; [|discriminate]. injection E as <-.
      assert (He : In (c_lastT s1, c_totalV s1) all) by (rewrite Hall; apply in_or_app; right; left; reflexivity).
      constructor; [exact He|]. apply (IH t1 s1 l1 all r HR1); [|intros _; exact He|exact Er].
      exists (pre0 ++ [(c_lastT s1, c_totalV s1)]). rewrite Hall, <- app_assoc. reflexivity.
    + fold (SEEK x toks st) in E. destruct (SEEK x toks st) as [[[b t1] s1]|] eqn:ES; [|discriminate].
      destruct b; [|injection E as <-; repeat constructor].
      destruct (run_prog rest t1 s1) as [r|] eqn:Er; [|discriminate]. injection E as <-.
      destruct (seek_rem (length toks) toks st l x t1 s1 (le_n _) HR ES) as [(-> & -> & Hl)|(pre & l' & -> & HR')].
      * constructor; [apply HJ; exact Hl|]. apply (IH toks st l all r HR); [exists pre0; exact Hall|exact HJ|exact Er].
      * assert (He : In (c_lastT s1, c_totalV s1) all).
        { rewrite Hall. apply in_or_app. right. apply in_or_app. right. left. reflexivity. }
        constructor; [exact He|]. apply (IH t1 s1 l' all r HR'); [|intros _; exact He|exact Er].
        exists (pre0 ++ pre ++ [(c_lastT s1, c_totalV s1)]). rewrite Hall, <- !app_assoc. reflexivity.
Qed.

Lemma run_prog_total : forall prog toks st, run_prog prog toks st <> None.
Proof.
  induction prog as [|o rest IH]; intros toks st; cbn [run_prog]; [discriminate|].
  destruct o as [|x].
  - pose proof (proj1 (acr_enough (acr_fuel toks)) toks st ltac:(unfold acr_fuel; lia)) as T.
    destruct (acr_next (acr_fuel toks) toks st) as [[[b t1] s1]|]; [|congruence].
    destruct b; [|discriminate]. specialize (IH t1 s1). destruct (run_prog rest t1 s1); [discriminate|congruence].
  - pose proof (proj2 (acr_enough (S (acr_fuel toks))) x toks st ltac:(unfold acr_fuel; lia)) as T.
    destruct (acr_seek (S (acr_fuel toks)) x toks st) as [[[b t1] s1]|]; [|congruence].
    destruct b; [|discriminate]. specialize (IH t1 s1). destruct (run_prog rest t1 s1); [discriminate|congruence].
Qed.

(* every sample a Next/Seek program returns on the 5m chunks is one that the Next-only reading
   returns, hence the adjusted raw counter at its timestamp *)
Lemma programs_exact res nc data l1 prog :
  valid_counter res data -> level1 res nc data = Some l1 ->
  exists pres,
    run_prog prog (counter_toks l1) acr0 = Some pres /\
    Forall (fun o => match o with Some s => snd s = adj_at (keep_nonnan data) (fst s) | None => True end) pres.
Proof.
  intros Hv E1. destruct (level1_full res nc data Hv) as (l1' & em & E1' & R & A & _).
  rewrite E1 in E1'. injection E1' as <-.
  pose proof (run_prog_total prog (counter_toks l1) acr0) as T.
  destruct (run_prog prog (counter_toks l1) acr0) as [pres|] eqn:Ep; [|congruence].
  exists pres. split; [reflexivity|].
  assert (HR : Rem (counter_toks l1) acr0 em).
  { unfold Rem, READ. unfold read_counter in R. destruct (acr_run _ _ acr0) as [[out fin]|]; [|discriminate]. exact R. }
  pose proof (prog_subset prog _ _ em em pres HR (ex_intro _ [] eq_refl) ltac:(cbn; discriminate) Ep) as S.
  eapply Forall_impl; [|exact S]. intros [s|] Hs; [|exact I]. rewrite Forall_forall in A. apply A. exact Hs.
Qed.

(* the whole predicate of the check, for the model's outputs *)
Lemma full_pred res1 k nc1 nc2 data prog :
  0 < res1 -> 0 < k -> valid_input res1 (k * res1) data = true ->
  exists l1 read1 pres,
    level1 res1 nc1 data = Some l1 /\ read_counter l1 = Some read1 /\
    run_prog prog (counter_toks l1) acr0 = Some pres /\
    exists l2 read2,
      level2 (k * res1) nc2 l1 = Some l2 /\ read_counter l2 = Some read2 /\
      pred_ok (CCounter res1 (k * res1) nc1 nc2 data read1 read2 prog pres) = true.
Proof.
  intros H1 Hk Hv.
  destruct (two_levels res1 k nc1 nc2 data H1 Hk Hv) as (l1 & r1 & E1 & R1 & L1 & Hl2).
  destruct (programs_exact res1 nc1 data l1 prog (valid_input_counter _ _ _ Hv) E1) as (pres & Ep & Hp).
  exists l1, r1, pres. repeat split; try assumption.
  destruct Hl2 as (l2 & r2 & E2 & R2 & L2). exists l2, r2. repeat split; try assumption.
  unfold pred_ok. rewrite Hv, L1, L2. cbn [andb].
  apply forallb_forall. intros [s|] Hs; [|reflexivity]. rewrite Forall_forall in Hp.
  apply Z.eqb_eq. apply (Hp (Some s) Hs).
Qed.
