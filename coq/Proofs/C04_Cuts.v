(* C04 — identical replicas with arbitrary NON-overlapping chunk cuts: the first
   pseudo-replica built by the overlap split holds all samples, every other one
   holds a subsequence. *)
From Coq Require Import ZArith List Bool NArith Lia Sorting.Sorted Permutation.
Import ListNotations.
From Verif Require Import Lib.Corr Gen.C04 Model.C04 Proofs.C04.
Open Scope Z_scope.

(* ---------- more on strictly increasing lists ---------- *)
Lemma SS_app l1 l2 : SS l1 -> SS l2 -> (forall a b, In a l1 -> In b l2 -> fst a < fst b) -> SS (l1 ++ l2).
Proof.
  induction l1 as [|x l1 IH]; simpl; intros H1 H2 H; [assumption|].
  apply SS_inv in H1 as [H1 HF]. apply SSorted_cons.
  - apply IH; auto.
  - apply Forall_forall. intros y Hy. apply in_app_or in Hy as [Hy|Hy].
    + rewrite Forall_forall in HF. apply HF. assumption.
    + apply H; auto.
Qed.

Lemma SS_same_time L x y : SS L -> In x L -> In y L -> fst x = fst y -> x = y.
Proof.
  induction L as [|z L IH]; simpl; intros HS Hx Hy E; [contradiction|].
  pose proof HS as HS'. apply SS_inv in HS as [HS HF]. rewrite Forall_forall in HF.
  destruct Hx as [<-|Hx], Hy as [<-|Hy]; auto.
  - specialize (HF _ Hy). unfold lt_s in HF. lia.
  - specialize (HF _ Hx). unfold lt_s in HF. lia.
Qed.

(* a strictly increasing list all of whose elements occur in a strictly
   increasing list L is a subsequence of L *)
Lemma sorted_sublist : forall L A, SS L -> SS A -> (forall x, In x A -> In x L) -> sub A L.
Proof.
  induction L as [|y L IH]; intros A HL HA Hin.
  - destruct A as [|x A]; [apply sub_nil|]. destruct (Hin x (or_introl eq_refl)).
  - destruct A as [|x A]; [apply sub_nil|].
    pose proof HL as HL'. apply SS_inv in HL as [HL HF]. rewrite Forall_forall in HF.
    pose proof HA as HA'. apply SS_inv in HA as [HA HFA]. rewrite Forall_forall in HFA.
    destruct (Hin x (or_introl eq_refl)) as [<-|Hx].
    + apply sub_take. apply IH; auto. intros z Hz.
      destruct (Hin z (or_intror Hz)) as [<-|Hz']; [|assumption].
      specialize (HFA _ Hz). unfold lt_s in HFA. lia.
    + apply sub_skip. apply IH; auto. intros z [<-|Hz]; [assumption|].
      destruct (Hin z (or_intror Hz)) as [<-|Hz']; [|assumption].
      specialize (HFA _ Hz). specialize (HF _ Hx). unfold lt_s in *. lia.
Qed.

Lemma drop_lt_head_ge thr l y r : drop_lt thr l = y :: r -> thr <= fst y.
Proof.
  induction l as [|w l IH]; simpl; [discriminate|].
  destruct (fst w <? thr) eqn:E; [exact IH|]. intros H. injection H as -> _. lia.
Qed.

Lemma in_drop_lt thr L x : SS L -> In x L -> thr <= fst x -> In x (drop_lt thr L).
Proof.
  induction L as [|y L IH]; simpl; intros HS Hin Hx; [contradiction|].
  destruct (fst y <? thr) eqn:E.
  - destruct Hin as [<-|Hin]; [lia|]. apply IH; auto. apply SS_inv in HS. tauto.
  - exact Hin.
Qed.

Lemma drop_lt_drop_lt a b L : a <= b -> drop_lt b (drop_lt a L) = drop_lt b L.
Proof.
  intros Hab. induction L as [|y L IH]; simpl; [reflexivity|].
  destruct (fst y <? a) eqn:E.
  - rewrite IH. destruct (fst y <? b) eqn:E2; [reflexivity|lia].
  - reflexivity.
Qed.

(* for a strictly increasing list: [a..] = [a..b] ++ [b+1..] *)
Lemma drop_lt_split a b L : SS L -> a <= b + 1 -> drop_lt a L = in_range a b L ++ drop_lt (b + 1) L.
Proof.
  induction L as [|y L IH]; simpl; intros HS Hab; [reflexivity|].
  pose proof HS as HS'. apply SS_inv in HS as [HS HF].
  destruct (fst y <? a) eqn:E.
  - destruct (a <=? fst y) eqn:E1; [lia|]. simpl.
    destruct (fst y <? b + 1) eqn:E2; [|lia]. apply IH; auto.
  - destruct (a <=? fst y) eqn:E1; [|lia]. simpl.
    destruct (fst y <=? b) eqn:E3.
    + simpl. destruct (fst y <? b + 1) eqn:E2; [|lia]. f_equal.
      rewrite <- IH by auto. symmetry. apply drop_lt_keep.
      destruct L as [|z L']; [exact I|]. inversion HF; subst. unfold lt_s in *. lia.
    + destruct (fst y <? b + 1) eqn:E2; [lia|].
      rewrite in_range_all_gt; [reflexivity|].
      rewrite Forall_forall in *. intros z Hz. specialize (HF _ Hz). unfold lt_s in HF. lia.
Qed.

(* ---------- well-formed chunks, cuts ---------- *)
(* MinTime / MaxTime are the first / last sample time; at least one sample *)
Definition wf (c : chunk) : Prop :=
  exists x r, csamples c = x :: r /\ cmin c = fst x /\ cmax c = last_t (fst x) r.

(* a replica's chunks: consecutive pieces of its samples *)
Definition cut (L : list sample) (ds : list chunk) : Prop :=
  concat (map csamples ds) = L /\ Forall wf ds.

Lemma last_t_ge : forall r x, SS (x :: r) -> fst x <= last_t (fst x) r /\
  forall y, In y (x :: r) -> fst y <= last_t (fst x) r.
Proof.
  induction r as [|z r IH]; intros x HS; simpl.
  - split; [lia|]. intros y [<-|[]]. lia.
  - pose proof HS as HS'. apply SS_inv in HS as [HS HF]. destruct (IH z HS) as [H1 H2].
    inversion HF; subst. unfold lt_s in *. split; [lia|].
    intros y [<-|Hy]; [lia|]. apply H2. exact Hy.
Qed.

Lemma wf_bounds c : wf c -> SS (csamples c) ->
  cmin c <= cmax c /\ (forall y, In y (csamples c) -> cmin c <= fst y <= cmax c)
  /\ (exists x, In x (csamples c) /\ fst x = cmin c) /\ (exists x, In x (csamples c) /\ fst x = cmax c).
Proof.
  intros (x & r & E & Hmin & Hmax) HS. rewrite E in *. rewrite Hmin, Hmax.
  destruct (last_t_ge r x HS) as [H1 H2]. repeat split; auto.
  - destruct H as [<-|Hy]; [lia|]. pose proof (SS_tail_gt _ _ _ HS Hy). lia.
  - exists x. split; [left; reflexivity|reflexivity].
  - destruct (last_t_mem r x) as (y & Hy & Ey). exists y. auto.
Qed.

(* a piece in the middle of a strictly increasing list is what lies between its bounds *)
Lemma in_range_middle pre S post a b :
  SS (pre ++ S ++ post) -> S <> [] ->
  (forall y, In y S -> a <= fst y <= b) ->
  (exists x, In x S /\ fst x = a) -> (exists x, In x S /\ fst x = b) ->
  in_range a b (pre ++ S ++ post) = S.
Proof.
  intros HS HN Hb (xa & Hxa & Ea) (xb & Hxb & Eb).
  apply SS_app_inv in HS as (Hpre & HS' & H1). apply SS_app_inv in HS' as (HSs & Hpost & H2).
  assert (Happ : forall l1 l2, in_range a b (l1 ++ l2) = in_range a b l1 ++ in_range a b l2)
    by (intros; apply filter_app).
  rewrite !Happ.
  assert (E1 : in_range a b pre = []).
  { apply in_range_all_lt. apply Forall_forall. intros y Hy.
    specialize (H1 y xa Hy (in_or_app _ _ _ (or_introl Hxa))). lia. }
  assert (E3 : in_range a b post = []).
  { apply in_range_all_gt. apply Forall_forall. intros y Hy. specialize (H2 xb y Hxb Hy). lia. }
  assert (E2 : in_range a b S = S).
  { clear -Hb. induction S as [|y S IH]; simpl; [reflexivity|].
    destruct (Hb y (or_introl eq_refl)). destruct (a <=? fst y) eqn:E1, (fst y <=? b) eqn:E2; try lia.
    simpl. f_equal. apply IH. intros z Hz. apply Hb. right. exact Hz. }
  rewrite E1, E2, E3. rewrite app_nil_r. reflexivity.
Qed.

Lemma drop_lt_app_all_lt thr A B : (forall z, In z A -> fst z < thr) -> drop_lt thr (A ++ B) = drop_lt thr B.
Proof.
  induction A as [|w A IH]; simpl; intros H; [reflexivity|].
  destruct (fst w <? thr) eqn:E.
  - apply IH. intros z Hz. apply H. right. exact Hz.
  - specialize (H w (or_introl eq_refl)). lia.
Qed.

Lemma cut_props : forall ds L pre,
  cut L ds -> SS (pre ++ L) ->
  forall d, In d ds ->
    csamples d = in_range (cmin d) (cmax d) (pre ++ L)
    /\ (forall y ys, drop_lt (cmax d + 1) (pre ++ L) = y :: ys -> exists d', In d' ds /\ cmin d' = fst y).
Proof.
  induction ds as [|d1 ds IH]; intros L pre [Hc Hwf] HS d Hin; [contradiction|].
  simpl in Hc. inversion Hwf as [|? ? Hwf1 Hwf']; subst.
  set (S1 := csamples d1) in *. set (L' := concat (map csamples ds)) in *.
  assert (HS1 : SS S1).
  { apply SS_app_inv in HS as (_ & H & _). apply SS_app_inv in H. tauto. }
  destruct (wf_bounds d1 Hwf1 HS1) as (Hle & Hbd & Hxa & Hxb).
  destruct Hin as [<-|Hin].
  - split.
    + symmetry. apply in_range_middle; auto.
      destruct Hwf1 as (x & r & E & _). unfold S1. rewrite E. discriminate.
    + intros y ys Hd.
      destruct Hxb as (xb & Hxb & Eb).
      rewrite app_assoc in Hd, HS. apply SS_app_inv in HS as (H1 & H2 & H3).
      rewrite drop_lt_app_all_lt in Hd.
      2:{ intros z Hz. apply in_app_or in Hz as [Hz|Hz].
          - apply SS_app_inv in H1 as (_ & _ & H4). specialize (H4 z xb Hz Hxb). lia.
          - destruct (Hbd z Hz). lia. }
      assert (HL' : L' = y :: ys).
      { rewrite <- Hd. symmetry. apply drop_lt_keep. destruct L' as [|z L'']; [exact I|].
        specialize (H3 xb z (in_or_app _ _ _ (or_intror Hxb)) (or_introl eq_refl)). lia. }
      destruct ds as [|d2 ds']; [discriminate HL'|].
      inversion Hwf' as [|? ? Hwf2 _]; subst. destruct Hwf2 as (x2 & r2 & E2 & Hmin2 & _).
      unfold L' in HL'. simpl in HL'. rewrite E2 in HL'. injection HL' as <- _.
      exists d2. split; [right; left; reflexivity|exact Hmin2].
  - rewrite app_assoc in HS |- *.
    destruct (IH L' (pre ++ S1) (conj eq_refl Hwf') HS d Hin) as [Hseg Hnext].
    split; [exact Hseg|]. intros y ys Hd. destruct (Hnext y ys Hd) as (d' & Hd' & E).
    exists d'. split; [right; exact Hd'|exact E].
Qed.

Lemma cut_first L ds y ys : cut L ds -> L = y :: ys -> exists d, In d ds /\ cmin d = fst y.
Proof.
  intros [Hc Hwf] E. destruct ds as [|d1 ds]; [simpl in Hc; congruence|].
  apply Forall_inv in Hwf. destruct Hwf as (x & r & E1 & Hmin & _).
  simpl in Hc. rewrite E1, E in Hc. injection Hc as <- _.
  exists d1. split; [left; reflexivity|exact Hmin].
Qed.

(* ---------- the first pseudo-replica of the overlap split is greedy ---------- *)
Fixpoint greedy (last : Z) (cs : list chunk) : list chunk :=
  match cs with
  | [] => []
  | c :: cs' => if last <? cmin c then c :: greedy (cmax c) cs' else greedy last cs'
  end.

(* the first replica (kept reversed, last chunk first) while folding [place] *)
Definition step0 (r : list chunk) (c : chunk) : list chunk :=
  match r with
  | [] => [c]
  | l :: _ => if cmax l <? cmin c then c :: r else r
  end.

Lemma fold_place_first : forall rest r0 others,
  r0 <> [] ->
  exists others', fold_left (fun reps c => place c reps) rest (r0 :: others)
                  = fold_left step0 rest r0 :: others'.
Proof.
  induction rest as [|c rest IH]; intros r0 others Hne; simpl.
  - eauto.
  - destruct r0 as [|l r0']; [congruence|]. simpl.
    destruct (cmax l <? cmin c); apply IH; discriminate.
Qed.

Lemma fold_step0_greedy : forall rest l r,
  rev (fold_left step0 rest (l :: r)) = rev (l :: r) ++ greedy (cmax l) rest.
Proof.
  induction rest as [|c rest IH]; intros l r; simpl.
  - rewrite app_nil_r. reflexivity.
  - destruct (cmax l <? cmin c).
    + rewrite IH. simpl. rewrite <- !app_assoc. reflexivity.
    + apply IH.
Qed.

Lemma overlap_split_first c0 rest :
  exists others, overlap_split (c0 :: rest) = (c0 :: greedy (cmax c0) rest) :: others.
Proof.
  unfold overlap_split.
  destruct (fold_place_first rest [c0] []) as [others' E]; [discriminate|].
  rewrite E. simpl. rewrite fold_step0_greedy. simpl. eauto.
Qed.

(* ---------- the greedy chain covers the whole stream ---------- *)
Section Cover.
Variable L : list sample.
Hypothesis HL : SS L.

(* some chunk starts at the first sample after [last] *)
Definition avail (cs : list chunk) (last : Z) : Prop :=
  forall y ys, drop_lt (last + 1) L = y :: ys -> exists d, In d cs /\ cmin d = fst y.

Definition good (c : chunk) : Prop :=
  wf c /\ csamples c = in_range (cmin c) (cmax c) L.

Lemma good_facts c : good c ->
  cmin c <= cmax c /\ exists x, In x L /\ fst x = cmin c.
Proof.
  intros [Hwf Hseg].
  assert (HSc : SS (csamples c)) by (rewrite Hseg; eapply SS_sub; [apply in_range_sub|exact HL]).
  destruct (wf_bounds c Hwf HSc) as (Hle & _ & (x & Hx & Ex) & _).
  split; [exact Hle|]. exists x. split; [|exact Ex].
  rewrite Hseg in Hx. eapply sub_in; [apply in_range_sub|exact Hx].
Qed.

Lemma greedy_cover : forall cs last,
  StronglySorted (fun c d => cmin c <= cmin d) cs ->
  Forall good cs ->
  avail cs last -> (forall c, In c cs -> avail cs (cmax c)) ->
  concat (map csamples (greedy last cs)) = drop_lt (last + 1) L.
Proof.
  induction cs as [|c cs IH]; intros last Hsort Hgood Hav Hnext.
  - simpl. destruct (drop_lt (last + 1) L) as [|y ys] eqn:E; [reflexivity|].
    destruct (Hav y ys E) as (d & [] & _).
  - apply StronglySorted_inv in Hsort as [Hsort Hle]. rewrite Forall_forall in Hle.
    inversion Hgood as [|? ? Hc Hgood']; subst.
    destruct (good_facts c Hc) as (Hcle & x & Hx & Ex).
    (* the requirements for the tail, whichever way c goes *)
    assert (Hnext' : forall c', In c' cs -> avail cs (cmax c')).
    { intros c' Hc' y ys E. destruct (Hnext c' (or_intror Hc') y ys E) as (d & [<-|Hd] & Ed); [|eauto].
      exfalso. pose proof (drop_lt_head_ge _ _ _ _ E) as Hy.
      rewrite Forall_forall in Hgood'. destruct (good_facts c' (Hgood' _ Hc')) as (Hc'le & _).
      specialize (Hle _ Hc'). lia. }
    cbn [greedy]. destruct (last <? cmin c) eqn:Et.
    + (* c is taken: it starts exactly at the first sample after last *)
      assert (Hin : In x (drop_lt (last + 1) L)) by (apply in_drop_lt; auto; lia).
      destruct (drop_lt (last + 1) L) as [|y ys] eqn:E; [destruct Hin|].
      destruct (Hav y ys E) as (d & Hd & Ed).
      assert (Hcd : cmin c <= cmin d) by (destruct Hd as [<-|Hd]; [lia|apply Hle; exact Hd]).
      assert (Hyx : fst y <= fst x).
      { destruct Hin as [<-|Hin]; [lia|].
        assert (HSd : SS (y :: ys)) by (rewrite <- E; apply drop_lt_SS; exact HL).
        pose proof (SS_tail_gt _ _ _ HSd Hin). lia. }
      assert (Ey : fst y = cmin c) by lia.
      cbn [map concat]. rewrite (IH (cmax c) Hsort Hgood').
      * destruct Hc as [_ Hseg]. rewrite Hseg.
        rewrite <- drop_lt_split by (auto; lia).
        (* [last+1..] = [cmin c..] because its head is at cmin c *)
        rewrite <- E. rewrite <- (drop_lt_drop_lt (last + 1) (cmin c) L) by lia.
        rewrite E. apply drop_lt_keep. lia.
      * intros y' ys' E'. destruct (Hnext c (or_introl eq_refl) y' ys' E') as (d' & [<-|Hd'] & Ed'); [|eauto].
        exfalso. pose proof (drop_lt_head_ge _ _ _ _ E'). lia.
      * exact Hnext'.
    + (* c is skipped *)
      apply IH; auto.
      intros y ys E. destruct (Hav y ys E) as (d & [<-|Hd] & Ed); [|eauto].
      exfalso. pose proof (drop_lt_head_ge _ _ _ _ E). lia.
Qed.
End Cover.

(* ---------- the stream of any pseudo-replica is increasing and made of chunk samples ---------- *)
Lemma last_t_bound : forall c x, SS (x :: c) -> forall y, In y (x :: c) -> fst y <= last_t (fst x) c.
Proof. intros c x HS. apply (last_t_ge c x HS). Qed.

Lemma chunk_iter_from_SS : forall cs thr,
  Forall SS cs ->
  SS (chunk_iter_from thr cs) /\ Forall (fun x => thr <= fst x) (chunk_iter_from thr cs).
Proof.
  induction cs as [|c cs IH]; intros thr HF; simpl.
  - split; constructor.
  - inversion HF as [|? ? Hc HF']; subst.
    destruct (drop_lt thr c) as [|x c'] eqn:E.
    + apply IH. assumption.
    + assert (HSd : SS (x :: c')) by (rewrite <- E; apply drop_lt_SS; assumption).
      pose proof (drop_lt_head_ge _ _ _ _ E) as Hx.
      destruct (IH (last_t (fst x) c' + 1) HF') as [HS2 HF2]. rewrite Forall_forall in HF2.
      split.
      * change (x :: c' ++ chunk_iter_from (last_t (fst x) c' + 1) cs)
          with ((x :: c') ++ chunk_iter_from (last_t (fst x) c' + 1) cs).
        apply SS_app; auto. intros a b Ha Hb.
        pose proof (last_t_bound c' x HSd a Ha). specialize (HF2 _ Hb). lia.
      * apply Forall_forall. intros y Hy.
        change (x :: c' ++ chunk_iter_from (last_t (fst x) c' + 1) cs)
          with ((x :: c') ++ chunk_iter_from (last_t (fst x) c' + 1) cs) in Hy.
        apply in_app_or in Hy as [Hy|Hy].
        -- destruct Hy as [<-|Hy]; [lia|]. pose proof (SS_tail_gt _ _ _ HSd Hy). lia.
        -- specialize (HF2 _ Hy). pose proof (last_t_bound c' x HSd x (or_introl eq_refl)). lia.
Qed.

Lemma chunk_iter_from_in : forall cs thr y,
  In y (chunk_iter_from thr cs) -> exists c, In c cs /\ In y c.
Proof.
  induction cs as [|c cs IH]; intros thr y Hy; simpl in Hy; [contradiction|].
  destruct (drop_lt thr c) as [|x c'] eqn:E.
  - destruct (IH _ _ Hy) as (c0 & H1 & H2). exists c0. split; [right|]; assumption.
  - change (x :: c' ++ chunk_iter_from (last_t (fst x) c' + 1) cs)
      with ((x :: c') ++ chunk_iter_from (last_t (fst x) c' + 1) cs) in Hy.
    apply in_app_or in Hy as [Hy|Hy].
    + exists c. split; [left; reflexivity|]. eapply sub_in; [apply (drop_lt_sub thr)|]. rewrite E. exact Hy.
    + destruct (IH _ _ Hy) as (c0 & H1 & H2). exists c0. split; [right|]; assumption.
Qed.

Lemma greedy_in : forall cs last c, In c (greedy last cs) -> In c cs.
Proof.
  induction cs as [|c0 cs IH]; intros last c H; simpl in H; [contradiction|].
  destruct (last <? cmin c0).
  - destruct H as [<-|H]; [left; reflexivity|right; eapply IH; eauto].
  - right. eapply IH; eauto.
Qed.

(* ---------- the split of identical replicas with non-overlapping cuts ---------- *)
Lemma split_complete L cs y0 ys0 :
  rawstream L -> L = y0 :: ys0 -> cs <> [] ->
  StronglySorted (fun c d => cmin c <= cmin d) cs ->
  Forall (good L) cs ->
  avail L cs (fst y0 - 1) -> (forall c, In c cs -> avail L cs (cmax c)) ->
  exists ws, map chunk_iter (overlap_split cs) = L :: ws /\ Forall (fun w => sub w L) ws.
Proof.
  intros [HS HM] EL Hne Hsort Hgood Hav Hnext.
  destruct cs as [|c0 rest]; [congruence|].
  destruct (overlap_split_first c0 rest) as [others Eo].
  pose proof (overlap_split_partition (c0 :: rest) Hne) as [Hperm _].
  rewrite Eo in *. cbn [map].
  exists (map chunk_iter others). split.
  - f_equal.
    (* the first pseudo-replica is the greedy chain from the first sample *)
    assert (Hg0 : good L c0) by (inversion Hgood; assumption).
    destruct (good_facts L HS c0 Hg0) as (_ & x & Hx & Ex).
    assert (Hfirst : fst y0 <= fst x).
    { rewrite EL in Hx, HS. destruct Hx as [<-|Hx]; [lia|]. pose proof (SS_tail_gt _ _ _ HS Hx). lia. }
    assert (Eg : c0 :: greedy (cmax c0) rest = greedy (fst y0 - 1) (c0 :: rest)).
    { cbn [greedy]. destruct (fst y0 - 1 <? cmin c0) eqn:E; [reflexivity|lia]. }
    rewrite Eg.
    pose proof (greedy_cover L HS (c0 :: rest) (fst y0 - 1) Hsort Hgood Hav Hnext) as Hcov.
    replace (fst y0 - 1 + 1) with (fst y0) in Hcov by lia.
    rewrite (drop_lt_keep (fst y0) L) in Hcov by (rewrite EL; lia).
    unfold chunk_iter. rewrite chunk_iter_concat.
    + exact Hcov.
    + rewrite Hcov. exact HS.
    + apply Forall_forall. intros s Hs. apply in_map_iff in Hs as (c & <- & Hc).
      apply greedy_in in Hc. rewrite Forall_forall in Hgood.
      destruct (Hgood _ Hc) as [(x0 & r0 & E0 & _) _]. rewrite E0. discriminate.
    + rewrite Hcov. rewrite Forall_forall in HM. intros y Hy. specialize (HM _ Hy). lia.
  - apply Forall_forall. intros w Hw. apply in_map_iff in Hw as (r & <- & Hr).
    assert (Hrc : forall c, In c r -> In c (c0 :: rest)).
    { intros c Hc. eapply Permutation_in; [exact Hperm|].
      apply in_concat. exists r. split; [right; exact Hr|exact Hc]. }
    rewrite Forall_forall in Hgood.
    assert (HSS : Forall SS (map csamples r)).
    { apply Forall_forall. intros s Hs. apply in_map_iff in Hs as (c & <- & Hc).
      destruct (Hgood _ (Hrc _ Hc)) as [_ Hseg]. rewrite Hseg.
      eapply SS_sub; [apply in_range_sub|exact HS]. }
    apply sorted_sublist; [exact HS| |].
    + apply (chunk_iter_from_SS _ (MinT + 1) HSS).
    + intros y Hy. apply chunk_iter_from_in in Hy as (s & Hs & Hys).
      apply in_map_iff in Hs as (c & <- & Hc).
      destruct (Hgood _ (Hrc _ Hc)) as [_ Hseg]. rewrite Hseg in Hys.
      eapply sub_in; [apply in_range_sub|exact Hys].
Qed.

(* ---------- from the logical description ---------- *)
Lemma wf_same_samples c d : wf c -> wf d -> csamples c = csamples d -> cmin c = cmin d /\ cmax c = cmax d.
Proof.
  intros (x & r & E & H1 & H2) (x' & r' & E' & H1' & H2') Es.
  rewrite E, E' in Es. injection Es as <- <-. split; congruence.
Qed.

(* what the proxy hands over for one logical series whose replicas all hold L:
   only chunks of the replicas, and the samples of every replica chunk *)
Definition proxy_rel (chunks_of_reps : list (list chunk)) (cs : list chunk) : Prop :=
  (forall c, In c cs -> exists ds, In ds chunks_of_reps /\ In c ds) /\
  (forall ds d, In ds chunks_of_reps -> In d ds -> exists c, In c cs /\ csamples c = csamples d).

Lemma logical_props L reps cs y0 ys0 :
  rawstream L -> L = y0 :: ys0 -> reps <> [] ->
  Forall (cut L) reps -> proxy_rel reps cs ->
  Forall (good L) cs /\ avail L cs (fst y0 - 1) /\ (forall c, In c cs -> avail L cs (cmax c)) /\ cs <> [].
Proof.
  intros [HS HM] EL Hne Hcuts [Hsub Hsup]. rewrite Forall_forall in Hcuts.
  assert (Hgood : forall c, In c cs -> good L c).
  { intros c Hc. destruct (Hsub c Hc) as (ds & Hds & Hcd).
    pose proof (Hcuts _ Hds) as Hcut.
    destruct (cut_props ds L [] Hcut HS c Hcd) as [Hseg _]. split; [|exact Hseg].
    destruct Hcut as [_ Hwf]. rewrite Forall_forall in Hwf. auto. }
  assert (Hwfd : forall ds d, In ds reps -> In d ds -> wf d).
  { intros ds d Hds Hd. destruct (Hcuts _ Hds) as [_ Hwf]. rewrite Forall_forall in Hwf. auto. }
  assert (Hav0 : avail L cs (fst y0 - 1)).
  { intros y ys E. replace (fst y0 - 1 + 1) with (fst y0) in E by lia.
    rewrite (drop_lt_keep (fst y0) L) in E by (rewrite EL; lia).
    destruct reps as [|ds0 reps']; [congruence|].
    destruct (cut_first L ds0 y ys (Hcuts _ (or_introl eq_refl)) E) as (d & Hd & Ed).
    destruct (Hsup ds0 d (or_introl eq_refl) Hd) as (c & Hc & Ec).
    exists c. split; [exact Hc|].
    destruct (wf_same_samples c d (proj1 (Hgood c Hc)) (Hwfd _ _ (or_introl eq_refl) Hd) Ec). congruence. }
  split; [apply Forall_forall; exact Hgood|]. split; [exact Hav0|]. split.
  - intros c Hc y ys E. destruct (Hsub c Hc) as (ds & Hds & Hcd).
    destruct (cut_props ds L [] (Hcuts _ Hds) HS c Hcd) as [_ Hnext].
    destruct (Hnext y ys E) as (d' & Hd' & Ed').
    destruct (Hsup ds d' Hds Hd') as (c' & Hc' & Ec').
    exists c'. split; [exact Hc'|].
    destruct (wf_same_samples c' d' (proj1 (Hgood c' Hc')) (Hwfd _ _ Hds Hd') Ec'). congruence.
  - intros ->. destruct (Hav0 y0 ys0) as (d & [] & _).
    replace (fst y0 - 1 + 1) with (fst y0) by lia. rewrite EL. apply drop_lt_keep. lia.
Qed.

(* ---------- bridging the boolean checks of the correspondence ---------- *)
Lemma sample_eqb_iff x y : sample_eqb x y = true <-> x = y.
Proof.
  split; [apply sample_eqb_eq|]. intros ->. destruct y. unfold sample_eqb. simpl. rewrite !Z.eqb_refl. reflexivity.
Qed.

Lemma samples_eqb_iff a b : samples_eqb a b = true <-> a = b.
Proof. apply list_eqb_spec. apply sample_eqb_iff. Qed.

Lemma chunk_eqb_eq c d : chunk_eqb c d = true -> c = d.
Proof.
  destruct c, d. unfold chunk_eqb. simpl. intros H.
  apply andb_true_iff in H as [H H3]. apply andb_true_iff in H as [H1 H2].
  apply Z.eqb_eq in H1. apply Z.eqb_eq in H2. apply samples_eqb_iff in H3. subst. reflexivity.
Qed.

Lemma chunks_sorted_SS : forall cs, chunks_sorted cs = true -> StronglySorted (fun c d => cmin c <= cmin d) cs.
Proof.
  induction cs as [|c cs IH]; intros H; [constructor|].
  destruct cs as [|d cs'].
  - constructor; constructor.
  - cbn [chunks_sorted] in H. apply andb_true_iff in H as [H1 H2].
    specialize (IH H2). constructor; [exact IH|].
    assert (Hcd : cmin c <= cmin d).
    { apply orb_true_iff in H1 as [H1|H1]; [lia|]. apply andb_true_iff in H1 as [H1 _]. lia. }
    constructor; [exact Hcd|].
    apply StronglySorted_inv in IH as [_ HF]. rewrite Forall_forall in *. intros e He. specialize (HF _ He). lia.
Qed.

Lemma proxy_bools_rel all_reps cs :
  forallb (fun c => mem_chunk c (concat all_reps)) cs = true ->
  forallb (fun c => mem_samples (csamples c) cs) (concat all_reps) = true ->
  proxy_rel all_reps cs.
Proof.
  intros H1 H2. rewrite forallb_forall in H1, H2. split.
  - intros c Hc. specialize (H1 c Hc). unfold mem_chunk in H1. apply existsb_exists in H1 as (d & Hd & E).
    apply chunk_eqb_eq in E. subst d. apply in_concat in Hd as (ds & Hds & Hcd). eauto.
  - intros ds d Hds Hd.
    assert (Hin : In d (concat all_reps)) by (apply in_concat; eauto).
    specialize (H2 d Hin). unfold mem_samples in H2. apply existsb_exists in H2 as (c & Hc & E).
    apply samples_eqb_iff in E. eauto.
Qed.
