(* C04 — proofs about the read-path model of Model/C04.v. *)
From Coq Require Import ZArith List Bool NArith Lia Sorting.Sorted Permutation.
Import ListNotations.
From Verif Require Import Lib.Corr Gen.C04 Model.C04.
Open Scope Z_scope.

(* ---------- strictly increasing streams, subsequences ---------- *)
Definition lt_s (x y : sample) : Prop := fst x < fst y.
Definition SS (l : list sample) : Prop := StronglySorted lt_s l.

Inductive sub : list sample -> list sample -> Prop :=
| sub_nil : forall l, sub [] l
| sub_skip : forall x l1 l2, sub l1 l2 -> sub l1 (x :: l2)
| sub_take : forall x l1 l2, sub l1 l2 -> sub (x :: l1) (x :: l2).

Lemma sub_refl l : sub l l.
Proof. induction l; [apply sub_nil | apply sub_take; assumption]. Qed.

Lemma sub_nil_r B : sub B [] -> B = [].
Proof. inversion 1; reflexivity. Qed.

Lemma sub_in B A y : sub B A -> In y B -> In y A.
Proof.
  induction 1; simpl; intros Hin; auto.
  - contradiction.
  - destruct Hin; auto.
Qed.

Lemma sub_trans A B C : sub A B -> sub B C -> sub A C.
Proof.
  intros H1 H2. revert A H1. induction H2; intros A H1.
  - apply sub_nil_r in H1. subst. apply sub_nil.
  - apply sub_skip. auto.
  - inversion H1; subst; [apply sub_nil | apply sub_skip; auto | apply sub_take; auto].
Qed.

Lemma drop_lt_sub t B : sub (drop_lt t B) B.
Proof.
  induction B as [|y B IH]; simpl; [constructor|].
  destruct (fst y <? t); [apply sub_skip; exact IH | apply sub_refl].
Qed.

Lemma SS_inv x l : SS (x :: l) -> SS l /\ Forall (lt_s x) l.
Proof. intros H. apply StronglySorted_inv in H. exact H. Qed.

Lemma SS_sub B A : sub B A -> SS A -> SS B.
Proof.
  induction 1; intros HS.
  - constructor.
  - apply SS_inv in HS as [HS _]. auto.
  - apply SS_inv in HS as [HS HF]. apply SSorted_cons; [apply IHsub; exact HS|].
    apply Forall_forall. intros y Hy. rewrite Forall_forall in HF. apply HF. eapply sub_in; eauto.
Qed.

Lemma drop_lt_keep thr l : match l with [] => True | y :: _ => thr <= fst y end -> drop_lt thr l = l.
Proof. destruct l as [|y r]; simpl; auto. intros H. destruct (fst y <? thr) eqn:E; [lia|reflexivity]. Qed.

Lemma drop_lt_head_gone x A thr : SS (x :: A) -> fst x < thr -> drop_lt thr (x :: A) = drop_lt thr A.
Proof. intros _ H. simpl. destruct (fst x <? thr) eqn:E; [reflexivity|lia]. Qed.

Lemma drop_lt_next x A : SS (x :: A) -> drop_lt (fst x + 1) (x :: A) = A.
Proof.
  intros HS. rewrite drop_lt_head_gone by (auto; lia).
  apply drop_lt_keep. apply SS_inv in HS as [_ HF]. destruct A as [|y A]; auto.
  inversion HF; subst. unfold lt_s in *. lia.
Qed.

Lemma sub_drop B x A thr : sub B (x :: A) -> SS (x :: A) -> fst x < thr -> sub (drop_lt thr B) A.
Proof.
  intros Hs HS Hlt. inversion Hs; subst.
  - simpl. constructor.
  - eapply sub_trans; [apply drop_lt_sub | assumption].
  - rewrite drop_lt_head_gone by (eauto using SS_sub; lia).
    eapply sub_trans; [apply drop_lt_sub | assumption].
Qed.

Lemma sub_head_ge z B y A : sub (z :: B) (y :: A) -> SS (y :: A) -> fst y <= fst z.
Proof.
  intros Hs HS. assert (Hin : In z (y :: A)) by (eapply sub_in; eauto; left; reflexivity).
  destruct Hin as [->|Hin]; [lia|].
  apply SS_inv in HS as [_ HF]. rewrite Forall_forall in HF. specialize (HF _ Hin). unfold lt_s in HF. lia.
Qed.

Lemma drop_lt_SS t l : SS l -> SS (drop_lt t l).
Proof. intros. eapply SS_sub; [apply drop_lt_sub | assumption]. Qed.

Lemma drop_lt_drop_lt_head t x R : fst x < t -> drop_lt t (x :: R) = drop_lt t R.
Proof. intros H. simpl. destruct (fst x <? t) eqn:E; [reflexivity|lia]. Qed.

(* ---------- in_range on sorted streams ---------- *)
Lemma in_range_all_gt mint maxt l : Forall (fun y => maxt < fst y) l -> in_range mint maxt l = [].
Proof.
  induction 1 as [|y l Hy _ IH]; simpl; [reflexivity|].
  destruct (fst y <=? maxt) eqn:E; [lia|]. rewrite andb_false_r. exact IH.
Qed.

Lemma in_range_all_lt mint maxt l : Forall (fun y => fst y < mint) l -> in_range mint maxt l = [].
Proof.
  induction 1 as [|y l Hy _ IH]; simpl; [reflexivity|].
  destruct (mint <=? fst y) eqn:E; [lia|]. simpl. exact IH.
Qed.

Lemma in_range_empty_interval mint maxt l : maxt < mint -> in_range mint maxt l = [].
Proof.
  intros H. induction l as [|y l IH]; simpl; [reflexivity|].
  destruct (mint <=? fst y) eqn:E1, (fst y <=? maxt) eqn:E2; simpl; try exact IH. lia.
Qed.

Lemma SS_tail_gt x l y : SS (x :: l) -> In y l -> fst x < fst y.
Proof. intros HS Hin. apply SS_inv in HS as [_ HF]. rewrite Forall_forall in HF. exact (HF _ Hin). Qed.

Lemma in_range_drop_lt mint maxt l : SS l -> in_range mint maxt (drop_lt mint l) = in_range mint maxt l.
Proof.
  induction l as [|y l IH]; simpl; intros HS; [reflexivity|].
  destruct (fst y <? mint) eqn:E.
  - rewrite IH by (apply SS_inv in HS; tauto).
    destruct (mint <=? fst y) eqn:E1; [lia|]. reflexivity.
  - reflexivity.
Qed.

Lemma drop_lt_all_lt mint l : drop_lt mint l = [] -> Forall (fun y => fst y < mint) l.
Proof.
  induction l as [|y l IH]; simpl; intros H; [constructor|].
  destruct (fst y <? mint) eqn:E; [|discriminate]. constructor; [lia|auto].
Qed.

Lemma sub_in_range mint maxt B A : sub B A -> sub (in_range mint maxt B) (in_range mint maxt A).
Proof.
  induction 1; simpl.
  - constructor.
  - destruct ((mint <=? fst x) && (fst x <=? maxt)); [apply sub_skip|]; assumption.
  - destruct ((mint <=? fst x) && (fst x <=? maxt)); [apply sub_take|]; assumption.
Qed.

Lemma in_range_sub mint maxt l : sub (in_range mint maxt l) l.
Proof.
  induction l as [|y l IH]; simpl; [constructor|].
  destruct ((mint <=? fst y) && (fst y <=? maxt)); [apply sub_take | apply sub_skip]; assumption.
Qed.

Section Bounds.
Variables mint maxt : Z.
Notation next := (next mint maxt).
Notation seek := (seek mint maxt).
Notation inr := (in_range mint maxt).

(* a stream as seen through the bounds: strictly increasing, inside [mint, maxt], above MinInt64 *)
Definition okstream (R : list sample) : Prop :=
  SS R /\ Forall (fun x => mint <= fst x <= maxt /\ MinT < fst x) R.

Lemma okstream_tl x R : okstream (x :: R) -> okstream R.
Proof. intros [HS HF]. split; [apply SS_inv in HS; tauto | inversion HF; auto]. Qed.

Lemma okstream_sub B A : sub B A -> okstream A -> okstream B.
Proof.
  intros Hs [HS HF]. split; [eapply SS_sub; eauto|].
  rewrite Forall_forall in *. intros y Hy. apply HF. eapply sub_in; eauto.
Qed.

(* the raw stream of a leaf: strictly increasing, above MinInt64 *)
Definition rawstream (l : list sample) : Prop := SS l /\ Forall (fun x => MinT < fst x) l.

Lemma okstream_inr l : rawstream l -> okstream (inr l).
Proof.
  intros [HS HF]. split; [eapply SS_sub; [apply in_range_sub|assumption]|].
  rewrite Forall_forall in *. intros y Hy. unfold in_range in Hy. apply filter_In in Hy as [Hin Hc].
  apply andb_true_iff in Hc as [H1 H2]. specialize (HF _ Hin). lia.
Qed.

(* [RepS i R]: i is a started iterator positioned on the head of the non-empty
   stream R and behaves like a list iterator over R *)
Inductive RepS : it -> list sample -> Prop :=
| RepS_leaf : forall x r,
    rawstream (x :: r) -> mint <= fst x -> fst x <= maxt ->
    RepS (Leaf true (x :: r)) (inr (x :: r))
| RepS_node : forall a b bv pb x R,
    RepS a (x :: R) -> okstream (x :: R) -> 0 <= pb ->
    (bv = true -> exists B, RepS b B /\ sub B (x :: R)) ->
    RepS (Node a b true bv (fst x) true 0 pb true) (x :: R).

Lemma RepS_nonempty i R : RepS i R -> exists x R', R = x :: R' /\ atT i = fst x /\ at_ i = x /\ okstream R.
Proof.
  induction 1 as [x r Hraw H1 H2 | a b bv pb x R Ha IH Hok Hpb Hb].
  - exists x, (inr r). repeat split.
    + simpl. destruct (mint <=? fst x) eqn:E1, (fst x <=? maxt) eqn:E2; try lia. reflexivity.
    + apply okstream_inr. assumption.
    + apply okstream_inr. assumption.
  - destruct IH as (x' & R' & E & Ht & Ha' & _). injection E as <- <-.
    exists x, R. repeat split; simpl; auto; apply Hok.
Qed.

Lemma inr_cons_in x r : mint <= fst x -> fst x <= maxt -> inr (x :: r) = x :: inr r.
Proof.
  intros H1 H2. simpl. destruct (mint <=? fst x) eqn:E1, (fst x <=? maxt) eqn:E2; try lia. reflexivity.
Qed.

Lemma rawstream_tl x r : rawstream (x :: r) -> rawstream r.
Proof. intros [HS HF]. split; [apply SS_inv in HS; tauto | inversion HF; auto]. Qed.

Lemma raw_tail_ge x y r : rawstream (x :: y :: r) -> fst x < fst y.
Proof. intros [HS _]. eapply SS_tail_gt; eauto. left. reflexivity. Qed.

Lemma inr_head_gt y r : rawstream (y :: r) -> maxt < fst y -> inr (y :: r) = [].
Proof.
  intros [HS _] H. apply in_range_all_gt. constructor; [assumption|].
  rewrite Forall_forall. intros z Hz. pose proof (SS_tail_gt _ _ _ HS Hz). lia.
Qed.

(* drop_lt on the raw stream commutes with the bounds *)
Lemma inr_drop_lt t l : rawstream l -> inr (drop_lt t l) = drop_lt t (inr l).
Proof.
  induction l as [|y l IH]; intros Hraw; [reflexivity|].
  pose proof (rawstream_tl _ _ Hraw) as Htl.
  simpl drop_lt at 1. destruct (fst y <? t) eqn:E.
  - rewrite IH by assumption. simpl in_range.
    destruct ((mint <=? fst y) && (fst y <=? maxt)); [|reflexivity].
    simpl. rewrite E. reflexivity.
  - simpl in_range. destruct ((mint <=? fst y) && (fst y <=? maxt)) eqn:E2.
    + simpl. rewrite E. reflexivity.
    + (* y outside the bounds and >= t: everything kept by inr is also >= t *)
      symmetry. apply drop_lt_keep.
      destruct (inr l) as [|z r'] eqn:Ez; [exact I|].
      assert (Hin : In z l).
      { eapply sub_in; [apply (in_range_sub mint maxt)|]. rewrite Ez. left. reflexivity. }
      destruct Hraw as [HS _]. pose proof (SS_tail_gt _ _ _ HS Hin). lia.
Qed.

(* unfolding equations *)
Lemma next_leaf f s l :
  next (S f) (Leaf s l) =
  let l1 := if s then tl l else l in
  match l1 with
  | [] => Some (Leaf true [], false)
  | x :: _ =>
      if fst x <? mint then
        if maxt <? mint then Some (Leaf true l1, false)
        else match drop_lt mint l1 with
             | [] => Some (Leaf true [], false)
             | y :: r => Some (Leaf true (y :: r), fst y <=? maxt)
             end
      else Some (Leaf true l1, fst x <=? maxt)
  end.
Proof. reflexivity. Qed.

Lemma seek_leaf f t s l :
  seek (S f) t (Leaf s l) =
  if maxt <? t then Some (Leaf s l, false)
  else let l2 := drop_lt (Z.max t mint) l in
       Some (Leaf true l2, match l2 with [] => false | y :: _ => fst y <=? maxt end).
Proof. reflexivity. Qed.

Lemma next_node f a b av bv lastT la pa pb ua :
  next (S f) (Node a b av bv lastT la pa pb ua) =
  match (if av then seek f (lastT + 1 + pa) a else Some (a, false)) with
  | None => None
  | Some (a', av') =>
    match (if bv then seek f (lastT + 1 + pb) b else Some (b, false)) with
    | None => None
    | Some (b', bv') =>
      if negb av' then
        if bv' then Some (Node a' b' av' bv' (atT b') false pa 0 false, true)
        else Some (Node a' b' av' bv' lastT la pa pb false, false)
      else if negb bv' then Some (Node a' b' av' bv' (atT a') true 0 pb true, true)
      else
        let ta := atT a' in
        let tb := atT b' in
        if ta <=? tb then
          Some (Node a' b' true true ta true 0 (if lastT =? MinT then initialPenalty else penaltyFactor * (ta - lastT)) true, true)
        else
          Some (Node a' b' true true tb false (if lastT =? MinT then initialPenalty else penaltyFactor * (tb - lastT)) 0 false, true)
    end
  end.
Proof. reflexivity. Qed.

Lemma seek_node f t a b av bv lastT la pa pb ua :
  seek (S f) t (Node a b av bv lastT la pa pb ua) =
  let i := Node a b av bv lastT la pa pb ua in
  if lastT =? MinT then
    match next f i with
    | None => None
    | Some (i', false) => Some (i', false)
    | Some (i', true) => seek f t i'
    end
  else
  let ts := atT i in
  if t <=? ts then
    if ua then
      match seek f ts a with
      | Some (a', v) => Some (Node a' b av bv lastT la pa pb ua, v)
      | None => None
      end
    else
      match seek f ts b with
      | Some (b', v) => Some (Node a b' av bv lastT la pa pb ua, v)
      | None => None
      end
  else
    match next f i with
    | None => None
    | Some (i', false) => Some (i', false)
    | Some (i', true) => seek f t i'
    end.
Proof. reflexivity. Qed.

(* ---------- partial correctness of Next / Seek, by induction on the fuel ---------- *)
Definition spec_next (f : nat) : Prop :=
  forall i R i' v, RepS i R -> next f i = Some (i', v) ->
    v = nonempty (tl R) /\ (v = true -> RepS i' (tl R)).

Definition spec_seek (f : nat) : Prop :=
  forall i R t i' v, RepS i R -> seek f t i = Some (i', v) ->
    v = nonempty (drop_lt t R) /\ (v = true -> RepS i' (drop_lt t R)).

Lemma pen_nonneg lastT t : lastT < t -> 0 <= (if lastT =? MinT then initialPenalty else penaltyFactor * (t - lastT)).
Proof.
  intros H. destruct (lastT =? MinT); [vm_compute; discriminate|].
  unfold penaltyFactor. lia.
Qed.

Lemma leaf_next_started x r i' v f :
  rawstream (x :: r) -> mint <= fst x -> fst x <= maxt ->
  next (S f) (Leaf true (x :: r)) = Some (i', v) ->
  v = nonempty (inr r) /\ (v = true -> RepS i' (inr r)).
Proof.
  intros Hraw H1 H2 H. rewrite next_leaf in H. destruct r as [|y r]; cbn [tl] in H; cbv zeta in H.
  - injection H as <- <-. simpl. split; [reflexivity|discriminate].
  - pose proof (raw_tail_ge _ _ _ Hraw) as Hxy.
    destruct (fst y <? mint) eqn:E; [lia|].
    injection H as <- <-. pose proof (rawstream_tl _ _ Hraw) as Htl.
    destruct (fst y <=? maxt) eqn:E2.
    + rewrite inr_cons_in by lia. split; [reflexivity|]. intros _.
      rewrite <- inr_cons_in by lia. constructor; auto; lia.
    + rewrite inr_head_gt by (auto; lia). split; [reflexivity|discriminate].
Qed.

Lemma leaf_seek_started x r t i' v f :
  rawstream (x :: r) -> mint <= fst x -> fst x <= maxt ->
  seek (S f) t (Leaf true (x :: r)) = Some (i', v) ->
  v = nonempty (drop_lt t (inr (x :: r))) /\ (v = true -> RepS i' (drop_lt t (inr (x :: r)))).
Proof.
  intros Hraw H1 H2 H. rewrite seek_leaf in H.
  destruct (maxt <? t) eqn:Et.
  - injection H as <- <-.
    assert (Hnil : drop_lt t (inr (x :: r)) = []).
    { destruct (drop_lt t (inr (x :: r))) as [|z zr] eqn:Ez; [reflexivity|].
      assert (Hin : In z (inr (x :: r))) by (eapply sub_in; [apply drop_lt_sub|]; rewrite Ez; left; reflexivity).
      pose proof (okstream_inr _ Hraw) as [_ HF]. rewrite Forall_forall in HF. specialize (HF _ Hin).
      assert (Hz : t <= fst z).
      { clear -Ez. revert Ez. induction (inr (x :: r)) as [|w l IH]; simpl; [discriminate|].
        destruct (fst w <? t) eqn:E; [exact IH|]. intros H. injection H as -> _. lia. }
      lia. }
    rewrite Hnil. split; [reflexivity|discriminate].
  - (* all raw samples from the current one on are >= mint *)
    assert (Hmax : drop_lt (Z.max t mint) (x :: r) = drop_lt t (x :: r)).
    { destruct (Z.max_spec t mint) as [[Hlt ->]|[Hle ->]]; [|reflexivity].
      rewrite drop_lt_keep by (simpl; lia).
      symmetry. apply drop_lt_keep. simpl. lia. }
    cbv zeta in H. rewrite Hmax in H.
    rewrite <- inr_drop_lt by assumption.
    pose proof (drop_lt_SS t _ (proj1 Hraw)) as HSd.
    destruct (drop_lt t (x :: r)) as [|y r'] eqn:Ed; injection H as <- <-.
    + simpl. split; [reflexivity|discriminate].
    + assert (Hsubd : sub (y :: r') (x :: r)) by (rewrite <- Ed; apply drop_lt_sub).
      assert (Hrawd : rawstream (y :: r')).
      { split; [assumption|]. destruct Hraw as [_ HF]. rewrite Forall_forall in *.
        intros z Hz. apply HF. eapply sub_in; eauto. }
      assert (Hy : mint <= fst y).
      { assert (Hin : In y (x :: r)) by (eapply sub_in; eauto; left; reflexivity).
        destruct Hin as [->|Hin]; [lia|]. pose proof (SS_tail_gt _ _ _ (proj1 Hraw) Hin). lia. }
      destruct (fst y <=? maxt) eqn:E2.
      * rewrite inr_cons_in by lia. split; [reflexivity|]. intros _.
        rewrite <- inr_cons_in by lia. constructor; auto; lia.
      * rewrite inr_head_gt by (auto; lia). split; [reflexivity|discriminate].
Qed.

Lemma specs : forall f, spec_next f /\ spec_seek f.
Proof.
  induction f as [|f [IHn IHs]]; [split; intros ? ? ? ? ? ?; simpl; discriminate|].
  assert (Hnext : spec_next (S f)).
  { intros i R i' v HR H. destruct HR as [x r Hraw H1 H2 | a b bv pb x R Ha Hok Hpb Hb].
    - rewrite inr_cons_in by lia. simpl tl. eapply leaf_next_started; eauto.
    - rewrite next_node in H.
      destruct (seek f (fst x + 1 + 0) a) as [[a' av']|] eqn:Ea; [|discriminate].
      destruct (IHs _ _ _ _ _ Ha Ea) as [Hav Ha'].
      replace (fst x + 1 + 0) with (fst x + 1) in * by lia.
      rewrite (drop_lt_next x R (proj1 Hok)) in Hav, Ha'.
      pose proof (okstream_tl _ _ Hok) as HokR.
      (* the second iterator *)
      assert (Hbres : exists b' bv', (if bv then seek f (fst x + 1 + pb) b else Some (b, false)) = Some (b', bv')
                        /\ (bv' = true -> exists B', RepS b' B' /\ sub B' R /\ B' <> [])).
      { destruct bv.
        - destruct (Hb eq_refl) as (B & HB & Hsub).
          destruct (seek f (fst x + 1 + pb) b) as [[b' bv']|] eqn:Eb.
          + exists b', bv'. split; [reflexivity|]. intros Hv.
            destruct (IHs _ _ _ _ _ HB Eb) as [Hbv HB']. specialize (HB' Hv).
            exists (drop_lt (fst x + 1 + pb) B). split; [assumption|]. split.
            * eapply sub_drop; eauto. apply Hok. lia.
            * rewrite Hv in Hbv. destruct (drop_lt (fst x + 1 + pb) B); [discriminate|congruence].
          + discriminate H.
        - exists b, false. split; [reflexivity|discriminate]. }
      destruct Hbres as (b' & bv' & Eb & Hb').
      rewrite Eb in H.
      destruct R as [|y R'].
      + (* first iterator exhausted: so is the second *)
        simpl in Hav. subst av'. simpl in H.
        destruct bv'.
        * destruct (Hb' eq_refl) as (B' & _ & Hsub & Hne). apply sub_nil_r in Hsub. contradiction.
        * injection H as <- <-. simpl. split; [reflexivity|discriminate].
      + simpl in Hav. subst av'. specialize (Ha' eq_refl). simpl in H.
        destruct (RepS_nonempty _ _ Ha') as (y0 & R0 & E0 & HatT & Hat & _). injection E0 as <- <-.
        assert (Hxy : fst x < fst y).
        { destruct Hok as [HS _]. eapply SS_tail_gt; eauto. left. reflexivity. }
        destruct bv'.
        * destruct (Hb' eq_refl) as (B' & HB' & Hsub & Hne).
          destruct (RepS_nonempty _ _ HB') as (z & B0 & E1 & HbT & _ & _). subst B'.
          pose proof (sub_head_ge _ _ _ _ Hsub (proj1 HokR)) as Hge.
          simpl in H. rewrite HatT, HbT in H.
          destruct (fst y <=? fst z) eqn:El; [|lia].
          injection H as <- <-. simpl. split; [reflexivity|]. intros _.
          constructor; auto.
          -- apply pen_nonneg. assumption.
          -- intros _. exists (z :: B0). auto.
        * simpl in H. injection H as <- <-. simpl. split; [reflexivity|]. intros _.
          rewrite HatT. constructor; auto. discriminate. }
  split; [exact Hnext|].
  intros i R t i' v HR H. destruct HR as [x r Hraw H1 H2 | a b bv pb x R Ha Hok Hpb Hb].
  - eapply leaf_seek_started; eauto.
  - assert (HR : RepS (Node a b true bv (fst x) true 0 pb true) (x :: R)) by (constructor; auto).
    rewrite seek_node in H. cbv zeta in H.
    assert (HxM : (fst x =? MinT) = false).
    { apply Z.eqb_neq. destruct Hok as [_ HF]. inversion HF; subst. lia. }
    rewrite HxM in H.
    destruct (RepS_nonempty _ _ Ha) as (x0 & R0 & E0 & HatT & _ & _). injection E0 as <- <-.
    cbn [atT] in H. rewrite HatT in H.
    destruct (t <=? fst x) eqn:Et.
    + destruct (seek f (fst x) a) as [[a' v']|] eqn:Ea; [|discriminate].
      injection H as <- <-.
      destruct (IHs _ _ _ _ _ Ha Ea) as [Hv Ha'].
      rewrite (drop_lt_keep (fst x) (x :: R)) in Hv, Ha' by (simpl; lia).
      rewrite (drop_lt_keep t (x :: R)) by (simpl; lia).
      split; [assumption|]. intros Hv'. constructor; auto.
    + destruct (next f (Node a b true bv (fst x) true 0 pb true)) as [[i1 v1]|] eqn:En; [|discriminate].
      destruct (IHn _ _ _ _ HR En) as [Hv1 Hi1]. simpl tl in Hv1, Hi1.
      rewrite drop_lt_drop_lt_head by lia.
      destruct v1.
      * eapply IHs; eauto.
      * injection H as <- <-. destruct R; [simpl; split; [reflexivity|discriminate]|discriminate].
Qed.

(* ---------- unstarted iterators ---------- *)
Inductive RepU : it -> list sample -> Prop :=
| RepU_leaf : forall l, rawstream l -> RepU (Leaf false l) (inr l)
| RepU_node : forall a b av bv SA SB,
    okstream SA -> sub SB SA ->
    av = nonempty SA -> (av = true -> RepS a SA) ->
    bv = nonempty SB -> (bv = true -> RepS b SB) ->
    RepU (Node a b av bv MinT true 0 0 true) SA.

Lemma nonempty_true {A} (l : list A) : nonempty l = true -> l <> [].
Proof. destruct l; [discriminate|congruence]. Qed.

Lemma next_unstarted f i S i' v :
  RepU i S -> next f i = Some (i', v) -> v = nonempty S /\ (v = true -> RepS i' S).
Proof.
  destruct f as [|f]; [simpl; discriminate|].
  destruct (specs f) as [IHn IHs].
  intros HU H. destruct HU as [l Hraw | a b av bv SA SB Hok Hsub Hav Ha Hbv Hb].
  - rewrite next_leaf in H. cbv zeta in H. destruct l as [|x r].
    + injection H as <- <-. simpl. split; [reflexivity|discriminate].
    + destruct (fst x <? mint) eqn:E.
      * destruct (maxt <? mint) eqn:Em.
        -- injection H as <- <-. rewrite in_range_empty_interval by lia. split; [reflexivity|discriminate].
        -- rewrite <- (in_range_drop_lt mint maxt (x :: r)) by apply Hraw.
           pose proof (drop_lt_SS mint _ (proj1 Hraw)) as HSd.
           destruct (drop_lt mint (x :: r)) as [|y r'] eqn:Ed.
           ++ injection H as <- <-. simpl. split; [reflexivity|discriminate].
           ++ injection H as <- <-.
              assert (Hsubd : sub (y :: r') (x :: r)) by (rewrite <- Ed; apply drop_lt_sub).
              assert (Hrawd : rawstream (y :: r')).
              { split; [assumption|]. destruct Hraw as [_ HF]. rewrite Forall_forall in *.
                intros z Hz. apply HF. eapply sub_in; eauto. }
              assert (Hy : mint <= fst y).
              { clear -Ed. revert Ed. generalize (x :: r). induction l as [|w l IH]; simpl; [discriminate|].
                destruct (fst w <? mint) eqn:E; [exact IH|]. intros H. injection H as -> _. lia. }
              destruct (fst y <=? maxt) eqn:E2.
              ** rewrite inr_cons_in by lia. split; [reflexivity|]. intros _.
                 rewrite <- inr_cons_in by lia. constructor; auto; lia.
              ** rewrite inr_head_gt by (auto; lia). split; [reflexivity|discriminate].
      * injection H as <- <-. destruct (fst x <=? maxt) eqn:E2.
        -- rewrite inr_cons_in by lia. split; [reflexivity|]. intros _.
           rewrite <- inr_cons_in by lia. constructor; auto; lia.
        -- rewrite inr_head_gt by (auto; lia). split; [reflexivity|discriminate].
  - rewrite next_node in H.
    destruct SA as [|x R].
    + simpl in Hav. subst av. apply sub_nil_r in Hsub. subst SB. simpl in Hbv. subst bv.
      simpl in H. injection H as <- <-. split; [reflexivity|discriminate].
    + simpl in Hav. subst av. specialize (Ha eq_refl).
      assert (Hx : MinT < fst x) by (destruct Hok as [_ HF]; inversion HF; lia).
      destruct (seek f (MinT + 1 + 0) a) as [[a' av']|] eqn:Ea; [|discriminate].
      destruct (IHs _ _ _ _ _ Ha Ea) as [Hav' Ha'].
      rewrite (drop_lt_keep _ (x :: R)) in Hav', Ha' by (cbv beta iota; lia).
      simpl in Hav'. subst av'. specialize (Ha' eq_refl).
      destruct (RepS_nonempty _ _ Ha') as (x0 & R0 & E0 & HatT & _ & _). injection E0 as <- <-.
      destruct SB as [|z B0].
      * simpl in Hbv. subst bv. simpl in H. injection H as <- <-. simpl. split; [reflexivity|]. intros _.
        rewrite HatT. constructor; auto; [lia|discriminate].
      * simpl in Hbv. subst bv. specialize (Hb eq_refl).
        assert (Hz : MinT < fst z).
        { destruct Hok as [_ HF]. rewrite Forall_forall in HF.
          assert (In z (x :: R)) by (eapply sub_in; eauto; left; reflexivity). specialize (HF _ H0). lia. }
        destruct (seek f (MinT + 1 + 0) b) as [[b' bv']|] eqn:Eb; [|discriminate].
        destruct (IHs _ _ _ _ _ Hb Eb) as [Hbv' Hb'].
        rewrite (drop_lt_keep _ (z :: B0)) in Hbv', Hb' by (cbv beta iota; lia).
        simpl in Hbv'. subst bv'. specialize (Hb' eq_refl).
        destruct (RepS_nonempty _ _ Hb') as (z0 & B1 & E1 & HbT & _ & _). injection E1 as <- <-.
        pose proof (sub_head_ge _ _ _ _ Hsub (proj1 Hok)) as Hge.
        simpl in H. rewrite HatT, HbT in H.
        destruct (fst x <=? fst z) eqn:El; [|lia].
        injection H as <- <-. simpl. split; [reflexivity|]. intros _.
        constructor; auto.
        -- change (MinT =? MinT) with true. cbv iota. vm_compute. discriminate.
        -- intros _. exists (z :: B0). auto.
Qed.

Lemma mk_node_rep f a b SA SB n :
  RepU a SA -> RepU b SB -> sub SB SA -> okstream SA ->
  mk_node mint maxt f a b = Some n -> RepU n SA.
Proof.
  intros Ha Hb Hsub Hok H. unfold mk_node in H.
  destruct (next f a) as [[a' av]|] eqn:Ea; [|discriminate].
  destruct (next f b) as [[b' bv]|] eqn:Eb; [|discriminate].
  injection H as <-.
  destruct (next_unstarted _ _ _ _ _ Ha Ea) as [Hav Ha'].
  destruct (next_unstarted _ _ _ _ _ Hb Eb) as [Hbv Hb'].
  econstructor; eauto.
Qed.

Lemma RepU_okstream i S : RepU i S -> okstream S.
Proof. destruct 1; auto. apply okstream_inr. assumption. Qed.

Lemma build_rep f : forall ws acc SA i,
  RepU acc SA ->
  Forall (fun w => rawstream w /\ sub (inr w) SA) ws ->
  build mint maxt f acc ws = Some i -> RepU i SA.
Proof.
  induction ws as [|w ws IH]; simpl; intros acc SA i Hacc HF H.
  - injection H as <-. assumption.
  - inversion HF as [|? ? [Hraw Hsub] HF']; subst.
    destruct (mk_node mint maxt f acc (Leaf false w)) as [n|] eqn:En; [|discriminate].
    eapply IH; [|eassumption|eassumption].
    eapply (mk_node_rep f acc (Leaf false w) SA (inr w));
      [exact Hacc | constructor; exact Hraw | exact Hsub | eapply RepU_okstream; eauto | exact En].
Qed.

Lemma drain_started f : forall n i R out,
  RepS i R -> drain mint maxt f n i = Some out -> out = tl R.
Proof.
  destruct f as [|f]; [intros [|n] ? ? ? ?; simpl; discriminate|].
  destruct (specs (S f)) as [IHn _].
  induction n as [|n IH]; simpl; intros i R out HR H; [discriminate|].
  destruct (next (S f) i) as [[i' v]|] eqn:En; [|discriminate].
  destruct (IHn _ _ _ _ HR En) as [Hv Hi'].
  destruct v.
  - specialize (Hi' eq_refl).
    destruct (drain mint maxt (S f) n i') as [r|] eqn:Ed; [|discriminate].
    injection H as <-. rewrite (IH _ _ _ Hi' Ed).
    destruct (RepS_nonempty _ _ Hi') as (y & R' & E & _ & Hat & _). rewrite Hat, E. reflexivity.
  - injection H as <-. destruct (tl R); [reflexivity|discriminate].
Qed.

Lemma drain_unstarted f n i S out :
  RepU i S -> drain mint maxt f n i = Some out -> out = S.
Proof.
  destruct n as [|n]; simpl; intros HU H; [discriminate|].
  destruct (next f i) as [[i' v]|] eqn:En; [|discriminate].
  destruct (next_unstarted _ _ _ _ _ HU En) as [Hv Hi'].
  destruct v.
  - specialize (Hi' eq_refl).
    destruct (drain mint maxt f n i') as [r|] eqn:Ed; [|discriminate].
    injection H as <-. rewrite (drain_started _ _ _ _ _ Hi' Ed).
    destruct (RepS_nonempty _ _ Hi') as (y & R' & E & _ & Hat & _). rewrite Hat, E. reflexivity.
  - injection H as <-. destruct S; [reflexivity|discriminate].
Qed.

(* The penalty algorithm on a complete first stream and partial other streams:
   whenever the first (pseudo-)replica holds a strictly increasing stream w0 and
   every other one holds a subsequence of it, the deduplicated series is exactly
   w0 restricted to [mint, maxt]. *)
Lemma series_samples_first_complete w0 ws out :
  rawstream w0 -> Forall (fun w => sub w w0) ws ->
  series_samples mint maxt (w0 :: ws) = Some out -> out = inr w0.
Proof.
  intros Hraw HF H. unfold series_samples in H.
  destruct (build mint maxt (fuel_of (w0 :: ws)) (Leaf false w0) ws) as [i|] eqn:Eb; [|discriminate].
  eapply drain_unstarted; [|exact H].
  eapply build_rep; [constructor; exact Hraw| |exact Eb].
  rewrite Forall_forall in *. intros w Hw. specialize (HF _ Hw). split.
  - split; [eapply SS_sub; eauto; apply Hraw|].
    destruct Hraw as [_ HM]. rewrite Forall_forall in *. intros z Hz. apply HM. eapply sub_in; eauto.
  - apply sub_in_range. assumption.
Qed.
End Bounds.

(* ---------- chunkSeriesIterator over non-overlapping cuts ---------- *)
Lemma last_t_app d l : forall x, last_t d (l ++ [x]) = fst x.
Proof. revert d. induction l as [|y l IH]; simpl; intros d x; [reflexivity|apply IH]. Qed.

Lemma SS_app_inv l1 l2 : SS (l1 ++ l2) -> SS l1 /\ SS l2 /\ (forall a b, In a l1 -> In b l2 -> fst a < fst b).
Proof.
  induction l1 as [|x l1 IH]; simpl; intros HS.
  - repeat split; [constructor|assumption|intros ? ? []].
  - apply SS_inv in HS as [HS HF]. destruct (IH HS) as (H1 & H2 & H3).
    repeat split; auto.
    + apply SSorted_cons; auto. apply Forall_forall. intros y Hy. rewrite Forall_forall in HF.
      apply HF. apply in_or_app. auto.
    + intros a b [<-|Ha] Hb; [|auto]. rewrite Forall_forall in HF. apply HF. apply in_or_app. auto.
Qed.

Lemma last_t_mem : forall c x, exists y, In y (x :: c) /\ fst y = last_t (fst x) c.
Proof.
  induction c as [|z c IH]; intros x; simpl.
  - exists x. auto.
  - destruct (IH z) as (y & Hy & E). exists y. split; [right; exact Hy|exact E].
Qed.

(* chunks that are consecutive, non-empty pieces of a strictly increasing stream *)
Lemma chunk_iter_concat : forall cs thr,
  SS (concat cs) -> Forall (fun c => c <> []) cs ->
  (forall y, In y (concat cs) -> thr <= fst y) ->
  chunk_iter_from thr cs = concat cs.
Proof.
  induction cs as [|c cs IH]; simpl; intros thr HS HN Hthr; [reflexivity|].
  inversion HN as [|? ? Hc HN']; subst.
  destruct c as [|x c]; [congruence|].
  rewrite drop_lt_keep by (cbv beta iota; apply Hthr; left; reflexivity).
  apply SS_app_inv in HS as (H1 & H2 & H3).
  change ((x :: c) ++ concat cs) with (x :: (c ++ concat cs)).
  change ((x :: c) ++ chunk_iter_from (last_t (fst x) c + 1) cs) with (x :: (c ++ chunk_iter_from (last_t (fst x) c + 1) cs)).
  do 2 f_equal.
  apply IH; auto.
  intros y Hy. destruct (last_t_mem c x) as (z & Hz & E).
  specialize (H3 z y Hz Hy). lia.
Qed.

(* ---------- reflexivity of the deciders, grouping ---------- *)
Lemma str_eqb_refl s : str_eqb s s = true.
Proof. apply list_eqb_spec; [intros; apply N.eqb_eq|reflexivity]. Qed.

Lemma labels_eqb_refl ls : labels_eqb ls ls = true.
Proof.
  apply list_eqb_spec; [|reflexivity]. intros [a b] [c d]. unfold label_eqb. simpl.
  rewrite andb_true_iff. unfold str_eqb. rewrite !list_eqb_spec by (intros; apply N.eqb_eq).
  split; [intros [-> ->]; reflexivity | intros E; injection E; auto].
Qed.

Lemma group_adj_same ls w0 ws :
  group_adj (map (fun w => (ls, w)) (w0 :: ws)) = [(ls, w0 :: ws)].
Proof.
  revert w0. induction ws as [|w ws IH]; intros w0; [reflexivity|].
  change (map (fun w1 => (ls, w1)) (w0 :: w :: ws)) with ((ls, w0) :: map (fun w1 => (ls, w1)) (w :: ws)).
  cbn [group_adj]. rewrite IH. rewrite labels_eqb_refl. reflexivity.
Qed.

(* One logical series behind the proxy, dedup on: if the first pseudo-replica made
   by the overlap split holds the complete stream w0 and the others hold
   subsequences of it, Select returns exactly one series with w0 cut to the range. *)
Lemma select_dedup_first_complete mint maxt ls cs w0 ws out :
  map chunk_iter (overlap_split cs) = w0 :: ws ->
  rawstream w0 -> Forall (fun w => sub w w0) ws ->
  select mint maxt true [(ls, cs)] = Some out ->
  out = [(ls, in_range mint maxt w0)].
Proof.
  intros Hsplit Hraw HF H. unfold select in H. cbn [flat_map fst snd] in H.
  rewrite app_nil_r in H.
  rewrite <- (map_map chunk_iter (fun w => (ls, w))) in H. rewrite Hsplit in H.
  rewrite group_adj_same in H. cbn [map fst snd sequence] in H.
  destruct (series_samples mint maxt (w0 :: ws)) as [w|] eqn:E; [|discriminate].
  injection H as <-. rewrite (series_samples_first_complete _ _ _ _ _ Hraw HF E). reflexivity.
Qed.

(* dedup off *)
Lemma select_plain mint maxt : forall po out,
  Forall (fun s => rawstream (chunk_iter (snd s))) po ->
  select mint maxt false po = Some out ->
  out = map (fun s => (fst s, in_range mint maxt (chunk_iter (snd s)))) po.
Proof.
  unfold select. induction po as [|s po IH]; cbn [map sequence]; intros out HF H.
  - injection H as <-. reflexivity.
  - inversion HF as [|? ? Hs HF']; subst.
    destruct (series_samples mint maxt [chunk_iter (snd s)]) as [w|] eqn:E; [|discriminate].
    destruct (sequence (map _ po)) as [r|] eqn:Er; [|discriminate].
    injection H as <-. rewrite (IH _ HF' eq_refl).
    rewrite (series_samples_first_complete _ _ _ _ _ Hs (Forall_nil _) E). reflexivity.
Qed.

(* a replica whose chunks are consecutive non-empty pieces of its strictly
   increasing samples L: the chunk iterator yields L *)
Lemma chunk_iter_cuts cs L :
  concat (map csamples cs) = L -> Forall (fun c => csamples c <> []) cs ->
  SS L -> Forall (fun x => MinT < fst x) L ->
  chunk_iter cs = L.
Proof.
  intros Hc HN HS HM. unfold chunk_iter. rewrite chunk_iter_concat; [assumption| | |].
  - rewrite Hc. assumption.
  - rewrite Forall_forall in *. intros c Hin. apply in_map_iff in Hin as (d & <- & Hd). auto.
  - rewrite Hc. rewrite Forall_forall in HM. intros y Hy. specialize (HM _ Hy). lia.
Qed.

(* ---------- overlapSplitSet: every chunk lands in exactly one pseudo-replica,
   and inside a pseudo-replica consecutive chunks do not overlap ---------- *)
(* reversed representation: head = last chunk *)
Fixpoint chain_rev (r : list chunk) : Prop :=
  match r with
  | [] => True
  | c :: r' => match r' with [] => True | p :: _ => cmax p < cmin c end /\ chain_rev r'
  end.

Lemma place_perm c : forall reps, Permutation (concat (place c reps)) (c :: concat reps).
Proof.
  induction reps as [|r reps IH]; simpl; [reflexivity|].
  destruct r as [|l r']; simpl; [reflexivity|].
  destruct (cmax l <? cmin c); simpl; [reflexivity|].
  rewrite IH. rewrite !app_comm_cons. change (c :: l :: r' ++ concat reps) with ((c :: l :: r') ++ concat reps).
  apply Permutation_sym. etransitivity; [apply Permutation_middle with (l1 := l :: r')|]. reflexivity.
Qed.

Lemma place_chain c : forall reps, Forall chain_rev reps -> Forall chain_rev (place c reps).
Proof.
  induction reps as [|r reps IH]; simpl; intros HF.
  - constructor; [simpl; auto|constructor].
  - inversion HF as [|? ? Hr HF']; subst. destruct r as [|l r'].
    + constructor; [simpl; auto|assumption].
    + destruct (cmax l <? cmin c) eqn:E.
      * constructor; [|assumption]. simpl. split; [lia|exact Hr].
      * constructor; [assumption|auto].
Qed.

Lemma fold_place_inv : forall rest reps,
  Forall chain_rev reps ->
  Forall chain_rev (fold_left (fun reps c => place c reps) rest reps)
  /\ Permutation (concat (fold_left (fun reps c => place c reps) rest reps)) (rev rest ++ concat reps).
Proof.
  induction rest as [|c rest IH]; simpl; intros reps HF.
  - split; [assumption|reflexivity].
  - destruct (IH (place c reps) (place_chain c reps HF)) as [H1 H2]. split; [assumption|].
    rewrite H2. rewrite place_perm. rewrite <- app_assoc. simpl.
    apply Permutation_app_head. reflexivity.
Qed.

(* forward order: consecutive chunks of a pseudo-replica are strictly apart *)
Fixpoint chain (r : list chunk) : Prop :=
  match r with
  | [] => True
  | c :: r' => match r' with [] => True | n :: _ => cmax c < cmin n end /\ chain r'
  end.

Lemma chain_snoc r c : chain r -> match rev r with [] => True | l :: _ => cmax l < cmin c end -> chain (r ++ [c]).
Proof.
  induction r as [|x r IH]; simpl; intros H Hl; [auto|].
  destruct H as [Hx Hr]. split.
  - destruct r as [|n r']; simpl in *; [|exact Hx].
    exact Hl.
  - apply IH; [assumption|]. destruct (rev r) eqn:E; simpl in Hl.
    + destruct r; [exact I|]. simpl in E. destruct (rev r); discriminate.
    + exact Hl.
Qed.

Lemma chain_rev_chain r : chain_rev r -> chain (rev r).
Proof.
  induction r as [|c r IH]; simpl; intros H; [exact I|].
  destruct H as [Hc Hr]. apply chain_snoc; [auto|]. rewrite rev_involutive. exact Hc.
Qed.

Lemma overlap_split_partition cs :
  cs <> [] ->
  Permutation (concat (overlap_split cs)) cs /\ Forall chain (overlap_split cs).
Proof.
  destruct cs as [|c0 rest]; [congruence|]. intros _. unfold overlap_split.
  destruct (fold_place_inv rest [[c0]]) as [H1 H2]; [constructor; [simpl; auto|constructor]|].
  split.
  - set (reps := fold_left (fun reps c => place c reps) rest [[c0]]) in *.
    assert (Hrev : Permutation (concat (map (@rev chunk) reps)) (concat reps)).
    { clear. induction reps as [|r reps IH]; simpl; [reflexivity|].
      apply Permutation_app; [apply Permutation_sym, Permutation_rev|exact IH]. }
    rewrite Hrev, H2. simpl.
    etransitivity; [apply Permutation_app_comm|]. simpl. constructor.
    apply Permutation_sym, Permutation_rev.
  - rewrite Forall_forall in *. intros r Hr. apply in_map_iff in Hr as (r0 & <- & Hr0).
    apply chain_rev_chain. auto.
Qed.

(* a decider for subsequences (used for witnesses) *)
Fixpoint subb (b a : list sample) : bool :=
  match b, a with
  | [], _ => true
  | _ :: _, [] => false
  | x :: b', y :: a' => if sample_eqb x y then subb b' a' else subb b a'
  end.

Lemma sample_eqb_eq x y : sample_eqb x y = true -> x = y.
Proof.
  destruct x, y. unfold sample_eqb. simpl. intros H. apply andb_true_iff in H as [H1 H2].
  apply Z.eqb_eq in H1. apply Z.eqb_eq in H2. subst. reflexivity.
Qed.

Lemma subb_sound : forall a b, subb b a = true -> sub b a.
Proof.
  induction a as [|y a IH]; intros [|x b] H; simpl in H; try discriminate; try apply sub_nil.
  destruct (sample_eqb x y) eqn:E.
  - apply sample_eqb_eq in E. subst. apply sub_take. auto.
  - apply sub_skip. auto.
Qed.
