(* C10 — proofs about the selection model: chunk time filter, posting groups. *)
From Coq Require Import ZArith NArith List Bool Lia Sorted.
Import ListNotations.
From Verif Require Import Lib.Corr Lib.Storegw_Str Gen.C10 Model.C10.
Open Scope Z_scope.

(* ---------- membership ---------- *)
Lemma smem_in v l : smem v l = true <-> In v l.
Proof.
  induction l as [|a l IH]; simpl; [split; [discriminate|tauto]|].
  rewrite orb_true_iff, IH, str_eqb_eq. split; intros [H|H]; auto.
Qed.

Lemma smem_ext v l1 l2 : (forall x, In x l1 <-> In x l2) -> smem v l1 = smem v l2.
Proof.
  intro H. destruct (smem v l1) eqn:E1, (smem v l2) eqn:E2; try reflexivity.
  - apply smem_in in E1. apply H in E1. apply smem_in in E1. congruence.
  - apply smem_in in E2. apply H in E2. apply smem_in in E2. congruence.
Qed.

Lemma sinsert_in x y l : In y (sinsert x l) <-> y = x \/ In y l.
Proof.
  induction l as [|a l IH]; simpl; [intuition congruence|].
  destruct (str_leb x a); simpl; [intuition congruence|]. rewrite IH. intuition.
Qed.

Lemma ssort_in y l : In y (ssort l) <-> In y l.
Proof. induction l as [|a l IH]; simpl; [tauto|]. rewrite sinsert_in, IH. intuition congruence. Qed.

Lemma scompact_in y : forall l, In y (scompact l) <-> In y l.
Proof.
  induction l as [|a l IH]; [tauto|]. cbn [scompact]. destruct l as [|b l']; [tauto|].
  destruct (str_eqb a b) eqn:E.
  - apply str_eqb_eq in E. subst b. rewrite IH. simpl. intuition.
  - change (In y (a :: scompact (b :: l')) <-> In y (a :: b :: l')). simpl. simpl in IH. rewrite IH. tauto.
Qed.

Lemma smem_sorted_sets v l : smem v (scompact (ssort l)) = smem v l.
Proof. apply smem_ext. intro x. rewrite scompact_in, ssort_in. tauto. Qed.

Lemma smem_filter v f l : smem v (filter f l) = smem v l && f v.
Proof.
  induction l as [|a l IH]; simpl; [reflexivity|].
  destruct (f a) eqn:Ea; simpl; rewrite IH.
  - destruct (str_eqb v a) eqn:E; simpl; [|reflexivity]. apply str_eqb_eq in E. subst a. rewrite Ea. reflexivity.
  - destruct (str_eqb v a) eqn:E; simpl; [|reflexivity]. apply str_eqb_eq in E. subst a. rewrite Ea.
    rewrite andb_false_r. reflexivity.
Qed.

(* ---------- decodeSeriesForTime ---------- *)
Definition overlaps (mint maxt : Z) (c : chunk) : bool :=
  let '(cmin, cmax, _) := c in (cmin <=? maxt) && (mint <=? cmax).

Definition cmin_of (c : chunk) : Z := fst (fst c).

(* chunks of a series are ordered by start time; once one starts after the queried range
   every later one does too, so the early [break] loses nothing *)
Lemma chunks_for_filter : forall cs mint maxt,
  StronglySorted (fun a b => cmin_of a <= cmin_of b) cs ->
  chunks_for cs mint maxt = filter (overlaps mint maxt) cs.
Proof.
  induction cs as [|[[cmin cmax] h] cs IH]; intros mint maxt Hs; [reflexivity|].
  inversion Hs as [|? ? Hs' Hall]; subst.
  cbn [chunks_for filter overlaps]. unfold chunk_break_cond, chunk_keep_cond.
  destruct (cmin >? maxt) eqn:E1.
  - rewrite Z.gtb_ltb in E1. apply Z.ltb_lt in E1.
    replace (cmin <=? maxt) with false by (symmetry; apply Z.leb_gt; lia). cbn [andb].
    (* nothing later overlaps either *)
    symmetry. clear IH Hs Hs'. induction cs as [|[[c2 c3] h2] cs IH2]; [reflexivity|].
    inversion Hall as [|? ? H1 H2]; subst. unfold cmin_of in H1. simpl in H1.
    cbn [filter overlaps]. replace (c2 <=? maxt) with false by (symmetry; apply Z.leb_gt; lia). cbn [andb].
    apply IH2. exact H2.
  - rewrite Z.gtb_ltb in E1. apply Z.ltb_ge in E1.
    replace (cmin <=? maxt) with true by (symmetry; apply Z.leb_le; lia). cbn [andb].
    rewrite Z.geb_leb. destruct (mint <=? cmax); rewrite IH by exact Hs'; reflexivity.
Qed.

(* ---------- toPostingGroup ---------- *)
Definition in_group (g : group) (v : str) : bool :=
  if g_all g then negb (smem v (g_rem g)) else smem v (g_add g).

(* what Prometheus matchers guarantee (labels.Matcher / FastRegexMatcher contracts) *)
Definition coherent (m : matcher) : Prop :=
  match m_type m with
  | MEq => forall v, m_fun m v = str_eqb v (m_value m)
  | MNeq => forall v, m_fun m v = negb (str_eqb v (m_value m))
  | MRe => (m_sets m <> [] -> forall v, m_fun m v = smem v (m_sets m))
           /\ (m_value m = dot_star -> forall v, m_fun m v = true)
           /\ (m_value m = dot_plus -> forall v, m_fun m v = negb (is_nil v))
           /\ (m_value m = [] -> forall v, m_fun m v = is_nil v)
  | MNre => (m_sets m <> [] -> forall v, m_fun m v = negb (smem v (m_sets m)))
            /\ (m_value m = dot_star -> forall v, m_fun m v = false)
            /\ (m_value m = dot_plus -> forall v, m_fun m v = is_nil v)
            /\ (m_value m = [] -> forall v, m_fun m v = negb (is_nil v))
  end.

Lemma is_nil_eqb (v : str) : is_nil v = str_eqb v [].
Proof. destruct v; reflexivity. Qed.

Lemma is_nil_true {A} (l : list A) : is_nil l = true -> l = [].
Proof. destruct l; [reflexivity|discriminate]. Qed.

Lemma is_nil_false {A} (l : list A) : is_nil l = false -> l <> [].
Proof. destruct l; [discriminate|]. intros _ H. discriminate. Qed.

Ltac R := unfold in_group; cbn [mtype_eqb andb orb negb g_all g_add g_rem]; rewrite ?andb_false_r; cbn [mtype_eqb andb orb negb g_all g_add g_rem].

Lemma group_sem m vals v :
  coherent m -> smem [] vals = false -> (smem v vals = true \/ v = []) ->
  in_group (to_group m vals) v = m_fun m v.
Proof.
  intros Hc Hne Hv. unfold to_group.
  assert (Hvals : smem v vals = negb (is_nil v)).
  { destruct Hv as [H | ->]; [|simpl; exact Hne]. rewrite H. destruct v; [congruence|reflexivity]. }
  unfold coherent in Hc.
  destruct (m_type m) eqn:Et; cbn [mtype_eqb andb orb negb].
  - (* = *)
    destruct (m_fun m []) eqn:E0.
    + rewrite Hc in E0. destruct (is_nil (m_value m)) eqn:En.
      * apply is_nil_true in En. R. rewrite Hvals, Hc, En, <- is_nil_eqb.
        rewrite negb_involutive. reflexivity.
      * apply is_nil_false in En. exfalso. apply En. symmetry. apply str_eqb_eq. exact E0.
    + R. cbn [smem negb]. rewrite Hc, orb_false_r. reflexivity.
  - (* != *)
    destruct (m_fun m []) eqn:E0.
    + R. cbn [smem negb]. rewrite Hc, orb_false_r. reflexivity.
    + rewrite Hc in E0. apply negb_false_iff in E0. apply str_eqb_eq in E0.
      rewrite <- E0. cbn [is_nil]. R. rewrite Hvals, Hc, <- E0, <- is_nil_eqb. reflexivity.
  - (* =~ *)
    destruct Hc as (Hsets & Hstar & Hplus & Hempty).
    destruct (str_eqb (m_value m) dot_star) eqn:Es.
    { apply str_eqb_eq in Es. R. cbn [smem negb]. rewrite Hstar by exact Es. reflexivity. }
    destruct (m_fun m []) eqn:E0.
    + destruct (is_nil (m_value m)) eqn:En.
      * apply is_nil_true in En. R. rewrite Hvals, Hempty by exact En.
        rewrite negb_involutive. reflexivity.
      * R. rewrite smem_filter, Hvals.
        destruct v as [|x v']; cbn [is_nil negb andb]; [rewrite E0; reflexivity|].
        rewrite negb_involutive. reflexivity.
    + destruct (is_nil (m_sets m)) eqn:Esets; cbn [negb].
      * destruct (str_eqb (m_value m) dot_plus) eqn:Ep.
        -- apply str_eqb_eq in Ep. R. rewrite Hvals, Hplus by exact Ep. reflexivity.
        -- R. rewrite smem_filter, Hvals.
           destruct v as [|x v']; cbn [is_nil negb andb]; [rewrite E0; reflexivity|reflexivity].
      * apply is_nil_false in Esets. R.
        rewrite smem_sorted_sets, Hsets by exact Esets. reflexivity.
  - (* !~ *)
    destruct Hc as (Hsets & Hstar & Hplus & Hempty).
    destruct (str_eqb (m_value m) dot_star) eqn:Es.
    { apply str_eqb_eq in Es. R. cbn [smem negb]. rewrite Hstar by exact Es. reflexivity. }
    destruct (m_fun m []) eqn:E0.
    + destruct (is_nil (m_sets m)) eqn:Esets; cbn [negb].
      * destruct (str_eqb (m_value m) dot_plus) eqn:Ep.
        -- apply str_eqb_eq in Ep. R. rewrite Hvals, Hplus by exact Ep.
           rewrite negb_involutive. reflexivity.
        -- R. rewrite smem_filter, Hvals.
           destruct v as [|x v']; cbn [is_nil negb andb]; [rewrite E0; reflexivity|].
           rewrite negb_involutive. reflexivity.
      * apply is_nil_false in Esets. R.
        rewrite smem_sorted_sets, Hsets by exact Esets. reflexivity.
    + destruct (is_nil (m_value m)) eqn:En.
      * apply is_nil_true in En. R. rewrite Hvals, Hempty by exact En. reflexivity.
      * R. rewrite smem_filter, Hvals.
        destruct v as [|x v']; cbn [is_nil negb andb]; [rewrite E0; reflexivity|reflexivity].
Qed.

(* ---------- tie T: the order of the tests in toPostingGroup is the one modelled ---------- *)
Require Import Coq.Strings.String.
Lemma to_posting_group_tests_order :
  to_posting_group_tests =
  [("if", "m.Type == labels.MatchRegexp && m.Value == "".*""");
   ("if", "m.Type == labels.MatchNotRegexp && m.Value == "".*""");
   ("if", "m.Matches("""")");
   ("if", "m.Type == labels.MatchNotRegexp");
   ("if", "m.Type == labels.MatchNotEqual");
   ("if", "m.Value == """" && (m.Type == labels.MatchEqual || m.Type == labels.MatchRegexp)");
   ("if", "m.Type == labels.MatchNotRegexp && m.Value == "".+""");
   ("if", "m.Type == labels.MatchRegexp");
   ("if", "m.Type == labels.MatchEqual");
   ("if", "m.Value == """" && (m.Type == labels.MatchNotEqual || m.Type == labels.MatchNotRegexp)");
   ("if", "m.Type == labels.MatchRegexp && m.Value == "".+""")]%string.
Proof. reflexivity. Qed.
