(* C31 — lemmas about the duplicate-block filter model (Model/C31.v). *)
From Coq Require Import ZArith List Bool Lia Arith Permutation Sorting.Sorted ZifyBool.
Import ListNotations.
From Verif Require Import Lib.Corr Gen.C31 Model.C31.
Open Scope Z_scope.

(* ---- membership / contains ------------------------------------------------ *)

Lemma mem_In x l : mem x l = true <-> In x l.
Proof.
  unfold mem. rewrite existsb_exists. split.
  - intros (y & Hy & E). apply Z.eqb_eq in E. now subst.
  - intros H. exists x. split; auto. apply Z.eqb_refl.
Qed.

Lemma mem_false x l : mem x l = false <-> ~ In x l.
Proof. rewrite <- mem_In. destruct (mem x l); split; congruence. Qed.

Lemma contains_incl s1 s2 : contains s1 s2 = true <-> incl s2 s1.
Proof.
  unfold contains, incl. rewrite forallb_forall. split; intros H a Ha.
  - apply mem_In, H, Ha.
  - apply mem_In, H, Ha.
Qed.

Lemma subset_incl a b : subset a b = true <-> incl a b.
Proof. unfold subset, incl. rewrite forallb_forall. split; intros H x Hx; apply mem_In, H, Hx. Qed.

(* ---- the childLoop ---------------------------------------------------------- *)

Lemma NoDup_bid_eq (l : list blk) x y : NoDup (map bid l) -> In x l -> In y l -> bid x = bid y -> x = y.
Proof.
  induction l as [|a l IH]; simpl; intros Hn Hx Hy E; [contradiction|].
  inversion Hn; subst. destruct Hx as [->|Hx], Hy as [->|Hy]; auto.
  - exfalso. apply H1. rewrite E. now apply in_map.
  - exfalso. apply H1. rewrite <- E. now apply in_map.
Qed.

Lemma child_loop_spec l : forall cov k d, NoDup (map bid l) -> child_loop cov l = (k, d) ->
  (forall i, In i d -> exists c, In c l /\ bid c = i /\ exists p, In p k /\ contains (srcs p) (srcs c) = true)
  /\ (forall p, In p k <-> In p cov \/ (In p l /\ ~ In (bid p) d)).
Proof.
  induction l as [|c r IH]; intros cov k d Hn H; simpl in H.
  - inversion H; subst. split; [intros i []|]. intros p. simpl. tauto.
  - inversion Hn as [|? ? Hc Hr]; subst.
    destruct (covered cov c) eqn:Cv.
    + destruct (child_loop cov r) as [k' d'] eqn:CL. inversion H; subst.
      destruct (IH cov k d' Hr CL) as [Ha Hb]. split.
      * intros i [<-|Hi].
        -- exists c. split; [left; auto|]. split; auto.
           unfold covered in Cv. apply existsb_exists in Cv. destruct Cv as (p & Hp & Hcont).
           exists p. split; auto. apply Hb. left; auto.
        -- destruct (Ha i Hi) as (c' & Hc' & E & p & Hp & Hcont). exists c'. split; [right; auto|]. eauto.
      * intros p. rewrite Hb. simpl. split.
        -- intros [Hp|[Hp Hnd]]; auto. right. split; auto. intros [E|Hd]; auto.
           apply Hc. rewrite E. now apply in_map.
        -- intros [Hp|[[->|Hp] Hnd]]; auto.
           ++ exfalso. apply Hnd. left; auto.
           ++ right. split; auto.
    + destruct (IH (c :: cov) k d Hr H) as [Ha Hb]. split.
      * intros i Hi. destruct (Ha i Hi) as (c' & Hc' & E & p & Hp & Hcont). exists c'. split; [right; auto|]. eauto.
      * intros p. rewrite Hb. simpl. split.
        -- intros [[->|Hp]|[Hp Hnd]]; auto. right. split; auto. intros Hd.
           destruct (Ha _ Hd) as (c' & Hc' & E & _). apply Hc. rewrite <- E. now apply in_map.
        -- intros [Hp|[[->|Hp] Hnd]]; auto.
Qed.

(* ---- the sort -------------------------------------------------------------- *)

Lemma insert_perm x l : Permutation (insert x l) (x :: l).
Proof.
  induction l as [|y r IH]; simpl; auto.
  destruct (before x y); auto. rewrite IH. apply perm_swap.
Qed.

Lemma isort_perm l : Permutation (isort l) l.
Proof. induction l as [|x l IH]; simpl; auto. rewrite insert_perm. now constructor. Qed.

(* not (b before a) *)
Definition le (a b : blk) : Prop := before b a = false.

Lemma if_bool (c x y : bool) : (if c then x else y) = (c && x) || (negb c && y).
Proof. destruct c, x, y; reflexivity. Qed.

(* ULID.Compare(...) < 0 is "smaller ULID" *)
Lemma ulid_first_spec x y : filterGroup_ulid_first (ulid_cmp x y) = (x <? y).
Proof.
  unfold filterGroup_ulid_first, ulid_cmp.
  destruct (Z.compare_spec x y); destruct (Z.ltb_spec x y); try reflexivity; lia.
Qed.

(* the comparator as a boolean formula over integers; the arithmetic is then left to lia *)
Ltac before_tac :=
  unfold le, before in *; rewrite ?if_bool, ?ulid_first_spec in *;
  unfold filterGroup_tie, filterGroup_len_first, filterGroup_level_differs, filterGroup_level_first in *;
  lia.

Lemma le_trans a b c : le a b -> le b c -> le a c.
Proof. intros H1 H2. before_tac. Qed.

Lemma before_le a b : before a b = true -> le a b.
Proof. intros H. before_tac. Qed.

Lemma le_antisym a b : le a b -> le b a -> bid a = bid b.
Proof. intros H1 H2. before_tac. Qed.

Lemma insert_sorted x l : StronglySorted le l -> StronglySorted le (insert x l).
Proof.
  induction 1 as [|y r Hs IH Hf]; simpl.
  - constructor; constructor.
  - destruct (before x y) eqn:E.
    + constructor; [constructor; auto|]. constructor; [apply before_le, E|].
      eapply Forall_impl; [|exact Hf]. intros z Hz. eapply le_trans; [apply before_le, E | exact Hz].
    + constructor; auto. apply Forall_forall. intros z Hz.
      apply (Permutation_in _ (insert_perm x r)) in Hz. destruct Hz as [<-|Hz]; [exact E|].
      rewrite Forall_forall in Hf. auto.
Qed.

Lemma isort_sorted l : StronglySorted le (isort l).
Proof. induction l; simpl; [constructor | now apply insert_sorted]. Qed.

Lemma sorted_unique l1 : forall l2, StronglySorted le l1 -> StronglySorted le l2 ->
  Permutation l1 l2 -> NoDup (map bid l1) -> l1 = l2.
Proof.
  induction l1 as [|x xs IH]; intros l2 S1 S2 P Hn.
  - apply Permutation_nil in P. now subst.
  - destruct l2 as [|y ys]; [apply Permutation_sym, Permutation_nil in P; discriminate|].
    inversion S1 as [|? ? Sx Fx]; inversion S2 as [|? ? Sy Fy]; subst.
    assert (Hxy : x = y).
    { assert (Hx : In x (y :: ys)) by (eapply Permutation_in; [exact P | left; auto]).
      assert (Hy : In y (x :: xs)) by (eapply Permutation_in; [apply Permutation_sym, P | left; auto]).
      destruct Hx as [->|Hx]; auto. destruct Hy as [->|Hy]; auto.
      rewrite Forall_forall in Fx, Fy.
      apply (NoDup_bid_eq (x :: xs)); auto; [left; auto | right; auto |].
      apply le_antisym; auto. }
    subst y. f_equal. apply IH; auto.
    + eapply Permutation_cons_inv, P.
    + now inversion Hn.
Qed.

Lemma isort_unique l l' : Permutation l l' -> NoDup (map bid l) -> isort l = isort l'.
Proof.
  intros P Hn. apply sorted_unique; auto using isort_sorted.
  - rewrite !isort_perm. exact P.
  - eapply Permutation_NoDup; [|exact Hn]. apply Permutation_map, Permutation_sym, isort_perm.
Qed.

(* ---- one group ------------------------------------------------------------- *)

Lemma filter_group_spec g k d : NoDup (map bid g) -> filter_group g = (k, d) ->
  (forall i, In i d -> exists c, In c g /\ bid c = i /\ exists p, In p k /\ incl (srcs c) (srcs p))
  /\ (forall p, In p k <-> In p g /\ ~ In (bid p) d).
Proof.
  intros Hn H. unfold filter_group in H.
  assert (Hn' : NoDup (map bid (isort g))).
  { eapply Permutation_NoDup; [|exact Hn]. apply Permutation_map, Permutation_sym, isort_perm. }
  destruct (child_loop_spec _ _ _ _ Hn' H) as [Ha Hb]. split.
  - intros i Hi. destruct (Ha i Hi) as (c & Hc & E & p & Hp & Hcont).
    exists c. split; [eapply Permutation_in; [apply isort_perm | exact Hc]|]. split; auto.
    exists p. split; auto. now apply contains_incl.
  - intros p. rewrite Hb. simpl. split.
    + intros [[]|[Hp Hnd]]. split; auto. eapply Permutation_in; [apply isort_perm | exact Hp].
    + intros [Hp Hnd]. right. split; auto. eapply Permutation_in; [apply Permutation_sym, isort_perm | exact Hp].
Qed.

Lemma NoDup_map_filter {A B} (f : A -> B) (p : A -> bool) l : NoDup (map f l) -> NoDup (map f (filter p l)).
Proof.
  induction l as [|a l IH]; simpl; intros Hn; auto. inversion Hn; subst.
  destruct (p a); simpl; auto. constructor; auto. intros Hin. apply H1.
  apply in_map_iff in Hin. destruct Hin as (x & E & Hx). apply filter_In in Hx. rewrite <- E. apply in_map. tauto.
Qed.

(* ---- the whole filter -------------------------------------------------------- *)

Lemma in_dups_in_order keys l i :
  In i (dups_in_order keys l) <-> exists k, In k keys /\ In i (snd (filter_group (filter (in_group k) l))).
Proof. unfold dups_in_order. apply in_flat_map. Qed.

Lemma in_group_keys l k : In k (group_keys l) <-> exists b, In b l /\ grp b = k.
Proof.
  unfold group_keys. rewrite nodup_In, in_map_iff. split; intros (b & H1 & H2); exists b; tauto.
Qed.

(* an id is hidden iff it is a duplicate of its own group *)
Lemma in_dups l b : NoDup (map bid l) -> In b l ->
  (In (bid b) (dups l) <-> In (bid b) (snd (filter_group (filter (in_group (grp b)) l)))).
Proof.
  intros Hn Hb. unfold dups. rewrite in_dups_in_order. split.
  - intros (k & Hk & Hi).
    destruct (filter_group (filter (in_group k) l)) as [kk d] eqn:FG.
    destruct (filter_group_spec _ _ _ (NoDup_map_filter bid _ l Hn) FG) as [Ha _].
    destruct (Ha _ Hi) as (c & Hc & E & _). apply filter_In in Hc. destruct Hc as [Hc Hg].
    assert (c = b) by (eapply NoDup_bid_eq; eauto). subst c.
    unfold in_group in Hg. apply Z.eqb_eq in Hg. subst k. rewrite FG. exact Hi.
  - intros Hi. exists (grp b). split; auto. apply in_group_keys. eauto.
Qed.

Lemma hidden_covered l b : NoDup (map bid l) -> In b l -> hidden l b = true ->
  exists p, In p l /\ grp p = grp b /\ hidden l p = false /\ incl (srcs b) (srcs p).
Proof.
  intros Hn Hb Hh. unfold hidden in Hh. apply mem_In in Hh. apply (in_dups l b Hn Hb) in Hh.
  destruct (filter_group (filter (in_group (grp b)) l)) as [k d] eqn:FG. simpl in Hh.
  destruct (filter_group_spec _ _ _ (NoDup_map_filter bid _ l Hn) FG) as [Ha Hk].
  destruct (Ha _ Hh) as (c & Hc & E & p & Hp & Hincl).
  apply filter_In in Hc. destruct Hc as [Hc _].
  assert (c = b) by (eapply NoDup_bid_eq; eauto). subst c.
  apply Hk in Hp. destruct Hp as [Hp Hnd]. apply filter_In in Hp. destruct Hp as [Hp Hg].
  unfold in_group in Hg. apply Z.eqb_eq in Hg.
  exists p. repeat split; auto.
  unfold hidden. apply mem_false. rewrite (in_dups l p Hn Hp), Hg, FG. exact Hnd.
Qed.

Lemma kept_cover l b s : NoDup (map bid l) -> In b l -> In s (srcs b) ->
  exists p, In p l /\ grp p = grp b /\ hidden l p = false /\ In s (srcs p).
Proof.
  intros Hn Hb Hs. destruct (hidden l b) eqn:Hh.
  - destruct (hidden_covered l b Hn Hb Hh) as (p & Hp & Hg & Hk & Hi). exists p. repeat split; auto.
  - exists b. repeat split; auto.
Qed.

Lemma filter_perm {A} (f : A -> bool) l l' : Permutation l l' -> Permutation (filter f l) (filter f l').
Proof.
  induction 1; simpl; auto.
  - destruct (f x); auto.
  - destruct (f x), (f y); auto. apply perm_swap.
  - etransitivity; eauto.
Qed.

(* listing order does not matter *)
Lemma order_independent l l' : Permutation l l' -> NoDup (map bid l) ->
  forall b, hidden l b = hidden l' b.
Proof.
  intros P Hn b. unfold hidden.
  assert (forall i, In i (dups l) <-> In i (dups l')) as Hiff.
  { intros i. unfold dups. rewrite !in_dups_in_order. split; intros (k & Hk & Hi); exists k.
    - split.
      + apply in_group_keys in Hk. destruct Hk as (c & Hc & E). apply in_group_keys. exists c. split; auto.
        eapply Permutation_in; eauto.
      + unfold filter_group in *.
        rewrite <- (isort_unique (filter (in_group k) l) (filter (in_group k) l')); auto using filter_perm, NoDup_map_filter.
    - split.
      + apply in_group_keys in Hk. destruct Hk as (c & Hc & E). apply in_group_keys. exists c. split; auto.
        eapply Permutation_in; [apply Permutation_sym|]; eauto.
      + unfold filter_group in *.
        rewrite (isort_unique (filter (in_group k) l) (filter (in_group k) l')); auto using filter_perm, NoDup_map_filter. }
  destruct (mem (bid b) (dups l)) eqn:E1, (mem (bid b) (dups l')) eqn:E2; auto.
  - apply mem_In, Hiff, mem_In in E1. congruence.
  - apply mem_In, Hiff, mem_In in E2. congruence.
Qed.

(* the order in which the groups are handed to the workers does not matter *)
Lemma schedule_independent keys keys' l : Permutation keys keys' ->
  forall i, In i (dups_in_order keys l) <-> In i (dups_in_order keys' l).
Proof.
  intros P i. rewrite !in_dups_in_order. split; intros (k & Hk & Hi); exists k; split; auto.
  - eapply Permutation_in; eauto.
  - eapply Permutation_in; [apply Permutation_sym|]; eauto.
Qed.

(* ---- the boolean predicate holds of the model's own output ------------------- *)

Lemma dups_are_ids l i : NoDup (map bid l) -> In i (dups l) -> exists b, In b l /\ bid b = i /\ hidden l b = true.
Proof.
  intros Hn Hi. pose proof Hi as Hi'. unfold dups in Hi. apply in_dups_in_order in Hi. destruct Hi as (k & Hk & Hi).
  destruct (filter_group (filter (in_group k) l)) as [kk d] eqn:FG.
  destruct (filter_group_spec _ _ _ (NoDup_map_filter bid _ l Hn) FG) as [Ha _].
  destruct (Ha _ Hi) as (c & Hc & E & _). apply filter_In in Hc. exists c. repeat split; try tauto.
  unfold hidden. apply mem_In. now rewrite E.
Qed.

Lemma find_blk_In l b : NoDup (map bid l) -> In b l -> find_blk l (bid b) = Some b.
Proof.
  unfold find_blk. induction l as [|a l IH]; simpl; intros Hn Hb; [contradiction|].
  inversion Hn; subst. destruct Hb as [->|Hb]; [now rewrite Z.eqb_refl|].
  destruct (bid a =? bid b) eqn:E; auto. apply Z.eqb_eq in E. exfalso. apply H1. rewrite E. now apply in_map.
Qed.

Lemma kept_In l p : In p (kept l) <-> In p l /\ hidden l p = false.
Proof. unfold kept. rewrite filter_In. destruct (hidden l p); simpl; intuition congruence. Qed.

Lemma model_run_pred l conc : NoDup (map bid l) -> run_pred l (conc, map bid (kept l), dups l) = true.
Proof.
  intros Hn. unfold run_pred.
  apply andb_true_iff; split; [apply andb_true_iff; split; [apply andb_true_iff; split|]|].
  - unfold set_eqb. apply andb_true_iff; split; apply subset_incl; intros i Hi.
    + apply in_app_or in Hi. destruct Hi as [Hi|Hi].
      * apply in_map_iff in Hi. destruct Hi as (b & <- & Hb). apply kept_In in Hb. apply in_map. tauto.
      * destruct (dups_are_ids l i Hn Hi) as (b & Hb & <- & _). now apply in_map.
    + apply in_map_iff in Hi. destruct Hi as (b & <- & Hb). apply in_or_app.
      destruct (hidden l b) eqn:Hh.
      * right. unfold hidden in Hh. now apply mem_In.
      * left. apply in_map. apply kept_In. auto.
  - apply forallb_forall. intros i Hi. apply in_map_iff in Hi. destruct Hi as (b & <- & Hb).
    apply kept_In in Hb. destruct Hb as [_ Hh]. unfold hidden in Hh. now rewrite Hh.
  - apply forallb_forall. intros i Hi. destruct (dups_are_ids l i Hn Hi) as (b & Hb & <- & Hh).
    rewrite (find_blk_In l b Hn Hb).
    destruct (hidden_covered l b Hn Hb Hh) as (p & Hp & Hg & Hk & Hincl).
    apply existsb_exists. exists p. split; auto. repeat (apply andb_true_iff; split).
    + unfold in_group. now apply Z.eqb_eq.
    + apply mem_In, in_map, kept_In. auto.
    + now apply contains_incl.
  - apply forallb_forall. intros b Hb. apply forallb_forall. intros s Hs.
    destruct (kept_cover l b s Hn Hb Hs) as (p & Hp & Hg & Hk & Hi).
    apply existsb_exists. exists p. split; auto. repeat (apply andb_true_iff; split).
    + unfold in_group. now apply Z.eqb_eq.
    + apply mem_In, in_map, kept_In. auto.
    + now apply mem_In.
Qed.

(* the view used by the correspondence check is the model's kept / dups *)
Lemma model_view_spec l : model_view l = (map bid (kept l), dups l).
Proof. reflexivity. Qed.

(* a history of Filter calls on one instance: the result of the n-th call depends only on
   the n-th input, whatever was remembered before *)
Lemma history_stateless prev ls : run_history prev ls = map model_view ls.
Proof. revert prev. induction ls as [|l r IH]; intros prev; simpl; auto. now rewrite IH. Qed.

Lemma history_nth prev ls n l : nth_error ls n = Some l ->
  nth_error (run_history prev ls) n = Some (map bid (kept l), dups l).
Proof.
  intros H. rewrite history_stateless, nth_error_map, H. reflexivity.
Qed.

Lemma filter_stateless_fact : filter_reads_no_previous_result = true.
Proof. reflexivity. Qed.
