(* C14 — every operation through the caching bucket answers like the underlying bucket
   and keeps the cache truthful. *)
From Coq Require Import ZArith NArith List Bool Lia.
Import ListNotations.
From Verif Require Import Lib.Corr Gen.C14 Model.C14 Proofs.C14 Proofs.C14_merge Proofs.C14_fetch.
Open Scope Z_scope.

Ltac Zify.zify_post_hook ::= Z.to_euclidean_division_equations.

(* every cache entry tells the truth about the immutable world *)
Definition entry_ok (w : world) (listing : N -> bool -> list N) (k : key) (v : cval) : Prop :=
  match k with
  | KSub n s e => exists obj, find_obj w n = Some obj /\ v = VBytes (slice obj s e)
  | KAttr n => exists obj, find_obj w n = Some obj /\ v = VSize (blen obj)
  | KExists n => v = VBool (match find_obj w n with Some _ => true | None => false end)
  | KContent n => exists obj, find_obj w n = Some obj /\ v = VBytes obj
  | KIter d r => v = VList (listing d r)
  end.

Definition cache_ok (w : world) (listing : N -> bool -> list N) (c : cache) : Prop :=
  forall k v, lookup c k = Some v -> entry_ok w listing k v.

Lemma cache_ok_nil w listing : cache_ok w listing [].
Proof. intros k v H. discriminate. Qed.

Lemma cache_ok_store w listing c k v :
  cache_ok w listing c -> entry_ok w listing k v -> cache_ok w listing (store c k v).
Proof.
  intros Hc He k' v' H. rewrite lookup_store in H. destruct (key_eqb k' k) eqn:E.
  - apply key_eqb_eq in E. subst k'. inversion H; subst. exact He.
  - apply Hc. exact H.
Qed.

(* ---------- small list facts ---------- *)
Lemma offsets_from_in S0 : forall n start k, 0 <= k < Z.of_nat n -> In (start + k * S0) (offsets_from n start S0).
Proof.
  induction n as [|n IH]; intros start k Hk; [lia|]. cbn [offsets_from].
  destruct (Z.eq_dec k 0) as [->|Hne]; [left; lia|]. right.
  replace (start + k * S0) with ((start + S0) + (k - 1) * S0) by ring. apply IH. lia.
Qed.

Lemma offsets_from_length S0 n start : length (offsets_from n start S0) = n.
Proof. revert start. induction n; intro start; simpl; [reflexivity|]. rewrite IHn. reflexivity. Qed.

Lemma offsets_from_form S0 : forall n start x, In x (offsets_from n start S0) -> exists k, 0 <= k < Z.of_nat n /\ x = start + k * S0.
Proof.
  induction n as [|n IH]; intros start x H; [contradiction|]. cbn [offsets_from] in H.
  destruct H as [<-|H]; [exists 0; lia|]. destruct (IH _ _ H) as (k & Hk & ->). exists (k + 1). split; [lia|ring].
Qed.

Lemma hget_in h : forall o b, hget h o = Some b -> In (o, b) h.
Proof.
  induction h as [|[o' b'] h IH]; intros o b H; [discriminate|]. simpl in H.
  destruct (o' =? o) eqn:E.
  - apply Z.eqb_eq in E. subst. inversion H; subst. left. reflexivity.
  - right. apply IH. exact H.
Qed.

Lemma in_hget h : forall o b, In (o, b) h -> hget h o <> None.
Proof.
  induction h as [|[o' b'] h IH]; intros o b H; [contradiction|]. simpl.
  destruct (o' =? o) eqn:E; [discriminate|]. destruct H as [H|H].
  - inversion H; subst. rewrite Z.eqb_refl in E. discriminate.
  - eapply IH; eauto.
Qed.

Lemma flat_map_full {A B} (f : A -> list B) : (forall x, (length (f x) <= 1)%nat) ->
  forall l, (length l <= length (flat_map f l))%nat -> forall x, In x l -> f x <> [].
Proof.
  intros Hf. induction l as [|a l IH]; intros Hl x Hx; [contradiction|].
  simpl in Hl. rewrite app_length in Hl.
  assert (Hfl : (length (flat_map f l) <= length l)%nat).
  { clear - Hf. induction l as [|b l IH]; simpl; [lia|]. rewrite app_length. specialize (Hf b). lia. }
  pose proof (Hf a) as Ha.
  destruct Hx as [->|Hx].
  - intro E. rewrite E in Hl. simpl in Hl. lia.
  - apply IH; [lia|exact Hx].
Qed.

Section GetRange.
Variable w : world.
Variable listing : N -> bool -> list N.
Variable name : N.
Variable obj : bytes.
Hypothesis Hobj : find_obj w name = Some obj.
Variable Sz : Z.
Hypothesis HS : 0 < Sz.
Let size := blen obj.

(* the subranges found in the cache *)
Definition h0_of (c : cache) (hits : list key) (offs : list Z) : hmap :=
  flat_map (fun off => match fetch c hits (KSub name off (subrange_end off Sz size)) with
                       | Some (VBytes (x :: b)) => [(off, x :: b)]
                       | _ => []
                       end) offs.

Lemma h0_ok c hits offs : cache_ok w listing c -> H_ok obj Sz (h0_of c hits offs).
Proof.
  intros Hc off b H. apply hget_in in H. unfold h0_of in H. apply in_flat_map in H.
  destruct H as (o & Ho & Hin).
  destruct (fetch c hits (KSub name o (subrange_end o Sz size))) as [[[|x bb]| | |]|] eqn:E; try contradiction.
  destruct Hin as [Hin|[]]. inversion Hin; subst o b.
  apply fetch_some in E. apply Hc in E. simpl in E. destruct E as (obj' & Ho' & Hv).
  rewrite Hobj in Ho'. inversion Ho'; subst obj'. inversion Hv as [Hx]. rewrite Hx. unfold sub_of, subrange_end. reflexivity.
Qed.

Definition missing_of (h0 : hmap) (offs : list Z) : list rng :=
  flat_map (fun off => match hget h0 off with None => [(off, off + Sz)] | Some _ => [] end) offs.

Lemma missing_chain ks ke h0 : forall n k0, ks <= k0 -> k0 + Z.of_nat n <= ke ->
  chain Sz ks ke (k0 * Sz) (missing_of h0 (offsets_from n (k0 * Sz) Sz))
  /\ forall k, k0 <= k < k0 + Z.of_nat n -> hget h0 (k * Sz) = None ->
       covered (missing_of h0 (offsets_from n (k0 * Sz) Sz)) (k * Sz).
Proof.
  induction n as [|n IH]; intros k0 H1 H2.
  - simpl. split; [exact I|]. intros k Hk. lia.
  - cbn [offsets_from]. unfold missing_of. cbn [flat_map]. fold (missing_of h0).
    replace (k0 * Sz + Sz) with ((k0 + 1) * Sz) by ring.
    destruct (IH (k0 + 1)) as (C1 & C2); try lia.
    destruct (hget h0 (k0 * Sz)) eqn:E; simpl app.
    + split.
      * eapply chain_weaken; [exact C1|nia].
      * intros k Hk Hn. destruct (Z.eq_dec k k0) as [->|Hne]; [congruence|]. apply C2; [lia|exact Hn].
    + split.
      * simpl. split; [lia|]. split.
        -- exists k0, (k0 + 1). simpl. repeat split; try lia; try ring.
        -- simpl. replace (k0 * Sz + Sz) with ((k0 + 1) * Sz) by ring. exact C1.
      * intros k Hk Hn. destruct (Z.eq_dec k k0) as [->|Hne].
        -- apply Exists_cons_hd. simpl. lia.
        -- apply Exists_cons_tl. apply C2; [lia|exact Hn].
Qed.

Lemma fold_store_ok (st : list (Z * bytes)) : forall c,
  cache_ok w listing c -> st_ok obj Sz st ->
  cache_ok w listing (fold_left (fun c (p : Z * bytes) => store c (KSub name (fst p) (subrange_end (fst p) Sz size)) (VBytes (snd p))) st c).
Proof.
  induction st as [|[o b] st IH]; intros c Hc Hst; [exact Hc|].
  inversion Hst as [|? ? Hb Hr]; subst. simpl in Hb. simpl fold_left. apply IH; [|exact Hr].
  apply cache_ok_store; [exact Hc|]. simpl. exists obj. split; [exact Hobj|].
  rewrite Hb. unfold sub_of, subrange_end. reflexivity.
Qed.

End GetRange.

Lemma cached_attributes_ok w listing c hits name :
  cache_ok w listing c ->
  let '(osz, c1, st) := cached_attributes w c hits name in
  cache_ok w listing c1 /\
  match find_obj w name with Some o => osz = Some (blen o) | None => osz = None end.
Proof.
  intro Hc. unfold cached_attributes.
  destruct (fetch c hits (KAttr name)) as [[b|z|b|l]|] eqn:E;
    try (destruct (find_obj w name) as [o|] eqn:Eo;
         [split; [apply cache_ok_store; [exact Hc|simpl; exists o; auto]|reflexivity] | split; [exact Hc|reflexivity]]).
  apply fetch_some in E. apply Hc in E. simpl in E. destruct E as (o & Ho & Hv). inversion Hv; subst.
  rewrite Ho. split; [exact Hc|reflexivity].
Qed.

Lemma get_range_ok g w listing c hits name off len :
  0 < c_S g -> 0 <= off -> 0 < len -> cache_ok w listing c ->
  fst (fst (fst (get_range g w c hits name off len))) = reference w (OGetRange name off len) []
  /\ cache_ok w listing (snd (get_range g w c hits name off len)).
Proof.
  intros HS Hoff Hlen Hc. unfold get_range, reference.
  replace ((off <? 0) || (len <=? 0)) with false.
  2:{ symmetry. apply orb_false_iff. split; [apply Z.ltb_ge; lia | apply Z.leb_gt; lia]. }
  pose proof (cached_attributes_ok w listing c hits name Hc) as Ha.
  destruct (cached_attributes w c hits name) as [[osz c1] st1]. destruct Ha as (Hc1 & Hosz).
  destruct (find_obj w name) as [obj|] eqn:Hobj; subst osz; [|split; [reflexivity|exact Hc1]].
  set (Sz := c_S g) in *. set (size := blen obj).
  unfold past_end_cond. destruct (off >=? size) eqn:Epast.
  { split; [reflexivity|exact Hc1]. }
  rewrite Z.geb_leb in Epast. apply Z.leb_gt in Epast.
  (* the clamped length and the aligned window *)
  set (len' := if clamp_cond off len size then clamped_length off size else len).
  assert (Hlen' : 0 < len' /\ off + len' <= size /\ off + len' = (if size <=? off + len then size else off + len)).
  { unfold len', clamp_cond, clamped_length. destruct (off + len >? size) eqn:E.
    - rewrite Z.gtb_ltb in E. apply Z.ltb_lt in E. replace (size <=? off + len) with true by (symmetry; apply Z.leb_le; lia). lia.
    - rewrite Z.gtb_ltb in E. apply Z.ltb_ge in E. destruct (size <=? off + len) eqn:E2; [apply Z.leb_le in E2|]; lia. }
  destruct Hlen' as (L1 & L2 & L3).
  set (ks := Z.quot off Sz).
  set (ke := if bump_cond off len' Sz then Z.quot (off + len') Sz + 1 else Z.quot (off + len') Sz).
  assert (HstartR : start_range off Sz = ks * Sz) by reflexivity.
  assert (HendR : (if bump_cond off len' Sz then end_range0 off len' Sz + Sz else end_range0 off len' Sz) = ke * Sz).
  { unfold ke, end_range0. destruct (bump_cond off len' Sz); ring. }
  rewrite HstartR, HendR.
  assert (Hwin : 0 <= ks /\ ks * Sz <= off /\ off + len' <= ke * Sz /\ (ke - 1) * Sz < off + len' /\ ks < ke).
  { unfold ks, ke, bump_cond. destruct (Z.rem (off + len') Sz >? 0) eqn:E.
    - rewrite Z.gtb_ltb in E. apply Z.ltb_lt in E. nia.
    - rewrite Z.gtb_ltb in E. apply Z.ltb_ge in E. nia. }
  destruct Hwin as (W1 & W2 & W3 & W4 & W5).
  assert (HlastOff : (if last_clamp_cond (ke * Sz) size then last_off_clamped size Sz else last_off_default (ke * Sz) Sz) = (ke - 1) * Sz).
  { unfold last_clamp_cond, last_off_clamped, last_off_default. destruct (ke * Sz >? size) eqn:E.
    - rewrite Z.gtb_ltb in E. apply Z.ltb_lt in E.
      pose proof (quot_bounds obj Sz HS size ltac:(unfold size; apply blen_nonneg)) as Hq.
      set (q := Z.quot size Sz) in *.
      assert (q < ke) by nia. assert (ke - 1 < q + 1) by nia. assert (q = ke - 1) by lia. subst q. lia.
    - ring. }
  rewrite HlastOff.
  assert (HlastLen : (if last_clamp_cond (ke * Sz) size then last_len_clamped size ((ke - 1) * Sz) else last_len_default Sz)
                     = Z.min (ke * Sz) size - (ke - 1) * Sz).
  { unfold last_clamp_cond, last_len_clamped, last_len_default. destruct (ke * Sz >? size) eqn:E.
    - rewrite Z.gtb_ltb in E. apply Z.ltb_lt in E. lia.
    - rewrite Z.gtb_ltb in E. apply Z.ltb_ge in E. lia. }
  rewrite HlastLen.
  assert (Hn : Z.to_nat (Z.quot (ke * Sz - ks * Sz + Sz - 1) Sz) = Z.to_nat (ke - ks)) by (f_equal; nia).
  unfold sub_offsets. rewrite Hn.
  set (offs := offsets_from (Z.to_nat (ke - ks)) (ks * Sz) Sz).
  assert (Hoffs_len : length offs = Z.to_nat (ke - ks)) by apply offsets_from_length.
  assert (Hknown : forall k, ks <= k < ke -> In (k * Sz) offs).
  { intros k Hk. unfold offs. replace (k * Sz) with (ks * Sz + (k - ks) * Sz) by ring. apply offsets_from_in. lia. }
  fold (h0_of name obj Sz c1 hits offs). set (h0 := h0_of name obj Sz c1 hits offs).
  assert (Hh0 : H_ok obj Sz h0) by (apply (h0_ok w listing name obj Hobj Sz); exact Hc1).
  fold (missing_of Sz h0 offs).
  assert (Hlast : (ke - 1) * Sz < blen obj) by (fold size; lia).
  (* after the fetch phase every subrange of the window is in memory and correct *)
  assert (Hfetched :
    exists h st calls,
      (if Z.of_nat (length h0) <? Z.of_nat (length offs)
       then match merge_loop (S (length offs)) (merge_ranges (missing_of Sz h0 offs) 0) Sz (c_M g) with
            | None => None
            | Some merged =>
                match fetch_all obj Sz ((ke - 1) * Sz) (Z.min (ke * Sz) size - (ke - 1) * Sz) offs merged h0 [] with
                | None => None
                | Some (h, st) => Some (h, st, map (fun m : rng => (fst m, snd m - fst m)) merged)
                end
            end
       else Some (h0, [], [])) = Some (h, st, calls)
      /\ st_ok obj Sz st
      /\ forall k, ks <= k < ke -> hget h (k * Sz) = Some (sub_of obj Sz (k * Sz))).
  { destruct (Z.of_nat (length h0) <? Z.of_nat (length offs)) eqn:Elt.
    - destruct (missing_chain listing name obj Sz HS ks ke h0 (Z.to_nat (ke - ks)) ks (Z.le_refl _) ltac:(lia)) as (M1 & M2).
      fold offs in M1, M2.
      destruct (merge_ranges_ok Sz ks ke HS 0 _ _ M1) as (R1 & R2).
      destruct (merge_loop_ok Sz ks ke HS (c_M g) (ke - ks) (Z.le_refl _) (S (length offs)) _ Sz _ R1) as (merged & G1 & G2 & G3 & _).
      { rewrite Hoffs_len. lia. }
      { lia. }
      { intro; discriminate. }
      rewrite G1.
      destruct (fetch_all_ok obj Sz ks ke HS W1 W5 Hlast offs Hknown merged _ h0 [] G2 Hh0 (Forall_nil _))
        as (h & st & F1 & F2 & F3 & F4 & F5).
      fold size in F1. rewrite F1. exists h, st, (map (fun m : rng => (fst m, snd m - fst m)) merged).
      split; [reflexivity|]. split; [exact F3|].
      intros k Hk. destruct (hget h0 (k * Sz)) as [b|] eqn:E0.
      + rewrite (F4 _ _ E0). f_equal. apply Hh0. exact E0.
      + assert (Hcov : covered merged (k * Sz)) by (apply G3, R2, M2; [lia|exact E0]).
        specialize (F5 k Hcov). destruct (hget h (k * Sz)) as [b|] eqn:E1; [|congruence].
        f_equal. apply F2. exact E1.
    - apply Z.ltb_ge in Elt. exists h0, [], []. split; [reflexivity|]. split; [constructor|].
      intros k Hk. specialize (Hknown k Hk).
      assert (Hne : (fun off0 => match fetch c1 hits (KSub name off0 (subrange_end off0 Sz size)) with
                                 | Some (VBytes (x :: b)) => [(off0, x :: b)]
                                 | _ => []
                                 end) (k * Sz) <> []).
      { assert (Hf1 : forall x0, (length (match fetch c1 hits (KSub name x0 (subrange_end x0 Sz size)) with
                                                 | Some (VBytes (x :: b)) => [(x0, x :: b)]
                                                 | _ => []
                                                 end) <= 1)%nat).
        { intro x0. destruct (fetch c1 hits (KSub name x0 (subrange_end x0 Sz size))) as [[[|? ?]| | |]|]; simpl; lia. }
        apply (flat_map_full _ Hf1 offs); [|exact Hknown].
        apply Nat2Z.inj_le. exact Elt. }
      destruct (hget h0 (k * Sz)) as [b|] eqn:E0; [f_equal; apply Hh0; exact E0|]. exfalso.
      cbv beta in Hne.
      destruct (fetch c1 hits (KSub name (k * Sz) (subrange_end (k * Sz) Sz size))) as [[[|x bb]| | |]|] eqn:Ef; try congruence.
      apply (in_hget h0 (k * Sz) (x :: bb)); [|exact E0].
      unfold h0, h0_of. apply in_flat_map. exists (k * Sz). split; [exact Hknown|]. unfold size in Ef. rewrite Ef. left. reflexivity. }
  destruct Hfetched as (h & st & calls & Hf & Hst & Htot).
  match goal with
  | |- context [if ?c then ?a else ?b] =>
      replace (if c then a else b) with (Some (h, st, calls)) by (symmetry; exact Hf)
  end.
  cbn [fst snd].
  split.
  - rewrite (read_loop_ok obj Sz HS h ks ke Htot W1); try lia; try (rewrite Hoffs_len; fold ks; lia).
    simpl. unfold under_get_range. fold size.
    replace (size <? off) with false by (symmetry; apply Z.ltb_ge; lia).
    f_equal. f_equal. exact L3.
  - apply (fold_store_ok w listing name obj Hobj Sz); assumption.
Qed.
