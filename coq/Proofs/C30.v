(* C30 — lemmas about the planner model (Model/C30.v). *)
From Coq Require Import ZArith List Bool Lia Arith.
Import ListNotations.
From Verif Require Import Lib.Corr Lib.Compact_List Gen.C30 Model.C30.
Open Scope Z_scope.

Ltac Zify.zify_post_hook ::= Z.to_euclidean_division_equations.

(* ---- the translated one-liners (tie T) -------------------------------- *)

(* start of the aligned window: t0 <= mint < t0 + tr and t0 is a multiple of tr,
   also for negative timestamps (Go's truncating division) *)
Lemma t0_spec mint tr : 0 < tr ->
  let t0 := splitByRange_t0 mint tr in
  t0 <= mint < t0 + tr /\ t0 = tr * (mint / tr).
Proof.
  intros Htr. unfold splitByRange_t0. cbv zeta.
  destruct (mint >=? 0) eqn:E.
  - apply Z.geb_le in E. rewrite Z.quot_div_nonneg by lia.
    pose proof (Z.mul_div_le mint tr Htr). pose proof (Z.mul_succ_div_gt mint tr Htr). split; [lia|reflexivity].
  - rewrite Z.geb_leb in E. apply Z.leb_gt in E.
    assert (Hq : Z.quot (mint - tr + 1) tr = mint / tr).
    { rewrite <- (Z.opp_involutive (mint - tr + 1)), Z.quot_opp_l by lia.
      rewrite Z.quot_div_nonneg by lia.
      assert (Hm : mint / tr = - ((- mint + tr - 1) / tr)); [|rewrite Hm; f_equal; f_equal; lia].
      pose proof (Z.mul_div_le mint tr Htr). pose proof (Z.mul_succ_div_gt mint tr Htr).
      pose proof (Z.mul_div_le (- mint + tr - 1) tr Htr). pose proof (Z.mul_succ_div_gt (- mint + tr - 1) tr Htr).
      nia. }
    rewrite Hq.
    pose proof (Z.mul_div_le mint tr Htr). pose proof (Z.mul_succ_div_gt mint tr Htr). split; [lia|reflexivity].
Qed.

Lemma skip_false maxt t0 tr : splitByRange_skip maxt t0 tr = false <-> maxt <= t0 + tr.
Proof. unfold splitByRange_skip. rewrite Z.gtb_ltb, Z.ltb_ge. reflexivity. Qed.

Lemma break_false maxt t0 tr : splitByRange_break maxt t0 tr = false <-> maxt <= t0 + tr.
Proof. unfold splitByRange_break. rewrite Z.gtb_ltb, Z.ltb_ge. reflexivity. Qed.

(* ---- selectOverlappingMetas ------------------------------------------- *)

Lemma ov_take_prefix g l : exists r, l = ov_take g l ++ r.
Proof.
  revert g. induction l as [|m l IH]; intros g; simpl.
  - exists []. reflexivity.
  - destruct (mint m <? g).
    + destruct (IH (Z.max g (maxt m))) as (r & Hr). exists r. simpl. now rewrite <- Hr.
    + exists (m :: l). reflexivity.
Qed.

Lemma ov_scan_segment prev g l : segment (ov_scan prev g l) (prev :: l).
Proof.
  revert prev g. induction l as [|m l IH]; intros prev g; simpl.
  - exists [], [prev]. reflexivity.
  - destruct (mint m <? g).
    + destruct (ov_take_prefix (Z.max g (maxt m)) l) as (r & Hr).
      exists [], r. simpl. now rewrite <- Hr.
    + apply segment_cons, IH.
Qed.

Lemma ov_scan_len prev g l : ov_scan prev g l = [] \/ (2 <= length (ov_scan prev g l))%nat.
Proof.
  revert prev g. induction l as [|m l IH]; intros prev g; simpl; auto.
  destruct (mint m <? g); simpl; [right; lia | apply IH].
Qed.

Lemma select_overlapping_segment l : segment (select_overlapping l) l.
Proof.
  destruct l as [|m l]; simpl; [apply segment_refl | apply ov_scan_segment].
Qed.

Lemma select_overlapping_len l :
  select_overlapping l = [] \/ (2 <= length (select_overlapping l))%nat.
Proof. destruct l; simpl; auto using ov_scan_len. Qed.

(* no block starts before the end of an earlier one *)
Definition disjoint_sorted (l : list meta) : Prop := pairwise (fun a b => maxt a <= mint b) l.

Lemma ov_scan_nil prev g l :
  ov_scan prev g l = [] <-> Forall (fun m => g <= mint m) l /\ disjoint_sorted l.
Proof.
  revert prev g. induction l as [|m l IH]; intros prev g; simpl.
  - split; auto. intros _. split; constructor.
  - destruct (mint m <? g) eqn:E.
    + split; [intros; discriminate|]. intros (Hf & _). inversion Hf; subst. apply Z.ltb_lt in E. lia.
    + apply Z.ltb_ge in E. rewrite IH. unfold disjoint_sorted. simpl. split.
      * intros (Hf & Hd). rewrite Forall_forall in Hf. repeat split; auto.
        -- constructor; auto. apply Forall_forall. intros x Hx. specialize (Hf x Hx). lia.
        -- apply Forall_forall. intros x Hx. specialize (Hf x Hx). lia.
      * intros (Hf & Hm & Hd). inversion Hf; subst. split; auto.
        rewrite Forall_forall in *. intros x Hx. specialize (Hm x Hx). specialize (H2 x Hx). lia.
Qed.

Lemma select_overlapping_nil l : select_overlapping l = [] <-> disjoint_sorted l.
Proof.
  destruct l as [|m l]; simpl.
  - split; auto. intros _. exact I.
  - rewrite ov_scan_nil. unfold disjoint_sorted. simpl. tauto.
Qed.

(* ---- splitByRange -------------------------------------------------------- *)

Lemma take_fit_spec t0 tr l g rest :
  take_fit t0 tr l = (g, rest) -> l = g ++ rest /\ Forall (fun q => maxt q <= t0 + tr) g.
Proof.
  revert g rest. induction l as [|m l IH]; intros g rest; simpl.
  - intros H. inversion H; subst. split; auto.
  - destruct (splitByRange_break (maxt m) t0 tr) eqn:E.
    + intros H. inversion H; subst. split; auto.
    + destruct (take_fit t0 tr l) as [g' rest'] eqn:T. intros H. inversion H; subst.
      destruct (IH g' rest eq_refl) as (-> & Hf). split; auto.
      constructor; auto. apply break_false, E.
Qed.

(* every group is a non-empty contiguous segment whose blocks all end inside
   the window of the group's first block *)
Lemma sbr_spec fuel l tr g :
  In g (sbr fuel l tr) ->
  exists m g', g = m :: g' /\ segment g l /\
    Forall (fun q => maxt q <= splitByRange_t0 (mint m) tr + tr) g.
Proof.
  revert l. induction fuel as [|f IH]; intros l; simpl; [contradiction|].
  destruct l as [|m r]; [contradiction|].
  destruct (splitByRange_skip (maxt m) (splitByRange_t0 (mint m) tr) tr) eqn:E.
  - intros Hin. destruct (IH r Hin) as (m' & g' & -> & Hs & Hf).
    exists m', g'. repeat split; auto. now apply segment_cons.
  - destruct (take_fit (splitByRange_t0 (mint m) tr) tr r) as [g1 rest] eqn:T.
    destruct (take_fit_spec _ _ _ _ _ T) as (-> & Hf).
    intros [<-|Hin].
    + exists m, g1. repeat split; auto.
      * exists [], rest. reflexivity.
      * constructor; auto. apply skip_false, E.
    + destruct (IH rest Hin) as (m' & g' & -> & Hs & Hf').
      exists m', g'. repeat split; auto.
      eapply segment_trans; [exact Hs|]. exists (m :: g1), []. simpl. now rewrite app_nil_r.
Qed.

Definition sorted_mint (l : list meta) : Prop := pairwise (fun a b => mint a <= mint b) l.

(* a group of a list sorted by MinTime lies inside one aligned window *)
Definition in_window (t0 tr : Z) (p : list meta) : Prop :=
  Forall (fun q => t0 <= mint q /\ maxt q <= t0 + tr) p.

Lemma group_in_window l tr g : 0 < tr -> sorted_mint l -> In g (split_by_range l tr) ->
  exists m g', g = m :: g' /\ segment g l /\ in_window (splitByRange_t0 (mint m) tr) tr g.
Proof.
  intros Htr Hs Hin. destruct (sbr_spec _ _ _ _ Hin) as (m & g' & -> & Hseg & Hf).
  exists m, g'. repeat split; auto.
  pose proof (pairwise_sublist _ _ _ (segment_sublist _ _ Hseg) Hs) as Hp. simpl in Hp.
  destruct Hp as [Hm _]. destruct (t0_spec (mint m) tr Htr) as [Ht _].
  inversion Hf; subst. constructor; [split; [lia|auto]|].
  rewrite Forall_forall in *. intros q Hq. split; [specialize (Hm q Hq); lia | auto].
Qed.

(* ---- selectMetas ----------------------------------------------------------- *)

Lemma first_seg_spec marks cur p s :
  Forall (fun m => unmarked marks m = true) cur ->
  first_seg marks cur p = Some s ->
  segment s (rev cur ++ p) /\ (2 <= length s)%nat /\ Forall (fun m => unmarked marks m = true) s.
Proof.
  revert cur. induction p as [|m r IH]; intros cur Hc; cbn [first_seg].
  - destruct (2 <=? length cur)%nat eqn:E; [|intros; discriminate]. intros H; inversion H; subst.
    apply Nat.leb_le in E. rewrite app_nil_r, rev_length. repeat split; auto using segment_refl.
    apply Forall_rev, Hc.
  - destruct (marked marks m) eqn:M.
    + destruct (2 <=? length cur)%nat eqn:E.
      * intros H; inversion H; subst. apply Nat.leb_le in E. rewrite rev_length.
        repeat split; auto using segment_prefix. apply Forall_rev, Hc.
      * intros H. destruct (IH [] (Forall_nil _) H) as (Hs & Hl & Hu). repeat split; auto.
        simpl in Hs. eapply segment_trans; [exact Hs|].
        exists (rev cur ++ [m]), []. now rewrite app_nil_r, <- app_assoc.
    + intros H. assert (Hc' : Forall (fun m => unmarked marks m = true) (m :: cur)).
      { constructor; auto. unfold unmarked. now rewrite M. }
      destruct (IH _ Hc' H) as (Hs & Hl & Hu). repeat split; auto.
      simpl in Hs. now rewrite <- app_assoc in Hs.
Qed.

Lemma try_part_spec marks iv high p s : try_part marks iv high p = Some s ->
  segment s p /\ (2 <= length s)%nat /\ Forall (fun m => unmarked marks m = true) s.
Proof.
  unfold try_part. destruct (existsb failed p); [intros; discriminate|].
  destruct (length p <? 2)%nat; [intros; discriminate|].
  destruct (selectMetas_skip _ _ _ _); [intros; discriminate|].
  intros H. apply (first_seg_spec marks [] p s (Forall_nil _)) in H. exact H.
Qed.

Lemma select_metas_spec ranges marks l :
  select_metas ranges marks l = [] \/
  exists iv g, In iv (tl ranges) /\ In g (split_by_range l iv) /\
    segment (select_metas ranges marks l) g /\ (2 <= length (select_metas ranges marks l))%nat /\
    Forall (fun m => unmarked marks m = true) (select_metas ranges marks l).
Proof.
  unfold select_metas. destruct ranges as [|r0 [|r1 rs]]; auto.
  destruct l as [|m0 l0]; auto.
  set (l := m0 :: l0).
  destruct (first_some _ (r1 :: rs)) as [s|] eqn:F; auto.
  right. apply first_some_Some in F. destruct F as (iv & Hiv & F).
  apply first_some_Some in F. destruct F as (g & Hg & F).
  apply try_part_spec in F. exists iv, g. simpl tl. tauto.
Qed.

(* ---- tombstone rule ---------------------------------------------------------- *)

Lemma tomb_loop_spec thr l p : tomb_loop thr l = Some p ->
  p = [] \/ exists m t, p = [m] /\ In m l /\ heavy m = true /\ thr = Some t /\ t <= maxt m - mint m.
Proof.
  induction l as [|m r IH]; simpl.
  - intros H; inversion H; auto.
  - destruct thr as [t|]; [|intros; discriminate].
    destruct (maxt m - mint m <? t) eqn:E; [intros H; inversion H; auto|].
    destruct (heavy m) eqn:Hv.
    + intros H; inversion H; subst. right. exists m, t. apply Z.ltb_ge in E. repeat split; auto.
    + intros H. destruct (IH H) as [->|(m' & t' & -> & Hin & Hh & Ht & Hl)]; auto.
      right. exists m', t'. repeat split; auto.
Qed.

Lemma tomb_loop_total t l : exists p, tomb_loop (Some t) l = Some p.
Proof.
  induction l as [|m r IH]; simpl; eauto.
  destruct (maxt m - mint m <? t); eauto. destruct (heavy m); eauto.
Qed.

Lemma mid_range_some ranges : ranges <> [] -> exists t, mid_range ranges = Some t /\ In t ranges.
Proof.
  intros H. unfold mid_range.
  destruct (nth_error ranges (length ranges / 2)) eqn:E.
  - exists z. split; auto. eapply nth_error_In, E.
  - apply nth_error_None in E. destruct ranges; [congruence|]. simpl length in E.
    pose proof (Nat.div_lt (S (length ranges)) 2). lia.
Qed.

(* ---- plan --------------------------------------------------------------------- *)

Definition Unmarked marks (p : list meta) : Prop := Forall (fun m => unmarked marks m = true) p.

Lemma filter_unmarked marks l : Unmarked marks (filter (unmarked marks) l).
Proof. apply Forall_forall. intros x Hx. apply filter_In in Hx. tauto. Qed.

(* the plan never panics on a non-empty group when a range is configured *)
Lemma plan_total ranges marks l : l <> [] -> ranges <> [] -> exists p, plan ranges marks l = Some p.
Proof.
  intros Hl Hr. unfold plan. destruct l as [|m0 l0]; [congruence|].
  destruct (select_overlapping _); eauto.
  destruct (select_metas _ _ _); eauto.
  destruct (mid_range_some ranges Hr) as (t & -> & _). apply tomb_loop_total.
Qed.

(* where a plan comes from *)
Inductive origin (ranges marks : list Z) (l p : list meta) : Prop :=
| from_nothing : select_overlapping (filter (unmarked marks) l) = [] -> p = [] -> origin ranges marks l p
| from_overlap : p = select_overlapping (filter (unmarked marks) l) -> (2 <= length p)%nat -> origin ranges marks l p
| from_ranges : select_overlapping (filter (unmarked marks) l) = [] ->
    p = select_metas ranges marks (removelast l) -> (2 <= length p)%nat -> origin ranges marks l p
| from_tombstones m t : select_overlapping (filter (unmarked marks) l) = [] ->
    p = [m] -> In m (removelast (filter (unmarked marks) l)) \/ (marked marks (last l dummy) = true /\ In m (filter (unmarked marks) l)) ->
    heavy m = true -> mid_range ranges = Some t -> t <= maxt m - mint m -> origin ranges marks l p.

Lemma plan_origin ranges marks l p : plan ranges marks l = Some p -> origin ranges marks l p.
Proof.
  unfold plan. destruct l as [|m0 l0]; [intros; discriminate|]. set (l := m0 :: l0).
  destruct (select_overlapping (filter (unmarked marks) l)) as [|a s] eqn:Ov.
  - destruct (select_metas ranges marks (removelast l)) as [|b s'] eqn:Sm.
    + intros H. apply tomb_loop_spec in H. destruct H as [->|(m & t & -> & Hin & Hh & Ht & Hl)].
      * apply from_nothing; auto.
      * apply (from_tombstones _ _ _ _ m t); auto.
        apply in_rev in Hin. destruct (marked marks (last l dummy)); auto.
    + intros H; inversion H; subst. apply from_ranges; auto.
      destruct (select_metas_spec ranges marks (removelast l)) as [E|(iv & g & _ & _ & _ & Hlen & _)];
        rewrite Sm in *; [discriminate | auto].
  - intros H; inversion H; subst. apply from_overlap; auto.
    destruct (select_overlapping_len (filter (unmarked marks) l)) as [E|E]; rewrite Ov in *; [discriminate|auto].
Qed.

(* clause 1: at least two blocks, or a single tombstone-heavy block of at least the middle range *)
Lemma plan_size ranges marks l p : plan ranges marks l = Some p ->
  p = [] \/ (2 <= length p)%nat \/
  exists m t, p = [m] /\ heavy m = true /\ mid_range ranges = Some t /\ t <= maxt m - mint m.
Proof.
  intros H. destruct (plan_origin _ _ _ _ H); auto. right; right. eauto 8.
Qed.

Lemma removelast_In {A} (l : list A) x : In x (removelast l) -> In x l.
Proof. intros H. eapply sublist_In; [apply sublist_removelast | exact H]. Qed.

(* clause 2: no planned block is marked no-compact *)
Lemma plan_unmarked ranges marks l p : plan ranges marks l = Some p -> Unmarked marks p.
Proof.
  intros H. destruct (plan_origin _ _ _ _ H) as [_ ->| -> _ | _ -> _ | m t _ -> Hin _ _ _].
  - constructor.
  - eapply sublist_Forall; [apply segment_sublist, select_overlapping_segment | apply filter_unmarked].
  - destruct (select_metas_spec ranges marks (removelast l)) as [->|(iv & g & _ & _ & _ & _ & Hu)]; [constructor|exact Hu].
  - constructor; [|constructor].
    assert (Hm : In m (filter (unmarked marks) l)) by (destruct Hin as [Hin|[_ Hin]]; auto using removelast_In).
    apply filter_In in Hm. tauto.
Qed.

(* clause 3: the plan is a subsequence of the group handed to the planner *)
Lemma plan_sublist ranges marks l p : plan ranges marks l = Some p -> sublist p l.
Proof.
  intros H. destruct (plan_origin _ _ _ _ H) as [_ ->| -> _ | _ -> _ | m t _ -> Hin _ _ _].
  - constructor.
  - eapply sublist_trans; [apply segment_sublist, select_overlapping_segment | apply sublist_filter].
  - destruct (select_metas_spec ranges marks (removelast l)) as [->|(iv & g & _ & Hg & Hs & _ & _)]; [constructor|].
    eapply sublist_trans; [apply segment_sublist, Hs|].
    destruct (sbr_spec _ _ _ _ Hg) as (m & g' & -> & Hseg & _).
    eapply sublist_trans; [apply segment_sublist, Hseg | apply sublist_removelast].
  - apply sublist_single.
    assert (Hm : In m (filter (unmarked marks) l)) by (destruct Hin as [Hin|[_ Hin]]; auto using removelast_In).
    apply filter_In in Hm. tauto.
Qed.

(* ---- clause 4: non-overlapping (not excluded) blocks ------------------------- *)

Lemma removelast_filter_sublist {A} (f : A -> bool) l : sublist (removelast (filter f l)) (removelast l).
Proof.
  destruct l as [|a0 l0]; [simpl; constructor|].
  assert (Hne : a0 :: l0 <> []) by discriminate.
  destruct (exists_last Hne) as (l' & x & ->).
  rewrite filter_app, removelast_last. simpl. destruct (f x).
  - rewrite removelast_last. apply sublist_filter.
  - rewrite app_nil_r. eapply sublist_trans; [apply sublist_removelast | apply sublist_filter].
Qed.

Lemma In_removelast {A} (l : list A) d x : In x l -> x <> last l d -> In x (removelast l).
Proof.
  intros Hin Hne. assert (Hl : l <> []) by (destruct l; [contradiction|discriminate]).
  rewrite (removelast_last_eq l d Hl) in Hin. apply in_app_or in Hin. destruct Hin as [H|[H|[]]]; auto.
  congruence.
Qed.

Lemma plan_disjoint_newest ranges marks l p :
  plan ranges marks l = Some p -> disjoint_sorted (filter (unmarked marks) l) ->
  sublist p (removelast l).
Proof.
  intros H Hd. apply select_overlapping_nil in Hd.
  destruct (plan_origin _ _ _ _ H) as [_ ->| -> Hlen | _ -> _ | m t _ -> Hin _ _ _].
  - constructor.
  - rewrite Hd in Hlen. simpl in Hlen. lia.
  - destruct (select_metas_spec ranges marks (removelast l)) as [->|(iv & g & _ & Hg & Hs & _ & _)]; [constructor|].
    eapply sublist_trans; [apply segment_sublist, Hs|].
    destruct (sbr_spec _ _ _ _ Hg) as (m & g' & -> & Hseg & _). apply segment_sublist, Hseg.
  - apply sublist_single. destruct Hin as [Hin|[Hm Hin]].
    + eapply sublist_In; [apply removelast_filter_sublist | exact Hin].
    + apply filter_In in Hin. destruct Hin as [Hin Hu]. apply (In_removelast l dummy); auto.
      intros ->. unfold unmarked in Hu. rewrite Hm in Hu. discriminate.
Qed.

Lemma NoDup_last_not_in_removelast {A} (l : list A) d : l <> [] -> NoDup l -> ~ In (last l d) (removelast l).
Proof.
  intros Hl Hn Hin. rewrite (removelast_last_eq l d Hl) in Hn.
  apply NoDup_remove_2 in Hn. rewrite app_nil_r in Hn. contradiction.
Qed.

Lemma map_removelast {A B} (f : A -> B) l : map f (removelast l) = removelast (map f l).
Proof. induction l as [|a [|b r] IH]; simpl; auto. simpl in IH. now rewrite IH. Qed.

Lemma map_last {A B} (f : A -> B) l d : map f l <> [] -> f (last l d) = last (map f l) (f d).
Proof.
  induction l as [|a [|b r] IH]; intros H.
  - simpl in H. congruence.
  - reflexivity.
  - change (f (last (b :: r) d) = last (map f (b :: r)) (f d)). apply IH. discriminate.
Qed.

Lemma plan_disjoint_newest_id ranges marks l p :
  plan ranges marks l = Some p -> disjoint_sorted (filter (unmarked marks) l) ->
  NoDup (map bid l) -> ~ In (bid (last l dummy)) (map bid p).
Proof.
  intros H Hd Hn Hin. pose proof (plan_disjoint_newest _ _ _ _ H Hd) as Hs.
  apply (sublist_map bid) in Hs. rewrite map_removelast in Hs.
  assert (Hl : map bid l <> []). { destruct l; [discriminate H | discriminate]. }
  rewrite (map_last bid l dummy Hl) in Hin.
  eapply NoDup_last_not_in_removelast; [exact Hl | exact Hn | eapply sublist_In; eauto].
Qed.

Definition positive_ranges (ranges : list Z) : Prop := Forall (fun r => 0 < r) ranges.

Lemma in_window_sublist t0 tr a b : sublist a b -> in_window t0 tr b -> in_window t0 tr a.
Proof. apply sublist_Forall. Qed.

(* a plan of two or more non-overlapping blocks lies inside one aligned window
   [iv*k, iv*k + iv] of one of the configured ranges ranges[1:] *)
Lemma plan_disjoint_window ranges marks l p :
  plan ranges marks l = Some p -> disjoint_sorted (filter (unmarked marks) l) ->
  positive_ranges ranges -> sorted_mint l -> (2 <= length p)%nat ->
  exists iv k, In iv (tl ranges) /\ in_window (iv * k) iv p.
Proof.
  intros H Hd Hr Hs Hlen. apply select_overlapping_nil in Hd.
  destruct (plan_origin _ _ _ _ H) as [_ ->| -> Hl2 | _ -> _ | m t _ -> Hin _ _ _].
  - simpl in Hlen. lia.
  - rewrite Hd in Hl2. simpl in Hl2. lia.
  - destruct (select_metas_spec ranges marks (removelast l)) as [E|(iv & g & Hiv & Hg & Hseg & _ & _)].
    + rewrite E in Hlen. simpl in Hlen. lia.
    + assert (Hpos : 0 < iv).
      { unfold positive_ranges in Hr. rewrite Forall_forall in Hr. apply Hr. destruct ranges; [contradiction|]. right. exact Hiv. }
      assert (Hs' : sorted_mint (removelast l)) by (eapply pairwise_sublist; [apply sublist_removelast | exact Hs]).
      destruct (group_in_window _ _ _ Hpos Hs' Hg) as (m & g' & -> & _ & Hw).
      destruct (t0_spec (mint m) iv Hpos) as [_ Hk].
      exists iv, (mint m / iv). split; auto. rewrite <- Hk.
      eapply in_window_sublist; [apply segment_sublist, Hseg | exact Hw].
  - simpl in Hlen. lia.
Qed.

(* ---- convergence of plan / apply ----------------------------------------------- *)

Lemma insert_length b l : length (insert_by_mint b l) = S (length l).
Proof. induction l as [|m r IH]; simpl; auto. destruct (mint b <? mint m); simpl; auto. Qed.

Lemma insert_filter_length f b l :
  length (filter f (insert_by_mint b l)) = length (filter f (b :: l)).
Proof.
  induction l as [|m r IH]; auto. cbn [insert_by_mint].
  destruct (mint b <? mint m); auto.
  cbn [filter] in *. destruct (f m), (f b); cbn [length] in *; lia.
Qed.

Lemma insert_In b l x : In x (insert_by_mint b l) <-> x = b \/ In x l.
Proof.
  induction l as [|m r IH]; simpl; [intuition|].
  destruct (mint b <? mint m); simpl; rewrite ?IH; intuition.
Qed.

Lemma in_plan_self p m : In m p -> in_plan p m = true.
Proof. intros H. unfold in_plan. apply existsb_exists. exists m. split; auto. apply Z.eqb_refl. Qed.

(* block counts are uint64 in the code *)
Definition wf (l : list meta) : Prop := Forall (fun m => 0 <= nseries m) l.

Lemma sum_nonneg l : Forall (fun x => 0 <= x) l -> 0 <= fold_right Z.add 0 l.
Proof. induction 1; simpl; lia. Qed.

Lemma hull_not_heavy p newid : wf p -> heavy (hull p newid) = false.
Proof.
  intros Hw. unfold heavy, hull. simpl. apply Z.ltb_ge.
  assert (0 <= fold_right Z.add 0 (map nseries p)); [|lia].
  apply sum_nonneg. apply Forall_map. exact Hw.
Qed.

Lemma wf_apply l p newid : wf l -> wf p -> wf (apply_plan l p newid).
Proof.
  intros Hl Hp. unfold wf, apply_plan. apply Forall_forall. intros x Hx.
  apply insert_In in Hx. destruct Hx as [->|Hx].
  - simpl. apply sum_nonneg, Forall_map, Hp.
  - apply filter_In in Hx. unfold wf in Hl. rewrite Forall_forall in Hl. apply Hl, Hx.
Qed.

Lemma apply_nonempty l p newid : apply_plan l p newid <> [].
Proof.
  unfold apply_plan. intros E. apply (f_equal (@length _)) in E. rewrite insert_length in E. discriminate.
Qed.

Lemma measure_decreases ranges marks l p newid :
  wf l -> plan ranges marks l = Some p -> p <> [] ->
  (measure (apply_plan l p newid) < measure l)%nat.
Proof.
  intros Hw H Hne. pose proof (plan_sublist _ _ _ _ H) as Hsub.
  assert (Hwp : wf p) by (eapply sublist_Forall; eauto).
  set (keep := fun m => negb (in_plan p m)).
  assert (Hrej : forall x, In x p -> keep x = false).
  { intros x Hx. unfold keep. now rewrite in_plan_self. }
  pose proof (filter_sublist_length keep p l Hsub Hrej) as Hlen.
  unfold measure, apply_plan. fold keep.
  rewrite insert_length, insert_filter_length. cbn [filter]. rewrite (hull_not_heavy p newid Hwp).
  rewrite filter_filter_comm.
  pose proof (filter_sublist_length keep (filter heavy p) (filter heavy l) (sublist_filter_mono heavy _ _ Hsub)) as Hh.
  assert (Hh' : (length (filter keep (filter heavy l)) + length (filter heavy p) <= length (filter heavy l))%nat).
  { apply Hh. intros x Hx. apply filter_In in Hx. apply Hrej, Hx. }
  destruct (plan_size _ _ _ _ H) as [->|[H2|(m & t & -> & Hm & _)]]; [congruence| lia |].
  cbn [filter length] in *. rewrite Hm in Hh'. cbn [length] in Hh'. lia.
Qed.

Lemma iterate_converges ranges marks : ranges <> [] ->
  forall n l newid, wf l -> l <> [] -> (measure l < n)%nat ->
  exists h fin, iterate n ranges marks l newid = Some (h, fin) /\
    plan ranges marks fin = Some [] /\ (length h <= measure l)%nat /\ wf fin /\ fin <> [].
Proof.
  intros Hr. induction n as [|n IH]; intros l newid Hw Hl Hm; [lia|].
  cbn [iterate]. destruct (plan_total ranges marks l Hl Hr) as (p & Hp). rewrite Hp.
  destruct p as [|a p'].
  - exists [], l. repeat split; auto. simpl. lia.
  - set (p := a :: p') in *.
    assert (Hne : p <> []) by discriminate.
    pose proof (measure_decreases _ _ _ _ newid Hw Hp Hne) as Hdec.
    assert (Hwp : wf p) by (eapply sublist_Forall; [eapply plan_sublist; eauto | exact Hw]).
    destruct (IH (apply_plan l p newid) (newid + 1) (wf_apply _ _ _ Hw Hwp) (apply_nonempty _ _ _)) as (h & fin & Hit & Hfin & Hlen & Hwf & Hfne); [lia|].
    rewrite Hit. exists (map bid p :: h), fin. repeat split; auto. simpl. lia.
Qed.

Lemma plan_nil_disjoint ranges marks l : plan ranges marks l = Some [] ->
  disjoint_sorted (filter (unmarked marks) l).
Proof.
  intros H. apply select_overlapping_nil.
  destruct (plan_origin _ _ _ _ H) as [E _| E Hlen | E _ _ | m t E _ _ _ _ _]; auto.
Qed.

(* ---- from the Prop clauses to the boolean predicate the check evaluates ---- *)

Lemma NoDup_sublist {A} (a b : list A) : sublist a b -> NoDup b -> NoDup a.
Proof.
  induction 1; intros Hn.
  - constructor.
  - inversion Hn; auto.
  - inversion Hn; subst. constructor; auto. intros Hin. apply H2. eapply sublist_In; eauto.
Qed.

Lemma find_meta_In l m : NoDup (map bid l) -> In m l -> find_meta l (bid m) = Some m.
Proof.
  unfold find_meta. induction l as [|a l IH]; simpl; intros Hn Hin; [contradiction|].
  inversion Hn; subst. destruct Hin as [->|Hin].
  - now rewrite Z.eqb_refl.
  - destruct (bid a =? bid m) eqn:E; auto.
    apply Z.eqb_eq in E. exfalso. apply H1. rewrite E. apply in_map, Hin.
Qed.

Lemma lookup_all_sublist l p : NoDup (map bid l) -> (forall m, In m p -> In m l) ->
  lookup_all l (map bid p) = Some p.
Proof.
  intros Hn. induction p as [|m p IH]; simpl; intros Hin; auto.
  rewrite (find_meta_In l m Hn) by auto. rewrite IH by auto. reflexivity.
Qed.

Lemma subseq_ids_sublist p l : NoDup (map bid l) -> sublist p l -> subseq_ids (map bid p) l = true.
Proof.
  intros Hn Hs. induction Hs.
  - destruct l; reflexivity.
  - destruct l1 as [|x l1]; [reflexivity|]. simpl. inversion Hn; subst.
    destruct (bid x =? bid a) eqn:E.
    + apply Z.eqb_eq in E. exfalso. apply H1. rewrite <- E. apply in_map.
      eapply sublist_In; [exact Hs | left; reflexivity].
    + apply IHHs, H2.
  - simpl. rewrite Z.eqb_refl. inversion Hn; subst. auto.
Qed.

Lemma hull_lo q p d : In q p -> fold_right Z.min d (map mint p) <= mint q.
Proof. induction p as [|a p IH]; simpl; intros H; [contradiction|]. destruct H as [->|H]; [lia | specialize (IH H); lia]. Qed.

Lemma hull_hi q p d : In q p -> maxt q <= fold_right Z.max d (map maxt p).
Proof. induction p as [|a p IH]; simpl; intros H; [contradiction|]. destruct H as [->|H]; [lia | specialize (IH H); lia]. Qed.

Lemma hull_lo_ge t p d : t <= d -> Forall (fun q => t <= mint q) p -> t <= fold_right Z.min d (map mint p).
Proof. intros Hd. induction 1; simpl; lia. Qed.

Lemma hull_hi_le t p d : d <= t -> Forall (fun q => maxt q <= t) p -> fold_right Z.max d (map maxt p) <= t.
Proof. intros Hd. induction 1; simpl; lia. Qed.

Lemma hull_in_window t0 tr p newid : p <> [] -> in_window t0 tr p ->
  t0 <= mint (hull p newid) /\ maxt (hull p newid) <= t0 + tr.
Proof.
  intros Hne Hw. destruct p as [|a p]; [congruence|]. unfold hull. cbn [mint maxt hd].
  unfold in_window in Hw. pose proof Hw as Hw'. inversion Hw'; subst. destruct H1 as [Ha Hb].
  split.
  - apply hull_lo_ge; [exact Ha|]. eapply Forall_impl; [|exact Hw]. simpl. tauto.
  - apply hull_hi_le; [exact Hb|]. eapply Forall_impl; [|exact Hw]. simpl. tauto.
Qed.

Lemma fits_window_of_in_window iv k p : 0 < iv -> in_window (iv * k) iv p -> fits_window iv p = true.
Proof.
  intros Hiv Hw. unfold fits_window. destruct p as [|a p]; auto. set (q := a :: p) in *.
  destruct (hull_in_window (iv * k) iv q 0) as [Hlo Hhi]; [discriminate | exact Hw |].
  apply Z.leb_le. destruct (t0_spec (mint (hull q 0)) iv Hiv) as [_ ->].
  assert (k <= mint (hull q 0) / iv) by (apply Z.div_le_lower_bound; lia). nia.
Qed.

Lemma size_ok_of_plan ranges marks l p : plan ranges marks l = Some p -> size_ok ranges p = true.
Proof.
  intros H. destruct (plan_size _ _ _ _ H) as [->|[H2|(m & t & -> & Hm & Ht & Hl)]]; auto.
  - destruct p as [|a [|b r]]; simpl in *; auto; lia.
  - simpl. rewrite Hm, Ht. apply Z.leb_le in Hl. now rewrite Hl.
Qed.

Lemma plan_pred_holds ranges marks l p :
  positive_ranges ranges -> sorted_mint l -> NoDup (map bid l) ->
  plan ranges marks l = Some p -> plan_pred ranges marks l (map bid p) = true.
Proof.
  intros Hr Hs Hn H. unfold plan_pred.
  pose proof (plan_sublist _ _ _ _ H) as Hsub.
  rewrite (lookup_all_sublist l p Hn) by (intros m Hm; eapply sublist_In; eauto).
  rewrite (size_ok_of_plan _ _ _ _ H).
  assert (Hu : forallb (unmarked marks) p = true).
  { apply forallb_forall. pose proof (plan_unmarked _ _ _ _ H) as Hu. unfold Unmarked in Hu.
    rewrite Forall_forall in Hu. exact Hu. }
  rewrite Hu, (subseq_ids_sublist p l Hn Hsub). cbn [andb].
  destruct (select_overlapping (filter (unmarked marks) l)) eqn:Ov; auto.
  apply select_overlapping_nil in Ov.
  pose proof (plan_disjoint_newest _ _ _ _ H Ov) as Hnew.
  rewrite (subseq_ids_sublist p (removelast l)); auto.
  2:{ rewrite map_removelast. eapply NoDup_sublist; [apply sublist_removelast | exact Hn]. }
  cbn [andb]. destruct (length p <? 2)%nat eqn:L; auto. apply Nat.ltb_ge in L.
  destruct (plan_disjoint_window _ _ _ _ H Ov Hr Hs L) as (iv & k & Hiv & Hw).
  cbn [orb]. apply existsb_exists. exists iv. split; auto.
  apply (fits_window_of_in_window iv k); auto.
  unfold positive_ranges in Hr. rewrite Forall_forall in Hr. apply Hr. destruct ranges; [contradiction | right; exact Hiv].
Qed.

Lemma plan_pred_ok ranges marks l :
  l <> [] -> ranges <> [] -> positive_ranges ranges -> sorted_mint l -> NoDup (map bid l) ->
  exists p, plan ranges marks l = Some p /\
    corr_ok (CPlan ranges marks l (Some (map bid p))) = true /\
    pred_ok (CPlan ranges marks l (Some (map bid p))) = true.
Proof.
  intros Hl Hr Hp Hs Hn. destruct (plan_total ranges marks l Hl Hr) as (p & H).
  exists p. split; auto. split.
  - simpl. rewrite H. simpl. unfold ids_eqb. apply list_eqb_spec; auto. intros; apply Z.eqb_eq.
  - simpl. destruct l; [congruence|]. destruct ranges; [congruence|].
    apply plan_pred_holds; auto.
Qed.

(* ---- statements in the exact form used by Properties/C30.v -------------------- *)

Lemma plan_no_nocompact ranges marks l p : plan ranges marks l = Some p ->
  Forall (fun m => marked marks m = false) p.
Proof.
  intros H. pose proof (plan_unmarked _ _ _ _ H) as Hu.
  eapply Forall_impl; [|exact Hu]. intros m Hm. unfold unmarked in Hm. now destruct (marked marks m).
Qed.

Lemma plan_newest_excluded ranges marks l p :
  plan ranges marks l = Some p -> disjoint_sorted (filter (unmarked marks) l) ->
  sublist p (removelast l) /\ (NoDup (map bid l) -> ~ In (bid (last l dummy)) (map bid p)).
Proof.
  intros H Hd. split; [exact (plan_disjoint_newest _ _ _ _ H Hd)|].
  intros Hn. exact (plan_disjoint_newest_id _ _ _ _ H Hd Hn).
Qed.

Lemma converges ranges marks l newid :
  ranges <> [] -> l <> [] -> wf l ->
  exists h fin, iterate (S (measure l)) ranges marks l newid = Some (h, fin) /\
    plan ranges marks fin = Some [] /\ (length h <= measure l)%nat /\
    disjoint_sorted (filter (unmarked marks) fin).
Proof.
  intros Hr Hl Hw.
  destruct (iterate_converges ranges marks Hr (S (measure l)) l newid Hw Hl (Nat.lt_succ_diag_r _))
    as (h & fin & H1 & H2 & H3 & _ & _).
  exists h, fin. repeat split; auto. exact (plan_nil_disjoint _ _ _ H2).
Qed.

(* ---- largeTotalIndexSizeFilter.plan terminates ---------------------------------- *)

Lemma idx_scan_in lim p : forall total mx big b, idx_scan lim total mx big p = Some b ->
  b = big \/ exists m, In m p /\ bid m = b.
Proof.
  induction p as [|m r IH]; intros total mx big b; simpl; [discriminate|].
  destruct (total + isize m >=? lim).
  - intros H. inversion H; subst. destruct (mx <? isize m); [right; exists m; auto | left; auto].
  - intros H. apply IH in H. destruct H as [->|(m' & Hm' & E)].
    + destruct (mx <? isize m); [right; exists m; auto | left; auto].
    + right. exists m'. auto.
Qed.

Lemma filter_length_lt {A} (f g : A -> bool) l m :
  (forall x, f x = true -> g x = true) -> In m l -> g m = true -> f m = false ->
  (length (filter f l) < length (filter g l))%nat.
Proof.
  intros Hfg. induction l as [|a l IH]; simpl; intros Hin Hg Hf; [contradiction|].
  assert (Hle : (length (filter f l) <= length (filter g l))%nat).
  { clear IH Hin. induction l as [|c l IHl]; simpl; auto.
    destruct (f c) eqn:Fc; [rewrite (Hfg c Fc); simpl; lia | destruct (g c); simpl; lia]. }
  destruct Hin as [->|Hin].
  - rewrite Hg, Hf. simpl. lia.
  - specialize (IH Hin Hg Hf). destruct (f a) eqn:Fa; [rewrite (Hfg a Fa); simpl; lia | destruct (g a); simpl; lia].
Qed.

Lemma idx_plan_terminates ranges lim l : forall n marks,
  (length (filter (unmarked marks) l) < n)%nat ->
  exists r, idx_plan n ranges marks lim l = Some r.
Proof.
  induction n as [|n IH]; intros marks Hlt; [lia|]. cbn [idx_plan].
  destruct (plan ranges marks l) as [p|] eqn:Hp; [|eauto].
  destruct (idx_scan lim 0 int64_min (bid (hd dummy p)) p) as [b|] eqn:Hs; [|eauto].
  assert (Hm : exists m, In m p /\ bid m = b).
  { destruct (idx_scan_in _ _ _ _ _ _ Hs) as [->|H]; auto.
    destruct p as [|m0 p']; [simpl in Hs; discriminate|]. exists m0. simpl. auto. }
  destruct Hm as (m & Hmp & <-).
  assert (Hml : In m l) by (eapply sublist_In; [eapply plan_sublist; eauto | exact Hmp]).
  assert (Hmu : unmarked marks m = true).
  { pose proof (plan_unmarked _ _ _ _ Hp) as Hu. unfold Unmarked in Hu. rewrite Forall_forall in Hu. auto. }
  assert (Hdec : (length (filter (unmarked (bid m :: marks)) l) < length (filter (unmarked marks) l))%nat).
  { apply (filter_length_lt _ _ l m); auto.
    - intros x. unfold unmarked, marked. simpl. destruct (bid x =? bid m); simpl; [discriminate|auto].
    - unfold unmarked, marked. simpl. now rewrite Z.eqb_refl. }
  destruct (IH (bid m :: marks)) as ([res ms] & ->); [lia|]. eauto.
Qed.

Lemma index_filter_terminates ranges marks lim l :
  exists res ms, idx_plan (S (length l)) ranges marks lim l = Some (res, ms).
Proof.
  destruct (idx_plan_terminates ranges lim l (S (length l)) marks) as ([res ms] & H); eauto.
  pose proof (sublist_length _ _ (sublist_filter (unmarked marks) l)). lia.
Qed.
