(* C02 — proofs: counter deduplication never fabricates counter resets.
   Three ingredients from Lib: Dedup_Counter (values never decrease along
   Next / Seek when the replicas' values never decrease), Dedup_Sim (counter mode
   takes the same decisions as non-counter mode, so timestamps and exhaustion are
   the same) and Dedup_Refine (the non-counter iterator is a reader of the
   specification-level penalty merge). *)
From Coq Require Import ZArith List Bool Lia.
Import ListNotations.
From Verif Require Import Lib.Corr Lib.Dedup_Iter Lib.Dedup_SpecFacts Lib.Dedup_Refine Lib.Dedup_Counter Lib.Dedup_Sim.
From Verif Require Import Gen.C02 Model.C02.
Open Scope Z_scope.

Lemma source_shape : adjust_shape_ok = true.
Proof. vm_compute. reflexivity. Qed.

Lemma sample_eqb_spec x y : sample_eqb x y = true <-> x = y.
Proof.
  unfold sample_eqb. destruct x as [a b], y as [c d]; simpl. rewrite andb_true_iff, !Z.eqb_eq.
  split; [intros [-> ->]; reflexivity|intro H; inversion H; auto].
Qed.
Lemma samples_eqb_spec l1 l2 : samples_eqb l1 l2 = true <-> l1 = l2.
Proof. apply list_eqb_spec. exact sample_eqb_spec. Qed.
Lemma obs_eqb_spec x y : obs_eqb x y = true <-> x = y.
Proof.
  unfold obs_eqb, option_eqb. destruct x, y; try (split; [discriminate|discriminate]); try tauto.
  rewrite sample_eqb_spec. split; [intros ->; reflexivity|intro H; inversion H; reflexivity].
Qed.

(* ---------- readers of a counter-mode iterator ---------- *)
Section CounterReaders.
  Variables o1 o2 : iobj.
  Variable V : vcontract o1.
  Variable C : contract o2.
  Variable S : sim o1 o2.

  Lemma run_ops_nondecr : forall ops x1 x2 st cur futl lo,
    VInv V x1 -> Inv C x2 -> R S x1 x2 -> rel o2 C x2 st cur futl ->
    (st = false -> VFresh V x1) ->
    (if valid o1 x1 then lo = Some (val o1 x1) else st = true \/ lo = None) ->
    proto_ok st cur futl ops = true ->
    obs_nondecr_from lo (obs_vals (run_ops o1 x1 ops)) = true.
  Proof.
    induction ops as [|p ops IH]; intros x1 x2 st cur futl lo Hv Hi HR Hrel Hfr Hlo Hp; [reflexivity|].
    cbn [run_ops proto_ok] in *. apply andb_true_iff in Hp as [Hp1 Hp2].
    pose proof (s_valid S _ _ HR) as Hval.
    (* the non-counter twin makes the step of a list reader *)
    assert (Hcond : forall t, p = OSeek t -> valid o2 x2 = true \/ Fresh C x2).
    { intros t ->. unfold rel in Hrel. destruct cur as [c|].
      - left. destruct Hrel as [H _]. exact H.
      - destruct Hrel as (_ & _ & Hf & Hex). destruct st.
        + rewrite (Hex eq_refl) in Hp1. simpl in Hp1. discriminate.
        + right. apply Hf. reflexivity. }
    assert (Hstep2 : Inv C (step o2 p x2) /\
            settled o2 (fut C) (step o2 p x2)
              (match p with ONext => futl | OSeek t => drop_lt t (lstream cur futl) end)).
    { destruct p as [|t]; cbn [step].
      - destruct (c_next C x2 Hi) as [H1 H2]. split; [exact H1|].
        replace futl with (fut C x2); [exact H2|].
        unfold rel in Hrel. destruct cur; [destruct Hrel as (_ & _ & H)|destruct Hrel as (_ & H & _)]; exact H.
      - rewrite <- (rel_str _ _ _ _ _ _ Hrel). apply (c_seek C); [exact Hi|]. apply (Hcond t). reflexivity. }
    destruct Hstep2 as [Hi' Hs'].
    assert (Hv' : VInv V (step o1 p x1)).
    { destruct p as [|t]; cbn [step]; [apply (v_next_inv V); exact Hv|].
      apply (v_seek_inv V); [exact Hv|]. destruct (Hcond t eq_refl) as [H|H].
      - left. rewrite Hval. exact H.
      - destruct st; [|right; apply Hfr; reflexivity].
        (* started and not valid: excluded by the protocol *)
        unfold rel in Hrel. destruct cur as [c|].
        + left. rewrite Hval. destruct Hrel as [Hx _]. exact Hx.
        + destruct Hrel as (_ & _ & _ & Hex). rewrite (Hex eq_refl) in Hp1. simpl in Hp1. discriminate. }
    assert (HR' : R S (step o1 p x1) (step o2 p x2))
      by (destruct p; [apply (s_next S)|apply (s_seek S)]; exact HR).
    pose proof (s_valid S _ _ HR') as Hval'.
    pose proof (rel_of_settled _ _ _ _ Hs') as Hrel'.
    pose proof (settled_valid _ _ _ _ Hs') as Hvl.
    set (l := match p with ONext => futl | OSeek t => drop_lt t (lstream cur futl) end) in *.
    unfold observe at 1. rewrite Hval', Hvl.
    destruct l as [|s f] eqn:El; cbn [nonempty obs_vals map option_map obs_nondecr_from].
    - (* exhausted *)
      eapply IH; try eassumption.
      + discriminate.
      + rewrite Hval', Hvl. left. reflexivity.
    - (* a sample *)
      apply andb_true_iff. split.
      + destruct lo as [w|]; [|reflexivity]. apply Z.leb_le.
        destruct (valid o1 x1) eqn:Ev1.
        * inversion Hlo; subst w.
          assert (Hv1' : valid o1 (step o1 p x1) = true) by (rewrite Hval', Hvl; reflexivity).
          destruct p; cbn [step] in *; [apply (v_next_mono V)|apply (v_seek_mono V)]; assumption.
        * destruct Hlo as [Hst|Hlo]; [|discriminate]. subst st.
          (* started, invalid: the list reader is exhausted, so no sample can come *)
          exfalso. unfold rel in Hrel. destruct cur as [c|].
          -- destruct Hrel as [Hx _]. congruence.
          -- destruct Hrel as (_ & _ & _ & Hex). specialize (Hex eq_refl). subst futl.
             destruct p; [discriminate El|]. simpl in Hp1. discriminate.
      + eapply IH; try eassumption.
        * discriminate.
        * rewrite Hval', Hvl. reflexivity.
  Qed.
End CounterReaders.

(* ---------- the theorems for the fold ---------- *)
Definition values_never_decrease (l : list sample) : Prop := nondecr (map snd l) = true.

Lemma vmono_forallb reps :
  forallb (fun l => nondecr (map snd l)) reps = true -> Forall vmono reps.
Proof. intro H. apply Forall_forall. intros l Hl. exact (proj1 (forallb_forall _ _) H l Hl). Qed.

Lemma counter_drain f r :
  exists out, drain (counter_iter f r) = Some out /\ map ts out = map ts (pmerge_all cfg f r).
Proof.
  apply tower_counter_same_timestamps. apply tower_drain.
Qed.

Lemma counter_monotone f r :
  Forall values_never_decrease (f :: r) ->
  exists out, drain (counter_iter f r) = Some out /\ values_never_decrease out
              /\ map ts out = map ts (pmerge_all cfg f r).
Proof.
  intro H. destruct (counter_drain f r) as (out & Hd & Hts).
  exists out. split; [exact Hd|]. split; [|exact Hts].
  eapply tower_counter_monotone; [exact H|exact Hd].
Qed.

Lemma counter_reader_monotone f r ops :
  Forall values_never_decrease (f :: r) ->
  proto_ok false None (pmerge_all cfg f r) ops = true ->
  obs_nondecr_from None (obs_vals (run_prog (counter_iter f r) ops)) = true.
Proof.
  intros H Hp.
  destruct (tower_vcontract cfg f r H) as (V & Hv & Hvf).
  destruct (tower_contract cfg f r) as (C & Hi & Hf & Hfut).
  destruct (tower_sim cfg f r) as (S & HR).
  unfold run_prog, counter_iter.
  eapply (run_ops_nondecr _ _ V C S) with (st := false) (cur := None); try eassumption.
  - unfold rel. repeat split; auto. exact (c_fresh C _ Hf). discriminate.
  - intros _. exact Hvf.
  - rewrite (s_valid S _ _ HR), (c_fresh C _ Hf). right. reflexivity.
Qed.

Lemma list_eqb_refl {A} (eqb : A -> A -> bool) (H : forall x y, eqb x y = true <-> x = y) l : list_eqb eqb l l = true.
Proof. apply (list_eqb_spec eqb H). reflexivity. Qed.

Lemma model_pred f r ops :
  proto_ok false None (pmerge_all cfg f r) ops = true ->
  exists full reader,
    drain (counter_iter f r) = Some full /\ run_prog (counter_iter f r) ops = reader /\
    corr_ok (CInt (f :: r) ops full reader) = true /\
    pred_ok (CInt (f :: r) ops full reader) = true.
Proof.
  intro Hp. destruct (counter_drain f r) as (out & Hd & Hts).
  exists out, (run_prog (counter_iter f r) ops).
  split; [exact Hd|]. split; [reflexivity|]. split.
  - cbn [corr_ok]. rewrite Hd. cbn [option_eqb].
    rewrite (proj2 (samples_eqb_spec _ _) eq_refl). apply (list_eqb_refl obs_eqb obs_eqb_spec).
  - cbn [pred_ok]. destruct (forallb (fun l => nondecr (map snd l)) (f :: r)) eqn:E; [|reflexivity].
    apply vmono_forallb in E. apply andb_true_iff. split.
    + eapply tower_counter_monotone; [exact E|exact Hd].
    + apply counter_reader_monotone; assumption.
Qed.
