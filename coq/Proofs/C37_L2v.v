(* C37 — proofs, second level (values): the stitched values read over the 1h chunks are
   the adjusted raw counter at the emitted timestamps, when the 5m windows nest in the
   1h windows (res2 a multiple of res1). *)
From Coq Require Import ZArith List Bool Lia Sorted.
Import ListNotations.
From Verif Require Import Lib.Corr Lib.Downsample_Core Lib.Downsample_Batch Lib.Downsample_Raw
  Lib.Downsample_Windows Lib.Downsample_Aggr Lib.Downsample_Iter Lib.Downsample_Counter Gen.C37 Model.C37
  Proofs.C37 Proofs.C37_L2.
Open Scope Z_scope.

Ltac Zify.zify_post_hook ::= Z.to_euclidean_division_equations.

(* S1: windows nest *)
Lemma cw_nest res1 k t : 0 < res1 -> 0 < k -> 0 <= t -> cw t res1 <= cw t (k * res1).
Proof.
  intros Hr Hk Ht. unfold cw, currentWindow. rewrite !Z.rem_mod_nonneg by nia.
  rewrite (Z.mod_eq t res1), (Z.mod_eq t (k * res1)) by nia.
  assert (A : k * (t / (k * res1)) <= t / res1).
  { apply Z.div_le_lower_bound; [lia|]. 
    pose proof (Z.mul_div_le t (k * res1) ltac:(nia)). nia. }
  assert (B : t / res1 < k * (t / (k * res1) + 1)).
  { apply Z.div_lt_upper_bound; [lia|].
    pose proof (Z.mod_pos_bound t (k * res1) ltac:(nia)). pose proof (Z.div_mod t (k * res1) ltac:(nia)). nia. }
  nia.
Qed.

(* S2: on non-decreasing values the adjusted counter is the last value *)
Lemma adj_from_mono : forall vs lv tot,
  StronglySorted Z.le (lv :: vs) -> adj_from lv tot vs = tot + (last vs lv - lv).
Proof.
  induction vs as [|v r IH]; intros lv tot H; cbn [adj_from]; [cbn [last]; lia|].
  apply StronglySorted_inv in H as [H Hlv]. apply Forall_cons_iff in Hlv as [Hv _].
  rewrite IH by exact H. rewrite (last_cons v r lv).
  unfold step. replace (v >=? lv) with true by (symmetry; apply Z.geb_le; lia). lia.
Qed.

Lemma adj_monotone vs : StronglySorted Z.le vs -> vs <> [] -> adj vs = last vs 0.
Proof.
  destruct vs as [|v r]; intros H Hne; [congruence|]. cbn [adj]. rewrite adj_from_mono by exact H.
  rewrite last_cons. lia.
Qed.

(* S3: adj_at is monotone in time *)
Lemma upto_split : forall (d : list (Z * Z)) t t',
  StronglySorted Z.le (map fst d) -> t <= t' -> exists rest, upto t' d = upto t d ++ rest.
Proof.
  induction d as [|[a v] d IH]; intros t t' Hs Hle; [exists []; reflexivity|].
  cbn [map] in Hs. apply StronglySorted_inv in Hs as [Hs Ha]. unfold upto in *. cbn [filter fst].
  destruct (a <=? t) eqn:E.
  - apply Z.leb_le in E. replace (a <=? t') with true by (symmetry; apply Z.leb_le; lia).
    destruct (IH t t' Hs Hle) as [rest R]. exists rest. cbn [app]. rewrite R. reflexivity.
  - apply Z.leb_gt in E. rewrite (filter_none (fun s : Z * Z => fst s <=? t) d).
    + eexists. reflexivity.
    + rewrite Forall_map in Ha. eapply Forall_impl; [|exact Ha]. intros s Hs'; cbv beta in Hs'. cbn [fst] in Hs'.
      apply Z.leb_gt. lia.
Qed.

Lemma adj_at_mono d t t' :
  StronglySorted Z.le (map fst d) -> Forall (fun s : Z * Z => 0 <= snd s) d -> t <= t' ->
  upto t d <> [] -> adj_at d t <= adj_at d t'.
Proof.
  intros Hs Hv Hle Hne. rewrite !adj_at_upto. destruct (upto_split d t t' Hs Hle) as [rest R]. rewrite R.
  unfold vals. rewrite map_app. apply adj_mono.
  - destruct (upto t d); [congruence|discriminate].
  - rewrite Forall_map. assert (Hin : Forall (fun s : Z * Z => 0 <= snd s) (upto t' d)).
    { rewrite Forall_forall in *. intros s Hs'. unfold upto in Hs'. apply filter_In in Hs' as [Hs' _]. apply Hv. exact Hs'. }
    rewrite R in Hin. apply Forall_app in Hin as [_ ?]. assumption.
Qed.

(* S4: every timestamp of a chunk (its first one, and every label) is an emitted timestamp *)
Lemma expect_times : forall qs prev q w,
  In q qs -> q_ok q -> In w (q_t0 q :: map fst (q_mids q)) ->
  In w (map fst (expect prev qs)).
Proof.
  induction qs as [|q0 r IH]; intros prev q w Hq Hok Hw; [contradiction|].
  cbn [expect]. rewrite map_app. apply in_or_app. destruct Hq as [->|Hq]; [left|right; eapply IH; eassumption].
  cbn [map fst]. rewrite emit_mids_fst. destruct Hw as [<-|Hw]; [left; reflexivity|].
  destruct Hok as (Hs & _ & Hhd).
  assert (Hge : q_t0 q <= w).
  { destruct (q_mids q) as [|m ms]; [contradiction|]. destruct Hhd as [H0 _]. cbn [map] in Hs, Hw.
    destruct Hw as [<-|Hw]; [exact H0|]. apply StronglySorted_inv in Hs as [_ H].
    rewrite Forall_forall in H. specialize (H w Hw). lia. }
  destruct (Z.eq_dec w (q_t0 q)) as [->|Hne]; [left; reflexivity|]. right.
  apply filter_In. split; [exact Hw|]. apply Z.gtb_lt. lia.
Qed.

(* ---- more list facts ---- *)

Lemma sorted_filter {A} (R : A -> A -> Prop) (f : A -> bool) l :
  StronglySorted R l -> StronglySorted R (filter f l).
Proof.
  induction 1 as [|a l _ IH Ha]; [constructor|]. cbn [filter]. destruct (f a); [|exact IH].
  constructor; [exact IH|]. rewrite Forall_forall in *. intros x Hx. apply filter_In in Hx as [Hx _]. apply Ha. exact Hx.
Qed.

(* a list strictly sorted by two keys orders its elements the same way under both *)
Lemma sorted_two_keys {A} (k1 k2 : A -> Z) l :
  StronglySorted Z.lt (map k1 l) -> StronglySorted Z.lt (map k2 l) ->
  forall x y, In x l -> In y l -> k1 x < k1 y -> k2 x < k2 y.
Proof.
  induction l as [|a l IH]; intros H1 H2 x y Hx Hy Hlt; [contradiction|].
  cbn [map] in H1, H2. apply StronglySorted_inv in H1 as [H1 A1]. apply StronglySorted_inv in H2 as [H2 A2].
  rewrite Forall_map, Forall_forall in A1, A2.
  destruct Hx as [<-|Hx]; destruct Hy as [<-|Hy].
  - lia.
  - apply A2. exact Hy.
  - specialize (A1 _ Hx). lia.
  - apply IH; assumption.
Qed.

Lemma last_upto_max (U : list (Z * Z)) :
  StronglySorted Z.lt (map fst U) -> forall e, In e U -> fst e <= fst (last U (0, 0)).
Proof.
  intros Hs e He. change (fst (last U (0, 0))) with (last_t U).
  pose proof (sorted_le_last U (sorted_lt_le_Z _ Hs)) as H. rewrite Forall_forall in H. apply H. exact He.
Qed.

Lemma Forall2_impl' {A B} (R R' : A -> B -> Prop) l1 l2 :
  (forall x y, R x y -> R' x y) -> Forall2 R l1 l2 -> Forall2 R' l1 l2.
Proof. intros H. induction 1; constructor; auto. Qed.

Lemma filter_map_sorted {A} (R : Z -> Z -> Prop) (f : A -> Z) (g : A -> bool) l :
  StronglySorted R (map f l) -> StronglySorted R (map f (filter g l)).
Proof.
  induction l as [|a l IH]; intros H; [constructor|]. cbn [map] in H. apply StronglySorted_inv in H as [H Ha].
  cbn [filter]. destruct (g a); [|apply IH; exact H]. cbn [map]. constructor; [apply IH; exact H|].
  rewrite Forall_map in *. rewrite Forall_forall in *. intros x Hx. apply filter_In in Hx as [Hx _]. apply Ha. exact Hx.
Qed.

Lemma mids_pairs2 (R : Z * list (Z * Z) -> list Z -> Prop) : forall ws ps,
  Forall2 R ws ps -> forall mids : list (Z * Z), map fst mids = map fst ws -> map snd mids = map adj ps ->
  Forall (fun m => exists g p, fst m = fst g /\ snd m = adj p /\ R g p /\ In p ps /\ In g ws) mids.
Proof.
  induction 1 as [|g p ws ps Hgp _ IH]; intros mids Hf Hs; destruct mids as [|m mids]; try discriminate; [constructor|].
  cbn [map] in Hf, Hs. injection Hf as Hf1 Hf. injection Hs as Hs1 Hs.
  constructor; [exists g, p; repeat split; try assumption; left; reflexivity|].
  eapply Forall_impl; [|apply IH; assumption]. intros m' (g' & p' & A & B & C & D & E).
  exists g', p'. repeat split; try assumption; right; assumption.
Qed.

Section Values.
Variables res1 k : Z.
Hypothesis res1_pos : 0 < res1.
Hypothesis k_pos : 0 < k.
Let res2 := k * res1.
Lemma res2_pos : 0 < res2. Proof. unfold res2. nia. Qed.

(* every raw sample of a part is covered by an emission at or after it, inside its 5m window *)
Lemma emission_covers : forall p,
  Forall counter_batch p ->
  forall r, In r (concat p) ->
  exists e, In e (emitted_of res1 p) /\ fst r <= fst e <= cw (fst r) res1.
Proof.
  intros p Hcb r Hr. apply in_concat in Hr as (b & Hb & Hrb).
  rewrite Forall_forall in Hcb. pose proof (Hcb b Hb) as Hb_cb. pose proof Hb_cb as (Hg & _ & _).
  destruct (batch_windows_facts cw res1 (cw_ge res1 res1_pos) (cw_same res1 res1_pos) b Hg)
    as (Bcat & Bok & _ & _ & _ & _ & BF & _).
  rewrite <- Bcat in Hrb. apply in_concat in Hrb as (c & Hc & Hrc). apply in_map_iff in Hc as (g & <- & Hgin).
  rewrite Forall_forall in Bok. destruct (Bok g Hgin) as (_ & Hg0 & A). rewrite Forall_forall in A.
  destruct (A r Hrc) as (Hr0 & Hrw & Ecw).
  destruct (q_of_ok res1 res1_pos b Hb_cb) as (Hok & _ & _ & _).
  assert (Emf : map fst (q_mids (q_of res1 b)) = map fst (batch_windows cw res1 b)).
  { unfold q_of, proj. cbn [q_mids]. rewrite map_map. cbn [fst].
    apply (Forall2_map_eq _ _ _ _ _ BF). intros x y [H _]. exact H. }
  assert (Hw : In (fst g) (q_t0 (q_of res1 b) :: map fst (q_mids (q_of res1 b)))).
  { right. rewrite Emf. apply in_map. exact Hgin. }
  pose proof (expect_times (map (q_of res1) p) None (q_of res1 b) (fst g) (in_map _ _ _ Hb) Hok Hw) as He.
  apply in_map_iff in He as (e & Ee & He). exists e. split; [exact He|]. rewrite Ee.
  split; [exact Hrw|]. rewrite Ecw. apply (cw_ge res1 res1_pos). exact Hg0.
Qed.


Lemma part_emits2 (Dpre Dpost : list (Z * Z)) (p : list (list (Z * Z))) :
  p <> [] -> Forall counter_batch p -> seps cw res1 p ->
  StronglySorted Z.lt (map fst (concat p)) ->
  (forall s s', In s Dpre -> In s' (concat p) -> fst s < fst s') ->
  (forall s s', In s (concat p) -> In s' Dpost -> cw (fst s) res1 < fst s') ->
  let Dp := concat p in
  let d := Dpre ++ Dp ++ Dpost in
  let q := q2_of res1 res2 p in
  let B := base (vals Dpre) (q_v0 q) in
  Forall (fun s => snd s = adj_at d (fst s)) ((q_t0 q, B) :: emit_mids (q_t0 q) (q_v0 q) B (q_mids q)) /\
  B + (q_clast q - q_v0 q) = adj (vals Dpre ++ vals Dp) /\ q_vl q = last (vals Dpre ++ vals Dp) 0.
Proof.
  intros Hne Hcb Hsep HsDp Hpre Hpost. cbv zeta.
  pose proof res2_pos as Hr2.
  set (E := emitted_of res1 p).
  pose proof (emitted_counter_batch res1 res1_pos p Hne Hcb Hsep) as Hecb. fold E in Hecb.
  pose proof (expect_adj res1 res1_pos p [] Hcb Hsep ltac:(intros s s' [])) as AE.
  cbn [app] in AE. change (prev_of []) with (@None (Z * Z)) in AE. fold (emitted_of res1 p) in AE. fold E in AE.
  pose proof (emitted_hd res1 p Hne Hcb) as Ehd. fold E in Ehd.
  pose proof (emitted_last res1 res1_pos p Hne Hcb Hsep) as Elast. fold E in Elast.
  pose proof Hecb as (HgE & HsE & HvE). pose proof HgE as [HEne [HEs HEnn]].
  (* the raw samples of the part *)
  assert (HvDp : Forall (fun s : Z * Z => 0 <= snd s) (concat p)).
  { apply Forall_concat. rewrite Forall_forall in Hcb |- *. intros b Hb. destruct (Hcb b Hb) as (_ & _ & H). exact H. }
  assert (HnnDp : Forall (fun s : Z * Z => 0 <= fst s) (concat p)).
  { apply Forall_concat. rewrite Forall_forall in Hcb |- *. intros b Hb. destruct (Hcb b Hb) as ([_ [_ H]] & _). exact H. }
  destruct (concat p) as [|[t0 v0] Dp'] eqn:EDp.
  { destruct p as [|b0 r0]; [congruence|]. apply Forall_cons_iff in Hcb as [([H _] & _) _].
    cbn [concat] in EDp. apply app_eq_nil in EDp as [? _]. congruence. }
  assert (Ehd' : hd (0, 0) E = (t0, v0)).
  { rewrite Ehd. destruct p as [|b0 r0]; [congruence|]. cbn [hd]. cbn [concat] in EDp.
    apply Forall_cons_iff in Hcb as [([H _] & _) _]. destruct b0 as [|s0 b0']; [congruence|].
    cbn [app] in EDp. injection EDp as -> _. reflexivity. }
  destruct E as [|e0 E'] eqn:EE; [congruence|]. cbn [hd] in Ehd'. subst e0.
  assert (HDp'gt : Forall (fun s : Z * Z => t0 < fst s) Dp').
  { cbn [map] in HsDp. apply StronglySorted_inv in HsDp as [_ H]. rewrite Forall_map in H. exact H. }
  assert (Ht0 : 0 <= t0) by (apply Forall_cons_iff in HnnDp as [H _]; exact H).
  assert (HEge : forall e, In e ((t0, v0) :: E') -> t0 <= fst e).
  { intros e [<-|He]; [cbn; lia|]. cbn [map] in HsE. apply StronglySorted_inv in HsE as [_ H].
    rewrite Forall_map, Forall_forall in H. specialize (H e He). cbn [fst] in H. lia. }
  (* the last raw sample of the part: at the last emitted timestamp *)
  assert (HlastDp : last_t ((t0, v0) :: Dp') = last_t ((t0, v0) :: E')).
  { rewrite Elast. unfold last_t. rewrite <- EDp.
    assert (Hbs : Forall (fun b : list (Z * Z) => b <> []) p).
    { rewrite Forall_forall in Hcb |- *. intros b Hb. destruct (Hcb b Hb) as ([H _] & _). exact H. }
    rewrite (last_concat (0, 0) p Hne Hbs). reflexivity. }
  assert (HDple : Forall (fun s : Z * Z => fst s <= last_t ((t0, v0) :: E')) ((t0, v0) :: Dp')).
  { rewrite <- HlastDp. apply sorted_le_last. apply sorted_lt_le_Z. exact HsDp. }
  assert (HpostE : Forall (fun s' : Z * Z => last_t ((t0, v0) :: E') < fst s') Dpost).
  { rewrite Forall_forall. intros s' Hs'. rewrite <- HlastDp.
    assert (Hl : In (last ((t0, v0) :: Dp') (0, 0)) ((t0, v0) :: Dp')) by (apply last_in; discriminate).
    specialize (Hpost _ s' Hl Hs'). rewrite Forall_forall in HnnDp. specialize (HnnDp _ Hl).
    pose proof (cw_ge res1 res1_pos _ HnnDp). unfold last_t. lia. }
  (* values of the emitted samples are non-decreasing *)
  assert (HEmono : StronglySorted Z.le (vals ((t0, v0) :: E'))).
  { unfold vals. apply (sorted_map_in (fun e1 e2 : Z * Z => fst e1 < fst e2) Z.le snd).
    - apply sorted_unmap. exact HsE.
    - intros x y Hx Hy Hlt. rewrite Forall_forall in AE. rewrite (AE x Hx), (AE y Hy).
      apply adj_at_mono; [apply sorted_lt_le_Z; exact HsDp|exact HvDp|lia|].
      unfold upto. cbn [filter fst]. replace (t0 <=? fst x) with true by (symmetry; apply Z.leb_le; apply HEge; exact Hx).
      discriminate. }
  (* second-level windows of the emitted samples *)
  destruct (q_of_ok res2 Hr2 _ Hecb) as (Hqok & Hqend & _ & Ems).
  destruct (batch_windows_facts cw res2 (cw_ge res2 Hr2) (cw_same res2 Hr2) _ HgE)
    as (Bcat & Bok & Bsort & Bcs & Bne & _ & BF & _).
  assert (Emf : map fst (q_mids (q_of res2 ((t0, v0) :: E'))) = map fst (batch_windows cw res2 ((t0, v0) :: E'))).
  { unfold q_of, proj. cbn [q_mids]. rewrite map_map. cbn [fst].
    apply (Forall2_map_eq _ _ _ _ _ BF). intros x y [H _]. exact H. }
  pose proof (batch_sep_windows res2 Hr2 _ HgE) as Hsepw.
  set (bw := batch_windows cw res2 ((t0, v0) :: E')) in *.
  assert (C1 : Forall (fun g : Z * list (Z * Z) => Forall (fun s => fst s <= fst g) (snd g)) bw).
  { eapply Forall_impl; [|exact Bok]. intros g (_ & _ & A). eapply Forall_impl; [|exact A]. intros s (_ & H & _). exact H. }
  pose proof (windows_upto [] [] bw [] C1 Bsort Hsepw
                ltac:(rewrite Forall_forall; intros; constructor)
                ltac:(rewrite Forall_forall; intros; constructor)) as WU.
  cbn [app] in WU. rewrite Bcat in WU.
  assert (WU' : Forall2 (fun (g : Z * list (Z * Z)) pr => vals (upto (fst g) ((t0, v0) :: E')) = pr) bw (prefixes [] bw)).
  { eapply Forall2_impl'; [|exact WU]. intros g pr H. rewrite app_nil_r in H. exact H. }
  clear WU.
  assert (Hpne : Forall (fun pr : list Z => pr <> []) (prefixes [] bw)).
  { apply prefixes_nonempty. eapply Forall_impl; [|exact Bok]. intros g (H & _). exact H. }
  (* unfold q2_of *)
  unfold q2_of. change (emitted_of res1 p) with E. rewrite EE. cbn [q_t0 q_v0 q_mids q_vl].
  assert (Eq0 : q_t0 (q_of res2 ((t0, v0) :: E')) = t0 /\ q_v0 (q_of res2 ((t0, v0) :: E')) = v0) by (split; reflexivity).
  destruct Eq0 as [Et0 Ev0]. rewrite Et0, Ev0.
  split; [|split].
  - constructor.
    + (* first raw sample *)
      cbn [fst snd]. rewrite adj_at_upto, !upto_app.
      rewrite (upto_all t0 Dpre) by (rewrite Forall_forall; intros s Hs'; specialize (Hpre s (t0, v0) Hs' (or_introl eq_refl)); cbn in Hpre; lia).
      cbn [upto filter fst]. rewrite Z.leb_refl. fold (upto t0 Dp'). rewrite (upto_none t0 Dp' HDp'gt).
      rewrite (upto_none t0 Dpost).
      2:{ eapply Forall_impl; [|exact HpostE]. intros s' Hs'; cbv beta in Hs'.
          assert (Hli : In (last ((t0, v0) :: E') (0, 0)) ((t0, v0) :: E')) by (apply last_in; discriminate).
          pose proof (HEge _ Hli). unfold last_t in Hs'. lia. }
      cbn [app]. unfold vals. rewrite map_app. cbn [map snd]. rewrite base_adj. reflexivity.
    + (* per-window values of the second level *)
      pose proof (mids_pairs2 _ _ _ WU' _ Emf Ems) as MP.
      unfold emit_mids. rewrite Forall_forall. intros s Hs'. apply in_flat_map in Hs' as (m & Hm & Hs').
      rewrite Forall_forall in MP. destruct (MP m Hm) as (g & pr & Ef & Es & HR & Hpr & Hgin).
      destruct (fst m >? t0); [|contradiction]. destruct Hs' as [<-|[]]. cbn [fst snd].
      set (w2 := fst g) in *. rewrite Ef.
      set (U := upto w2 ((t0, v0) :: E')) in *.
      assert (HUne : U <> []).
      { rewrite Forall_forall in Hpne. specialize (Hpne pr Hpr). intro HU. rewrite HU in HR. cbn in HR. congruence. }
      assert (HUs : StronglySorted Z.lt (map fst U)) by (apply filter_map_sorted; exact HsE).
      assert (HUv : StronglySorted Z.le (vals U)) by (apply filter_map_sorted; exact HEmono).
      set (es := last U (0, 0)).
      assert (Hes_in : In es U) by (apply last_in; exact HUne).
      assert (Hes : In es ((t0, v0) :: E') /\ fst es <= w2).
      { unfold U, upto in Hes_in. apply filter_In in Hes_in as [H1 H2]. split; [exact H1|apply Z.leb_le; exact H2]. }
      destruct Hes as [HesE Hesw].
      assert (Hval : snd m = adj_at ((t0, v0) :: Dp') (fst es)).
      { rewrite Es, <- HR. rewrite adj_monotone; [|exact HUv|unfold vals; destruct U; [congruence|discriminate]].
        unfold vals. change 0 with (snd (0, 0)). rewrite last_map. fold es.
        rewrite Forall_forall in AE. apply AE. exact HesE. }
      (* no raw sample of the part lies in (fst es, w2] *)
      assert (HK : upto w2 ((t0, v0) :: Dp') = upto (fst es) ((t0, v0) :: Dp')).
      { unfold upto. apply filter_ext_in. intros r Hr.
        destruct (fst r <=? fst es) eqn:E1.
        - apply Z.leb_le in E1. apply Z.leb_le. lia.
        - apply Z.leb_gt in E1. apply Z.leb_gt.
          destruct (Z_lt_le_dec w2 (fst r)) as [H|H]; [exact H|exfalso].
          assert (Hrp : In r (concat p)) by (rewrite EDp; exact Hr).
          destruct (emission_covers p Hcb r Hrp) as (e & He & Hre1 & Hre2). change (emitted_of res1 p) with E in He. rewrite EE in He.
          assert (Hr0 : 0 <= fst r) by (rewrite Forall_forall in HnnDp; apply HnnDp; exact Hr).
          (* e lies in some second-level window g' *)
          assert (He' : In e (concat (map snd bw))) by (rewrite Bcat; exact He).
          apply in_concat in He' as (c & Hc & Hec). apply in_map_iff in Hc as (g' & <- & Hg').
          rewrite Forall_forall in Bok. destruct (Bok g' Hg') as (_ & Hg'0 & A'). rewrite Forall_forall in A'.
          destruct (A' e Hec) as (He0 & Heg' & Ecw').
          destruct (Z_le_gt_dec (fst g') (fst g)) as [Hle|Hgt].
          + (* e is at or before w2: then it is in U, hence at or before es *)
            assert (HeU : In e U) by (unfold U, upto; apply filter_In; split; [exact He|apply Z.leb_le; unfold w2; lia]).
            pose proof (last_upto_max U HUs e HeU) as Hmax. fold es in Hmax. lia.
          + (* e is in a later 1h window: impossible, r and e share a 5m window nested in r's 1h window *)
            pose proof (sorted_two_keys fst (fun q : Z * list (Z * Z) => cw (fst q) res2) bw Bsort Bcs g g' Hgin Hg' ltac:(lia)) as Hcw.
            cbv beta in Hcw.
            destruct (Bok g Hgin) as (_ & Hg0 & _).
            pose proof (cw_mono cw res2 (cw_ge res2 Hr2) (cw_same res2 Hr2) (fst r) (fst g) Hr0 H) as M1.
            pose proof (cw_nest res1 k (fst r) res1_pos k_pos Hr0) as N. fold res2 in N.
            pose proof (cw_same res2 Hr2 (fst r) (fst e) Hr0 Hre1 ltac:(lia)) as S2.
            lia. }
      rewrite adj_at_upto, !upto_app.
      rewrite (upto_all w2 Dpre).
      2:{ rewrite Forall_forall. intros s Hs'. specialize (Hpre s (t0, v0) Hs' (or_introl eq_refl)). cbn in Hpre.
          pose proof (HEge es HesE). lia. }
      rewrite (upto_none w2 Dpost).
      2:{ eapply Forall_impl; [|exact HpostE]. intros s' Hs'; cbv beta in Hs'.
          (* w2 is a label of E at res2, at most the last label = last_t E *)
          assert (Hw2 : w2 <= last_t ((t0, v0) :: E')).
          { rewrite <- Hqend. unfold q_end. rewrite Emf.
            rewrite (last_default (map fst bw) _ 0) by (destruct bw; [congruence|discriminate]).
            apply sorted_le_last_Z; [exact Bsort|apply in_map; exact Hgin]. }
          lia. }
      rewrite app_nil_r, HK.
      assert (Hsplit : upto (fst es) ((t0, v0) :: Dp') = (t0, v0) :: upto (fst es) Dp').
      { unfold upto. cbn [filter fst]. replace (t0 <=? fst es) with true by (symmetry; apply Z.leb_le; apply HEge; exact HesE).
        reflexivity. }
      rewrite Hval, adj_at_upto, Hsplit. unfold vals. rewrite map_app. cbn [map snd].
      rewrite adj_join. reflexivity.
  - (* total after the chunk *)
    unfold q_clast. cbn [q_mids q_v0]. rewrite Ems.
    assert (El : last (map adj (prefixes [] bw)) v0 = adj (vals ((t0, v0) :: E'))).
    { rewrite (last_default _ v0 (adj [])) by (destruct (prefixes [] bw) eqn:Ep; [destruct bw; [congruence|discriminate]|discriminate]).
      rewrite last_map. rewrite prefixes_last by exact Bne. rewrite Bcat. reflexivity. }
    rewrite El. rewrite adj_monotone by (exact HEmono || (unfold vals; discriminate)).
    assert (Hl : last (vals ((t0, v0) :: E')) 0 = snd (last ((t0, v0) :: E') (0, 0)))
      by (unfold vals; change 0 with (snd (0, 0)); apply last_map).
    rewrite Hl.
    assert (HlE : In (last ((t0, v0) :: E') (0, 0)) ((t0, v0) :: E')) by (apply last_in; discriminate).
    rewrite Forall_forall in AE. rewrite (AE _ HlE). change (fst (last ((t0, v0) :: E') (0, 0))) with (last_t ((t0, v0) :: E')).
    rewrite adj_at_upto, (upto_all _ _ HDple). cbn [vals map snd]. rewrite adj_join. reflexivity.
  - unfold vals. rewrite <- map_app. change 0 with (snd (0, 0)). rewrite last_map. f_equal.
    rewrite last_app_ne by discriminate. rewrite <- EDp.
    assert (Hbs : Forall (fun b : list (Z * Z) => b <> []) p).
    { rewrite Forall_forall in Hcb |- *. intros b Hb. destruct (Hcb b Hb) as ([H _] & _). exact H. }
    rewrite (last_concat (0, 0) p Hne Hbs). reflexivity.
Qed.


Lemma expect_adj2 : forall parts Dpre,
  Forall (fun p : list (list (Z * Z)) => p <> []) parts ->
  Forall counter_batch (concat parts) -> seps cw res1 (concat parts) ->
  StronglySorted Z.lt (map fst (concat (concat parts))) ->
  (forall s s', In s Dpre -> In s' (concat (concat parts)) -> fst s < fst s') ->
  Forall (fun s => snd s = adj_at (Dpre ++ concat (concat parts)) (fst s))
         (expect (prev_of Dpre) (map (q2_of res1 res2) parts)).
Proof.
  induction parts as [|p rest IH]; intros Dpre Hne Hcb Hsep Hsd Hpre; [constructor|].
  apply Forall_cons_iff in Hne as [Hp Hne]. cbn [concat] in Hcb, Hsep, Hsd, Hpre.
  apply Forall_app in Hcb as [Hcp Hcr]. destruct (seps_app res1 _ _ Hsep) as (Sp & Sr & Cross).
  rewrite concat_app, map_app in Hsd. destruct (sorted_lt_app_inv _ _ Hsd) as (Sd1 & Sd2 & _).
  cbn [map expect concat].
  assert (Hpre_p : forall s s', In s Dpre -> In s' (concat p) -> fst s < fst s').
  { intros s s' Hs Hs'. apply Hpre; [exact Hs|]. rewrite concat_app. apply in_or_app. left. exact Hs'. }
  assert (Hpost : forall s s', In s (concat p) -> In s' (concat (concat rest)) -> cw (fst s) res1 < fst s').
  { intros s s' Hs Hs'. apply in_concat in Hs as (b & Hb & Hsb).
    rewrite Forall_forall in Cross. specialize (Cross b Hb). rewrite Forall_forall in Cross. specialize (Cross s Hsb).
    rewrite Forall_forall in Cross. apply Cross. exact Hs'. }
  destruct (part_emits2 Dpre (concat (concat rest)) p Hp Hcp Sp Sd1 Hpre_p Hpost) as (E1 & E2 & E3).
  assert (EB : match prev_of Dpre with
               | None => q_v0 (q2_of res1 res2 p)
               | Some (Lv, Tot) => Tot + step Lv (q_v0 (q2_of res1 res2 p))
               end = base (vals Dpre) (q_v0 (q2_of res1 res2 p))).
  { unfold prev_of, base. destruct (vals Dpre); reflexivity. }
  rewrite EB. rewrite concat_app. apply Forall_app. split; [exact E1|].
  assert (EP : Some (q_vl (q2_of res1 res2 p),
                     base (vals Dpre) (q_v0 (q2_of res1 res2 p)) + (q_clast (q2_of res1 res2 p) - q_v0 (q2_of res1 res2 p)))
               = prev_of (Dpre ++ concat p)).
  { assert (EV : vals (Dpre ++ concat p) = vals Dpre ++ vals (concat p)) by (unfold vals; apply map_app).
    unfold prev_of. rewrite EV.
    destruct (vals Dpre ++ vals (concat p)) eqn:E.
    - apply app_eq_nil in E as [_ E]. exfalso.
      destruct p as [|b0 r0]; [congruence|]. apply Forall_cons_iff in Hcp as [([H _] & _) _].
      cbn [concat] in E. unfold vals in E. rewrite map_app in E. apply app_eq_nil in E as [E _].
      destruct b0; [congruence|discriminate].
    - rewrite E2, E3. reflexivity. }
  rewrite EP. rewrite app_assoc. apply IH; try assumption.
  intros s s' Hs Hs'. apply in_app_or in Hs as [Hs|Hs].
  - apply Hpre; [exact Hs|]. rewrite concat_app. apply in_or_app. right. exact Hs'.
  - specialize (Hpost s s' Hs Hs').
    assert (H0 : 0 <= fst s).
    { apply in_concat in Hs as (b & Hb & Hsb). rewrite Forall_forall in Hcp. destruct (Hcp b Hb) as ([_ [_ Hnn]] & _).
      rewrite Forall_forall in Hnn. apply Hnn. exact Hsb. }
    pose proof (cw_ge res1 res1_pos _ H0). lia.
Qed.

Lemma seps_parts : forall parts : list (list (list (Z * Z))),
  seps cw res1 (concat parts) -> Forall (fun p => seps cw res1 p) parts.
Proof.
  induction parts as [|p r IH]; intros H; [constructor|]. cbn [concat] in H.
  destruct (seps_app res1 _ _ H) as (S1 & S2 & _). constructor; [exact S1|apply IH; exact S2].
Qed.

Lemma last_map_q2 (parts : list (list (list (Z * Z)))) : parts <> [] ->
  last (map (q2_of res1 res2) parts) (mkQ 0 0 [] 0) = q2_of res1 res2 (last parts []).
Proof.
  intros Hne. induction parts as [|p r IH]; [congruence|]. destruct r as [|p' r']; [reflexivity|].
  change (last (map (q2_of res1 res2) (p :: p' :: r')) (mkQ 0 0 [] 0)) with (last (map (q2_of res1 res2) (p' :: r')) (mkQ 0 0 [] 0)).
  rewrite IH by discriminate. reflexivity.
Qed.

(* Level 2: reading the counter aggregate after two levels of downsampling *)
Lemma level2_full nc1 nc2 data l1 l2 :
  valid_counter res1 data ->
  level1 res1 nc1 data = Some l1 -> level2 res2 nc2 l1 = Some l2 ->
  exists emitted,
    read_counter l2 = Some emitted /\
    Forall (fun s => snd s = adj_at (keep_nonnan data) (fst s)) emitted /\
    StronglySorted Z.lt (map fst emitted) /\
    (keep_nonnan data = [] -> emitted = []) /\
    (keep_nonnan data <> [] ->
       emitted <> [] /\ snd (last emitted (0, 0)) = adj (map snd (keep_nonnan data))).
Proof.
  intros Hv E1 E2. pose proof Hv as (_ & Hstrict & _).
  destruct (level2_structure res1 res2 res1_pos res2_pos nc1 nc2 data l1 l2 Hv E1 E2)
    as (batches & parts & El1 & Hcat & Hcp & Hne & Hpres & Hch & R & Hcb & Hsep).
  set (emitted := expect None (map (q2_of res1 res2) parts)) in *.
  assert (Hks : StronglySorted Z.lt (map fst (keep_nonnan data))) by (apply keep_nonnan_sorted_lt; exact Hstrict).
  assert (A : Forall (fun s => snd s = adj_at (keep_nonnan data) (fst s)) emitted).
  { pose proof (expect_adj2 parts [] Hne ltac:(rewrite Hcp; exact Hcb) ltac:(rewrite Hcp; exact Hsep)
                  ltac:(rewrite Hcp, Hcat; exact Hks) ltac:(intros s s' [])) as A.
    cbn [app] in A. rewrite Hcp, Hcat in A. exact A. }
  destruct (expect_sorted _ None None Hch) as (ES & _ & EL). fold emitted in ES, EL.
  exists emitted. split; [exact R|]. split; [exact A|]. split; [exact ES|]. split.
  - intros Hd. rewrite Hd in Hcat.
    assert (Hbe : batches = []).
    { destruct batches as [|b r]; [reflexivity|]. apply Forall_cons_iff in Hcb as [([H _] & _) _].
      cbn [concat] in Hcat. apply app_eq_nil in Hcat as [? _]. congruence. }
    rewrite Hbe in Hcp. destruct parts as [|p r]; [reflexivity|]. apply Forall_cons_iff in Hne as [Hp0 _].
    cbn [concat] in Hcp. apply app_eq_nil in Hcp as [Hp1 _]. congruence.
  - intros Hd.
    assert (Hpne : parts <> []) by (intro Ep; rewrite Ep in Hcp; cbn in Hcp; rewrite <- Hcp in Hcat; cbn in Hcat; congruence).
    assert (Hene : emitted <> []) by (unfold emitted; destruct parts; [congruence|cbn [map expect app]; discriminate]).
    split; [exact Hene|].
    set (e := last emitted (0, 0)). assert (Hin : In e emitted) by (apply last_in; exact Hene).
    rewrite Forall_forall in A. rewrite (A e Hin).
    assert (Hmne : map (q2_of res1 res2) parts <> []) by (destruct parts; [congruence|discriminate]).
    specialize (EL Hmne).
    assert (Ee : fst e = last (map fst emitted) 0) by (unfold e; change 0 with (fst (0, 0)); rewrite last_map; reflexivity).
    rewrite Ee, EL, (last_map_q2 parts Hpne).
    (* the last part *)
    set (lp := last parts []).
    assert (Hlp : In lp parts) by (apply last_in; exact Hpne).
    assert (Hlpne : lp <> []) by (rewrite Forall_forall in Hne; apply Hne; exact Hlp).
    assert (Hcbp : Forall (fun p : list (list (Z * Z)) => Forall counter_batch p) parts)
      by (apply concat_parts_forall; rewrite Hcp; exact Hcb).
    assert (Hsp : Forall (fun p => seps cw res1 p) parts) by (apply seps_parts; rewrite Hcp; exact Hsep).
    rewrite Forall_forall in Hcbp, Hsp.
    destruct (part_chunk res1 res2 res1_pos res2_pos lp Hlpne (Hcbp _ Hlp) (Hsp _ Hlp)) as (_ & _ & _ & _ & _ & _ & Hend).
    rewrite Hend.
    (* last batch of the last part = last batch overall; its last sample = last raw sample *)
    assert (Hbs' : Forall (fun b : list (Z * Z) => b <> []) batches).
    { rewrite Forall_forall in Hcb |- *. intros b Hb. destruct (Hcb b Hb) as ([H _] & _). exact H. }
    assert (Hbne : batches <> []) by (intro Eb; rewrite Eb in Hcat; cbn in Hcat; congruence).
    assert (Hlb : last lp [] = last batches []).
    { rewrite <- Hcp. rewrite (last_concat [] parts Hpne); [reflexivity|].
      rewrite Forall_forall in Hne |- *. exact Hne. }
    assert (Hld : last_t (last lp []) = last_t (keep_nonnan data)).
    { rewrite Hlb. unfold last_t. rewrite <- Hcat. rewrite (last_concat (0, 0) batches Hbne Hbs'). reflexivity. }
    rewrite Hld. rewrite adj_at_upto. rewrite upto_all; [reflexivity|].
    apply sorted_le_last. apply sorted_lt_le_Z. exact Hks.
Qed.

Lemma level2_pred nc1 nc2 data l1 l2 :
  valid_input res1 res2 data = true ->
  level1 res1 nc1 data = Some l1 -> level2 res2 nc2 l1 = Some l2 ->
  exists emitted, read_counter l2 = Some emitted /\ level_ok (keep_nonnan data) emitted = true.
Proof.
  intros Hv E1 E2.
  destruct (level2_full nc1 nc2 data l1 l2 (valid_input_counter _ _ _ Hv) E1 E2) as (em & R & A & S & Z0 & L).
  exists em. split; [exact R|].
  unfold level_ok, reads_ok, values_ok. apply andb_true_iff. split; [apply andb_true_iff; split|].
  - apply forallb_forall. intros s Hs. rewrite Forall_forall in A. apply Z.eqb_eq. apply A. exact Hs.
  - clear - S. induction S as [|a l _ IH Ha]; [reflexivity|]. destruct l as [|b l']; [reflexivity|].
    change (strictly_inc (a :: b :: l')) with ((a <? b) && strictly_inc (b :: l')).
    apply Forall_cons_iff in Ha as [Hab _]. rewrite IH.
    replace (a <? b) with true by (symmetry; apply Z.ltb_lt; exact Hab). reflexivity.
  - unfold last_ok. destruct (keep_nonnan data) as [|s0 d'] eqn:Ed.
    + rewrite (Z0 eq_refl). reflexivity.
    + destruct (L ltac:(discriminate)) as [Hne Hl]. destruct em as [|e0 em']; [congruence|].
      apply Z.eqb_eq. exact Hl.
Qed.

End Values.

(* ---- termination of the second level and the two-level pipeline end to end ---- *)

Lemma float_aggr_batch_total res part : float_aggr_batch cw res part <> None.
Proof.
  unfold float_aggr_batch.
  destruct (generic_aggregate cw k_count a_sum res part) as [[m1 x1] cnt].
  destruct (generic_aggregate cw k_sum a_sum res part) as [[m2 x2] sm].
  destruct (generic_aggregate cw k_min (fun a => oz (a_min a)) res part) as [[m3 x3] mn].
  destruct (generic_aggregate cw k_max (fun a => oz (a_max a)) res part) as [[m4 x4] mx].
  pose proof (acr_run_total _ (toks_of (present k_counter part)) acr0 (le_n _)) as T.
  destruct (acr_run _ _ acr0) as [[emitted fin]|]; [|congruence].
  destruct (expand_xor 0 emitted) as [|first rest]; [discriminate|].
  destruct (downsample_batch cw res (first :: rest)). discriminate.
Qed.

Lemma aggr_loop_total res bs : (1 <= bs)%nat -> forall fuel chks,
  (length chks <= fuel)%nat -> aggr_loop cw fuel res bs chks <> None.
Proof.
  intros Hb. induction fuel as [|f IH]; intros chks Hl.
  - destruct chks; [discriminate|cbn in Hl; lia].
  - destruct chks as [|k0 r]; [discriminate|]. cbn [aggr_loop].
    set (j := Nat.min bs (length (k0 :: r))).
    pose proof (float_aggr_batch_total res (firstn j (k0 :: r))) as T.
    destruct (float_aggr_batch cw res (firstn j (k0 :: r))) as [kk|]; [|congruence].
    assert (Hj : (1 <= j)%nat) by (unfold j; cbn [length]; lia).
    assert (Hs : (length (skipn j (k0 :: r)) <= f)%nat) by (rewrite skipn_length; cbn [length] in *; lia).
    specialize (IH _ Hs). destruct (aggr_loop cw f res bs (skipn j (k0 :: r))); [discriminate|congruence].
Qed.

Lemma level2_terminates res2 nc2 l1 : exists l2, level2 res2 nc2 l1 = Some l2.
Proof.
  unfold level2, downsample_aggr.
  pose proof (aggr_loop_total res2 _ (Nat.le_max_r (length l1 / nc2) 1) (length l1) l1 (le_n _)) as T.
  destruct (aggr_loop cw (length l1) res2 (Nat.max (length l1 / nc2) 1) l1) as [out|]; [eexists; reflexivity|congruence].
Qed.

Lemma two_levels res1 k nc1 nc2 data :
  0 < res1 -> 0 < k -> valid_input res1 (k * res1) data = true ->
  exists l1 read1,
    level1 res1 nc1 data = Some l1 /\ read_counter l1 = Some read1 /\
    level_ok (keep_nonnan data) read1 = true /\
    exists l2 read2,
      level2 (k * res1) nc2 l1 = Some l2 /\ read_counter l2 = Some read2 /\
      level_ok (keep_nonnan data) read2 = true.
Proof.
  intros H1 Hk Hv. destruct (level1_pred res1 (k * res1) nc1 data Hv) as (l1 & r1 & E1 & R1 & L1).
  exists l1, r1. repeat split; try assumption.
  destruct (level2_terminates (k * res1) nc2 l1) as [l2 E2].
  destruct (level2_pred res1 k H1 Hk nc1 nc2 data l1 l2 Hv E1 E2) as (r2 & R2 & L2).
  exists l2, r2. repeat split; assumption.
Qed.
