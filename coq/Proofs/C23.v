(* C23 — lemmas. See Properties/C23.v for the statements. *)
From Coq Require Import ZArith List Bool Lia String.
Import ListNotations.
From Verif Require Import Lib.Corr Gen.C23 Model.C23.
Open Scope Z_scope.

(* ---- facts about the CURRENT source (Gen/C23.v); each is closed by
   computation, so a source edit that changes them breaks the proofs ---- *)
Lemma threshold_is_failure_threshold : forall q ft, replErr_threshold q ft = ft.
Proof. intros; reflexivity. Qed.

Lemma skeleton_holds : skeleton_ok = true.
Proof. vm_compute. reflexivity. Qed.

Lemma status_conflict : status_of CConflict = Some 409. Proof. vm_compute; reflexivity. Qed.
Lemma status_notready : status_of CNotReady = Some 503. Proof. vm_compute; reflexivity. Qed.
Lemma status_unavailable : status_of CUnavailable = Some 503. Proof. vm_compute; reflexivity. Qed.
Lemma status_badreplica : status_of CBadReplica = Some 400. Proof. vm_compute; reflexivity. Qed.
Lemma status_nil : status_of CNil = Some 500. Proof. vm_compute; reflexivity. Qed.

Lemma failure_threshold_spec : forall nrep q, failureThreshold_expr nrep q = spec_ft nrep q.
Proof. intros; unfold failureThreshold_expr, spec_ft; lia. Qed.

Lemma writeQuorum_bounds : forall rf, 1 <= rf -> 1 <= writeQuorum rf <= rf.
Proof.
  intros rf H. unfold writeQuorum.
  destruct (Z.eqb_spec rf 2) as [E|E]; [lia|].
  Ltac Zify.zify_post_hook ::= Z.to_euclidean_division_equations.
  lia.
Qed.

(* ---- the three sentinels a failed series can end at ---- *)
Definition sentinel (c : cause) : Prop := c = CConflict \/ c = CNotReady \/ c = CUnavailable.

Lemma repl_cause_failed : forall ft s, 1 <= ft -> fail s >= ft ->
  exists c, repl_cause ft s = Some c /\ sentinel c /\ (c = CConflict -> confl s >= ft).
Proof.
  intros ft s Hft Hf. unfold repl_cause.
  destruct (Z.eqb_spec (fail s) 0) as [E|E]; [lia|].
  unfold replCause_order. cbn [exp_entries cause_of_name count_of_pred String.eqb Ascii.eqb Bool.eqb].
  unfold sort_desc. cbn [fold_left ins_desc snd fst].
  unfold sentinel.
  repeat match goal with
  | |- context [Z.ltb ?a ?b] => destruct (Z.ltb_spec a b); cbn [ins_desc snd fst]
  end;
  repeat match goal with
  | |- context [Z.geb ?a ?b] => destruct (Z.geb_spec a b)
  end;
  first [ exfalso; lia
        | eexists; (split; [reflexivity|]); (split; [auto|]); intro Hc; first [discriminate Hc | lia] ].
Qed.

Lemma holds_any_unav : forall cs, holds_any "isUnavailable" cs =
  Some (existsb (fun c => match c with CUnavailable => true | _ => false end) cs).
Proof. induction cs as [|c cs IH]; [reflexivity|]. cbn [holds_any existsb]. rewrite IH. destruct c; reflexivity. Qed.
Lemma holds_any_nrdy : forall cs, holds_any "isNotReady" cs =
  Some (existsb (fun c => match c with CNotReady => true | _ => false end) cs).
Proof. induction cs as [|c cs IH]; [reflexivity|]. cbn [holds_any existsb]. rewrite IH. destruct c; reflexivity. Qed.
Lemma holds_any_confl : forall cs, holds_any "isConflict" cs =
  Some (existsb (fun c => match c with CConflict => true | _ => false end) cs).
Proof. induction cs as [|c cs IH]; [reflexivity|]. cbn [holds_any existsb]. rewrite IH. destruct c; reflexivity. Qed.

Lemma write_cause_sentinels : forall cs, cs <> [] -> Forall sentinel cs ->
  exists c, write_cause cs = Some c /\ sentinel c /\ In c cs.
Proof.
  intros cs Hne Hall. unfold write_cause, writeCause_order.
  cbn [first_counted cause_of_name String.eqb Ascii.eqb Bool.eqb].
  rewrite holds_any_unav.
  destruct (existsb _ cs) eqn:E1.
  - apply existsb_exists in E1 as [c [Hin Hc]]. destruct c; try discriminate.
    exists CUnavailable. unfold sentinel; auto.
  - rewrite holds_any_nrdy.
    destruct (existsb (fun c => match c with CNotReady => true | _ => false end) cs) eqn:E2.
    + apply existsb_exists in E2 as [c [Hin Hc]]. destruct c; try discriminate.
      exists CNotReady. unfold sentinel; auto.
    + rewrite holds_any_confl.
      destruct (existsb (fun c => match c with CConflict => true | _ => false end) cs) eqn:E3.
      * apply existsb_exists in E3 as [c [Hin Hc]]. destruct c; try discriminate.
        exists CConflict. unfold sentinel; auto.
      * exfalso. destruct cs as [|c cs]; [congruence|].
        inversion Hall as [|? ? Hs _]; subst.
        cbn [existsb] in E1, E2, E3.
        destruct Hs as [->|[->| ->]]; cbn in E1, E2, E3; discriminate.
Qed.

(* the request is a conflict only when every failed series is one *)
Lemma write_cause_conflict_all : forall cs, Forall sentinel cs -> write_cause cs = Some CConflict ->
  Forall (fun c => c = CConflict) cs.
Proof.
  intros cs Hall H. unfold write_cause, writeCause_order in H.
  cbn [first_counted cause_of_name String.eqb Ascii.eqb Bool.eqb] in H.
  rewrite holds_any_unav in H.
  destruct (existsb (fun c => match c with CUnavailable => true | _ => false end) cs) eqn:E1; [discriminate|].
  rewrite holds_any_nrdy in H.
  destruct (existsb (fun c => match c with CNotReady => true | _ => false end) cs) eqn:E2; [discriminate|].
  apply Forall_forall. intros c Hin. rewrite Forall_forall in Hall.
  destruct (Hall c Hin) as [->|[->| ->]]; [reflexivity| |].
  - exfalso. assert (existsb (fun c => match c with CNotReady => true | _ => false end) cs = true)
      by (apply existsb_exists; exists CNotReady; auto). congruence.
  - exfalso. assert (existsb (fun c => match c with CUnavailable => true | _ => false end) cs = true)
      by (apply existsb_exists; exists CUnavailable; auto). congruence.
Qed.

Lemma failed_causes_in : forall ft st cs x, failed_causes ft ft st = Some cs -> In x st -> fail x >= ft ->
  exists c, repl_cause ft x = Some c /\ In c cs.
Proof.
  intros ft st. induction st as [|s st IH]; intros cs x H Hin Hf; [contradiction|].
  cbn [failed_causes] in H. destruct (failed_causes ft ft st) as [cs'|] eqn:E; [|discriminate].
  destruct Hin as [->|Hin].
  - destruct (Z.geb_spec (fail x) ft); [|lia].
    destruct (repl_cause ft x) as [c|]; [|discriminate]. inversion H; subst. exists c. split; [reflexivity|left; reflexivity].
  - destruct (IH cs' x eq_refl Hin Hf) as [c [Hc Hi]]. exists c. split; [exact Hc|].
    destruct (fail s >=? ft); [|inversion H; subst; exact Hi].
    destruct (repl_cause ft s); [|discriminate]. inversion H; subst. right. exact Hi.
Qed.

Lemma failed_causes_spec : forall ft st, 1 <= ft ->
  exists cs, failed_causes ft ft st = Some cs
    /\ Forall (fun c => sentinel c /\ (c = CConflict -> exists s, In s st /\ confl s >= ft)) cs
    /\ (cs = [] <-> Forall (fun s => fail s < ft) st).
Proof.
  intros ft st Hft. induction st as [|s st IH].
  - exists []. cbn. repeat split; auto.
  - destruct IH as [cs [E [Hall Hnil]]]. cbn [failed_causes]. rewrite E.
    destruct (Z.geb_spec (fail s) ft) as [Hge|Hlt].
    + destruct (repl_cause_failed ft s Hft ltac:(lia)) as [c [Ec [Hs Hc]]]. rewrite Ec.
      exists (c :: cs). split; [reflexivity|]. split.
      * constructor.
        -- split; [exact Hs|]. intro H. exists s. split; [left; reflexivity| auto].
        -- eapply Forall_impl; [|exact Hall]. intros a [Ha1 Ha2]. split; [exact Ha1|].
           intro H. destruct (Ha2 H) as [x [Hin Hx]]. exists x. split; [right; exact Hin|exact Hx].
      * split; [discriminate|]. intro H. inversion H; subst. lia.
    + exists cs. split; [reflexivity|]. split.
      * eapply Forall_impl; [|exact Hall]. intros a [Ha1 Ha2]. split; [exact Ha1|].
        intro H. destruct (Ha2 H) as [x [Hin Hx]]. exists x. split; [right; exact Hin|exact Hx].
      * rewrite Hnil. split; intro H.
        -- constructor; [lia|exact H].
        -- inversion H; auto.
Qed.

(* what finish can return *)
Lemma finish_spec : forall ft st, 1 <= ft ->
  (finish ft ft st = Some Ack /\ Forall (fun s => fail s < ft) st)
  \/ exists c, finish ft ft st = Some (Failed c) /\ sentinel c
       /\ (c = CConflict -> exists s, In s st /\ confl s >= ft)
       /\ ~ Forall (fun s => fail s < ft) st.
Proof.
  intros ft st Hft. destruct (failed_causes_spec ft st Hft) as [cs [E [Hall Hnil]]].
  unfold finish. rewrite E. destruct cs as [|c0 cs'].
  - left. split; [reflexivity|]. apply Hnil. reflexivity.
  - right. destruct (write_cause_sentinels (c0 :: cs') ltac:(discriminate)) as [c [Ec [Hs Hin]]].
    { eapply Forall_impl; [|exact Hall]. intros a [Ha _]. exact Ha. }
    exists c. rewrite Ec. split; [reflexivity|]. split; [exact Hs|]. split.
    + intro H. rewrite Forall_forall in Hall. destruct (Hall c Hin) as [_ Hc]. auto.
    + intro H. apply Hnil in H. discriminate.
Qed.

(* a failed series that conflicts alone do not block makes the request retryable *)
Lemma finish_retryable : forall ft st x, 1 <= ft -> In x st -> fail x >= ft -> confl x < ft ->
  exists c, finish ft ft st = Some (Failed c) /\ (c = CNotReady \/ c = CUnavailable).
Proof.
  intros ft st x Hft Hin Hf Hc.
  destruct (failed_causes_spec ft st Hft) as [cs [E [Hall Hnil]]].
  destruct (failed_causes_in ft st cs x E Hin Hf) as [c0 [Hc0 Hin0]].
  assert (Hsent : Forall sentinel cs) by (eapply Forall_impl; [|exact Hall]; intros a [Ha _]; exact Ha).
  assert (Hne : cs <> []) by (intro; subst; contradiction).
  destruct (write_cause_sentinels cs Hne Hsent) as [c [Ec [Hs _]]].
  unfold finish. rewrite E. destruct cs as [|c1 cs']; [congruence|]. rewrite Ec. cbn [option_map].
  exists c. split; [reflexivity|].
  destruct Hs as [->|[->| ->]]; [|auto|auto]. exfalso.
  pose proof (write_cause_conflict_all _ Hsent Ec) as Hallc. rewrite Forall_forall in Hallc.
  specialize (Hallc c0 Hin0). subst c0.
  destruct (repl_cause_failed ft x Hft Hf) as [c' [Hc' [_ Himp]]]. rewrite Hc0 in Hc'. inversion Hc'; subst.
  specialize (Himp eq_refl). lia.
Qed.

Lemma forallb_false_exists : forall A (f : A -> bool) l, forallb f l = false -> exists x, In x l /\ f x = false.
Proof.
  intros A f l. induction l as [|x l IH]; cbn; [discriminate|]. destruct (f x) eqn:E.
  - intro H. destruct (IH H) as [y [Hy Hf]]. exists y. auto.
  - intros _. exists x. auto.
Qed.

(* the loop stops after some prefix of the responses *)
Lemma loop_prefix : forall thr q ft rs st,
  exists k, loop thr q ft st rs = finish thr ft (fold_left apply_resp (firstn k rs) st)
    /\ (k <= List.length rs)%nat
    /\ (can_return_early q ft (fold_left apply_resp (firstn k rs) st) = true \/ k = List.length rs).
Proof.
  intros thr q ft rs. induction rs as [|r rs IH]; intro st.
  - exists 0%nat. cbn. auto.
  - cbn [loop]. destruct (can_return_early q ft (apply_resp st r)) eqn:E.
    + exists 1%nat. cbn [firstn fold_left List.length]. split; [reflexivity|]. split; [lia|]. left. exact E.
    + destruct (IH (apply_resp st r)) as [k [Hk [Hle Hc]]]. exists (S k).
      cbn [firstn fold_left List.length]. split; [exact Hk|]. split; [lia|].
      destruct Hc as [Hc|Hc]; [left; exact Hc|right; lia].
Qed.

(* ---- per-series view of the counters ---- *)
Lemma upd_nth_length : forall A n (f : A -> A) l, List.length (upd_nth n f l) = List.length l.
Proof. intros A n f l. revert n. induction l as [|x l IH]; intros [|n]; cbn; auto. Qed.

Lemma upd_nth_nth : forall A (f : A -> A) d l n s, (s < List.length l)%nat ->
  nth s (upd_nth n f l) d = if Nat.eqb s n then f (nth s l d) else nth s l d.
Proof.
  intros A f d l. induction l as [|x l IH]; intros n s Hs; [cbn in Hs; lia|].
  destruct n as [|n], s as [|s]; cbn; auto. apply IH. cbn in Hs. lia.
Qed.

Lemma apply_ids_length : forall k ids st,
  List.length (fold_left (fun st id => upd_nth id (bump k) st) ids st) = List.length st.
Proof. intros k ids. induction ids as [|i ids IH]; intro st; cbn; [reflexivity|]. rewrite IH. apply upd_nth_length. Qed.

Lemma apply_resp_length : forall st r, List.length (apply_resp st r) = List.length st.
Proof. intros. apply apply_ids_length. Qed.

Lemma fold_apply_length : forall l st, List.length (fold_left apply_resp l st) = List.length st.
Proof. induction l as [|r l IH]; intro st; cbn; [reflexivity|]. rewrite IH. apply apply_resp_length. Qed.

Lemma confl_bump : forall k x, confl (bump k x) = confl x + b2z (is_conflict k).
Proof. intros k x. unfold bump. destruct k; cbn; lia. Qed.

Lemma apply_ids_confl : forall k ids st s, (s < List.length st)%nat ->
  confl (nth s (fold_left (fun st id => upd_nth id (bump k) st) ids st) sst0)
  = confl (nth s st sst0) + Z.of_nat (count_occ Nat.eq_dec ids s) * b2z (is_conflict k).
Proof.
  intros k ids. induction ids as [|i ids IH]; intros st s Hs.
  - cbn. lia.
  - cbn [fold_left]. rewrite IH by (rewrite upd_nth_length; exact Hs).
    rewrite upd_nth_nth by exact Hs. cbn [count_occ].
    destruct (Nat.eq_dec i s) as [->|Hne].
    + rewrite Nat.eqb_refl. rewrite confl_bump. lia.
    + destruct (Nat.eqb_spec s i) as [->|_]; [congruence|]. lia.
Qed.

Lemma fold_apply_confl : forall l st s, (s < List.length st)%nat ->
  confl (nth s (fold_left apply_resp l st) sst0) = confl (nth s st sst0) + conflicts_of s l.
Proof.
  induction l as [|r l IH]; intros st s Hs.
  - cbn. lia.
  - cbn [fold_left conflicts_of fold_right]. rewrite IH by (rewrite apply_resp_length; exact Hs).
    unfold apply_resp at 1. rewrite apply_ids_confl by exact Hs.
    fold (conflicts_of s l). lia.
Qed.

Lemma conflicts_of_nonneg : forall s l, 0 <= conflicts_of s l.
Proof.
  intros s l. induction l as [|r l IH]; cbn; [lia|]. fold (conflicts_of s l).
  destruct (is_conflict (snd r)); cbn [b2z]; lia.
Qed.

Lemma conflicts_of_app : forall s l1 l2, conflicts_of s (l1 ++ l2) = conflicts_of s l1 + conflicts_of s l2.
Proof.
  intros s l1 l2. induction l1 as [|r l1 IH]; cbn; [reflexivity|].
  fold (conflicts_of s (l1 ++ l2)) (conflicts_of s l1). rewrite IH. lia.
Qed.

Lemma conflicts_of_firstn : forall s k l, conflicts_of s (firstn k l) <= conflicts_of s l.
Proof.
  intros s k l. rewrite <- (firstn_skipn k l) at 2. rewrite conflicts_of_app.
  pose proof (conflicts_of_nonneg s (skipn k l)). lia.
Qed.

Lemma nth_repeat_sst0 : forall n s, nth s (repeat sst0 n) sst0 = sst0.
Proof. intros n s. revert s. induction n as [|n IH]; intros [|s]; cbn; auto. Qed.

(* a state reached from the all-zero counters: a series with many conflicts
   there has at least as many in the whole response list *)
Lemma reached_conflicts : forall n k rs x ft,
  In x (fold_left apply_resp (firstn k rs) (repeat sst0 n)) -> confl x >= ft ->
  exists s, (s < n)%nat /\ conflicts_of s rs >= ft.
Proof.
  intros n k rs x ft Hin Hx.
  apply (In_nth _ _ sst0) in Hin as [s [Hs Hnth]].
  rewrite fold_apply_length, repeat_length in Hs.
  exists s. split; [exact Hs|].
  pose proof (fold_apply_confl (firstn k rs) (repeat sst0 n) s) as H.
  rewrite repeat_length in H. specialize (H Hs). rewrite Hnth, nth_repeat_sst0 in H. cbn [confl sst0] in H.
  pose proof (conflicts_of_firstn s k rs). lia.
Qed.

(* ---- main lemmas on the fan-out ---- *)
Lemma fan_outcome : forall n q ft rs, 1 <= ft ->
  fan_status n q ft rs = Some 200
  \/ (fan_status n q ft rs = Some 409 /\ exists s, (s < n)%nat /\ conflicts_of s rs >= ft)
  \/ fan_status n q ft rs = Some 503.
Proof.
  intros n q ft rs Hft. unfold fan_status. rewrite threshold_is_failure_threshold.
  destruct (loop_prefix ft q ft rs (repeat sst0 n)) as [k [Hk _]]. rewrite Hk.
  destruct (finish_spec ft (fold_left apply_resp (firstn k rs) (repeat sst0 n)) Hft)
    as [[E _]|[c [E [Hs [Hc _]]]]]; rewrite E; cbn [result_status].
  - left; reflexivity.
  - destruct Hs as [->|[->| ->]].
    + right; left. split; [exact status_conflict|].
      destruct (Hc eq_refl) as [x [Hin Hx]]. eapply reached_conflicts; eauto.
    + right; right. exact status_notready.
    + right; right. exact status_unavailable.
Qed.

Lemma fan_409 : forall n q ft rs, 1 <= ft -> fan_status n q ft rs = Some 409 ->
  exists s, (s < n)%nat /\ conflicts_of s rs >= ft.
Proof.
  intros n q ft rs Hft H. destruct (fan_outcome n q ft rs Hft) as [E|[[_ E]|E]]; try exact E; congruence.
Qed.

Lemma fan_503 : forall n q ft rs st, 1 <= ft -> fan_status n q ft rs = Some st -> st <> 200 ->
  (forall s, (s < n)%nat -> conflicts_of s rs < ft) -> st = 503.
Proof.
  intros n q ft rs st Hft H Hne Hall.
  destruct (fan_outcome n q ft rs Hft) as [E|[[_ [s [Hs Hc]]]|E]]; try congruence.
  specialize (Hall s Hs). lia.
Qed.

Lemma fan_never_500 : forall n q ft rs, 1 <= ft ->
  exists st, fan_status n q ft rs = Some st /\ (st = 200 \/ st = 409 \/ st = 503).
Proof.
  intros n q ft rs Hft.
  destruct (fan_outcome n q ft rs Hft) as [E|[[E _]|E]]; eexists; (split; [exact E|]); auto.
Qed.

(* ---- the whole request and the boolean predicate ---- *)
Lemma ft_ge_1 : forall rf rep, 1 <= rf -> 0 <= rep ->
  1 <= failureThreshold_expr (n_replicas rf rep) (success_threshold rf rep).
Proof.
  intros rf rep Hrf Hrep. unfold failureThreshold_expr, n_replicas, success_threshold.
  destruct (Z.eqb_spec rep 0); [|lia]. pose proof (writeQuorum_bounds rf Hrf). lia.
Qed.

Lemma existsb_conflicts : forall n rs ft,
  existsb (fun s => conflicts_of s rs >=? ft) (seq 0 n) = true <->
  exists s, (s < n)%nat /\ conflicts_of s rs >= ft.
Proof.
  intros n rs ft. rewrite existsb_exists. split.
  - intros [s [Hin H]]. apply in_seq in Hin. exists s. split; [lia|].
    destruct (Z.geb_spec (conflicts_of s rs) ft); [lia|discriminate].
  - intros [s [Hs H]]. exists s. split; [apply in_seq; lia|].
    destruct (Z.geb_spec (conflicts_of s rs) ft); [reflexivity|lia].
Qed.

(* ---- the defect that was repaired: with es.threshold = successThreshold
   (what the source passed before the fix) a series at replication factor 4
   with two conflicts is reported through a nil cause, i.e. HTTP 500 ---- *)
Lemma success_threshold_refuted :
  let q := writeQuorum 4 in let ft := failureThreshold_expr 4 q in
  loop q q ft [sst0] [([0%nat], KConflict); ([0%nat], KConflict); ([0%nat], KOk); ([0%nat], KOk)]
    = Some (Failed CNil)
  /\ status_of CNil = Some 500.
Proof. vm_compute. split; reflexivity. Qed.
