(* C26 — lemmas. *)
From Coq Require Import ZArith NArith List Bool Lia String.
Import ListNotations.
From Verif Require Import Lib.Corr Gen.C26 Model.C26.
Open Scope Z_scope.

(* tie T, closed by computation on Gen/C26.v *)
Lemma refs_are_checked : refs_checked = true.
Proof. vm_compute. reflexivity. Qed.

Lemma bad_ref_status_is_client_error : 400 <= v2_bad_ref_status < 500.
Proof. unfold v2_bad_ref_status. lia. Qed.

(* ---- the i += 2 loop resolves the j-th pair of references ---- *)
Lemma spec_labels_step : forall symbols a b r,
  spec_labels symbols (a :: b :: r) = (sym symbols a, sym symbols b) :: spec_labels symbols r.
Proof.
  intros symbols a b r. unfold spec_labels.
  cbn [List.length Nat.div2]. cbn [seq map].
  f_equal. rewrite <- seq_shift, map_map. apply map_ext. intro j.
  replace (2 * S j)%nat with (S (S (2 * j))) by lia.
  replace (S (S (2 * j)) + 1)%nat with (S (S (2 * j + 1))) by lia.
  reflexivity.
Qed.

Lemma pair_up_spec : forall symbols refs, pair_up symbols refs = spec_labels symbols refs.
Proof.
  intros symbols refs. remember (List.length refs) as n eqn:Hn.
  revert refs Hn. induction n as [n IH] using lt_wf_ind. intros refs Hn.
  destruct refs as [|a [|b r]]; try reflexivity.
  cbn [pair_up]. rewrite spec_labels_step. unfold sym. f_equal.
  apply (IH (List.length r)); [subst n; cbn; lia|reflexivity].
Qed.

Lemma v2_labels_some : forall symbols refs ls, v2_labels symbols refs = Some ls ->
  forallb (in_range symbols) refs = true /\ ls = spec_labels symbols refs.
Proof.
  intros symbols refs ls H. unfold v2_labels in H.
  destruct (forallb (in_range symbols) refs); [|discriminate].
  inversion H. split; [reflexivity|]. apply pair_up_spec.
Qed.

Lemma v2_labels_none : forall symbols refs, v2_labels symbols refs = None ->
  forallb (in_range symbols) refs = false.
Proof.
  intros symbols refs H. unfold v2_labels in H.
  destruct (forallb (in_range symbols) refs); [discriminate|reflexivity].
Qed.

Definition ex_refs (es : list v2exemplar) : list N := flat_map (fun e => fst (fst e)) es.

Lemma tr_exemplars_spec : forall symbols es,
  match tr_exemplars symbols es with
  | Some out => forallb (in_range symbols) (ex_refs es) = true
                /\ out = map (fun e => match e with (r, v, t) => (spec_labels symbols r, v, t) end) es
  | None => forallb (in_range symbols) (ex_refs es) = false
  end.
Proof.
  intros symbols es. induction es as [|[[refs v] t] es IH]; [cbn; auto|].
  cbn [tr_exemplars ex_refs flat_map fst]. fold (ex_refs es). rewrite forallb_app.
  destruct (v2_labels symbols refs) as [ls|] eqn:El.
  - apply v2_labels_some in El as [Hr ->]. rewrite Hr. cbn [andb].
    destruct (tr_exemplars symbols es) as [out|].
    + destruct IH as [H1 ->]. split; [exact H1|reflexivity].
    + exact IH.
  - apply v2_labels_none in El. rewrite El. reflexivity.
Qed.

Lemma tr_series_spec : forall symbols s,
  match tr_series symbols s with
  | Some o => forallb (in_range symbols) (series_refs s) = true /\ o = spec_series symbols s
  | None => forallb (in_range symbols) (series_refs s) = false
  end.
Proof.
  intros symbols [[[refs samples] exemplars] hists]. cbn [tr_series series_refs spec_series].
  fold (ex_refs exemplars). rewrite forallb_app.
  destruct (v2_labels symbols refs) as [ls|] eqn:El.
  - apply v2_labels_some in El as [Hr ->]. rewrite Hr. cbn [andb].
    pose proof (tr_exemplars_spec symbols exemplars) as He.
    destruct (tr_exemplars symbols exemplars) as [es|].
    + destruct He as [H1 ->]. split; [exact H1|reflexivity].
    + exact He.
  - apply v2_labels_none in El. rewrite El. reflexivity.
Qed.

Lemma translate_spec : forall symbols ss,
  match translate symbols ss with
  | Some out => forallb (in_range symbols) (all_refs ss) = true /\ out = map (spec_series symbols) ss
  | None => forallb (in_range symbols) (all_refs ss) = false
  end.
Proof.
  intros symbols ss. induction ss as [|s ss IH]; [cbn; auto|].
  cbn [translate all_refs flat_map map]. fold (all_refs ss). rewrite forallb_app.
  pose proof (tr_series_spec symbols s) as Hs.
  destruct (tr_series symbols s) as [o|].
  - destruct Hs as [H1 ->]. rewrite H1. cbn [andb].
    destruct (translate symbols ss) as [out|].
    + destruct IH as [H2 ->]. split; [exact H2|reflexivity].
    + exact IH.
  - rewrite Hs. reflexivity.
Qed.

Lemma translate_faithful : forall symbols ss out, translate symbols ss = Some out ->
  out = map (spec_series symbols) ss /\ Forall (fun r => (r < N.of_nat (List.length symbols))%N) (all_refs ss).
Proof.
  intros symbols ss out H. pose proof (translate_spec symbols ss) as S. rewrite H in S.
  destruct S as [Hr ->]. split; [reflexivity|].
  apply Forall_forall. intros r Hin. rewrite forallb_forall in Hr. specialize (Hr r Hin).
  unfold in_range in Hr. apply N.ltb_lt in Hr. exact Hr.
Qed.

Lemma translate_rejects : forall symbols ss r, In r (all_refs ss) ->
  (N.of_nat (List.length symbols) <= r)%N -> translate symbols ss = None.
Proof.
  intros symbols ss r Hin Hr. pose proof (translate_spec symbols ss) as S.
  destruct (translate symbols ss) as [out|]; [|reflexivity].
  destruct S as [Hall _]. rewrite forallb_forall in Hall. specialize (Hall r Hin).
  unfold in_range in Hall. apply N.ltb_lt in Hall. lia.
Qed.

Lemma translate_accepts : forall symbols ss,
  Forall (fun r => (r < N.of_nat (List.length symbols))%N) (all_refs ss) ->
  translate symbols ss = Some (map (spec_series symbols) ss).
Proof.
  intros symbols ss H. pose proof (translate_spec symbols ss) as S.
  destruct (translate symbols ss) as [out|].
  - destruct S as [_ ->]. reflexivity.
  - exfalso. assert (forallb (in_range symbols) (all_refs ss) = true).
    { apply forallb_forall. intros r Hin. rewrite Forall_forall in H. specialize (H r Hin).
      unfold in_range. apply N.ltb_lt. exact H. }
    congruence.
Qed.

(* ---- reflexivity of the deciders ---- *)
Lemma list_eqb_refl : forall A (eqb : A -> A -> bool), (forall x, eqb x x = true) ->
  forall l, list_eqb eqb l l = true.
Proof. intros A eqb H l. induction l as [|x l IH]; cbn; [reflexivity|]. rewrite H, IH. reflexivity. Qed.

Lemma str_eqb_refl : forall s, str_eqb s s = true.
Proof. apply list_eqb_refl. apply N.eqb_refl. Qed.
Lemma label_eqb_refl : forall l, label_eqb l l = true.
Proof. intros [a b]. unfold label_eqb. cbn. rewrite !str_eqb_refl. reflexivity. Qed.
Lemma cnt_eqb_refl : forall c, cnt_eqb c c = true.
Proof. intros [[b n]|]; cbn; [|reflexivity]. rewrite Bool.eqb_reflx, N.eqb_refl. reflexivity. Qed.
Lemma span_eqb_refl : forall s, span_eqb s s = true.
Proof. intros [a b]. unfold span_eqb. cbn. rewrite Z.eqb_refl, N.eqb_refl. reflexivity. Qed.
Lemma sample_eqb_refl : forall s, sample_eqb s s = true.
Proof. intros [a b]. unfold sample_eqb. cbn. rewrite Z.eqb_refl, N.eqb_refl. reflexivity. Qed.
Lemma hist_eqb_refl : forall h, hist_eqb h h = true.
Proof.
  intros [[[[[[[[[[[[[c s] sc] zt] zc] ns] nd] nc] ps] pd] pc] r] t] cu]. unfold hist_eqb.
  rewrite !cnt_eqb_refl, !N.eqb_refl, !Z.eqb_refl,
    !(list_eqb_refl _ span_eqb span_eqb_refl), !(list_eqb_refl _ Z.eqb Z.eqb_refl), !(list_eqb_refl _ N.eqb N.eqb_refl).
  reflexivity.
Qed.
Lemma v1exemplar_eqb_refl : forall e, v1exemplar_eqb e e = true.
Proof.
  intros [[l v] t]. unfold v1exemplar_eqb.
  rewrite (list_eqb_refl _ label_eqb label_eqb_refl), N.eqb_refl, Z.eqb_refl. reflexivity.
Qed.
Lemma v1series_eqb_refl : forall s, v1series_eqb s s = true.
Proof.
  intros [[[l s] e] h]. unfold v1series_eqb.
  rewrite (list_eqb_refl _ label_eqb label_eqb_refl), (list_eqb_refl _ sample_eqb sample_eqb_refl),
    (list_eqb_refl _ v1exemplar_eqb v1exemplar_eqb_refl), (list_eqb_refl _ hist_eqb hist_eqb_refl).
  reflexivity.
Qed.

Lemma handle_v2_pred : forall symbols ss,
  req_pred_ok (CV2 symbols ss false (fst (handle_v2 symbols ss)) (snd (handle_v2 symbols ss))) = true.
Proof.
  intros symbols ss. unfold handle_v2. pose proof (translate_spec symbols ss) as S.
  destruct (translate symbols ss) as [out|]; cbn [req_pred_ok fst snd negb andb].
  - destruct S as [Hr ->]. rewrite Hr. cbn [Z.eqb Pos.eqb andb].
    apply (list_eqb_refl _ v1series_eqb v1series_eqb_refl).
  - rewrite S. pose proof bad_ref_status_is_client_error as [H1 H2].
    apply Z.leb_le in H1. apply Z.ltb_lt in H2. rewrite H1, H2. reflexivity.
Qed.

(* ---- histories: the handler is stateless across v2 requests ---- *)
Lemma v2_path_is_stateless : v2_path_stateless = true.
Proof. vm_compute. reflexivity. Qed.

Lemma history_is_pointwise : forall pre r post,
  nth (List.length pre) (handle_history (pre ++ r :: post)) (0, []) = handle_v2 (fst r) (snd r).
Proof.
  intros pre r post. unfold handle_history. rewrite map_app. cbn [map].
  rewrite app_nth2 by (rewrite map_length; lia). rewrite map_length, Nat.sub_diag. reflexivity.
Qed.

Lemma history_pred : forall reqs,
  pred_ok (CHist (map (fun r => CV2 (fst r) (snd r) false (fst (handle_v2 (fst r) (snd r))) (snd (handle_v2 (fst r) (snd r)))) reqs)) = true.
Proof.
  intro reqs. cbn [pred_ok]. rewrite forallb_forall. intros c Hin. apply in_map_iff in Hin as [r [<- _]].
  apply handle_v2_pred.
Qed.

(* ---- the lookup as it was before the repair: an unchecked slice index.
   Modelled with nth_error (None = Go's index-out-of-range panic). ---- *)
Fixpoint pair_up_unchecked (symbols : list str) (refs : list N) : option (list label) :=
  match refs with
  | a :: b :: r =>
      match nth_error symbols (N.to_nat a), nth_error symbols (N.to_nat b), pair_up_unchecked symbols r with
      | Some x, Some y, Some l => Some ((x, y) :: l)
      | _, _, _ => None
      end
  | _ => Some []
  end.

Lemma unchecked_lookup_undefined :
  pair_up_unchecked [[97%N]] [0%N; 1%N] = None /\ v2_labels [[97%N]] [0%N; 1%N] = None.
Proof. vm_compute. split; reflexivity. Qed.
