(* C43 — proofs about Model/C43.v: the cache key determines the tenant (always) and
   the result-changing parameters (when engine / replica labels avoid the separators). *)
From Coq Require Import ZArith NArith List Bool Lia Decimal DecimalZ DecimalPos Permutation.
Import ListNotations.
From Verif Require Import Lib.Corr Gen.C43 Model.C43.
Open Scope Z_scope.

(* ---- generic separator lemmas ---- *)

Definition no (c : N) (s : str) : Prop := ~ In c s.

Lemma split_first (c : N) : forall a1 a2 b1 b2 : str,
  no c a1 -> no c a2 -> a1 ++ c :: b1 = a2 ++ c :: b2 -> a1 = a2 /\ b1 = b2.
Proof.
  induction a1 as [|x a1 IH]; intros [|y a2] b1 b2 H1 H2 E; cbn in E.
  - inversion E; auto.
  - inversion E; subst. exfalso. apply H2. left; reflexivity.
  - inversion E; subst. exfalso. apply H1. left; reflexivity.
  - inversion E; subst. destruct (IH a2 b1 b2) as [A B]; auto.
    + intro K; apply H1; right; exact K.
    + intro K; apply H2; right; exact K.
    + subst; auto.
Qed.

Lemma split_last (c : N) : forall a1 a2 b1 b2 : str,
  no c b1 -> no c b2 -> a1 ++ c :: b1 = a2 ++ c :: b2 -> a1 = a2 /\ b1 = b2.
Proof.
  intros a1 a2 b1 b2 H1 H2 E.
  apply (f_equal (@List.rev N)) in E. rewrite !rev_app_distr in E. cbn [List.rev] in E.
  rewrite <- !app_assoc in E. cbn [app] in E.
  apply split_first in E.
  - destruct E as [A B]. apply (f_equal (@List.rev N)) in A, B. rewrite !rev_involutive in A, B. auto.
  - intro K. apply H1. apply in_rev. exact K.
  - intro K. apply H2. apply in_rev. exact K.
Qed.

(* fields written as ":f1:f2:...:fn" *)
Definition joinf (l : list str) : str := flat_map fld l.

Lemma joinf_app l1 l2 : joinf (l1 ++ l2) = joinf l1 ++ joinf l2.
Proof. unfold joinf. apply flat_map_app. Qed.

Lemma joinf_snoc l x : joinf (l ++ [x]) = joinf l ++ c_colon :: x.
Proof. rewrite joinf_app. cbn. rewrite app_nil_r. reflexivity. Qed.

(* peeling colon-free fields off the right end *)
Lemma peel_tail : forall t1 t2 l1 l2,
  length t1 = length t2 -> Forall (no c_colon) t1 -> Forall (no c_colon) t2 ->
  joinf (l1 ++ t1) = joinf (l2 ++ t2) -> joinf l1 = joinf l2 /\ t1 = t2.
Proof.
  induction t1 as [|x t1 IH] using rev_ind; intros t2 l1 l2 HL F1 F2 E.
  - destruct t2; [|discriminate]. rewrite !app_nil_r in E. auto.
  - destruct t2 as [|y t2] using rev_ind; [rewrite app_length in HL; cbn in HL; lia|]. clear IHt2.
    rewrite !app_length in HL. cbn in HL.
    apply Forall_app in F1 as [F1 Fx]. apply Forall_app in F2 as [F2 Fy].
    inversion Fx; subst. inversion Fy; subst.
    rewrite !app_assoc in E. rewrite !joinf_snoc in E.
    apply split_last in E; auto. destruct E as [E1 E2]. subst y.
    destruct (IH t2 l1 l2) as [A B]; auto; [lia|]. subst. auto.
Qed.

(* ---- decimal rendering ---- *)

Lemma uint_bytes_inj : forall d1 d2, uint_bytes d1 = uint_bytes d2 -> d1 = d2.
Proof.
  induction d1; destruct d2; cbn; intro E; try discriminate; try reflexivity;
    inversion E; f_equal; auto.
Qed.

Lemma uint_bytes_digits : forall d b, In b (uint_bytes d) -> (48 <= b <= 57)%N.
Proof.
  induction d; cbn; intros b H; try contradiction;
    (destruct H as [H|H]; [subst; lia | auto]).
Qed.

Lemma uint_bytes_nil d : uint_bytes d = [] -> d = Nil.
Proof. destruct d; cbn; intro E; try discriminate; reflexivity. Qed.

Lemma int_bytes_inj i1 i2 :
  (forall d, i1 = Neg d -> d <> Nil) -> (forall d, i2 = Neg d -> d <> Nil) ->
  int_bytes i1 = int_bytes i2 -> i1 = i2.
Proof.
  intros N1 N2. destruct i1 as [d1|d1], i2 as [d2|d2]; cbn; intro E.
  - f_equal. apply uint_bytes_inj; auto.
  - exfalso. destruct d1; cbn in E; try discriminate.
  - exfalso. destruct d2; cbn in E; try discriminate.
  - inversion E. f_equal. apply uint_bytes_inj; auto.
Qed.

Lemma to_int_neg_nonnil z d : Z.to_int z = Neg d -> d <> Nil.
Proof.
  destruct z; cbn; intro E; try discriminate.
  inversion E. apply Unsigned.to_uint_nonnil.
Qed.

Lemma dec_inj a b : dec a = dec b -> a = b.
Proof.
  unfold dec. intro E. apply int_bytes_inj in E.
  - rewrite <- (DecimalZ.of_to a), <- (DecimalZ.of_to b). f_equal. exact E.
  - intros d. apply to_int_neg_nonnil.
  - intros d. apply to_int_neg_nonnil.
Qed.

Lemma dec_chars z b : In b (dec z) -> b = c_minus \/ (48 <= b <= 57)%N.
Proof.
  unfold dec. destruct (Z.to_int z) as [d|d]; cbn.
  - intro H. right. eapply uint_bytes_digits; eauto.
  - intros [H|H]; [left; auto | right; eapply uint_bytes_digits; eauto].
Qed.

Lemma dec_nocolon z : no c_colon (dec z).
Proof. intro H. apply dec_chars in H. unfold c_colon, c_minus in *. destruct H; [discriminate | lia]. Qed.

Lemma dec_not_dash z : dec z <> s_dash.
Proof.
  unfold dec, s_dash. destruct (Z.to_int z) as [d|d] eqn:E; cbn.
  - intro H. assert (K : In c_minus (uint_bytes d)) by (rewrite H; left; reflexivity).
    apply uint_bytes_digits in K. unfold c_minus in K. lia.
  - intro H. inversion H as [H1]. apply uint_bytes_nil in H1.
    apply to_int_neg_nonnil in E. contradiction.
Qed.

Lemma bool_bytes_inj a b : bool_bytes a = bool_bytes b -> a = b.
Proof. destruct a, b; cbn; intro E; try reflexivity; discriminate. Qed.

Lemma bool_bytes_nocolon b : no c_colon (bool_bytes b).
Proof. destruct b; cbn; unfold no, c_colon; cbn; intuition discriminate. Qed.

Lemma bool_not_dec b z : bool_bytes b <> dec z.
Proof.
  intro E. assert (K : In (hd 0%N (bool_bytes b)) (dec z)) by (rewrite <- E; destruct b; left; reflexivity).
  apply dec_chars in K. unfold c_minus in K. destruct b; cbn in K; destruct K as [K|K]; try discriminate; lia.
Qed.

(* ---- tenant escaping ---- *)

Lemma esc_byte_nocolon b : no c_colon (esc_byte b).
Proof.
  unfold esc_byte, no. destruct (N.eqb b c_pct) eqn:E1; [cbn; unfold c_colon, c_pct; intuition discriminate|].
  destruct (N.eqb b c_colon) eqn:E2; [cbn; unfold c_colon, c_pct; intuition discriminate|].
  cbn. apply N.eqb_neq in E2. intuition.
Qed.

Lemma esc_tenant_nocolon t : no c_colon (esc_tenant t).
Proof.
  unfold esc_tenant, no. intro H. apply in_flat_map in H as (b & _ & H).
  eapply esc_byte_nocolon; eauto.
Qed.

Lemma esc_byte_head a b r1 r2 : esc_byte a ++ r1 = esc_byte b ++ r2 -> a = b /\ r1 = r2.
Proof.
  unfold esc_byte.
  destruct (N.eqb a c_pct) eqn:A1; destruct (N.eqb b c_pct) eqn:B1;
  destruct (N.eqb a c_colon) eqn:A2; destruct (N.eqb b c_colon) eqn:B2;
  rewrite ?N.eqb_eq, ?N.eqb_neq in *; subst; cbn; intro E; inversion E; subst;
  try (split; [reflexivity|assumption || reflexivity]); try congruence; try discriminate.
Qed.

Lemma esc_byte_nonnil a : esc_byte a <> [].
Proof. unfold esc_byte. destruct (N.eqb a c_pct); [discriminate|]. destruct (N.eqb a c_colon); discriminate. Qed.

Lemma esc_tenant_inj : forall t1 t2, esc_tenant t1 = esc_tenant t2 -> t1 = t2.
Proof.
  unfold esc_tenant.
  induction t1 as [|a t1 IH]; intros [|b t2]; cbn [flat_map]; intro E.
  - reflexivity.
  - exfalso. symmetry in E. apply app_eq_nil in E as [E _]. eapply esc_byte_nonnil; eauto.
  - exfalso. apply app_eq_nil in E as [E _]. eapply esc_byte_nonnil; eauto.
  - apply esc_byte_head in E as [-> E]. f_equal. auto.
Qed.

(* ---- replica labels ---- *)

Definition safe_label (s : str) : Prop := s <> [] /\ no c_colon s /\ no c_comma s.

Lemma insert_str_perm x l : Permutation (x :: l) (insert_str x l).
Proof.
  induction l as [|y l IH]; cbn; [reflexivity|].
  destruct (str_leb x y); [reflexivity|].
  rewrite perm_swap. constructor. exact IH.
Qed.

Lemma sort_strs_perm l : Permutation l (sort_strs l).
Proof.
  induction l as [|x l IH]; cbn; [constructor|].
  rewrite <- insert_str_perm. constructor. exact IH.
Qed.

Lemma sort_strs_forall (P : str -> Prop) l : Forall P l -> Forall P (sort_strs l).
Proof.
  intro H. rewrite Forall_forall in *. intros x Hx. apply H.
  eapply Permutation_in; [symmetry; apply sort_strs_perm | exact Hx].
Qed.

Lemma join_comma_cons x y l : join_comma (x :: y :: l) = x ++ c_comma :: join_comma (y :: l).
Proof. reflexivity. Qed.

Lemma join_comma_inj : forall l1 l2,
  Forall safe_label l1 -> Forall safe_label l2 -> join_comma l1 = join_comma l2 -> l1 = l2.
Proof.
  induction l1 as [|x l1 IH]; intros l2 F1 F2 E.
  - destruct l2 as [|y l2]; [reflexivity|]. exfalso.
    inversion F2 as [|? ? [Hy _] _]; subst.
    destruct l2; cbn in E; destruct y; try discriminate; congruence.
  - inversion F1 as [|? ? [Hx [Hxc Hxm]] F1']; subst.
    destruct l2 as [|y l2].
    + exfalso. destruct l1; cbn in E; destruct x; try discriminate; congruence.
    + inversion F2 as [|? ? [Hy [Hyc Hym]] F2']; subst.
      destruct l1 as [|x' l1]; destruct l2 as [|y' l2].
      * cbn in E. congruence.
      * exfalso. rewrite join_comma_cons in E. cbn [join_comma] in E. apply Hxm. rewrite E.
        apply in_or_app. right. left. reflexivity.
      * exfalso. rewrite join_comma_cons in E. cbn [join_comma] in E. apply Hym. rewrite <- E.
        apply in_or_app. right. left. reflexivity.
      * rewrite !join_comma_cons in E. apply split_first in E; auto.
        destruct E as [A B]. subst. f_equal. apply IH; auto.
Qed.

Lemma join_comma_nocolon l : Forall (no c_colon) l -> no c_colon (join_comma l).
Proof.
  induction l as [|x l IH]; intro F; [intros []|].
  inversion F; subst. destruct l as [|y l]; [assumption|].
  rewrite join_comma_cons. intro K. apply in_app_or in K. destruct K as [K|[K|K]].
  - contradiction.
  - unfold c_comma, c_colon in K. discriminate.
  - apply IH in K; auto.
Qed.

Lemma dash_nocolon : no c_colon s_dash.
Proof. unfold s_dash, no, c_minus, c_colon. cbn. intuition discriminate. Qed.

Ltac nocolons :=
  repeat (first [apply Forall_nil | apply Forall_cons]);
  first [apply dec_nocolon | apply bool_bytes_nocolon | apply dash_nocolon | assumption].

(* ---- the key ---- *)

Lemma key_body_colon r : exists s, key_body r = c_colon :: s.
Proof. destruct r; cbn; eexists; reflexivity. Qed.

(* equal keys: equal tenants and equal request parts — for ALL tenants and requests *)
Lemma key_inv t1 r1 t2 r2 : key t1 r1 = key t2 r2 -> t1 = t2 /\ key_body r1 = key_body r2.
Proof.
  unfold key, fld. intro E. apply app_inv_head in E.
  destruct (key_body_colon r1) as [s1 H1], (key_body_colon r2) as [s2 H2].
  rewrite H1, H2 in *. cbn in E. inversion E as [E'].
  apply split_first in E'; try apply esc_tenant_nocolon.
  destruct E' as [A B]. apply esc_tenant_inj in A. subst. auto.
Qed.

Definition shard_fields (sh : option (Z * Z)) : list str :=
  match sh with None => [s_dash] | Some (t, i) => [dec t; dec i] end.

Lemma shard_fields_joinf sh : fld (shard_key sh) = joinf (shard_fields sh).
Proof. destruct sh as [[t i]|]; cbn; unfold fld; rewrite ?app_nil_r; cbn; rewrite <- ?app_assoc; reflexivity. Qed.

Definition range_head (q : str) (start step split msr : Z) : list str :=
  [q; dec step; dec split; dec (Z.quot start split); dec (res_class msr)].

Definition range_tail (lb : Z) (eng : str) (part : bool) (reps : list str) (an : bool) : list str :=
  [dec lb; eng; bool_bytes part; join_comma (sort_strs reps); bool_bytes an].

Lemma range_body_fields q start step split msr sh lb eng part reps an :
  key_body (RRange q start step split msr sh lb eng part reps an)
  = joinf ((range_head q start step split msr ++ shard_fields sh) ++ range_tail lb eng part reps an).
Proof.
  rewrite !joinf_app. cbn [key_body]. rewrite shard_fields_joinf.
  unfold range_head, range_tail, joinf. cbn [flat_map]. rewrite ?app_nil_r, <- ?app_assoc. reflexivity.
Qed.

Definition safe_range (r : req) : Prop :=
  match r with
  | RRange _ _ _ _ _ _ _ eng _ reps _ => no c_colon eng /\ Forall safe_label reps
  | _ => True
  end.

Lemma range_tail_nocolon lb eng part reps an :
  no c_colon eng -> Forall safe_label reps -> Forall (no c_colon) (range_tail lb eng part reps an).
Proof.
  intros He Hr. unfold range_tail. repeat constructor; auto using dec_nocolon, bool_bytes_nocolon.
  apply join_comma_nocolon. apply sort_strs_forall. eapply Forall_impl; [|exact Hr]. intros s (_ & H & _). exact H.
Qed.

(* the readable statement for range requests *)
Definition range_same (r1 r2 : req) : Prop :=
  match r1, r2 with
  | RRange q1 st1 step1 sp1 msr1 sh1 lb1 e1 p1 rl1 an1, RRange q2 st2 step2 sp2 msr2 sh2 lb2 e2 p2 rl2 an2 =>
      q1 = q2 /\ step1 = step2 /\ sp1 = sp2 /\ Z.quot st1 sp1 = Z.quot st2 sp2
      /\ res_class msr1 = res_class msr2 /\ sh1 = sh2 /\ lb1 = lb2 /\ e1 = e2 /\ p1 = p2
      /\ sort_strs rl1 = sort_strs rl2 /\ an1 = an2
  | _, _ => False
  end.

Lemma range_body_inj q1 st1 step1 sp1 msr1 sh1 lb1 e1 p1 rl1 an1 q2 st2 step2 sp2 msr2 sh2 lb2 e2 p2 rl2 an2 :
  no c_colon e1 -> Forall safe_label rl1 -> no c_colon e2 -> Forall safe_label rl2 ->
  key_body (RRange q1 st1 step1 sp1 msr1 sh1 lb1 e1 p1 rl1 an1)
  = key_body (RRange q2 st2 step2 sp2 msr2 sh2 lb2 e2 p2 rl2 an2) ->
  range_same (RRange q1 st1 step1 sp1 msr1 sh1 lb1 e1 p1 rl1 an1) (RRange q2 st2 step2 sp2 msr2 sh2 lb2 e2 p2 rl2 an2).
Proof.
  intros He1 Hr1 He2 Hr2 E. rewrite !range_body_fields in E.
  apply peel_tail in E; [| reflexivity | apply range_tail_nocolon; auto | apply range_tail_nocolon; auto].
  destruct E as [E T]. unfold range_tail in T. inversion T as [[T1 T2 T3 T4 T5]]. clear T.
  apply dec_inj in T1. apply bool_bytes_inj in T3, T5.
  apply join_comma_inj in T4; try (apply sort_strs_forall; assumption).
  assert (HH : forall st step sp msr : Z, Forall (no c_colon) [dec step; dec sp; dec (Z.quot st sp); dec (res_class msr)])
    by (intros; nocolons).
  assert (Fin : forall a b c d q q', joinf ([q] ++ [dec a; dec b; dec c; dec d]) = joinf ([q'] ++ [dec a; dec b; dec c; dec d]) -> q = q').
  { intros a b c d q q' K. rewrite !joinf_app in K. apply app_inv_tail in K. cbn in K.
    rewrite !app_nil_r in K. inversion K. reflexivity. }
  cbn [range_same].
  destruct sh1 as [[t1 i1]|], sh2 as [[t2 i2]|]; cbn [shard_fields] in E.
  - apply peel_tail in E; [| reflexivity | nocolons | nocolons].
    destruct E as [E S]. inversion S as [[S1 S2]]. apply dec_inj in S1, S2.
    unfold range_head in E.
    change (joinf ([q1] ++ [dec step1; dec sp1; dec (Z.quot st1 sp1); dec (res_class msr1)])
          = joinf ([q2] ++ [dec step2; dec sp2; dec (Z.quot st2 sp2); dec (res_class msr2)])) in E.
    pose proof E as E0.
    apply peel_tail in E; [| reflexivity | apply HH | apply HH].
    destruct E as [_ H]. inversion H as [[H1 H2 H3 H4]].
    apply dec_inj in H1, H2, H3, H4. subst.
    rewrite H3, H4 in E0. apply Fin in E0. subst. repeat split; auto.
  - exfalso.
    change (joinf ((range_head q1 st1 step1 sp1 msr1 ++ [dec t1]) ++ [dec i1])
          = joinf (range_head q2 st2 step2 sp2 msr2 ++ [s_dash])) in E.
    apply peel_tail in E; [| reflexivity | nocolons
                           | nocolons].
    destruct E as [_ S]. inversion S as [S1]. eapply dec_not_dash; eauto.
  - exfalso.
    change (joinf (range_head q1 st1 step1 sp1 msr1 ++ [s_dash])
          = joinf ((range_head q2 st2 step2 sp2 msr2 ++ [dec t2]) ++ [dec i2])) in E.
    apply peel_tail in E; [| reflexivity | nocolons
                           | nocolons].
    destruct E as [_ S]. inversion S as [S1]. symmetry in S1. eapply dec_not_dash; eauto.
  - apply peel_tail in E; [| reflexivity | | ];
      try (nocolons).
    destruct E as [E _].
    unfold range_head in E.
    change (joinf ([q1] ++ [dec step1; dec sp1; dec (Z.quot st1 sp1); dec (res_class msr1)])
          = joinf ([q2] ++ [dec step2; dec sp2; dec (Z.quot st2 sp2); dec (res_class msr2)])) in E.
    pose proof E as E0.
    apply peel_tail in E; [| reflexivity | apply HH | apply HH].
    destruct E as [_ H]. inversion H as [[H1 H2 H3 H4]].
    apply dec_inj in H1, H2, H3, H4. subst.
    rewrite H3, H4 in E0. apply Fin in E0. subst. repeat split; auto.
Qed.

(* ---- boolean deciders ---- *)

Lemma N_eqb_spec' x y : N.eqb x y = true <-> x = y.
Proof. apply N.eqb_eq. Qed.

Lemma str_eqb_eq a b : str_eqb a b = true <-> a = b.
Proof. apply (list_eqb_spec N.eqb N_eqb_spec'). Qed.

Lemma str_eqb_refl a : str_eqb a a = true.
Proof. apply str_eqb_eq. reflexivity. Qed.

Lemma strs_eqb_refl a : strs_eqb a a = true.
Proof. apply (list_eqb_spec str_eqb str_eqb_eq). reflexivity. Qed.

Lemma opt_zz_eqb_refl a : opt_zz_eqb a a = true.
Proof. destruct a as [[x y]|]; cbn; [rewrite !Z.eqb_refl|]; reflexivity. Qed.

Lemma range_same_params r1 r2 : range_same r1 r2 -> same_params r1 r2 = true.
Proof.
  destruct r1, r2; cbn; try contradiction.
  intros (-> & -> & -> & -> & -> & -> & -> & -> & -> & -> & ->).
  rewrite !str_eqb_refl, !Z.eqb_refl, opt_zz_eqb_refl, strs_eqb_refl, !Bool.eqb_reflx. reflexivity.
Qed.

(* ---- theorems ---- *)

Theorem tenant_separation t1 r1 t2 r2 : key t1 r1 = key t2 r2 -> t1 = t2.
Proof. intro E. apply key_inv in E. tauto. Qed.

Definition is_range (r : req) : Prop := match r with RRange _ _ _ _ _ _ _ _ _ _ _ => True | _ => False end.

Theorem range_injective t1 r1 t2 r2 :
  is_range r1 -> is_range r2 -> safe_range r1 -> safe_range r2 ->
  key t1 r1 = key t2 r2 -> t1 = t2 /\ range_same r1 r2.
Proof.
  intros I1 I2 S1 S2 E. apply key_inv in E as [ET EB]. split; [exact ET|].
  destruct r1; try contradiction. destruct r2; try contradiction.
  destruct S1 as [A1 B1], S2 as [A2 B2]. apply range_body_inj; auto.
Qed.

Theorem range_pred t1 r1 t2 r2 :
  is_range r1 -> is_range r2 -> safe_range r1 -> safe_range r2 ->
  pred_ok (CPair t1 r1 (key t1 r1) t2 r2 (key t2 r2)) = true.
Proof.
  intros I1 I2 S1 S2. cbn [pred_ok].
  destruct (str_eqb (key t1 r1) (key t2 r2)) eqn:E; [|reflexivity].
  apply str_eqb_eq in E. destruct (range_injective _ _ _ _ I1 I2 S1 S2 E) as [-> H].
  rewrite str_eqb_refl. cbn. apply range_same_params. exact H.
Qed.

Lemma labels_body_fields l m st sp p :
  key_body (RLabels l m st sp p) = joinf ([l; m] ++ [dec sp; dec (Z.quot st sp)]).
Proof. unfold joinf. cbn. rewrite ?app_nil_r. reflexivity. Qed.

Lemma series_body_fields m st sp p rl :
  key_body (RSeries m st sp p rl) = joinf ([m] ++ [dec sp; dec (Z.quot st sp)]).
Proof. unfold joinf. cbn. rewrite ?app_nil_r. reflexivity. Qed.

(* labels / series requests: the key determines label name, matchers rendering and window *)
Theorem labels_injective t1 t2 l1 m1 st1 sp1 p1 l2 m2 st2 sp2 p2 :
  no c_colon l1 -> no c_colon l2 ->
  key t1 (RLabels l1 m1 st1 sp1 p1) = key t2 (RLabels l2 m2 st2 sp2 p2) ->
  t1 = t2 /\ l1 = l2 /\ m1 = m2 /\ sp1 = sp2 /\ Z.quot st1 sp1 = Z.quot st2 sp2.
Proof.
  intros H1 H2 E. apply key_inv in E as [ET E]. split; [exact ET|]. rewrite !labels_body_fields in E.
  apply peel_tail in E; [| reflexivity | nocolons | nocolons].
  destruct E as [E T]. inversion T as [[T1 T2]]. apply dec_inj in T1, T2.
  cbn in E. rewrite !app_nil_r in E. inversion E as [E'].
  apply split_first in E'; auto. destruct E' as [A B]. auto.
Qed.

Theorem series_injective t1 t2 m1 st1 sp1 p1 rl1 m2 st2 sp2 p2 rl2 :
  key t1 (RSeries m1 st1 sp1 p1 rl1) = key t2 (RSeries m2 st2 sp2 p2 rl2) ->
  t1 = t2 /\ m1 = m2 /\ sp1 = sp2 /\ Z.quot st1 sp1 = Z.quot st2 sp2.
Proof.
  intros E. apply key_inv in E as [ET E]. split; [exact ET|]. rewrite !series_body_fields in E.
  apply peel_tail in E; [| reflexivity | nocolons | nocolons].
  destruct E as [E T]. inversion T as [[T1 T2]]. apply dec_inj in T1, T2.
  cbn in E. rewrite !app_nil_r in E. inversion E. auto.
Qed.

(* keys of different request kinds *)
Lemma last_field_split l x : joinf (l ++ [x]) = joinf l ++ c_colon :: x.
Proof. apply joinf_snoc. Qed.

Theorem range_vs_other t1 r1 t2 r2 :
  is_range r1 -> ~ is_range r2 -> key t1 r1 <> key t2 r2.
Proof.
  intros I1 I2 E. apply key_inv in E as [_ E].
  destruct r1; try contradiction.
  rewrite range_body_fields in E. unfold range_tail in E.
  set (pre := range_head query start step split_ms msr ++ shard_fields shard) in E.
  change (pre ++ [dec lookback; engine; bool_bytes partial; join_comma (sort_strs replicas); bool_bytes analyze])
    with (pre ++ [dec lookback; engine; bool_bytes partial; join_comma (sort_strs replicas)] ++ [bool_bytes analyze]) in E.
  rewrite app_assoc in E.
  destruct r2; cbn [is_range] in I2; try tauto.
  - rewrite labels_body_fields in E.
    change ([label; matchers] ++ [dec split_ms0; dec (Z.quot start0 split_ms0)])
      with ([label; matchers; dec split_ms0] ++ [dec (Z.quot start0 split_ms0)]) in E.
    apply peel_tail in E; [| reflexivity | nocolons | nocolons].
    destruct E as [_ T]. inversion T as [T1]. eapply bool_not_dec; eauto.
  - rewrite series_body_fields in E.
    change ([matchers] ++ [dec split_ms0; dec (Z.quot start0 split_ms0)])
      with ([matchers; dec split_ms0] ++ [dec (Z.quot start0 split_ms0)]) in E.
    apply peel_tail in E; [| reflexivity | nocolons | nocolons].
    destruct E as [_ T]. inversion T as [T1]. eapply bool_not_dec; eauto.
Qed.

Theorem labels_vs_series t1 t2 l1 m1 st1 sp1 p1 m2 st2 sp2 p2 rl2 :
  no c_colon l1 -> hd_error l1 <> Some c_lbrack -> hd_error m2 = Some c_lbrack ->
  key t1 (RLabels l1 m1 st1 sp1 p1) <> key t2 (RSeries m2 st2 sp2 p2 rl2).
Proof.
  intros H1 Hl Hm E. apply key_inv in E as [_ E]. rewrite labels_body_fields, series_body_fields in E.
  apply peel_tail in E; [| reflexivity | nocolons | nocolons].
  destruct E as [E _]. cbn in E. rewrite !app_nil_r in E. inversion E as [E'].
  destruct l1 as [|a l1]; destruct m2 as [|b m2]; cbn in *; try discriminate.
  - inversion E'. inversion Hm. unfold c_colon, c_lbrack in *. congruence.
  - inversion E'. inversion Hm. subst. congruence.
Qed.

(* max source resolution enters through the set of resolution levels it allows *)
Theorem resolution_class msr1 msr2 :
  res_class msr1 = res_class msr2 <->
  (forall l, In l key_resolutions -> (l <=? msr1) = (l <=? msr2)).
Proof.
  unfold res_class, key_resolutions. cbn [res_class_from In].
  split.
  - intros H l Hl.
    destruct (3600000 >? msr1) eqn:A1; destruct (3600000 >? msr2) eqn:A2;
    destruct (300000 >? msr1) eqn:B1; destruct (300000 >? msr2) eqn:B2;
    destruct (0 >? msr1) eqn:C1; destruct (0 >? msr2) eqn:C2; try (exfalso; lia);
    destruct Hl as [<-|[<-|[<-|[]]]]; lia.
  - intros H.
    pose proof (H 3600000 ltac:(auto)) as H1. pose proof (H 300000 ltac:(auto)) as H2. pose proof (H 0 ltac:(auto)) as H3.
    destruct (3600000 >? msr1) eqn:A1; destruct (3600000 >? msr2) eqn:A2;
    destruct (300000 >? msr1) eqn:B1; destruct (300000 >? msr2) eqn:B2;
    destruct (0 >? msr1) eqn:C1; destruct (0 >? msr2) eqn:C2; lia.
Qed.

Theorem sort_strs_permutation l : Permutation l (sort_strs l).
Proof. apply sort_strs_perm. Qed.

Theorem tenant_accepted_spec t :
  tenant_accepted t = true <->
  t <> [c_dot] /\ t <> [c_dot; c_dot] /\ ~ In c_slash t /\ ~ In c_bslash t.
Proof.
  unfold tenant_accepted. rewrite negb_true_iff, !orb_false_iff.
  split.
  - intros [[A B] C]. repeat split.
    + intro K. subst. discriminate.
    + intro K. subst. discriminate.
    + intro K. assert (existsb (fun b : N => (b =? c_slash)%N || (b =? c_bslash)%N) t = true).
      { apply existsb_exists. exists c_slash. split; auto. } congruence.
    + intro K. assert (existsb (fun b : N => (b =? c_slash)%N || (b =? c_bslash)%N) t = true).
      { apply existsb_exists. exists c_bslash. split; auto. } congruence.
  - intros (A & B & C & D). repeat split.
    + destruct (str_eqb t [c_dot]) eqn:K; [apply str_eqb_eq in K; contradiction | reflexivity].
    + destruct (str_eqb t [c_dot; c_dot]) eqn:K; [apply str_eqb_eq in K; contradiction | reflexivity].
    + destruct (existsb _ t) eqn:K; [|reflexivity]. exfalso. apply existsb_exists in K as (b & Hb & K).
      apply orb_true_iff in K as [K|K]; apply N.eqb_eq in K; subst; contradiction.
Qed.
