(* C07 — proofs about Model/C07.v. *)
From Coq Require Import ZArith NArith List Bool Lia.
Import ListNotations.
From Verif Require Import Lib.Corr Lib.Proxy_Order Model.C05 Model.C08 Proofs.C08_Labels Gen.C07 Model.C07.
Open Scope Z_scope.

(* ---- sorting / merging keep the elements ---- *)
Lemma in_sinsert x y l : In x (sinsert y l) <-> x = y \/ In x l.
Proof.
  induction l as [|z r IH]; cbn [sinsert]; [cbn; intuition congruence|].
  destruct (str_cmp y z); cbn [In]; try rewrite IH; intuition congruence.
Qed.
Lemma in_ssort x l : In x (ssort l) <-> In x l.
Proof.
  induction l as [|y r IH]; cbn; [tauto|]. fold (ssort r). rewrite in_sinsert, IH. intuition congruence.
Qed.
Lemma in_sdedup x l : In x (sdedup l) <-> In x l.
Proof.
  induction l as [|y r IH]; [tauto|]. cbn [sdedup]. destruct r as [|z r'].
  - tauto.
  - destruct (str_eqb y z) eqn:E.
    + apply str_eqb_eq in E. subst z. rewrite IH. cbn [In]. tauto.
    + cbn [In] in *. rewrite IH. tauto.
Qed.
Lemma in_sset x l : In x (sset l) <-> In x l.
Proof. unfold sset. rewrite in_sdedup, in_ssort. tauto. Qed.

Lemma in_merge2 x : forall a b, In x (merge2 a b) <-> In x a \/ In x b.
Proof.
  induction a as [|y a IHa]; intros b.
  - destruct b; cbn; tauto.
  - induction b as [|z b IHb].
    + cbn. tauto.
    + cbn [merge2]. destruct (str_cmp y z) eqn:E.
      * apply (cmp_eq _ str_ord) in E. subst z. cbn [In]. rewrite IHa. cbn [In]. tauto.
      * cbn [In]. rewrite IHa. cbn [In]. tauto.
      * cbn [In]. cbn [merge2] in IHb. rewrite IHb. cbn [In]. tauto.
Qed.

Lemma in_fold_merge2 x : forall r acc, In x (fold_left merge2 r acc) <-> In x acc \/ exists l, In l r /\ In x l.
Proof.
  induction r as [|l r IH]; intros acc; cbn [fold_left].
  - split; [tauto|]. intros [H|[l [[] _]]]. exact H.
  - rewrite IH, in_merge2. split.
    + intros [[H|H]|[l' [H1 H2]]]; [left; exact H | right; exists l; split; [left; reflexivity|exact H] | right; exists l'; split; [right; exact H1|exact H2]].
    + intros [H|[l' [[->|H1] H2]]]; [left; left; exact H | left; right; exact H2 | right; exists l'; tauto].
Qed.

Lemma in_merge_slices x ls : In x (merge_slices ls) <-> exists l, In l ls /\ In x l.
Proof.
  destruct ls as [|a [|b [|c [|d r]]]]; cbn [merge_slices].
  - split; [intros [] | intros [l [[] _]]].
  - split; [intros H; exists a; split; [left; reflexivity|exact H] | intros [l [[<-|[]] H]]; exact H].
  - rewrite in_merge2. split.
    + intros [H|H]; [exists a | exists b]; cbn; intuition.
    + intros [l [[<-|[<-|[]]] H]]; tauto.
  - rewrite !in_merge2. split.
    + intros [H|[H|H]]; [exists a | exists b | exists c]; cbn; intuition.
    + intros [l [[<-|[<-|[<-|[]]]] H]]; tauto.
  - rewrite in_fold_merge2, in_merge2. split.
    + intros [[H|H]|[l [H1 H2]]]; [exists a; cbn; intuition | exists b; cbn; intuition | exists l; cbn [In] in *; intuition].
    + intros [l [[<-|[<-|H1]] H2]]; [tauto | tauto | right; exists l; tauto].
Qed.

Lemma in_linsert x y l : In x (linsert y l) -> x = y \/ In x l.
Proof.
  induction l as [|z r IH]; cbn [linsert]; [cbn; intuition congruence|].
  destruct (lbl_cmp y z); cbn [In]; intros H.
  - tauto.
  - intuition congruence.
  - destruct H as [H|H]; [tauto|]. destruct (IH H); tauto.
Qed.
Lemma in_lsort_set x l : In x (lsort_set l) -> In x l.
Proof.
  induction l as [|y r IH]; cbn; [tauto|]. fold (lsort_set r). intros H. apply in_linsert in H as [H|H]; [left; congruence | right; apply IH; exact H].
Qed.

(* ---- one TSDB store ---- *)
Lemma in_drop_flip drop n : existsb (str_eqb n) drop = in_drop drop n.
Proof.
  unfold in_drop. induction drop as [|d r IH]; [reflexivity|]. cbn [existsb]. rewrite IH, (str_eqb_sym n d). reflexivity.
Qed.

Lemma series_label_cases ext drop ms stored ls l n v :
  valid_ext ext ->
  tsdb_series_labels ext drop ms stored = Some ls -> In l ls -> lfind l n = Some v ->
  exists kept sl, matches_external_labels mname mmatch ms ext = Some kept /\ kept <> []
    /\ In sl (sel_stored kept stored) /\ in_drop drop n = false
    /\ (lfind ext n = Some v \/ (lfind ext n = None /\ lfind sl n = Some v)).
Proof.
  intros Hv Hs Hl Hf. unfold tsdb_series_labels in Hs.
  destruct (matches_external_labels mname mmatch ms ext) as [kept|] eqn:E.
  - destruct kept as [|k0 kr] eqn:Ek; [discriminate|]. inversion Hs; subst ls. clear Hs.
    apply in_map_iff in Hl as [sl [El Hsl]]. subst l. exists (k0 :: kr), sl.
    split; [reflexivity|]. split; [discriminate|]. split; [exact Hsl|].
    rewrite present_spec in Hf by exact Hv. destruct (in_drop drop n); [discriminate|]. split; [reflexivity|].
    destruct (lfind ext n) as [v'|]; [left; exact Hf | right; split; [reflexivity|exact Hf]].
  - inversion Hs; subst ls. destruct Hl.
Qed.

(* stored series have at least one label (a TSDB series always has) *)
Definition stored_ok (stored : list labels) : Prop := forall sl, In sl stored -> sl <> [].

Theorem names_cover_store ext drop ms stored ls l n v :
  valid_ext ext -> stored_ok stored ->
  tsdb_series_labels ext drop ms stored = Some ls -> In l ls -> lfind l n = Some v ->
  In n (tsdb_label_names ext drop ms stored).
Proof.
  intros Hv Hok Hs Hl Hf.
  destruct (series_label_cases _ _ _ _ _ _ _ _ Hv Hs Hl Hf) as (kept & sl & Ek & Hne & Hsl & Hd & Hc).
  unfold tsdb_label_names. rewrite Ek.
  set (res := sset (concat (map (map fst) (sel_stored kept stored)))).
  assert (Hres : forall x, In x (map fst sl) -> In x res).
  { intros x Hx. unfold res. apply in_sset. apply in_concat. exists (map fst sl). split; [|exact Hx].
    apply in_map. exact Hsl. }
  assert (Hsl_ne : sl <> []) by (apply Hok; unfold sel_stored in Hsl; apply filter_In in Hsl; tauto).
  destruct res as [|r0 rr] eqn:Er.
  - exfalso. destruct sl as [|[k w] sr]; [apply Hsl_ne; reflexivity|]. apply (Hres k). left. reflexivity.
  - apply in_ssort. apply in_or_app. destruct Hc as [Hc|[_ Hc]].
    + right. apply lfind_some_in in Hc. apply in_map_iff. exists (n, v). split; [reflexivity|].
      apply filter_In. split; [exact Hc|]. cbn [fst]. rewrite in_drop_flip, Hd. reflexivity.
    + left. apply Hres. apply lfind_some_in in Hc. apply in_map_iff. exists (n, v). split; [reflexivity|exact Hc].
Qed.

Theorem values_cover_store ext drop ms label stored ls l v :
  valid_ext ext ->
  tsdb_series_labels ext drop ms stored = Some ls -> In l ls -> lfind l label = Some v ->
  In v (tsdb_label_values ext drop ms label stored).
Proof.
  intros Hv Hs Hl Hf.
  destruct (series_label_cases _ _ _ _ _ _ _ _ Hv Hs Hl Hf) as (kept & sl & Ek & Hne & Hsl & Hd & Hc).
  unfold tsdb_label_values. rewrite in_drop_flip, Hd, Ek. unfold lget.
  destruct Hc as [Hc|[Hn Hc]].
  - rewrite Hc. destruct Hv as [_ Hnev]. pose proof (Hnev _ (lfind_some_in _ _ _ Hc)) as Hne'. cbn [snd] in Hne'.
    rewrite Hne'. cbn [negb]. destruct kept as [|k0 kr]; [left; reflexivity|].
    destruct (sel_stored (k0 :: kr) stored); [contradiction | left; reflexivity].
  - rewrite Hn. cbn [is_empty_str negb]. apply in_sset. apply in_concat.
    exists [v]. split; [|left; reflexivity]. apply in_map_iff. exists sl. rewrite Hc. split; [reflexivity|exact Hsl].
Qed.

(* ---- the proxy in front of several stores ---- *)
Lemma proxy_series_from_store exts drop ms stored ls l :
  proxy_series_labels exts drop ms stored = Some ls -> In l ls ->
  exists e ls', In e (queried ms exts) /\ tsdb_series_labels e drop ms stored = Some ls' /\ In l ls'.
Proof.
  unfold proxy_series_labels. destruct ms as [|m0 mr] eqn:Em; [discriminate|]. rewrite <- Em in *.
  intros H Hl. assert (Hls : ls = lsort_set (concat (map (fun e => match tsdb_series_labels e drop ms stored with Some l0 => l0 | None => [] end) (queried ms exts)))).
  { destruct ms; [discriminate|]. inversion H. reflexivity. }
  subst ls. apply in_lsort_set in Hl. apply in_concat in Hl as [x [Hx Hl]].
  apply in_map_iff in Hx as [e [Ee He]]. subst x. exists e.
  destruct (tsdb_series_labels e drop ms stored) as [ls'|]; [|contradiction]. exists ls'. tauto.
Qed.

Theorem names_cover_proxy exts drop ms stored ls l n v :
  (forall e, In e exts -> valid_ext e) -> stored_ok stored ->
  proxy_series_labels exts drop ms stored = Some ls -> In l ls -> lfind l n = Some v ->
  In n (proxy_label_names exts drop ms stored).
Proof.
  intros Hv Hok Hs Hl Hf. destruct (proxy_series_from_store _ _ _ _ _ _ Hs Hl) as (e & ls' & He & Hs' & Hl').
  unfold proxy_label_names. apply in_merge_slices. exists (tsdb_label_names e drop ms stored).
  split; [apply (in_map (fun e0 => tsdb_label_names e0 drop ms stored)); exact He|]. eapply names_cover_store; eauto. apply Hv. unfold queried in He. apply filter_In in He. tauto.
Qed.

Theorem values_cover_proxy exts drop ms label stored ls l v :
  (forall e, In e exts -> valid_ext e) ->
  proxy_series_labels exts drop ms stored = Some ls -> In l ls -> lfind l label = Some v ->
  In v (proxy_label_values exts drop ms label stored).
Proof.
  intros Hv Hs Hl Hf. destruct (proxy_series_from_store _ _ _ _ _ _ Hs Hl) as (e & ls' & He & Hs' & Hl').
  unfold proxy_label_values. apply in_merge_slices. exists (tsdb_label_values e drop ms label stored).
  split; [apply (in_map (fun e0 => tsdb_label_values e0 drop ms label stored)); exact He|]. eapply values_cover_store; eauto. apply Hv. unfold queried in He. apply filter_In in He. tauto.
Qed.

(* ---- the object-storage store gateway ---- *)
(* stored labels have non-empty values (a TSDB invariant) *)
Definition stored_vals_ok (stored : list labels) : Prop :=
  forall sl n v, In sl stored -> lfind sl n = Some v -> is_empty_str v = false.

Lemma bucket_label_cases blocks drop ms l n v :
  (forall b, In b blocks -> valid_ext (fst b)) ->
  In l (bucket_series_labels blocks drop ms) -> lfind l n = Some v ->
  exists ext stored kept sl, In (ext, stored) blocks /\ ext_loop mname mmatch ms ext = Some kept /\ kept <> []
    /\ In sl stored /\ selected kept sl = true /\ l = present_bucket ext drop sl /\ in_drop drop n = false
    /\ (lfind ext n = Some v \/ (lfind ext n = None /\ lfind sl n = Some v)).
Proof.
  intros Hv H Hf. unfold bucket_series_labels in H. apply in_concat in H as [x [Hx Hl]].
  apply in_map_iff in Hx as [[ext stored] [E Hb]]. subst x. unfold block_series_labels in Hl. cbn [fst snd] in Hl.
  destruct (ext_loop mname mmatch ms ext) as [kept|] eqn:Ek; [|destruct Hl].
  destruct kept as [|k0 kr] eqn:Ekk; [destruct Hl|]. rewrite <- Ekk in *.
  assert (Hne : kept <> []) by (rewrite Ekk; discriminate).
  apply in_map_iff in Hl as [sl [El Hs]]. apply filter_In in Hs as [Hs Hsel].
  exists ext, stored, kept, sl. split; [exact Hb|]. split; [exact Ek|]. split; [exact Hne|]. split; [exact Hs|].
  split; [exact Hsel|]. split; [symmetry; exact El|].
  pose proof (Hv _ Hb) as Hve. cbn [fst] in Hve. subst l. rewrite present_bucket_spec in Hf by exact Hve.
  destruct (in_drop drop n); [discriminate|]. split; [reflexivity|].
  destruct (lfind ext n); [left; exact Hf | right; split; [reflexivity|exact Hf]].
Qed.

Theorem names_cover_bucket blocks drop ms l n v :
  (forall b, In b blocks -> valid_ext (fst b)) ->
  In l (bucket_series_labels blocks drop ms) -> lfind l n = Some v ->
  In n (bucket_label_names blocks drop ms).
Proof.
  intros Hv H Hf.
  destruct (bucket_label_cases _ _ _ _ _ _ Hv H Hf) as (ext & stored & kept & sl & Hb & Ek & Hne & Hs & Hsel & El & Hd & Hc).
  unfold bucket_label_names. apply in_merge_slices. exists (block_names drop ms (ext, stored)).
  split; [apply (in_map (block_names drop ms)); exact Hb|].
  unfold block_names. cbn [fst snd]. rewrite Ek. destruct kept as [|k0 kr]; [exfalso; apply Hne; reflexivity|].
  apply in_sset. apply in_concat. exists (map fst l). split.
  - apply in_map_iff. exists sl. split; [rewrite El; reflexivity|]. apply filter_In. split; [exact Hs | exact Hsel].
  - apply lfind_some_in in Hf. apply in_map_iff. exists (n, v). split; [reflexivity | exact Hf].
Qed.

Theorem values_cover_bucket hne blocks drop ms label l v :
  (forall b, In b blocks -> valid_ext (fst b)) ->
  (forall b, In b blocks -> stored_vals_ok (snd b)) ->
  In l (bucket_series_labels blocks drop ms) -> lfind l label = Some v ->
  In v (bucket_label_values hne blocks drop ms label).
Proof.
  intros Hv Hsv H Hf.
  destruct (bucket_label_cases _ _ _ _ _ _ Hv H Hf) as (ext & stored & kept & sl & Hb & Ek & Hne & Hs & Hsel & El & Hd & Hc).
  pose proof (Hv _ Hb) as Hve. cbn [fst] in Hve.
  unfold bucket_label_values. rewrite in_drop_flip, Hd. apply in_merge_slices.
  exists (block_values hne ms label (ext, stored)). split; [apply (in_map (block_values hne ms label)); exact Hb|].
  unfold block_values. cbn [fst snd]. rewrite Ek. destruct kept as [|k0 kr] eqn:Ekk; [exfalso; apply Hne; reflexivity|]. rewrite <- Ekk in *.
  (* the value the block shows for this series under [label]: the external one, else the stored one *)
  assert (Hval : lget (extend sl ext) label = v /\ is_empty_str v = false
                 /\ (lhas ext label = false -> is_empty_str (lget sl label) = false)).
  { unfold lget, lhas. rewrite lfind_extend by exact Hve. destruct Hc as [Hc|[Hn Hc]].
    - rewrite Hc. split; [reflexivity|]. split; [|discriminate].
      destruct Hve as [_ Hnev]. exact (Hnev _ (lfind_some_in _ _ _ Hc)).
    - rewrite Hn, Hc. split; [reflexivity|]. pose proof (Hsv _ Hb sl label v Hs Hc) as E. split; [exact E | intros _; exact E]. }
  destruct Hval as (V1 & V2 & V3).
  apply in_sset. apply in_concat. exists [v]. split; [|left; reflexivity].
  apply in_map_iff. exists sl. split; [rewrite V1, V2; reflexivity|].
  apply filter_In. split; [exact Hs|]. rewrite Hsel. cbn [andb].
  destruct (negb hne && negb (lhas ext label)) eqn:Ex; [|reflexivity]. cbn [negb orb].
  apply andb_true_iff in Ex as [_ Ex]. apply negb_true_iff in Ex. rewrite (V3 Ex). reflexivity.
Qed.

(* the proxy in front of a bucket store: when it returns series, the store was queried *)
Theorem names_cover_bucket_proxy blocks drop ms hne label ls l n v :
  (forall b, In b blocks -> valid_ext (fst b)) ->
  o_series (model_bucket_proxy blocks drop ms hne label) = Some ls -> In l ls -> lfind l n = Some v ->
  In n (o_names (model_bucket_proxy blocks drop ms hne label)).
Proof.
  intros Hv Hs Hl Hf. unfold model_bucket_proxy in *. destruct (bucket_queried blocks ms); cbn [o_series o_names] in *.
  - destruct ms as [|m0 mr] eqn:Em; [discriminate|]. rewrite <- Em in *. assert (ls = lsort_set (bucket_series_labels blocks drop ms)) by (destruct ms; [discriminate | inversion Hs; reflexivity]).
    subst ls. apply in_lsort_set in Hl. eapply names_cover_bucket; eauto.
  - destruct ms; [discriminate|]. inversion Hs; subst. destruct Hl.
Qed.

Theorem values_cover_bucket_proxy blocks drop ms hne label ls l v :
  (forall b, In b blocks -> valid_ext (fst b)) ->
  (forall b, In b blocks -> stored_vals_ok (snd b)) ->
  o_series (model_bucket_proxy blocks drop ms hne label) = Some ls -> In l ls -> lfind l label = Some v ->
  In v (o_values (model_bucket_proxy blocks drop ms hne label)).
Proof.
  intros Hv Hsv Hs Hl Hf. unfold model_bucket_proxy in *. destruct (bucket_queried blocks ms); cbn [o_series o_values] in *.
  - destruct ms as [|m0 mr] eqn:Em; [discriminate|]. rewrite <- Em in *. assert (ls = lsort_set (bucket_series_labels blocks drop ms)) by (destruct ms; [discriminate | inversion Hs; reflexivity]).
    subst ls. apply in_lsort_set in Hl. eapply values_cover_bucket; eauto.
  - destruct ms; [discriminate|]. inversion Hs; subst. destruct Hl.
Qed.

(* ---- histories: the responses are functions of the CURRENT external labels ---- *)
Lemma reads_current : labelnames_reads_current_ext = true /\ labelvalues_reads_current_ext = true.
Proof. split; reflexivity. Qed.

Lemma model_store_h_current stored drop ms label (h : labels * labels) :
  model_store_h stored drop ms label h = model_store stored drop ms label (snd h).
Proof.
  unfold model_store_h, model_store, ext_for_names, ext_for_values. destruct reads_current as [-> ->]. reflexivity.
Qed.

Lemma map_filter_comm {A B} (f : A -> B) (g : B -> bool) (l : list A) :
  map f (filter (fun x => g (f x)) l) = filter g (map f l).
Proof. induction l as [|a r IH]; simpl; [reflexivity|]. destruct (g (f a)); simpl; congruence. Qed.

Lemma queried_h_current ms (hs : list (labels * labels)) : map snd (queried_h ms hs) = queried ms (map snd hs).
Proof.
  unfold queried_h, queried. apply (map_filter_comm snd (fun e => label_sets_match mname mmatch ms [e])).
Qed.

Lemma model_proxy_h_current stored (hs : list (labels * labels)) drop ms label :
  model_proxy_h stored hs drop ms label = model_proxy stored (map snd hs) drop ms label.
Proof.
  unfold model_proxy_h, model_proxy, proxy_label_names, proxy_label_values, ext_for_names, ext_for_values.
  destruct reads_current as [-> ->]. rewrite <- queried_h_current, !map_map. reflexivity.
Qed.

Theorem history_irrelevant stored drop ms label (inits exts : list labels) :
  length inits = length exts ->
  map (model_store_h stored drop ms label) (combine inits exts) = map (model_store stored drop ms label) exts
  /\ model_proxy_h stored (combine inits exts) drop ms label = model_proxy stored exts drop ms label.
Proof.
  intros Hl. assert (Hs : map snd (combine inits exts) = exts).
  { revert exts Hl. induction inits as [|i r IH]; intros [|e er] Hl; cbn in *; try reflexivity; try discriminate.
    f_equal. apply IH. lia. }
  split.
  - rewrite <- Hs at 2. rewrite map_map. apply map_ext. intros h. apply model_store_h_current.
  - rewrite model_proxy_h_current, Hs. reflexivity.
Qed.
