(* C37 — proofs, part A: what ApplyCounterResetsSeriesIterator (read with Next until
   ValNone) yields on a sequence of counter chunks of the documented format
   [first raw sample; per-window counter values; (last timestamp, last raw value)]. *)
From Coq Require Import ZArith List Bool Lia Sorted.
Import ListNotations.
From Verif Require Import Lib.Corr Lib.Downsample_Core Lib.Downsample_Batch Lib.Downsample_Raw
  Lib.Downsample_Windows Lib.Downsample_Aggr Lib.Downsample_Iter Lib.Downsample_Counter Gen.C37 Model.C37.
Open Scope Z_scope.

Ltac Zify.zify_post_hook ::= Z.to_euclidean_division_equations.

(* ---- currentWindow ---- *)

Lemma cw_ge res : 0 < res -> forall t, 0 <= t -> t <= cw t res.
Proof. intros Hr t Ht. unfold cw, currentWindow. nia. Qed.

Lemma cw_same res : 0 < res ->
  forall t t', 0 <= t -> t <= t' -> t' <= cw t res -> cw t' res = cw t res.
Proof.
  intros Hr t t' Ht Hle Hw. unfold cw, currentWindow in *.
  rewrite !Z.rem_mod_nonneg in * by lia.
  assert (E : t' / res = t / res).
  { symmetry. apply (Z.div_unique t' res (t / res) (t' - res * (t / res))); lia. }
  rewrite (Z.mod_eq t'), (Z.mod_eq t), E by lia. lia.
Qed.

Definition READ (toks : list tok) (st : acr) : option (list (Z * Z)) :=
  match acr_run (S (length toks)) toks st with
  | Some (out, _) => Some out
  | None => None
  end.

Definition consO (e : Z * Z) (r : option (list (Z * Z))) : option (list (Z * Z)) :=
  match r with Some l => Some (e :: l) | None => None end.
Definition appO (es : list (Z * Z)) (r : option (list (Z * Z))) : option (list (Z * Z)) :=
  match r with Some l => Some (es ++ l) | None => None end.

Lemma appO_nil r : appO [] r = r. Proof. destruct r; reflexivity. Qed.
Lemma appO_cons e es r : appO (e :: es) r = consO e (appO es r). Proof. destruct r; reflexivity. Qed.
Lemma appO_app a b r : appO (a ++ b) r = appO a (appO b r).
Proof. destruct r; cbn; [rewrite app_assoc|]; reflexivity. Qed.

Lemma READ_eq toks st :
  READ toks st =
  match NEXT toks st with
  | None => None
  | Some (false, _, _) => Some []
  | Some (true, toks', st') => consO (c_lastT st', c_totalV st') (READ toks' st')
  end.
Proof.
  unfold READ. rewrite acr_run_eq by lia.
  destruct (NEXT toks st) as [[[b t1] s1]|]; [|reflexivity]. destruct b; [|reflexivity].
  destruct (acr_run (S (length t1)) t1 s1) as [[out fin]|]; reflexivity.
Qed.

Lemma READ_step t v r st :
  READ (TS t v :: r) st =
  if c_total st =? 0 then consO (t, v) (READ r (mkI 1 t v v true))
  else if t >? c_lastT st then
    consO (t, c_totalV st + step (c_lastV st) v)
          (READ r (mkI (c_total st + 1) t v (c_totalV st + step (c_lastV st) v) true))
  else if t =? c_lastT st then READ r (mkI (c_total st) (c_lastT st) v (c_totalV st) true)
  else READ r (mkI (c_total st) (c_lastT st) (c_lastV st) (c_totalV st) true).
Proof.
  rewrite READ_eq, NEXT_sample. unfold step.
  destruct (c_total st =? 0); [reflexivity|]. destruct (t >? c_lastT st); [reflexivity|].
  destruct (t =? c_lastT st); rewrite <- READ_eq; reflexivity.
Qed.

Lemma READ_end_nil st : READ [TEnd] st = Some [].
Proof.
  rewrite READ_eq, NEXT_end, SEEK_eq. cbn [c_lastT].
  replace (c_lastT st >=? c_lastT st + 1) with false by (symmetry; rewrite Z.geb_leb; apply Z.leb_gt; lia).
  rewrite NEXT_nil. reflexivity.
Qed.

Lemma READ_end_next n T Lv Tot l t0 v0 r :
  0 < n -> T < t0 ->
  READ (TEnd :: TS t0 v0 :: r) (mkI n T Lv Tot l) =
  consO (t0, Tot + step Lv v0) (READ r (mkI (n + 1) t0 v0 (Tot + step Lv v0) true)).
Proof.
  intros Hn Ht. rewrite READ_eq, NEXT_end, SEEK_eq. cbn [c_lastT c_total c_lastV c_totalV].
  replace (T >=? T + 1) with false by (symmetry; rewrite Z.geb_leb; apply Z.leb_gt; lia).
  rewrite NEXT_sample. cbn [c_lastT c_total c_lastV c_totalV].
  replace (n =? 0) with false by (symmetry; apply Z.eqb_neq; lia).
  replace (t0 >? T) with true by (symmetry; apply Z.gtb_lt; lia).
  rewrite SEEK_eq. cbn [c_lastT c_lvt].
  replace (t0 >=? T + 1) with true by (symmetry; apply Z.geb_le; lia).
  cbn [c_totalV c_lastT]. unfold step. reflexivity.
Qed.

(* ---- the per-window tokens of a chunk ---- *)

Definition tokS (s : Z * Z) : tok := TS (fst s) (snd s).

Definition emit_mids (T Lv Tot : Z) (mids : list (Z * Z)) : list (Z * Z) :=
  flat_map (fun m => if fst m >? T then [(fst m, Tot + (snd m - Lv))] else []) mids.

(* labels strictly increasing from T on (the first may equal T, then its value is Lv);
   values non-decreasing from Lv on *)
Definition mids_ok (T Lv : Z) (mids : list (Z * Z)) : Prop :=
  StronglySorted Z.lt (map fst mids) /\ StronglySorted Z.le (Lv :: map snd mids) /\
  match mids with
  | [] => True
  | m :: _ => T <= fst m /\ (fst m = T -> snd m = Lv)
  end.

Lemma last_cons {A} (x : A) l d : last (x :: l) d = last l x.
Proof.
  destruct l as [|y l']; [reflexivity|]. change (last (x :: y :: l') d) with (last (y :: l') d).
  apply last_default. discriminate.
Qed.

Lemma flat_map_ext_in {A B} (f g : A -> list B) l :
  (forall x, In x l -> f x = g x) -> flat_map f l = flat_map g l.
Proof.
  induction l as [|x l IH]; intros H; [reflexivity|]. cbn [flat_map].
  rewrite (H x (or_introl eq_refl)), IH; [reflexivity|]. intros y Hy. apply H. right. exact Hy.
Qed.

Lemma READ_mids : forall mids n T Lv Tot l rest,
  0 < n -> mids_ok T Lv mids ->
  exists n' l', 0 < n' /\
    READ (map tokS mids ++ rest) (mkI n T Lv Tot l) =
    appO (emit_mids T Lv Tot mids)
         (READ rest (mkI n' (last (map fst mids) T) (last (map snd mids) Lv)
                         (Tot + (last (map snd mids) Lv - Lv)) l')).
Proof.
  induction mids as [|[w c] mids IH]; intros n T Lv Tot l rest Hn (Hs & Hv & Hhd).
  - exists n, l. split; [exact Hn|]. cbn. rewrite appO_nil. replace (Tot + (Lv - Lv)) with Tot by lia. reflexivity.
  - cbn [fst snd] in Hhd. destruct Hhd as [HT Heq].
    cbn [map] in Hs, Hv. apply StronglySorted_inv in Hs as [Hs Hw].
    apply StronglySorted_inv in Hv as [Hv HLv]. apply Forall_cons_iff in HLv as [HLc HLv].
    apply StronglySorted_inv in Hv as [Hv Hc]. cbn [fst snd] in *.
    cbn [map app]. unfold tokS at 1. cbn [fst snd]. rewrite READ_step. cbn [c_total c_lastT c_lastV c_totalV].
    replace (n =? 0) with false by (symmetry; apply Z.eqb_neq; lia).
    assert (Hnext : mids_ok w c mids).
    { split; [exact Hs|]. split; [constructor; assumption|].
      destruct mids as [|[w2 c2] mids']; [exact I|]. cbn [fst snd map] in *.
      apply Forall_cons_iff in Hw as [Hw _]. split; [lia|intros; lia]. }
    assert (Hlast_f : last (w :: map fst mids) T = last (map fst mids) w) by apply last_cons.
    assert (Hlast_s : last (c :: map snd mids) Lv = last (map snd mids) c) by apply last_cons.
    rewrite Hlast_f, Hlast_s.
    destruct (w >? T) eqn:E.
    + apply Z.gtb_lt in E. unfold step. replace (c >=? Lv) with true by (symmetry; apply Z.geb_le; lia).
      destruct (IH (n + 1) w c (Tot + (c - Lv)) true rest ltac:(lia) Hnext) as (n' & l' & Hn' & R).
      exists n', l'. split; [exact Hn'|]. rewrite R.
      unfold emit_mids at 2. cbn [flat_map fst snd]. replace (w >? T) with true by (symmetry; apply Z.gtb_lt; lia).
      cbn [app]. rewrite appO_cons. f_equal.
      replace (Tot + (c - Lv) + (last (map snd mids) c - c)) with (Tot + (last (map snd mids) c - Lv)) by lia.
      f_equal. unfold emit_mids. apply flat_map_ext_in. intros [w' c'] Hin. cbn [fst snd].
      rewrite Forall_map in Hw. rewrite Forall_forall in Hw. specialize (Hw _ Hin). cbn [fst] in Hw.
      replace (w' >? w) with true by (symmetry; apply Z.gtb_lt; lia).
      replace (w' >? T) with true by (symmetry; apply Z.gtb_lt; lia).
      f_equal. f_equal. lia.
    + rewrite Z.gtb_ltb in E. apply Z.ltb_ge in E. assert (w = T) by lia. subst w.
      specialize (Heq eq_refl). subst c.
      replace (T =? T) with true by (symmetry; apply Z.eqb_refl).
      destruct (IH n T Lv Tot true rest Hn Hnext) as (n' & l' & Hn' & R).
      exists n', l'. split; [exact Hn'|]. rewrite R.
      unfold emit_mids at 2. cbn [flat_map fst snd].
      replace (T >? T) with false by (symmetry; rewrite Z.gtb_ltb; apply Z.ltb_irrefl).
      reflexivity.
Qed.

(* ---- a counter chunk of the documented format ---- *)

Record cchunk := mkQ { q_t0 : Z; q_v0 : Z; q_mids : list (Z * Z); q_vl : Z }.

Definition q_end (q : cchunk) : Z := last (map fst (q_mids q)) (q_t0 q).
Definition q_clast (q : cchunk) : Z := last (map snd (q_mids q)) (q_v0 q).

(* first raw sample; per-window counter values; last timestamp again with the last raw value *)
Definition q_samples (q : cchunk) : list (Z * Z) :=
  (q_t0 q, q_v0 q) :: q_mids q ++ [(q_end q, q_vl q)].

Definition q_ok (q : cchunk) : Prop := mids_ok (q_t0 q) (q_v0 q) (q_mids q).

Fixpoint q_chain (prevT : option Z) (qs : list cchunk) : Prop :=
  match qs with
  | [] => True
  | q :: r =>
      q_ok q /\ match prevT with Some T => T < q_t0 q | None => True end /\
      q_chain (Some (q_end q)) r
  end.

(* what reading yields: prev = (last raw value, adjusted total) at the end of the previous chunk *)
Fixpoint expect (prev : option (Z * Z)) (qs : list cchunk) : list (Z * Z) :=
  match qs with
  | [] => []
  | q :: r =>
      let B := match prev with None => q_v0 q | Some (Lv, Tot) => Tot + step Lv (q_v0 q) end in
      ((q_t0 q, B) :: emit_mids (q_t0 q) (q_v0 q) B (q_mids q))
      ++ expect (Some (q_vl q, B + (q_clast q - q_v0 q))) r
  end.

Lemma toks_of_q q cs :
  toks_of (q_samples q :: cs) =
  TS (q_t0 q) (q_v0 q) :: (map tokS (q_mids q) ++ TS (q_end q) (q_vl q) :: TEnd :: toks_of cs).
Proof.
  unfold toks_of, q_samples. cbn [flat_map map fst snd app]. f_equal.
  rewrite map_app. cbn [map fst snd]. rewrite <- !app_assoc. reflexivity.
Qed.

Lemma read_after_first : forall q r n B l,
  0 < n -> q_ok q ->
  (forall n' l', 0 < n' ->
     READ (TEnd :: toks_of (map q_samples r)) (mkI n' (q_end q) (q_vl q) (B + (q_clast q - q_v0 q)) l')
     = Some (expect (Some (q_vl q, B + (q_clast q - q_v0 q))) r)) ->
  READ (map tokS (q_mids q) ++ TS (q_end q) (q_vl q) :: TEnd :: toks_of (map q_samples r))
       (mkI n (q_t0 q) (q_v0 q) B l)
  = Some (emit_mids (q_t0 q) (q_v0 q) B (q_mids q) ++ expect (Some (q_vl q, B + (q_clast q - q_v0 q))) r).
Proof.
  intros q r n B l Hn Hok Hrest.
  destruct (READ_mids (q_mids q) n (q_t0 q) (q_v0 q) B l
              (TS (q_end q) (q_vl q) :: TEnd :: toks_of (map q_samples r)) Hn Hok) as (n' & l' & Hn' & R).
  rewrite R. fold (q_end q). fold (q_clast q).
  rewrite READ_step. cbn [c_total c_lastT c_lastV c_totalV].
  replace (n' =? 0) with false by (symmetry; apply Z.eqb_neq; lia).
  replace (q_end q >? q_end q) with false by (symmetry; rewrite Z.gtb_ltb; apply Z.ltb_irrefl).
  rewrite Z.eqb_refl. rewrite (Hrest n' true Hn'). reflexivity.
Qed.

Lemma read_chain : forall qs n T Lv Tot l,
  0 < n -> q_chain (Some T) qs ->
  READ (TEnd :: toks_of (map q_samples qs)) (mkI n T Lv Tot l) = Some (expect (Some (Lv, Tot)) qs).
Proof.
  induction qs as [|q r IH]; intros n T Lv Tot l Hn Hc.
  - apply READ_end_nil.
  - cbn [q_chain] in Hc. destruct Hc as (Hok & HT & Hc).
    cbn [map]. rewrite toks_of_q. rewrite READ_end_next by assumption.
    rewrite read_after_first; [reflexivity|lia|exact Hok|].
    intros n' l' Hn'. apply IH; assumption.
Qed.

(* Part A: reading a sequence of well-formed, time-ordered counter chunks *)
Lemma read_chunks qs :
  q_chain None qs -> READ (toks_of (map q_samples qs)) acr0 = Some (expect None qs).
Proof.
  destruct qs as [|q r]; intros Hc; [reflexivity|].
  cbn [q_chain] in Hc. destruct Hc as (Hok & _ & Hc).
  cbn [map]. rewrite toks_of_q. rewrite READ_step. cbn [acr0 c_total]. cbn [Z.eqb].
  rewrite read_after_first; [reflexivity|lia|exact Hok|].
  intros n' l' Hn'. apply read_chain; assumption.
Qed.

(* ---- Part B: the counter sub-chunk written by downsampleFloatBatch ---- *)

Fixpoint prefixes (pre : list Z) (gout : list (Z * list (Z * Z))) : list (list Z) :=
  match gout with
  | [] => []
  | g :: r => (pre ++ map snd (snd g)) :: prefixes (pre ++ map snd (snd g)) r
  end.

Lemma run_list_prefixes : forall out gout pre,
  run_list pre out gout -> Forall2 (fun o p => run_ok (snd o) p) out (prefixes pre gout).
Proof.
  induction out as [|o out IH]; intros gout pre H; destruct gout as [|g gout]; cbn in H; try contradiction; [constructor|].
  destruct H as [Ho H]. cbn [prefixes]. constructor; [exact Ho|apply IH; exact H].
Qed.

Section PartB.
Variable res : Z.
Hypothesis res_pos : 0 < res.

Lemma batch_run b : good_batch b ->
  run_list [] (fst (downsample_batch cw res b)) (batch_windows cw res b).
Proof.
  intros [Hne [Hs Hnn]]. unfold downsample_batch, batch_windows.
  assert (HL : 0 <= last_t b).
  { rewrite Forall_forall in Hnn. apply (Hnn _ (last_in b (0, 0) Hne)). }
  assert (Hcw : forall t, 0 <= t -> 0 <= cw t res) by (intros t Ht; pose proof (cw_ge res res_pos t Ht); lia).
  pose proof (db_run_lockstep cw res (last_t b) b (-1) a0 [] []
                (conj eq_refl (fun H => False_ind _ (H eq_refl))) (fun _ => eq_refl) Hnn HL Hcw) as L.
  pose proof (db_loop_total cw res (last_t b) b (-1) a0) as T.
  destruct (db_loop cw res (last_t b) b (-1) a0) as [out [nT a']].
  pose proof (db_gh_lockstep cw res (last_t b) b (-1) a0 []) as _.
  destruct (gh_loop cw res (last_t b) b (-1) []) as [gout [gT cur']].
  destruct L as [L1 L2]. cbn [fst snd] in *.
  replace (a_total a' >? 0) with true
    by (symmetry; apply Z.gtb_lt; rewrite T; cbn [a_total a0]; destruct b; [congruence|cbn [length]; lia]).
  apply run_list_app; [exact L1|]. cbn [run_list app snd map]. split; [|exact I].
  cbn [app] in L2. exact L2.
Qed.


(* the counter chunk of a batch, as a cchunk *)
Definition q_of (b : list (Z * Z)) : cchunk :=
  mkQ (fst (hd (0, 0) b)) (snd (hd (0, 0) b))
      (proj a_counter (fst (downsample_batch cw res b))) (snd (last b (0, 0))).

Definition counter_batch (b : list (Z * Z)) : Prop :=
  good_batch b /\ StronglySorted Z.lt (map fst b) /\ Forall (fun s => 0 <= snd s) b.

Lemma adj_mono pre vs : pre <> [] -> Forall (fun v => 0 <= v) vs -> adj pre <= adj (pre ++ vs).
Proof. intros Hne Hv. rewrite adj_app by exact Hne. pose proof (adj_from_nonneg vs (last pre 0) Hv). lia. Qed.

Lemma prefixes_mono : forall gout pre,
  pre <> [] -> Forall (fun g : Z * list (Z * Z) => Forall (fun s => 0 <= snd s) (snd g)) gout ->
  StronglySorted Z.le (adj pre :: map adj (prefixes pre gout)).
Proof.
  induction gout as [|g r IH]; intros pre Hne Hv; [repeat constructor|].
  apply Forall_cons_iff in Hv as [Hg Hv]. cbn [prefixes map].
  assert (Hne' : pre ++ map snd (snd g) <> []) by (destruct pre; [congruence|discriminate]).
  specialize (IH _ Hne' Hv).
  assert (Hle : adj pre <= adj (pre ++ map snd (snd g))).
  { apply adj_mono; [exact Hne|]. rewrite Forall_map. exact Hg. }
  constructor; [exact IH|]. constructor; [exact Hle|].
  apply StronglySorted_inv in IH as [_ H]. eapply Forall_impl; [|exact H]. intros x Hx; cbv beta in Hx. lia.
Qed.

Lemma counters_are_adj : forall outs ps,
  Forall2 (fun (o : Z * fagg) p => run_ok (snd o) p) outs ps -> Forall (fun p : list Z => p <> []) ps ->
  map (fun o : Z * fagg => a_counter (snd o)) outs = map adj ps.
Proof.
  induction 1 as [|o p outs ps [_ Hc] _ IH]; intros Hne; [reflexivity|].
  apply Forall_cons_iff in Hne as [Hp Hne]. cbn [map]. rewrite (proj1 (Hc Hp)), (IH Hne). reflexivity.
Qed.

Lemma prefixes_nonempty : forall gout pre,
  Forall (fun g : Z * list (Z * Z) => snd g <> []) gout -> Forall (fun p : list Z => p <> []) (prefixes pre gout).
Proof.
  induction gout as [|g r IH]; intros pre H; [constructor|]. apply Forall_cons_iff in H as [Hg H].
  cbn [prefixes]. constructor; [|apply IH; exact H].
  destruct (snd g); [congruence|]. destruct pre; discriminate.
Qed.

Lemma q_of_ok b : counter_batch b ->
  q_ok (q_of b) /\ q_end (q_of b) = last_t b /\
  k_counter (float_batch cw res b) = Some (q_samples (q_of b)) /\
  map snd (q_mids (q_of b)) = map adj (prefixes [] (batch_windows cw res b)).
Proof.
  intros (Hg & Hstrict & Hval). pose proof Hg as [Hne [Hs Hnn]].
  destruct (batch_windows_facts cw res (cw_ge res res_pos) (cw_same res res_pos) b Hg)
    as (Bcat & Bok & Bsort & _ & Bne & Blast & BF & BnT).
  pose proof (batch_run b Hg) as BR. apply run_list_prefixes in BR.
  set (outs := fst (downsample_batch cw res b)) in *. set (bw := batch_windows cw res b) in *.
  assert (EL : map fst outs = map fst bw) by (apply (Forall2_map_eq _ _ _ _ _ BF); intros x y [H _]; exact H).
  assert (Hwne : Forall (fun g : Z * list (Z * Z) => snd g <> []) bw)
    by (eapply Forall_impl; [|exact Bok]; intros p (H & _); exact H).
  assert (EC : map (fun o : Z * fagg => a_counter (snd o)) outs = map adj (prefixes [] bw))
    by (apply counters_are_adj; [exact BR|apply prefixes_nonempty; exact Hwne]).
  assert (Emf : map fst (proj a_counter outs) = map fst bw) by (unfold proj; rewrite map_map; exact EL).
  assert (Ems : map snd (proj a_counter outs) = map adj (prefixes [] bw)) by (unfold proj; rewrite map_map; exact EC).
  destruct b as [|[t0 v0] rest]; [congruence|].
  destruct bw as [|[w1 c1] bwr] eqn:Ebw; [congruence|].
  (* the first window starts with the first sample *)
  apply Forall_cons_iff in Bok as [(Hc1ne & Hw1 & Hc1) Bokr]. cbn [fst snd] in *.
  destruct c1 as [|s1 c1r]; [congruence|].
  cbn [map concat snd app] in Bcat. injection Bcat as Es1 Bcat'. subst s1.
  apply Forall_cons_iff in Hc1 as [(_ & Ht0w & _) Hc1r]. cbn [fst] in Ht0w.
  assert (Hvals : Forall (fun g : Z * list (Z * Z) => Forall (fun s => 0 <= snd s) (snd g)) ((w1, (t0, v0) :: c1r) :: bwr)).
  { rewrite Forall_forall. intros g Hgin. rewrite Forall_forall. intros s Hsin.
    rewrite Forall_forall in Hval. apply Hval.
    change ((t0, v0) :: rest) with ((t0, v0) :: rest). rewrite <- Bcat'.
    change ((t0, v0) :: c1r ++ concat (map snd bwr)) with (concat (map snd ((w1, (t0, v0) :: c1r) :: bwr))).
    eapply in_concat_map_snd; eassumption. }
  unfold q_ok, q_of. cbn [q_t0 q_v0 q_mids hd fst snd]. fold outs.
  split; [|split; [|split]].
  - (* mids_ok *)
    unfold mids_ok. rewrite Emf, Ems. split; [exact Bsort|]. split.
    + cbn [prefixes app map snd].
      apply Forall_cons_iff in Hvals as [Hv1 Hvr]. cbn [snd] in Hv1.
      pose proof (prefixes_mono bwr (map snd ((t0, v0) :: c1r)) ltac:(discriminate) Hvr) as PM.
      cbn [map snd] in PM |- *.
      assert (Hv0 : v0 <= adj (v0 :: map snd c1r)).
      { cbn [adj]. rewrite adj_from_total. apply Forall_cons_iff in Hv1 as [_ Hv1].
        pose proof (adj_from_nonneg (map snd c1r) v0 ltac:(rewrite Forall_map; exact Hv1)). lia. }
      constructor; [exact PM|]. constructor; [exact Hv0|].
      apply StronglySorted_inv in PM as [_ H]. eapply Forall_impl; [|exact H]. intros x Hx; cbv beta in Hx. lia.
    + destruct (proj a_counter outs) as [|m ms] eqn:Em; [exact I|].
      cbn [map] in Emf, Ems. injection Emf as Ef _. cbn [prefixes app map snd] in Ems. injection Ems as Es _.
      rewrite Ef, Es. split; [exact Ht0w|]. intros Eq. subst w1.
      (* all samples of the first window are at t0; timestamps are strictly increasing *)
      destruct c1r as [|s2 c1r']; [reflexivity|]. exfalso.
      apply Forall_cons_iff in Hc1r as [(_ & H2 & _) _].
      cbn [map] in Hstrict. apply StronglySorted_inv in Hstrict as [_ Hlt].
      rewrite <- Bcat' in Hlt. cbn [app map] in Hlt. apply Forall_cons_iff in Hlt as [Hlt _]. cbn [fst] in Hlt. lia.
  - unfold q_end. cbn [q_mids q_t0]. rewrite Emf.
    change (fst (last ((w1, (t0, v0) :: c1r) :: bwr) (0, []))) with (fst (last ((w1, (t0, v0) :: c1r) :: bwr) (0, @nil (Z * Z)))) in Blast.
    rewrite <- Blast. rewrite <- (last_map fst). cbn [fst map].
    apply last_default. discriminate.
  - unfold float_batch, q_samples. cbn [q_t0 q_v0 q_mids q_vl].
    unfold outs in *. destruct (downsample_batch cw res ((t0, v0) :: rest)) as [o lt] eqn:Ed. cbn [fst snd] in *.
    cbn [k_counter hd]. f_equal. f_equal. f_equal. f_equal. f_equal.
    unfold q_end. cbn [q_mids q_t0]. rewrite Emf. rewrite BnT.
    change (fst (last ((w1, (t0, v0) :: c1r) :: bwr) (0, []))) with (fst (last ((w1, (t0, v0) :: c1r) :: bwr) (0, @nil (Z * Z)))) in Blast.
    rewrite <- Blast. rewrite <- (last_map fst). cbn [fst map]. symmetry. apply last_default. discriminate.
  - exact Ems.
Qed.

End PartB.

(* ---- level 1: DownsampleRaw then reading the counter aggregate ---- *)

Lemma sorted_lt_app_inv (l1 l2 : list Z) :
  StronglySorted Z.lt (l1 ++ l2) ->
  StronglySorted Z.lt l1 /\ StronglySorted Z.lt l2 /\ (forall x y, In x l1 -> In y l2 -> x < y).
Proof.
  induction l1 as [|a l1 IH]; intros H; cbn [app] in H.
  - split; [constructor|]. split; [exact H|]. intros x y [].
  - apply StronglySorted_inv in H as [H Ha]. destruct (IH H) as (S1 & S2 & C).
    apply Forall_app in Ha as [Ha1 Ha2]. split; [constructor; assumption|]. split; [exact S2|].
    intros x y [<-|Hx] Hy; [rewrite Forall_forall in Ha2; apply Ha2; exact Hy|apply C; assumption].
Qed.

Lemma keep_nonnan_sorted_lt l :
  StronglySorted Z.lt (map fst l) -> StronglySorted Z.lt (map fst (keep_nonnan l)).
Proof.
  induction l as [|[t [v|]] l IH]; intros Hs; cbn [keep_nonnan flat_map map app fst snd] in *.
  - constructor.
  - apply StronglySorted_inv in Hs as [Hs Hle]. constructor; [apply IH; exact Hs|].
    rewrite Forall_map in Hle |- *. apply (keep_nonnan_forall (fun x => t < x)). exact Hle.
  - apply StronglySorted_inv in Hs as [Hs _]. apply IH. exact Hs.
Qed.

Lemma sorted_lt_le_Z l : StronglySorted Z.lt l -> StronglySorted Z.le l.
Proof.
  induction 1 as [|a l _ IH Ha]; constructor; [exact IH|].
  eapply Forall_impl; [|exact Ha]. intros x Hx; cbv beta in Hx. lia.
Qed.

Lemma concat_parts_sorted : forall (bs : list (list (Z * Z))),
  StronglySorted Z.lt (map fst (concat bs)) -> Forall (fun b => StronglySorted Z.lt (map fst b)) bs.
Proof.
  induction bs as [|b r IH]; intros H; [constructor|]. cbn [concat] in H. rewrite map_app in H.
  destruct (sorted_lt_app_inv _ _ H) as (S1 & S2 & _). constructor; [exact S1|apply IH; exact S2].
Qed.

Lemma concat_parts_forall {A} (P : A -> Prop) : forall (bs : list (list A)),
  Forall P (concat bs) -> Forall (fun b => Forall P b) bs.
Proof.
  induction bs as [|b r IH]; intros H; [constructor|]. cbn [concat] in H.
  apply Forall_app in H as [H1 H2]. constructor; [exact H1|apply IH; exact H2].
Qed.

Lemma keep_nonnan_vals l :
  Forall (fun s : Z * option Z => match snd s with Some v => 0 <= v | None => True end) l ->
  Forall (fun s : Z * Z => 0 <= snd s) (keep_nonnan l).
Proof.
  intros H. rewrite Forall_forall in *. intros s Hin.
  apply keep_nonnan_in in Hin as (s' & Hin & _ & E). specialize (H s' Hin). rewrite E in H. exact H.
Qed.

Section Level1.
Variable res : Z.
Hypothesis res_pos : 0 < res.

Lemma level1_structure nc data :
  valid_counter res data ->
  exists batches,
    level1 res nc data = Some (map (float_batch cw res) batches) /\
    concat batches = keep_nonnan data /\
    Forall (counter_batch) batches /\ seps cw res batches.
Proof.
  intros (_ & Hs & Hb). unfold level1, downsample_raw.
  assert (Hnn : Forall (fun s : Z * option Z => 0 <= fst s) data)
    by (eapply Forall_impl; [|exact Hb]; intros s [? _]; lia).
  destruct (raw_batches_spec cw res (cw_ge res res_pos) (cw_same res res_pos) (length data / nc + 1)%nat ltac:(lia)
              (length data) data (le_n _) (sorted_lt_le_Z _ Hs) Hnn) as (batches & E & Hcat & Hne & Hsep & Hgood).
  exists batches. rewrite E. split; [reflexivity|]. split; [exact Hcat|]. split; [|exact Hsep].
  pose proof (keep_nonnan_sorted_lt data Hs) as Hks. rewrite <- Hcat in Hks.
  pose proof (concat_parts_sorted _ Hks) as Hst.
  assert (Hv : Forall (fun s : Z * Z => 0 <= snd s) (concat batches)).
  { rewrite Hcat. apply keep_nonnan_vals. eapply Forall_impl; [|exact Hb]. intros s [_ H]. exact H. }
  pose proof (concat_parts_forall _ _ Hv) as Hvs.
  rewrite Forall_forall in *. intros b Hin. split; [split; [apply Hne|apply Hgood]; exact Hin|].
  split; [apply Hst|apply Hvs]; exact Hin.
Qed.

Lemma present_counters : forall batches,
  Forall counter_batch batches ->
  present k_counter (map (float_batch cw res) batches) = map q_samples (map (q_of res) batches).
Proof.
  induction batches as [|b r IH]; intros H; [reflexivity|].
  apply Forall_cons_iff in H as [Hb H]. unfold present in *. cbn [map flat_map].
  destruct (q_of_ok res res_pos b Hb) as (_ & _ & Ek & _). rewrite Ek, (IH H). reflexivity.
Qed.

Lemma chain_batches : forall batches prevT,
  Forall counter_batch batches -> seps cw res batches ->
  match prevT with Some T => Forall (fun s : Z * Z => T < fst s) (concat batches) | None => True end ->
  q_chain prevT (map (q_of res) batches).
Proof.
  induction batches as [|b r IH]; intros prevT Hc Hsep Hp; [exact I|].
  apply Forall_cons_iff in Hc as [Hb Hc]. destruct Hsep as [Hcross Hsep].
  destruct (q_of_ok res res_pos b Hb) as (Hok & Hend & _ & _).
  cbn [map q_chain]. split; [exact Hok|]. split.
  - destruct prevT as [T|]; [|exact I]. destruct Hb as ([Hne _] & _ & _).
    destruct b as [|s0 b']; [congruence|]. cbn [concat app] in Hp. apply Forall_cons_iff in Hp as [H _].
    exact H.
  - rewrite Hend. apply IH; [exact Hc|exact Hsep|].
    destruct Hb as ([Hne [_ Hnn]] & _ & _).
    assert (Hll : In (last b (0, 0)) b) by (apply last_in; exact Hne).
    rewrite Forall_forall in Hcross. specialize (Hcross _ Hll).
    eapply Forall_impl; [|exact Hcross]. intros s Hs; cbv beta in Hs.
    rewrite Forall_forall in Hnn. specialize (Hnn _ Hll).
    pose proof (cw_ge res res_pos _ Hnn). unfold last_t. lia.
Qed.

Lemma level1_read nc data :
  valid_counter res data ->
  exists batches,
    level1 res nc data = Some (map (float_batch cw res) batches) /\
    concat batches = keep_nonnan data /\
    Forall counter_batch batches /\ seps cw res batches /\
    read_counter (map (float_batch cw res) batches) = Some (expect None (map (q_of res) batches)).
Proof.
  intros Hv. destruct (level1_structure nc data Hv) as (batches & E & Hcat & Hcb & Hsep).
  exists batches. repeat split; try assumption.
  unfold read_counter, counter_toks. rewrite (present_counters batches Hcb).
  pose proof (read_chunks _ (chain_batches batches None Hcb Hsep I)) as R. unfold READ in R.
  destruct (acr_run _ _ acr0) as [[out fin]|]; [|discriminate]. exact R.
Qed.

End Level1.

(* ---- the values read are the adjusted raw counter at the emitted timestamps ---- *)

Definition vals (l : list (Z * Z)) : list Z := map snd l.
Definition upto (t : Z) (d : list (Z * Z)) : list (Z * Z) := filter (fun s => fst s <=? t) d.

Lemma adj_at_upto d t : adj_at d t = adj (vals (upto t d)).
Proof. reflexivity. Qed.

Lemma upto_all t l : Forall (fun s : Z * Z => fst s <= t) l -> upto t l = l.
Proof. intros H. apply filter_all. eapply Forall_impl; [|exact H]. intros s Hs. apply Z.leb_le. exact Hs. Qed.

Lemma upto_none t l : Forall (fun s : Z * Z => t < fst s) l -> upto t l = [].
Proof. intros H. apply filter_none. eapply Forall_impl; [|exact H]. intros s Hs. apply Z.leb_gt. exact Hs. Qed.

Lemma upto_app t l1 l2 : upto t (l1 ++ l2) = upto t l1 ++ upto t l2.
Proof. apply filter_app. Qed.

(* base value after the first sample of a chunk *)
Definition base (P : list Z) (v0 : Z) : Z :=
  match P with [] => v0 | _ => adj P + step (last P 0) v0 end.

Lemma base_adj P v0 : base P v0 = adj (P ++ [v0]).
Proof. destruct P as [|x P']; [reflexivity|]. unfold base. rewrite adj_snoc by discriminate. reflexivity. Qed.

Lemma adj_join P v0 tl : adj (P ++ v0 :: tl) = base P v0 + (adj (v0 :: tl) - v0).
Proof.
  rewrite base_adj. replace (P ++ v0 :: tl) with ((P ++ [v0]) ++ tl) by (rewrite <- app_assoc; reflexivity).
  rewrite adj_app by (destruct P; discriminate). rewrite last_last.
  cbn [adj]. rewrite (adj_from_total tl v0 v0). lia.
Qed.

(* windows of one batch: later windows lie strictly after earlier labels *)
Fixpoint sep_windows (ws : list (Z * list (Z * Z))) : Prop :=
  match ws with
  | [] => True
  | g :: r => Forall (fun g' : Z * list (Z * Z) => Forall (fun s' => fst g < fst s') (snd g')) r /\ sep_windows r
  end.

Section Adj.
Variable res : Z.
Hypothesis res_pos : 0 < res.

Lemma batch_sep_windows b : good_batch b -> sep_windows (batch_windows cw res b).
Proof.
  intros Hg. destruct (batch_windows_facts cw res (cw_ge res res_pos) (cw_same res res_pos) b Hg)
    as (_ & Bok & _ & Bcs & _).
  induction (batch_windows cw res b) as [|g r IH]; [exact I|].
  apply Forall_cons_iff in Bok as [Hgok Bok]. cbn [map] in Bcs. apply StronglySorted_inv in Bcs as [Bcs Hlt].
  cbn [sep_windows]. split; [|apply IH; assumption].
  rewrite Forall_forall. intros g' Hin. rewrite Forall_forall. intros s' Hs'.
  rewrite Forall_forall in Bok. destruct (Bok g' Hin) as (_ & _ & A). rewrite Forall_forall in A.
  destruct (A s' Hs') as (H0 & _ & Ecw).
  rewrite Forall_map, Forall_forall in Hlt. specialize (Hlt g' Hin). cbv beta in Hlt.
  destruct Hgok as (_ & Hg0 & _).
  destruct (Z_lt_le_dec (fst g) (fst s')) as [H|H]; [exact H|exfalso].
  pose proof (cw_mono cw res (cw_ge res res_pos) (cw_same res res_pos) (fst s') (fst g) H0 H). lia.
Qed.

(* inner induction over the windows of one batch *)
Lemma windows_upto (Dpre Dpost : list (Z * Z)) : forall ws acc,
  Forall (fun g : Z * list (Z * Z) => Forall (fun s => fst s <= fst g) (snd g)) ws ->
  StronglySorted Z.lt (map fst ws) -> sep_windows ws ->
  Forall (fun g : Z * list (Z * Z) => Forall (fun s => fst s <= fst g) (Dpre ++ acc)) ws ->
  Forall (fun g : Z * list (Z * Z) => Forall (fun s => fst g < fst s) Dpost) ws ->
  Forall2 (fun (g : Z * list (Z * Z)) p =>
             vals (upto (fst g) (Dpre ++ (acc ++ concat (map snd ws)) ++ Dpost)) = vals Dpre ++ p)
          ws (prefixes (vals acc) ws).
Proof.
  induction ws as [|g r IH]; intros acc Hin Hs Hsep Hbefore Hafter; [constructor|].
  apply Forall_cons_iff in Hin as [Hg Hin]. cbn [map] in Hs. apply StronglySorted_inv in Hs as [Hs Hlab].
  destruct Hsep as [Hsg Hsep]. apply Forall_cons_iff in Hbefore as [Hbg Hbefore].
  apply Forall_cons_iff in Hafter as [Hag Hafter].
  cbn [prefixes]. constructor.
  - cbn [map concat]. rewrite !upto_app.
    apply Forall_app in Hbg as [Hb1 Hb2].
    rewrite (upto_all _ Dpre Hb1), (upto_all _ acc Hb2), (upto_all _ (snd g) Hg).
    rewrite (upto_none _ (concat (map snd r))), (upto_none _ Dpost Hag).
    + rewrite !app_nil_r. unfold vals. rewrite !map_app. reflexivity.
    + apply Forall_concat. rewrite Forall_map. exact Hsg.
  - replace (acc ++ concat (map snd (g :: r))) with ((acc ++ snd g) ++ concat (map snd r))
      by (cbn [map concat]; rewrite app_assoc; reflexivity).
    replace (vals acc ++ map snd (snd g)) with (vals (acc ++ snd g)) by (unfold vals; rewrite map_app; reflexivity).
    apply IH; try assumption.
    rewrite Forall_forall. intros g' Hg'. rewrite app_assoc. apply Forall_app. split.
    + rewrite Forall_forall in Hbefore. apply Hbefore. exact Hg'.
    + rewrite Forall_map, Forall_forall in Hlab. specialize (Hlab g' Hg'). cbv beta in Hlab.
      eapply Forall_impl; [|exact Hg]. intros s Hs'; cbv beta in Hs'. lia.
Qed.

End Adj.

Lemma prefixes_last : forall ws pre, ws <> [] ->
  last (prefixes pre ws) [] = pre ++ vals (concat (map snd ws)).
Proof.
  induction ws as [|g r IH]; intros pre Hne; [congruence|]. cbn [prefixes map concat].
  destruct r as [|g' r'].
  - cbn. unfold vals. rewrite app_nil_r. reflexivity.
  - rewrite last_cons. rewrite (last_default _ (pre ++ map snd (snd g)) []) by (cbn; discriminate).
    rewrite IH by discriminate. unfold vals. rewrite map_app, app_assoc. reflexivity.
Qed.

Lemma prefixes_hd v0 : forall ws pre tl, pre = v0 :: tl ->
  Forall (fun p : list Z => exists tl', p = v0 :: tl') (prefixes pre ws).
Proof.
  induction ws as [|g r IH]; intros pre tl ->; [constructor|]. cbn [prefixes app].
  constructor; [eexists; reflexivity|]. eapply IH. reflexivity.
Qed.

Lemma mids_pairs (R : Z * list (Z * Z) -> list Z -> Prop) : forall ws ps,
  Forall2 R ws ps -> forall mids : list (Z * Z), map fst mids = map fst ws -> map snd mids = map adj ps ->
  Forall (fun m => exists g p, fst m = fst g /\ snd m = adj p /\ R g p /\ In p ps) mids.
Proof.
  induction 1 as [|g p ws ps Hgp _ IH]; intros mids Hf Hs; destruct mids as [|m mids]; try discriminate; [constructor|].
  cbn [map] in Hf, Hs. injection Hf as Hf1 Hf. injection Hs as Hs1 Hs.
  constructor; [exists g, p; repeat split; try assumption; left; reflexivity|].
  eapply Forall_impl; [|apply IH; assumption]. intros m' (g' & p' & A & B & C & D).
  exists g', p'. repeat split; try assumption. right. exact D.
Qed.

Section Adj2.
Variable res : Z.
Hypothesis res_pos : 0 < res.

Lemma batch_emits (Dpre Dpost b : list (Z * Z)) :
  counter_batch b ->
  (forall s s', In s Dpre -> In s' b -> fst s < fst s') ->
  (forall s s', In s b -> In s' Dpost -> cw (fst s) res < fst s') ->
  let d := Dpre ++ b ++ Dpost in
  let q := q_of res b in
  let B := base (vals Dpre) (q_v0 q) in
  Forall (fun s => snd s = adj_at d (fst s)) ((q_t0 q, B) :: emit_mids (q_t0 q) (q_v0 q) B (q_mids q)) /\
  B + (q_clast q - q_v0 q) = adj (vals Dpre ++ vals b) /\ q_vl q = last (vals Dpre ++ vals b) 0.
Proof.
  intros Hcb Hpre Hpost. cbv zeta. pose proof Hcb as (Hg & Hstrict & Hval). pose proof Hg as [Hne [Hs Hnn]].
  destruct (q_of_ok res res_pos b Hcb) as (_ & _ & _ & Ems).
  destruct (batch_windows_facts cw res (cw_ge res res_pos) (cw_same res res_pos) b Hg)
    as (Bcat & Bok & Bsort & _ & Bne & _ & BF & _).
  assert (Emf : map fst (q_mids (q_of res b)) = map fst (batch_windows cw res b)).
  { unfold q_of, proj. cbn [q_mids]. rewrite map_map. cbn [fst].
    apply (Forall2_map_eq _ _ _ _ _ BF). intros x y [H _]. exact H. }
  pose proof (batch_sep_windows res res_pos b Hg) as Hsepw.
  set (bw := batch_windows cw res b) in *.
  destruct b as [|[t0 v0] b']; [congruence|].
  unfold q_of in *. cbn [q_t0 q_v0 q_mids q_vl hd fst snd] in *.
  (* every sample of the batch is at or after t0; the others strictly after *)
  assert (Hb' : Forall (fun s : Z * Z => t0 < fst s) b').
  { cbn [map] in Hstrict. apply StronglySorted_inv in Hstrict as [_ H]. rewrite Forall_map in H. exact H. }
  assert (Hball : forall s, In s ((t0, v0) :: b') -> t0 <= fst s).
  { intros s [<-|Hin]; [cbn; lia|]. rewrite Forall_forall in Hb'. specialize (Hb' s Hin). lia. }
  assert (Ht0 : 0 <= t0) by (apply Forall_cons_iff in Hnn as [H _]; exact H).
  assert (Hin_b : forall g s, In g bw -> In s (snd g) -> In s ((t0, v0) :: b')).
  { intros g s Hg' Hs'. rewrite <- Bcat. eapply in_concat_map_snd; eassumption. }
  (* conditions of windows_upto *)
  assert (C1 : Forall (fun g : Z * list (Z * Z) => Forall (fun s => fst s <= fst g) (snd g)) bw).
  { eapply Forall_impl; [|exact Bok]. intros g (_ & _ & A). eapply Forall_impl; [|exact A]. intros s (_ & H & _). exact H. }
  assert (C4 : Forall (fun g : Z * list (Z * Z) => Forall (fun s => fst s <= fst g) (Dpre ++ [])) bw).
  { rewrite app_nil_r. rewrite Forall_forall. intros g Hg'. rewrite Forall_forall. intros s Hs'.
    rewrite Forall_forall in Bok. destruct (Bok g Hg') as (Hgne & _ & A).
    destruct (snd g) as [|s1 l1] eqn:Eg; [congruence|]. apply Forall_cons_iff in A as [(_ & H1 & _) _].
    assert (In s1 ((t0, v0) :: b')) by (apply (Hin_b g); [exact Hg'|rewrite Eg; left; reflexivity]).
    specialize (Hpre s s1 Hs' H). lia. }
  assert (C5 : Forall (fun g : Z * list (Z * Z) => Forall (fun s => fst g < fst s) Dpost) bw).
  { rewrite Forall_forall. intros g Hg'. rewrite Forall_forall. intros s' Hs'.
    rewrite Forall_forall in Bok. destruct (Bok g Hg') as (Hgne & Hg0 & A).
    destruct (snd g) as [|s1 l1] eqn:Eg; [congruence|]. apply Forall_cons_iff in A as [(_ & _ & Ecw) _].
    assert (In s1 ((t0, v0) :: b')) by (apply (Hin_b g); [exact Hg'|rewrite Eg; left; reflexivity]).
    specialize (Hpost s1 s' H Hs'). pose proof (cw_ge res res_pos _ Hg0). lia. }
  pose proof (windows_upto Dpre Dpost bw [] C1 Bsort Hsepw C4 C5) as WU.
  cbn [app] in WU. rewrite Bcat in WU. change (vals []) with (@nil Z) in WU.
  (* all prefixes start with v0 *)
  assert (Hhd : Forall (fun p : list Z => exists tl', p = v0 :: tl') (prefixes [] bw)).
  { destruct bw as [|[w1 c1] bwr]; [constructor|].
    cbn [map concat snd] in Bcat. destruct c1 as [|s1 c1r].
    - rewrite Forall_forall in Bok. destruct (Bok _ (or_introl eq_refl)) as (H & _). cbn in H. congruence.
    - cbn [app] in Bcat. injection Bcat as -> _. cbn [prefixes app map snd].
      constructor; [eexists; reflexivity|]. eapply prefixes_hd. reflexivity. }
  split; [|split].
  - constructor.
    + (* the first raw sample of the chunk *)
      cbn [fst snd]. rewrite adj_at_upto. rewrite !upto_app.
      rewrite (upto_all t0 Dpre) by (rewrite Forall_forall; intros s Hs'; specialize (Hpre s (t0, v0) Hs' (or_introl eq_refl)); cbn in Hpre; lia).
      cbn [upto filter fst]. rewrite Z.leb_refl. fold (upto t0 b').
      rewrite (upto_none t0 b' Hb').
      rewrite (upto_none t0 Dpost)
        by (rewrite Forall_forall; intros s' Hs'; specialize (Hpost (t0, v0) s' (or_introl eq_refl) Hs');
            cbn in Hpost; pose proof (cw_ge res res_pos t0 Ht0); lia).
      cbn [app]. unfold vals. rewrite map_app. cbn [map snd]. rewrite base_adj. reflexivity.
    + (* the per-window values *)
      pose proof (mids_pairs _ _ _ WU _ Emf Ems) as MP.
      unfold emit_mids. rewrite Forall_forall. intros s Hs'. apply in_flat_map in Hs' as (m & Hm & Hs').
      rewrite Forall_forall in MP. destruct (MP m Hm) as (g & p & Ef & Es & HR & Hp).
      destruct (fst m >? t0); [|contradiction]. destruct Hs' as [<-|[]]. cbn [fst snd].
      rewrite adj_at_upto, Ef, HR, Es.
      rewrite Forall_forall in Hhd. destruct (Hhd p Hp) as (tl' & ->).
      rewrite adj_join. reflexivity.
  - (* total after the chunk *)
    unfold q_clast. cbn [q_mids q_v0]. rewrite Ems.
    assert (El : last (map adj (prefixes [] bw)) v0 = adj (vals ((t0, v0) :: b'))).
    { assert (Hpne : prefixes [] bw <> []) by (destruct bw; [congruence|discriminate]).
      rewrite (last_default _ v0 (adj [])) by (destruct (prefixes [] bw); [congruence|discriminate]).
      rewrite last_map. rewrite prefixes_last by exact Bne. rewrite Bcat. reflexivity. }
    rewrite El. cbn [vals map snd]. rewrite adj_join. reflexivity.
  - unfold vals. rewrite <- map_app.
    change 0 with (snd (0, 0)). rewrite last_map. f_equal.
    rewrite last_app_ne by discriminate. reflexivity.
Qed.

End Adj2.

Definition prev_of (Dpre : list (Z * Z)) : option (Z * Z) :=
  match vals Dpre with [] => None | _ => Some (last (vals Dpre) 0, adj (vals Dpre)) end.

Lemma expect_adj res : 0 < res -> forall batches Dpre,
  Forall counter_batch batches -> seps cw res batches ->
  (forall s s', In s Dpre -> In s' (concat batches) -> fst s < fst s') ->
  Forall (fun s => snd s = adj_at (Dpre ++ concat batches) (fst s))
         (expect (prev_of Dpre) (map (q_of res) batches)).
Proof.
  intros Hr. induction batches as [|b rest IH]; intros Dpre Hcb Hsep Hpre; [constructor|].
  apply Forall_cons_iff in Hcb as [Hb Hcb]. destruct Hsep as [Hcross Hsep].
  cbn [map expect concat].
  assert (Hpre_b : forall s s', In s Dpre -> In s' b -> fst s < fst s').
  { intros s s' Hs Hs'. apply Hpre; [exact Hs|]. cbn [concat]. apply in_or_app. left. exact Hs'. }
  assert (Hpost : forall s s', In s b -> In s' (concat rest) -> cw (fst s) res < fst s').
  { intros s s' Hs Hs'. rewrite Forall_forall in Hcross. specialize (Hcross s Hs).
    rewrite Forall_forall in Hcross. apply Hcross. exact Hs'. }
  destruct (batch_emits res Hr Dpre (concat rest) b Hb Hpre_b Hpost) as (E1 & E2 & E3).
  assert (EB : match prev_of Dpre with
               | None => q_v0 (q_of res b)
               | Some (Lv, Tot) => Tot + step Lv (q_v0 (q_of res b))
               end = base (vals Dpre) (q_v0 (q_of res b))).
  { unfold prev_of, base. destruct (vals Dpre); reflexivity. }
  rewrite EB. apply Forall_app. split; [exact E1|].
  assert (EP : Some (q_vl (q_of res b), base (vals Dpre) (q_v0 (q_of res b)) + (q_clast (q_of res b) - q_v0 (q_of res b)))
               = prev_of (Dpre ++ b)).
  { assert (EV : vals (Dpre ++ b) = vals Dpre ++ vals b) by (unfold vals; apply map_app).
    unfold prev_of. rewrite EV.
    destruct Hb as ([Hne _] & _ & _).
    destruct (vals Dpre ++ vals b) eqn:E.
    - apply app_eq_nil in E as [_ E]. destruct b; [congruence|discriminate].
    - rewrite E2, E3. reflexivity. }
  rewrite EP. rewrite app_assoc.
  replace (Dpre ++ b ++ concat rest) with ((Dpre ++ b) ++ concat rest) by (rewrite app_assoc; reflexivity).
  apply IH; [exact Hcb|exact Hsep|].
  intros s s' Hs Hs'. apply in_app_or in Hs as [Hs|Hs].
  - apply Hpre; [exact Hs|]. cbn [concat]. apply in_or_app. right. exact Hs'.
  - specialize (Hpost s s' Hs Hs'). destruct Hb as ([_ [_ Hnn]] & _ & _).
    rewrite Forall_forall in Hnn. pose proof (cw_ge res Hr _ (Hnn s Hs)). lia.
Qed.

(* Level 1: reading the counter aggregate of DownsampleRaw's output yields, at every emitted
   timestamp, the raw counter adjusted for all resets up to the last raw sample at or before it *)
Lemma level1_exact res nc data :
  valid_counter res data ->
  exists l1 emitted,
    level1 res nc data = Some l1 /\ read_counter l1 = Some emitted /\
    Forall (fun s => snd s = adj_at (keep_nonnan data) (fst s)) emitted.
Proof.
  intros Hv. pose proof Hv as (Hr & _ & _).
  destruct (level1_read res Hr nc data Hv) as (batches & E & Hcat & Hcb & Hsep & R).
  exists (map (float_batch cw res) batches), (expect None (map (q_of res) batches)).
  split; [exact E|]. split; [exact R|].
  pose proof (expect_adj res Hr batches [] Hcb Hsep ltac:(intros s s' [])) as A.
  cbn [app] in A. rewrite Hcat in A. exact A.
Qed.

Lemma valid_input_counter res1 res2 data : valid_input res1 res2 data = true -> valid_counter res1 data.
Proof.
  unfold valid_input. intros H. apply andb_true_iff in H as [H Hinc]. apply andb_true_iff in H as [H Hall].
  apply andb_true_iff in H as [Hr1 _]. apply Z.ltb_lt in Hr1. split; [exact Hr1|]. split.
  - clear - Hinc. induction (map fst data) as [|a l IH]; [constructor|].
    assert (Hl : strictly_inc l = true /\ Forall (Z.lt a) l).
    { clear IH. revert a Hinc. induction l as [|b l IHl]; intros a Hinc; [split; [reflexivity|constructor]|].
      change (strictly_inc (a :: b :: l)) with ((a <? b) && strictly_inc (b :: l)) in Hinc.
      apply andb_true_iff in Hinc as [Hab Hinc]. apply Z.ltb_lt in Hab.
      split; [exact Hinc|]. constructor; [lia|]. destruct (IHl b Hinc) as [_ F].
      eapply Forall_impl; [|exact F]. intros x Hx; cbv beta in Hx. lia. }
    destruct Hl as [Hl F]. constructor; [apply IH; exact Hl|exact F].
  - rewrite forallb_forall in Hall. rewrite Forall_forall. intros s Hs. specialize (Hall s Hs).
    apply andb_true_iff in Hall as [Hall Hv]. apply andb_true_iff in Hall as [A B].
    apply Z.leb_le in A. apply Z.leb_le in B. split; [lia|].
    destruct (snd s); [apply Z.leb_le; exact Hv|exact I].
Qed.

Lemma level1_values res1 res2 nc data :
  valid_input res1 res2 data = true ->
  exists l1 emitted,
    level1 res1 nc data = Some l1 /\ read_counter l1 = Some emitted /\
    values_ok (keep_nonnan data) emitted = true.
Proof.
  intros Hv. destruct (level1_exact res1 nc data (valid_input_counter _ _ _ Hv)) as (l1 & em & E & R & A).
  exists l1, em. split; [exact E|]. split; [exact R|].
  unfold values_ok. apply forallb_forall. intros s Hs. rewrite Forall_forall in A.
  apply Z.eqb_eq. apply A. exact Hs.
Qed.

(* ---- emitted timestamps are strictly increasing; the last value is the total ---- *)

Lemma emit_mids_fst T Lv Tot mids :
  map fst (emit_mids T Lv Tot mids) = filter (fun w => w >? T) (map fst mids).
Proof.
  unfold emit_mids. induction mids as [|m r IH]; [reflexivity|].
  cbn [flat_map map filter]. rewrite map_app, IH. destruct (fst m >? T); reflexivity.
Qed.

Lemma filter_gt_sorted T : forall L,
  StronglySorted Z.lt L -> Forall (fun w => T <= w) L ->
  let F := filter (fun w => w >? T) L in
  StronglySorted Z.lt (T :: F) /\ last (T :: F) 0 = last (T :: L) 0.
Proof.
  intros L Hs Hge. cbv zeta. destruct L as [|w L']; [split; [repeat constructor|reflexivity]|].
  apply StronglySorted_inv in Hs as [Hs' Hw]. apply Forall_cons_iff in Hge as [Hw0 _].
  assert (HL' : filter (fun x => x >? T) L' = L').
  { apply filter_all. eapply Forall_impl; [|exact Hw]. intros x Hx; cbv beta in Hx. apply Z.gtb_lt. lia. }
  cbn [filter]. rewrite HL'. destruct (w >? T) eqn:E.
  - apply Z.gtb_lt in E. split; [|reflexivity]. constructor; [constructor; assumption|].
    constructor; [exact E|]. eapply Forall_impl; [|exact Hw]. intros x Hx; cbv beta in Hx. lia.
  - rewrite Z.gtb_ltb in E. apply Z.ltb_ge in E. assert (w = T) by lia. subst w.
    split; [constructor; assumption|]. rewrite !last_cons. reflexivity.
Qed.

Lemma expect_sorted : forall qs prevT prev,
  q_chain prevT qs ->
  StronglySorted Z.lt (map fst (expect prev qs)) /\
  Forall (fun t => match prevT with Some T => T < t | None => True end) (map fst (expect prev qs)) /\
  (qs <> [] -> last (map fst (expect prev qs)) 0 = q_end (last qs (mkQ 0 0 [] 0))).
Proof.
  induction qs as [|q r IH]; intros prevT prev Hc; [split; [constructor|split; [constructor|congruence]]|].
  cbn [q_chain] in Hc. destruct Hc as (Hok & HT & Hc).
  cbn [expect]. set (B := match prev with None => q_v0 q | Some (Lv, Tot) => Tot + step Lv (q_v0 q) end).
  rewrite map_app. cbn [map fst]. rewrite emit_mids_fst.
  destruct Hok as (Hs & _ & Hhd).
  assert (Hge : Forall (fun w => q_t0 q <= w) (map fst (q_mids q))).
  { destruct (q_mids q) as [|m ms]; [constructor|]. destruct Hhd as [H0 _]. cbn [map] in Hs |- *.
    constructor; [exact H0|]. apply StronglySorted_inv in Hs as [_ H]. eapply Forall_impl; [|exact H].
    intros x Hx; cbv beta in Hx. lia. }
  destruct (filter_gt_sorted (q_t0 q) _ Hs Hge) as [FS FL]. cbv zeta in FS, FL.
  set (F := filter (fun w => w >? q_t0 q) (map fst (q_mids q))) in *.
  assert (Hend : last (q_t0 q :: F) 0 = q_end q) by (rewrite FL; unfold q_end; apply last_cons).
  assert (Hle : forall x, In x (q_t0 q :: F) -> x <= q_end q).
  { intros x Hx. rewrite <- Hend. apply sorted_le_last_Z; assumption. }
  destruct (IH (Some (q_end q)) (Some (q_vl q, B + (q_clast q - q_v0 q))) Hc) as (IS & IF & IL).
  split; [|split].
  - change (q_t0 q :: F ++ map fst (expect (Some (q_vl q, B + (q_clast q - q_v0 q))) r))
      with ((q_t0 q :: F) ++ map fst (expect (Some (q_vl q, B + (q_clast q - q_v0 q))) r)).
    apply sorted_app; [exact FS|exact IS|].
    intros x y Hx Hy. rewrite Forall_forall in IF. specialize (IF y Hy). cbv beta in IF. specialize (Hle x Hx). lia.
  - change (q_t0 q :: F ++ map fst (expect (Some (q_vl q, B + (q_clast q - q_v0 q))) r))
      with ((q_t0 q :: F) ++ map fst (expect (Some (q_vl q, B + (q_clast q - q_v0 q))) r)).
    apply Forall_app. split.
    + destruct prevT as [T|]; [|rewrite Forall_forall; intros; exact I].
      apply StronglySorted_inv in FS as [_ FS]. constructor; [exact HT|].
      eapply Forall_impl; [|exact FS]. intros x Hx; cbv beta in Hx. lia.
    + destruct prevT as [T|]; [|rewrite Forall_forall; intros; exact I].
      eapply Forall_impl; [|exact IF]. intros x Hx; cbv beta in Hx.
      specialize (Hle (q_t0 q) (or_introl eq_refl)). lia.
  - intros _. destruct r as [|q' r'].
    + cbn [expect map]. rewrite app_nil_r. cbn [last]. 
      change (q_t0 q :: F) with (q_t0 q :: F) in Hend. exact Hend.
    + change (q_t0 q :: F ++ map fst (expect (Some (q_vl q, B + (q_clast q - q_v0 q))) (q' :: r')))
        with ((q_t0 q :: F) ++ map fst (expect (Some (q_vl q, B + (q_clast q - q_v0 q))) (q' :: r'))).
      assert (Hne : map fst (expect (Some (q_vl q, B + (q_clast q - q_v0 q))) (q' :: r')) <> [])
        by (cbn [expect map app]; discriminate).
      rewrite last_app_ne by exact Hne. rewrite (IL ltac:(discriminate)).
      change (last (q :: q' :: r') (mkQ 0 0 [] 0)) with (last (q' :: r') (mkQ 0 0 [] 0)). reflexivity.
Qed.

Lemma last_concat {A} (d : A) : forall bs : list (list A),
  bs <> [] -> Forall (fun b => b <> []) bs -> last (concat bs) d = last (last bs []) d.
Proof.
  induction bs as [|b r IH]; intros Hne Hall; [congruence|].
  apply Forall_cons_iff in Hall as [Hb Hall]. cbn [concat]. destruct r as [|b' r'].
  - cbn [concat last]. rewrite app_nil_r. reflexivity.
  - rewrite last_app_ne.
    + rewrite IH by (try discriminate; exact Hall). reflexivity.
    + apply Forall_cons_iff in Hall as [Hb' _]. cbn [concat]. destruct b'; [congruence|discriminate].
Qed.

Lemma level1_full res nc data :
  valid_counter res data ->
  exists l1 emitted,
    level1 res nc data = Some l1 /\ read_counter l1 = Some emitted /\
    Forall (fun s => snd s = adj_at (keep_nonnan data) (fst s)) emitted /\
    StronglySorted Z.lt (map fst emitted) /\
    (keep_nonnan data = [] -> emitted = []) /\
    (keep_nonnan data <> [] ->
       emitted <> [] /\ snd (last emitted (0, 0)) = adj (map snd (keep_nonnan data))).
Proof.
  intros Hv. pose proof Hv as (Hr & Hstrict & _).
  destruct (level1_read res Hr nc data Hv) as (batches & E & Hcat & Hcb & Hsep & R).
  set (emitted := expect None (map (q_of res) batches)) in *.
  assert (A : Forall (fun s => snd s = adj_at (keep_nonnan data) (fst s)) emitted).
  { pose proof (expect_adj res Hr batches [] Hcb Hsep ltac:(intros s s' [])) as A.
    cbn [app] in A. rewrite Hcat in A. exact A. }
  pose proof (chain_batches res Hr batches None Hcb Hsep I) as Hch.
  destruct (expect_sorted (map (q_of res) batches) None None Hch) as (ES & _ & EL).
  exists (map (float_batch cw res) batches), emitted.
  split; [exact E|]. split; [exact R|]. split; [exact A|]. split; [exact ES|]. split.
  - intros Hd. rewrite Hd in Hcat. destruct batches as [|b r]; [reflexivity|].
    apply Forall_cons_iff in Hcb as [([Hne _] & _) _]. cbn [concat] in Hcat.
    apply app_eq_nil in Hcat as [Hb _]. congruence.
  - intros Hd.
    assert (Hbne : batches <> []) by (intro Eb; rewrite Eb in Hcat; cbn in Hcat; congruence).
    assert (Hene : emitted <> [])
      by (unfold emitted; destruct batches; [congruence|cbn [map expect app]; discriminate]).
    split; [exact Hene|].
    set (e := last emitted (0, 0)).
    assert (Hin : In e emitted) by (apply last_in; exact Hene).
    rewrite Forall_forall in A. rewrite (A e Hin).
    (* the last emitted timestamp is the last raw timestamp *)
    assert (Hmne : map (q_of res) batches <> []) by (destruct batches; [congruence|discriminate]).
    specialize (EL Hmne). fold emitted in EL.
    assert (Ee : fst e = last (map fst emitted) 0).
    { unfold e. change 0 with (fst (0, 0)). rewrite last_map. reflexivity. }
    assert (Hlastq : last (map (q_of res) batches) (mkQ 0 0 [] 0) = q_of res (last batches [])).
    { clear - Hbne. induction batches as [|b r IH]; [congruence|]. destruct r as [|b' r']; [reflexivity|].
      change (last (map (q_of res) (b :: b' :: r')) (mkQ 0 0 [] 0)) with (last (map (q_of res) (b' :: r')) (mkQ 0 0 [] 0)).
      rewrite IH by discriminate. reflexivity. }
    assert (Hlb : In (last batches []) batches) by (apply last_in; exact Hbne).
    rewrite Forall_forall in Hcb. pose proof (Hcb _ Hlb) as Hlcb.
    destruct (q_of_ok res Hr _ Hlcb) as (_ & Hqe & _ & _).
    rewrite Ee, EL, Hlastq, Hqe.
    assert (Hbs : Forall (fun b : list (Z * Z) => b <> []) batches).
    { rewrite Forall_forall. intros b Hb. destruct (Hcb b Hb) as ([H _] & _). exact H. }
    assert (Hld : last_t (last batches []) = last_t (keep_nonnan data)).
    { unfold last_t. rewrite <- Hcat. rewrite (last_concat (0, 0) batches Hbne Hbs). reflexivity. }
    rewrite Hld. rewrite adj_at_upto. rewrite upto_all; [reflexivity|].
    apply sorted_le_last. apply sorted_lt_le_Z. apply keep_nonnan_sorted_lt. exact Hstrict.
Qed.

Lemma level1_pred res1 res2 nc data :
  valid_input res1 res2 data = true ->
  exists l1 emitted,
    level1 res1 nc data = Some l1 /\ read_counter l1 = Some emitted /\
    level_ok (keep_nonnan data) emitted = true.
Proof.
  intros Hv. destruct (level1_full res1 nc data (valid_input_counter _ _ _ Hv)) as (l1 & em & E & R & A & S & Z0 & L).
  exists l1, em. split; [exact E|]. split; [exact R|].
  unfold level_ok, reads_ok, values_ok. apply andb_true_iff. split; [apply andb_true_iff; split|].
  - apply forallb_forall. intros s Hs. rewrite Forall_forall in A. apply Z.eqb_eq. apply A. exact Hs.
  - clear - S. induction S as [|a l _ IH Ha]; [reflexivity|]. destruct l as [|b l']; [reflexivity|].
    change (strictly_inc (a :: b :: l')) with ((a <? b) && strictly_inc (b :: l')).
    apply Forall_cons_iff in Ha as [Hab _]. rewrite IH.
    replace (a <? b) with true by (symmetry; apply Z.ltb_lt; exact Hab). reflexivity.
  - unfold last_ok. destruct (keep_nonnan data) as [|s0 d'] eqn:Ed.
    + rewrite (Z0 eq_refl). reflexivity.
    + destruct (L ltac:(discriminate)) as [Hne Hl]. destruct em as [|e0 em']; [congruence|].
      apply Z.eqb_eq. exact Hl.
Qed.

(* ---- tie T for the batch sizes: the formulas written in the model are the ones in the
   Go source (regenerated into Gen on every run) ---- *)

Lemma raw_batch_size_model len nc :
  Z.to_nat (raw_batch_size (Z.of_nat len) (Z.of_nat nc)) = (len / nc + 1)%nat.
Proof.
  unfold raw_batch_size. cbv zeta beta. destruct nc as [|nc'].
  - change (Z.of_nat 0) with 0. destruct (Z.of_nat len); reflexivity.
  - rewrite Z.quot_div_nonneg by lia. rewrite <- Nat2Z.inj_div.
    rewrite Z2Nat.inj_add by lia. rewrite Nat2Z.id. reflexivity.
Qed.

Lemma aggr_batch_size_model len nc :
  Z.to_nat (aggr_batch_size (Z.of_nat len) (Z.of_nat nc)) = Nat.max (len / nc) 1.
Proof.
  unfold aggr_batch_size. cbv zeta beta. destruct nc as [|nc'].
  - change (Z.of_nat 0) with 0. destruct (Z.of_nat len); reflexivity.
  - rewrite Z.quot_div_nonneg by lia. rewrite <- Nat2Z.inj_div.
    change (Z.max (Z.of_nat (len / S nc')) 1) with (Z.max (Z.of_nat (len / S nc')) (Z.of_nat 1)).
    rewrite <- Nat2Z.inj_max. apply Nat2Z.id.
Qed.

(* tie T: the comparison of downsampleRawLoop's batch-extension loop in the Go source is the
   inclusive `<=` the model's take_le uses (curW is the window's last millisecond) *)
Lemma ext_take_model : forall t w, ext_take t w = (t <=? w).
Proof. intros t w. reflexivity. Qed.
