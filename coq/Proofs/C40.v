(* C40, part 3: every output chunk carries, for each aggregate, a sample at
   every timestamp of its count aggregate. *)
From Coq Require Import ZArith List Bool Lia.
Import ListNotations.
From Verif Require Import Lib.Corr Lib.Dedup_Iter Lib.Dedup_SpecFacts Lib.Dedup_Refine Gen.C40 Model.C40.
From Verif Require Import Proofs.C40_Ts Proofs.C40_Chunk.
Open Scope Z_scope.

Lemma cfg_is_ok : cfg_ok cfg.
Proof.
  unfold cfg_ok, cfg; cbn [ipen penfA penfB]. unfold initialPenalty, penA_formula, penB_formula.
  repeat split; intros; lia.
Qed.

Lemma source_shape : to_chunk_shape_ok = true.
Proof. vm_compute. reflexivity. Qed.

Lemma split_pos : (0 < Z.to_nat seriesToChunkEncoderSplit)%nat.
Proof. vm_compute. lia. Qed.

Lemma tss_eq : Model.C40.tss = Proofs.C40_Ts.tss.
Proof. reflexivity. Qed.

(* ---------- facts about strictly increasing lists ---------- *)
Lemma last_t_cons x y l : last_t (x :: y :: l) = last_t (y :: l).
Proof. reflexivity. Qed.

Lemma strict_app_inv : forall w rest lo,
  strict_incr_from lo (w ++ rest) = true -> w <> [] ->
  strict_incr_from lo w = true /\ strict_incr_from (Some (last_t w)) rest = true.
Proof.
  induction w as [|x w IH]; intros rest lo H Hne; [congruence|].
  destruct w as [|y w].
  - simpl in *. apply andb_true_iff in H as [H1 H2]. split; [rewrite H1; reflexivity|exact H2].
  - change ((x :: y :: w) ++ rest) with (x :: ((y :: w) ++ rest)) in H.
    cbn [strict_incr_from] in H. apply andb_true_iff in H as [H1 H2].
    destruct (IH rest (Some (ts x)) H2) as [H3 H4]; [discriminate|].
    rewrite last_t_cons. split; [|exact H4].
    cbn [strict_incr_from]. rewrite H1. exact H3.
Qed.

Lemma strict_le_last : forall w lo s,
  strict_incr_from lo w = true -> In s w -> ts s <= last_t w.
Proof.
  induction w as [|x w IH]; intros lo s H Hin; [contradiction|].
  destruct w as [|y w].
  - destruct Hin as [->|[]]. unfold last_t. simpl. lia.
  - rewrite last_t_cons. apply strict_from_tail in H.
    destruct Hin as [->|Hin].
    + assert (H1 : ts s < ts y).
      { pose proof H as H'. simpl in H'. apply andb_true_iff in H' as [H1 _]. apply Z.ltb_lt; exact H1. }
      specialize (IH _ y H (or_introl eq_refl)). lia.
    + eapply IH; eassumption.
Qed.

Lemma strict_ge_first w s : strict_incr w = true -> In s w -> first_t w <= ts s.
Proof.
  destruct w as [|x w]; [contradiction|]. intros H [->|Hin]; [simpl; lia|].
  apply strict_cons in H. pose proof (strict_from_all _ _ _ H Hin). simpl. lia.
Qed.

Lemma last_tss l : l <> [] -> last (tss l) 0 = last_t l.
Proof.
  intro H. unfold last_t, tss. induction l as [|x l IH]; [congruence|].
  destruct l as [|y l]; [reflexivity|]. change (map ts (x :: y :: l)) with (ts x :: map ts (y :: l)).
  cbn [last] in *. apply IH. discriminate.
Qed.

Lemma tss_app a b : tss (a ++ b) = tss a ++ tss b.
Proof. apply map_app. Qed.

Lemma tss_nil l : tss l = [] -> l = [].
Proof. destruct l; [reflexivity|discriminate]. Qed.

(* ---------- one chunk boundary ---------- *)
Lemma window_split w rest R :
  w <> [] -> strict_incr (w ++ rest) = true -> tss R = tss (w ++ rest) ->
  exists P Q, R = P ++ Q /\ tss P = tss w /\ tss Q = tss rest /\
    take_le (last_t w) R = P /\ drop_le (last_t w) R = Q /\ keep_ge (first_t w) P = P.
Proof.
  intros Hne Hs Ht.
  exists (firstn (length w) R), (skipn (length w) R).
  assert (HP : tss (firstn (length w) R) = tss w).
  { unfold tss. rewrite <- firstn_map. fold (tss R). rewrite Ht, tss_app.
    rewrite firstn_app. unfold tss. rewrite map_length, Nat.sub_diag. simpl. rewrite app_nil_r.
    rewrite <- (map_length ts w). apply firstn_all. }
  assert (HQ : tss (skipn (length w) R) = tss rest).
  { unfold tss. rewrite <- skipn_map. fold (tss R). rewrite Ht, tss_app.
    rewrite skipn_app. unfold tss. rewrite map_length, Nat.sub_diag. simpl.
    rewrite <- (map_length ts w). rewrite skipn_all. reflexivity. }
  destruct (strict_app_inv w rest None Hs Hne) as [Hw Hr].
  assert (Hle : forall s, In s (firstn (length w) R) -> first_t w <= ts s <= last_t w).
  { intros s Hin. assert (Hi : In (ts s) (tss w)) by (rewrite <- HP; apply in_map; exact Hin).
    apply in_map_iff in Hi as (s' & Hs' & Hin').
    pose proof (strict_le_last w None s' Hw Hin'). pose proof (strict_ge_first w s' Hw Hin'). lia. }
  assert (Hgt : match skipn (length w) R with [] => True | q :: _ => last_t w < ts q end).
  { destruct (skipn (length w) R) as [|q Q] eqn:E; [exact I|].
    assert (Hi : In (ts q) (tss rest)) by (rewrite <- HQ; left; reflexivity).
    apply in_map_iff in Hi as (q' & Hq' & Hin'). rewrite <- Hq'.
    eapply strict_from_all; eassumption. }
  split; [symmetry; apply firstn_skipn|]. split; [exact HP|]. split; [exact HQ|].
  destruct (take_drop_app (last_t w) (firstn (length w) R) (skipn (length w) R)) as [H1 H2].
  - intros s Hin. apply Hle. exact Hin.
  - exact Hgt.
  - rewrite firstn_skipn in H1, H2. split; [exact H1|]. split; [exact H2|].
    apply keep_ge_all. intros s Hin. apply Hle. exact Hin.
Qed.

Lemma zlist_eqb_refl l : list_eqb Z.eqb l l = true.
Proof. apply (list_eqb_spec Z.eqb Z.eqb_eq). reflexivity. Qed.

Lemma chunk_of_some counter P : P <> [] ->
  chunk_of counter P = Some (if counter then P ++ [last P (0, 0)] else P).
Proof. destruct P; [congruence|reflexivity]. Qed.

(* ---------- all chunks ---------- *)
Lemma windows_ok : forall ws s1 s2 s3 s4 R1 R2 R3 R4,
  Forall (fun w => w <> []) ws -> strict_incr (concat ws) = true ->
  areads s1 R1 -> areads s2 R2 -> areads s3 R3 -> areads s4 R4 ->
  tss R1 = tss (concat ws) -> tss R2 = tss (concat ws) ->
  tss R3 = tss (concat ws) -> tss R4 = tss (concat ws) ->
  forallb ochunk_ok (windows ws (Some s1) (Some s2) (Some s3) (Some s4)) = true.
Proof.
  induction ws as [|w ws IH]; intros s1 s2 s3 s4 R1 R2 R3 R4 Hne Hs A1 A2 A3 A4 T1 T2 T3 T4; [reflexivity|].
  inversion Hne as [|? ? Hw Hws]; subst. cbn [concat] in *.
  destruct (window_split w (concat ws) R1 Hw Hs T1) as (P1 & Q1 & _ & HP1 & HQ1 & Ht1 & Hd1 & Hk1).
  destruct (window_split w (concat ws) R2 Hw Hs T2) as (P2 & Q2 & _ & HP2 & HQ2 & Ht2 & Hd2 & Hk2).
  destruct (window_split w (concat ws) R3 Hw Hs T3) as (P3 & Q3 & _ & HP3 & HQ3 & Ht3 & Hd3 & Hk3).
  destruct (window_split w (concat ws) R4 Hw Hs T4) as (P4 & Q4 & _ & HP4 & HQ4 & Ht4 & Hd4 & Hk4).
  destruct (to_chunk_spec false s1 R1 (first_t w) (last_t w) A1) as (s1' & E1 & A1').
  destruct (to_chunk_spec false s2 R2 (first_t w) (last_t w) A2) as (s2' & E2 & A2').
  destruct (to_chunk_spec false s3 R3 (first_t w) (last_t w) A3) as (s3' & E3 & A3').
  destruct (to_chunk_spec true s4 R4 (first_t w) (last_t w) A4) as (s4' & E4 & A4').
  rewrite Ht1, Hk1, Hd1 in *. rewrite Ht2, Hk2, Hd2 in *. rewrite Ht3, Hk3, Hd3 in *. rewrite Ht4, Hk4, Hd4 in *.
  cbn [windows opt_to_chunk]. rewrite E1, E2, E3, E4. cbn [forallb].
  assert (N1 : P1 <> []) by (intro E; rewrite E in HP1; symmetry in HP1; apply tss_nil in HP1; contradiction).
  assert (N2 : P2 <> []) by (intro E; rewrite E in HP2; symmetry in HP2; apply tss_nil in HP2; contradiction).
  assert (N3 : P3 <> []) by (intro E; rewrite E in HP3; symmetry in HP3; apply tss_nil in HP3; contradiction).
  assert (N4 : P4 <> []) by (intro E; rewrite E in HP4; symmetry in HP4; apply tss_nil in HP4; contradiction).
  rewrite (chunk_of_some false P1 N1), (chunk_of_some false P2 N2), (chunk_of_some false P3 N3), (chunk_of_some true P4 N4).
  apply andb_true_iff. split.
  - unfold ochunk_ok. rewrite !tss_eq. rewrite HP1, HP2, HP3. rewrite tss_app, HP4.
    cbn [tss map]. replace (ts (last P4 (0, 0))) with (last_t w).
    + rewrite !zlist_eqb_refl. reflexivity.
    + rewrite <- (last_tss w Hw), <- HP4. rewrite (last_tss P4 N4). reflexivity.
  - destruct (strict_app_inv w (concat ws) None Hs Hw) as [_ Hr].
    eapply IH; try eassumption. eapply strict_from_none; exact Hr.
Qed.

(* ---------- storage.NewSeriesToChunkEncoder's cut ---------- *)
Lemma cut_loop_spec n : (0 < n)%nat -> forall fuel l, (length l <= fuel)%nat ->
  concat (cut_loop fuel n l) = l /\ Forall (fun w => w <> []) (cut_loop fuel n l).
Proof.
  intro Hn. induction fuel as [|f IH]; intros l Hl.
  - destruct l; [split; [reflexivity|constructor]|simpl in Hl; lia].
  - destruct l as [|x l]; [split; [reflexivity|constructor]|].
    cbn [cut_loop]. set (l0 := x :: l) in *.
    destruct (IH (skipn n l0)) as [H1 H2].
    { rewrite skipn_length. unfold l0 in *. cbn [length] in *. lia. }
    split.
    + cbn [concat]. rewrite H1. apply firstn_skipn.
    + constructor; [|exact H2]. destruct n; [lia|]. unfold l0. simpl. discriminate.
Qed.

Lemma cut_spec n l : (0 < n)%nat -> concat (cut n l) = l /\ Forall (fun w => w <> []) (cut n l).
Proof. intro Hn. apply cut_loop_spec; [exact Hn|lia]. Qed.

(* ---------- well-formed input chunks ---------- *)
Definition proj (i : nat) (c : achunk) : list sample := match aggr i c with Some l => l | None => [] end.

Lemma zlist_eqb_eq l1 l2 : list_eqb Z.eqb l1 l2 = true -> l1 = l2.
Proof. apply (list_eqb_spec Z.eqb Z.eqb_eq). Qed.

Lemma wf_chunk_inv c : wf_chunk c = true ->
  exists c0 c1 c2 c3 c4, c = [Some c0; Some c1; Some c2; Some c3; Some c4] /\
    c0 <> [] /\ strict_incr c0 = true /\ tss c1 = tss c0 /\ tss c2 = tss c0 /\ tss c3 = tss c0 /\
    tss c4 = tss c0 ++ [last_t c0].
Proof.
  unfold wf_chunk.
  destruct c as [|[c0|] [|[c1|] [|[c2|] [|[c3|] [|[c4|] [|? ?]]]]]]; try discriminate.
  intro H. repeat (apply andb_true_iff in H as [H ?]).
  exists c0, c1, c2, c3, c4. rewrite !tss_eq in *.
  repeat split; try (apply zlist_eqb_eq; assumption); try assumption.
  destruct c0; [discriminate|discriminate].
Qed.

Lemma trel_counter c0 c4 : c0 <> [] -> tss c4 = tss c0 ++ [last_t c0] -> trel c0 c4.
Proof.
  intros Hne H.
  assert (Hc4 : c4 <> []) by (intro; subst; destruct (tss c0); discriminate).
  rewrite (app_removelast_last (0, 0) Hc4) in H |- *.
  rewrite tss_app in H. cbn [tss map] in H. apply app_inj_tail in H as [H1 H2].
  apply trel_app_dup; [exact Hne|symmetry; exact H1|]. rewrite H2. reflexivity.
Qed.

Lemma wf_trel c i : wf_chunk c = true -> (1 <= i <= 4)%nat -> trel (proj 0 c) (proj i c).
Proof.
  intros H Hi. destruct (wf_chunk_inv c H) as (c0 & c1 & c2 & c3 & c4 & -> & Hne & Hs & T1 & T2 & T3 & T4).
  destruct i as [|[|[|[|[|i]]]]]; try lia; unfold proj, aggr; cbn [nth].
  - apply trel_of_tss. symmetry. exact T1.
  - apply trel_of_tss. symmetry. exact T2.
  - apply trel_of_tss. symmetry. exact T3.
  - apply trel_counter; assumption.
Qed.

Lemma agg_lists_wf i base others :
  (i <= 4)%nat -> wf_chunk base = true -> Forall (fun c => wf_chunk c = true) others ->
  agg_lists i base others = map (proj i) (others ++ [base]).
Proof.
  intros Hi Hb Ho. unfold agg_lists. rewrite map_app. f_equal.
  - induction Ho as [|c l Hc Hl IH]; [reflexivity|].
    cbn [flat_map map]. rewrite IH. f_equal.
    destruct (wf_chunk_inv c Hc) as (c0 & c1 & c2 & c3 & c4 & -> & _).
    destruct i as [|[|[|[|[|i]]]]]; try lia; reflexivity.
  - destruct (wf_chunk_inv base Hb) as (c0 & c1 & c2 & c3 & c4 & -> & _).
    destruct i as [|[|[|[|[|i]]]]]; try lia; reflexivity.
Qed.

Lemma Forall2_map_trel i l :
  (1 <= i <= 4)%nat -> Forall (fun c => wf_chunk c = true) l -> Forall2 trel (map (proj 0) l) (map (proj i) l).
Proof.
  intros Hi H. induction H as [|c l Hc Hl IH]; [constructor|].
  cbn [map]. constructor; [apply wf_trel; assumption|exact IH].
Qed.

(* an unstarted aggregate state over the merged iterator reads the merge of its streams *)
Lemma init_reads f r : areads (mkA false (tower false cfg f r)) (pmerge_all cfg f r).
Proof.
  destruct (tower_contract cfg f r) as (C & Hi & Hf & Hfut).
  exists C. cbn. split; [exact Hi|]. split; assumption.
Qed.

(* ---------- the theorem ---------- *)
Definition well_formed (c : achunk) : Prop := wf_chunk c = true.

Theorem every_timestamp base o1 others :
  well_formed base -> well_formed o1 -> Forall well_formed others ->
  exists out, merge_group base (o1 :: others) = Some out /\ forallb ochunk_ok out = true.
Proof.
  intros Hb Ho1 Ho.
  assert (Hall : Forall (fun c => wf_chunk c = true) (o1 :: others)) by (constructor; assumption).
  assert (Hall' : Forall (fun c => wf_chunk c = true) (others ++ [base])).
  { apply Forall_app. split; [exact Ho|constructor; [exact Hb|constructor]]. }
  unfold merge_group, init_state, agg_iter.
  rewrite !(agg_lists_wf _ base (o1 :: others)) by (try lia; assumption).
  cbn [app map option_map].
  rewrite tower_drain.
  eexists. split; [reflexivity|].
  set (cnt := pmerge_all cfg (proj 0 o1) (map (proj 0) (others ++ [base]))).
  destruct (cut_spec (Z.to_nat seriesToChunkEncoderSplit) cnt split_pos) as [Hc Hne].
  assert (Hrest : map (proj 0) (others ++ [base]) <> []).
  { destruct others; discriminate. }
  assert (Hstrict : strict_incr cnt = true).
  { apply pmerge_all_strict; [exact cfg_is_ok|left; exact Hrest]. }
  assert (Hts : forall i, (1 <= i <= 4)%nat ->
            tss (pmerge_all cfg (proj i o1) (map (proj i) (others ++ [base]))) = tss (concat (cut (Z.to_nat seriesToChunkEncoderSplit) cnt))).
  { intros i Hi. rewrite Hc. unfold cnt. symmetry.
    pose proof (Forall2_map_trel i _ Hi Hall') as HF.
    destruct (others ++ [base]) as [|b rest] eqn:E; [destruct others; discriminate|].
    cbn [map] in *. inversion HF; subst.
    apply pmerge_all_trel; [apply wf_trel; assumption|assumption|assumption]. }
  eapply windows_ok.
  - exact Hne.
  - rewrite Hc. exact Hstrict.
  - apply init_reads.
  - apply init_reads.
  - apply init_reads.
  - apply init_reads.
  - apply Hts; lia.
  - apply Hts; lia.
  - apply Hts; lia.
  - apply Hts; lia.
Qed.

(* ---------- all groups of the merged series ---------- *)
Lemma om_empty_wf g : Forall (fun c => wf_chunk c = true) g -> om_empty g = true -> g = [].
Proof.
  intros H He. destruct g as [|c g]; [reflexivity|]. inversion H; subst.
  destruct (wf_chunk_inv c H2) as (c0 & c1 & c2 & c3 & c4 & -> & _).
  simpl in He. discriminate.
Qed.

Lemma take_group_wf : forall rest omax prev g r',
  take_group omax prev rest = (g, r') -> Forall (fun c => wf_chunk c = true) rest ->
  Forall (fun c => wf_chunk c = true) g /\ Forall (fun c => wf_chunk c = true) r' /\ (length r' <= length rest)%nat.
Proof.
  induction rest as [|c r IH]; intros omax prev g r' E H; cbn [take_group] in E.
  - inversion E; subst. repeat split; auto.
  - inversion H; subst. destruct (c_mint c >? omax).
    + inversion E; subst. repeat split; auto.
    + destruct (achunk_eqb c prev).
      * destruct (IH _ _ _ _ E H3) as (A & B & L). repeat split; auto. simpl. lia.
      * destruct (take_group (Z.max omax (c_maxt c)) c r) as [g0 r0] eqn:E0.
        inversion E; subst. destruct (IH _ _ _ _ E0 H3) as (A & B & L).
        repeat split; auto. simpl. lia.
Qed.

Lemma passthrough_ok c : wf_chunk c = true -> ochunk_ok (passthrough c) = true.
Proof.
  intro H. destruct (wf_chunk_inv c H) as (c0 & c1 & c2 & c3 & c4 & -> & _ & _ & T1 & T2 & T3 & T4).
  unfold passthrough, ochunk_ok. rewrite !tss_eq. rewrite T1, T2, T3, T4. rewrite !zlist_eqb_refl. reflexivity.
Qed.

Lemma series_loop_ok : forall fuel chunks,
  (length chunks <= fuel)%nat -> Forall (fun c => wf_chunk c = true) chunks ->
  exists out, merge_series_loop fuel chunks = Some out /\ forallb ochunk_ok out = true.
Proof.
  induction fuel as [|f IH]; intros chunks Hl Hw.
  - destruct chunks; [exists []; split; reflexivity|simpl in Hl; lia].
  - destruct chunks as [|base rest]; [exists []; split; reflexivity|].
    inversion Hw; subst. cbn [merge_series_loop].
    destruct (take_group (c_maxt base) base rest) as [grp rest'] eqn:E.
    destruct (take_group_wf _ _ _ _ _ E H2) as (Hg & Hr & Hlen).
    destruct (IH rest') as (out2 & E2 & O2); [simpl in Hl; lia|exact Hr|].
    rewrite E2.
    destruct (om_empty grp) eqn:Eo.
    + exists ([passthrough base] ++ out2). split; [reflexivity|].
      rewrite forallb_app. rewrite O2. cbn [forallb]. rewrite (passthrough_ok base H1). reflexivity.
    + destruct grp as [|o1 others]; [discriminate|].
      assert (Ho1 : wf_chunk o1 = true) by (inversion Hg; assumption).
      assert (Hot : Forall (fun c => wf_chunk c = true) others) by (inversion Hg; assumption).
      destruct (every_timestamp base o1 others H1 Ho1 Hot) as (out1 & E1 & O1).
      rewrite E1. exists (out1 ++ out2). split; [reflexivity|].
      rewrite forallb_app, O1, O2. reflexivity.
Qed.

Theorem every_timestamp_series chunks :
  Forall well_formed chunks ->
  exists out, merge_series chunks = Some out /\ forallb ochunk_ok out = true.
Proof. intro H. apply series_loop_ok; [unfold merge_series; lia|exact H]. Qed.

(* ---------- model = implementation on a case implies the predicate on that case ---------- *)
Lemma sample_eqb_spec x y : sample_eqb x y = true <-> x = y.
Proof.
  unfold sample_eqb. destruct x as [a b], y as [c d]; simpl. rewrite andb_true_iff, !Z.eqb_eq.
  split; [intros [-> ->]; reflexivity|intro H; inversion H; auto].
Qed.

Lemma option_eqb_spec {A} (eqb : A -> A -> bool) (H : forall x y, eqb x y = true <-> x = y) a b :
  option_eqb eqb a b = true <-> a = b.
Proof.
  destruct a, b; simpl; try (split; [discriminate|discriminate]); try tauto.
  rewrite H. split; [intros ->; reflexivity|intro E; inversion E; reflexivity].
Qed.

Lemma ochunk_eqb_spec a b : ochunk_eqb a b = true <-> a = b.
Proof.
  destruct a as [[m1 x1] l1], b as [[m2 x2] l2]. unfold ochunk_eqb.
  rewrite !andb_true_iff, !Z.eqb_eq.
  rewrite (list_eqb_spec _ (option_eqb_spec _ (list_eqb_spec _ sample_eqb_spec))).
  split; [intros [[-> ->] ->]; reflexivity|intro E; inversion E; auto].
Qed.

Lemma corr_implies_pred c : corr_ok c = true -> pred_ok c = true.
Proof.
  unfold corr_ok, pred_ok. intros Hc.
  apply (option_eqb_spec _ (list_eqb_spec _ ochunk_eqb_spec)) in Hc.
  destruct (forallb wf_chunk (case_input c)) eqn:Ewf; [|reflexivity].
  destruct (every_timestamp_series (case_input c)) as (out & Hm & Hok).
  - apply Forall_forall. intros x Hx. exact (proj1 (forallb_forall _ _) Ewf x Hx).
  - rewrite Hm in Hc. inversion Hc; subst. exact Hok.
Qed.
