From Coq Require Import List Bool.
From Verif Require Import Lib.Corr Gen.C04 Model.C04_Facts.
Lemma facts_hold : facts_ok = true.
Proof. vm_compute. reflexivity. Qed.
