(* C46 — bridge: what the correspondence check accepts is a run of the
   transition system, and every run satisfies the predicate that the check
   evaluates on the implementation's observables. *)
From Coq Require Import NArith ZArith List Bool Lia.
Import ListNotations.
From Verif Require Import Lib.Corr Gen.C46 Model.C46 Proofs.C46.
Open Scope Z_scope.

(* ---- boolean subsequence / suffix tests are complete ---- *)
Lemma Sub_tail x a b : Sub (x :: a) b -> Sub a b.
Proof.
  intro H. remember (x :: a) as xa eqn:E. revert x a E.
  induction H as [|y l1 l2 H IH|y l1 l2 H IH]; intros x a E; [discriminate| |].
  - apply Sub_skip. eapply IH; eauto.
  - inversion E; subst. apply Sub_skip. exact H.
Qed.

Lemma Sub_is_subseq : forall b a, Sub a b -> is_subseq a b = true.
Proof.
  induction b as [|y b IH]; intros a H.
  - inversion H; subst. reflexivity.
  - destruct a as [|x a]; [reflexivity|]. cbn [is_subseq].
    destruct (x =? y) eqn:E.
    + apply IH. inversion H; subst; [eapply Sub_tail; eauto | assumption].
    + apply IH. inversion H; subst; [assumption|]. rewrite Z.eqb_refl in E. discriminate.
Qed.

Lemma zlist_eqb_refl l : list_eqb Z.eqb l l = true.
Proof. induction l as [|x l IH]; simpl; [reflexivity|]. rewrite Z.eqb_refl, IH. reflexivity. Qed.

Lemma is_suffix_app older qs : is_suffix qs (older ++ qs) = true.
Proof.
  induction older as [|x older IH]; simpl.
  - destruct qs; simpl; rewrite ?zlist_eqb_refl; [reflexivity|]. rewrite Z.eqb_refl. reflexivity.
  - rewrite IH. apply orb_true_r.
Qed.

Lemma ostate_eqb_eq s o : ostate_eqb s o = true -> q s = fst o /\ tok s = snd o /\ mid s = O.
Proof.
  unfold ostate_eqb. intro H. apply andb_true_iff in H as [H H3]. apply andb_true_iff in H as [H1 H2].
  apply (list_eqb_spec Z.eqb) in H1; [|intros x y; apply Z.eqb_eq].
  apply eqb_prop in H2. apply Nat.eqb_eq in H3. auto.
Qed.

Section B.
  Variable cap batch : Z.
  Hypothesis cap_nonneg : 0 <= cap.
  Hypothesis batch_nonneg : 0 <= batch.

  Notation keep := keep_nonneg.

  (* every run of the transition system that ends with no popper between its
     halves satisfies the predicate on its own final state *)
  Lemma trace_pred tr s :
    run cap batch keep init tr = Some s -> mid s = O ->
    obs_pred cap batch tr (q s, tok s) = true.
  Proof.
    intros Hr Hm. destruct (reach_inv cap batch keep cap_nonneg tr s Hr) as [I1 [I2 [older [Hk Hp]]]].
    unfold obs_pred. cbn [fst snd]. repeat (apply andb_true_iff; split).
    - apply Z.leb_le. exact I1.
    - destruct (q s) as [|x l] eqn:E; [reflexivity|].
      destruct I2 as [H|H]; [discriminate | exact H | lia].
    - unfold crit_sizes_ok. apply forallb_forall. intros l Hl.
      pose proof (batch_bound cap batch keep batch_nonneg tr init s Hr) as Hall.
      rewrite Forall_forall in Hall. specialize (Hall l Hl). destruct l; auto. apply Z.leb_le. exact Hall.
    - rewrite Hk. apply is_suffix_app.
    - rewrite Hk. apply Sub_is_subseq. apply Sub_app; [exact Hp | apply Sub_refl].
  Qed.

  (* ---- CMid: an accepted candidate schedule explains the observation ---- *)
  Lemma mid_bridge pre mids term out nilret after :
    corr_ok (CMid cap batch pre mids term out nilret after) = true ->
    pred_ok (CMid cap batch pre mids term out nilret after) = true.
  Proof.
    cbn [corr_ok pred_ok]. intro H0. apply andb_true_iff in H0 as [_ H0]. revert H0.
    rewrite !existsb_exists. intros [tr [Hin Hacc]]. exists tr. split; [exact Hin|].
    unfold accepts in Hacc. destruct (run cap batch keep init tr) as [s|] eqn:Hr; [|discriminate].
    apply ostate_eqb_eq in Hacc as [H1 [H2 H3]].
    pose proof (trace_pred tr s Hr H3) as Hp. rewrite H1, H2 in Hp. destruct after. exact Hp.
  Qed.

  (* ---- CSeq: the recorded operations are a run; every prefix satisfies the predicate ---- *)
  Definition trace1 (o : op) : list label :=
    match o with
    | OPush a _ => [LPush a]
    | OPop out _ => [LTake; LCrit out]
    | OPopBlocked _ => []
    end.
  Definition trace_of (ops : list op) : list label := concat (map trace1 ops).

  (* the model state after one recorded operation, if the recorded observation agrees *)
  Definition seq_step (s : st) (o : op) : option st :=
    match o with
    | OPush a after => let s' := push cap keep s a in if ostate_eqb s' after then Some s' else None
    | OPop out after =>
      match pop batch s with
      | Some (s', o') => if list_eqb Z.eqb o' out && ostate_eqb s' after then Some s' else None
      | None => None
      end
    | OPopBlocked after => if negb (tok s) && ostate_eqb s after then Some s else None
    end.

  Fixpoint seq_end (s : st) (ops : list op) : option st :=
    match ops with
    | [] => Some s
    | o :: r => match seq_step s o with Some s' => seq_end s' r | None => None end
    end.

  Lemma seq_ok_end ops : forall s, seq_ok cap batch s ops = true -> exists s', seq_end s ops = Some s'.
  Proof.
    induction ops as [|o r IH]; intros s H; [eexists; reflexivity|].
    destruct o as [a after|out after|after]; cbn [seq_ok] in H; cbn [seq_end seq_step].
    - apply andb_true_iff in H as [H1 H2]. rewrite H1. apply IH. exact H2.
    - destruct (pop batch s) as [[s' o']|]; [|discriminate].
      apply andb_true_iff in H as [H H3]. rewrite H. apply IH. exact H3.
    - apply andb_true_iff in H as [H H3]. rewrite H. apply IH. exact H3.
  Qed.

  Lemma seq_end_app a : forall s b,
    seq_end s (a ++ b) = match seq_end s a with Some s1 => seq_end s1 b | None => None end.
  Proof.
    induction a as [|o a IH]; intros s b; [reflexivity|]. cbn [app seq_end].
    destruct (seq_step s o); [apply IH | reflexivity].
  Qed.

  Lemma run_app t1 : forall s t2,
    run cap batch keep s (t1 ++ t2) = match run cap batch keep s t1 with Some s1 => run cap batch keep s1 t2 | None => None end.
  Proof.
    induction t1 as [|l t1 IH]; intros s t2; [reflexivity|]. cbn [app run].
    destruct (step cap batch keep s l); [apply IH | reflexivity].
  Qed.

  Lemma seq_step_run s o s' :
    seq_step s o = Some s' ->
    run cap batch keep s (trace1 o) = Some s' /\ ostate_eqb s' (op_after o) = true.
  Proof.
    destruct o as [a after|out after|after]; cbn [seq_step trace1 op_after]; intro H.
    - destruct (ostate_eqb (push cap keep s a) after) eqn:E; [|discriminate]. inversion H; subst.
      split; [reflexivity | exact E].
    - unfold pop in H. destruct (take s) as [s1|] eqn:Et; [|discriminate].
      destruct (crit batch s1) as [[s2 o']|] eqn:Ec; [|discriminate].
      destruct (list_eqb Z.eqb o' out && ostate_eqb s2 after) eqn:E; [|discriminate]. inversion H; subst.
      apply andb_true_iff in E as [E1 E2]. split; [|exact E2].
      cbn [run step]. rewrite Et. cbn [run step]. rewrite Ec. unfold zlist_eqb. rewrite E1. reflexivity.
    - destruct (negb (tok s) && ostate_eqb s after) eqn:E; [|discriminate]. inversion H; subst.
      apply andb_true_iff in E as [_ E]. split; [reflexivity | exact E].
  Qed.

  Lemma seq_end_run ops : forall s s',
    seq_end s ops = Some s' -> run cap batch keep s (trace_of ops) = Some s'.
  Proof.
    induction ops as [|o r IH]; intros s s' H; [exact H|]. cbn [seq_end] in H.
    destruct (seq_step s o) as [s1|] eqn:E; [|discriminate].
    unfold trace_of. cbn [map concat]. rewrite run_app.
    destruct (seq_step_run s o s1 E) as [R _]. rewrite R. apply IH. exact H.
  Qed.

  Lemma kept_app t1 t2 : kept keep (t1 ++ t2) = kept keep t1 ++ kept keep t2.
  Proof. induction t1 as [|[a| |o|] t1 IH]; simpl; rewrite ?IH, ?app_assoc; reflexivity. Qed.
  Lemma popped_app t1 t2 : popped (t1 ++ t2) = popped t1 ++ popped t2.
  Proof. induction t1 as [|[a| |o|] t1 IH]; simpl; rewrite ?IH, ?app_assoc; reflexivity. Qed.

  Lemma kept_trace_of ops : kept keep (trace_of ops) = ops_kept ops.
  Proof.
    induction ops as [|o r IH]; [reflexivity|]. unfold trace_of in *. cbn [map concat]. rewrite kept_app, IH.
    destruct o; simpl; rewrite ?app_nil_r; reflexivity.
  Qed.
  Lemma popped_trace_of ops : popped (trace_of ops) = ops_popped ops.
  Proof.
    induction ops as [|o r IH]; [reflexivity|]. unfold trace_of in *. cbn [map concat]. rewrite popped_app, IH.
    destruct o; simpl; rewrite ?app_nil_r; reflexivity.
  Qed.

  Lemma prefixes_split {A} (l : list A) : forall p, In p (prefixes l) -> exists r, l = p ++ r.
  Proof.
    induction l as [|x l IH]; intros p H; simpl in H.
    - destruct H as [H|[]]. subst. exists []. reflexivity.
    - destruct H as [H|H]; [subst; eexists; reflexivity|].
      apply in_map_iff in H as [p' [E Hp']]. subst p. destruct (IH p' Hp') as [r Hr]. exists r. simpl. congruence.
  Qed.

  Lemma prefix_holds p :
    (exists s', seq_end init p = Some s') -> prefix_ok cap batch p = true.
  Proof.
    intros [s' He]. unfold prefix_ok.
    destruct (rev p) as [|o rp] eqn:Er; [reflexivity|].
    assert (Hp : p = rev rp ++ [o]).
    { rewrite <- (rev_involutive p), Er. reflexivity. }
    rewrite Hp in He. rewrite seq_end_app in He.
    destruct (seq_end init (rev rp)) as [s0|] eqn:E0; [|discriminate].
    cbn [seq_end] in He. destruct (seq_step s0 o) as [s1|] eqn:E1; [|discriminate]. inversion He; subst s'.
    destruct (seq_step_run s0 o s1 E1) as [_ Ho]. apply ostate_eqb_eq in Ho as [H1 [H2 H3]].
    assert (Hrun : run cap batch keep init (trace_of p) = Some s1).
    { apply seq_end_run. rewrite Hp, seq_end_app, E0. cbn [seq_end]. rewrite E1. reflexivity. }
    pose proof (trace_pred _ _ Hrun H3) as HP. unfold obs_pred in HP. cbn [fst snd] in HP.
    rewrite kept_trace_of, popped_trace_of in HP.
    repeat (apply andb_true_iff in HP as [HP ?]).
    rewrite <- H1, <- H2. repeat (apply andb_true_iff; split); try assumption.
    destruct o as [a after|out after|after]; try reflexivity.
    (* the last operation is a Pop: its batch is one of the crit labels of the trace *)
    match goal with Hc : crit_sizes_ok _ _ = true |- _ => unfold crit_sizes_ok in Hc; rewrite forallb_forall in Hc;
      apply (Hc (LCrit out)) end.
    rewrite Hp. unfold trace_of. rewrite map_app, concat_app. apply in_or_app. right. simpl. right. left. reflexivity.
  Qed.

  (* ---- exact accounting ---- *)
  Lemma skipn_app_all {A} (a b : list A) : skipn (List.length a) (a ++ b) = b.
  Proof. induction a as [|x a IH]; simpl; [destruct b; reflexivity | exact IH]. Qed.

  Lemma skipn_app_le {A} n (a b : list A) : (n <= List.length a)%nat -> skipn n (a ++ b) = skipn n a ++ b.
  Proof.
    revert a. induction n as [|n IH]; intros a H; [reflexivity|].
    destruct a as [|x a]; [simpl in H; lia|]. simpl. apply IH. simpl in H. lia.
  Qed.

  Lemma skipn_app_ge {A} n (a b : list A) : (List.length a <= n)%nat -> skipn n (a ++ b) = skipn (n - List.length a) b.
  Proof.
    revert a. induction n as [|n IH]; intros a H.
    - destruct a; [reflexivity | simpl in H; lia].
    - destruct a as [|x a]; [reflexivity|]. simpl. apply IH. simpl in H. lia.
  Qed.

  Lemma push_exact s a :
    len (q s) <= cap ->
    q (push cap keep s a)
    = lastn (Z.to_nat (Z.min cap (len (q s ++ filter keep a)))) (q s ++ filter keep a).
  Proof.
    intro Hq. unfold push, lastn.
    destruct a as [|a0 a].
    - simpl filter. rewrite app_nil_r.
      assert (E0 : (List.length (q s) - Z.to_nat (Z.min cap (len (q s))) = 0)%nat) by (unfold len in *; lia).
      rewrite E0. reflexivity.
    - destruct (filter keep (a0 :: a)) as [|b0 al0] eqn:Ef.
      + rewrite app_nil_r.
        assert (E0 : (List.length (q s) - Z.to_nat (Z.min cap (len (q s))) = 0)%nat) by (unfold len in *; lia).
        rewrite E0. reflexivity.
      + set (al := b0 :: al0) in *. cbv zeta.
        assert (Hl : len (q s ++ al) = len (q s) + len al) by (unfold len; rewrite app_length; lia).
        destruct (len al - cap >? 0) eqn:Ed.
        * apply Z.gtb_lt in Ed.
          assert (Hd : len (dropn (len al - cap) al) = cap).
          { unfold len, dropn in *. rewrite skipn_length. lia. }
          rewrite Hd. cbn [q].
          assert (Hqu : (if len (q s) + cap - cap >? 0 then dropn (len (q s) + cap - cap) (q s) else q s) = []).
          { replace (len (q s) + cap - cap) with (len (q s)) by lia.
            destruct (len (q s) >? 0) eqn:E.
            - unfold dropn, len. rewrite Nat2Z.id. apply skipn_all.
            - destruct (q s) as [|z0 l0]; [reflexivity|]. apply gtb_false in E. unfold len in E.
              change (List.length (z0 :: l0)) with (S (List.length l0)) in E. lia. }
          rewrite Hqu. cbn [app].
          rewrite skipn_app_ge by (unfold len in *; rewrite app_length; lia).
          unfold dropn. f_equal. unfold len in *. rewrite app_length. lia.
        * apply gtb_false in Ed. cbn [q].
          destruct (len (q s) + len al - cap >? 0) eqn:Ed2.
          -- apply Z.gtb_lt in Ed2. rewrite skipn_app_le by (unfold len in *; rewrite app_length; lia).
             f_equal. unfold dropn. f_equal. unfold len in *. rewrite app_length. lia.
          -- apply gtb_false in Ed2.
             assert (E0 : (List.length (q s ++ al) - Z.to_nat (Z.min cap (len (q s ++ al))) = 0)%nat) by (unfold len in *; rewrite app_length in *; lia).
             rewrite E0. reflexivity.
  Qed.

  Lemma steps_exact_holds ops : forall s,
    len (q s) <= cap -> mid s = O ->
    seq_ok cap batch s ops = true -> steps_exact cap (q s) ops = true.
  Proof.
    induction ops as [|o r IH]; intros s Hq Hm H; [reflexivity|].
    destruct o as [a after|out after|after]; cbn [seq_ok] in H; cbn [steps_exact].
    - apply andb_true_iff in H as [H1 H2]. apply ostate_eqb_eq in H1 as [E1 [E2 E3]].
      rewrite <- E1. rewrite (push_exact s a Hq), zlist_eqb_refl. cbn [andb].
      rewrite <- (push_exact s a Hq). apply IH; [|exact E3|exact H2].
      rewrite (push_exact s a Hq). unfold lastn, len. rewrite skipn_length. unfold len in Hq. lia.
    - destruct (pop batch s) as [[s' o']|] eqn:Ep; [|discriminate].
      apply andb_true_iff in H as [H H3]. apply andb_true_iff in H as [H1 H2].
      apply (list_eqb_spec Z.eqb) in H1; [|intros x y; apply Z.eqb_eq]. subst o'.
      apply ostate_eqb_eq in H2 as [E1 [E2 E3]].
      unfold pop, take in Ep. destruct (tok s); [|discriminate]. unfold crit in Ep. cbn [mid q tok] in Ep.
      inversion Ep; subst s' out. clear Ep. cbn [q mid] in *.
      rewrite <- E1, firstn_skipn, zlist_eqb_refl. cbn [andb].
      match type of H3 with seq_ok _ _ ?st _ = _ => apply (IH st) end; [| |exact H3]; cbn [q mid]; [|exact Hm].
      unfold len in *. rewrite skipn_length. lia.
    - apply andb_true_iff in H as [H H3]. apply andb_true_iff in H as [_ H2].
      apply ostate_eqb_eq in H2 as [E1 _]. rewrite <- E1, zlist_eqb_refl. cbn [andb]. apply IH; assumption.
  Qed.

  Lemma seq_bridge ops :
    corr_ok (CSeq cap batch ops) = true -> pred_ok (CSeq cap batch ops) = true.
  Proof.
    cbn [corr_ok pred_ok]. intro H. apply andb_true_iff. split.
    - apply forallb_forall. intros p Hp.
      destruct (prefixes_split ops p Hp) as [r Hr]. apply prefix_holds.
      destruct (seq_ok_end ops init H) as [s' He]. rewrite Hr, seq_end_app in He.
      destruct (seq_end init p) as [s1|]; [eexists; reflexivity | discriminate].
    - apply (steps_exact_holds ops init); [unfold len; simpl; lia | reflexivity | exact H].
  Qed.

  Lemma seq_end_mid ops : forall s s', mid s = O -> seq_end s ops = Some s' -> mid s' = O.
  Proof.
    induction ops as [|o r IH]; intros s s' Hs He.
    - inversion He; subst. exact Hs.
    - cbn [seq_end] in He. destruct (seq_step s o) as [s1|] eqn:E; [|discriminate].
      destruct (seq_step_run s o s1 E) as [_ Ho]. apply ostate_eqb_eq in Ho as [_ [_ H3]]. eapply IH; eauto.
  Qed.

  (* the recorded sequential operations are a run of the transition system *)
  Lemma seq_is_run ops :
    corr_ok (CSeq cap batch ops) = true ->
    exists s, run cap batch keep init (trace_of ops) = Some s /\ mid s = O.
  Proof.
    cbn [corr_ok]. intro H. destruct (seq_ok_end ops init H) as [s' He].
    exists s'. split; [apply seq_end_run; exact He | eapply seq_end_mid; [|exact He]; reflexivity].
  Qed.
End B.
