(* C04 — the fuel of the iterator model always suffices (termination of the
   composition bounded iterator / penalty iterator / nested penalty iterators),
   on the domain of Proofs/C04.v: first stream complete, others subsequences. *)
From Coq Require Import ZArith List Bool NArith Lia Sorting.Sorted Arith.
Import ListNotations.
From Verif Require Import Lib.Corr Gen.C04 Model.C04 Proofs.C04.
Open Scope Z_scope.

Fixpoint depth (i : it) : nat :=
  match i with
  | Leaf _ _ => 1%nat
  | Node a b _ _ _ _ _ _ _ => S (Nat.max (depth a) (depth b))
  end.

Lemma depth_pos i : (1 <= depth i)%nat.
Proof. destruct i; simpl; lia. Qed.

Lemma sub_length B A : sub B A -> (length B <= length A)%nat.
Proof. induction 1; simpl; lia. Qed.

Section Bounds.
Variables mint maxt : Z.
Notation next := (next mint maxt).
Notation seek := (seek mint maxt).
Notation inr := (in_range mint maxt).
Notation RepS := (RepS mint maxt).
Notation RepU := (RepU mint maxt).

Lemma next_leaf_some f s l : exists r, next (S f) (Leaf s l) = Some r.
Proof.
  rewrite next_leaf. cbv zeta. destruct (if s then tl l else l) as [|x r]; [eauto|].
  destruct (fst x <? mint); [|eauto].
  destruct (maxt <? mint); [eauto|]. destruct (drop_lt mint (x :: r)); eauto.
Qed.

Lemma next_leaf_is_leaf f s l i' v : next (S f) (Leaf s l) = Some (i', v) -> depth i' = 1%nat.
Proof.
  rewrite next_leaf. cbv zeta. destruct (if s then tl l else l) as [|x r].
  - intros H; injection H as <- _; reflexivity.
  - destruct (fst x <? mint).
    + destruct (maxt <? mint); [intros H; injection H as <- _; reflexivity|].
      destruct (drop_lt mint (x :: r)); intros H; injection H as <- _; reflexivity.
    + intros H; injection H as <- _; reflexivity.
Qed.

Lemma seek_leaf_some f t s l : exists r, seek (S f) t (Leaf s l) = Some r.
Proof. rewrite seek_leaf. destruct (maxt <? t); eauto. Qed.

Lemma seek_leaf_is_leaf f t s l i' v : seek (S f) t (Leaf s l) = Some (i', v) -> depth i' = 1%nat.
Proof.
  rewrite seek_leaf. destruct (maxt <? t); intros H; injection H as <- _; reflexivity.
Qed.

(* Next and Seek keep the shape of the iterator tree *)
Lemma depth_pres : forall f,
  (forall i i' v, next f i = Some (i', v) -> depth i' = depth i) /\
  (forall t i i' v, seek f t i = Some (i', v) -> depth i' = depth i).
Proof.
  induction f as [|f [IHn IHs]]; [split; intros; simpl in *; discriminate|].
  split.
  - intros i i' v H. destruct i as [s l | a b av bv lastT la pa pb ua].
    + apply next_leaf_is_leaf in H. exact H.
    + rewrite next_node in H.
      assert (Ha : exists a' av', (if av then seek f (lastT + 1 + pa) a else Some (a, false)) = Some (a', av')
                     /\ depth a' = depth a).
      { destruct av.
        - destruct (seek f (lastT + 1 + pa) a) as [[a' av']|] eqn:E; [|discriminate].
          exists a', av'. split; [reflexivity|]. eapply IHs; eauto.
        - exists a, false. auto. }
      destruct Ha as (a' & av' & Ea & Da). rewrite Ea in H.
      assert (Hb : exists b' bv', (if bv then seek f (lastT + 1 + pb) b else Some (b, false)) = Some (b', bv')
                     /\ depth b' = depth b).
      { destruct bv.
        - destruct (seek f (lastT + 1 + pb) b) as [[b' bv']|] eqn:E; [|discriminate].
          exists b', bv'. split; [reflexivity|]. eapply IHs; eauto.
        - exists b, false. auto. }
      destruct Hb as (b' & bv' & Eb & Db). rewrite Eb in H.
      destruct av', bv'; cbn [negb] in H; cbv zeta in H;
        try (destruct (atT a' <=? atT b')); injection H as <- _; simpl; rewrite Da, Db; reflexivity.
  - intros t i i' v H. destruct i as [s l | a b av bv lastT la pa pb ua].
    + apply seek_leaf_is_leaf in H. exact H.
    + rewrite seek_node in H. cbv zeta in H.
      destruct (lastT =? MinT).
      { destruct (next f (Node a b av bv lastT la pa pb ua)) as [[i1 v1]|] eqn:En; [|discriminate].
        pose proof (IHn _ _ _ En) as D1.
        destruct v1.
        - rewrite (IHs _ _ _ _ H). exact D1.
        - injection H as <- _. exact D1. }
      destruct (t <=? atT (Node a b av bv lastT la pa pb ua)).
      * destruct ua.
        -- destruct (seek f _ a) as [[a' v']|] eqn:E; [|discriminate].
           injection H as <- _. simpl. rewrite (IHs _ _ _ _ E). reflexivity.
        -- destruct (seek f _ b) as [[b' v']|] eqn:E; [|discriminate].
           injection H as <- _. simpl. rewrite (IHs _ _ _ _ E). reflexivity.
      * destruct (next f (Node a b av bv lastT la pa pb ua)) as [[i1 v1]|] eqn:En; [|discriminate].
        pose proof (IHn _ _ _ En) as D1.
        destruct v1.
        -- rewrite (IHs _ _ _ _ H). exact D1.
        -- injection H as <- _. exact D1.
Qed.

Definition need_next (i : it) (R : list sample) : nat := ((depth i - 1) * (length R + 2) + 1)%nat.
Definition need_seek (i : it) (R : list sample) : nat := (depth i * (length R + 2))%nat.

(* on started iterators *)
Lemma total_started : forall f,
  (forall i R, RepS i R -> (need_next i R <= f)%nat -> exists r, next f i = Some r) /\
  (forall i R t, RepS i R -> (need_seek i R <= f)%nat -> exists r, seek f t i = Some r).
Proof.
  induction f as [|f [IHn IHs]].
  { split.
    - intros i R _ H. unfold need_next in H. rewrite Nat.add_1_r in H. inversion H.
    - intros i R t _ H. unfold need_seek in H. pose proof (depth_pos i). nia. }
  destruct (specs mint maxt f) as [Sn Ss].
  destruct (depth_pres f) as [Dn Ds].
  split.
  - intros i R HR Hf. destruct HR as [x r Hraw H1 H2 | a b bv pb x R Ha Hok Hpb Hb].
    + apply next_leaf_some.
    + unfold need_next in Hf. cbn [depth] in Hf.
      set (m := Nat.max (depth a) (depth b)) in *.
      assert (Hm : (m * (length (x :: R) + 2) <= f)%nat) by lia.
      rewrite next_node.
      destruct (IHs a (x :: R) (fst x + 1 + 0) Ha) as [[a' av'] Ea].
      { unfold need_seek. assert (depth a <= m)%nat by lia. nia. }
      rewrite Ea.
      assert (Hbs : exists b' bv', (if bv then seek f (fst x + 1 + pb) b else Some (b, false)) = Some (b', bv')).
      { destruct bv; [|eauto]. destruct (Hb eq_refl) as (B & HB & Hsub).
        destruct (IHs b B (fst x + 1 + pb) HB) as [[b' bv'] Eb]; [|eauto].
        unfold need_seek. pose proof (sub_length _ _ Hsub). assert (depth b <= m)%nat by lia. nia. }
      destruct Hbs as (b' & bv' & Eb). rewrite Eb.
      destruct av', bv'; cbn [negb]; cbv zeta; try (destruct (atT a' <=? atT b')); eauto.
  - intros i R t HR Hf. destruct HR as [x r Hraw H1 H2 | a b bv pb x R Ha Hok Hpb Hb].
    + apply seek_leaf_some.
    + assert (HR : RepS (Node a b true bv (fst x) true 0 pb true) (x :: R)) by (constructor; auto).
      unfold need_seek in Hf. cbn [depth] in Hf.
      set (m := Nat.max (depth a) (depth b)) in *.
      rewrite seek_node. cbv zeta.
      assert (HxM : (fst x =? MinT) = false).
      { apply Z.eqb_neq. destruct Hok as [_ HF]. inversion HF; subst. lia. }
      rewrite HxM.
      destruct (t <=? atT (Node a b true bv (fst x) true 0 pb true)).
      * destruct (IHs a (x :: R) (atT (Node a b true bv (fst x) true 0 pb true)) Ha) as [[a' v'] Ea].
        { unfold need_seek. assert (depth a <= m)%nat by lia. nia. }
        rewrite Ea. eauto.
      * destruct (IHn _ _ HR) as [[i1 v1] En].
        { unfold need_next. cbn [depth]. fold m. cbn [length] in *. nia. }
        rewrite En. destruct v1; [|eauto].
        destruct (Sn _ _ _ _ HR En) as [_ Hi1]. specialize (Hi1 eq_refl). cbn [tl] in Hi1.
        apply (IHs i1 R t Hi1).
        unfold need_seek. rewrite (Dn _ _ _ En). cbn [depth]. fold m. cbn [length] in *. nia.
Qed.

(* unstarted iterators *)
Lemma next_unstarted_some f i S :
  RepU i S -> (need_next i S <= f)%nat -> exists r, next f i = Some r.
Proof.
  intros HU Hf. destruct f as [|f]; [unfold need_next in Hf; rewrite Nat.add_1_r in Hf; inversion Hf|].
  destruct (total_started f) as [_ Ts].
  destruct HU as [l Hraw | a b av bv SA SB Hok Hsub Hav Ha Hbv Hb].
  - apply next_leaf_some.
  - unfold need_next in Hf. cbn [depth] in Hf.
    set (m := Nat.max (depth a) (depth b)) in *.
    rewrite next_node.
    assert (Has : exists a' av', (if av then seek f (MinT + 1 + 0) a else Some (a, false)) = Some (a', av')).
    { destruct av; [|eauto]. destruct (Ts a SA (MinT + 1 + 0) (Ha eq_refl)) as [[a' av'] Ea]; [|eauto].
      unfold need_seek. assert (depth a <= m)%nat by lia. nia. }
    destruct Has as (a' & av' & Ea). rewrite Ea.
    assert (Hbs : exists b' bv', (if bv then seek f (MinT + 1 + 0) b else Some (b, false)) = Some (b', bv')).
    { destruct bv; [|eauto]. destruct (Ts b SB (MinT + 1 + 0) (Hb eq_refl)) as [[b' bv'] Eb]; [|eauto].
      unfold need_seek. pose proof (sub_length _ _ Hsub). assert (depth b <= m)%nat by lia. nia. }
    destruct Hbs as (b' & bv' & Eb). rewrite Eb.
    destruct av', bv'; cbn [negb]; cbv zeta; try (destruct (atT a' <=? atT b')); eauto.
Qed.

Lemma mk_node_total f a b SA SB :
  RepU a SA -> RepU b SB -> sub SB SA -> okstream mint maxt SA ->
  (need_next a SA <= f)%nat -> (need_next b SB <= f)%nat ->
  exists n, mk_node mint maxt f a b = Some n /\ RepU n SA
            /\ depth n = S (Nat.max (depth a) (depth b)).
Proof.
  intros Ha Hb Hsub Hok Hfa Hfb. unfold mk_node.
  destruct (next_unstarted_some f a SA Ha Hfa) as [[a' av] Ea].
  destruct (next_unstarted_some f b SB Hb Hfb) as [[b' bv] Eb].
  rewrite Ea, Eb. eexists. split; [reflexivity|]. split.
  - eapply mk_node_rep; eauto. unfold mk_node. rewrite Ea, Eb. reflexivity.
  - destruct (depth_pres f) as [Dn _]. simpl. rewrite (Dn _ _ _ Ea), (Dn _ _ _ Eb). reflexivity.
Qed.

Lemma build_total f : forall ws acc SA,
  RepU acc SA ->
  Forall (fun w => rawstream w /\ sub (inr w) SA) ws ->
  (((depth acc - 1) + length ws) * (length SA + 2) + 1 <= f)%nat ->
  exists i, build mint maxt f acc ws = Some i /\ RepU i SA /\ depth i = (depth acc + length ws)%nat.
Proof.
  induction ws as [|w ws IH]; intros acc SA Hacc HF Hf; cbn [build].
  - exists acc. rewrite Nat.add_0_r. auto.
  - inversion HF as [|? ? [Hraw Hsub] HF']; subst.
    pose proof (depth_pos acc) as Hd. cbn [length] in Hf.
    destruct (mk_node_total f acc (Leaf false w) SA (inr w)) as (n & En & Hn & Dn).
    + assumption.
    + constructor. assumption.
    + assumption.
    + eapply RepU_okstream; eauto.
    + unfold need_next. nia.
    + unfold need_next. cbn [depth]. lia.
    + rewrite En. cbn [depth] in Dn. rewrite Nat.max_l in Dn by lia.
      destruct (IH n SA Hn HF') as (i & Ei & Hi & Di).
      * rewrite Dn. nia.
      * exists i. split; [assumption|]. split; [assumption|]. rewrite Di, Dn. cbn [length]. lia.
Qed.

Lemma drain_started_total f : forall n i R,
  RepS i R -> (length R <= n)%nat -> (need_next i R <= f)%nat ->
  exists out, drain mint maxt f n i = Some out.
Proof.
  destruct (specs mint maxt f) as [Sn _]. destruct (total_started f) as [Tn _].
  destruct (depth_pres f) as [Dn _].
  induction n as [|n IH]; intros i R HR Hn Hf.
  - destruct (RepS_nonempty _ _ _ _ HR) as (x & R' & -> & _). simpl in Hn. lia.
  - cbn [drain]. destruct (Tn _ _ HR Hf) as [[i' v] En]. rewrite En.
    destruct v; [|eauto].
    destruct (Sn _ _ _ _ HR En) as [_ Hi']. specialize (Hi' eq_refl).
    destruct (RepS_nonempty _ _ _ _ HR) as (x & R' & -> & _). cbn [tl] in Hi'.
    destruct (IH i' R' Hi') as [out Eo].
    + simpl in Hn. lia.
    + unfold need_next in *. rewrite (Dn _ _ _ En). cbn [length] in Hf. nia.
    + rewrite Eo. eauto.
Qed.

Lemma drain_unstarted_total f n i S :
  RepU i S -> (length S < n)%nat -> (need_next i S <= f)%nat ->
  exists out, drain mint maxt f n i = Some out.
Proof.
  intros HU Hn Hf. destruct n as [|n]; [lia|]. cbn [drain].
  destruct (next_unstarted_some f i S HU Hf) as [[i' v] En]. rewrite En.
  destruct v; [|eauto].
  destruct (next_unstarted _ _ _ _ _ _ _ HU En) as [_ Hi']. specialize (Hi' eq_refl).
  destruct (depth_pres f) as [Dn _].
  destruct (drain_started_total f n i' S Hi') as [out Eo].
  - lia.
  - unfold need_next in *. rewrite (Dn _ _ _ En). exact Hf.
  - rewrite Eo. eauto.
Qed.

Lemma in_range_length l : (length (inr l) <= length l)%nat.
Proof. apply sub_length. apply in_range_sub. Qed.

Lemma total_ge w ws : (length w <= total (w :: ws))%nat.
Proof. unfold total. simpl. lia. Qed.

(* the fuel chosen by the model suffices, and the result is the first stream in range *)
Lemma series_samples_total w0 ws :
  rawstream w0 -> Forall (fun w => sub w w0) ws ->
  series_samples mint maxt (w0 :: ws) = Some (inr w0).
Proof.
  intros Hraw HF.
  assert (HF' : Forall (fun w => rawstream w /\ sub (inr w) (inr w0)) ws).
  { rewrite Forall_forall in *. intros w Hw. specialize (HF _ Hw). split.
    - split; [eapply SS_sub; eauto; apply Hraw|].
      destruct Hraw as [_ HM]. rewrite Forall_forall in *. intros z Hz. apply HM. eapply sub_in; eauto.
    - apply sub_in_range. assumption. }
  assert (Hex : exists out, series_samples mint maxt (w0 :: ws) = Some out).
  { unfold series_samples.
    pose proof (in_range_length w0) as Hl. pose proof (total_ge w0 ws) as Ht.
    destruct (build_total (fuel_of (w0 :: ws)) ws (Leaf false w0) (inr w0)) as (i & Ei & Hi & Di).
    - constructor. assumption.
    - assumption.
    - unfold fuel_of. cbn [depth length]. nia.
    - rewrite Ei. apply (drain_unstarted_total _ _ _ (inr w0) Hi).
      + lia.
      + unfold need_next, fuel_of. rewrite Di. cbn [depth length]. nia. }
  destruct Hex as [out E]. rewrite E. f_equal.
  eapply series_samples_first_complete; eauto.
Qed.
End Bounds.
