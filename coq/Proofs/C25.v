(* C25 — lemmas. *)
From Coq Require Import ZArith NArith List Bool Lia.
Import ListNotations.
From Verif Require Import Lib.Corr Gen.C25 Model.C25.
Open Scope Z_scope.

(* ---- the symbol table survives marshalSymbols / NewRequest ---- *)
Lemma dec_symbols_from_spec : forall tbl pre,
  dec_symbols_from (N.of_nat (List.length pre)) (ends_from (N.of_nat (List.length pre)) tbl) (pre ++ concat tbl) = tbl.
Proof.
  induction tbl as [|s r IH]; intro pre; [reflexivity|].
  cbn [ends_from dec_symbols_from concat].
  assert (He : (N.of_nat (List.length pre) + N.of_nat (List.length s))%N = N.of_nat (List.length (pre ++ s))).
  { rewrite app_length. lia. }
  f_equal.
  - destruct (N.eqb_spec (N.of_nat (List.length pre)) (N.of_nat (List.length pre) + N.of_nat (List.length s))) as [E|E].
    + destruct s; [reflexivity|]. cbn [List.length] in E. lia.
    + unfold slice.
      replace (N.to_nat (N.of_nat (List.length pre) + N.of_nat (List.length s) - N.of_nat (List.length pre))) with (List.length s) by lia.
      rewrite Nat2N.id. rewrite skipn_app, skipn_all, Nat.sub_diag. cbn [skipn app].
      rewrite firstn_app, firstn_all, Nat.sub_diag. cbn [firstn]. apply app_nil_r.
  - rewrite He. rewrite app_assoc. apply IH.
Qed.

Lemma symbols_roundtrip : forall tbl,
  decode_symbols (fst (marshal_symbols tbl)) (snd (marshal_symbols tbl)) = tbl.
Proof. intro tbl. unfold decode_symbols, marshal_symbols. cbn [fst snd]. exact (dec_symbols_from_spec tbl []). Qed.

Lemma ends_from_length : forall tbl start, List.length (ends_from start tbl) = List.length tbl.
Proof. induction tbl as [|s r IH]; intro start; cbn; [reflexivity|]. rewrite IH. reflexivity. Qed.

(* ---- interning ---- *)
Definition extends (T T' : list str) : Prop := exists ext, T' = T ++ ext.
Definition resolves (T : list str) (i : N) (s : str) : Prop := nth_error T (N.to_nat i) = Some s.

Lemma extends_refl : forall T, extends T T.
Proof. intro T. exists []. symmetry. apply app_nil_r. Qed.
Lemma extends_trans : forall A B C, extends A B -> extends B C -> extends A C.
Proof. intros A B C [e1 ->] [e2 ->]. exists (e1 ++ e2). symmetry. apply app_assoc. Qed.

Lemma resolves_mono : forall T T' i s, extends T T' -> resolves T i s -> resolves T' i s.
Proof.
  intros T T' i s [ext ->] H. unfold resolves in *. rewrite nth_error_app1; [exact H|].
  apply nth_error_Some. congruence.
Qed.

Lemma resolves_sym : forall T i s, resolves T i s -> sym T i = s.
Proof. intros T i s H. unfold sym. apply nth_error_nth. exact H. Qed.

Lemma str_eqb_eq : forall a b, str_eqb a b = true -> a = b.
Proof. intros a b H. apply (list_eqb_spec N.eqb N.eqb_eq). exact H. Qed.

Lemma index_of_some : forall s tbl i, index_of s tbl = Some i -> nth_error tbl i = Some s.
Proof.
  intros s tbl. induction tbl as [|x r IH]; intros i H; [discriminate|].
  cbn [index_of] in H. destruct (str_eqb x s) eqn:E.
  - inversion H; subst. apply str_eqb_eq in E. subst. reflexivity.
  - destruct (index_of s r) as [j|]; [|discriminate]. inversion H; subst. cbn. apply IH. reflexivity.
Qed.

Lemma add_entry_spec : forall tbl s tbl' i, add_entry tbl s = (tbl', i) ->
  extends tbl tbl' /\ resolves tbl' i s.
Proof.
  intros tbl s tbl' i H. unfold add_entry in H. destruct (index_of s tbl) as [j|] eqn:E.
  - inversion H; subst. split; [apply extends_refl|]. unfold resolves. rewrite Nat2N.id. apply index_of_some. exact E.
  - inversion H; subst. split; [exists [s]; reflexivity|]. unfold resolves. rewrite Nat2N.id.
    rewrite nth_error_app2 by lia. rewrite Nat.sub_diag. reflexivity.
Qed.

Lemma enc_labels_spec : forall ls tbl tbl' rs, enc_labels tbl ls = (tbl', rs) ->
  extends tbl tbl' /\ forall T, extends tbl' T -> dec_labels T rs = ls.
Proof.
  induction ls as [|[n v] r IH]; intros tbl tbl' rs H.
  - inversion H; subst. split; [apply extends_refl|]. reflexivity.
  - cbn [enc_labels] in H.
    destruct (add_entry tbl n) as [t1 a] eqn:E1. destruct (add_entry t1 v) as [t2 b] eqn:E2.
    destruct (enc_labels t2 r) as [t3 rs'] eqn:E3. inversion H; subst. clear H.
    apply add_entry_spec in E1 as [X1 R1]. apply add_entry_spec in E2 as [X2 R2].
    apply IH in E3 as [X3 D3].
    split; [eauto using extends_trans|]. intros T XT. cbn [dec_labels map fst snd].
    f_equal.
    + f_equal; apply resolves_sym.
      * eapply resolves_mono; [|exact R1]. eauto using extends_trans.
      * eapply resolves_mono; [|exact R2]. eauto using extends_trans.
    + apply D3. exact XT.
Qed.

Definition dec_exemplars (T : list str) (es : list wire_exemplar) : list in_exemplar :=
  map (fun e => match e with (r, v, t) => (dec_labels T r, v, t) end) es.

Lemma enc_exemplars_spec : forall es tbl tbl' out, enc_exemplars tbl es = (tbl', out) ->
  extends tbl tbl' /\ forall T, extends tbl' T -> dec_exemplars T out = es.
Proof.
  induction es as [|[[ls v] t] r IH]; intros tbl tbl' out H.
  - inversion H; subst. split; [apply extends_refl|]. reflexivity.
  - cbn [enc_exemplars] in H.
    destruct (enc_labels tbl ls) as [t1 rs] eqn:E1. destruct (enc_exemplars t1 r) as [t2 out'] eqn:E2.
    inversion H; subst. clear H.
    apply enc_labels_spec in E1 as [X1 D1]. apply IH in E2 as [X2 D2].
    split; [eauto using extends_trans|]. intros T XT. cbn [dec_exemplars map]. f_equal.
    + rewrite D1 by eauto using extends_trans. reflexivity.
    + apply D2. exact XT.
Qed.

(* ---- histograms: the wire carries everything but the custom values ---- *)
Definition erase_custom (h : in_hist) : in_hist :=
  match h with (c, s, sc, zt, zc, ns, nd, nc, ps, pd, pc, r, t, _) => (c, s, sc, zt, zc, ns, nd, nc, ps, pd, pc, r, t, []) end.

Lemma hist_roundtrip : forall h, dec_hist (enc_hist h) = spec_hist (erase_custom h).
Proof.
  intros [[[[[[[[[[[[[c s] sc] zt] zc] ns] nd] nc] ps] pd] pc] r] t] cu].
  destruct c as [[[|] cv]|], zc as [[[|] zv]|]; reflexivity.
Qed.

Lemma erase_custom_id : forall h, hist_custom h = [] -> erase_custom h = h.
Proof.
  intros [[[[[[[[[[[[[c s] sc] zt] zc] ns] nd] nc] ps] pd] pc] r] t] cu] H. cbn in H. subst. reflexivity.
Qed.

Lemma opt_map_map : forall A B C (f : A -> B) (g : B -> option C) l,
  opt_map g (map f l) = opt_map (fun x => g (f x)) l.
Proof. intros. induction l as [|x l IH]; cbn; [reflexivity|]. rewrite IH. reflexivity. Qed.

Lemma opt_map_ext : forall A B (f g : A -> option B) l, (forall x, f x = g x) -> opt_map f l = opt_map g l.
Proof. intros A B f g l H. induction l as [|x l IH]; cbn; [reflexivity|]. rewrite H, IH. reflexivity. Qed.

Definition erase_series (s : in_series) : in_series :=
  match s with (ls, samples, hists, exemplars) => (ls, samples, map erase_custom hists, exemplars) end.
Definition erase_request (req : request) : request :=
  map (fun tn => (fst tn, map erase_series (snd tn))) req.

Lemma enc_series_spec : forall s tbl tbl' w, enc_series tbl s = (tbl', w) ->
  extends tbl tbl' /\ forall T, extends tbl' T -> dec_series T w = spec_series (erase_series s).
Proof.
  intros [[[ls samples] hists] exemplars] tbl tbl' w H. cbn [enc_series] in H.
  destruct (enc_labels tbl ls) as [t1 rs] eqn:E1. destruct (enc_exemplars t1 exemplars) as [t2 es] eqn:E2.
  inversion H; subst. clear H.
  apply enc_labels_spec in E1 as [X1 D1]. apply enc_exemplars_spec in E2 as [X2 D2].
  split; [eauto using extends_trans|]. intros T XT.
  cbn [dec_series erase_series spec_series].
  rewrite !opt_map_map. rewrite (opt_map_ext _ _ _ _ hists hist_roundtrip).
  destruct (opt_map (fun x => spec_hist (erase_custom x)) hists); [|reflexivity].
  rewrite D1 by eauto using extends_trans. fold (dec_exemplars T es). rewrite D2 by exact XT. reflexivity.
Qed.

Lemma enc_series_list_spec : forall ss tbl tbl' ws, enc_series_list tbl ss = (tbl', ws) ->
  extends tbl tbl' /\ forall T, extends tbl' T -> opt_map (dec_series T) ws = opt_map spec_series (map erase_series ss).
Proof.
  induction ss as [|s r IH]; intros tbl tbl' ws H.
  - inversion H; subst. split; [apply extends_refl|]. reflexivity.
  - cbn [enc_series_list] in H.
    destruct (enc_series tbl s) as [t1 w] eqn:E1. destruct (enc_series_list t1 r) as [t2 ws'] eqn:E2.
    inversion H; subst. clear H.
    apply enc_series_spec in E1 as [X1 D1]. apply IH in E2 as [X2 D2].
    split; [eauto using extends_trans|]. intros T XT. cbn [opt_map map].
    rewrite D1 by eauto using extends_trans. rewrite D2 by exact XT. reflexivity.
Qed.

Definition dec_tenant (T : list str) (tn : str * list wire_series) : option (str * list out_series) :=
  match opt_map (dec_series T) (snd tn) with Some ss => Some (fst tn, ss) | None => None end.
Definition spec_tenant (tn : str * list in_series) : option (str * list out_series) :=
  match opt_map spec_series (snd tn) with Some ss => Some (fst tn, ss) | None => None end.

Lemma enc_tenants_spec : forall req tbl tbl' out, enc_tenants tbl req = (tbl', out) ->
  extends tbl tbl' /\ forall T, extends tbl' T -> opt_map (dec_tenant T) out = opt_map spec_tenant (erase_request req).
Proof.
  induction req as [|[tn ss] r IH]; intros tbl tbl' out H.
  - inversion H; subst. split; [apply extends_refl|]. reflexivity.
  - cbn [enc_tenants] in H.
    destruct (enc_series_list tbl ss) as [t1 ws] eqn:E1. destruct (enc_tenants t1 r) as [t2 out'] eqn:E2.
    inversion H; subst. clear H.
    apply enc_series_list_spec in E1 as [X1 D1]. apply IH in E2 as [X2 D2].
    split; [eauto using extends_trans|]. intros T XT. cbn [opt_map erase_request map].
    unfold dec_tenant at 1, spec_tenant at 1. cbn [fst snd].
    rewrite D1 by eauto using extends_trans. fold (erase_request r). rewrite D2 by exact XT. reflexivity.
Qed.

Lemma request_roundtrip : forall req, decode (encode req) = spec_request (erase_request req).
Proof.
  intro req. unfold encode. destruct (enc_tenants [] req) as [tbl ts] eqn:E.
  pose proof (symbols_roundtrip tbl) as S. destruct (marshal_symbols tbl) as [offs data] eqn:M. cbn [fst snd] in S.
  cbn [decode]. rewrite S.
  apply enc_tenants_spec in E as [_ D]. exact (D tbl (extends_refl tbl)).
Qed.

Lemma erase_request_id : forall req, no_custom_values req = true -> erase_request req = req.
Proof.
  intros req H. unfold no_custom_values in H. rewrite forallb_forall in H.
  unfold erase_request. rewrite <- (map_id req) at 2. apply map_ext_in. intros [tn ss] Hin.
  specialize (H _ Hin). cbn [fst snd] in *. f_equal. rewrite forallb_forall in H.
  rewrite <- (map_id ss) at 2. apply map_ext_in. intros [[[ls samples] hists] exemplars] Hs.
  specialize (H _ Hs). cbn [series_hists] in H. rewrite forallb_forall in H.
  cbn [erase_series]. f_equal. f_equal.
  rewrite <- (map_id hists) at 2. apply map_ext_in. intros h Hh. specialize (H h Hh).
  apply erase_custom_id. destruct (hist_custom h); [reflexivity|discriminate].
Qed.

Lemma request_roundtrip_lossless : forall req, no_custom_values req = true ->
  decode (encode req) = spec_request req.
Proof. intros req H. rewrite request_roundtrip, (erase_request_id req H). reflexivity. Qed.

(* the interned index of every string resolves, in the decoded table, to that string *)
Lemma interned_strings_roundtrip : forall tbl s tbl' i, add_entry tbl s = (tbl', i) ->
  forall T, extends tbl' T ->
  sym (decode_symbols (fst (marshal_symbols T)) (snd (marshal_symbols T))) i = s.
Proof.
  intros tbl s tbl' i H T XT. rewrite symbols_roundtrip. apply resolves_sym.
  apply add_entry_spec in H as [_ R]. eapply resolves_mono; eauto.
Qed.

(* ---- what the wire cannot carry / decode ---- *)
Definition witness_custom : request :=
  [([116%N], [([([97%N], [98%N])], [], [(Some (true, 3%N), 0%N, (-53), 0%N, Some (true, 0%N), [], [], [], [(0, 2%N)], [1; 1], [], 0, 1000, [4609434218613702656%N])], [])])].

Lemma custom_values_lost :
  exists out want, decode (encode witness_custom) = Some out /\ spec_request witness_custom = Some want /\ out <> want.
Proof. eexists. eexists. split; [vm_compute; reflexivity|]. split; [vm_compute; reflexivity|]. intro H. discriminate H. Qed.

(* ---- decoding never panics, whatever the message ---- *)
Lemma opt_map_total : forall A B (f : A -> option B) l, (forall x, exists y, f x = Some y) -> exists ys, opt_map f l = Some ys.
Proof.
  intros A B f l H. induction l as [|x l [ys IH]]; [eexists; reflexivity|].
  destruct (H x) as [y Hy]. cbn [opt_map]. rewrite Hy, IH. eexists; reflexivity.
Qed.

Lemma dec_hist_total : forall w, exists h, dec_hist w = Some h.
Proof.
  intros [[[[[[[[[[[[c s] sc] zt] zc] ns] nd] nc] ps] pd] pc] r] t]. cbn [dec_hist].
  destruct (fst c); eexists; reflexivity.
Qed.

Lemma decode_total : forall w, exists out, decode w = Some out.
Proof.
  intros [[offs data] ts]. cbn [decode]. apply opt_map_total. intros [tn ws]. cbn [fst snd].
  destruct (opt_map_total _ _ (dec_series (decode_symbols offs data)) ws) as [ss E].
  - intros [[[rs samples] hists] exemplars]. cbn [dec_series].
    destruct (opt_map_total _ _ dec_hist hists dec_hist_total) as [hs Eh]. rewrite Eh. eexists; reflexivity.
  - rewrite E. eexists; reflexivity.
Qed.

(* ---- the histogram decoding as it was before the repair: the generated
   union accessors are called unguarded (None = their panic), and the encoder
   left the zero count on the default arm when the oneof was unset ---- *)
Definition enc_hist_old (h : in_hist) : wire_hist :=
  match h with
  | (c, s, sc, zt, zc, ns, nd, nc, ps, pd, pc, r, t, _custom) =>
      (enc_cnt c, s, sc, zt, enc_cnt zc, ns, nd, nc, ps, pd, pc, r, t)
  end.
Definition dec_hist_old (w : wire_hist) : option out_hist :=
  match w with
  | (c, s, sc, zt, zc, ns, nd, nc, ps, pd, pc, r, t) =>
      if fst c then
        if fst zc then Some (true, r, snd c, s, sc, zt, snd zc, ps, ns, pd, nd, [], [], t, []) else None
      else
        if fst zc then None else Some (false, r, snd c, s, sc, zt, snd zc, ps, ns, [], [], pc, nc, t, [])
  end.

(* a float histogram whose zero_count oneof is unset *)
Definition witness_union_hist : in_hist :=
  (Some (false, 4617315517961601024%N), 0%N, 0, 0%N, None, [], [], [], [(0, 1%N)], [], [4607182418800017408%N], 0, 1000, []).

Lemma float_histogram_without_zero_count_old_undefined :
  dec_hist_old (enc_hist_old witness_union_hist) = None
  /\ dec_hist (enc_hist witness_union_hist) = spec_hist witness_union_hist
  /\ dec_hist (enc_hist_old witness_union_hist) <> None.
Proof. vm_compute. repeat split; try reflexivity. discriminate. Qed.
