(* C40, part 2: aggrChunkIterator.toChunk (repaired) on an iterator that reads a
   plain list of samples: it takes exactly the samples up to maxTime that are
   not before minTime and leaves the iterator AT the first later sample. *)
From Coq Require Import ZArith List Bool Lia.
Import ListNotations.
From Verif Require Import Lib.Corr Lib.Dedup_Iter Lib.Dedup_SpecFacts Lib.Dedup_Refine Gen.C40 Model.C40.
Open Scope Z_scope.

Fixpoint take_le (m : Z) (l : list sample) : list sample :=
  match l with [] => [] | s :: r => if ts s >? m then [] else s :: take_le m r end.
Fixpoint drop_le (m : Z) (l : list sample) : list sample :=
  match l with [] => [] | s :: r => if ts s >? m then l else drop_le m r end.
Definition keep_ge (m : Z) (l : list sample) : list sample := filter (fun s => ts s >=? m) l.

Section Loop.
  Variable o : iobj.
  Variable C : contract o.
  Variables mint maxt : Z.

  Lemma loop_spec : forall fuel x racc,
    Inv C x -> settled o (fut C) x (str o (fut C) x) -> (length (str o (fut C) x) < fuel)%nat ->
    exists x', to_chunk_loop o fuel x mint maxt racc
               = (x', rev (keep_ge mint (take_le maxt (str o (fut C) x))) ++ racc)
      /\ Inv C x' /\ settled o (fut C) x' (drop_le maxt (str o (fut C) x)).
  Proof.
    induction fuel as [|f IH]; intros x racc Hi Hs Hlen; [lia|].
    cbn [to_chunk_loop]. unfold str in *. destruct (valid o x) eqn:Hv.
    - cbn [take_le drop_le].
      destruct (ts (at_ o x) >? maxt) eqn:Hgt.
      + exists x. split; [reflexivity|]. split; [exact Hi|exact Hs].
      + destruct (c_next C x Hi) as [Hi' Hs'].
        pose proof (settled_str _ _ _ _ Hs') as Hstr. unfold str in Hstr.
        assert (Hs'' : settled o (fut C) (next o x) (if valid o (next o x) then at_ o (next o x) :: fut C (next o x) else fut C (next o x)))
          by (rewrite Hstr; exact Hs').
        destruct (IH (next o x) (if ts (at_ o x) >=? mint then at_ o x :: racc else racc) Hi' Hs'') as (x' & He & Hi2 & Hs2).
        { rewrite Hstr. simpl in Hlen. lia. }
        exists x'. rewrite He, Hstr. split; [|split; [exact Hi2|rewrite Hstr in Hs2; exact Hs2]].
        f_equal. unfold keep_ge. cbn [filter].
        destruct (ts (at_ o x) >=? mint); [|reflexivity].
        cbn [rev]. rewrite <- app_assoc. reflexivity.
    - (* exhausted *)
      assert (Hf : fut C x = []).
      { destruct (fut C x) as [|s r] eqn:E; [reflexivity|]. simpl in Hs. destruct Hs as [H _]. congruence. }
      rewrite Hf in *. exists x. split; [reflexivity|]. split; [exact Hi|exact Hs].
  Qed.
End Loop.

(* an aggregate's state reads the stream R: a contract-satisfying iterator, not yet
   advanced and about to yield R, or positioned on the head of R *)
Definition areads (st : astate) (R : list sample) : Prop :=
  exists C : contract (io (a_it st)),
    Inv C (ist (a_it st)) /\
    match a_started st return Prop with
    | true => settled (io (a_it st)) (fut C) (ist (a_it st)) R
    | false => Fresh C (ist (a_it st)) /\ fut C (ist (a_it st)) = R
    end.

Definition chunk_of (counter : bool) (l : list sample) : option (list sample) :=
  match l with
  | [] => None
  | _ => Some (if counter then l ++ [last l (0, 0)] else l)
  end.

Lemma rev_chunk (counter : bool) (racc : list sample) :
  match racc with
  | [] => None
  | l :: _ => Some (rev (if counter then l :: racc else racc))
  end = chunk_of counter (rev racc).
Proof.
  destruct racc as [|l r]; [reflexivity|].
  unfold chunk_of. destruct (rev (l :: r)) eqn:E.
  - apply (f_equal (@length sample)) in E. rewrite rev_length in E. discriminate.
  - rewrite <- E. f_equal. destruct counter; [|reflexivity].
    cbn [rev]. f_equal. f_equal. rewrite last_last. reflexivity.
Qed.

Lemma to_chunk_spec counter st R mint maxt :
  areads st R ->
  exists st', to_chunk counter st mint maxt = (st', chunk_of counter (keep_ge mint (take_le maxt R)))
              /\ areads st' (drop_le maxt R).
Proof.
  destruct st as [started [o x]]. unfold areads. cbn [a_it a_started io ist].
  intros (C & Hi & Hst). unfold to_chunk. cbn [a_it a_started io ist]. cbv zeta.
  assert (H0 : Inv C (if started then x else next o x) /\
               settled o (fut C) (if started then x else next o x) R).
  { destruct started.
    - split; assumption.
    - destruct Hst as [Hf HR]. destruct (c_next C x Hi) as [H1 H2]. rewrite HR in H2. split; assumption. }
  destruct H0 as [Hi0 Hs0].
  generalize dependent (if started then x else next o x). intros x0 Hi0 Hs0.
  pose proof (settled_str _ _ _ _ Hs0) as Hstr.
  pose proof (c_size C x0 Hi0) as Hsz.
  destruct (loop_spec o C mint maxt (S (size o x0)) x0 []) as (x' & He & Hi' & Hs').
  - exact Hi0.
  - rewrite Hstr. exact Hs0.
  - lia.
  - rewrite Hstr in *. rewrite He. rewrite app_nil_r.
    eexists. split.
    + f_equal. rewrite rev_chunk. rewrite rev_involutive. reflexivity.
    + exists C. cbn. split; assumption.
Qed.

(* ---------- splitting a strictly increasing stream at a chunk boundary ---------- *)
Lemma take_drop_app m : forall P Q,
  (forall s, In s P -> ts s <= m) -> (match Q with [] => True | q :: _ => m < ts q end) ->
  take_le m (P ++ Q) = P /\ drop_le m (P ++ Q) = Q.
Proof.
  induction P as [|p P IH]; intros Q HP HQ; simpl.
  - destruct Q as [|q Q]; [split; reflexivity|]. simpl.
    assert (E : (ts q >? m) = true) by (apply Z.gtb_lt; lia). rewrite E. split; reflexivity.
  - assert (E : (ts p >? m) = false).
    { destruct (Z.gtb_spec (ts p) m); [|reflexivity]. specialize (HP p (or_introl eq_refl)). lia. }
    rewrite E. destruct (IH Q) as [H1 H2]; [intros s Hs; apply HP; right; exact Hs|exact HQ|].
    rewrite H1, H2. split; reflexivity.
Qed.

Lemma keep_ge_all m l : (forall s, In s l -> m <= ts s) -> keep_ge m l = l.
Proof.
  intro H. unfold keep_ge. apply filter_all_id. intros s Hs. specialize (H s Hs).
  apply Z.geb_le. lia.
Qed.
