(* C22 — sendWrites / worker pools / wg.Wait / close(responses): every
   destination produces exactly one response, all of them before the channel is
   closed, the WaitGroup counter never goes negative, nothing is sent on the
   closed channel and the channel's capacity is never exceeded. *)
From Coq Require Import ZArith List Bool Lia Permutation String.
Import ListNotations.
From Verif Require Import Lib.Corr Gen.C22 Model.C22 Proofs.C22 Proofs.C22_dist.
Open Scope Z_scope.

(* tie T: the bookkeeping calls of sendWrites, tryWrite, sendWrite,
   prepareRemoteWrite, buildWork, RemoteWriteAsync, TryRemoteWriteAsync and of
   fanoutForward's sender goroutine are in the modelled order (Gen/C22.v) *)
Lemma send_shape_holds : send_shape_ok = true.
Proof. vm_compute. reflexivity. Qed.

Definition dest_dec : forall a b : dest, {a = b} + {a <> b}.
Proof. decide equality; apply Nat.eq_dec. Defined.

Definition cnt (l : list dest) (x : dest) : nat := count_occ dest_dec l x.

Lemma cnt_app : forall l1 l2 x, cnt (l1 ++ l2) x = (cnt l1 x + cnt l2 x)%nat.
Proof. intros. unfold cnt. apply count_occ_app. Qed.

Lemma cnt_cons : forall d l x, cnt (d :: l) x = ((if dest_dec d x then 1 else 0) + cnt l x)%nat.
Proof. intros. unfold cnt. cbn [count_occ]. destruct (dest_dec d x); lia. Qed.

Lemma cnt_nil : forall x, cnt [] x = 0%nat.
Proof. reflexivity. Qed.

Lemma remove_one_cnt : forall d l l', remove_one d l = Some l' ->
  (forall x, cnt l x = ((if dest_dec d x then 1 else 0) + cnt l' x)%nat) /\ List.length l = S (List.length l').
Proof.
  intros d l. induction l as [|y l IH]; intros l' H; [discriminate|].
  cbn [remove_one] in H. destruct (dest_eqb y d) eqn:E.
  - inversion H; subst. apply dest_eqb_eq in E. subst. split; [intro x; apply cnt_cons|reflexivity].
  - destruct (remove_one d l) as [r'|] eqn:R; [|discriminate]. inversion H; subst.
    destruct (IH r' eq_refl) as [Hc Hl]. split.
    + intro x. rewrite !cnt_cons, Hc. lia.
    + cbn [List.length]. lia.
Qed.

Definition todo_of (p : sphase) : list dest := match p with P1 t | P2 t => t | _ => [] end.

Definition sinv (D : list dest) (s : sstate) : Prop :=
  sbad s = false
  /\ swg s = Z.of_nat (List.length (srunning s) + List.length (ssent s))
  /\ (forall x, cnt (todo_of (sph s) ++ sdeferred s ++ srunning s ++ schan s) x = cnt D x)
  /\ (forall x, (cnt (ssent s) x <= cnt (schan s) x)%nat)
  /\ match sph s with
     | P1 _ => True
     | P2 _ | PWait => sdeferred s = []
     | PClosed => sdeferred s = [] /\ srunning s = [] /\ ssent s = []
     end.

Lemma sinv_init : forall D, sinv D (sinit D).
Proof.
  intro D. unfold sinv, sinit; cbn. repeat split; auto.
  intro x. rewrite !app_nil_r. reflexivity.
Qed.

Ltac cnt_norm := repeat first [rewrite cnt_app | rewrite cnt_cons | rewrite cnt_nil].

Lemma sstep_inv : forall D s l s', sinv D s -> sstep s l = Some s' -> sinv D s'.
Proof.
  intros D [ph def wg run sent chan bad] l s' [Hb [Hw [Hc [Hs Hp]]]] H.
  cbn [sbad swg srunning ssent schan sph sdeferred] in *. subst bad.
  destruct l as [ | | | | | | | |d|d| ]; cbn [sstep sph sdeferred swg srunning ssent schan sbad] in H.
  - (* S1ConnFail *) destruct ph as [[|d t]|t| |]; try discriminate. inversion H; subst; clear H.
    unfold sinv; cbn [sbad swg srunning ssent schan sph sdeferred todo_of]. repeat split; auto.
    + intro x. specialize (Hc x). cbn [todo_of] in Hc. revert Hc. cnt_norm. lia.
    + intro x. specialize (Hs x). cnt_norm. lia.
  - (* S1Accept *) destruct ph as [[|d t]|t| |]; try discriminate. inversion H; subst; clear H.
    unfold sinv; cbn [sbad swg srunning ssent schan sph sdeferred todo_of List.length]. repeat split; auto; [lia|].
    intro x. specialize (Hc x). cbn [todo_of] in Hc. revert Hc. cnt_norm. lia.
  - (* S1Reject *) destruct ph as [[|d t]|t| |]; try discriminate. inversion H; subst; clear H.
    unfold sinv; cbn [sbad swg srunning ssent schan sph sdeferred todo_of]. repeat split; auto.
    intro x. specialize (Hc x). cbn [todo_of] in Hc. revert Hc. cnt_norm. lia.
  - (* S1End *) destruct ph as [[|d t]|t| |]; try discriminate. inversion H; subst; clear H.
    unfold sinv; cbn [sbad swg srunning ssent schan sph sdeferred todo_of]. repeat split; auto.
  - (* S2ConnFail *) destruct ph as [t|[|d t]| |]; try discriminate. inversion H; subst; clear H.
    unfold sinv; cbn [sbad swg srunning ssent schan sph sdeferred todo_of]. repeat split; auto.
    + intro x. specialize (Hc x). cbn [todo_of] in Hc. revert Hc. cnt_norm. lia.
    + intro x. specialize (Hs x). cnt_norm. lia.
  - (* S2GoErr *) destruct ph as [t|[|d t]| |]; try discriminate. inversion H; subst; clear H.
    unfold sinv; cbn [sbad swg srunning ssent schan sph sdeferred todo_of]. repeat split; auto.
    + intro x. specialize (Hc x). cbn [todo_of] in Hc. revert Hc. cnt_norm. lia.
    + intro x. specialize (Hs x). cnt_norm. lia.
  - (* S2Accept *) destruct ph as [t|[|d t]| |]; try discriminate. inversion H; subst; clear H.
    unfold sinv; cbn [sbad swg srunning ssent schan sph sdeferred todo_of List.length]. repeat split; auto; [lia|].
    intro x. specialize (Hc x). cbn [todo_of] in Hc. revert Hc. cnt_norm. lia.
  - (* S2End *) destruct ph as [t|[|d t]| |]; try discriminate. inversion H; subst; clear H.
    unfold sinv; cbn [sbad swg srunning ssent schan sph sdeferred todo_of]. repeat split; auto.
  - (* SWorkSend *)
    assert (H' : match remove_one d run with
                 | Some r' => Some (mk_sstate ph def wg r' (d :: sent) (chan ++ [d]) (false || is_closed ph))
                 | None => None end = Some s') by (destruct ph as [[|? ?]|[|? ?]| |]; exact H).
    clear H. destruct (remove_one d run) as [r'|] eqn:R; [|discriminate]. inversion H'; subst; clear H'.
    destruct (remove_one_cnt d run r' R) as [Rc Rl].
    assert (Hcl : is_closed ph = false).
    { destruct ph; try reflexivity. destruct Hp as [_ [Hr _]]. subst run. discriminate R. }
    unfold sinv; cbn [sbad swg srunning ssent schan sph sdeferred List.length]. rewrite Hcl. repeat split; auto.
    + lia.
    + intro x. specialize (Hc x). specialize (Rc x). revert Hc. cnt_norm. rewrite Rc. lia.
    + intro x. specialize (Hs x). cnt_norm. lia.
    + destruct ph; auto. discriminate Hcl.
  - (* SWorkDone *)
    assert (H' : match remove_one d sent with
                 | Some t' => Some (mk_sstate ph def (wg - 1) run t' chan (false || (wg - 1 <? 0)))
                 | None => None end = Some s') by (destruct ph as [[|? ?]|[|? ?]| |]; exact H).
    clear H. destruct (remove_one d sent) as [t'|] eqn:R; [|discriminate]. inversion H'; subst; clear H'.
    destruct (remove_one_cnt d sent t' R) as [Rc Rl].
    unfold sinv; cbn [sbad swg srunning ssent schan sph sdeferred]. repeat split; auto.
    + destruct (Z.ltb_spec (Z.of_nat (List.length run + List.length sent) - 1) 0); [lia|reflexivity].
    + lia.
    + intro x. specialize (Hs x). specialize (Rc x). lia.
    + destruct ph; auto. destruct Hp as [Hd [Hr Hse]]. subst sent. discriminate R.
  - (* SClose *) destruct ph as [t|t| |]; try discriminate.
    destruct (Z.eqb_spec wg 0) as [E|E]; [|discriminate]. inversion H; subst; clear H.
    unfold sinv; cbn [sbad swg srunning ssent schan sph sdeferred todo_of]. repeat split; auto.
    + destruct run; [reflexivity|cbn [List.length] in E; lia].
    + destruct sent; [reflexivity|]. cbn [List.length] in E. lia.
Qed.

Lemma srun_inv : forall D ls s s', sinv D s -> srun s ls = Some s' -> sinv D s'.
Proof.
  intros D ls. induction ls as [|l ls IH]; intros s s' Hi Hr; cbn [srun] in Hr.
  - inversion Hr; subst; exact Hi.
  - destruct (sstep s l) as [s1|] eqn:E; [|discriminate].
    exact (IH s1 s' (sstep_inv D s l s1 Hi E) Hr).
Qed.

Lemma cnt_length_le : forall l D, (forall x, (cnt l x <= cnt D x)%nat) -> (List.length l <= List.length D)%nat.
Proof.
  induction l as [|a l IH]; intros D H; [cbn; lia|].
  assert (Ha : (1 <= cnt D a)%nat) by (specialize (H a); rewrite cnt_cons in H; destruct (dest_dec a a); [lia|congruence]).
  assert (Hin : In a D) by (apply (count_occ_In dest_dec); unfold cnt in Ha; lia).
  apply in_split in Hin as [l1 [l2 ->]].
  cbn [List.length]. rewrite app_length. cbn [List.length].
  assert ((List.length l <= List.length (l1 ++ l2))%nat).
  { apply IH. intro x. specialize (H x). revert H. cnt_norm. destruct (dest_dec a x); lia. }
  rewrite app_length in H0. lia.
Qed.

(* every run of the sender and of the pool workers, in any interleaving *)
Lemma sender_safe : forall D ls s, srun (sinit D) ls = Some s ->
  sbad s = false /\ 0 <= swg s
  /\ (List.length (schan s) <= List.length D)%nat
  /\ (sph s = PClosed -> Permutation (schan s) D).
Proof.
  intros D ls s Hr. destruct (srun_inv D ls (sinit D) s (sinv_init D) Hr) as [Hb [Hw [Hc [Hs Hp]]]].
  split; [exact Hb|]. split; [lia|]. split.
  - apply cnt_length_le. intro x. specialize (Hc x). revert Hc. cnt_norm. lia.
  - intro Hcl. rewrite Hcl in Hp, Hc. destruct Hp as [Hd [Hru Hse]]. rewrite Hd, Hru in Hc.
    cbn [todo_of app] in Hc. apply (Permutation_count_occ dest_dec). exact Hc.
Qed.

(* a response is on the channel before its completion callback (wg.Done) runs *)
Lemma sender_response_before_done : forall D ls s, srun (sinit D) ls = Some s ->
  forall x, (cnt (ssent s) x <= cnt (schan s) x)%nat.
Proof. intros D ls s Hr. destruct (srun_inv D ls (sinit D) s (sinv_init D) Hr) as [_ [_ [_ [Hs _]]]]. exact Hs. Qed.

(* the protocol can always be completed: a closing run exists for every
   destination list and every choice of first-pass outcomes *)
Fixpoint complete_run (ds : list dest) : list slabel :=
  match ds with
  | [] => []
  | d :: r => S1Accept :: complete_run r
  end.

Lemma closing_run_exists : forall D, exists ls s, srun (sinit D) ls = Some s /\ sph s = PClosed.
Proof.
  intro D.
  assert (G : forall t run chan, exists ls s,
            srun (mk_sstate (P1 t) [] (Z.of_nat (List.length run)) run [] chan false) ls = Some s /\ sph s = PClosed).
  { induction t as [|d t IH]; intros run chan.
    - (* first pass over: second pass is empty; drain the running works one by one *)
      revert chan. induction run as [|d run IHr]; intro chan.
      + exists [S1End; S2End; SClose]. eexists. cbn. split; reflexivity.
      + destruct (IHr (chan ++ [d])) as [ls [s [Hs Hc]]].
        exists (SWorkSend d :: SWorkDone d :: ls), s. split; [|exact Hc].
        cbn [srun sstep sph srunning remove_one]. rewrite dest_eqb_refl.
        cbn [srun sstep sph ssent remove_one]. rewrite dest_eqb_refl.
        cbn [sdeferred swg srunning ssent schan sbad orb is_closed].
        replace (Z.of_nat (List.length (d :: run)) - 1) with (Z.of_nat (List.length run)) by (cbn [List.length]; lia).
        destruct (Z.ltb_spec (Z.of_nat (List.length run)) 0); [lia|]. exact Hs.
    - destruct (IH (d :: run) chan) as [ls [s [Hs Hc]]]. exists (S1Accept :: ls), s. split; [|exact Hc].
      cbn [srun sstep sph sdeferred swg srunning ssent schan sbad].
      replace (Z.of_nat (List.length run) + 1) with (Z.of_nat (List.length (d :: run))) by (cbn [List.length]; lia).
      exact Hs. }
  exact (G D [] []).
Qed.

(* the hypothesis "one response per replica for every series" of the request
   theorem, discharged: the responses are the channel content of a complete
   run of the sender over the groups of the distribution *)
Lemma sender_gives_one_response_per_replica : forall rf rep place ws ls s, 0 <= rf ->
  srun (sinit (keys (distribute place (replicas_of rf rep)))) ls = Some s ->
  sph s = PClosed -> schan s = map write_dest ws ->
  forall x, (x < List.length place)%nat -> responses_of x (resps_of place ws) = n_replicas rf rep.
Proof.
  intros rf rep place ws ls s Hrf Hr Hcl Hch x Hx.
  destruct (sender_safe _ ls s Hr) as [_ [_ [_ Hp]]]. specialize (Hp Hcl). rewrite Hch in Hp.
  rewrite (one_response_per_replica place (replicas_of rf rep) ws (replicas_of_nodup rf rep) Hp x Hx).
  apply replicas_of_length. exact Hrf.
Qed.

Lemma handle_pred_sender : forall rf rep place ws ls s, 1 <= rf -> 0 <= rep ->
  srun (sinit (keys (distribute place (replicas_of rf rep)))) ls = Some s ->
  sph s = PClosed -> schan s = map write_dest ws ->
  exists o, handle rf rep place ws = Some o
    /\ (o = OAck -> rep <= rf ->
        quorum_everywhere (List.length place) (success_threshold rf rep) (resps_of place ws) = true
        /\ exists k, (k <= List.length ws)%nat /\ forall d hg obs obsr, (k <= d)%nat ->
             pred_ok (CAck rf rep place ws hg obs obsr 200 d) = true)
    /\ (o = OFail -> quorum_everywhere (List.length place) (success_threshold rf rep) (resps_of place ws) = false).
Proof.
  intros rf rep place ws ls s Hrf Hrep Hr Hcl Hch. apply handle_pred; [exact Hrf|exact Hrep|].
  apply (sender_gives_one_response_per_replica rf rep place ws ls s); [lia|exact Hr|exact Hcl|exact Hch].
Qed.
