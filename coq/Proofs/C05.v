(* C05 — proofs about Model/C05.v ([time_skip] comes from Gen/C05.v). *)
From Coq Require Import ZArith NArith List Bool Lia.
Import ListNotations.
From Verif Require Import Lib.Corr Lib.Proxy_Order Gen.C05 Model.C05.
Open Scope Z_scope.

Lemma str_eqb_eq a b : str_eqb a b = true <-> a = b.
Proof. unfold str_eqb. apply list_eqb_spec. intros x y. apply N.eqb_eq. Qed.

Lemma str_eqb_refl a : str_eqb a a = true.
Proof. apply str_eqb_eq. reflexivity. Qed.

Lemma lfind_some_in ls n v : lfind ls n = Some v -> In (n, v) ls.
Proof.
  induction ls as [|[k w] r IH]; cbn [lfind]; [discriminate|].
  destruct (str_eqb k n) eqn:E.
  - intros H. inversion H; subst. apply str_eqb_eq in E. subst. left. reflexivity.
  - intros H. right. apply IH. exact H.
Qed.

Lemma lget_nonempty_has ls n : is_empty_str (lget ls n) = false -> lhas ls n = true.
Proof. unfold lget, lhas. destruct (lfind ls n); [reflexivity|]. cbn. discriminate. Qed.

(* a series carries every label of ext with ext's value *)
Definition extends (s ext : labels) : Prop :=
  forall n, lhas ext n = true -> lget s n = lget ext n.

Lemma extends_b_sound s ext : extends_b s ext = true -> extends s ext.
Proof.
  unfold extends_b, extends. intros H n Hn.
  unfold lhas in Hn. destruct (lfind ext n) as [v|] eqn:F; [|discriminate].
  apply lfind_some_in in F. rewrite forallb_forall in H.
  specialize (H _ F). cbn [fst] in H. apply str_eqb_eq in H. exact H.
Qed.

Lemma extends_nil s : extends s [].
Proof. intros n H. discriminate. Qed.

(* ---- time range ---- *)
Lemma time_prune_sound mint maxt smin_ smax_ t :
  time_skip mint maxt smin_ smax_ = true -> smin_ <= t <= smax_ -> ~ (mint <= t <= maxt).
Proof.
  unfold time_skip. intros H Hs Hq. apply orb_true_iff in H as [H|H].
  - apply Z.gtb_lt in H. lia.
  - apply Z.ltb_lt in H. lia.
Qed.

Section Generic.
Context {M : Type} (mname : M -> str) (mmatch : M -> str -> bool).

Definition matches_series (s : labels) (m : M) : bool := mmatch m (lget s (mname m)).

(* ---- LabelSetsMatch ---- *)
Lemma lset_rejected_sound ms ext s :
  lset_rejected mname mmatch ms ext = true -> extends s ext ->
  exists m, In m ms /\ matches_series s m = false.
Proof.
  unfold lset_rejected. intros H He. apply existsb_exists in H as [m [Hin Hm]].
  apply andb_true_iff in Hm as [Hh Hr]. exists m. split; [exact Hin|].
  unfold matches_series. rewrite (He _ Hh). apply negb_true_iff in Hr. exact Hr.
Qed.

Lemma label_sets_match_false ms exts :
  label_sets_match mname mmatch ms exts = false ->
  exts <> [] /\ forall ext, In ext exts -> lset_rejected mname mmatch ms ext = true.
Proof.
  unfold label_sets_match. destruct exts as [|e r]; [discriminate|].
  intros H. split; [discriminate|]. intros ext Hin.
  destruct (lset_rejected mname mmatch ms ext) eqn:E; [reflexivity|].
  assert (existsb (fun ls => negb (lset_rejected mname mmatch ms ls)) (e :: r) = true) as X.
  { apply existsb_exists. exists ext. split; [exact Hin|]. rewrite E. reflexivity. }
  rewrite X in H. discriminate.
Qed.

Lemma label_prune_sound ms exts :
  label_sets_match mname mmatch ms exts = false ->
  forall s ext, In ext exts -> extends s ext ->
  exists m, In m ms /\ matches_series s m = false.
Proof.
  intros H s ext Hin He. apply label_sets_match_false in H as [_ H].
  eapply lset_rejected_sound; eauto.
Qed.

(* ---- matchesExternalLabels ---- *)
Lemma ext_loop_none ms ext s :
  ext_loop mname mmatch ms ext = None -> extends s ext ->
  exists m, In m ms /\ matches_series s m = false.
Proof.
  induction ms as [|m r IH]; cbn [ext_loop]; [discriminate|].
  intros H He.
  destruct (is_empty_str (lget ext (mname m))) eqn:E.
  - destruct (ext_loop mname mmatch r ext) eqn:L; [discriminate|].
    destruct (IH eq_refl He) as [m' [Hin Hm]]. exists m'. split; [right; exact Hin | exact Hm].
  - destruct (mmatch m (lget ext (mname m))) eqn:Mm.
    + destruct (IH H He) as [m' [Hin Hm]]. exists m'. split; [right; exact Hin | exact Hm].
    + exists m. split; [left; reflexivity|]. unfold matches_series.
      rewrite (He _ (lget_nonempty_has _ _ E)). exact Mm.
Qed.

Lemma ext_loop_some ms ext kept :
  ext_loop mname mmatch ms ext = Some kept ->
  incl kept ms /\
  forall s, extends s ext -> forallb (matches_series s) ms = forallb (matches_series s) kept.
Proof.
  revert kept. induction ms as [|m r IH]; cbn [ext_loop]; intros kept H.
  - inversion H; subst. split; [apply incl_refl | reflexivity].
  - destruct (is_empty_str (lget ext (mname m))) eqn:E.
    + destruct (ext_loop mname mmatch r ext) as [k|] eqn:L; [|discriminate].
      inversion H; subst. destruct (IH _ eq_refl) as [Hi Hf]. split.
      * intros x [Hx|Hx]; [left; exact Hx | right; apply Hi; exact Hx].
      * intros s He. cbn [forallb]. rewrite (Hf s He). reflexivity.
    + destruct (mmatch m (lget ext (mname m))) eqn:Mm; [|discriminate].
      destruct (IH _ H) as [Hi Hf]. split.
      * intros x Hx. right. apply Hi. exact Hx.
      * intros s He. cbn [forallb]. unfold matches_series at 1.
        rewrite (He _ (lget_nonempty_has _ _ E)), Mm. cbn. apply Hf. exact He.
Qed.

Lemma ext_match_none ms ext s :
  matches_external_labels mname mmatch ms ext = None -> extends s ext ->
  exists m, In m ms /\ matches_series s m = false.
Proof.
  unfold matches_external_labels. destruct ext as [|p e]; [discriminate|]. apply ext_loop_none.
Qed.

Lemma ext_match_some ms ext kept :
  matches_external_labels mname mmatch ms ext = Some kept ->
  incl kept ms /\
  forall s, extends s ext -> forallb (matches_series s) ms = forallb (matches_series s) kept.
Proof.
  unfold matches_external_labels. destruct ext as [|p e].
  - intros H. inversion H; subst. split; [apply incl_refl | reflexivity].
  - apply ext_loop_some.
Qed.

Lemma ext_match_sound ms ext :
  match matches_external_labels mname mmatch ms ext with
  | None => forall s, extends s ext -> exists m, In m ms /\ mmatch m (lget s (mname m)) = false
  | Some kept => incl kept ms /\
      forall s, extends s ext ->
        forallb (fun m => mmatch m (lget s (mname m))) ms = forallb (fun m => mmatch m (lget s (mname m))) kept
  end.
Proof.
  destruct (matches_external_labels mname mmatch ms ext) eqn:E.
  - exact (ext_match_some ms ext l E).
  - intros s. exact (ext_match_none ms ext s E).
Qed.

(* ---- storeMatches ---- *)
Lemma store_matches_time dbg mint maxt ms st :
  store_matches mname mmatch dbg mint maxt ms st = RTime ->
  time_skip mint maxt (smin st) (smax st) = true.
Proof.
  unfold store_matches. destruct (time_skip mint maxt (smin st) (smax st)); [reflexivity|].
  unfold store_match_debug.
  destruct dbg; [|destruct (slocal st); [discriminate|];
     destruct (existsb _ _); [|discriminate]];
  destruct (negb (label_sets_match mname mmatch ms (sexts st))); try discriminate;
  destruct (negb (sfilter st)); discriminate.
Qed.

Lemma store_matches_ext dbg mint maxt ms st :
  store_matches mname mmatch dbg mint maxt ms st = RExt ->
  label_sets_match mname mmatch ms (sexts st) = false.
Proof.
  unfold store_matches. destruct (time_skip mint maxt (smin st) (smax st)); [discriminate|].
  unfold store_match_debug.
  destruct dbg; [|destruct (slocal st); [discriminate|];
     destruct (existsb _ _); [|discriminate]];
  destruct (label_sets_match mname mmatch ms (sexts st)); cbn; try reflexivity;
  destruct (negb (sfilter st)); discriminate.
Qed.

(* ---- the property ---- *)
(* a series as the store presents it to this proxy: carries the proxy's selector
   labels, carries one of the store's external label sets (if it announces any),
   and all its samples lie in the advertised time range *)
Definition series_of_store (sel : labels) (st : store) (lbls : labels) (ts : list Z) : Prop :=
  extends lbls sel
  /\ (sexts st = [] \/ exists ext, In ext (sexts st) /\ extends lbls ext)
  /\ forall t, In t ts -> smin st <= t <= smax st.

(* the request selects the series: every matcher accepts its labels (Get = "" when
   absent) and it has a sample in the query's time range *)
Definition selected (ms : list M) (mint maxt : Z) (lbls : labels) (ts : list Z) : Prop :=
  (forall m, In m ms -> matches_series lbls m = true)
  /\ exists t, In t ts /\ mint <= t <= maxt.

Lemma series_of_store_b_sound sel st ser :
  series_of_store_b sel st ser = true -> series_of_store sel st (fst ser) (snd ser).
Proof.
  unfold series_of_store_b, series_of_store. intros H.
  apply andb_true_iff in H as [H H3]. apply andb_true_iff in H as [H1 H2].
  split; [apply extends_b_sound; exact H1|]. split.
  - destruct (sexts st) as [|e r] eqn:E; [left; reflexivity|]. right.
    apply existsb_exists in H2 as [ext [Hin He]]. exists ext. split; [exact Hin|].
    apply extends_b_sound. exact He.
  - intros t Ht. rewrite forallb_forall in H3. specialize (H3 _ Ht).
    apply andb_true_iff in H3 as [A B]. apply Z.leb_le in A. apply Z.leb_le in B. lia.
Qed.

Lemma selected_b_sound ms mint maxt ser :
  selected_b mname mmatch ms mint maxt ser = true -> selected ms mint maxt (fst ser) (snd ser).
Proof.
  unfold selected_b, selected. intros H. apply andb_true_iff in H as [H1 H2]. split.
  - intros m Hm. rewrite forallb_forall in H1. apply H1. exact Hm.
  - apply existsb_exists in H2 as [t [Ht Hr]]. exists t. split; [exact Ht|].
    apply andb_true_iff in Hr as [A B]. apply Z.leb_le in A. apply Z.leb_le in B. lia.
Qed.

Theorem skip_sound sel dbg mint maxt ms st :
  pruned (proxy_decision mname mmatch sel dbg mint maxt ms st) = true ->
  forall lbls ts, series_of_store sel st lbls ts -> ~ selected ms mint maxt lbls ts.
Proof.
  unfold proxy_decision. intros Hp lbls ts [Hsel [Hext Hts]] [Hall [t [Ht Hr]]].
  assert (Hrej : forall ms', incl ms' ms -> (exists m, In m ms' /\ matches_series lbls m = false) -> False).
  { intros ms' Hi [m [Hin Hm]]. rewrite (Hall m (Hi _ Hin)) in Hm. discriminate. }
  destruct (matches_external_labels mname mmatch ms sel) as [kept|] eqn:E.
  - destruct (ext_match_some _ _ _ E) as [Hincl _].
    destruct (store_matches mname mmatch dbg mint maxt kept st) eqn:R; cbn in Hp; try discriminate.
    + apply store_matches_time in R. exact (time_prune_sound _ _ _ _ _ R (Hts _ Ht) Hr).
    + apply store_matches_ext in R. destruct (label_sets_match_false _ _ R) as [Hne Hall'].
      destruct Hext as [Hnil | [ext [Hin He]]]; [contradiction|].
      apply (Hrej kept Hincl). eapply lset_rejected_sound; [apply Hall'; exact Hin | exact He].
  - apply (Hrej ms (incl_refl _)). eapply ext_match_none; eauto.
Qed.

End Generic.

(* ---- through the boolean predicate evaluated on the implementation's decisions ---- *)
Lemma no_selected_of_pruned sel dbg mint maxt ms (p : store * list (labels * list Z)) :
  pruned (proxy_decision mname mmatch sel dbg mint maxt ms (fst p)) = true ->
  forallb (fun ser => negb (series_of_store_b sel (fst p) ser && selected_b mname mmatch ms mint maxt ser)) (snd p) = true.
Proof.
  intros Hp. apply forallb_forall. intros ser _.
  destruct (series_of_store_b sel (fst p) ser) eqn:A; [|reflexivity].
  destruct (selected_b mname mmatch ms mint maxt ser) eqn:B; [|reflexivity].
  exfalso. apply series_of_store_b_sound in A. apply selected_b_sound in B.
  exact (skip_sound mname mmatch sel dbg mint maxt ms (fst p) Hp _ _ A B).
Qed.

Theorem pred_ok_model sel ms dbg son mint maxt stores o_kept o_lsets :
  match matches_external_labels mname mmatch ms sel with
  | None => pred_skip (CPrune sel ms dbg son mint maxt stores None [] o_kept o_lsets) = true
  | Some kept =>
      pred_skip (CPrune sel ms dbg son mint maxt stores (Some (map mid kept))
                 (map (fun s => reason_code (store_matches mname mmatch dbg mint maxt kept (fst s))) stores)
                 o_kept o_lsets) = true
  end.
Proof.
  destruct (matches_external_labels mname mmatch ms sel) as [kept|] eqn:E; cbn [pred_skip].
  - apply forallb_forall. intros [p r] Hin. cbn [fst snd].
    assert (Hr : r = reason_code (store_matches mname mmatch dbg mint maxt kept (fst p))).
    { clear -Hin. induction stores as [|s l IH]; cbn in Hin; [contradiction|].
      destruct Hin as [H|H]; [inversion H; reflexivity | apply IH; exact H]. }
    destruct ((r =? 1) || (r =? 4)) eqn:Rr; [|reflexivity].
    apply (no_selected_of_pruned sel dbg mint maxt ms p).
    unfold proxy_decision. rewrite E. subst r.
    destruct (store_matches mname mmatch dbg mint maxt kept (fst p)); cbn in Rr |- *; congruence.
  - apply forallb_forall. intros p _.
    apply (no_selected_of_pruned sel dbg mint maxt ms p).
    unfold proxy_decision. rewrite E. reflexivity.
Qed.

(* ---- MatchersForLabelSets ---- *)
Lemma in_sinsert x y l : In x (sinsert y l) <-> x = y \/ In x l.
Proof.
  induction l as [|z r IH]; cbn [sinsert]; [cbn; intuition congruence|].
  destruct (str_cmp y z) eqn:E; cbn [In]; try rewrite IH; try (intuition congruence).
  apply (cmp_eq _ str_ord) in E. subst z. cbn [In]. intuition congruence.
Qed.
Lemma in_sset x l : In x (sset l) <-> In x l.
Proof. induction l as [|y r IH]; cbn; [tauto|]. fold (sset r). rewrite in_sinsert, IH. intuition congruence. Qed.

(* label sets with the same label names: the extra matchers accept every series of every kept set *)
Theorem selector_sound_homogeneous lsets :
  (forall l n, In l lsets -> In n (sel_names lsets) -> lhas l n = true) ->
  forall s ext n, In ext lsets -> extends s ext -> In n (sel_names lsets) ->
  (forall v, In v (sel_alts n lsets) -> str_eqb v RE_EMPTY = false) ->
  alt_sem (sel_alts n lsets) (lget s n) = true.
Proof.
  intros Hh s ext n Hin He Hn Hre. unfold alt_sem. apply existsb_exists.
  pose proof (Hh ext n Hin Hn) as Hhas. rewrite (He n Hhas).
  exists (lget ext n). split.
  - unfold sel_alts. apply in_sset. apply in_or_app. left. apply in_concat.
    unfold lhas in Hhas. unfold lget. destruct (lfind ext n) as [v|] eqn:E; [|discriminate].
    exists [v]. split; [|left; reflexivity]. apply in_map_iff. exists ext. rewrite E. tauto.
  - rewrite Hre; [apply str_eqb_refl|].
    unfold sel_alts. apply in_sset. apply in_or_app. left. apply in_concat.
    unfold lhas in Hhas. unfold lget. destruct (lfind ext n) as [v|] eqn:E; [|discriminate].
    exists [v]. split; [|left; reflexivity]. apply in_map_iff. exists ext. rewrite E. tauto.
Qed.

(* with label sets of different names the matcher generated for a name that a kept set lacks
   rejects a series of that set that has its own label of that name *)
Definition A : str := [97]%N. Definition B : str := [98]%N.
Definition ex_lsets : list labels := [[(A, [49]%N)]; [(B, [50]%N)]].
Definition ex_series : labels := [(A, [49]%N); (B, [51]%N)].
Theorem selector_refuted :
  exists lsets s ext n, In ext lsets /\ extends_b s ext = true /\ In n (sel_names lsets)
    /\ alt_sem (sel_alts n lsets) (lget s n) = false.
Proof.
  exists ex_lsets, ex_series, [(A, [49]%N)], B. split; [left; reflexivity|]. split; [vm_compute; reflexivity|].
  split; [vm_compute; right; left; reflexivity | vm_compute; reflexivity].
Qed.

(* ---- the label sets matchingStores hands to MatchersForLabelSets ---- *)
Lemma matching_stores_lsets son dbg mint maxt ms (sts : list (nat * store)) i st :
  In (i, st) sts -> fst (selector_match son st) = true ->
  store_matches mname mmatch dbg mint maxt ms st = ROk ->
  incl (snd (selector_match son st)) (snd (matching_stores mname mmatch son dbg mint maxt ms sts)).
Proof.
  induction sts as [|[j st'] r IH]; intros Hin Hsel Hok; [destruct Hin|].
  cbn [matching_stores]. destruct (matching_stores mname mmatch son dbg mint maxt ms r) as [ks ls] eqn:E.
  destruct Hin as [Hin|Hin].
  - inversion Hin; subst. rewrite Hsel, Hok. cbn [snd]. apply incl_appl. apply incl_refl.
  - specialize (IH Hin Hsel Hok). cbn [snd] in IH.
    destruct (fst (selector_match son st')); [|exact IH].
    destruct (store_matches mname mmatch dbg mint maxt ms st'); cbn [snd]; try exact IH.
    apply incl_appr. exact IH.
Qed.

(* a queried store's KEPT label sets are among the sets the extra matchers are generated from, so
   (for label sets with the same label names) no series of a kept set of a queried store is
   rejected by the extra matchers *)
Theorem selector_keeps_queried dbg mint maxt ms (sts : list (nat * store)) i st :
  In (i, st) sts -> sexts st <> [] -> fst (selector_match true st) = true ->
  store_matches mname mmatch dbg mint maxt ms st = ROk ->
  let L := snd (matching_stores mname mmatch true dbg mint maxt ms sts) in
  (forall l n, In l L -> In n (sel_names L) -> lhas l n = true) ->
  forall s e n, In e (kept_lsets st) -> extends s e -> In n (sel_names L) ->
  (forall v, In v (sel_alts n L) -> str_eqb v RE_EMPTY = false) ->
  alt_sem (sel_alts n L) (lget s n) = true.
Proof.
  intros Hin Hne Hsel Hok L Hh s e n He Hext Hn Hre.
  apply (selector_sound_homogeneous L Hh s e n); try assumption.
  apply (matching_stores_lsets true dbg mint maxt ms sts i st Hin Hsel Hok).
  unfold selector_match. cbn [negb orb]. destruct (sexts st) eqn:E; [exfalso; apply Hne; reflexivity|]. cbn [snd]. exact He.
Qed.
