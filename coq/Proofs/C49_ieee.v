(* C49 — the float64 expression of jumpHash,
     j = int64(float64(b+1) * (float64(int64(1)<<31) / float64((key>>33)+1))),
   over Flocq's binary64 rounding (round to nearest even, emin = -1074, 53-bit
   precision): the quotient is >= 1 (2^31 / d with 1 <= d <= 2^31, and 1 is
   representable), the product of the representable integer b+1 with a factor
   >= 1 rounds to a value >= b+1, and the conversion truncates an integer-valued
   lower bound to itself. Hence b < j: the hypothesis of the jump theorems holds
   of the IEEE-754 semantics of the expression. Uses the classical real numbers
   of the standard library (Flocq). *)
From Coq Require Import ZArith Reals Lia Lra List.
From Flocq Require Import Core.
From Verif Require Import Lib.Corr Lib.Misc_Cmp Gen.C49 Model.C49 Proofs.C49.
Open Scope Z_scope.

Definition fexp64 := FLT_exp (-1074) 53.
Definition rnd64 (x : R) : R := round radix2 fexp64 ZnearestE x.

#[local] Instance prec53 : Prec_gt_0 53.
Proof. unfold Prec_gt_0. lia. Qed.

Lemma int_format (n : Z) : Z.abs n < 2 ^ 53 -> generic_format radix2 fexp64 (IZR n).
Proof.
  intro H. apply generic_format_FLT. apply (FLT_spec radix2 (-1074) 53 (IZR n) (Float radix2 n 0)).
  - unfold F2R. simpl. lra.
  - simpl. exact H.
  - simpl. lia.
Qed.

(* key>>33 on a uint64 is the quotient by 2^33; float64() of integers below 2^53
   is exact; `/` and `*` round to nearest even; int64() truncates *)
Definition nextj_ieee (b key : Z) : Z :=
  Ztrunc (rnd64 (IZR (b + 1) * rnd64 (IZR (2 ^ 31) / IZR (key / 2 ^ 33 + 1)))).

Lemma nextj_ieee_gt b key :
  0 <= b < 2 ^ 53 - 1 -> 0 <= key < two64 -> b < nextj_ieee b key.
Proof.
  intros Hb Hk. unfold two64 in Hk. unfold nextj_ieee.
  set (r := key / 2 ^ 33).
  assert (Hr : 0 <= r < 2 ^ 31).
  { unfold r. split; [apply Z.div_pos; lia|]. apply Z.div_lt_upper_bound; lia. }
  set (q := rnd64 (IZR (2 ^ 31) / IZR (r + 1))).
  assert (Hq : (1 <= q)%R).
  { unfold q, rnd64. change 1%R with (IZR 1). apply round_ge_generic; try typeclasses eauto.
    - apply int_format. simpl. lia.
    - apply Rmult_le_reg_r with (IZR (r + 1)); [apply IZR_lt; lia|].
      unfold Rdiv. rewrite Rmult_assoc, Rinv_l, Rmult_1_r, Rmult_1_l; [apply IZR_le; lia|].
      apply Rgt_not_eq. apply IZR_lt. lia. }
  assert (Hp : (IZR (b + 1) <= rnd64 (IZR (b + 1) * q))%R).
  { unfold rnd64. apply round_ge_generic; try typeclasses eauto.
    - apply int_format. lia.
    - rewrite <- (Rmult_1_r (IZR (b + 1))) at 1. apply Rmult_le_compat_l; [apply IZR_le; lia | exact Hq]. }
  assert (H0 : (0 <= rnd64 (IZR (b + 1) * q))%R).
  { eapply Rle_trans; [|exact Hp]. apply IZR_le. lia. }
  rewrite Ztrunc_floor by exact H0.
  assert (b + 1 <= Zfloor (rnd64 (IZR (b + 1) * q))) by (apply Zfloor_lub; exact Hp).
  lia.
Qed.

Definition N64 : Z := 2 ^ 53 - 1.

Lemma N64_pos : 1 <= N64.
Proof. unfold N64. lia. Qed.

Lemma nextj_ieee_dom : forall b k, 0 <= b < N64 -> 0 <= k < two64 -> b < nextj_ieee b k.
Proof. intros b k Hb Hk. apply nextj_ieee_gt; assumption. Qed.
