(* C04 — the correspondence check and the predicate, for one logical series
   with identical replicas and non-overlapping cuts: the model's output passes
   both. *)
From Coq Require Import ZArith List Bool NArith Lia Sorting.Sorted.
Import ListNotations.
From Verif Require Import Lib.Corr Gen.C04 Model.C04 Proofs.C04 Proofs.C04_Total Proofs.C04_Cuts Proofs.C04_Main.
Open Scope Z_scope.

Lemma samples_eqb_refl l : samples_eqb l l = true.
Proof. apply samples_eqb_iff. reflexivity. Qed.

Lemma oseries_eqb_refl o : oseries_eqb o o = true.
Proof. unfold oseries_eqb. rewrite labels_eqb_refl, samples_eqb_refl. reflexivity. Qed.

Lemma SS_strictly_sorted : forall l, SS l -> strictly_sorted l = true.
Proof.
  induction l as [|x l IH]; intros HS; [reflexivity|].
  apply SS_inv in HS as [HS HF]. cbn [strictly_sorted]. destruct l as [|y l']; [reflexivity|].
  inversion HF; subst. unfold lt_s in *. rewrite (IH HS).
  destruct (fst x <? fst y) eqn:E; [reflexivity|lia].
Qed.

Lemma flat_map_concat {A B} (f : A -> list B) l : flat_map f l = concat (map f l).
Proof. induction l; simpl; [reflexivity|]. rewrite IHl. reflexivity. Qed.

Theorem single_series_checks mint maxt s cs L :
  l_reps s <> [] -> Forall (fun r => r_samples r = L) (l_reps s) ->
  item_ok (mkItem (l_labels s) L (map r_chunks (l_reps s)) cs) ->
  nodup_samples cs = true ->
  let out := [(l_labels s, in_range mint maxt L)] in
  corr_ok (CDedup mint maxt [s] [(l_labels s, cs)] out) = true
  /\ pred_ok (CDedup mint maxt [s] [(l_labels s, cs)] out) = true.
Proof.
  intros Hne Hsame Hok Hnd out.
  pose proof Hok as (Hraw & HneL & _ & _ & Hsort & Hb1 & Hb2). cbn [i_L i_reps i_cs] in *.
  pose proof (select_identical_replicas mint maxt [mkItem (l_labels s) L (map r_chunks (l_reps s)) cs]
                (Forall_cons _ Hok (Forall_nil _)) (conj I I)) as Hsel.
  cbn [map i_lbl i_cs i_L] in Hsel.
  split.
  - cbn [corr_ok]. rewrite Hsel. unfold out. cbn [option_eqb list_eqb]. rewrite oseries_eqb_refl.
    cbn [andb]. rewrite andb_true_r.
    unfold proxy_ok_dedup. cbn [map fst nodup_labels existsb negb andb length Nat.eqb forallb].
    unfold find_series. cbn [find fst]. rewrite labels_eqb_refl. cbn [option_map snd].
    rewrite Hsort, Hnd. rewrite flat_map_concat. rewrite Hb1, Hb2. reflexivity.
  - cbn [pred_ok]. unfold out. cbn [map fst nodup_labels existsb negb andb length Nat.eqb forallb].
    unfold find_out. cbn [find fst]. rewrite labels_eqb_refl. cbn [option_map snd].
    rewrite SS_strictly_sorted by (eapply SS_sub; [apply in_range_sub|apply Hraw]).
    unfold identical. destruct (l_reps s) as [|r0 rest]; [congruence|].
    inversion Hsame as [|? ? H0 Hrest]; subst.
    assert (Hall : forallb (fun r => samples_eqb (r_samples r) (r_samples r0)) rest = true).
    { apply forallb_forall. intros r Hr. rewrite Forall_forall in Hrest. rewrite (Hrest _ Hr). apply samples_eqb_refl. }
    rewrite Hall. rewrite samples_eqb_refl. reflexivity.
Qed.
