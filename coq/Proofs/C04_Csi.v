(* C04 — the chunkSeriesIterator state machine (Model/C04_Csi.v) is a list
   iterator over the stream Model.C04.chunk_iter: Next yields its elements one
   by one, Seek(t) positions on the first remaining element with timestamp >= t
   (the current one included). Partial correctness and termination. *)
From Coq Require Import ZArith List Bool Lia Arith.
Import ListNotations.
From Verif Require Import Lib.Corr Gen.C04 Model.C04 Model.C04_Csi Proofs.C04 Proofs.C04_Cuts.
Open Scope Z_scope.
Local Opaque MinT.

(* ---------- drop_lt over chunk_iter_from ---------- *)
Lemma drop_lt_app_nonempty t A B y d : drop_lt t A = y :: d -> drop_lt t (A ++ B) = (y :: d) ++ B.
Proof.
  induction A as [|w A IH]; simpl; [discriminate|].
  destruct (fst w <? t); [exact IH|]. intros H. injection H as <- <-. reflexivity.
Qed.

Lemma drop_lt_last t : forall c x y d, drop_lt t (x :: c) = y :: d -> last_t (fst y) d = last_t (fst x) c.
Proof.
  induction c as [|z c IH]; intros x y d H; simpl in H.
  - destruct (fst x <? t); [discriminate|]. injection H as <- <-. reflexivity.
  - destruct (fst x <? t).
    + simpl. apply (IH z y d). exact H.
    + injection H as <- <-. reflexivity.
Qed.

Lemma drop_lt_nil_all t c : drop_lt t c = [] -> forall z, In z c -> fst z < t.
Proof. intros H. apply drop_lt_all_lt in H. rewrite Forall_forall in H. exact H. Qed.

(* seeking inside the stream = restarting the stream with a higher threshold *)
Lemma drop_lt_chunk_iter_from : forall cs thr t,
  thr <= t -> drop_lt t (chunk_iter_from thr cs) = chunk_iter_from t cs.
Proof.
  induction cs as [|c cs IH]; intros thr t Hle; [reflexivity|].
  cbn [chunk_iter_from].
  assert (Hdd : drop_lt t c = drop_lt t (drop_lt thr c)) by (symmetry; apply drop_lt_drop_lt; exact Hle).
  destruct (drop_lt thr c) as [|x c'] eqn:E.
  - rewrite Hdd. simpl. apply IH. exact Hle.
  - rewrite Hdd. destruct (drop_lt t (x :: c')) as [|y d] eqn:E2.
    + change (x :: c' ++ chunk_iter_from (last_t (fst x) c' + 1) cs)
        with ((x :: c') ++ chunk_iter_from (last_t (fst x) c' + 1) cs).
      rewrite drop_lt_app_all_lt by (apply drop_lt_nil_all; exact E2).
      apply IH.
      destruct (last_t_mem c' x) as (z & Hz & Ez). pose proof (drop_lt_nil_all _ _ E2 z Hz). lia.
    + change (x :: c' ++ chunk_iter_from (last_t (fst x) c' + 1) cs)
        with ((x :: c') ++ chunk_iter_from (last_t (fst x) c' + 1) cs).
      rewrite (drop_lt_app_nonempty _ _ _ _ _ E2). rewrite (drop_lt_last _ _ _ _ _ E2). reflexivity.
Qed.

(* ---------- what a state still has to deliver ---------- *)
Definition started (s : csi) : bool := MinT <? x_t (c_cur s).

Definition rem (s : csi) : list sample :=
  x_rem (c_cur s) ++ chunk_iter_from (last_t (x_t (c_cur s)) (x_rem (c_cur s)) + 1) (c_rest s).

Definition cur_sample (s : csi) : sample := (x_t (c_cur s), x_v (c_cur s)).

(* current sample (if any) followed by the rest of the stream *)
Definition all (s : csi) : list sample := if started s then cur_sample s :: rem s else rem s.

Definition above (l : list sample) : Prop := Forall (fun x => MinT < fst x) l.

Definition W (s : csi) : Prop :=
  above (x_rem (c_cur s)) /\ Forall above (c_rest s) /\ MinT <= x_t (c_cur s)
  /\ (started s = true -> c_lastVal s = true).

Lemma rem_fresh c r : above c -> rem (mkCsi (fresh c) r false) = chunk_iter_from (MinT + 1) (c :: r)
                                 /\ forall lv, rem (mkCsi (fresh c) r lv) = chunk_iter_from (MinT + 1) (c :: r).
Proof.
  intros Hc. assert (H : forall lv, rem (mkCsi (fresh c) r lv) = chunk_iter_from (MinT + 1) (c :: r)).
  { intros lv. unfold rem. simpl. destruct c as [|x c0]; [reflexivity|].
    inversion Hc; subst. cbn [chunk_iter_from drop_lt last_t].
    destruct (fst x <? MinT + 1) eqn:E; [lia|]. reflexivity. }
  split; [apply H|exact H].
Qed.

(* the initial state delivers Model.C04.chunk_iter *)
Lemma csi_new_all cs c r : map csamples cs = c :: r -> above c -> Forall above r ->
  exists s0, csi_new (map csamples cs) = Some s0 /\ W s0 /\ all s0 = chunk_iter cs.
Proof.
  intros E Hc Hr. rewrite E. eexists. split; [reflexivity|]. split.
  - repeat split; simpl; auto; try lia; try (unfold started; simpl; intros H; apply Z.ltb_lt in H; lia).
  - unfold all, started. simpl. rewrite Z.ltb_irrefl. unfold chunk_iter. rewrite E. apply rem_fresh. exact Hc.
Qed.

Definition next_spec (s s' : csi) (v : bool) : Prop :=
  match rem s with
  | [] => v = false
  | y :: r => v = true /\ cur_sample s' = y /\ rem s' = r /\ W s' /\ c_lastVal s' = true /\ started s' = true
  end.

Definition seek_spec (t : Z) (s s' : csi) (v : bool) : Prop :=
  match drop_lt t (all s) with
  | [] => v = false
  | y :: r => v = true /\ cur_sample s' = y /\ rem s' = r /\ W s' /\ c_lastVal s' = true /\ started s' = true
  end.

Lemma csi_correct : forall f,
  (forall s s' v, W s -> cnext f s = Some (s', v) -> next_spec s s' v) /\
  (forall s t s' v, W s -> MinT < t -> cseek f t s = Some (s', v) -> seek_spec t s s' v).
Proof.
  induction f as [|f [IHn IHs]]; [split; intros; simpl in *; discriminate|].
  split.
  - intros s s' v (Hrem & Hrest & Hge & Hlv) H. cbn [cnext] in H. unfold xnext in H.
    destruct s as [[xt xv xr] rest lv]. simpl in *.
    destruct xr as [|y r].
    + destruct rest as [|c rest'].
      * injection H as <- <-. unfold next_spec, rem. simpl. reflexivity.
      * inversion Hrest as [|? ? Hc Hrest']; subst.
        assert (HWf : W (mkCsi (fresh c) rest' lv)).
        { repeat split; simpl; auto; try lia; try (unfold started; simpl; intros Hs; apply Z.ltb_lt in Hs; lia). }
        pose proof (IHs _ _ _ _ HWf (ltac:(lia) : MinT < xt + 1) H) as Hsp.
        unfold seek_spec in Hsp. unfold all, started in Hsp. simpl in Hsp. rewrite Z.ltb_irrefl in Hsp.
        destruct (rem_fresh c rest' Hc) as [_ Hrf]. rewrite Hrf in Hsp.
        rewrite drop_lt_chunk_iter_from in Hsp by lia.
        unfold next_spec, rem. simpl. exact Hsp.
    + injection H as <- <-. unfold next_spec, rem. simpl.
      inversion Hrem; subst.
      assert (Hst : started (mkCsi (mkX (fst y) (snd y) r) rest true) = true)
        by (unfold started; simpl; apply Z.ltb_lt; assumption).
      split; [reflexivity|]. split; [unfold cur_sample; simpl; destruct y; reflexivity|].
      split; [reflexivity|]. split; [|split; [reflexivity|exact Hst]].
      repeat split; simpl; auto; lia.
  - intros s t s' v HW Ht H. cbn [cseek] in H.
    destruct (t <=? x_t (c_cur s)) eqn:Et.
    + injection H as <- <-. destruct HW as (Hrem & Hrest & Hge & Hlv).
      assert (Hst : started s = true) by (unfold started; apply Z.ltb_lt; lia).
      unfold seek_spec, all. rewrite Hst. simpl. unfold cur_sample at 1. simpl.
      destruct (x_t (c_cur s) <? t) eqn:E2; [lia|].
      repeat split; auto.
    + destruct (cnext f s) as [[s1 v1]|] eqn:En; [|discriminate].
      pose proof (IHn _ _ _ HW En) as Hn. unfold next_spec in Hn.
      assert (Hall : drop_lt t (all s) = drop_lt t (rem s)).
      { unfold all. destruct (started s); [|reflexivity]. simpl. unfold cur_sample. simpl.
        destruct (x_t (c_cur s) <? t) eqn:E2; [reflexivity|lia]. }
      unfold seek_spec. rewrite Hall.
      destruct (rem s) as [|y r] eqn:Er.
      * subst v1. injection H as <- <-. reflexivity.
      * destruct Hn as (-> & Hcur & Hrem1 & HW1 & Hlv1 & Hst1).
        assert (Es : mkCsi (c_cur s1) (c_rest s1) true = s1) by (destruct s1; simpl in *; congruence).
        cbv zeta in H. rewrite Es in H.
        pose proof (IHs _ _ _ _ HW1 Ht H) as Hs. unfold seek_spec in Hs.
        unfold all in Hs. rewrite Hst1, Hcur, Hrem1 in Hs. exact Hs.
Qed.

(* ---------- termination ---------- *)
Definition size (s : csi) : nat :=
  (length (x_rem (c_cur s)) + fold_right (fun c n => S (length c) + n) 0 (c_rest s))%nat.

Lemma csi_total : forall f,
  (forall s, (2 * size s + 1 <= f)%nat ->
     exists s' v, cnext f s = Some (s', v) /\ (size s' <= size s)%nat /\ (v = true -> (size s' < size s)%nat)) /\
  (forall s t, (2 * size s + 2 <= f)%nat ->
     exists s' v, cseek f t s = Some (s', v) /\ (size s' <= size s)%nat).
Proof.
  induction f as [|f [IHn IHs]]; [split; intros; lia|].
  split.
  - intros s Hf. cbn [cnext]. unfold xnext.
    destruct s as [[xt xv xr] rest lv]. unfold size in *. simpl in *.
    destruct xr as [|y r].
    + destruct rest as [|c rest'].
      * eexists; eexists. split; [reflexivity|]. simpl. split; [lia|discriminate].
      * destruct (IHs (mkCsi (fresh c) rest' lv) (xt + 1)) as (s' & v & E & Hsz).
        { unfold size. simpl in *. lia. }
        exists s', v. split; [exact E|]. unfold size in Hsz. simpl in *. split; lia.
    + eexists; eexists. split; [reflexivity|]. simpl. split; lia.
  - intros s t Hf. cbn [cseek].
    destruct (t <=? x_t (c_cur s)).
    + eexists; eexists. split; [reflexivity|]. lia.
    + destruct (IHn s) as (s1 & v1 & En & Hle & Hlt); [lia|].
      rewrite En. cbv zeta. destruct v1.
      * specialize (Hlt eq_refl).
        destruct (IHs (mkCsi (c_cur s1) (c_rest s1) true) t) as (s' & v & E & Hsz).
        { change (size (mkCsi (c_cur s1) (c_rest s1) true)) with (size s1). lia. }
        change (size (mkCsi (c_cur s1) (c_rest s1) true)) with (size s1) in Hsz.
        exists s', v. split; [exact E|]. lia.
      * eexists; eexists. split; [reflexivity|].
        change (size (mkCsi (c_cur s1) (c_rest s1) false)) with (size s1). lia.
Qed.

(* ---------- total correctness ---------- *)
Theorem csi_next_correct s :
  W s -> exists s' v, cnext (2 * size s + 1) s = Some (s', v) /\ next_spec s s' v.
Proof.
  intros HW. destruct (csi_total (2 * size s + 1)) as [Tn _].
  destruct (Tn s (le_n _)) as (s' & v & E & _). exists s', v. split; [exact E|].
  eapply (proj1 (csi_correct _)); eauto.
Qed.

Theorem csi_seek_correct s t :
  W s -> MinT < t -> exists s' v, cseek (2 * size s + 2) t s = Some (s', v) /\ seek_spec t s s' v.
Proof.
  intros HW Ht. destruct (csi_total (2 * size s + 2)) as [_ Ts].
  destruct (Ts s t (le_n _)) as (s' & v & E & _). exists s', v. split; [exact E|].
  eapply (proj2 (csi_correct _)); eauto.
Qed.
