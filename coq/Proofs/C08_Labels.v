(* C08 — the label part of the proofs (rmLabels, ExtendSortedLabels, presented label set);
   independent of any regenerated source fact, shared with C07. *)
From Coq Require Import ZArith NArith List Bool Lia.
Import ListNotations.
From Verif Require Import Lib.Corr Lib.Proxy_Order Model.C05 Model.C08.
Open Scope Z_scope.

(* (re-proved here so that C08 does not depend on the proofs of C05) *)
Lemma str_eqb_eq a b : str_eqb a b = true <-> a = b.
Proof. unfold str_eqb. apply list_eqb_spec. intros x y. apply N.eqb_eq. Qed.
Lemma str_eqb_refl a : str_eqb a a = true.
Proof. apply str_eqb_eq. reflexivity. Qed.
Lemma lfind_some_in ls n v : lfind ls n = Some v -> In (n, v) ls.
Proof.
  induction ls as [|[k w] r IH]; cbn [lfind]; [discriminate|].
  destruct (str_eqb k n) eqn:E.
  - intros H. inversion H; subst. apply str_eqb_eq in E. subst. left. reflexivity.
  - intros H. right. apply IH. exact H.
Qed.

Lemma str_cmp_eq a b : str_cmp a b = Eq <-> a = b.
Proof. apply (cmp_eq _ str_ord). Qed.

Lemma str_eqb_sym a b : str_eqb a b = str_eqb b a.
Proof.
  destruct (str_eqb a b) eqn:E1, (str_eqb b a) eqn:E2; try reflexivity.
  - apply str_eqb_eq in E1. subst. rewrite str_eqb_refl in E2. discriminate.
  - apply str_eqb_eq in E2. subst. rewrite str_eqb_refl in E1. discriminate.
Qed.

Lemma lfind_cons k v r m : lfind ((k, v) :: r) m = if str_eqb k m then Some v else lfind r m.
Proof. reflexivity. Qed.

(* Builder.Set of a non-empty value: the label has that value afterwards, every other label is untouched *)
Lemma lfind_lset n v l m : is_empty_str v = false ->
  lfind (lset n v l) m = if str_eqb n m then Some v else lfind l m.
Proof.
  intros Hv. induction l as [|[k w] r IH]; cbn [lset]; rewrite ?Hv.
  - rewrite lfind_cons. reflexivity.
  - destruct (str_cmp n k) eqn:E; rewrite ?Hv.
    + apply str_cmp_eq in E. subst k. rewrite !lfind_cons. destruct (str_eqb n m); reflexivity.
    + rewrite lfind_cons. reflexivity.
    + rewrite !lfind_cons, IH. destruct (str_eqb k m) eqn:E1; [|reflexivity].
      apply str_eqb_eq in E1. subst m. destruct (str_eqb n k) eqn:E2; [|reflexivity].
      apply str_eqb_eq in E2. subst n. rewrite (ord_refl _ str_ord) in E. discriminate.
Qed.

Definition in_drop (d : list str) (m : str) : bool := existsb (fun x => str_eqb x m) d.

Lemma lfind_rm d l m : lfind (rm d l) m = if in_drop d m then None else lfind l m.
Proof.
  induction l as [|[k w] r IH]; cbn [rm filter fst]; [destruct (in_drop d m); reflexivity|].
  fold (rm d r). destruct (existsb (str_eqb k) d) eqn:E; cbn [negb].
  - rewrite IH, lfind_cons. destruct (in_drop d m) eqn:D; [reflexivity|].
    destruct (str_eqb k m) eqn:E1; [|reflexivity]. apply str_eqb_eq in E1. subst m.
    exfalso. unfold in_drop in D. apply existsb_exists in E as [x [Hx Ex]].
    assert (existsb (fun x => str_eqb x k) d = true) as X.
    { apply existsb_exists. exists x. split; [exact Hx|]. rewrite str_eqb_sym. exact Ex. }
    congruence.
  - rewrite !lfind_cons, IH. destruct (str_eqb k m) eqn:E1; [|reflexivity].
    apply str_eqb_eq in E1. subst m. destruct (in_drop d k) eqn:D; [|reflexivity].
    exfalso. unfold in_drop in D. apply existsb_exists in D as [x [Hx Ex]].
    assert (existsb (str_eqb k) d = true) as X.
    { apply existsb_exists. exists x. split; [exact Hx|]. rewrite str_eqb_sym. exact Ex. }
    congruence.
Qed.

(* external labels as a store has them: distinct names, non-empty values *)
Definition valid_ext (ext : labels) : Prop :=
  NoDup (map fst ext) /\ forall p, In p ext -> is_empty_str (snd p) = false.

Lemma lfind_none_notin l m : lfind l m = None -> ~ In m (map fst l).
Proof.
  induction l as [|[k w] r IH]; intros H; [intros []|]. rewrite lfind_cons in H.
  destruct (str_eqb k m) eqn:E; [discriminate|]. intros [Hk|Hk].
  - cbn in Hk. subst. rewrite str_eqb_refl in E. discriminate.
  - exact (IH H Hk).
Qed.
Lemma lfind_notin l m : ~ In m (map fst l) -> lfind l m = None.
Proof.
  induction l as [|[k w] r IH]; intros H; [reflexivity|]. rewrite lfind_cons.
  destruct (str_eqb k m) eqn:E; [apply str_eqb_eq in E; subst; exfalso; apply H; left; reflexivity|].
  apply IH. intros Hin. apply H. right. exact Hin.
Qed.

Lemma lfind_fold ext : forall l m, valid_ext ext ->
  lfind (fold_left (fun acc p => lset (fst p) (snd p) acc) ext l) m
  = match lfind ext m with Some v => Some v | None => lfind l m end.
Proof.
  induction ext as [|[n v] e IH]; intros l m [Hnd Hne]; [reflexivity|]. cbn [fold_left fst snd].
  assert (He : valid_ext e).
  { split; [inversion Hnd; assumption | intros p Hp; apply Hne; right; exact Hp]. }
  rewrite IH by exact He. rewrite lfind_cons.
  rewrite lfind_lset by (apply (Hne (n, v)); left; reflexivity).
  destruct (str_eqb n m) eqn:E.
  - apply str_eqb_eq in E. subst m. rewrite lfind_notin; [reflexivity|]. inversion Hnd; assumption.
  - reflexivity.
Qed.

Lemma lfind_extend l ext m : valid_ext ext ->
  lfind (extend l ext) m = match lfind ext m with Some v => Some v | None => lfind l m end.
Proof.
  intros H. unfold extend. destruct ext as [|p e]; [reflexivity|]. apply lfind_fold. exact H.
Qed.

Lemma valid_ext_rm d ext : valid_ext ext -> valid_ext (rm d ext).
Proof.
  intros [Hnd Hne]. split.
  - clear Hne. induction ext as [|[k w] r IH]; [constructor|]. cbn [rm filter fst]. fold (rm d r).
    inversion Hnd as [|? ? Hn Hr]; subst.
    destruct (negb (existsb (str_eqb k) d)); [|apply IH; exact Hr].
    cbn [map fst]. constructor; [|apply IH; exact Hr].
    intros Hin. apply Hn. apply in_map_iff in Hin as [[k' w'] [E Hin]]. cbn in E. subst k'.
    apply filter_In in Hin as [Hin _]. apply in_map_iff. exists (k, w'). split; [reflexivity|exact Hin].
  - intros p Hp. apply filter_In in Hp as [Hp _]. apply Hne. exact Hp.
Qed.

(* the labels TSDBStore.Series presents: a dropped label is absent; otherwise the external
   label wins; otherwise the stored label is kept *)
Theorem present_spec ext drop stored m : valid_ext ext ->
  lfind (present ext drop stored) m
  = if in_drop drop m then None
    else match lfind ext m with Some v => Some v | None => lfind stored m end.
Proof.
  intros H. unfold present. rewrite lfind_extend by (apply valid_ext_rm; exact H).
  rewrite !lfind_rm. destruct (in_drop drop m); reflexivity.
Qed.

Theorem present_bucket_spec ext drop stored m : valid_ext ext ->
  lfind (present_bucket ext drop stored) m
  = if in_drop drop m then None
    else match lfind ext m with Some v => Some v | None => lfind stored m end.
Proof.
  intros H. unfold present_bucket. destruct drop as [|d0 dr].
  - rewrite lfind_extend by exact H. reflexivity.
  - rewrite lfind_rm, lfind_extend by (apply valid_ext_rm; exact H). rewrite lfind_rm.
    destruct (in_drop (d0 :: dr) m); reflexivity.
Qed.

Theorem two_orders_agree ext drop stored m : valid_ext ext ->
  lfind (present ext drop stored) m = lfind (present_bucket ext drop stored) m.
Proof.
  intros H. rewrite present_spec, present_bucket_spec by exact H. reflexivity.
Qed.

Corollary ext_override ext drop stored : valid_ext ext ->
  (forall n v, In (n, v) ext -> in_drop drop n = false -> lget (present ext drop stored) n = v)
  /\ (forall n, in_drop drop n = true -> lhas (present ext drop stored) n = false)
  /\ (forall n, in_drop drop n = false -> lhas ext n = false -> lget (present ext drop stored) n = lget stored n).
Proof.
  intros H. split; [|split].
  - intros n v Hin Hd. unfold lget. rewrite present_spec, Hd by exact H.
    destruct (lfind ext n) as [v'|] eqn:E.
    + apply lfind_some_in in E. destruct H as [Hnd _].
      assert (v' = v); [|subst; reflexivity].
      clear - Hnd E Hin. induction ext as [|[k w] r IH]; [contradiction|]. inversion Hnd as [|? ? Hn Hr]; subst.
      destruct E as [E|E], Hin as [Hin|Hin].
      * congruence.
      * inversion E; subst. exfalso. apply Hn. apply in_map_iff. exists (n, v). split; [reflexivity|exact Hin].
      * inversion Hin; subst. exfalso. apply Hn. apply in_map_iff. exists (n, v'). split; [reflexivity|exact E].
      * apply IH; assumption.
    + exfalso. apply lfind_none_notin in E. apply E. apply in_map_iff. exists (n, v). split; [reflexivity|exact Hin].
  - intros n Hd. unfold lhas. rewrite present_spec, Hd by exact H. reflexivity.
  - intros n Hd Hh. unfold lget, lhas in *. rewrite present_spec, Hd by exact H.
    destruct (lfind ext n); [discriminate|reflexivity].
Qed.


(* ---- BucketStore.Series ---- *)
Theorem bucket_series_spec blocks drop ms l :
  In l (bucket_series_labels blocks drop ms) ->
  exists ext stored sl, In (ext, stored) blocks /\ In sl stored /\ l = present_bucket ext drop sl
    /\ ext_loop mname mmatch ms ext <> None.
Proof.
  unfold bucket_series_labels. intros H. apply in_concat in H as [x [Hx Hl]].
  apply in_map_iff in Hx as [[ext stored] [E Hb]]. subst x. unfold block_series_labels in Hl. cbn [fst snd] in Hl.
  destruct (ext_loop mname mmatch ms ext) as [kept|] eqn:Ek; [|destruct Hl].
  destruct kept as [|k0 kr]; [destruct Hl|].
  apply in_map_iff in Hl as [sl [El Hs]]. apply filter_In in Hs as [Hs _].
  exists ext, stored, sl. split; [exact Hb|]. split; [exact Hs|]. split; [symmetry; exact El | rewrite Ek; discriminate].
Qed.

(* every series of a BucketStore response carries the external labels of its block that were
   not dropped (external value wins) and none of the dropped labels *)
Corollary bucket_ext_override blocks drop ms l :
  (forall b, In b blocks -> valid_ext (fst b)) ->
  In l (bucket_series_labels blocks drop ms) ->
  exists ext stored, In (ext, stored) blocks
    /\ (forall n v, In (n, v) ext -> in_drop drop n = false -> lget l n = v)
    /\ (forall n, in_drop drop n = true -> lhas l n = false).
Proof.
  intros Hv H. destruct (bucket_series_spec _ _ _ _ H) as (ext & stored & sl & Hb & Hs & El & _).
  exists ext, stored. split; [exact Hb|]. pose proof (Hv _ Hb) as Hve. cbn [fst] in Hve. subst l. split.
  - intros n v Hin Hd. unfold lget. rewrite present_bucket_spec, Hd by exact Hve.
    pose proof (two_orders_agree ext drop sl n Hve) as T. rewrite present_bucket_spec, Hd in T by exact Hve.
    destruct (ext_override ext drop sl Hve) as [O1 _]. specialize (O1 n v Hin Hd). unfold lget in O1. rewrite T in O1. exact O1.
  - intros n Hd. unfold lhas. rewrite present_bucket_spec, Hd by exact Hve. reflexivity.
Qed.
