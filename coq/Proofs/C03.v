(* C03 — instantiation of the shared proxy proofs (Lib/Proxy_Proofs.v) for the
   concrete labels / chunks of Model/C03.v. *)
From Coq Require Import ZArith NArith List Bool Lia Permutation Sorted.
Import ListNotations.
From Verif Require Import Lib.Corr Lib.Proxy_Order Lib.Proxy_Model Lib.Proxy_Proofs Lib.Proxy_LoserTree Gen.C03 Model.C03 Proofs.C03_Inst.
Open Scope Z_scope.

Lemma limit_break_off limit : limit <= 0 -> forall i, limit_break limit i = false.
Proof. intros H i. unfold limit_break. destruct (limit >? 0) eqn:E; [apply Z.gtb_lt in E; lia | reflexivity]. Qed.

Definition streams_of (lazy : bool) (wrl : list str) (scripts : list script) : list (list resp) :=
  map (resp_set lbl_cmp lazy (wrlb wrl) (rm_labels wrl)) scripts.

(* every store whose stream the proxy forwards without re-sorting sent its series sorted by labels *)
Definition inputs_sorted (lazy : bool) (wrl : list str) (scripts : list script) : Prop :=
  forall s, In s scripts -> lazy = true -> negb (ssupports s) && wrlb wrl = false ->
    StronglySorted (lle lbl_cmp) (map fst (sers (flatten_frames (sframes s)))).

Lemma streams_sorted_of lazy wrl scripts :
  (forall s, In s scripts -> send s = EEof) ->
  inputs_sorted lazy wrl scripts -> streams_sorted lbl_cmp (streams_of lazy wrl scripts).
Proof.
  intros He Hi st Hst. unfold streams_of in Hst. apply in_map_iff in Hst as [s [E Hs]]. subst st.
  apply (resp_set_sorted lbl_cmp lbl_ord). intros Hl Hf. rewrite (He s Hs), app_nil_r. apply Hi; assumption.
Qed.

(* the pipeline theorem for the concrete model, conditional on the merge emitting minimal heads *)
Theorem proxy_spec_given_merge lazy wrl limit batch scripts :
  limit <= 0 ->
  (forall s, In s scripts -> sopen_err s = None /\ send s = EEof) ->
  inputs_sorted lazy wrl scripts ->
  min_run lbl_cmp wlen (streams_of lazy wrl scripts) (lt_merge lbl_cmp wlen (streams_of lazy wrl scripts)) ->
  exists frames,
    proxy lazy wrl false limit batch scripts = Some frames
    /\ let outs := sers (unbatch frames) in
       let ins := concat (map (presented (wrlb wrl) (rm_labels wrl)) scripts) in
       StronglySorted (llt lbl_cmp) (map fst outs)
       /\ (forall X cs, In (X, cs) outs ->
             Sorted time_ord cs /\ NoDup (map ckey cs)
             /\ forall k, In k (map ckey cs) <-> exists cs', In (X, cs') ins /\ In k (map ckey cs'))
       /\ (forall X, In X (map fst outs) <-> In X (map fst ins))
       /\ Permutation (warns (unbatch frames)) (concat (map (fun s => warns (flatten_frames (sframes s))) scripts)).
Proof.
  intros Hlim Hok Hin Hrun.
  apply (pipeline_spec lbl_cmp lbl_ord ckey keqb keqb_spec cleb time_ord cleb_true cleb_false wlen
           limit_break lazy (wrlb wrl) (rm_labels wrl) limit batch scripts).
  - apply limit_break_off. exact Hlim.
  - exact Hok.
  - apply streams_sorted_of; [intros s Hs; apply Hok; exact Hs | exact Hin].
  - exact Hrun.
Qed.

(* batching never changes what the client receives *)
Lemma batch_transparent (n : nat) (l : list resp) : unbatch (send_all n true l) = l.
Proof. apply unbatch_send_all. Qed.

(* stores that cannot strip replica labels: stripping + re-sorting yields a label-sorted
   stream with the same responses *)
Lemma resort_ok wrl (l : list resp) :
  StronglySorted (lle lbl_cmp) (map fst (sers (sort_without_labels lbl_cmp (rm_labels wrl) l)))
  /\ Permutation (sort_without_labels lbl_cmp (rm_labels wrl) l) (map (rm_resp (rm_labels wrl)) l).
Proof. split; [apply (sort_without_labels_sorted lbl_cmp lbl_ord) | apply sort_without_labels_perm]. Qed.

(* the de-duplicator alone, on any label-sorted stream *)
Lemma dedup_ok (l : list resp) :
  StronglySorted (lle lbl_cmp) (map fst (sers l)) ->
  let outs := sers (dedup lbl_cmp ckey keqb cleb None l) in
  StronglySorted (llt lbl_cmp) (map fst outs)
  /\ (forall X cs, In (X, cs) outs -> cs = chained ckey keqb cleb (chunks_of lbl_cmp X (sers l)))
  /\ (forall X, In X (map fst outs) <-> In X (map fst (sers l)))
  /\ warns (dedup lbl_cmp ckey keqb cleb None l) = warns l.
Proof.
  intros Hs. cbv zeta. rewrite (dedup_sers lbl_cmp).
  destruct (group_spec lbl_cmp lbl_ord (sers l) None Hs) as [G1 [G2 G3]]. cbn [olist app] in G2, G3.
  assert (Hfst : map fst (map (chainS ckey keqb cleb) (group lbl_cmp None (sers l))) = map fst (group lbl_cmp None (sers l))).
  { rewrite map_map. apply map_ext. intros [a b]. reflexivity. }
  split; [rewrite Hfst; exact G1|]. split; [|split].
  - intros X cs HX. apply in_map_iff in HX as [[X' cs0] [E HX]]. unfold chainS in E. cbn [fst snd] in E.
    inversion E; subst. rewrite (G2 _ _ HX). reflexivity.
  - intros X. rewrite Hfst. apply G3.
  - apply dedup_warns.
Qed.

(* the unfixed de-duplication keeps an aggregated chunk once per aggregate *)
Definition dup_aggr : chunk := MkChunk 0 10 [None; Some (1, 11%N, [1%N]); Some (1, 12%N, [2%N]); None; None; None].
Lemma unfixed_keeps_duplicate :
  dedup_unfixed [] [dup_aggr; dup_aggr] = [dup_aggr; dup_aggr]
  /\ dedup_keys ckey keqb [] [dup_aggr; dup_aggr] = [dup_aggr].
Proof. split; vm_compute; reflexivity. Qed.

Lemma min_merge_sorted (ss : list (list resp)) (out : list resp) :
  min_run lbl_cmp wlen ss out -> streams_sorted lbl_cmp ss ->
  StronglySorted (lle lbl_cmp) (map fst (sers out)) /\ Permutation out (concat ss).
Proof.
  intros H Hs. split; [exact (min_run_sorted lbl_cmp lbl_ord wlen ss out H Hs) | exact (min_run_perm lbl_cmp wlen ss out H)].
Qed.

Lemma unfixed_dedup_refuted :
  exists cs, ~ NoDup (map ckey (dedup_unfixed [] cs)) /\ NoDup (map ckey (dedup_keys ckey keqb [] cs)).
Proof.
  exists [dup_aggr; dup_aggr]. destruct unfixed_keeps_duplicate as [H1 H2]. rewrite H1, H2. split.
  - intros N. inversion N as [|? ? Hn _]; subst. apply Hn. left. reflexivity.
  - repeat constructor. intros [].
Qed.

(* a positive limit passes exactly the first `limit` responses of the de-duplicated stream *)
Lemma series_loop_limit limit (l : list resp) : forall i,
  0 <= i <= limit -> 0 < limit ->
  series_loop limit_break false limit i l = (firstn (Z.to_nat (limit - i)) l, false).
Proof.
  induction l as [|x r IH]; intros i Hi Hl.
  - cbn. rewrite firstn_nil. reflexivity.
  - cbn [series_loop]. unfold limit_break at 1.
    destruct (limit >? 0) eqn:E1; [|rewrite Z.gtb_ltb in E1; apply Z.ltb_ge in E1; lia]. cbn [andb].
    destruct (i + 1 >? limit) eqn:E2.
    + rewrite Z.gtb_ltb in E2. apply Z.ltb_lt in E2. assert (limit - i = 0) as -> by lia. reflexivity.
    + rewrite Z.gtb_ltb in E2. apply Z.ltb_ge in E2.
      assert (Z.to_nat (limit - i) = S (Z.to_nat (limit - (i + 1)))) as -> by lia. cbn [firstn].
      destruct x; rewrite IH by lia; reflexivity.
Qed.

(* the array loser tree (pkg/losertree) emits a minimal head at every step, for any streams *)
Lemma losertree_min_run (ss : list (list resp)) : min_run lbl_cmp wlen ss (lt_merge lbl_cmp wlen ss).
Proof. exact (lt_merge_min_run lbl_cmp lbl_ord wlen ss). Qed.

Lemma losertree_merge (ss : list (list resp)) :
  Permutation (lt_merge lbl_cmp wlen ss) (concat ss)
  /\ (streams_sorted lbl_cmp ss -> StronglySorted (lle lbl_cmp) (map fst (sers (lt_merge lbl_cmp wlen ss)))).
Proof.
  split; [apply (min_run_perm lbl_cmp wlen); apply losertree_min_run|].
  intros Hs. apply (min_run_sorted lbl_cmp lbl_ord wlen ss); [apply losertree_min_run | exact Hs].
Qed.

Theorem proxy_spec lazy wrl limit batch scripts :
  limit <= 0 ->
  (forall s, In s scripts -> sopen_err s = None /\ send s = EEof) ->
  inputs_sorted lazy wrl scripts ->
  exists frames,
    proxy lazy wrl false limit batch scripts = Some frames
    /\ let outs := sers (unbatch frames) in
       let ins := concat (map (presented (wrlb wrl) (rm_labels wrl)) scripts) in
       StronglySorted (llt lbl_cmp) (map fst outs)
       /\ (forall X cs, In (X, cs) outs ->
             Sorted time_ord cs /\ NoDup (map ckey cs)
             /\ forall k, In k (map ckey cs) <-> exists cs', In (X, cs') ins /\ In k (map ckey cs'))
       /\ (forall X, In X (map fst outs) <-> In X (map fst ins))
       /\ Permutation (warns (unbatch frames)) (concat (map (fun s => warns (flatten_frames (sframes s))) scripts)).
Proof.
  intros Hlim Hok Hin. apply proxy_spec_given_merge; try assumption. apply losertree_min_run.
Qed.

Lemma llt_irrefl (a : labels) : ~ llt lbl_cmp a a.
Proof. unfold llt. rewrite (ord_refl _ lbl_ord). discriminate. Qed.

Lemma ssorted_ext (l1 l2 : list labels) :
  StronglySorted (llt lbl_cmp) l1 -> StronglySorted (llt lbl_cmp) l2 ->
  (forall x, In x l1 <-> In x l2) -> l1 = l2.
Proof.
  revert l2. induction l1 as [|a r1 IH]; intros l2 H1 H2 Hin.
  - destruct l2 as [|b r2]; [reflexivity|]. exfalso. apply (Hin b). left. reflexivity.
  - destruct l2 as [|b r2]; [exfalso; apply (Hin a); left; reflexivity|].
    inversion H1 as [|? ? S1 F1]; subst. inversion H2 as [|? ? S2 F2]; subst.
    rewrite Forall_forall in F1, F2.
    assert (a = b).
    { destruct (proj1 (Hin a) (or_introl eq_refl)) as [E|E]; [symmetry; exact E|].
      destruct (proj2 (Hin b) (or_introl eq_refl)) as [E2|E2]; [exact E2|].
      exfalso. pose proof (F2 _ E) as L1. pose proof (F1 _ E2) as L2. unfold llt in *.
      pose proof (cmp_lt_trans _ lbl_ord _ _ _ L1 L2) as L3. rewrite (ord_refl _ lbl_ord) in L3. discriminate. }
    subst b. f_equal. apply IH; [exact S1 | exact S2|].
    intros x. split; intros Hx.
    + destruct (proj1 (Hin x) (or_intror Hx)) as [E|E]; [|exact E]. subst x. exfalso. exact (llt_irrefl a (F1 _ Hx)).
    + destruct (proj2 (Hin x) (or_intror Hx)) as [E|E]; [|exact E]. subst x. exfalso. exact (llt_irrefl a (F2 _ Hx)).
Qed.

(* lazy or eager, any buffer size (not in the model), any batch size: the same label sets in
   the same order, each with the same set of chunk keys *)
Theorem strategy_independent lazy1 lazy2 batch1 batch2 wrl limit scripts :
  limit <= 0 ->
  (forall s, In s scripts -> sopen_err s = None /\ send s = EEof) ->
  inputs_sorted lazy1 wrl scripts -> inputs_sorted lazy2 wrl scripts ->
  exists f1 f2,
    proxy lazy1 wrl false limit batch1 scripts = Some f1 /\ proxy lazy2 wrl false limit batch2 scripts = Some f2
    /\ map fst (sers (unbatch f1)) = map fst (sers (unbatch f2))
    /\ (forall X cs1 cs2, In (X, cs1) (sers (unbatch f1)) -> In (X, cs2) (sers (unbatch f2)) ->
          forall k, In k (map ckey cs1) <-> In k (map ckey cs2)).
Proof.
  intros Hl Hok H1 H2.
  destruct (proxy_spec lazy1 wrl limit batch1 scripts Hl Hok H1) as (f1 & E1 & S1 & C1 & L1 & _).
  destruct (proxy_spec lazy2 wrl limit batch2 scripts Hl Hok H2) as (f2 & E2 & S2 & C2 & L2 & _).
  exists f1, f2. split; [exact E1|]. split; [exact E2|]. split.
  - apply ssorted_ext; [exact S1 | exact S2|]. intros X. rewrite L1, L2. tauto.
  - intros X cs1 cs2 Hc1 Hc2 k. destruct (C1 _ _ Hc1) as (_ & _ & K1). destruct (C2 _ _ Hc2) as (_ & _ & K2).
    rewrite K1, K2. tauto.
Qed.
