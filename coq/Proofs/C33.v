(* C33 — lemmas (Model/C33.v). *)
From Coq Require Import ZArith List Bool String Lia.
Import ListNotations.
From Verif Require Import Lib.Corr Gen.C33 Model.C33.

(* a failing read anywhere in the sync makes the sync fail *)
Lemma sync_error_app pre r post : read_fails r = true -> sync_error (pre ++ r :: post) = true.
Proof.
  intros H. unfold sync_error. rewrite existsb_app. simpl. rewrite H. now rewrite orb_true_r.
Qed.

Lemma no_writes_on_failed_sync {op} pre k post (work : list op) :
  iteration (pre ++ (k, Transient) :: post) work = [].
Proof. unfold iteration. now rewrite sync_error_app. Qed.

Lemma no_writes_on_bad_version {op} pre k post (work : list op) :
  iteration (pre ++ (k, BadVersion) :: post) work = [].
Proof. unfold iteration. now rewrite sync_error_app. Qed.

Definition benign (r : read) : Prop := snd r = Found \/ snd r = NotFound \/ snd r = Corrupt.

Lemma sync_ok_iff reads : sync_error reads = false <-> Forall benign reads.
Proof.
  unfold sync_error. induction reads as [|r l IH]; simpl.
  - split; auto.
  - rewrite orb_false_iff, IH. split.
    + intros [Hr Hl]. constructor; auto. unfold read_fails in Hr. unfold benign. destruct (snd r); auto; discriminate.
    + intros H. inversion H; subst. split; auto. unfold read_fails. destruct H2 as [->|[->| ->]]; reflexivity.
Qed.

Lemma complete_view_runs_work {op} reads (work : list op) :
  Forall benign reads -> iteration reads work = work.
Proof. intros H. unfold iteration. apply sync_ok_iff in H. now rewrite H. Qed.

(* a partial view is never planned: the work list is consulted only on a complete view *)
Lemma partial_view_never_planned {op} reads (work : list op) o :
  In o (iteration reads work) -> Forall benign reads /\ In o work.
Proof.
  unfold iteration. destruct (sync_error reads) eqn:E; [intros []|].
  intros H. split; auto. now apply sync_ok_iff.
Qed.

(* the predicate of the check holds of the model's iteration *)
Lemma model_pred reads n : existsb is_transient reads = true ->
  List.length (iteration reads (repeat tt n)) = 0%nat.
Proof.
  intros H. unfold iteration.
  assert (sync_error reads = true) as ->; [|reflexivity].
  unfold sync_error. apply existsb_exists in H. destruct H as (r & Hin & Hr).
  apply existsb_exists. exists r. split; auto. unfold is_transient in Hr. unfold read_fails. destruct (snd r); auto; discriminate.
Qed.

(* ---- the scanner ----------------------------------------------------------------- *)

Lemma scan_app syncs muts s a b :
  scan syncs muts s (a ++ b) = match scan syncs muts s a with Some s' => scan syncs muts s' b | None => None end.
Proof.
  revert s. induction a as [|e a IH]; intros s; simpl; auto.
  destruct (step syncs muts s e); auto.
Qed.

(* soundness of the scanner at the point of use: if the scan of an event list
   succeeds, then at every mutating call outside function literals the state
   reached says "a sync whose error was checked and returned has completed on
   this path" *)
Lemma scan_mutation_synced syncs muts pre m post s1 :
  scan syncs muts st0 (pre ++ ("call"%string, m) :: post) <> None ->
  scan syncs muts st0 pre = Some s1 -> depth s1 = 0%nat ->
  mem_str m syncs = false -> mem_str m muts = true ->
  exists l, synced s1 = Some l.
Proof.
  intros H Hpre Hd Hs Hm. rewrite scan_app, Hpre in H. simpl in H.
  unfold step in H. cbn [fst snd] in H.
  assert (E1 : opens_lit ("call"%string, m) = false) by reflexivity.
  assert (E2 : closes_lit ("call"%string, m) = false) by reflexivity.
  rewrite E1, E2, Hd in H. simpl in H. rewrite Hs, Hm in H.
  destruct (synced s1); eauto. congruence.
Qed.

Lemma order_facts : order_facts_ok = true.
Proof. vm_compute. reflexivity. Qed.
