(* C33 — lemmas (Model/C33.v). *)
From Coq Require Import ZArith List Bool String Lia.
Import ListNotations.
From Verif Require Import Lib.Corr Gen.C33 Model.C33.

(* a failing read anywhere in the sync makes the sync fail *)
Lemma sync_error_app pre r post : read_fails r = true -> sync_error (pre ++ r :: post) = true.
Proof.
  intros H. unfold sync_error. rewrite existsb_app. simpl. rewrite H. now rewrite orb_true_r.
Qed.

Lemma no_writes_on_failed_sync {op} pre k post (work : list op) :
  iteration (pre ++ (k, Transient) :: post) work = [].
Proof. unfold iteration. now rewrite sync_error_app. Qed.

Lemma no_writes_on_bad_version {op} pre k post (work : list op) :
  iteration (pre ++ (k, BadVersion) :: post) work = [].
Proof. unfold iteration. now rewrite sync_error_app. Qed.

Definition benign (r : read) : Prop := snd r = Found \/ snd r = NotFound \/ snd r = Corrupt.

Lemma sync_ok_iff reads : sync_error reads = false <-> Forall benign reads.
Proof.
  unfold sync_error. induction reads as [|r l IH]; simpl.
  - split; auto.
  - rewrite orb_false_iff, IH. split.
    + intros [Hr Hl]. constructor; auto. unfold read_fails in Hr. unfold benign. destruct (snd r); auto; discriminate.
    + intros H. inversion H; subst. split; auto. unfold read_fails. destruct H2 as [->|[->| ->]]; reflexivity.
Qed.

Lemma complete_view_runs_work {op} reads (work : list op) :
  Forall benign reads -> iteration reads work = work.
Proof. intros H. unfold iteration. apply sync_ok_iff in H. now rewrite H. Qed.

(* a partial view is never planned: the work list is consulted only on a complete view *)
Lemma partial_view_never_planned {op} reads (work : list op) o :
  In o (iteration reads work) -> Forall benign reads /\ In o work.
Proof.
  unfold iteration. destruct (sync_error reads) eqn:E; [intros []|].
  intros H. split; auto. now apply sync_ok_iff.
Qed.

(* the predicate of the check holds of the model's iteration *)
Lemma model_pred reads n : existsb is_transient reads = true ->
  List.length (iteration reads (repeat tt n)) = 0%nat.
Proof.
  intros H. unfold iteration.
  assert (sync_error reads = true) as ->; [|reflexivity].
  unfold sync_error. apply existsb_exists in H. destruct H as (r & Hin & Hr).
  apply existsb_exists. exists r. split; auto. unfold is_transient in Hr. unfold read_fails. destruct (snd r); auto; discriminate.
Qed.

(* ---- the scanner ----------------------------------------------------------------- *)

Lemma scan_app syncs muts s a b :
  scan syncs muts s (a ++ b) = match scan syncs muts s a with Some s' => scan syncs muts s' b | None => None end.
Proof.
  revert s. induction a as [|e a IH]; intros s; simpl; auto.
  destruct (step syncs muts s e); auto.
Qed.

(* soundness of the scanner at the point of use: if the scan of an event list
   succeeds, then at every mutating call outside function literals the state
   reached says "a sync whose error was checked and returned has completed on
   this path" *)
Lemma scan_mutation_synced syncs muts pre m post s1 :
  scan syncs muts st0 (pre ++ ("call"%string, m) :: post) <> None ->
  scan syncs muts st0 pre = Some s1 -> depth s1 = 0%nat ->
  mem_str m syncs = false -> mem_str m muts = true ->
  exists l, synced s1 = Some l.
Proof.
  intros H Hpre Hd Hs Hm. rewrite scan_app, Hpre in H. simpl in H.
  unfold step in H. cbn [fst snd] in H.
  assert (E1 : opens_lit ("call"%string, m) = false) by reflexivity.
  assert (E2 : closes_lit ("call"%string, m) = false) by reflexivity.
  rewrite E1, E2, Hd in H. simpl in H. rewrite Hs, Hm in H.
  destruct (synced s1); eauto. congruence.
Qed.

Lemma order_facts : order_facts_ok = true.
Proof. vm_compute. reflexivity. Qed.

(* ---- (1b) the structured sync model -------------------------------------------------- *)
Open Scope Z_scope.

Lemma existsb_map {A B} (p : B -> bool) (g : A -> B) l : existsb p (map g l) = existsb (fun x => p (g x)) l.
Proof. induction l; simpl; auto. now rewrite IHl. Qed.

Lemma existsb_filter {A} (p q : A -> bool) l : existsb p (filter q l) = existsb (fun x => q x && p x) l.
Proof. induction l as [|a l IH]; simpl; auto. destruct (q a); simpl; now rewrite IH. Qed.

Lemma existsb_ext' {A} (p q : A -> bool) l : (forall x, In x l -> p x = q x) -> existsb p l = existsb q l.
Proof. induction l as [|a l IH]; simpl; intros H; auto. rewrite (H a), IH; auto. Qed.

(* what the classification makes of a faulted read *)
Lemma meta_faulted_err f x : has_meta x = true -> meta_faulted f x = true -> meta_err f x = true.
Proof.
  intros Hm Hf. unfold meta_err, meta_result, has_meta in *. rewrite Hf. destruct (smeta x); simpl; auto; discriminate.
Qed.

Lemma loaded_not_faulted f x : loaded f x = true -> smeta x = MOk /\ meta_faulted f x = false.
Proof.
  unfold loaded, meta_result. destruct (smeta x); simpl; try discriminate.
  destruct (meta_faulted f x); simpl; [discriminate|auto].
  destruct (meta_faulted f x); simpl; discriminate.
Qed.

Lemma del_open_fault_err f x : f (RDel (sid x)) = true -> del_err f x = true.
Proof.
  intros Hf. unfold del_err, del_result, del_faulted. rewrite Hf. destruct (sdel x); reflexivity.
Qed.

Lemma del_body_fault_err f x : has_del x = true -> f (RDelBody (sid x)) = true -> del_err f x = true.
Proof.
  intros Hd Hf. unfold del_err, del_result, del_faulted, has_del in *. rewrite Hf, orb_true_r.
  destruct (sdel x); try reflexivity; discriminate.
Qed.

Lemma noc_open_fault_err f x : f (RNoc (sid x)) = true -> noc_err f x = true.
Proof.
  intros Hf. unfold noc_err, noc_result, noc_faulted. rewrite Hf. destruct (snoc x); reflexivity.
Qed.

Lemma noc_body_fault_err f x : has_noc x = true -> f (RNocBody (sid x)) = true -> noc_err f x = true.
Proof.
  intros Hd Hf. unfold noc_err, noc_result, noc_faulted, has_noc in *. rewrite Hf, orb_true_r.
  destruct (snoc x); try reflexivity; discriminate.
Qed.

(* any performed read that fails — when it is opened or in the middle of its body —
   makes SyncMetas return an error *)
Lemma sync_fails conc f b r : performed conc f b r = true -> f r = true -> sync conc f b = None.
Proof.
  intros Hp Hf. unfold sync.
  destruct (f RList) eqn:EL; auto.
  destruct (conc && existsb (fun x => f (RExists (sid x))) b) eqn:EE; auto.
  destruct (existsb (del_err f) (filter (loaded f) b)) eqn:ED; auto.
  destruct (existsb (noc_err f) (after_dedup f b)) eqn:EN; auto.
  destruct (existsb (meta_err f) b) eqn:EM; auto.
  exfalso.
  assert (HM : forall x, In x b -> has_meta x = true -> meta_faulted f x = true -> False).
  { intros x Hx Hm Hfx. assert (existsb (meta_err f) b = true); [|congruence].
    apply existsb_exists. exists x. split; auto using meta_faulted_err. }
  assert (HD : forall x, In x b -> loaded f x = true -> del_err f x = true -> False).
  { intros x Hx Hl He. assert (existsb (del_err f) (filter (loaded f) b) = true); [|congruence].
    apply existsb_exists. exists x. split; auto. apply filter_In; auto. }
  assert (HN : forall x, In x (noc_read f b) -> noc_err f x = true -> False).
  { intros x Hx He. unfold noc_read in Hx. rewrite ED in Hx.
    assert (existsb (noc_err f) (after_dedup f b) = true); [|congruence].
    apply existsb_exists. eauto. }
  destruct r as [|i|i|i|i|i|i|i]; simpl in Hp.
  - congruence.
  - apply andb_true_iff in Hp. destruct Hp as [Hc Hx]. subst conc. simpl in EE.
    apply existsb_exists in Hx. destruct Hx as (x & Hx & E). apply Z.eqb_eq in E. subst i.
    assert (existsb (fun x => f (RExists (sid x))) b = true) by (apply existsb_exists; eauto). congruence.
  - apply existsb_exists in Hp. destruct Hp as (x & Hx & E). apply andb_true_iff in E. destruct E as [E Hm].
    apply Z.eqb_eq in E. subst i. apply (HM x Hx Hm). unfold meta_faulted. now rewrite Hf.
  - apply existsb_exists in Hp. destruct Hp as (x & Hx & E). apply andb_true_iff in E. destruct E as [E Hm].
    apply Z.eqb_eq in E. subst i. apply (HM x Hx Hm). unfold meta_faulted. now rewrite Hf, orb_true_r.
  - apply existsb_exists in Hp. destruct Hp as (x & Hx & E). apply andb_true_iff in E. destruct E as [E Hl].
    apply Z.eqb_eq in E. subst i. apply (HD x Hx Hl). now apply del_open_fault_err.
  - apply existsb_exists in Hp. destruct Hp as (x & Hx & E). apply andb_true_iff in E. destruct E as [E Hd].
    apply andb_true_iff in E. destruct E as [E Hl]. apply Z.eqb_eq in E. subst i.
    apply (HD x Hx Hl). now apply del_body_fault_err.
  - apply existsb_exists in Hp. destruct Hp as (x & Hx & E). apply Z.eqb_eq in E. subst i.
    apply (HN x Hx). now apply noc_open_fault_err.
  - apply existsb_exists in Hp. destruct Hp as (x & Hx & E). apply andb_true_iff in E. destruct E as [E Hn].
    apply Z.eqb_eq in E. subst i. apply (HN x Hx). now apply noc_body_fault_err.
Qed.

Lemma iteration2_no_writes conc cleaner old f b r work :
  performed conc f b r = true -> f r = true -> iteration2 conc cleaner old f b work = [].
Proof. intros Hp Hf. unfold iteration2. now rewrite (sync_fails conc f b r Hp Hf). Qed.

(* a view is produced only when no performed read failed *)
Lemma sync_some_no_fault conc f b v r : sync conc f b = Some v -> performed conc f b r = true -> f r = false.
Proof.
  intros Hs Hp. destruct (f r) eqn:E; auto. rewrite (sync_fails conc f b r Hp E) in Hs. discriminate.
Qed.

(* ... and it lists only blocks whose meta.json was read successfully and completely and
   that the deletion-mark filter did not hide; a block whose meta.json read failed is
   never filed under "partial" *)
Lemma sync_view_sound conc f b v i : sync conc f b = Some v -> In i (v_metas v) ->
  exists x, In x b /\ sid x = i /\ smeta x = MOk /\ meta_faulted f x = false /\ del_hidden x = false.
Proof.
  unfold sync. destruct (f RList); [discriminate|].
  destruct (conc && _); [discriminate|].
  destruct (existsb (del_err f) _); [discriminate|].
  destruct (existsb (noc_err f) _); [discriminate|].
  destruct (existsb (meta_err f) b); [discriminate|].
  intros H. inversion H; subst; clear H. simpl. intros Hi.
  apply in_map_iff in Hi. destruct Hi as (x & <- & Hx).
  unfold after_dedup in Hx. apply filter_In in Hx. destruct Hx as [Hx _].
  unfold after_del in Hx. apply filter_In in Hx. destruct Hx as [Hxb Hc].
  apply andb_true_iff in Hc. destruct Hc as [Hl Hh]. destruct (loaded_not_faulted f x Hl) as [Hm Hnf].
  exists x. repeat split; auto. now apply negb_true_iff in Hh.
Qed.

Lemma partial_not_faulted conc f b v i : sync conc f b = Some v -> In i (v_partial v) ->
  exists x, In x b /\ sid x = i /\ (smeta x = MMissing \/ (smeta x = MCorrupt /\ meta_faulted f x = false)).
Proof.
  unfold sync. destruct (f RList); [discriminate|].
  destruct (conc && _); [discriminate|].
  destruct (existsb (del_err f) _); [discriminate|].
  destruct (existsb (noc_err f) _); [discriminate|].
  destruct (existsb (meta_err f) b); [discriminate|].
  intros H. inversion H; subst; clear H. simpl. intros Hi.
  apply in_map_iff in Hi. destruct Hi as (x & <- & Hx). apply filter_In in Hx. destruct Hx as [Hx Hp].
  exists x. repeat split; auto. unfold is_partial, meta_result in Hp.
  destruct (smeta x); simpl in Hp; auto; try discriminate.
  - destruct (meta_faulted f x); discriminate.
  - right. destruct (meta_faulted f x); [discriminate|auto].
Qed.

(* faults that agree on the meta and deletion-mark reads lead to the same later stages *)
Definition agree_meta (f g : faults) : Prop := forall i, f (RMeta i) = g (RMeta i) /\ f (RMetaBody i) = g (RMetaBody i).
Definition agree_del (f g : faults) : Prop := forall i, f (RDel i) = g (RDel i) /\ f (RDelBody i) = g (RDelBody i).

Lemma loaded_ext f g x : agree_meta f g -> loaded f x = loaded g x.
Proof. intros H. unfold loaded, meta_result, meta_faulted. destruct (H (sid x)) as [-> ->]. reflexivity. Qed.

Lemma after_dedup_ext f g b : agree_meta f g -> after_dedup f b = after_dedup g b.
Proof.
  intros H. unfold after_dedup, after_del.
  assert (E : filter (fun x => loaded f x && negb (del_hidden x)) b = filter (fun x => loaded g x && negb (del_hidden x)) b).
  { apply filter_ext. intros x. now rewrite (loaded_ext f g x H). }
  now rewrite E.
Qed.

Lemma noc_read_ext f g b : agree_meta f g -> agree_del f g -> noc_read f b = noc_read g b.
Proof.
  intros Hm Hd. unfold noc_read.
  assert (E1 : filter (loaded f) b = filter (loaded g) b) by (apply filter_ext; intros; now apply loaded_ext).
  assert (E2 : existsb (del_err f) (filter (loaded g) b) = existsb (del_err g) (filter (loaded g) b)).
  { apply existsb_ext'. intros x _. unfold del_err, del_result, del_faulted. destruct (Hd (sid x)) as [-> ->]. reflexivity. }
  rewrite E1, E2, (after_dedup_ext f g b Hm). reflexivity.
Qed.

Lemma rid_eqb_refl r : rid_eqb r r = true.
Proof. destruct r; simpl; auto using Z.eqb_refl. Qed.

(* every single fault position and kind of the sync: failing exactly one of the reads a
   fault-free sync performs — at the open or in the body — makes the sync fail *)
Lemma single_fault conc b r : In r (read_order conc b) -> sync conc (only r) b = None.
Proof.
  intros Hin. apply (sync_fails conc (only r) b r); [|apply rid_eqb_refl].
  assert (Am : forall r', (forall i, r' <> RMeta i) -> (forall i, r' <> RMetaBody i) -> agree_meta (only r') (fun _ => false)).
  { intros r' H1 H2 i. split; destruct r'; simpl; auto; [specialize (H1 i0)|specialize (H2 i0)];
      destruct (Z.eqb_spec i0 i); auto; subst; congruence. }
  assert (Ad : forall r', (forall i, r' <> RDel i) -> (forall i, r' <> RDelBody i) -> agree_del (only r') (fun _ => false)).
  { intros r' H1 H2 i. split; destruct r'; simpl; auto; [specialize (H1 i0)|specialize (H2 i0)];
      destruct (Z.eqb_spec i0 i); auto; subst; congruence. }
  unfold read_order in Hin. destruct Hin as [<-|Hin]; [reflexivity|].
  apply in_app_or in Hin. destruct Hin as [Hin|Hin].
  { destruct conc; [|contradiction]. apply in_map_iff in Hin. destruct Hin as (x & <- & Hx).
    simpl. apply existsb_exists. exists x. split; auto. apply Z.eqb_refl. }
  apply in_app_or in Hin. destruct Hin as [Hin|Hin].
  { apply in_map_iff in Hin. destruct Hin as (x & <- & Hx). apply filter_In in Hx. destruct Hx as [Hx Hm].
    simpl. apply existsb_exists. exists x. split; auto. now rewrite Z.eqb_refl. }
  apply in_app_or in Hin. destruct Hin as [Hin|Hin].
  { apply in_map_iff in Hin. destruct Hin as (x & <- & Hx). apply filter_In in Hx. destruct Hx as [Hx Hm].
    simpl. apply existsb_exists. exists x. split; auto. now rewrite Z.eqb_refl. }
  apply in_app_or in Hin. destruct Hin as [Hin|Hin].
  { apply in_map_iff in Hin. destruct Hin as (x & <- & Hx). apply filter_In in Hx. destruct Hx as [Hx Hl].
    simpl. apply existsb_exists. exists x. split; auto. rewrite Z.eqb_refl. simpl.
    rewrite (loaded_ext _ (fun _ => false) x); auto. apply Am; congruence. }
  apply in_app_or in Hin. destruct Hin as [Hin|Hin].
  { apply in_map_iff in Hin. destruct Hin as (x & <- & Hx). apply filter_In in Hx. destruct Hx as [Hx Hd].
    apply filter_In in Hx. destruct Hx as [Hx Hl].
    simpl. apply existsb_exists. exists x. split; auto. rewrite Z.eqb_refl, Hd. simpl.
    rewrite (loaded_ext _ (fun _ => false) x); [now rewrite Hl|]. apply Am; congruence. }
  apply in_app_or in Hin. destruct Hin as [Hin|Hin].
  { apply in_map_iff in Hin. destruct Hin as (x & <- & Hx).
    simpl. rewrite (noc_read_ext _ (fun _ => false) b); [|apply Am; congruence|apply Ad; congruence].
    apply existsb_exists. exists x. split; auto. apply Z.eqb_refl. }
  { apply in_map_iff in Hin. destruct Hin as (x & <- & Hx). apply filter_In in Hx. destruct Hx as [Hx Hn].
    simpl. rewrite (noc_read_ext _ (fun _ => false) b); [|apply Am; congruence|apply Ad; congruence].
    apply existsb_exists. exists x. split; auto. now rewrite Z.eqb_refl, Hn. }
Qed.

Lemma single_fault_no_writes conc cleaner old b r work :
  In r (read_order conc b) -> iteration2 conc cleaner old (only r) b work = [].
Proof. intros H. unfold iteration2. now rewrite (single_fault conc b r H). Qed.

(* the trace view (part 1) of the structured sync: the sync fails exactly when its
   trace contains a failing read *)
Lemma outcome_fails k r bv : read_fails (k, outcome_of r bv) = is_other r.
Proof. destruct r as [[| |]|]; simpl; auto. destruct bv; reflexivity. Qed.

Lemma sync_trace conc f b : is_none (sync conc f b) = sync_error (trace conc f b).
Proof.
  assert (EL : read_fails (KList, if f RList then Transient else Found) = f RList) by (destruct (f RList); reflexivity).
  assert (EX : existsb read_fails (@map bstate read (fun x => (KList, if f (RExists (sid x)) then Transient else if has_meta x then Found else NotFound)) b)
               = existsb (fun x => f (RExists (sid x))) b).
  { rewrite existsb_map. apply existsb_ext'. intros x _.
    destruct (f (RExists (sid x))); auto. destruct (has_meta x); auto. }
  assert (EM : existsb read_fails (@map bstate read (fun x => (KMeta, meta_outcome f x)) (filter has_meta b)) = existsb (meta_err f) b).
  { rewrite existsb_map, existsb_filter. apply existsb_ext'. intros x _. unfold meta_outcome. rewrite outcome_fails.
    unfold meta_err, meta_result, has_meta. destruct (smeta x), (meta_faulted f x); reflexivity. }
  assert (ED : existsb read_fails (@map bstate read (fun x => (KDelMark, del_outcome f x)) (filter (loaded f) b)) = existsb (del_err f) (filter (loaded f) b)).
  { rewrite existsb_map. apply existsb_ext'. intros x _. unfold del_outcome. rewrite outcome_fails.
    unfold del_err. destruct (del_result f x) as [[| |]|]; reflexivity. }
  assert (EN : existsb read_fails (@map bstate read (fun x => (KNoCompact, noc_outcome f x)) (noc_read f b)) = existsb (noc_err f) (noc_read f b)).
  { rewrite existsb_map. apply existsb_ext'. intros x _. unfold noc_outcome. rewrite outcome_fails.
    unfold noc_err. destruct (noc_result f x) as [[| |]|]; reflexivity. }
  assert (Econs : forall (a : read) l, existsb read_fails (a :: l) = read_fails a || existsb read_fails l) by reflexivity.
  unfold sync_error.
  destruct conc;
    [ change (trace true f b) with ((KList, if f RList then Transient else Found)
        :: @map bstate read (fun x => (KList, if f (RExists (sid x)) then Transient else if has_meta x then Found else NotFound)) b
        ++ @map bstate read (fun x => (KMeta, meta_outcome f x)) (filter has_meta b)
        ++ @map bstate read (fun x => (KDelMark, del_outcome f x)) (filter (loaded f) b)
        ++ @map bstate read (fun x => (KNoCompact, noc_outcome f x)) (noc_read f b))
    | change (trace false f b) with ((KList, if f RList then Transient else Found)
        :: @map bstate read (fun x => (KMeta, meta_outcome f x)) (filter has_meta b)
        ++ @map bstate read (fun x => (KDelMark, del_outcome f x)) (filter (loaded f) b)
        ++ @map bstate read (fun x => (KNoCompact, noc_outcome f x)) (noc_read f b)) ];
    rewrite Econs, ?existsb_app, EL, ?EX, EM, ED, EN; unfold sync, noc_read; cbn [andb].
  - destruct (f RList); simpl; auto.
    destruct (existsb (fun x => f (RExists (sid x))) b); simpl; auto.
    destruct (existsb (del_err f) (filter (loaded f) b)); simpl; [now rewrite orb_true_r|].
    destruct (existsb (noc_err f) (after_dedup f b)); simpl; [now rewrite orb_true_r|].
    destruct (existsb (meta_err f) b); simpl; auto.
  - destruct (f RList); simpl; auto.
    destruct (existsb (del_err f) (filter (loaded f) b)); simpl; [now rewrite orb_true_r|].
    destruct (existsb (noc_err f) (after_dedup f b)); simpl; [now rewrite orb_true_r|].
    destruct (existsb (meta_err f) b); simpl; auto.
Qed.

(* non-vacuity: without faults and without unexpected versions the sync succeeds *)
Definition well_versioned (x : bstate) : Prop :=
  smeta x <> MBadVersion /\ sdel x <> DBadVersion /\ snoc x <> NBadVersion.

Lemma sync_succeeds conc b : Forall well_versioned b -> exists v, sync conc no_faults b = Some v.
Proof.
  intros Hw. rewrite Forall_forall in Hw. unfold sync, no_faults. cbn [andb].
  assert (E1 : (conc && existsb (fun _ : bstate => false) b) = false).
  { destruct conc; simpl; auto. induction b; simpl; auto. apply IHb. intros x Hx. apply Hw. now right. }
  rewrite E1.
  assert (E2 : existsb (del_err (fun _ => false)) (filter (loaded (fun _ => false)) b) = false).
  { apply not_true_is_false. intros H. apply existsb_exists in H. destruct H as (x & Hx & He).
    apply filter_In in Hx. destruct Hx as [Hx _]. destruct (Hw x Hx) as (_ & Hd & _).
    unfold del_err, del_result, del_faulted in He. simpl in He. destruct (sdel x); try discriminate. congruence. }
  rewrite E2.
  assert (E3 : existsb (noc_err (fun _ => false)) (after_dedup (fun _ => false) b) = false).
  { apply not_true_is_false. intros H. apply existsb_exists in H. destruct H as (x & Hx & He).
    unfold after_dedup in Hx. apply filter_In in Hx. destruct Hx as [Hx _].
    unfold after_del in Hx. apply filter_In in Hx. destruct Hx as [Hx _]. destruct (Hw x Hx) as (_ & _ & Hn).
    unfold noc_err, noc_result, noc_faulted in He. simpl in He. destruct (snoc x); try discriminate. congruence. }
  rewrite E3.
  assert (E4 : existsb (meta_err (fun _ => false)) b = false).
  { apply not_true_is_false. intros H. apply existsb_exists in H. destruct H as (x & Hx & He).
    destruct (Hw x Hx) as (Hm & _ & _). unfold meta_err, meta_result, meta_faulted, has_meta in He. simpl in He.
    destruct (smeta x); try discriminate. congruence. }
  rewrite E4. eauto.
Qed.

Lemma view_is_complete conc f b v :
  sync conc f b = Some v ->
  (forall r, performed conc f b r = true -> f r = false) /\
  (forall i, In i (v_metas v) ->
     exists x, In x b /\ sid x = i /\ smeta x = MOk /\ meta_faulted f x = false /\ del_hidden x = false) /\
  (forall i, In i (v_partial v) ->
     exists x, In x b /\ sid x = i /\ (smeta x = MMissing \/ (smeta x = MCorrupt /\ meta_faulted f x = false))).
Proof.
  intros H. split; [|split].
  - intros r. exact (sync_some_no_fault conc f b v r H).
  - intros i. exact (sync_view_sound conc f b v i H).
  - intros i. exact (partial_not_faulted conc f b v i H).
Qed.
