(* C19 — lemmas. The loop-level facts are in Lib/Hashring_KetamaFacts.v. *)
From Coq Require Import ZArith List Bool Lia Arith Permutation.
Import ListNotations.
From Verif Require Import Lib.Corr Lib.Hashring_Ketama Lib.Hashring_KetamaFacts Gen.C19 Model.C19.
Close Scope Z_scope.

(* tie T: the source read on this run has the lap-without-progress exit *)
Lemma lap_check_true : lap_check = true.
Proof. vm_compute. reflexivity. Qed.

Lemma ketama_new_src_eq eps rf : ketama_new_src eps rf = ketama_new eps rf.
Proof. unfold ketama_new_src, ketama_new. rewrite lap_check_true. reflexivity. Qed.

Lemma walk_fuel_length r1 r2 rf : length r1 = length r2 -> walk_fuel r1 rf = walk_fuel r2 rf.
Proof. unfold walk_fuel. intros ->. reflexivity. Qed.

(* ---- totality ---- *)

Lemma calc_replicas_total ring rf azs fuel :
  walk_fuel ring rf <= fuel -> calc_replicas true fuel ring rf azs <> CFuel.
Proof. intro H. unfold calc_replicas. apply calc_from_total. exact H. Qed.

Lemma ketama_new_total eps rf : ketama_new eps rf <> KFuel.
Proof.
  unfold ketama_new, ketama_new_fuel. destruct (length eps <? rf); [discriminate|].
  set (ring := sort_sections (sections_of 0 eps)).
  destruct (calc_replicas true _ ring rf (az_set [] eps)) eqn:C; try discriminate.
  exfalso. eapply calc_replicas_total; [|exact C].
  rewrite (walk_fuel_length (sections_of 0 eps) ring); [lia|]. unfold ring. rewrite sort_sections_length. reflexivity.
Qed.

(* ---- a returned ring is usable ---- *)

Definition replicas_wf (n rf : nat) (reps : list nat) : Prop :=
  length reps = rf /\ NoDup reps /\ forall e, In e reps -> e < n.

Lemma ketama_new_fuel_ok check fuel eps rf ring reps :
  ketama_new_fuel check fuel eps rf = KOk ring reps ->
  ring = sort_sections (sections_of 0 eps) /\ rf <= length eps /\
  length reps = length ring /\ Forall (replicas_wf (length eps) rf) reps.
Proof.
  unfold ketama_new_fuel. destruct (length eps <? rf) eqn:E; [discriminate|]. apply Nat.ltb_ge in E.
  destruct (calc_replicas check fuel (sort_sections (sections_of 0 eps)) rf (az_set [] eps)) eqn:C; try discriminate.
  intro H. inversion H; subst ring replicas. clear H. split; [reflexivity|]. split; [exact E|].
  unfold calc_replicas in C. remember (sort_sections (sections_of 0 eps)) as r eqn:Hr.
  destruct r as [|s0 r0].
  - simpl in C. inversion C; subst. split; [reflexivity|constructor].
  - assert (Hne : s0 :: r0 <> []) by discriminate.
    destruct (calc_from_ok check _ rf (az_set [] eps) fuel _ _ (or_introl Hne) C) as [L F].
    rewrite seq_length in L. split; [exact L|].
    eapply Forall_impl; [|exact F]. intros a [H1 [H2 H3]]. split; [exact H1|]. split; [exact H2|].
    intros e He. destruct (H3 e He) as [s [Hs <-]].
    rewrite Hr in Hs. apply (proj1 (sort_sections_In _ _)) in Hs. apply sections_of_In in Hs as [B _]. lia.
Qed.

Lemma sorted_z_map_hash l : sorted_z (map s_hash l) = sorted_hash l.
Proof.
  induction l as [|a l IH]; [reflexivity|]. destruct l as [|b r]; [reflexivity|].
  change (sorted_z (map s_hash (a :: b :: r))) with ((s_hash a <=? s_hash b)%Z && sorted_z (map s_hash (b :: r))).
  rewrite IH. reflexivity.
Qed.

Lemma map_fst_combine {A B} (l : list A) : forall (r : list B), length r = length l -> map fst (combine l r) = l.
Proof. induction l; intros [|b r] H; simpl in *; try reflexivity; try discriminate. f_equal. apply IHl. lia. Qed.

Lemma map_snd_combine {A B} (l : list A) : forall (r : list B), length r = length l -> map snd (combine l r) = r.
Proof. induction l; intros [|b r] H; simpl in *; try reflexivity; try discriminate. f_equal. apply IHl. lia. Qed.

Lemma forallb_map {A B} (f : B -> bool) (g : A -> B) l : forallb f (map g l) = forallb (fun x => f (g x)) l.
Proof. induction l; simpl; [reflexivity|]. rewrite IHl. reflexivity. Qed.

Lemma forallb_snd_combine {A B} (f : B -> bool) (l : list A) : forall (r : list B),
  length r = length l -> forallb (fun x => f (snd x)) (combine l r) = forallb f r.
Proof. induction l; intros [|b r] H; simpl in *; try reflexivity; try discriminate. f_equal. apply IHl. lia. Qed.

Lemma replicas_wf_bool n rf reps : replicas_wf n rf reps ->
  (length reps =? rf) && nodup_nat reps && forallb (fun e => e <? n) reps = true.
Proof.
  intros [H1 [H2 H3]]. rewrite (proj2 (Nat.eqb_eq _ _) H1), (proj2 (nodup_nat_spec _) H2). simpl.
  apply forallb_forall. intros e He. apply Nat.ltb_lt. auto.
Qed.

Lemma usable_of_ok eps rf ring reps :
  ring = sort_sections (sections_of 0 eps) -> length reps = length ring ->
  Forall (replicas_wf (length eps) rf) reps ->
  usable eps rf (combine (map (fun s => (s_hash s, s_ep s)) ring) reps) = true.
Proof.
  intros Hr L F. unfold usable.
  assert (L' : length reps = length (map (fun s => (s_hash s, s_ep s)) ring)) by (rewrite map_length; exact L).
  rewrite combine_length, map_length, L, Nat.min_id.
  assert (Hlen : length ring = length (sections_of 0 eps)) by (rewrite Hr; apply sort_sections_length).
  rewrite Hlen, Nat.eqb_refl. simpl.
  replace (map (fun x : Z * nat * list nat => fst (fst x)) (combine (map (fun s => (s_hash s, s_ep s)) ring) reps))
    with (map s_hash ring).
  2:{ rewrite <- (map_map fst (fun p : Z * nat => fst p)), (map_fst_combine _ _ L'), map_map. reflexivity. }
  assert (Hs : sorted_hash ring = true) by (rewrite Hr; apply sort_sections_sorted).
  rewrite sorted_z_map_hash, Hs. simpl.
  rewrite (forallb_snd_combine (fun r => (length r =? rf) && nodup_nat r && forallb (fun e => e <? length eps) r) _ _ L').
  apply forallb_forall. intros r Hin. rewrite Forall_forall in F. apply replicas_wf_bool. auto.
Qed.

(* ---- an error (with enough endpoints) is reported only where the original loop spins ---- *)

Lemma ketama_err_original_diverges eps rf :
  rf <= length eps -> ketama_new eps rf = KErr ->
  forall fuel, ketama_new_fuel false fuel eps rf = KFuel.
Proof.
  intros Hle H fuel. unfold ketama_new, ketama_new_fuel in *.
  assert (E : (length eps <? rf) = false) by (apply Nat.ltb_ge; exact Hle). rewrite E in *.
  set (ring := sort_sections (sections_of 0 eps)) in *.
  destruct (calc_replicas true _ ring rf (az_set [] eps)) eqn:C; try discriminate.
  unfold calc_replicas in *.
  assert (Hne : ring <> []). { intro X. rewrite X in C. simpl in C. discriminate. }
  rewrite (calc_err_diverges ring rf _ Hne _ _ C fuel). reflexivity.
Qed.

(* ---- without zones (or with a single zone) the constructor always succeeds ---- *)

Lemma all_or_ex {A} (f : A -> bool) l :
  (forall x, In x l -> f x = true) \/ exists x, In x l /\ f x = false.
Proof.
  induction l as [|a l [IH|[x [Hx Fx]]]].
  - left. intros x [].
  - destruct (f a) eqn:E; [left|right; exists a; split; [now left|exact E]].
    intros x [<-|Hx]; auto.
  - right. exists x. split; [now right|exact Fx].
Qed.

Lemma single_zone_ok eps rf :
  length (az_set [] eps) <= 1 -> rf <= length eps -> Forall (fun e => snd e <> []) eps ->
  exists ring reps, ketama_new eps rf = KOk ring reps.
Proof.
  intros Hz Hrf Hsec.
  pose proof (ketama_new_total eps rf) as Htot. unfold ketama_new, ketama_new_fuel in *.
  assert (E : (length eps <? rf) = false) by (apply Nat.ltb_ge; exact Hrf). rewrite E in *.
  set (ring := sort_sections (sections_of 0 eps)) in *.
  set (azs := az_set [] eps) in *. set (fuel := walk_fuel (sections_of 0 eps) rf) in *.
  destruct (calc_replicas true fuel ring rf azs) eqn:C; [eauto|exfalso|congruence].
  (* all sections lie in one zone a *)
  destruct azs as [|a [|b azs']] eqn:Ea; [| |simpl in Hz; lia].
  { (* no zone at all: no endpoints, empty ring *)
    destruct eps as [|[az hs] r].
    - unfold calc_replicas in C. simpl in C. discriminate.
    - assert (In az (az_set [] ((az, hs) :: r))) by (apply az_set_spec; right; exists hs; now left).
      fold azs in H. rewrite Ea in H. contradiction. }
  assert (Haz : forall s, In s ring -> s_az s = a).
  { intros s Hs. apply (proj1 (sort_sections_In _ _)) in Hs. apply sections_of_In in Hs as [_ [hs [Hn _]]].
    apply nth_error_In in Hn.
    assert (In (s_az s) (az_set [] eps)) by (apply az_set_spec; right; eauto).
    fold azs in H. rewrite Ea in H. destruct H as [H|[]]. auto. }
  assert (Hall : forall k, k < length eps -> exists s, In s ring /\ s_ep s = k).
  { intros k Hk. destruct (nth_error eps k) as [[az hs]|] eqn:N; [|apply nth_error_None in N; lia].
    assert (hs <> []). { rewrite Forall_forall in Hsec. apply (Hsec (az, hs)). eapply nth_error_In; eauto. }
    destruct (sections_of_has eps 0 k az hs N H) as [s [Hin [He _]]].
    exists s. split; [apply sort_sections_In; exact Hin|exact He]. }
  set (P := fun (reps : list nat) (sp : spread) => NoDup reps /\ exists c, sp = [(a, c)]).
  assert (Hstuck : forall fuel i, walk true fuel ring rf i 0 [] (spread_init [a]) <> Stuck).
  { intros f i. apply (walk_not_stuck ring rf P).
    - intros reps sp s [Hnd [c ->]] Hin R. split.
      + apply NoDup_snoc; [exact Hnd|]. eapply rejects_false_notin; eauto.
      + exists (c + 1)%Z. simpl. rewrite (Haz s Hin), Z.eqb_refl. reflexivity.
    - intros reps sp [Hnd [c ->]] Hlt.
      destruct (all_or_ex (rejects reps [(a, c)]) ring) as [Hrej|[s' [Hin' Hf']]]; [|eauto].
      (* every section rejected: then every endpoint is already a replica *)
      exfalso.
      assert (Hincl : incl (seq 0 (length eps)) reps).
      { intros k Hk. apply in_seq in Hk. destruct (Hall k) as [s1 [Hin1 <-]]; [lia|].
        specialize (Hrej s1 Hin1). unfold rejects in Hrej. simpl in Hrej.
        rewrite orb_false_r in Hrej. apply existsb_nat_In in Hrej. exact Hrej. }
      apply NoDup_incl_length in Hincl; [|apply seq_NoDup]. rewrite seq_length in Hincl. lia.
    - apply lap_inv_zero.
    - split; [constructor|]. exists 0%Z. reflexivity. }
  unfold calc_replicas in C. apply calc_err_stuck in C as [i [_ W]]. exact (Hstuck _ _ W).
Qed.

(* ---- the observed unbalanced layout (corpus/C19/unbalanced-a1-b3-rf4.json):
   zones A:{a1}, B:{b1,b2,b3}, one section per node, real xxhash values ---- *)
Definition eps_unbalanced : list (Z * list Z) :=
  [(0, [17435437932079402853]); (1, [17927577647030366782]);
   (1, [2009852540237172958]); (1, [10848447329640431025])]%Z.

Lemma unbalanced_err : ketama_new eps_unbalanced 4 = KErr.
Proof. vm_compute. reflexivity. Qed.

(* ---- statements in terms of the constructor as read from the source ---- *)

Lemma src_total eps rf :
  ketama_new_src eps rf = KErr \/
  exists ring reps, ketama_new_src eps rf = KOk ring reps /\
    pred_ok (CKetama false eps rf (OOk (combine (map (fun s => (s_hash s, s_ep s)) ring) reps))) = true.
Proof.
  rewrite ketama_new_src_eq.
  destruct (ketama_new eps rf) as [ring reps| |] eqn:E.
  - right. exists ring, reps. split; [reflexivity|].
    destruct (ketama_new_fuel_ok _ _ _ _ _ _ E) as [Hr [_ [L F]]].
    exact (usable_of_ok eps rf ring reps Hr L F).
  - now left.
  - exfalso. exact (ketama_new_total eps rf E).
Qed.

Lemma src_ring_usable eps rf ring reps :
  ketama_new_src eps rf = KOk ring reps ->
  ring = sort_sections (sections_of 0 eps) /\ rf <= length eps /\
  length reps = length ring /\
  Forall (fun r => length r = rf /\ NoDup r /\ forall e, In e r -> e < length eps) reps.
Proof. intro H. rewrite ketama_new_src_eq in H. exact (ketama_new_fuel_ok _ _ _ _ _ _ H). Qed.

Lemma src_error_only_where_original_spins eps rf :
  rf <= length eps -> ketama_new_src eps rf = KErr ->
  forall fuel, ketama_new_fuel false fuel eps rf = KFuel.
Proof. intros H E. rewrite ketama_new_src_eq in E. exact (ketama_err_original_diverges eps rf H E). Qed.

Lemma src_unbalanced_layout :
  ketama_new_src eps_unbalanced 4 = KErr /\
  forall fuel, ketama_new_fuel false fuel eps_unbalanced 4 = KFuel.
Proof.
  split; [rewrite ketama_new_src_eq; exact unbalanced_err|].
  apply ketama_err_original_diverges; [vm_compute; repeat constructor|exact unbalanced_err].
Qed.

Lemma src_single_zone eps rf :
  length (az_set [] eps) <= 1 -> rf <= length eps -> Forall (fun e => snd e <> []) eps ->
  exists ring reps, ketama_new_src eps rf = KOk ring reps.
Proof. intros H1 H2 H3. rewrite ketama_new_src_eq. exact (single_zone_ok eps rf H1 H2 H3). Qed.

Lemma repair_conservative ring rf fuel0 fuel i sp out :
  walk true fuel0 ring rf i 0 [] sp = Done out ->
  walk false fuel ring rf i 0 [] sp = Done out \/ walk false fuel ring rf i 0 [] sp = OutOfFuel.
Proof. intros. eapply walk_done_agree; eauto. Qed.

Lemma walk_terminates ring rf azs i :
  walk true (walk_fuel ring rf) ring rf i 0 [] (spread_init azs) <> OutOfFuel.
Proof. apply walk_fuel_suffices. Qed.
