(* C19 — lemmas. The loop-level facts are in Lib/Hashring_KetamaFacts.v. *)
From Coq Require Import ZArith List Bool Lia Arith Permutation.
Import ListNotations.
From Verif Require Import Lib.Corr Lib.Hashring_Ketama Lib.Hashring_KetamaFacts Gen.C19 Model.C19.
From Verif Require Export Lib.Hashring_Build.
Close Scope Z_scope.

(* tie T: the source read on this run has the lap-without-progress exit *)
Lemma lap_check_true : lap_check = true.
Proof. vm_compute. reflexivity. Qed.

Lemma ketama_new_src_eq eps rf : ketama_new_src eps rf = ketama_new eps rf.
Proof. unfold ketama_new_src, ketama_new. rewrite lap_check_true. reflexivity. Qed.

Lemma sorted_z_map_hash l : sorted_z (map s_hash l) = sorted_hash l.
Proof.
  induction l as [|a l IH]; [reflexivity|]. destruct l as [|b r]; [reflexivity|].
  change (sorted_z (map s_hash (a :: b :: r))) with ((s_hash a <=? s_hash b)%Z && sorted_z (map s_hash (b :: r))).
  rewrite IH. reflexivity.
Qed.

Lemma map_fst_combine {A B} (l : list A) : forall (r : list B), length r = length l -> map fst (combine l r) = l.
Proof. induction l; intros [|b r] H; simpl in *; try reflexivity; try discriminate. f_equal. apply IHl. lia. Qed.

Lemma map_snd_combine {A B} (l : list A) : forall (r : list B), length r = length l -> map snd (combine l r) = r.
Proof. induction l; intros [|b r] H; simpl in *; try reflexivity; try discriminate. f_equal. apply IHl. lia. Qed.

Lemma forallb_map {A B} (f : B -> bool) (g : A -> B) l : forallb f (map g l) = forallb (fun x => f (g x)) l.
Proof. induction l; simpl; [reflexivity|]. rewrite IHl. reflexivity. Qed.

Lemma forallb_snd_combine {A B} (f : B -> bool) (l : list A) : forall (r : list B),
  length r = length l -> forallb (fun x => f (snd x)) (combine l r) = forallb f r.
Proof. induction l; intros [|b r] H; simpl in *; try reflexivity; try discriminate. f_equal. apply IHl. lia. Qed.

Lemma replicas_wf_bool n rf reps : replicas_wf n rf reps ->
  (length reps =? rf) && nodup_nat reps && forallb (fun e => e <? n) reps = true.
Proof.
  intros [H1 [H2 H3]]. rewrite (proj2 (Nat.eqb_eq _ _) H1), (proj2 (nodup_nat_spec _) H2). simpl.
  apply forallb_forall. intros e He. apply Nat.ltb_lt. auto.
Qed.

Lemma usable_of_ok eps rf ring reps :
  ring = sort_sections (sections_of 0 eps) -> length reps = length ring ->
  Forall (replicas_wf (length eps) rf) reps ->
  usable eps rf (combine (map (fun s => (s_hash s, s_ep s)) ring) reps) = true.
Proof.
  intros Hr L F. unfold usable.
  assert (L' : length reps = length (map (fun s => (s_hash s, s_ep s)) ring)) by (rewrite map_length; exact L).
  rewrite combine_length, map_length, L, Nat.min_id.
  assert (Hlen : length ring = length (sections_of 0 eps)) by (rewrite Hr; apply sort_sections_length).
  rewrite Hlen, Nat.eqb_refl. simpl.
  replace (map (fun x : Z * nat * list nat => fst (fst x)) (combine (map (fun s => (s_hash s, s_ep s)) ring) reps))
    with (map s_hash ring).
  2:{ rewrite <- (map_map fst (fun p : Z * nat => fst p)), (map_fst_combine _ _ L'), map_map. reflexivity. }
  assert (Hs : sorted_hash ring = true) by (rewrite Hr; apply sort_sections_sorted).
  rewrite sorted_z_map_hash, Hs. simpl.
  rewrite (forallb_snd_combine (fun r => (length r =? rf) && nodup_nat r && forallb (fun e => e <? length eps) r) _ _ L').
  apply forallb_forall. intros r Hin. rewrite Forall_forall in F. apply replicas_wf_bool. auto.
Qed.

(* ---- the observed unbalanced layout (corpus/C19/unbalanced-a1-b3-rf4.json):
   zones A:{a1}, B:{b1,b2,b3}, one section per node, real xxhash values ---- *)
Definition eps_unbalanced : list (Z * list Z) :=
  [(0, [17435437932079402853]); (1, [17927577647030366782]);
   (1, [2009852540237172958]); (1, [10848447329640431025])]%Z.

Lemma unbalanced_err : ketama_new eps_unbalanced 4 = KErr.
Proof. vm_compute. reflexivity. Qed.

(* ---- statements in terms of the constructor as read from the source ---- *)

Lemma src_total eps rf :
  ketama_new_src eps rf = KErr \/
  exists ring reps, ketama_new_src eps rf = KOk ring reps /\
    pred_ok (CKetama false eps rf (OOk (combine (map (fun s => (s_hash s, s_ep s)) ring) reps))) = true.
Proof.
  rewrite ketama_new_src_eq.
  destruct (ketama_new eps rf) as [ring reps| |] eqn:E.
  - right. exists ring, reps. split; [reflexivity|].
    destruct (ketama_new_fuel_ok _ _ _ _ _ _ E) as [Hr [_ [L F]]].
    exact (usable_of_ok eps rf ring reps Hr L F).
  - now left.
  - exfalso. exact (ketama_new_total eps rf E).
Qed.

Lemma src_ring_usable eps rf ring reps :
  ketama_new_src eps rf = KOk ring reps ->
  ring = sort_sections (sections_of 0 eps) /\ rf <= length eps /\
  length reps = length ring /\
  Forall (fun r => length r = rf /\ NoDup r /\ forall e, In e r -> e < length eps) reps.
Proof. intro H. rewrite ketama_new_src_eq in H. exact (ketama_new_fuel_ok _ _ _ _ _ _ H). Qed.

Lemma src_error_only_where_original_spins eps rf :
  rf <= length eps -> ketama_new_src eps rf = KErr ->
  forall fuel, ketama_new_fuel false fuel eps rf = KFuel.
Proof. intros H E. rewrite ketama_new_src_eq in E. exact (ketama_err_original_diverges eps rf H E). Qed.

Lemma src_unbalanced_layout :
  ketama_new_src eps_unbalanced 4 = KErr /\
  forall fuel, ketama_new_fuel false fuel eps_unbalanced 4 = KFuel.
Proof.
  split; [rewrite ketama_new_src_eq; exact unbalanced_err|].
  apply ketama_err_original_diverges; [vm_compute; repeat constructor|exact unbalanced_err].
Qed.

Lemma src_single_zone eps rf :
  length (az_set [] eps) <= 1 -> rf <= length eps -> Forall (fun e => snd e <> []) eps ->
  exists ring reps, ketama_new_src eps rf = KOk ring reps.
Proof. intros H1 H2 H3. rewrite ketama_new_src_eq. exact (single_zone_ok eps rf H1 H2 H3). Qed.

Lemma repair_conservative ring rf fuel0 fuel i sp out :
  walk true fuel0 ring rf i 0 [] sp = Done out ->
  walk false fuel ring rf i 0 [] sp = Done out \/ walk false fuel ring rf i 0 [] sp = OutOfFuel.
Proof. intros. eapply walk_done_agree; eauto. Qed.

Lemma walk_terminates ring rf azs i :
  walk true (walk_fuel ring rf) ring rf i 0 [] (spread_init azs) <> OutOfFuel.
Proof. apply walk_fuel_suffices. Qed.
