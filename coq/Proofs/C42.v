(* C42 — proofs about Model/C42.v: extraction and merging of exact pieces are exact. *)
From Coq Require Import ZArith List Bool Lia.
Import ListNotations.
From Verif Require Import Lib.Corr Gen.C41 Model.C41 Gen.C42 Model.C42.
Open Scope Z_scope.

(* ---- evaluation over an explicit list of timestamps ---- *)

Definition samples_on (f : downstream) (s : Z) (ts : list Z) : samples :=
  flat_map (fun t => match f s t with Some v => [(t, v)] | None => [] end) ts.

Definition eval_on (f : downstream) (sids : list Z) (ts : list Z) : matrix :=
  flat_map (fun s => nonempty_stream s (samples_on f s ts)) sids.

Lemma eval_eval_on f sids a b st : eval f sids a b st = eval_on f sids (steps a b st).
Proof. reflexivity. Qed.

(* strictly increasing lists *)
Fixpoint incr (l : list Z) : Prop :=
  match l with
  | [] => True
  | x :: l' => (forall y, In y l' -> x < y) /\ incr l'
  end.

Lemma samples_on_app f s l1 l2 : samples_on f s (l1 ++ l2) = samples_on f s l1 ++ samples_on f s l2.
Proof. unfold samples_on. apply flat_map_app. Qed.

Lemma samples_on_in f s ts t v : In (t, v) (samples_on f s ts) -> In t ts /\ f s t = Some v.
Proof.
  unfold samples_on. intro H. apply in_flat_map in H as (x & Hx & H).
  destruct (f s x) eqn:E; [|contradiction]. destruct H as [H|[]]. inversion H; subst. auto.
Qed.

Lemma samples_on_fst_in f s ts t : In t (map fst (samples_on f s ts)) -> In t ts.
Proof.
  intro H. apply in_map_iff in H as ([t' v] & E & H). cbn in E. subst.
  apply samples_on_in in H. tauto.
Qed.

Lemma samples_on_incr f s ts : incr ts -> incr (map fst (samples_on f s ts)).
Proof.
  induction ts as [|t ts IH]; cbn; [auto|]. intros [H1 H2].
  change (samples_on f s (t :: ts)) with ((match f s t with Some v => [(t, v)] | None => [] end) ++ samples_on f s ts).
  destruct (f s t); cbn; [|auto]. split; [|auto].
  intros y Hy. apply H1. eapply samples_on_fst_in; eauto.
Qed.

Lemma samples_on_filter f s p ts :
  filter (fun q => p (fst q)) (samples_on f s ts) = samples_on f s (filter p ts).
Proof.
  induction ts as [|t ts IH]; [reflexivity|].
  change (samples_on f s (t :: ts)) with ((match f s t with Some v => [(t, v)] | None => [] end) ++ samples_on f s ts).
  rewrite filter_app, IH. cbn [filter]. destruct (f s t) eqn:E; cbn [filter fst].
  - destruct (p t); cbn; [|reflexivity].
    change (samples_on f s (t :: filter p ts)) with ((match f s t with Some v => [(t, v)] | None => [] end) ++ samples_on f s (filter p ts)).
    rewrite E. reflexivity.
  - destruct (p t); cbn; [|reflexivity].
    change (samples_on f s (t :: filter p ts)) with ((match f s t with Some v => [(t, v)] | None => [] end) ++ samples_on f s (filter p ts)).
    rewrite E. reflexivity.
Qed.

(* two selections of timestamps that differ only where the series is absent give the same samples *)
Lemma samples_on_filter_ext f s p q ts :
  (forall t, In t ts -> p t <> q t -> f s t = None) ->
  samples_on f s (filter p ts) = samples_on f s (filter q ts).
Proof.
  induction ts as [|t ts IH]; intro H; [reflexivity|]. cbn [filter].
  assert (IH' : samples_on f s (filter p ts) = samples_on f s (filter q ts)) by (apply IH; intros; apply H; [right|]; auto).
  destruct (p t) eqn:P, (q t) eqn:Q.
  - change (samples_on f s (t :: ?l)) with ((match f s t with Some v => [(t, v)] | None => [] end) ++ samples_on f s l).
    unfold samples_on in *. cbn [flat_map]. rewrite IH'. reflexivity.
  - assert (N : f s t = None) by (apply H; [left; auto | congruence]).
    unfold samples_on in *. cbn [flat_map]. rewrite N. exact IH'.
  - assert (N : f s t = None) by (apply H; [left; auto | congruence]).
    unfold samples_on in *. cbn [flat_map]. rewrite N. exact IH'.
  - exact IH'.
Qed.

(* ---- extraction ---- *)

Lemma extract_stream_on f s a b m ts :
  extract_stream a b m (samples_on f s ts) = samples_on f s (filter (isTimestampAtStep a b m) ts).
Proof. unfold extract_stream. apply (samples_on_filter f s (isTimestampAtStep a b m)). Qed.

Lemma extract_eval_on f a b m ts : forall sids,
  extract a b m (eval_on f sids ts) = eval_on f sids (filter (isTimestampAtStep a b m) ts).
Proof.
  induction sids as [|s sids IH]; [reflexivity|].
  unfold eval_on in *. cbn [flat_map]. unfold extract in *. rewrite flat_map_app, IH. f_equal.
  rewrite <- extract_stream_on.
  destruct (samples_on f s ts) as [|p l]; [reflexivity|].
  cbn [nonempty_stream flat_map fst snd]. apply app_nil_r.
Qed.

(* ---- merging two sample lists ---- *)

Lemma filter_all {A} (p : A -> bool) l : (forall x, In x l -> p x = true) -> filter p l = l.
Proof.
  induction l as [|x l IH]; intro H; [reflexivity|]. cbn. rewrite (H x) by (left; auto).
  f_equal. apply IH. intros; apply H; right; auto.
Qed.

Lemma filter_none {A} (p : A -> bool) l : (forall x, In x l -> p x = false) -> filter p l = [].
Proof.
  induction l as [|x l IH]; intro H; [reflexivity|]. cbn. rewrite (H x) by (left; auto).
  apply IH. intros; apply H; right; auto.
Qed.

Lemma last_ts_ge : forall (l : samples) d, incr (d :: map fst l) ->
  d <= last_ts l d /\ forall p, In p l -> fst p <= last_ts l d.
Proof.
  induction l as [|[t v] l IH]; intros d H; cbn.
  - split; [lia|intros ? []].
  - cbn in H. destruct H as [H1 [H2 H3]].
    destruct (IH t) as [A B]; [cbn; auto|].
    assert (d < t) by (apply H1; left; auto).
    split; [lia|]. intros p [<-|Hp]; cbn; [lia | auto].
Qed.

Lemma last_ts_in : forall (l : samples) d, last_ts l d = d \/ In (last_ts l d) (map fst l).
Proof.
  induction l as [|[t v] l IH]; intros d; cbn; [auto|].
  destruct (IH t) as [E|E]; [right; left; auto | right; right; auto].
Qed.

(* T fact: both sort.Search predicates are `> minTs` *)
Lemma slice_strict : slice_keeps_equal = false.
Proof. reflexivity. Qed.

Lemma drop_le_filter : forall (l : samples) m, incr (map fst l) ->
  drop_le l m = filter (fun p => m <? fst p) l.
Proof.
  induction l as [|[t v] l IH]; intros m H; [reflexivity|]. cbn in H. destruct H as [H1 H2].
  cbn [drop_le filter fst]. rewrite slice_strict. cbv iota. destruct (t <=? m) eqn:E.
  - assert (E' : (m <? t) = false) by lia. rewrite E'. auto.
  - assert (E' : (m <? t) = true) by lia. rewrite E'. f_equal. symmetry. apply filter_all.
    intros [t' v'] Hp. cbn. assert (t < t') by (apply H1; apply in_map_iff; exists (t', v'); auto). lia.
Qed.

Lemma slice_samples_filter (l : samples) m : incr (map fst l) ->
  slice_samples l m = filter (fun p => m <? fst p) l.
Proof.
  intro H. destruct l as [|[t0 v0] l]; [reflexivity|]. unfold slice_samples.
  pose proof (last_ts_ge ((t0, v0) :: l) t0) as L. cbn [last_ts] in *.
  destruct (m <? t0) eqn:E1.
  - symmetry. apply filter_all. intros [t v] [Hp|Hp]; cbn.
    + inversion Hp; subst. exact E1.
    + cbn in H. destruct H as [H1 _]. assert (t0 < t) by (apply H1; apply in_map_iff; exists (t, v); auto). lia.
  - destruct (m >? last_ts l t0) eqn:E2.
    + symmetry. apply filter_none. intros p Hp.
      destruct (last_ts_ge l t0) as [A B]; [exact H|].
      destruct Hp as [<-|Hp]; cbn [fst]; [exact E1|]. specialize (B p Hp).
      apply Z.ltb_ge. apply Z.gtb_lt in E2. lia.
    + apply drop_le_filter. exact H.
Qed.

(* merging sorted sample lists: keep everything already there, then whatever is strictly later *)
Lemma merge_stream_sorted (ex new : samples) :
  incr (map fst ex) -> incr (map fst new) ->
  merge_stream ex new =
  match ex with
  | [] => new
  | (te, _) :: _ => ex ++ filter (fun p => last_ts ex te <? fst p) new
  end.
Proof.
  intros Hex Hnew. destruct ex as [|[te ve] ex]; [reflexivity|].
  destruct new as [|[t0 v0] new]; [reflexivity|].
  cbn [merge_stream]. remember (last_ts ((te, ve) :: ex) te) as e eqn:He.
  destruct (e =? t0) eqn:E1.
  - f_equal. cbn [filter fst]. assert (X : (e <? t0) = false) by lia. rewrite X.
    symmetry. apply filter_all. intros [t v] Hp. cbn. cbn in Hnew. destruct Hnew as [H1 _].
    assert (t0 < t) by (apply H1; apply in_map_iff; exists (t, v); auto). lia.
  - destruct (e >? t0) eqn:E2.
    + f_equal. apply slice_samples_filter. exact Hnew.
    + f_equal. symmetry. apply filter_all. intros [t v] Hp. cbn.
      destruct Hp as [Hp|Hp].
      * inversion Hp; subst. lia.
      * cbn in Hnew. destruct Hnew as [H1 _].
        assert (t0 < t) by (apply H1; apply in_map_iff; exists (t, v); auto). lia.
Qed.

(* the timestamps covered after merging piece 2 into piece 1 *)
Fixpoint last_z (l : list Z) (d : Z) : Z := match l with [] => d | x :: l' => last_z l' x end.

Definition union_ts (ts1 ts2 : list Z) : list Z :=
  match ts1 with
  | [] => ts2
  | t :: _ => ts1 ++ filter (fun x => last_z ts1 t <? x) ts2
  end.

(* every timestamp of piece 2 that is not after the end of piece 1 is also a timestamp of piece 1 *)
Definition compat (ts1 ts2 : list Z) : Prop :=
  match ts1 with
  | [] => True
  | t :: _ => forall x, In x ts2 -> x <= last_z ts1 t -> In x ts1
  end.

Lemma last_z_ge : forall l d, incr (d :: l) -> d <= last_z l d /\ forall x, In x l -> x <= last_z l d.
Proof.
  induction l as [|t l IH]; intros d H; cbn; [split; [lia|intros ? []]|].
  cbn in H. destruct H as [H1 [H2 H3]]. destruct (IH t) as [A B]; [cbn; auto|].
  assert (d < t) by (apply H1; left; auto). split; [lia|]. intros x [<-|Hx]; [lia|auto].
Qed.

Theorem merge_stream_exact f s ts1 ts2 :
  incr ts1 -> incr ts2 -> compat ts1 ts2 ->
  merge_stream (samples_on f s ts1) (samples_on f s ts2) = samples_on f s (union_ts ts1 ts2).
Proof.
  intros I1 I2 C.
  rewrite merge_stream_sorted by (apply samples_on_incr; assumption).
  destruct ts1 as [|t1 ts1]; [reflexivity|]. cbn [union_ts compat] in *.
  set (T1 := t1 :: ts1) in *. set (L := last_z T1 t1) in *.
  assert (HL : forall x, In x T1 -> x <= L).
  { intros x [<-|Hx]; unfold L, T1; cbn [last_z]; destruct (last_z_ge ts1 t1) as [A B]; try exact I1; [lia|auto]. }
  destruct (samples_on f s T1) as [|[te ve] ex] eqn:E.
  - (* no sample in piece 1 *)
    rewrite samples_on_app, E. cbn [app].
    rewrite <- (filter_all (fun _ => true) ts2) at 1 by auto.
    apply samples_on_filter_ext. intros t Ht Hne.
    destruct (L <? t) eqn:Q; [congruence|].
    assert (In t T1) by (apply C; [auto|lia]).
    destruct (f s t) eqn:F; [|reflexivity]. exfalso.
    assert (K : In (t, z) (samples_on f s T1)).
    { unfold samples_on. apply in_flat_map. exists t. split; [auto|]. rewrite F. left; auto. }
    rewrite E in K. contradiction.
  - rewrite samples_on_app. rewrite <- E. f_equal. rewrite E.
    set (e := last_ts ((te, ve) :: ex) te).
    rewrite (samples_on_filter f s (fun x => e <? x)).
    apply samples_on_filter_ext. intros t Ht Hne.
    assert (Hinc : incr (map fst ((te, ve) :: ex))) by (rewrite <- E; apply samples_on_incr; exact I1).
    assert (He_in : In e (map fst ((te, ve) :: ex))).
    { unfold e. cbn [last_ts]. destruct (last_ts_in ex te) as [->|K]; [left; auto | right; exact K]. }
    rewrite <- E in He_in. apply samples_on_fst_in in He_in.
    assert (e <= L) by auto.
    destruct (e <? t) eqn:Q1, (L <? t) eqn:Q2; try congruence; try lia.
    (* e < t <= L: t is a timestamp of piece 1 after its last sample, so the series is absent there *)
    assert (In t T1) by (apply C; [auto|lia]).
    destruct (f s t) eqn:F; [|reflexivity]. exfalso.
    assert (K : In (t, z) (samples_on f s T1)).
    { unfold samples_on. apply in_flat_map. exists t. split; [auto|]. rewrite F. left; auto. }
    rewrite E in K.
    destruct (last_ts_ge ex te Hinc) as [A B].
    assert (e = last_ts ex te) by reflexivity.
    destruct K as [K|K]; [inversion K; subst; lia|].
    specialize (B _ K). cbn [fst] in B. lia.
Qed.

(* ---- merging two matrices over the same (sorted) series ids ---- *)

Definition M (g : Z -> samples) (sids : list Z) : matrix := flat_map (fun s => nonempty_stream s (g s)) sids.

Definition upsert_all (m out : matrix) : matrix :=
  fold_left (fun out sl => upsert (fst sl) (snd sl) out) m out.

Lemma upsert_all_app m1 m2 out : upsert_all (m1 ++ m2) out = upsert_all m2 (upsert_all m1 out).
Proof. unfold upsert_all. apply fold_left_app. Qed.

Lemma M_keys g sids p : In p (M g sids) -> In (fst p) sids.
Proof.
  unfold M. intro H. apply in_flat_map in H as (s & Hs & H).
  destruct (g s); cbn in H; [contradiction|]. destruct H as [<-|[]]. exact Hs.
Qed.

Lemma upsert_skip : forall P s l R, (forall p, In p P -> fst p < s) -> upsert s l (P ++ R) = P ++ upsert s l R.
Proof.
  induction P as [|[s' l'] P IH]; intros s l R H; [reflexivity|]. cbn [app upsert].
  assert (s' < s) by (apply (H (s', l')); left; auto).
  destruct (s =? s') eqn:E1; [lia|]. destruct (s <? s') eqn:E2; [lia|].
  f_equal. apply IH. intros; apply H; right; auto.
Qed.

Lemma upsert_lt s l R : (forall p, In p R -> s < fst p) -> upsert s l R = (s, merge_stream [] l) :: R.
Proof.
  destruct R as [|[s' l'] R]; intro H; [reflexivity|]. cbn [upsert].
  assert (s < s') by (apply (H (s', l')); left; auto).
  destruct (s =? s') eqn:E1; [lia|]. destruct (s <? s') eqn:E2; [reflexivity|lia].
Qed.

Lemma merge_stream_nil_l l : merge_stream [] l = l.
Proof. reflexivity. Qed.

Lemma merge_stream_nil_r l : merge_stream l [] = l.
Proof. destruct l as [|[t v] l]; cbn; [reflexivity|]. rewrite app_nil_r. reflexivity. Qed.

Lemma merge_stream_nonempty p l new : merge_stream (p :: l) new <> [].
Proof.
  destruct p as [te ve]. destruct new as [|[t0 v0] new]; cbn; [discriminate|].
  destruct (_ =? _); [discriminate|]. destruct (_ >? _); discriminate.
Qed.

Lemma upsert_all_M : forall sids P g h,
  incr sids -> (forall p s, In p P -> In s sids -> fst p < s) ->
  upsert_all (M h sids) (P ++ M g sids) = P ++ M (fun s => merge_stream (g s) (h s)) sids.
Proof.
  induction sids as [|s sids IH]; intros P g h Hi HP; [reflexivity|].
  cbn in Hi. destruct Hi as [Hs Hi].
  unfold M at 1 2 3. cbn [flat_map]. fold (M h sids) (M g sids) (M (fun s => merge_stream (g s) (h s)) sids).
  rewrite upsert_all_app.
  destruct (h s) as [|ph lh] eqn:Eh.
  - (* nothing to add for s *)
    cbn [nonempty_stream upsert_all fold_left]. rewrite merge_stream_nil_r.
    rewrite !app_assoc. apply IH; [exact Hi|].
    intros p s' Hp Hs'. apply in_app_or in Hp as [Hp|Hp]; [apply HP; [auto|right; auto]|].
    destruct (g s); cbn in Hp; [contradiction|]. destruct Hp as [<-|[]]. cbn. auto.
  - cbn [nonempty_stream]. unfold upsert_all at 2. cbn [fold_left fst snd].
    rewrite upsert_skip by (intros p Hp; apply HP; [auto|left; auto]).
    destruct (g s) as [|pg lg] eqn:Eg.
    + cbn [nonempty_stream app]. rewrite upsert_lt.
      2:{ intros p Hp. apply Hs. eapply M_keys; eauto. }
      rewrite merge_stream_nil_l.
      change (P ++ (s, ph :: lh) :: M g sids) with (P ++ [(s, ph :: lh)] ++ M g sids).
      rewrite app_assoc. rewrite IH; [rewrite <- app_assoc; reflexivity | exact Hi |].
      intros p s' Hp Hs'. apply in_app_or in Hp as [Hp|Hp]; [apply HP; [auto|right; auto]|].
      destruct Hp as [<-|[]]. cbn. auto.
    + cbn [nonempty_stream app upsert]. rewrite Z.eqb_refl.
      destruct (merge_stream (pg :: lg) (ph :: lh)) as [|pm lm] eqn:Em; [exfalso; eapply merge_stream_nonempty; eauto|].
      cbn [nonempty_stream].
      change (P ++ (s, pm :: lm) :: M g sids) with (P ++ [(s, pm :: lm)] ++ M g sids).
      rewrite app_assoc. rewrite IH; [rewrite <- app_assoc; reflexivity | exact Hi |].
      intros p s' Hp Hs'. apply in_app_or in Hp as [Hp|Hp]; [apply HP; [auto|right; auto]|].
      destruct Hp as [<-|[]]. cbn. auto.
Qed.

Lemma M_ext g h sids : (forall s, In s sids -> g s = h s) -> M g sids = M h sids.
Proof.
  induction sids as [|s sids IH]; intro H; [reflexivity|]. unfold M in *. cbn [flat_map].
  rewrite (H s) by (left; auto). f_equal. apply IH. intros; apply H; right; auto.
Qed.

Lemma M_nil sids : M (fun _ => []) sids = [].
Proof. induction sids as [|s sids IH]; [reflexivity|]. unfold M in *. cbn. exact IH. Qed.

Lemma matrix_merge_two g h sids : incr sids ->
  matrix_merge [M g sids; M h sids] = M (fun s => merge_stream (g s) (h s)) sids.
Proof.
  intro Hi. unfold matrix_merge. cbn [fold_left].
  change (fold_left (fun out sl => upsert (fst sl) (snd sl) out) (M g sids) []) with (upsert_all (M g sids) []).
  change (fold_left (fun out sl => upsert (fst sl) (snd sl) out) (M h sids) ?x) with (upsert_all (M h sids) x).
  assert (A : upsert_all (M g sids) [] = M g sids).
  { rewrite <- (M_nil sids) at 1. rewrite <- (app_nil_l (M (fun _ => []) sids)).
    rewrite upsert_all_M; [|exact Hi|intros ? ? []]. cbn [app]. apply M_ext. intros; reflexivity. }
  rewrite A. rewrite <- (app_nil_l (M g sids)). rewrite upsert_all_M; [reflexivity|exact Hi|intros ? ? []].
Qed.

Lemma eval_on_M f sids ts : eval_on f sids ts = M (fun s => samples_on f s ts) sids.
Proof. reflexivity. Qed.

(* MergeResponse's matrixMerge of two exact pieces, earlier one first, is exact on the union *)
Theorem merge_two_exact f sids ts1 ts2 :
  incr sids -> incr ts1 -> incr ts2 -> compat ts1 ts2 ->
  matrix_merge [eval_on f sids ts1; eval_on f sids ts2] = eval_on f sids (union_ts ts1 ts2).
Proof.
  intros Hs H1 H2 C. rewrite !eval_on_M. rewrite matrix_merge_two by exact Hs.
  apply M_ext. intros s _. apply merge_stream_exact; assumption.
Qed.

Lemma sort_two {A} (lt : A -> A -> bool) a b :
  sort_by lt [a; b] = if lt b a then [b; a] else [a; b].
Proof. reflexivity. Qed.

Theorem merge_response_two_exact f sids ts1 ts2 :
  incr sids -> incr ts1 -> incr ts2 -> compat ts1 ts2 ->
  (min_time (eval_on f sids ts2) <? min_time (eval_on f sids ts1)) = false ->
  merge_response [eval_on f sids ts1; eval_on f sids ts2] = eval_on f sids (union_ts ts1 ts2).
Proof.
  intros Hs H1 H2 C O. unfold merge_response. rewrite sort_two, O. apply merge_two_exact; assumption.
Qed.

Theorem merge_response_one f sids ts : incr sids ->
  merge_response [eval_on f sids ts] = eval_on f sids ts.
Proof.
  intro Hs. unfold merge_response. cbn [sort_by fold_left ins_by]. unfold matrix_merge. cbn [fold_left].
  change (fold_left (fun out sl => upsert (fst sl) (snd sl) out) ?m []) with (upsert_all m []).
  rewrite eval_on_M. rewrite <- (M_nil sids) at 1. rewrite <- (app_nil_l (M (fun _ => []) sids)).
  rewrite upsert_all_M; [|exact Hs|intros ? ? []]. cbn [app]. apply M_ext. intros; reflexivity.
Qed.

(* ---- the byFirstTime order of two exact pieces (with minTime over all series) ---- *)

Definition mt_step (acc : Z) (sl : Z * samples) : Z :=
  match snd sl with
  | [] => acc
  | (t, _) :: _ => if (acc =? -1) || (t <? acc) then t else acc
  end.

Lemma min_time_fold m : min_time m = fold_left mt_step m (-1).
Proof. reflexivity. Qed.

Definition firsts (m : matrix) : list Z :=
  flat_map (fun sl => match snd sl with [] => [] | (t, _) :: _ => [t] end) m.

Lemma mt_fold : forall m acc, (acc = -1 \/ 0 <= acc) -> (forall t, In t (firsts m) -> 0 <= t) ->
  let r := fold_left mt_step m acc in
  (r = acc \/ In r (firsts m)) /\ (forall t, In t (firsts m) -> r <= t) /\ (acc <> -1 -> r <= acc)
  /\ (acc = -1 -> firsts m <> [] -> In r (firsts m)).
Proof.
  induction m as [|[s l] m IH]; intros acc Ha Hf; cbn zeta.
  - cbn. repeat split; auto; try lia; try (intros ? []); try congruence.
  - destruct l as [|[t v] l].
    + change (firsts ((s, []) :: m)) with (firsts m) in *.
      change (fold_left mt_step ((s, []) :: m) acc) with (fold_left mt_step m acc). apply IH; auto.
    + change (firsts ((s, (t, v) :: l) :: m)) with (t :: firsts m) in *.
      assert (Ht : 0 <= t) by (apply Hf; left; auto).
      set (acc' := if (acc =? -1) || (t <? acc) then t else acc).
      change (fold_left mt_step ((s, (t, v) :: l) :: m) acc) with (fold_left mt_step m acc').
      assert (A1 : 0 <= acc' /\ acc' <= t /\ (acc <> -1 -> acc' <= acc) /\ (acc' = t \/ acc' = acc) /\ (acc = -1 -> acc' = t)).
      { unfold acc'. destruct (acc =? -1) eqn:E1; cbn [orb]; [repeat split; auto; lia|].
        destruct (t <? acc) eqn:E2; repeat split; auto; lia. }
      clearbody acc'.
      destruct A1 as (B1 & B2 & B3 & B4 & B5).
      destruct (IH acc') as (C1 & C2 & C3 & C4); [right; auto | intros; apply Hf; right; auto |].
      cbn zeta in *. remember (fold_left mt_step m acc') as r eqn:Hr. clear Hr.
      assert (r <= acc') by (apply C3; lia).
      repeat split.
      * destruct C1 as [C1|C1]; [|right; right; auto]. destruct B4 as [B4|B4]; [right; left; lia | left; lia].
      * intros t' [<-|Ht']; [lia | auto].
      * intro; lia.
      * intros Hacc _. destruct C1 as [C1|C1]; [left; rewrite C1; symmetry; auto | right; auto].
Qed.

Lemma firsts_eval_in f ts : forall sids t, In t (firsts (eval_on f sids ts)) ->
  exists s v, In s sids /\ In t ts /\ f s t = Some v.
Proof.
  induction sids as [|s sids IH]; intros t H; [contradiction|].
  unfold eval_on in H. cbn [flat_map] in H. unfold firsts in H. rewrite flat_map_app in H.
  apply in_app_or in H as [H|H].
  - destruct (samples_on f s ts) as [|[t0 v0] l] eqn:E; cbn in H; [contradiction|].
    destruct H as [<-|[]]. exists s, v0.
    assert (K : In (t0, v0) (samples_on f s ts)) by (rewrite E; left; auto).
    apply samples_on_in in K. split; [left; auto | exact K].
  - destruct (IH t H) as (s' & v & A & B). exists s', v. split; [right; auto | exact B].
Qed.

Lemma firsts_eval_le f ts : incr ts -> forall sids s t v, In s sids -> In t ts -> f s t = Some v ->
  exists t0, In t0 (firsts (eval_on f sids ts)) /\ t0 <= t.
Proof.
  intros Hi. induction sids as [|s' sids IH]; intros s t v Hs Ht Hf; [contradiction|].
  unfold eval_on. cbn [flat_map]. unfold firsts. rewrite flat_map_app.
  destruct Hs as [->|Hs].
  - assert (K : In (t, v) (samples_on f s ts)).
    { unfold samples_on. apply in_flat_map. exists t. split; [auto|]. rewrite Hf. left; auto. }
    pose proof (samples_on_incr f s ts Hi) as Hinc.
    destruct (samples_on f s ts) as [|[t0 v0] l] eqn:E; [contradiction|].
    exists t0. split; [apply in_or_app; left; cbn; auto|].
    destruct K as [K|K]; [inversion K; lia|].
    cbn in Hinc. destruct Hinc as [H1 _]. assert (t0 < t) by (apply H1; apply in_map_iff; exists (t, v); auto). lia.
  - destruct (IH s t v Hs Ht Hf) as (t0 & A & B). exists t0. split; [apply in_or_app; right; exact A | exact B].
Qed.

Lemma firsts_nil_eval f ts : forall sids, firsts (eval_on f sids ts) = [] -> eval_on f sids ts = [].
Proof.
  induction sids as [|s sids IH]; intro H; [reflexivity|].
  unfold eval_on in *. cbn [flat_map] in *. unfold firsts in H. rewrite flat_map_app in H.
  apply app_eq_nil in H as [H1 H2].
  destruct (samples_on f s ts) as [|[t0 v0] l]; [|cbn in H1; discriminate]. cbn. apply IH. exact H2.
Qed.

Lemma eval_on_nil_samples f ts : forall sids, eval_on f sids ts = [] -> forall s, In s sids -> samples_on f s ts = [].
Proof.
  induction sids as [|s' sids IH]; intros H s Hs; [contradiction|].
  unfold eval_on in H. cbn [flat_map] in H. apply app_eq_nil in H as [H1 H2].
  destruct Hs as [->|Hs]; [|apply IH; auto].
  destruct (samples_on f s ts); [reflexivity|cbn in H1; discriminate].
Qed.

Lemma samples_on_nil_filter f s p ts : samples_on f s ts = [] -> samples_on f s (filter p ts) = [].
Proof. intro H. rewrite <- (samples_on_filter f s p), H. reflexivity. Qed.

Lemma matrix_merge_nil_l f sids ts : incr sids -> matrix_merge [[]; eval_on f sids ts] = eval_on f sids ts.
Proof.
  intro Hs. pose proof (merge_response_one f sids ts Hs) as H. unfold merge_response in H.
  cbn [sort_by fold_left ins_by] in H. unfold matrix_merge in *. cbn [fold_left] in *. exact H.
Qed.

Definition nonneg (ts : list Z) : Prop := forall t, In t ts -> 0 <= t.

(* MergeResponse of an exact piece and an exact later (overlapping or adjacent) piece is exact:
   the sort by minTime keeps them in time order, except when the later piece is empty *)
Theorem merge_response_two f sids ts1 ts2 :
  incr sids -> incr ts1 -> incr ts2 -> compat ts1 ts2 -> nonneg ts1 -> nonneg ts2 ->
  merge_response [eval_on f sids ts1; eval_on f sids ts2] = eval_on f sids (union_ts ts1 ts2).
Proof.
  intros Hs H1 H2 C N1 N2.
  destruct (min_time (eval_on f sids ts2) <? min_time (eval_on f sids ts1)) eqn:O;
    [|apply merge_response_two_exact; assumption].
  apply Z.ltb_lt in O. rewrite !min_time_fold in O.
  assert (F1 : forall t, In t (firsts (eval_on f sids ts1)) -> 0 <= t).
  { intros t Ht. apply firsts_eval_in in Ht as (s & v & _ & Ht & _). auto. }
  assert (F2 : forall t, In t (firsts (eval_on f sids ts2)) -> 0 <= t).
  { intros t Ht. apply firsts_eval_in in Ht as (s & v & _ & Ht & _). auto. }
  destruct (mt_fold (eval_on f sids ts1) (-1) (or_introl eq_refl) F1) as (A1 & A2 & _ & A4).
  destruct (mt_fold (eval_on f sids ts2) (-1) (or_introl eq_refl) F2) as (B1 & B2 & _ & B4).
  cbn zeta in *.
  set (r1 := fold_left mt_step (eval_on f sids ts1) (-1)) in *.
  set (r2 := fold_left mt_step (eval_on f sids ts2) (-1)) in *.
  destruct (firsts (eval_on f sids ts2)) as [|x2 fs2] eqn:E2.
  - (* the later piece is empty: the swap is harmless *)
    apply firsts_nil_eval in E2.
    unfold merge_response. rewrite sort_two. rewrite !min_time_fold. fold r1 r2.
    assert (X : (r2 <? r1) = true) by lia. rewrite X. rewrite E2.
    rewrite matrix_merge_nil_l by exact Hs. rewrite !eval_on_M. apply M_ext. intros s Hin.
    pose proof (eval_on_nil_samples f ts2 sids E2 s Hin) as Z2.
    destruct ts1 as [|t1 ts1]; [cbn [union_ts]; rewrite Z2; reflexivity|].
    cbn [union_ts]. rewrite samples_on_app, samples_on_nil_filter by exact Z2. rewrite app_nil_r. reflexivity.
  - exfalso. rewrite <- E2 in *.
    assert (R2 : In r2 (firsts (eval_on f sids ts2))) by (apply B4; [reflexivity | rewrite E2; discriminate]).
    pose proof (F2 _ R2) as P2.
    destruct (firsts_eval_in _ _ _ _ R2) as (s2 & v2 & Hs2 & Ht2 & Hf2).
    assert (R1 : In r1 (firsts (eval_on f sids ts1))).
    { destruct A1 as [A1|A1]; [lia | exact A1]. }
    destruct (firsts_eval_in _ _ _ _ R1) as (s1 & v1 & Hs1 & Ht1 & Hf1).
    destruct ts1 as [|t1 ts1]; [contradiction|].
    cbn [compat] in C.
    assert (HL : r1 <= last_z (t1 :: ts1) t1).
    { cbn [last_z]. destruct (last_z_ge ts1 t1 H1) as [X Y]. destruct Ht1 as [<-|Ht1]; [lia | auto]. }
    destruct (Z_le_gt_dec r2 (last_z (t1 :: ts1) t1)) as [Q|Q]; [|lia].
    assert (In r2 (t1 :: ts1)) by (apply C; auto).
    destruct (firsts_eval_le f (t1 :: ts1) H1 sids s2 r2 v2 Hs2 H Hf2) as (t0 & T0 & T1).
    specialize (A2 _ T0). lia.
Qed.

(* ---- partition in matching-step mode: every downstream request starts on the request's grid ---- *)

Definition on_grid (rs st x : Z) : Prop := Z.rem (x - rs) st = 0.

Lemma realign_on_grid rs st ee : st <> 0 -> on_grid rs st (ee - Z.rem (ee - rs) st).
Proof.
  intro H. unfold on_grid.
  replace (ee - Z.rem (ee - rs) st - rs) with (Z.quot (ee - rs) st * st).
  - apply Z.rem_mul. exact H.
  - pose proof (Z.quot_rem' (ee - rs) st). lia.
Qed.

Lemma part_loop_on_grid rs re st : 0 < st -> forall exts start rq rp fin,
  on_grid rs st start ->
  part_loop rs re st start exts = (rq, rp, fin) ->
  on_grid rs st fin /\ forall ab, In ab rq -> on_grid rs st (fst ab).
Proof.
  intro Hst. induction exts as [|[[es ee] em] rest IH]; intros start rq rp fin G E.
  - cbn in E. inversion E; subst. split; [exact G | intros ? []].
  - cbn [part_loop] in E.
    destruct ((ee <? start) || (es >? re)); [eapply IH; eauto|].
    destruct (negb (rs =? re) && (re - rs >? min_cache_extent) && (ee - es <? min_cache_extent)); [eapply IH; eauto|].
    assert (X : (st >? 0) = true) by lia. rewrite X in E.
    destruct (part_loop rs re st (ee - Z.rem (ee - rs) st) rest) as [[rq' rp'] fin'] eqn:R.
    inversion E; subst. clear E.
    destruct (IH _ _ _ _ (realign_on_grid rs st ee ltac:(lia)) R) as [A B].
    split; [exact A|]. intros ab Hab. apply in_app_or in Hab as [Hab|Hab]; [|auto].
    destruct (start <? es); [|contradiction]. destruct Hab as [<-|[]]. exact G.
Qed.

Theorem partition_on_grid rs re st exts reqs cached : 0 < st ->
  partition rs re st exts = (reqs, cached) ->
  forall ab, In ab reqs -> on_grid rs st (fst ab).
Proof.
  intros Hst E. unfold partition in E.
  destruct (part_loop rs re st rs exts) as [[rq rp] fin] eqn:R.
  assert (G0 : on_grid rs st rs) by (unfold on_grid; rewrite Z.sub_diag; apply Z.rem_0_l; lia).
  destruct (part_loop_on_grid rs re st Hst _ _ _ _ _ G0 R) as [A B].
  inversion E; subst. clear E. intros ab Hab.
  assert (K : In ab rq \/ ab = (fin, re) \/ ab = (rs, re)).
  { destruct ((rs =? re) && Nat.eqb (length cached) 0).
    - apply in_app_or in Hab as [Hab|[<-|[]]]; [|auto].
      destruct (fin <? re); [apply in_app_or in Hab as [Hab|[<-|[]]]; auto | auto].
    - destruct (fin <? re); [apply in_app_or in Hab as [Hab|[<-|[]]]; auto | auto]. }
  destruct K as [K | [ -> | -> ] ]; [auto | exact A | exact G0].
Qed.

(* ---- boolean checkers for the side conditions (used by the examples) ---- *)

Fixpoint incrb (l : list Z) : bool :=
  match l with
  | [] => true
  | x :: l' => forallb (fun y => x <? y) l' && incrb l'
  end.

Lemma incrb_incr l : incrb l = true -> incr l.
Proof.
  induction l as [|x l IH]; cbn; [auto|]. intro H. apply andb_true_iff in H as [H1 H2].
  split; [|auto]. intros y Hy. rewrite forallb_forall in H1. specialize (H1 y Hy). lia.
Qed.

Lemma nonnegb_nonneg l : forallb (fun t => 0 <=? t) l = true -> nonneg l.
Proof. intros H t Ht. rewrite forallb_forall in H. specialize (H t Ht). lia. Qed.

Definition compatb (ts1 ts2 : list Z) : bool :=
  match ts1 with
  | [] => true
  | t :: _ => forallb (fun x => negb (x <=? last_z ts1 t) || existsb (Z.eqb x) ts1) ts2
  end.

Lemma compatb_compat ts1 ts2 : compatb ts1 ts2 = true -> compat ts1 ts2.
Proof.
  destruct ts1 as [|t ts1]; cbn [compatb compat]; [auto|]. intros H x Hx Hle.
  rewrite forallb_forall in H. specialize (H x Hx). apply orb_true_iff in H as [H|H].
  - apply negb_true_iff in H. lia.
  - apply existsb_exists in H as (y & Hy & E). apply Z.eqb_eq in E. subst. exact Hy.
Qed.
